import CookModel.Lemmas.DiagComp
/-
  More diagnostics of the component parsers (C07, completeness in isolation and the quiet direction):
  duplicate modifier, recipe modifier on cookware, alias errors, intermediate-reference data on
  cookware, the syntax errors of the intermediate-reference data, empty value.

  `Pushed l s s'`: the tables and extensions are unchanged and the new events are EXACTLY `l`.
-/
set_option linter.unusedSectionVars false
set_option linter.unusedSimpArgs false
set_option linter.unusedVariables false
namespace Cook

variable {α : Type} [Arith α]

/-- `s'` has the tables and extensions of `s`, and its queue is the queue of `s` followed by exactly `l` -/
def Pushed (l : List (Ev α)) (s s' : BP α) : Prop :=
  s'.cs = s.cs ∧ s'.ext = s.ext ∧ s'.evs.toList = s.evs.toList ++ l

theorem Pushed.refl (s : BP α) : Pushed [] s s := ⟨rfl, rfl, by simp⟩
theorem Same.pushed {a b : BP α} (h : Same a b) : Pushed [] a b := ⟨h.1, h.2.1, by rw [h.2.2]; simp⟩
theorem Pushed.same {a b : BP α} (h : Pushed [] a b) : Same a b :=
  ⟨h.1, h.2.1, by have := h.2.2; simp only [List.append_nil] at this; exact Array.ext' this⟩
theorem Pushed.trans {l1 l2 : List (Ev α)} {a b c : BP α} (h1 : Pushed l1 a b) (h2 : Pushed l2 b c) :
    Pushed (l1 ++ l2) a c :=
  ⟨h2.1.trans h1.1, h2.2.1.trans h1.2.1, by rw [h2.2.2, h1.2.2, List.append_assoc]⟩
theorem Pushed.grow {l : List (Ev α)} {a b : BP α} (h : Pushed l a b) : Grow a b := ⟨h.1, h.2.1, l, h.2.2⟩
theorem Pushed.has {l : List (Ev α)} {a b : BP α} (h : Pushed l a b) {ev : Ev α} (hm : ev ∈ l) : Has ev a b :=
  ⟨l, h.2.2, hm⟩
theorem Pushed.one (s : BP α) (ev : Ev α) : Pushed [ev] s { s with evs := s.evs.push ev } :=
  ⟨rfl, rfl, by simp⟩
theorem Pushed.cast {l1 l2 : List (Ev α)} {a b : BP α} (h : Pushed l1 a b) (e : l1 = l2) : Pushed l2 a b := e ▸ h

/-! ### modifiers made of plain modifier tokens (`@ & ? + -`, no parenthesised data) -/

/-- every token is one of `@ & ? + -` -/
def SimpleMods (mtoks : List Tok) : Prop := ∀ t ∈ mtoks, (modifierFlag t.kind).isSome = true

def dupModEv (span : Span) : Ev α := .error ⟨.error, .parse, "duplicate-modifier", [span]⟩

/-- the flags `parse_modifiers` accumulates, and how many tokens repeat a flag that is already set -/
def foldMods (m : Modifiers) : List Tok → Modifiers × Nat
  | [] => (m, 0)
  | t :: r =>
    let f := (modifierFlag t.kind).getD 0
    if (decide (f ≠ 0) && m.contains f) = true then ((foldMods m r).1, (foldMods m r).2 + 1)
    else foldMods (m.insert f) r

theorem parseInterRef_simple (toks : List Tok) (hs : SimpleMods toks) (s : BP α) :
    parseInterRef (α := α) toks s = ((none, toks), s) := by
  unfold parseInterRef
  cases toks with
  | nil => rfl
  | cons t0 r =>
    have h0 : (t0.kind != .openParen) = true := by
      have := hs t0 (by simp)
      cases hk : t0.kind <;> rw [hk] at this <;> first | rfl | (exfalso; revert this; decide)
    simp only [h0, if_true]
    rfl

theorem SimpleMods.tail {t : Tok} {r : List Tok} (h : SimpleMods (t :: r)) : SimpleMods r :=
  fun x hx => h x (List.mem_cons_of_mem _ hx)

/-- the loop of `parse_modifiers` on plain modifier tokens: the flags, no intermediate data, and one
    `duplicate-modifier` error per repeated flag, nothing else -/
theorem parseModifiersLoop_simple (span : Span) (ie : Bool) (fuel : Nat) (mtoks : List Tok) (m : Modifiers)
    (d : Option (Loc InterData)) (s : BP α) (hs : SimpleMods mtoks) (hf : mtoks.length ≤ fuel) :
    Sat (parseModifiersLoop (α := α) span ie fuel mtoks m d) s (fun r s' =>
      r.1 = (foldMods m mtoks).1 ∧ (d = none → r.2 = none) ∧
      Pushed (List.replicate (foldMods m mtoks).2 (dupModEv span)) s s') := by
  induction fuel generalizing mtoks m d s with
  | zero =>
    have : mtoks = [] := List.eq_nil_of_length_eq_zero (by omega)
    subst this
    unfold parseModifiersLoop
    exact Sat.pure ⟨rfl, fun h => h, Pushed.refl _⟩
  | succ fuel ih =>
    cases mtoks with
    | nil =>
      unfold parseModifiersLoop
      exact Sat.pure ⟨rfl, fun h => h, Pushed.refl _⟩
    | cons tok rest =>
      unfold parseModifiersLoop
      obtain ⟨f, hfl⟩ := Option.isSome_iff_exists.mp (hs tok (by simp))
      have hrest := hs.tail
      have hlen : rest.length ≤ fuel := by simp only [List.length_cons] at hf; omega
      simp only [hfl]
      refine Sat.bind (Sat.pure ?_)
      have tail : ∀ (d' : Option (Loc InterData)), (d = none → d' = none) →
          Sat (if (decide (f ≠ 0) && m.contains f) = true then do
                perr "duplicate-modifier" [span]
                parseModifiersLoop (α := α) span ie fuel rest m d'
              else parseModifiersLoop span ie fuel rest (m.insert f) d') s
            (fun r s' => r.1 = (foldMods m (tok :: rest)).1 ∧ (d = none → r.2 = none) ∧
              Pushed (List.replicate (foldMods m (tok :: rest)).2 (dupModEv span)) s s') := by
        intro d' hd'
        have hfm : (modifierFlag tok.kind).getD 0 = f := by rw [hfl]; rfl
        split
        · rename_i hc
          refine Sat.bind (Sat.perrE ?_)
          refine Sat.mono (ih rest m d' _ hrest hlen) ?_
          rintro r s2 ⟨h1, h2, h3⟩
          have e : foldMods m (tok :: rest) = ((foldMods m rest).1, (foldMods m rest).2 + 1) := by
            show (if _ then _ else _) = _
            rw [hfm, if_pos hc]
          rw [e]
          refine ⟨h1, fun h0 => h2 (hd' h0), ?_⟩
          exact ((Pushed.one s (dupModEv span)).trans h3).cast (by simp [List.replicate_succ])
        · rename_i hc
          refine Sat.mono (ih rest (m.insert f) d' s hrest hlen) ?_
          rintro r s2 ⟨h1, h2, h3⟩
          have e : foldMods m (tok :: rest) = foldMods (m.insert f) rest := by
            show (if _ then _ else _) = _
            rw [hfm, if_neg hc]
          rw [e]
          exact ⟨h1, fun h0 => h2 (hd' h0), h3⟩
      try dsimp only
      split
      · refine Sat.bind ?_
        unfold Sat
        rw [parseInterRef_simple rest hrest s]
        exact tail none (fun _ => rfl)
      · exact tail d (fun h => h)

def simpleFlags (mtoks : List Tok) (pos : Nat) : Loc Modifiers :=
  if mtoks.isEmpty then ⟨Modifiers.empty, Span.pos pos⟩ else ⟨(foldMods Modifiers.empty mtoks).1, tokensSpan mtoks⟩

/-- `parse_modifiers` on plain modifier tokens -/
theorem parseModifiers_simple (mtoks : List Tok) (pos : Nat) (s : BP α) (hs : SimpleMods mtoks) :
    Sat (parseModifiers (α := α) mtoks pos) s (fun r s' =>
      r = ⟨simpleFlags mtoks pos, none⟩ ∧
      Pushed (List.replicate (foldMods Modifiers.empty mtoks).2 (dupModEv (tokensSpan mtoks))) s s') := by
  unfold parseModifiers simpleFlags
  split
  · rename_i he
    have : mtoks = [] := by cases mtoks <;> simp_all
    subst this
    exact Sat.pure ⟨rfl, Pushed.refl _⟩
  · dsimp only
    refine Sat.bind (Sat.hasExt ?_)
    refine Sat.bind (Sat.mono (parseModifiersLoop_simple _ _ _ mtoks _ none s hs (Nat.le_succ _)) ?_)
    rintro r s1 ⟨h1, h2, h3⟩
    refine Sat.pure ⟨?_, h3⟩
    rw [h1, h2 rfl]

/-! ### bits: the accumulated flags stay below 32, and what `insert` does to `contains` -/

def flagList : List Nat := [1, 2, 4, 8, 16]

theorem modifierFlag_mem {k : TK} {f : Nat} (h : modifierFlag k = some f) : f ∈ flagList := by
  unfold modifierFlag at h
  repeat (first | (split at h; (simp only [Option.some.injEq] at h; subst h; decide)) | cases h)

theorem bits_or_lt : ∀ b, b < 32 → ∀ f ∈ flagList, (b ||| f) < 32 := by decide

theorem bits_contains_insert : ∀ b, b < 32 → ∀ f ∈ flagList, ∀ g ∈ flagList,
    (((b ||| f) &&& g) == g) = (((b &&& g) == g) || (f == g)) := by decide

theorem flag_ne_zero : ∀ f ∈ flagList, f ≠ 0 := by decide

theorem modifierFlag_recipe (k : TK) : modifierFlag k = some Modifiers.RECIPE ↔ k = .at := by
  cases k <;> decide

theorem foldMods_bits (m : Modifiers) (l : List Tok) (hs : SimpleMods l) (hm : m.bits < 32) :
    (foldMods m l).1.bits < 32 := by
  induction l generalizing m with
  | nil => exact hm
  | cons t r ih =>
    obtain ⟨f, hfl⟩ := Option.isSome_iff_exists.mp (hs t (by simp))
    show (if _ then _ else _ : Modifiers × Nat).1.bits < 32
    split
    · exact ih m hs.tail hm
    · refine ih _ hs.tail ?_
      rw [hfl]
      exact bits_or_lt _ hm _ (modifierFlag_mem hfl)

/-- the accumulated flags contain `g` iff they did before or some token carries `g` -/
theorem foldMods_contains (m : Modifiers) (l : List Tok) (hs : SimpleMods l) (hm : m.bits < 32)
    (g : Nat) (hg : g ∈ flagList) :
    (foldMods m l).1.contains g = true ↔ (m.contains g = true ∨ ∃ t ∈ l, modifierFlag t.kind = some g) := by
  induction l generalizing m with
  | nil => simp [foldMods]
  | cons t r ih =>
    obtain ⟨f, hfl⟩ := Option.isSome_iff_exists.mp (hs t (by simp))
    have hfm := modifierFlag_mem hfl
    have e : foldMods m (t :: r) = (if (decide (f ≠ 0) && m.contains f) = true then
        ((foldMods m r).1, (foldMods m r).2 + 1) else foldMods (m.insert f) r) := by
      show (if _ then _ else _) = _
      rw [hfl]; rfl
    rw [e]
    split
    · rename_i hc
      simp only [Bool.and_eq_true, decide_eq_true_eq] at hc
      rw [ih m hs.tail hm]
      constructor
      · rintro (h | ⟨x, hx, hxf⟩)
        · exact Or.inl h
        · exact Or.inr ⟨x, List.mem_cons_of_mem _ hx, hxf⟩
      · rintro (h | ⟨x, hx, hxf⟩)
        · exact Or.inl h
        · simp only [List.mem_cons] at hx
          rcases hx with rfl | hx
          · rw [hfl] at hxf
            simp only [Option.some.injEq] at hxf
            subst hxf
            exact Or.inl hc.2
          · exact Or.inr ⟨x, hx, hxf⟩
    · have hlt : (m.insert f).bits < 32 := bits_or_lt _ hm _ hfm
      rw [ih (m.insert f) hs.tail hlt]
      have hb := bits_contains_insert _ hm f hfm g hg
      have hci : (m.insert f).contains g = (m.contains g || (f == g)) := hb
      rw [hci]
      simp only [Bool.or_eq_true, beq_iff_eq]
      constructor
      · rintro ((h | h) | ⟨x, hx, hxf⟩)
        · exact Or.inl h
        · exact Or.inr ⟨t, by simp, by rw [hfl, h]⟩
        · exact Or.inr ⟨x, List.mem_cons_of_mem _ hx, hxf⟩
      · rintro (h | ⟨x, hx, hxf⟩)
        · exact Or.inl (Or.inl h)
        · simp only [List.mem_cons] at hx
          rcases hx with rfl | hx
          · rw [hfl] at hxf
            simp only [Option.some.injEq] at hxf
            exact Or.inl (Or.inr hxf)
          · exact Or.inr ⟨x, hx, hxf⟩

/-- no flag is repeated iff the flags of the tokens are pairwise different -/
theorem foldMods_dups (m : Modifiers) (l : List Tok) (hs : SimpleMods l) (hm : m.bits < 32) :
    (foldMods m l).2 = 0 ↔
      ((∀ t ∈ l, ∀ f, modifierFlag t.kind = some f → m.contains f = false) ∧
       (l.map (fun t => modifierFlag t.kind)).Nodup) := by
  induction l generalizing m with
  | nil => simp [foldMods]
  | cons t r ih =>
    obtain ⟨f, hfl⟩ := Option.isSome_iff_exists.mp (hs t (by simp))
    have hfm := modifierFlag_mem hfl
    have e : foldMods m (t :: r) = (if (decide (f ≠ 0) && m.contains f) = true then
        ((foldMods m r).1, (foldMods m r).2 + 1) else foldMods (m.insert f) r) := by
      show (if _ then _ else _) = _
      rw [hfl]; rfl
    rw [e]
    split
    · rename_i hc
      simp only [Bool.and_eq_true, decide_eq_true_eq] at hc
      constructor
      · intro h; simp at h
      · rintro ⟨h1, -⟩
        have := h1 t (by simp) f hfl
        rw [hc.2] at this; cases this
    · rename_i hc
      have hcf : m.contains f = false := by
        cases hx : m.contains f
        · rfl
        · exfalso; apply hc; simp [hx, flag_ne_zero f hfm]
      have hlt : (m.insert f).bits < 32 := bits_or_lt _ hm _ hfm
      rw [ih (m.insert f) hs.tail hlt]
      have hci : ∀ g ∈ flagList, (m.insert f).contains g = (m.contains g || (f == g)) :=
        fun g hg => bits_contains_insert _ hm f hfm g hg
      simp only [List.map_cons, List.nodup_cons, List.mem_map, not_exists, not_and]
      constructor
      · rintro ⟨h1, h2⟩
        refine ⟨?_, ?_, h2⟩
        · intro x hx g hxg
          simp only [List.mem_cons] at hx
          rcases hx with rfl | hx
          · rw [hfl] at hxg; simp only [Option.some.injEq] at hxg; subst hxg; exact hcf
          · have := h1 x hx g hxg
            rw [hci g (modifierFlag_mem hxg)] at this
            simp only [Bool.or_eq_false_iff] at this
            exact this.1
        · intro x hx hxf
          have := h1 x hx f (by rw [hxf, hfl])
          rw [hci f hfm] at this
          simp at this
      · rintro ⟨h1, h2, h3⟩
        refine ⟨?_, h3⟩
        intro x hx g hxg
        rw [hci g (modifierFlag_mem hxg)]
        simp only [Bool.or_eq_false_iff, beq_eq_false_iff_ne, ne_eq]
        refine ⟨h1 x (List.mem_cons_of_mem _ hx) g hxg, ?_⟩
        intro hfg
        exact h2 x hx (by rw [hxg, hfl, hfg])

theorem empty_contains_false : ∀ f ∈ flagList, Modifiers.empty.contains f = false := by decide

/-- **duplicate modifier, exactly**: no `duplicate-modifier` iff the modifier tokens are pairwise different -/
theorem foldMods_empty_dups (l : List Tok) (hs : SimpleMods l) :
    (foldMods Modifiers.empty l).2 = 0 ↔ (l.map (fun t => modifierFlag t.kind)).Nodup := by
  rw [foldMods_dups _ _ hs (by decide)]
  constructor
  · exact fun h => h.2
  · intro h
    exact ⟨fun t _ f hf => empty_contains_false f (modifierFlag_mem hf), h⟩

theorem simpleFlags_recipe (mtoks : List Tok) (pos : Nat) (hs : SimpleMods mtoks) :
    (simpleFlags mtoks pos).val.contains Modifiers.RECIPE = true ↔ ∃ t ∈ mtoks, t.kind = .at := by
  unfold simpleFlags
  split
  · rename_i he
    have : mtoks = [] := by cases mtoks <;> simp_all
    subst this
    simp only [List.not_mem_nil, false_and, exists_false, iff_false]
    decide
  · show (foldMods Modifiers.empty mtoks).1.contains Modifiers.RECIPE = true ↔ _
    rw [foldMods_contains _ _ hs (by decide) Modifiers.RECIPE (by decide)]
    constructor
    · rintro (h | ⟨t, ht, hf⟩)
      · exact absurd h (by decide)
      · exact ⟨t, ht, (modifierFlag_recipe _).mp hf⟩
    · rintro ⟨t, ht, hk⟩
      exact Or.inr ⟨t, ht, (modifierFlag_recipe _).mpr hk⟩

end Cook
