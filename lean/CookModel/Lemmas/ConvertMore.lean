import CookModel.Lemmas.Convert
/-
  More lemmas about the conversion model at `α := Rat` (audit of C09): closeness of converted values
  to the standard definitions, agreement of conversion chains at the level of quantities, the
  recipe-wide conversion position by position.  Names carry the prefix `cvm_`.
-/
namespace Cook
open Arith

/-! ### absolute values -/

theorem cvm_abs_mul (a b : Rat) : Rat.abs (a * b) = Rat.abs a * Rat.abs b := by
  rcases (Rat.le_total (a := 0) (b := a)) with ha | ha <;>
    rcases (Rat.le_total (a := 0) (b := b)) with hb | hb
  · rw [Rat.abs_of_nonneg ha, Rat.abs_of_nonneg hb, Rat.abs_of_nonneg (Rat.mul_nonneg ha hb)]
  · have h1 : 0 ≤ a * (-b) := Rat.mul_nonneg ha (by grind)
    have h2 : a * b ≤ 0 := by grind
    rw [Rat.abs_of_nonneg ha, Rat.abs_of_nonpos hb, Rat.abs_of_nonpos h2]; grind
  · have h1 : 0 ≤ (-a) * b := Rat.mul_nonneg (by grind) hb
    have h2 : a * b ≤ 0 := by grind
    rw [Rat.abs_of_nonpos ha, Rat.abs_of_nonneg hb, Rat.abs_of_nonpos h2]; grind
  · have h1 : 0 ≤ (-a) * (-b) := Rat.mul_nonneg (by grind) (by grind)
    have h2 : 0 ≤ a * b := by grind
    rw [Rat.abs_of_nonpos ha, Rat.abs_of_nonpos hb, Rat.abs_of_nonneg h2]; grind

/-- a relative bound on a slope carries over to every multiple -/
theorem cvm_scale_bound (D δ ρ : Rat) (h : Rat.abs δ * 1000000 ≤ Rat.abs ρ * 2) :
    Rat.abs (D * δ) * 1000000 ≤ Rat.abs (D * ρ) * 2 := by
  rw [cvm_abs_mul, cvm_abs_mul]
  have := Rat.mul_le_mul_of_nonneg_left h (Rat.abs_nonneg (x := D))
  grind

/-! ### converted values against the standard definitions -/

/-- `v` of a unit with standard definition `sa` (ratio, offset), expressed in the unit with standard
    definition `sb`: the conversion a reader does with the textbook definitions -/
def stdConvert (v : Rat) (sa sb : Rat × Rat) : Rat := ((v + sa.2) * sa.1) / sb.1 - sb.2

/-- every unit that has a standard definition carries exactly the standard offset -/
def offsetsExact (units : List (Unit Rat)) : Bool :=
  units.all (fun u => match stdOf u with
    | some s => decide (u.difference = s.2)
    | none => true)

theorem cvm_stdDef_ratio_ne : stdDef.all (fun e => decide (e.2.1 ≠ 0)) = true := by decide +kernel

theorem cvm_stdOf_ratio_ne {u : Unit Rat} {s : Rat × Rat} (h : stdOf u = some s) : s.1 ≠ 0 := by
  unfold stdOf at h
  split at h
  · rename_i sym _
    unfold stdLookup at h
    split at h
    · rename_i e he
      simp only [Option.some.injEq] at h
      subst h
      have := (List.all_eq_true.mp cvm_stdDef_ratio_ne) e (List.mem_of_find?_eq_some he)
      simpa using this
    · cases h
  · cases h

theorem cvm_offset_exact {units : List (Unit Rat)} (h : offsetsExact units = true) {u : Unit Rat}
    (hu : u ∈ units) {s : Rat × Rat} (hs : stdOf u = some s) : u.difference = s.2 := by
  have := (List.all_eq_true.mp h) u hu
  simpa [hs] using this

/-- Converting `v` from `a` to `b` (two units of one quantity that both have a standard definition,
    in a table whose slopes are within 2·10⁻⁶ of the standard ones and whose offsets are the
    standard ones) gives a value within 2·10⁻⁶ — relative to the result counted from the absolute
    zero of `b`'s scale — of what the standard definitions give. -/
theorem cvm_convert_close_std {units : List (Unit Rat)} (hm : shippedMatchesStd units = true)
    (ho : offsetsExact units = true) {a b : Unit Rat} (ha : a ∈ units) (hb : b ∈ units)
    (hq : a.pq = b.pq) (hid : a.id = b.id → a = b) {sa sb : Rat × Rat}
    (hsa : stdOf a = some sa) (hsb : stdOf b = some sb) (v : Rat) :
    ∃ w, convertF64 v a b = some w ∧
      Rat.abs (w - stdConvert v sa sb) * 1000000 ≤ Rat.abs (stdConvert v sa sb + sb.2) * 2 := by
  by_cases h : a.id = b.id
  · have hab := hid h
    subst hab
    rw [hsa] at hsb
    simp only [Option.some.injEq] at hsb
    subst hsb
    have hne := cvm_stdOf_ratio_ne hsa
    refine ⟨v, by simp [convertF64], ?_⟩
    have h0 : v - stdConvert v sa sa = 0 := by unfold stdConvert; grind
    rw [h0, Rat.abs_zero]
    have := Rat.abs_nonneg (x := stdConvert v sa sa + sa.2)
    grind
  · refine ⟨convertF64Raw v a b, by simp [convertF64, convertF64Free, h, hq], ?_⟩
    have hda := cvm_offset_exact ho ha hsa
    have hdb := cvm_offset_exact ho hb hsb
    have hslope := (shippedMatchesStd_pair hm ha hb hq hsa hsb).1
    have hnb := cvm_stdOf_ratio_ne hsb
    have h1 : convertF64Raw v a b - stdConvert v sa sb =
        (v + sa.2) * (a.ratio / b.ratio - sa.1 / sb.1) := by
      rw [convertF64Raw_rat, hda, hdb]; unfold stdConvert; grind
    have h2 : stdConvert v sa sb + sb.2 = (v + sa.2) * (sa.1 / sb.1) := by
      unfold stdConvert; grind
    rw [h1, h2]
    exact cvm_scale_bound _ _ _ hslope

/-! ### conversion chains agree -/

theorem cvm_amounts_inj {u : Unit Rat} (hu : u.ratio ≠ 0) :
    ∀ {l1 l2 : List Rat}, amounts l1 u = amounts l2 u → l1 = l2 := by
  intro l1
  induction l1 with
  | nil => intro l2 h; cases l2 <;> simp_all [amounts]
  | cons x xs ih =>
    intro l2 h
    cases l2 with
    | nil => simp [amounts] at h
    | cons y ys =>
      simp only [amounts, List.map_cons, List.cons.injEq] at h
      rw [amount_inj hu h.1, ih (l2 := ys) h.2]

/-- two restatements of one quantity that end in the same unit state the same numbers -/
theorem cvm_restated_same {c : Converter Rat} (hc : c.Sound) {q q1 q2 : SQuantity Rat}
    {u nu : Unit Rat} (h1 : Restated c q u q1 nu) (h2 : Restated c q u q2 nu) :
    q1.value.parts = q2.value.parts :=
  cvm_amounts_inj (hc.ratio_ne _ h1.mem) (h1.amounts.trans h2.amounts.symm)

theorem cvm_getUnit_key {c : Converter Rat} {k : Str} {u : Unit Rat}
    (h : c.getUnit (.key k) = .ok u) : c.findUnit k = some u := by
  simp only [Converter.getUnit] at h
  split at h
  · simp only [Except.ok.injEq] at h; subst h; assumption
  · cases h

/-- what a successful conversion to the unit with key `k` leaves -/
theorem cvm_convert_key {c : Converter Rat} (hc : c.Sound) {q q' : SQuantity Rat} {k : Str}
    (h : convertImpl c q (.unit (.key k)) = (q', .ok ())) :
    ∃ u nu, unitInfo c q = some u ∧ c.findUnit k = some nu ∧ Restated c q u q' nu := by
  have := convertImpl_spec hc q (.unit (.key k)) (by intro x hx; cases hx)
  rw [h] at this
  obtain ⟨u, nu, hu, hr, _, _, hkey⟩ := this.ok_inv
  exact ⟨u, nu, hu, cvm_getUnit_key (hkey _ rfl), hr⟩

end Cook

namespace Cook
open Arith

/-! ### the recipe-wide conversion, quantity by quantity -/

/-- all quantities `ScaledRecipe::convert` visits, in the order it visits them -/
def recipeVisitedQuantities (r : ScaledRecipe Rat) : List (SQuantity Rat) :=
  r.ingredients.filterMap (·.quantity) ++ r.timers.filterMap (·.quantity) ++ r.inlineQuantities

/-- what the conversion to system `to` does to one optional quantity of a recipe: nothing to an
    absent one; a present one is either restated (same amounts, unit of the target system's list of
    its physical quantity) or left exactly as it was for one of the documented reasons -/
def QuantityConverted (c : Converter Rat) (to : System) :
    Option (SQuantity Rat) → Option (SQuantity Rat) → Prop
  | none, q' => q' = none
  | some q, q' => ∃ x, q' = some x ∧
      ((∃ u nu, unitInfo c q = some u ∧ Restated c q u x nu ∧
          nu ∈ ((c.best u.pq).conversions to).unitsOf) ∨
       (x = q ∧ ∃ e, ConvertFailure c q (.best to) e))

theorem cvm_quantity_dichotomy {c : Converter Rat} (hc : c.Sound) (to : System) (q : SQuantity Rat) :
    (convErrors c to (some q) = [] ∧
      ∃ u nu, unitInfo c q = some u ∧ Restated c q u (convertImpl c q (.best to)).1 nu ∧
        nu ∈ ((c.best u.pq).conversions to).unitsOf) ∨
    (∃ e, convErrors c to (some q) = [e] ∧ (convertImpl c q (.best to)).1 = q ∧
      ConvertFailure c q (.best to) e) := by
  have h := convertImpl_spec hc q (.best to) (by intro x hx; cases hx)
  simp only [convErrors]
  generalize convertImpl c q (.best to) = r at h
  cases h with
  | failed e he => exact Or.inr ⟨e, rfl, rfl, he⟩
  | converted q' u nu hu hr hbest _ _ => exact Or.inl ⟨rfl, u, nu, hu, hr, hbest to rfl⟩

theorem cvm_convResult_converted {c : Converter Rat} (hc : c.Sound) (to : System)
    (q : Option (SQuantity Rat)) : QuantityConverted c to q (convResult c to q) := by
  cases q with
  | none => rfl
  | some q =>
    refine ⟨_, rfl, ?_⟩
    rcases cvm_quantity_dichotomy hc to q with ⟨_, u, nu, hu, hr, hl⟩ | ⟨e, _, heq, hf⟩
    · exact Or.inl ⟨u, nu, hu, hr, hl⟩
    · exact Or.inr ⟨heq, e, hf⟩

theorem cvm_errors_filterMap {β : Type} (c : Converter Rat) (to : System) (f : β → Option (SQuantity Rat))
    (l : List β) :
    (l.map (fun i => convErrors c to (f i))).flatten =
      (l.filterMap f).flatMap (fun q => convErrors c to (some q)) := by
  induction l with
  | nil => rfl
  | cons x xs ih =>
    simp only [List.map_cons, List.flatten_cons, ih, List.filterMap_cons]
    cases hx : f x with
    | none => simp [convErrors]
    | some q => simp [List.flatMap_cons]

/-- the errors are those of the visited quantities, in order -/
theorem cvm_recipe_errors (c : Converter Rat) (to : System) (r : ScaledRecipe Rat) :
    (recipeConvert c to r).2 = (recipeVisitedQuantities r).flatMap (fun q => convErrors c to (some q)) := by
  rw [(recipeConvert_spec c to r).2.2.2.2.2]
  unfold recipeVisitedQuantities
  rw [cvm_errors_filterMap c to (fun i : Ingredient (Value Rat) => i.quantity),
    cvm_errors_filterMap c to (fun t : Timer (Value Rat) => t.quantity)]
  simp [List.flatMap_def]

/-- at most one error per quantity -/
theorem cvm_convErrors_length (c : Converter Rat) (to : System) (q : Option (SQuantity Rat)) :
    (convErrors c to q).length ≤ 1 := by
  cases q with
  | none => simp [convErrors]
  | some q =>
    simp only [convErrors]
    split <;> simp

end Cook

namespace Cook
open Arith

/-! ### conversions between known units of one quantity succeed -/

theorem cvm_isText_false_ne {v : Value Rat} (h : v.isText = false) (t : Str) : v ≠ .text t := by
  intro hv; rw [hv] at h; simp [Value.isText] at h

/-- a numeric or range quantity in a known unit converts to every known unit of the same physical
    quantity -/
theorem cvm_convert_unit_succeeds {c : Converter Rat} (hc : c.Sound) (q : SQuantity Rat)
    (u t : Unit Rat) (k : Str) (hu : unitInfo c q = some u) (hv : q.value.isText = false)
    (hk : c.findUnit k = some t) (hq : u.pq = t.pq) :
    ∃ q', convertImpl c q (.unit (.key k)) = (q', .ok ()) ∧ Restated c q u q' t := by
  have h := convertImpl_spec hc q (.unit (.key k)) (by intro x hx; cases hx)
  generalize hr : convertImpl c q (.unit (.key k)) = r at h
  cases h with
  | failed e he =>
    exfalso
    obtain ⟨k0, hk0, hf0⟩ := unitInfo_some hu
    cases he with
    | noUnit h0 => rw [h0] at hk0; cases hk0
    | unknownUnit k1 h1 hf1 => rw [hk0] at h1; cases h1; rw [hf0] at hf1; cases hf1
    | textValue u1 t1 _ hv1 => exact cvm_isText_false_ne hv t1 hv1
    | unknownTarget u1 k1 _ hto hf1 => cases hto; rw [hk] at hf1; cases hf1
    | mixed u1 t1 tu hu1 hto ht1 hq1 =>
      cases hto
      rw [hu] at hu1; cases hu1
      have := cvm_getUnit_key ht1
      rw [hk] at this; cases this
      exact hq1 hq
    | noBest u1 s _ hs _ =>
      rcases hs with hs | ⟨hs, _⟩ <;> cases hs
  | converted q' u' nu hu' hr' _ _ hkey =>
    rw [hu] at hu'; cases hu'
    have := cvm_getUnit_key (hkey _ rfl)
    rw [hk] at this; cases this
    exact ⟨q', rfl, hr'⟩

/-- …and to every system that has a best list for its physical quantity -/
theorem cvm_convert_best_succeeds {c : Converter Rat} (hc : c.Sound) (q : SQuantity Rat)
    (u : Unit Rat) (s : System) (hu : unitInfo c q = some u) (hv : q.value.isText = false)
    (hne : ((c.best u.pq).conversions s).entries ≠ []) :
    ∃ q' nu, convertImpl c q (.best s) = (q', .ok ()) ∧ Restated c q u q' nu ∧
      nu ∈ ((c.best u.pq).conversions s).unitsOf := by
  have h := convertImpl_spec hc q (.best s) (by intro x hx; cases hx)
  generalize hr : convertImpl c q (.best s) = r at h
  cases h with
  | failed e he =>
    exfalso
    obtain ⟨k0, hk0, hf0⟩ := unitInfo_some hu
    cases he with
    | noUnit h0 => rw [h0] at hk0; cases hk0
    | unknownUnit k1 h1 hf1 => rw [hk0] at h1; cases h1; rw [hf0] at hf1; cases hf1
    | textValue u1 t1 _ hv1 => exact cvm_isText_false_ne hv t1 hv1
    | unknownTarget u1 k1 _ hto hf1 => cases hto
    | mixed u1 t1 tu hu1 hto ht1 hq1 => cases hto
    | noBest u1 s1 hu1 hs he1 =>
      rw [hu] at hu1; cases hu1
      rcases hs with hs | ⟨hs, _⟩
      · cases hs; exact hne he1
      · cases hs
  | converted q' u' nu hu' hr' hbest _ _ =>
    rw [hu] at hu'; cases hu'
    exact ⟨q', nu, rfl, hr', hbest s rfl⟩

/-- every best list of the converter is non-empty -/
def bestListsNonempty (c : Converter Rat) : Bool :=
  PhysQ.all.all (fun q => [System.metric, System.imperial].all (fun s =>
    !((c.best q).conversions s).entries.isEmpty))

theorem cvm_bestListsNonempty {c : Converter Rat} (h : bestListsNonempty c = true) (q : PhysQ)
    (s : System) : ((c.best q).conversions s).entries ≠ [] := by
  simp only [bestListsNonempty, List.all_eq_true, PhysQ.all, Bool.not_eq_true', List.isEmpty_eq_false_iff] at h
  exact h q (by cases q <;> simp) s (by cases s <;> simp)

end Cook
