import CookModel.Lemmas.MergeSat
/-
  List-level "which numbers can be written" lemmas (wave 12, C10): `addRecipes` (a sequence of `add_recipe`),
  `categorize` (the fold of `absorb` over the list) and cookware amounts (`GroupedValue::{add, merge}`).
  Generic in the number predicate `P`, like Lemmas/MergeSat.lean.
-/
namespace Cook
open Arith GroupedQuantity

variable {c : Converter Rat} {P : Number Rat → Prop}

theorem csat_addRecipes (H : ApproxClosed c P) (ord : MapOrder Rat) (hord : ord.IsPerm)
    (rs : List (ScaledRecipe Rat)) {list : IngredientList Rat} (hl : IngredientList.AllNum P list)
    (hr : ∀ r ∈ rs, ∀ i ∈ r.ingredients, ∀ q, i.quantity = some q → q.value.AllNum P)
    (out : IngredientList Rat) (h : addRecipes ord c list rs = some out) : IngredientList.AllNum P out := by
  induction rs generalizing list with
  | nil =>
    simp only [addRecipes, Option.some.injEq] at h
    subst h
    exact hl
  | cons r rest ih =>
    unfold addRecipes at h
    split at h
    · cases h
    · rename_i l hl1
      exact ih (msat_addRecipe H ord hord hl r (hr r List.mem_cons_self) l hl1)
        (fun r' hr' => hr r' (List.mem_cons_of_mem _ hr')) h

/-- every group of every category, and of the uncategorised rest, satisfies `P` -/
def Categorized.AllNum (P : Number Rat → Prop) (cat : Categorized Rat) : Prop :=
  (∀ k ∈ cat.categories, IngredientList.AllNum P k.2) ∧ IngredientList.AllNum P cat.other

theorem csat_intoCommon (hreg : ∀ x, P (.regular x)) (ord : MapOrder Rat) (hord : ord.IsPerm)
    {q : GroupedQuantity Rat} (hq : q.AllNum P) (o : Option (GroupedQuantity Rat))
    (ho : ∀ g, o = some g → g.AllNum P) : (intoCommon ord q o).AllNum P := by
  cases o with
  | none => exact hq
  | some g => exact msat_absorb hreg ord hord (ho g rfl) hq

theorem csat_upsertCommon (hreg : ∀ x, P (.regular x)) (ord : MapOrder Rat) (hord : ord.IsPerm)
    {q : GroupedQuantity Rat} (hq : q.AllNum P) (name : Str) {l : IngredientList Rat}
    (hl : IngredientList.AllNum P l) : IngredientList.AllNum P (BMap.upsert name (intoCommon ord q) l) := by
  intro e he
  rcases BMap.msat_mem_upsert _ _ _ _ he with he | he
  · exact hl e he
  · rw [he]
    refine csat_intoCommon hreg ord hord hq _ ?_
    intro g hg
    obtain ⟨x, hx, hv⟩ := BMap.msat_get?_mem _ _ _ hg
    rw [← hv]
    exact hl x hx

theorem csat_categorizeStep (hreg : ∀ x, P (.regular x)) (ord : MapOrder Rat) (hord : ord.IsPerm)
    (aisle : Aisle.Conf) {acc : Categorized Rat} (ha : acc.AllNum P) (e : Str × GroupedQuantity Rat)
    (he : e.2.AllNum P) : (categorizeStep ord aisle acc e).AllNum P := by
  unfold categorizeStep
  split
  · rename_i info _
    refine ⟨?_, ha.2⟩
    intro k hk
    replace hk : k ∈ BMap.upsert info.category
        (fun cat => BMap.upsert info.common (intoCommon ord e.2) (cat.getD [])) acc.categories := hk
    rcases BMap.msat_mem_upsert _ _ _ _ hk with hk | hk
    · exact ha.1 k hk
    · rw [hk]
      refine csat_upsertCommon hreg ord hord he _ ?_
      cases hget : BMap.get? acc.categories info.category with
      | none =>
        intro x hx
        cases hx
      | some old =>
        obtain ⟨x, hx, hv⟩ := BMap.msat_get?_mem _ _ _ hget
        simp only [Option.getD_some]
        rw [← hv]
        exact ha.1 x hx
  · refine ⟨ha.1, ?_⟩
    intro x hx
    replace hx : x ∈ BMap.upsert e.1 (fun _ => e.2) acc.other := hx
    rcases BMap.msat_mem_upsert _ _ _ _ hx with hx | hx
    · exact ha.2 x hx
    · rw [hx]
      exact he

theorem csat_categorize (hreg : ∀ x, P (.regular x)) (ord : MapOrder Rat) (hord : ord.IsPerm)
    (aisle : Aisle.Conf) {list : IngredientList Rat} (hl : IngredientList.AllNum P list) :
    (categorize ord aisle list).AllNum P := by
  unfold categorize
  have h0 : Categorized.AllNum P (⟨[], []⟩ : Categorized Rat) := by
    constructor
    · intro k hk
      exact absurd hk List.not_mem_nil
    · intro k hk
      exact absurd hk List.not_mem_nil
  generalize (⟨[], []⟩ : Categorized Rat) = acc at h0
  induction list generalizing acc with
  | nil => exact h0
  | cons e rest ih =>
    simp only [List.foldl_cons]
    exact ih (fun x hx => hl x (List.mem_cons_of_mem _ hx)) _
      (csat_categorizeStep hreg ord hord aisle h0 e (hl e List.mem_cons_self))

/-! ### cookware amounts -/

theorem csat_groupedValueAdd (hreg : ∀ x, P (.regular x)) {g g' : List (Value Rat)} {v : Value Rat}
    (hg : ∀ x ∈ g, x.AllNum P) (hv : v.AllNum P) (h : groupedValueAdd g v = some g') :
    ∀ x ∈ g', x.AllNum P := by
  unfold groupedValueAdd at h
  cases g with
  | nil =>
    simp only [Option.some.injEq] at h
    subst h
    intro x hx
    simp only [List.mem_cons, List.not_mem_nil, or_false] at hx
    subst hx
    exact hv
  | cons first rest =>
    simp only at h
    split at h
    · simp only [Option.some.injEq] at h
      subst h
      intro x hx
      simp only [List.mem_append, List.mem_cons, List.not_mem_nil, or_false] at hx
      rcases hx with hx | hx
      · exact hg x (by simpa using hx)
      · subst hx; exact hv
    · split at h
      · simp only [Option.some.injEq] at h
        subst h
        intro x hx
        rcases List.mem_cons.1 hx with hx | hx
        · subst hx; exact hv
        · exact hg x hx
      · split at h
        · rename_i s hs
          simp only [Option.some.injEq] at h
          subst h
          intro x hx
          rcases List.mem_cons.1 hx with hx | hx
          · subst hx; exact fnum_tryAdd hreg hs
          · exact hg x (List.mem_cons_of_mem _ hx)
        · cases h

theorem csat_groupedValueAddAll (hreg : ∀ x, P (.regular x)) (vs : List (Value Rat)) {g g' : List (Value Rat)}
    (hg : ∀ x ∈ g, x.AllNum P) (hv : ∀ x ∈ vs, x.AllNum P) (h : groupedValueAddAll g vs = some g') :
    ∀ x ∈ g', x.AllNum P := by
  induction vs generalizing g with
  | nil =>
    simp only [groupedValueAddAll, Option.some.injEq] at h
    subst h
    exact hg
  | cons v rest ih =>
    unfold groupedValueAddAll at h
    split at h
    · cases h
    · rename_i g1 hg1
      exact ih (csat_groupedValueAdd hreg hg (hv v List.mem_cons_self) hg1)
        (fun x hx => hv x (List.mem_cons_of_mem _ hx)) h

end Cook
