import CookModel.Lemmas.Fraction
/-
  Saturation of `Number::new_approx` (wave 10, C10): the guard `whole == u32::MAX` makes the function refuse every
  value whose integral part does not fit `u32` (the cast `as u32` saturates), so a returned fraction's whole part
  is the true integral part of the value, never the saturated `u32::MAX`.
-/
namespace Cook
open Arith

/-- with the guard passed the whole part is the floor of the value -/
theorem fsat_wholeOf_floor {v : Rat} (hv : 0 ≤ v) (h : wholeOf v ≠ u32Max) :
    ((wholeOf v : Nat) : Rat) = ((v.floor : Int) : Rat) := by
  have := toU32_trunc_exact hv h
  unfold wholeOf
  exact_mod_cast this

theorem fsat_wholeOf_lt {v : Rat} : wholeOf v ≤ u32Max := by
  unfold wholeOf clampInt u32Max
  split <;> (try split) <;> omega

/-- …so the value lies in `[whole, whole + 1)` -/
theorem fsat_wholeOf_bounds {v : Rat} (hv : 0 ≤ v) (h : wholeOf v ≠ u32Max) :
    ((wholeOf v : Nat) : Rat) ≤ v ∧ v < ((wholeOf v : Nat) : Rat) + 1 := by
  rw [fsat_wholeOf_floor hv h]
  have h2 := Rat.lt_floor_add_one v
  refine ⟨Rat.floor_le v, ?_⟩
  push_cast at h2
  exact h2

/-- a value that passes the guard is below `u32::MAX` -/
theorem fsat_lt_u32Max {v : Rat} (hv : 0 ≤ v) (h : wholeOf v ≠ u32Max) : v < ((u32Max : Nat) : Rat) := by
  have h1 := (fsat_wholeOf_bounds hv h).2
  have h2 : wholeOf v + 1 ≤ u32Max := by have := @fsat_wholeOf_lt v; omega
  have h3 : (((wholeOf v + 1 : Nat)) : Rat) ≤ ((u32Max : Nat) : Rat) := by exact_mod_cast h2
  have h4 : (((wholeOf v + 1 : Nat)) : Rat) = ((wholeOf v : Nat) : Rat) + 1 := by push_cast; rfl
  rw [h4] at h3
  grind

/-- the rounded value is within one half -/
theorem fsat_round_bounds {v : Rat} (hv : 0 ≤ v) :
    ((ratRound v : Int) : Rat) - 1/2 ≤ v ∧ v < ((ratRound v : Int) : Rat) + 1/2 := by
  rw [ratRound_nonneg hv]
  have h1 := Rat.floor_le (v + 1/2)
  have h2 := Rat.lt_floor_add_one (v + 1/2)
  push_cast at h2
  constructor <;> grind

end Cook
