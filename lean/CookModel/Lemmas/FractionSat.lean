import CookModel.Lemmas.Fraction
import CookModel.Lemmas.FitNumbers
/-
  Saturation of `Number::new_approx` (wave 10, C10): the guard `whole == u32::MAX` makes the function refuse every
  value whose integral part does not fit `u32` (the cast `as u32` saturates), so a returned fraction's whole part
  is the true integral part of the value, never the saturated `u32::MAX`.
-/
namespace Cook
open Arith

/-- with the guard passed the whole part is the floor of the value -/
theorem fsat_wholeOf_floor {v : Rat} (hv : 0 ≤ v) (h : wholeOf v ≠ u32Max) :
    ((wholeOf v : Nat) : Rat) = ((v.floor : Int) : Rat) := by
  have := toU32_trunc_exact hv h
  unfold wholeOf
  exact_mod_cast this

theorem fsat_wholeOf_lt {v : Rat} : wholeOf v ≤ u32Max := by
  unfold wholeOf clampInt u32Max
  split <;> (try split) <;> omega

/-- …so the value lies in `[whole, whole + 1)` -/
theorem fsat_wholeOf_bounds {v : Rat} (hv : 0 ≤ v) (h : wholeOf v ≠ u32Max) :
    ((wholeOf v : Nat) : Rat) ≤ v ∧ v < ((wholeOf v : Nat) : Rat) + 1 := by
  rw [fsat_wholeOf_floor hv h]
  have h2 := Rat.lt_floor_add_one v
  refine ⟨Rat.floor_le v, ?_⟩
  push_cast at h2
  exact h2

/-- a value that passes the guard is below `u32::MAX` -/
theorem fsat_lt_u32Max {v : Rat} (hv : 0 ≤ v) (h : wholeOf v ≠ u32Max) : v < ((u32Max : Nat) : Rat) := by
  have h1 := (fsat_wholeOf_bounds hv h).2
  have h2 : wholeOf v + 1 ≤ u32Max := by have := @fsat_wholeOf_lt v; omega
  have h3 : (((wholeOf v + 1 : Nat)) : Rat) ≤ ((u32Max : Nat) : Rat) := by exact_mod_cast h2
  have h4 : (((wholeOf v + 1 : Nat)) : Rat) = ((wholeOf v : Nat) : Rat) + 1 := by push_cast; rfl
  rw [h4] at h3
  grind

/-- the rounded value is within one half -/
theorem fsat_round_bounds {v : Rat} (hv : 0 ≤ v) :
    ((ratRound v : Int) : Rat) - 1/2 ≤ v ∧ v < ((ratRound v : Int) : Rat) + 1/2 := by
  rw [ratRound_nonneg hv]
  have h1 := Rat.floor_le (v + 1/2)
  have h2 := Rat.lt_floor_add_one (v + 1/2)
  push_cast at h2
  constructor <;> grind

/-- **not a saturated fraction** (statement vocabulary): a plain number, or a fraction whose written whole part is
    within `(-1, +1/2]` of the value it stands for (`whole - 1/2 ≤ value < whole + 1`: the integral part, or the
    value rounded) and whose value is below `u32::MAX`.  `4294967295 1/2 (+1)` for `4294967296.5` is not. -/
def Number.NotSaturated : Number Rat → Prop
  | .regular _ => True
  | .fraction w n d e =>
    (w : Rat) - 1/2 ≤ (Number.fraction w n d e).value ∧ (Number.fraction w n d e).value < (w : Rat) + 1 ∧
      (Number.fraction w n d e).value < ((u32Max : Nat) : Rat)

/-- everything `new_approx` returns is not saturated -/
theorem fsat_newApprox_notSaturated (t : List FracEntry) (v acc : Rat) (maxDen maxWhole : Nat) (n : Number Rat)
    (h : newApprox t v acc maxDen maxWhole = some n) : n.NotSaturated := by
  cases n with
  | regular x => trivial
  | fraction w k d e =>
    have hval := newApprox_value t v acc maxDen maxWhole _ h
    obtain ⟨hv, _, hne, hc⟩ := newApprox_cases t v acc maxDen maxWhole _ h
    have hv0 : 0 ≤ v := Rat.le_of_lt hv
    have hlt := fsat_lt_u32Max hv0 hne
    simp only [Number.NotSaturated, hval]
    rcases hc with ⟨h1, _⟩ | ⟨h1, _⟩ | ⟨e', _, h1, _⟩
    · cases h1
    · cases h1
      have hr := roundedOf_exact hv0 hne
      have hb := fsat_round_bounds hv0
      rw [hr]
      refine ⟨hb.1, ?_, hlt⟩
      grind
    · cases h1
      have hb := fsat_wholeOf_bounds hv0 hne
      refine ⟨?_, hb.2, hlt⟩
      grind

theorem fsat_approxClosed (c : Converter Rat) : ApproxClosed c Number.NotSaturated :=
  ⟨fun _ => trivial, fun v _ n h => fsat_newApprox_notSaturated _ v _ _ _ n h⟩

end Cook
