import CookModel.Side.StdMetaSpec
/-
  Model vs Spec for `is_url`, `NameAndUrl::parse` and `as_name_and_url`.
  `alpha` is `char::is_alphabetic`; the only fact used about it is that `:` is not alphabetic.
-/
namespace Cook.SM
open Cook Spec

theorem isSlash_eq (c : Char) : isSlash c = true ↔ c = '/' := by simp [isSlash]
theorem isLt_eq (c : Char) : isLt c = true ↔ c = '<' := by simp [isLt]

theorem urlHost_spec (rest : Str) :
    ∃ tail, rest = urlHost rest ++ tail ∧ (∀ c ∈ urlHost rest, c ≠ '/') ∧ (tail = [] ∨ ∃ r, tail = '/' :: r) := by
  unfold urlHost
  cases h : splitOnce isSlash rest with
  | none =>
    refine ⟨[], by simp, ?_, Or.inl rfl⟩
    intro c hc hcs
    have := splitOnce_none.mp h c hc
    rw [(isSlash_eq c).mpr hcs] at this; exact absurd this (by simp)
  | some r =>
    obtain ⟨a, b⟩ := r
    obtain ⟨c, hs, hc, ha⟩ := splitOnce_some.mp h
    have hc' := (isSlash_eq c).mp hc
    subst hc'
    refine ⟨'/' :: b, hs, ?_, Or.inr ⟨b, rfl⟩⟩
    intro d hd hds
    have := ha d hd
    rw [(isSlash_eq d).mpr hds] at this; exact absurd this (by simp)

theorem urlHost_of {host tail : Str} (hh : ∀ c ∈ host, c ≠ '/') (ht : tail = [] ∨ ∃ r, tail = '/' :: r) :
    urlHost (host ++ tail) = host := by
  unfold urlHost
  have hns : NoneSat isSlash host := by
    intro c hc
    cases hcs : isSlash c with
    | false => rfl
    | true => exact absurd ((isSlash_eq c).mp hcs) (hh c hc)
  rcases ht with rfl | ⟨r, rfl⟩
  · rw [List.append_nil, splitOnce_none.mpr hns]
  · rw [splitOnce_some.mpr ⟨'/', rfl, by simp [isSlash], hns⟩]

theorem isUrl_iff (alpha : Char → Bool) (hcolon : alpha ':' = false) (s : Str) :
    isUrl alpha s = true ↔ IsUrl alpha s := by
  unfold isUrl IsUrl
  constructor
  · intro h
    cases hso : splitOnceStr schemeSep s with
    | none => rw [hso] at h; exact absurd h (by simp)
    | some r =>
      obtain ⟨scheme, rest⟩ := r
      rw [hso] at h
      simp only at h
      have hs := splitOnceStr_sound hso
      split at h
      · exact absurd h (by simp)
      · rename_i h1
        split at h
        · exact absurd h (by simp)
        · rename_i h2
          simp only [Bool.or_eq_true, Bool.not_eq_true', not_or, Bool.not_eq_true, List.isEmpty_eq_false_iff] at h1 h2
          obtain ⟨tail, ht1, ht2, ht3⟩ := urlHost_spec rest
          refine ⟨scheme, urlHost rest, tail, ?_, ?_, h2.1, ?_, ht3⟩
          · rw [hs, List.append_assoc (scheme ++ _), ← ht1]; rfl
          · intro c hc
            exact List.all_eq_true.mp (by simpa using h1.2) c hc
          · intro c hc
            refine ⟨?_, ht2 c hc⟩
            have := h2.2
            cases hw : isWs c with
            | false => rfl
            | true =>
              have hany : (urlHost rest).any isWs = true := List.any_eq_true.mpr ⟨c, hc, hw⟩
              rw [hany] at this; exact absurd this (by simp)
  · rintro ⟨scheme, host, tail, hs, hsch, hne, hhost, htail⟩
    have hcol : ':' ∉ scheme := by
      intro hm
      have := hsch ':' hm
      rw [hcolon] at this; exact absurd this (by simp)
    have hso : splitOnceStr schemeSep s = some (scheme, host ++ tail) := by
      rw [hs, List.append_assoc (scheme ++ _)]
      exact splitOnceStr_complete (p0 := ':') (ps := ['/', '/']) rfl hcol
    rw [hso]
    simp only
    have hrest : (host ++ tail).isEmpty = false := by
      cases host with
      | nil => exact absurd rfl hne
      | cons c t => rfl
    have hall : scheme.all alpha = true := List.all_eq_true.mpr hsch
    rw [hrest, hall]
    simp only [Bool.not_true, Bool.or_false, Bool.false_eq_true, if_false]
    rw [urlHost_of (fun c hc => (hhost c hc).2) htail]
    have h1 : host.isEmpty = false := by
      cases host with
      | nil => exact absurd rfl hne
      | cons c t => rfl
    have h2 : host.any isWs = false := by
      cases ha : host.any isWs with
      | false => rfl
      | true =>
        obtain ⟨c, hc, hw⟩ := List.any_eq_true.mp ha
        rw [(hhost c hc).1] at hw; exact absurd hw (by simp)
    rw [h1, h2]; rfl

theorem gt_not_asciiWs : isAsciiWs '>' = false := by decide

theorem angleForm_iff (alpha : Char → Bool) (hcolon : alpha ':' = false) (s name url : Str) :
    angleForm alpha s = some (name, url) ↔ AngleForm alpha s name url := by
  unfold angleForm AngleForm
  constructor
  · intro h
    cases hst : stripSuffixChar '>' (trimAsciiEnd s) with
    | none => rw [hst] at h; exact absurd h (by simp)
    | some s1 =>
      rw [hst] at h
      simp only at h
      cases hso : splitOnce isLt s1 with
      | none => rw [hso] at h; exact absurd h (by simp)
      | some r =>
        obtain ⟨rn, ru⟩ := r
        rw [hso] at h
        simp only at h
        split at h
        · rename_i hc
          simp only [Option.some.injEq, Prod.mk.injEq] at h
          obtain ⟨rfl, rfl⟩ := h
          simp only [Bool.and_eq_true, Bool.not_eq_true'] at hc
          obtain ⟨c, hs1, hc1, hname⟩ := splitOnce_some.mp hso
          have hc1' := (isLt_eq c).mp hc1
          subst hc1'
          obtain ⟨b, hb1, hb2, -⟩ := trimAsciiEnd_spec s
          have hst' := stripSuffixChar_some.mp hst
          refine ⟨b, ?_, hb2, ?_, ?_, ?_, (isUrl_iff alpha hcolon _).mp hc.2⟩
          · rw [hb1, hst', hs1]; simp
          · intro hm
            have := hname '<' hm
            simp [isLt] at this
          · intro hm
            have : ru.any isAngle = true := List.any_eq_true.mpr ⟨'<', hm, by simp [isAngle]⟩
            rw [this] at hc; exact absurd hc.1 (by simp)
          · intro hm
            have : ru.any isAngle = true := List.any_eq_true.mpr ⟨'>', hm, by simp [isAngle]⟩
            rw [this] at hc; exact absurd hc.1 (by simp)
        · exact absurd h (by simp)
  · rintro ⟨tail, hs, htail, hname, hu1, hu2, hurl⟩
    have htrim : trimAsciiEnd s = name ++ '<' :: url ++ ['>'] := by
      have : s = (name ++ '<' :: url ++ ['>']) ++ tail := by rw [hs]; simp
      rw [this]
      exact trimEndBy_of htail (Or.inr ⟨name ++ '<' :: url, '>', rfl, gt_not_asciiWs⟩)
    rw [htrim, stripSuffixChar_some.mpr rfl]
    simp only
    have hns : NoneSat isLt name := by
      intro c hc
      cases hl : isLt c with
      | false => rfl
      | true => rw [(isLt_eq c).mp hl] at hc; exact absurd hc hname
    rw [splitOnce_some.mpr ⟨'<', rfl, by simp [isLt], hns⟩]
    simp only
    have hany : url.any isAngle = false := by
      cases ha : url.any isAngle with
      | false => rfl
      | true =>
        obtain ⟨c, hc, hw⟩ := List.any_eq_true.mp ha
        simp only [isAngle, Bool.or_eq_true, decide_eq_true_eq] at hw
        rcases hw with rfl | rfl
        · exact absurd hc hu1
        · exact absurd hc hu2
    rw [hany, (isUrl_iff alpha hcolon _).mpr hurl]
    rfl

theorem nuFilter_some (s : Str) : nuFilter (some s) = nonBlank s := by
  simp only [nuFilter, nonBlank, List.isEmpty_iff]

theorem nuFilter_none : nuFilter none = none := rfl

theorem parseNameUrl_iff (alpha : Char → Bool) (hcolon : alpha ':' = false) (s : Str) (r : NameUrl) :
    parseNameUrl alpha s = r ↔ NameUrlOf alpha s r := by
  unfold parseNameUrl NameUrlOf
  cases ha : angleForm alpha s with
  | some nu =>
    obtain ⟨name, url⟩ := nu
    have haf := (angleForm_iff alpha hcolon s name url).mp ha
    simp only [NameUrl.new, nuFilter_some]
    constructor
    · intro h; left; exact ⟨name, url, haf, h.symm⟩
    · rintro (⟨n', u', haf', rfl⟩ | ⟨hno, -⟩ | ⟨hno, -⟩)
      · have := (angleForm_iff alpha hcolon s n' u').mpr haf'
        rw [ha] at this
        simp at this
        obtain ⟨rfl, rfl⟩ := this
        rfl
      · exact absurd ⟨name, url, haf⟩ hno
      · exact absurd ⟨name, url, haf⟩ hno
  | none =>
    have hno : ¬ ∃ name url, AngleForm alpha s name url := by
      rintro ⟨n, u, h⟩
      have := (angleForm_iff alpha hcolon s n u).mpr h
      rw [ha] at this; exact absurd this (by simp)
    simp only
    by_cases hu : isUrl alpha s = true
    · have hU := (isUrl_iff alpha hcolon s).mp hu
      simp only [hu, if_true, NameUrl.new, nuFilter_some, nuFilter_none]
      constructor
      · intro h; right; left; exact ⟨hno, hU, h.symm⟩
      · rintro (⟨n', u', haf', -⟩ | ⟨-, -, rfl⟩ | ⟨-, hnu, -⟩)
        · exact absurd ⟨n', u', haf'⟩ hno
        · rfl
        · exact absurd hU hnu
    · have hU : ¬ IsUrl alpha s := fun h => hu ((isUrl_iff alpha hcolon s).mpr h)
      have hu' : isUrl alpha s = false := by simpa using hu
      simp only [hu', Bool.false_eq_true, if_false, NameUrl.new, nuFilter_some, nuFilter_none]
      constructor
      · intro h; right; right; exact ⟨hno, hU, h.symm⟩
      · rintro (⟨n', u', haf', -⟩ | ⟨-, hyes, -⟩ | ⟨-, -, rfl⟩)
        · exact absurd ⟨n', u', haf'⟩ hno
        · exact absurd hyes hU
        · rfl

theorem nuFilter_eq_bind (o : Option Str) : nuFilter o = o.bind nonBlank := by
  cases o with
  | none => rfl
  | some s => exact nuFilter_some s

theorem asNameAndUrl_iff (alpha : Char → Bool) (hcolon : alpha ':' = false) (v : Y) (r : NameUrl) :
    asNameAndUrl alpha v = some r ↔ Spec.NameAndUrl alpha v r := by
  cases v with
  | str s => simp [asNameAndUrl, asStrLike, Spec.NameAndUrl, parseNameUrl_iff alpha hcolon]
  | num k => simp [asNameAndUrl, asStrLike, Spec.NameAndUrl, parseNameUrl_iff alpha hcolon]
  | map m =>
    simp only [asNameAndUrl, asStrLike, Spec.NameAndUrl]
    by_cases hb : (((mapGet nameKey m).bind asStr).isNone && ((mapGet urlKey m).bind asStr).isNone) = true
    · simp only [hb, if_true]
      simp only [Bool.and_eq_true, Option.isNone_iff_eq_none] at hb
      constructor
      · intro h; exact absurd h (by simp)
      · rintro ⟨h1, -⟩
        rcases h1 with h1 | h1
        · exact absurd hb.1 h1
        · exact absurd hb.2 h1
    · simp only [hb, Bool.false_eq_true, if_false, Option.some.injEq, NameUrl.new, nuFilter_eq_bind]
      simp only [Bool.and_eq_true, Option.isNone_iff_eq_none] at hb
      have hb' : (mapGet nameKey m).bind asStr ≠ none ∨ (mapGet urlKey m).bind asStr ≠ none := by
        by_cases h1 : (mapGet nameKey m).bind asStr = none
        · right; intro h2; exact hb ⟨h1, h2⟩
        · left; exact h1
      constructor
      · intro h; exact ⟨hb', h.symm⟩
      · rintro ⟨-, h⟩; exact h.symm
  | null => simp [asNameAndUrl, asStrLike, Spec.NameAndUrl]
  | bool => simp [asNameAndUrl, asStrLike, Spec.NameAndUrl]
  | seq l => simp [asNameAndUrl, asStrLike, Spec.NameAndUrl]
  | tagged => simp [asNameAndUrl, asStrLike, Spec.NameAndUrl]

end Cook.SM
