import CookModel.Lemmas.ExtLaws
/-
  C02, the gates of the quantity and component parsers: each gated parser does not depend on the
  extension set under a syntactic premise on the tokens it works on.
-/
set_option linter.unusedSectionVars false
set_option linter.unusedSimpArgs false
set_option linter.unusedVariables false
namespace Cook

variable {α : Type} [Arith α]

/-! ### MODIFIERS / INTERMEDIATE_PREPARATIONS: `modifiers()` -/

/-- a token that `modifiers()` would consume -/
def isModStart (k : TK) : Bool := isModifierTok k || k == .and

theorem modifiersLoop_noop (inter : Bool) (fuel : Nat) (s : BP α)
    (h : ∀ t, s.toks[s.cur]? = some t → isModStart t.kind = false) :
    modifiersLoop inter fuel s = ((), s) := by
  cases fuel with
  | zero => rfl
  | succ fuel =>
    unfold modifiersLoop
    rw [P_bind_run]
    have hp : peekK s = ((s.toks[s.cur]?).map (·.kind), s) := rfl
    rw [hp]
    cases ht : s.toks[s.cur]? with
    | none => rfl
    | some t =>
      have := h t ht
      simp only [isModStart, Bool.or_eq_false_iff] at this
      simp only [Option.map_some, this.1, this.2, Bool.false_eq_true, if_false]
      rfl

/-- the next token is no modifier character: `modifiers()` consumes nothing, whatever the extensions -/
theorem modifiersP_noop (s : BP α) (h : ∀ t, s.toks[s.cur]? = some t → isModStart t.kind = false) :
    modifiersP s = (([] : List Tok), s) := by
  unfold modifiersP
  rw [P_bind_run]
  have hx : hasExt (α := α) Gen.EXT_COMPONENT_MODIFIERS s = (s.ext.has Gen.EXT_COMPONENT_MODIFIERS, s) := rfl
  rw [hx]
  cases s.ext.has Gen.EXT_COMPONENT_MODIFIERS with
  | false => rfl
  | true =>
    simp only [Bool.not_true, Bool.false_eq_true, if_false]
    simp only [P_bind_run]
    have h1 : getCur s = (s.cur, s) := rfl
    have h2 : hasExt (α := α) Gen.EXT_INTERMEDIATE_PREPARATIONS s = (s.ext.has Gen.EXT_INTERMEDIATE_PREPARATIONS, s) := rfl
    have h3 : restToks s = (s.toks.drop s.cur, s) := rfl
    simp only [h1, h2, h3, modifiersLoop_noop _ _ s h]
    show ((s.toks.take s.cur).drop s.cur, s) = _
    congr 1
    apply List.drop_eq_nil_of_le
    simp only [List.length_take]; omega

theorem modifiersP_noop_ext (s : BP α) (h : ∀ t, s.toks[s.cur]? = some t → isModStart t.kind = false) (e : Ext) :
    modifiersP (s.withExt e) = (([] : List Tok), s.withExt e) :=
  modifiersP_noop (s.withExt e) h

/-- no modifier tokens: `parse_modifiers` does not reach its gate -/
theorem parseModifiers_nil_indA (pos : Nat) : IndA (parseModifiers (α := α) [] pos) := by
  have : parseModifiers (α := α) [] pos = pure ⟨⟨Modifiers.empty, Span.pos pos⟩, none⟩ := rfl
  rw [this]; exact IndA.pure _

/-! ### COMPONENT_ALIAS: `parse_alias` -/

theorem findIdx_none_of_any_false {p : Tok → Bool} {l : List Tok} (h : l.any p = false) :
    l.findIdx? p = none := by
  rw [List.findIdx?_eq_none_iff]
  intro x hx
  have := List.any_eq_false.mp h x hx
  simpa using this

/-- no `|` among the name tokens: `parse_alias` reads them alike under every extension set -/
theorem parseAlias_indA (container : String) (tokens : List Tok) (off : Nat)
    (h : tokens.any (fun t => t.kind == .or) = false) : IndA (parseAlias (α := α) container tokens off) := by
  have hf := findIdx_none_of_any_false h
  constructor
  intro s
  unfold parseAlias
  refine Ind.hasExtBind ?_ ?_
  · intro b e
    cases b
    · rfl
    · simp only [hf, ite_self]
  · have : IndA (do return (← bpText (α := α) off tokens, (none : Option Text))) := by ind_auto
    exact this.all s

/-! ### RANGE_VALUES: `range_value` -/

/-- no `-` among the tokens: nothing is a range, with or without the extension -/
theorem numOrRange_noMinus (tokens : List Tok) (h : tokens.any (fun t => t.kind == .minus) = false) (b : Bool) :
    numOrRange (α := α) b tokens = numOrRange false tokens := by
  have hf := findIdx_none_of_any_false h
  unfold numOrRange rangeValue
  cases b
  · rfl
  · simp only [hf, Bool.not_true, Bool.false_eq_true, if_false, Bool.not_false, if_true]

theorem parseValue_indA (tokens : List Tok) (h : tokens.any (fun t => t.kind == .minus) = false) :
    IndA (parseValue (α := α) tokens) := by
  unfold parseValue
  apply IndA.bind currentOffset_indA
  intro cur
  dsimp only
  constructor
  intro s
  refine Ind.hasExtBind ?_ ?_
  · intro b e
    simp only [numOrRange_noMinus tokens h b]
  · have : IndA (match numOrRange (α := α) false tokens with
        | some (.ok v) => (return ⟨v, ⟨(tokens.head?.map (·.start)).getD cur, cur⟩⟩ : P α (Loc (Value α)))
        | some (.error e) => do pushEv (.error e); return ⟨recoverValue, ⟨(tokens.head?.map (·.start)).getD cur, cur⟩⟩
        | none => do
          let v ← textValue tokens ((tokens.head?.map (·.start)).getD cur)
          return ⟨v, ⟨(tokens.head?.map (·.start)).getD cur, cur⟩⟩) := by
      ind_auto
    exact this.all s

theorem any_false_of_subset {p : Tok → Bool} {l r : List Tok} (h : l.any p = false) (hs : ∀ t ∈ r, t ∈ l) :
    r.any p = false := by
  rw [List.any_eq_false] at h ⊢
  intro x hx
  exact h x (hs x hx)

theorem consumeWhile_mem (f : TK → Bool) (s : BP α) : ∀ t ∈ (consumeWhile f s).1, t ∈ s.toks := by
  rw [consumeWhile_run]
  intro t ht
  exact List.mem_of_mem_drop (List.mem_of_mem_take ht)

/-- `value()` on a quantity without `-` -/
theorem qvalue_ind (s : BP α) (h : s.toks.any (fun t => t.kind == .minus) = false) : Ind (qvalue (α := α)) s := by
  unfold qvalue
  refine Ind.bindS (scalingLock_indA.all s) (Q := fun _ _ => True) trivial ?_
  intro lock s1 ht1 _
  refine Ind.bindS ((consumeWhile_indA _).all s1) (Q := fun r _ => ∀ t ∈ r, t ∈ s1.toks)
    (consumeWhile_mem _ s1) ?_
  intro vt s2 ht2 hvt
  have hv : vt.any (fun t => t.kind == .minus) = false := by
    apply any_false_of_subset h
    intro t ht; rw [← ht1]; exact hvt t ht
  have : IndA (do let v ← parseValue (α := α) vt; return (⟨v, lock⟩ : PQValue α)) := by
    have := parseValue_indA (α := α) vt hv
    ind_auto
  exact this.all s2

theorem parseRegularQuantity_ind (s : BP α) (h : s.toks.any (fun t => t.kind == .minus) = false) :
    Ind (parseRegularQuantity (α := α)) s := by
  unfold parseRegularQuantity
  refine Ind.bind (qvalue_ind s h) ?_
  generalize (qvalue s).1 = value
  generalize (qvalue s).2 = s1
  revert s1
  suffices hA : IndA _ from hA.all
  ind_auto

/-! ### ADVANCED_UNITS: `parse_advanced_quantity` -/

/-- the tokens the parser still has to read -/
def BP.rest (s : BP α) : List Tok := s.toks.drop s.cur

theorem take_findIdx_not (p : Tok → Bool) (r : List Tok) :
    r.take ((r.findIdx? (fun t => !p t)).getD r.length) = r.takeWhile p ∧
    r.drop ((r.findIdx? (fun t => !p t)).getD r.length) = r.dropWhile p := by
  induction r with
  | nil => simp
  | cons a r ih =>
    rw [List.findIdx?_cons]
    by_cases hp : p a
    · simp only [hp, Bool.not_true, Bool.false_eq_true, if_false, List.takeWhile_cons, List.dropWhile_cons, if_true]
      cases hf : r.findIdx? (fun t => !p t) with
      | none =>
        rw [hf] at ih
        simp only [Option.map_none, Option.getD_none, List.length_cons, List.take_succ_cons, List.drop_succ_cons]
        simpa using ih
      | some n =>
        rw [hf] at ih
        simp only [Option.map_some, Option.getD_some, List.take_succ_cons, List.drop_succ_cons]
        simpa using ih
    · simp [hp]

/-- `consume_while` in terms of the remaining tokens: it returns their longest prefix satisfying `f`
    and only moves the cursor -/
theorem consumeWhile_rest (f : TK → Bool) (s : BP α) :
    ∃ c, consumeWhile f s = (s.rest.takeWhile (fun t => f t.kind), { s with cur := c }) ∧
      ({ s with cur := c } : BP α).rest = s.rest.dropWhile (fun t => f t.kind) := by
  rw [consumeWhile_run]
  refine ⟨s.cur + (((s.toks.drop s.cur).findIdx? (fun t => !f t.kind)).getD (s.toks.drop s.cur).length), ?_, ?_⟩
  · have := (take_findIdx_not (fun t => f t.kind) (s.toks.drop s.cur)).1
    simp only [BP.rest]
    rw [← this]
  · have := (take_findIdx_not (fun t => f t.kind) (s.toks.drop s.cur)).2
    simp only [BP.rest]
    rw [← this, List.drop_drop]

/-- what `scaling_lock` leaves to read: blanks skipped, then an optional `=` -/
def lockRest (r : List Tok) : List Tok :=
  match r.dropWhile (fun t => isWsComment t.kind) with
  | [] => []
  | t :: r' => if t.kind == .eq then r' else t :: r'

theorem rest_cons_of {s : BP α} {t : Tok} {r : List Tok} (h : s.rest = t :: r) :
    s.toks[s.cur]? = some t ∧ ({ s with cur := s.cur + 1 } : BP α).rest = r := by
  unfold BP.rest at h ⊢
  constructor
  · rw [← List.head?_drop, h]; rfl
  · show s.toks.drop (s.cur + 1) = r
    rw [← List.drop_drop, h]; rfl

theorem scalingLock_rest (s : BP α) :
    ∃ c lock, scalingLock s = (lock, { s with cur := c }) ∧
      ({ s with cur := c } : BP α).rest = lockRest s.rest := by
  unfold scalingLock wsComments
  obtain ⟨c, h1, h2⟩ := consumeWhile_rest isWsComment s
  rw [P_bind_run, h1]
  simp only [P_bind_run]
  have ha : ∀ s' : BP α, atK .eq s' = ((s'.toks[s'.cur]?).map (·.kind) == some .eq, s') := fun _ => rfl
  rw [ha]
  unfold lockRest
  rw [← h2]
  cases hr : ({ s with cur := c } : BP α).rest with
  | nil =>
    have : ({ s with cur := c } : BP α).toks[({ s with cur := c } : BP α).cur]? = none := by
      have := congrArg List.head? hr
      unfold BP.rest at this
      rw [List.head?_drop] at this
      simpa using this
    rw [this]
    exact ⟨c, none, rfl, hr⟩
  | cons t r =>
    obtain ⟨g1, g2⟩ := rest_cons_of hr
    rw [g1]
    by_cases hk : t.kind = .eq
    · have : ((some t).map (·.kind) == some TK.eq) = true := by simp [hk]
      simp only [this, if_true, hk, beq_self_eq_true]
      have hb : bumpAny ({ s with cur := c } : BP α) = (t, { s with cur := c + 1 }) := by
        unfold bumpAny
        rw [P_bind_run, nextToken_run, g1]
        rfl
      rw [P_bind_run, hb]
      exact ⟨c + 1, some ⟨t.start, t.stop⟩, rfl, g2⟩
    · have : ((some t).map (·.kind) == some TK.eq) = false := by simp [hk]
      have hk' : (t.kind == TK.eq) = false := by simp [hk]
      simp only [this, Bool.false_eq_true, if_false, hk']
      exact ⟨c, none, rfl, hr⟩

/-- the value tokens `parse_advanced_quantity` looks at: after the optional lock and blanks, the
    tokens before the first word -/
def advValueToks (q : List Tok) : List Tok :=
  ((lockRest q).dropWhile (fun t => isWsComment t.kind)).takeWhile (fun t => t.kind != .word)

/-- the token `parse_advanced_quantity` tests for being the blank between value and unit: the last
    of the value tokens that is not a block comment (after the repair of defect F-C17-1; before it
    this was simply the last value token, so that `{2 [- c -]cups}` was declined) -/
def advSepTok (q : List Tok) : Option Tok :=
  (advValueToks q).reverse.find? (fun t => t.kind != .blockComment)

/-- a syntactic reason why `parse_advanced_quantity` declines: there is a `%`, or the tokens before
    the first word (which is the whole quantity when there is no word) do not end in whitespace,
    block comments at their end not counted:
    `{2}`, `{1/2}`, `{2%cups}`, `{a pinch}`, `{=3}`, `{2[- c -]cups}` but not `{2 cups}`, `{2 [- c -]cups}` -/
def advNone (q : List Tok) : Bool :=
  q.any (fun t => t.kind == .percent) || ((advSepTok q).map (·.kind)) != some .ws

theorem withRecover_none_ext {β : Type} {f : P α (Option β)} {s : BP α}
    (h : ∃ c, f s = (none, { s with cur := c })) : withRecover f s = (none, s) := by
  obtain ⟨c, hc⟩ := h
  rw [withRecover_run_ext, hc]
  rfl

theorem parseAdvancedQuantity_declines (s : BP α) (hc : s.cur = 0) (h : advNone s.toks = true) :
    ∃ c, parseAdvancedQuantity s = (none, { s with cur := c }) := by
  unfold parseAdvancedQuantity
  rw [P_bind_run]
  have ha : allToks s = (s.toks, s) := rfl
  rw [ha]
  dsimp only
  by_cases hp : s.toks.any (fun t => t.kind == .percent) = true
  · simp only [hp, if_true]
    exact ⟨s.cur, rfl⟩
  · simp only [hp, Bool.false_eq_true, if_false]
    have hp' : s.toks.any (fun t => t.kind == .percent) = false := by simpa using hp
    unfold advNone at h
    rw [hp', Bool.false_or] at h
    obtain ⟨c1, lock, e1, r1⟩ := scalingLock_rest s
    rw [P_bind_run, e1]
    dsimp only
    unfold wsComments
    obtain ⟨c2, e2, r2⟩ := consumeWhile_rest isWsComment ({ s with cur := c1 } : BP α)
    rw [P_bind_run, e2]
    dsimp only
    obtain ⟨c3, e3, r3⟩ := consumeWhile_rest (fun k => k != .word) ({ s with cur := c2 } : BP α)
    rw [P_bind_run]
    have e3' : consumeWhile (fun k => k != .word) ({ s with cur := c2 } : BP α) =
        (advValueToks s.toks, { s with cur := c3 }) := by
      rw [e3]
      congr 1
      unfold advValueToks
      have hr0 : s.rest = s.toks := by unfold BP.rest; rw [hc]; rfl
      have r2' : ({ s with cur := c2 } : BP α).rest = (lockRest s.toks).dropWhile (fun t => isWsComment t.kind) := by
        have : ({ s with cur := c2 } : BP α).rest =
            ({ s with cur := c1 } : BP α).rest.dropWhile (fun t => isWsComment t.kind) := r2
        rw [this, r1, hr0]
      rw [r2']
    rw [e3']
    dsimp only
    unfold advSepTok at h
    cases hl : (advValueToks s.toks).reverse.find? (fun t => t.kind != .blockComment) with
    | none => exact ⟨c3, rfl⟩
    | some l =>
      rw [hl] at h
      have hk : (l.kind != TK.ws) = true := by simpa using h
      simp only [hk, if_true]
      exact ⟨c3, rfl⟩

/-! ### `parse_quantity` -/

/-- the body of `parse_quantity`, run on the sub-block -/
def parseQuantityInner : P α (ParsedQuantity α) := do
  let adv ← (do
    if ← hasExt Gen.EXT_ADVANCED_UNITS then withRecover parseAdvancedQuantity else return none)
  match adv with
  | some q => pure q
  | none => parseRegularQuantity

theorem parseQuantity_run (q : List Tok) (s : BP α) :
    parseQuantity q s =
      (let s' := ((if q.isEmpty then panicWith "parse_quantity: empty tokens" else pure () : P α Unit) s).2
       let r := parseQuantityInner ({ s' with toks := q, cur := 0 } : BP α)
       (r.1, { r.2 with toks := s'.toks, cur := s'.cur })) := by
  unfold parseQuantity parseQuantityInner
  by_cases hq : q.isEmpty = true
  · simp only [hq, if_true]; rfl
  · simp only [hq, Bool.false_eq_true, if_false]; rfl

/-- the quantity tokens use neither the range nor the advanced-unit syntax -/
def quantCore (q : List Tok) : Bool := !(q.any (fun t => t.kind == .minus)) && advNone q

theorem parseQuantityInner_ind (s : BP α) (hc : s.cur = 0) (h : quantCore s.toks = true) :
    Ind (parseQuantityInner (α := α)) s := by
  unfold quantCore at h
  simp only [Bool.and_eq_true, Bool.not_eq_true'] at h
  unfold parseQuantityInner
  refine Ind.bindEq (a := none) ?_ ?_
  · intro e
    rw [P_bind_run]
    have hx : hasExt (α := α) Gen.EXT_ADVANCED_UNITS (s.withExt e) = (e.has Gen.EXT_ADVANCED_UNITS, s.withExt e) := rfl
    rw [hx]
    cases e.has Gen.EXT_ADVANCED_UNITS
    · rfl
    · simp only [if_true]
      exact withRecover_none_ext (parseAdvancedQuantity_declines (s.withExt e) hc h.2)
  · exact parseRegularQuantity_ind s h.1

theorem parseQuantity_ind (q : List Tok) (h : quantCore q = true) (s : BP α) :
    Ind (parseQuantity (α := α) q) s := by
  have hp : IndA (if q.isEmpty then panicWith "parse_quantity: empty tokens" else pure () : P α Unit) := by
    ind_auto
  have hi : ∀ s0 : BP α, Ind (parseQuantityInner (α := α)) ({ s0 with toks := q, cur := 0 } : BP α) :=
    fun s0 => parseQuantityInner_ind _ rfl h
  constructor
  · intro e
    rw [parseQuantity_run, parseQuantity_run]
    dsimp only
    rw [(hp.all s).ext e]
    dsimp only
    have := (hi ((if q.isEmpty then panicWith "parse_quantity: empty tokens" else pure () : P α Unit) s).2).ext e
    have e1 : ∀ s0 : BP α, ({ s0.withExt e with toks := q, cur := 0 } : BP α) =
        ({ s0 with toks := q, cur := 0 } : BP α).withExt e := fun _ => rfl
    rw [e1, this]
    rfl
  · rw [parseQuantity_run]
    exact (hp.all s).toks
  · rw [parseQuantity_run]
    exact ((hi _).cs).trans (hp.all s).cs

theorem parseQuantity_indA (q : List Tok) (h : quantCore q = true) : IndA (parseQuantity (α := α) q) :=
  ⟨parseQuantity_ind q h⟩

/-- a parser that does not depend on the extension set does not change it either -/
theorem Ind.ext_eq {β : Type} {m : P α β} {s : BP α} (h : Ind m s) : (m s).2.ext = s.ext := by
  have := h.ext s.ext
  rw [BP.withExt_self] at this
  have h2 := congrArg (fun r => r.2.ext) this
  exact h2

/-- with ADVANCED_UNITS off `parse_quantity` is the regular quantity parser run on the sub-block -/
theorem parseQuantity_advanced_off (q : List Tok) (s : BP α) (h : s.ext.has Gen.EXT_ADVANCED_UNITS = false) :
    parseQuantity q s =
      (let s' := ((if q.isEmpty then panicWith "parse_quantity: empty tokens" else pure () : P α Unit) s).2
       let r := parseRegularQuantity ({ s' with toks := q, cur := 0 } : BP α)
       (r.1, { r.2 with toks := s'.toks, cur := s'.cur })) := by
  rw [parseQuantity_run]
  dsimp only
  have hp : IndA (if q.isEmpty then panicWith "parse_quantity: empty tokens" else pure () : P α Unit) := by
    ind_auto
  have he := (hp.all s).ext_eq
  have hi : ∀ s0 : BP α, s0.ext.has Gen.EXT_ADVANCED_UNITS = false →
      parseQuantityInner (α := α) s0 = parseRegularQuantity s0 := by
    intro s0 h0
    unfold parseQuantityInner
    rw [P_bind_run, P_bind_run]
    have hx : hasExt (α := α) Gen.EXT_ADVANCED_UNITS s0 = (false, s0) := by
      show (s0.ext.has Gen.EXT_ADVANCED_UNITS, s0) = _
      rw [h0]
    rw [hx]
    rfl
  rw [hi _ (by show (Ext.has _ _) = false; rw [he]; exact h)]

end Cook
