import CookModel.Lemmas.RoundtripDocRecipe
import CookModel.Lemmas.RoundtripRefsX
/-
  C01, end to end for documents WITH references: characters → lexer → splitter → block parser →
  analysis, for steps whose ingredients / cookware items may be correctly written references (`@&name`,
  `#&name`) and intermediate-preparation references (`@&(~1)name{}`), section lines and `>>` lines.
  The result is the pure function `xRun` of the abstract document described by `DocItem.x`.
  (`rtdr_` prefix; this is the join that `rtr_tables` / `rtr_itemsFrom` give only for `SegX.simple`.)
-/
set_option linter.unusedSectionVars false
set_option linter.unusedSimpArgs false
set_option linter.unusedVariables false
namespace Cook

variable {α : Type} [Arith α]

/-- the ingredient an abstract component stands for, with the modifier characters `mods` -/
def absIngrM (mods : List TK) (c : AComp) : Ingredient (ScalableValue α) :=
  { (absIngr c : Ingredient (ScalableValue α)) with modifiers := modsOf mods }

/-- an abstract segment as the analysis reads it -/
def SegX.x : SegX → XItem α
  | .text l => .text (l.flatMap vis)
  | .ingredient c _ => .ingr none (absIngr c)
  | .ingredient1 c => .ingr none (absIngr c)
  | .ingredientI pre post i _ c _ => .ingr (some i.denote) (absIngrM (pre ++ .and :: post) c)
  | .cookware c _ => .cw (absCw c)
  | .cookware1 c => .cw (absCw c)
  | .timer c _ => .timer (absTimer c)

/-- `=` only on a numeric ingredient amount, never on a cookware or timer amount (no
    `unnecessary-scaling-lock` warning) -/
def SegX.lockOK : SegX → Bool
  | .text _ => true
  | .ingredient c _ => c.qty.all AQty.lockIngrOK
  | .ingredient1 c => c.qty.all AQty.lockIngrOK
  | .ingredientI _ _ _ _ c _ => c.qty.all AQty.lockIngrOK
  | .cookware c _ => c.qty.all (fun q => !q.lock)
  | .cookware1 c => c.qty.all (fun q => !q.lock)
  | .timer c _ => c.qty.all (fun q => !q.lock)

theorem rtdr_simple_lockOK (seg : SegX) (h : seg.simple = true) : seg.lockOK = true := by
  cases seg <;> simp only [SegX.simple, Bool.and_eq_true, Bool.false_eq_true] at h <;>
    first | rfl | exact h.2 | exact h

theorem rtdr_qty_lock (cs : CharSpec) (aq : Option AQty) (pq : Option (Loc (PQuantity α))) (h : QtyMatches cs aq pq)
    (hl : aq.all AQty.lockIngrOK = true) : ∀ q, pq = some q → lockOK q.val.value true := by
  intro q hq
  subst hq
  cases aq with
  | none => exact absurd h (by simp [QtyMatches])
  | some a =>
    simp only [QtyMatches] at h
    simp only [Option.all_some, AQty.lockIngrOK, Bool.or_eq_true, Bool.not_eq_true'] at hl
    intro hlock
    refine ⟨rfl, ?_⟩
    rw [h.1, rtr_denote_isText]
    rcases hl with hl | hl
    · rw [h.2.1, hl] at hlock; cases hlock
    · exact hl

theorem rtdr_cwqty_lock (aq : Option AQty) (pq : Option (Loc (PQValue α))) (h : CwQtyMatches aq pq)
    (hl : aq.all (fun q => !q.lock) = true) : ∀ q, pq = some q → lockOK q.val false := by
  intro q hq
  subst hq
  cases aq with
  | none => exact absurd h (by simp [CwQtyMatches])
  | some a =>
    simp only [CwQtyMatches] at h
    simp only [Option.all_some, Bool.not_eq_true'] at hl
    intro hlock
    rw [h.2, hl] at hlock; cases hlock

/-- the side conditions of a parsed item follow from those of the segment it matches -/
theorem rtdr_side (env : Env) (seg : SegX) (it : SItem α) (h : SegXEv env.cs seg it.ev) (hl : seg.lockOK = true)
    (hx : seg.extOK α env) : it.SideOK env := by
  cases it with
  | text t => exact rtx_pair env seg (.text t) h hx trivial
  | timer lt =>
    cases seg <;> simp only [SItem.ev, SegXEv] at h
    rename_i c p
    exact rtx_pair env (.timer c p) (.timer lt) h hx (rtr_timer_simple env.cs c lt h hl)
  | ingredient li =>
    cases seg <;> simp only [SItem.ev, SegXEv] at h
    · exact rtdr_qty_lock env.cs _ _ h.2.2.2.2.2 hl
    · exact rtdr_qty_lock env.cs _ _ h.2.2.2.2.2 hl
    · exact rtdr_qty_lock env.cs _ _ h.2.2.2.2.2 hl
  | cookware lc =>
    cases seg <;> simp only [SItem.ev, SegXEv] at h
    · exact rtdr_cwqty_lock _ _ h.2.2.2.2 hl
    · exact rtdr_cwqty_lock _ _ h.2.2.2.2 hl

theorem rtdr_ingrOf_absM (env : Env) (mods : List TK) (i : AInter) (c : AComp) (li : Loc (PIngredient α))
    (h : IngrMatchesI env.cs mods i c li.val) : ingrOf env li = absIngrM mods c := by
  obtain ⟨h1, h2, h3, h4, -, h6⟩ := h
  simp only [ingrOf, absIngrM, absIngr, h1, h2, h3, h4, rtr_optQuantity_abs env _ _ true h6]
  congr 1

/-- a parsed item and the segment it matches are described alike -/
theorem rtdr_x (env : Env) (seg : SegX) (it : SItem α) (h : SegXEv env.cs seg it.ev) : it.x env = seg.x := by
  cases seg <;> cases it <;> simp only [SItem.ev, SegXEv] at h
  · simp only [SItem.x, SegX.x, h]
  · simp only [SItem.x, SegX.x, rtr_ingrOf_abs env _ _ h, h.2.2.2.2.1, Option.map_none]
  · simp only [SItem.x, SegX.x, rtr_cwOf_abs env _ _ h]
  · simp only [SItem.x, SegX.x, rtr_timerOf_abs env _ _ h]
  · simp only [SItem.x, SegX.x, rtr_ingrOf_abs env _ _ h, h.2.2.2.2.1, Option.map_none]
  · simp only [SItem.x, SegX.x, rtr_cwOf_abs env _ _ h]
  · simp only [SItem.x, SegX.x, rtdr_ingrOf_absM env _ _ _ _ h, h.2.2.2.2.1]

/-- the events of a list of segments are the events of items that match them, one to one -/
theorem rtdr_segs_items (cs : CharSpec) (segs : List SegX) (e : List (Ev α)) (h : SegsXEvs cs segs e) :
    ∃ st : List (SItem α), e = st.map SItem.ev ∧ SegsItems cs segs st := by
  induction h with
  | nil => exact ⟨[], rfl, All2.nil⟩
  | @cons seg ev segs' evs' hev _ ih =>
    obtain ⟨st, rfl, h2⟩ := ih
    have : ∃ it : SItem α, ev = it.ev := by
      cases seg <;> cases ev <;> simp only [SegXEv] at hev
      · exact ⟨.text _, rfl⟩
      · exact ⟨.ingredient _, rfl⟩
      · exact ⟨.cookware _, rfl⟩
      · exact ⟨.timer _, rfl⟩
      · exact ⟨.ingredient _, rfl⟩
      · exact ⟨.cookware _, rfl⟩
      · exact ⟨.ingredient _, rfl⟩
    obtain ⟨it, rfl⟩ := this
    exact ⟨it :: st, rfl, All2.cons hev h2⟩

theorem rtdr_items_x (env : Env) (segs : List SegX) (st : List (SItem α)) (h : SegsItems env.cs segs st) :
    st.map (SItem.x env) = segs.map SegX.x := by
  induction h with
  | nil => rfl
  | @cons seg it segs' st' hd _ ih => simp only [List.map_cons, ih, rtdr_x env seg it hd]

theorem rtdr_items_side (env : Env) (segs : List SegX) (st : List (SItem α)) (h : SegsItems env.cs segs st)
    (hl : ∀ sg ∈ segs, sg.lockOK = true) (hx : ∀ sg ∈ segs, sg.extOK α env) : ∀ it ∈ st, it.SideOK env := by
  induction h with
  | nil => intro it hit; cases hit
  | @cons seg it segs' st' hd _ ih =>
    intro y hy
    simp only [List.mem_cons] at hy
    rcases hy with rfl | hy
    · exact rtdr_side env seg y hd (hl seg (by simp)) (hx seg (by simp))
    · exact ih (fun sg hsg => hl sg (by simp [hsg])) (fun sg hsg => hx sg (by simp [hsg])) y hy

/-! ### the conditions on references, decidable -/

def ingrRefOKB (env : Env) (tbl : Array (Ingredient (ScalableValue α))) (igr0 : Ingredient (ScalableValue α)) : Bool :=
  igr0.modifiers.contains Modifiers.REF && !igr0.modifiers.contains Modifiers.NEW &&
  !env.ext.has Gen.EXT_ADVANCED_UNITS && igr0.note.isNone &&
  (match sameNameIdx env (tbl.toList.map (fun x => (x.name, x.modifiers))) igr0.name with
   | some t =>
     match tbl[t]? with
     | some defn =>
       match defn.relation with
       | ⟨.definition rf b, tg⟩ =>
         refConflict igr0.modifiers
           ⟨defn.modifiers.bits &&& (Modifiers.HIDDEN ||| Modifiers.OPT ||| Modifiers.RECIPE)⟩ == 0 &&
         !(defn.quantity.isSome && igr0.quantity.isSome && !b) &&
         (match igr0.quantity, defn.quantity with
          | some rq, some dq => rq.value.val.isText == dq.value.val.isText
          | _, _ => true)
       | _ => false
     | none => false
   | none => false)

theorem rtdr_ingrRefOKB (env : Env) (tbl : Array (Ingredient (ScalableValue α))) (igr0 : Ingredient (ScalableValue α))
    (h : ingrRefOKB env tbl igr0 = true) : IngrRefOKG env tbl igr0 := by
  unfold ingrRefOKB at h
  simp only [Bool.and_eq_true, Bool.not_eq_true', Option.isNone_iff_eq_none] at h
  obtain ⟨⟨⟨⟨h1, h2⟩, h3⟩, h4⟩, h5⟩ := h
  refine ⟨h1, h2, h3, h4, ?_⟩
  split at h5
  · rename_i t ht
    split at h5
    · rename_i defn hdefn
      split at h5
      · rename_i rf b tg hrel
        simp only [Bool.and_eq_true, beq_iff_eq, Bool.not_eq_true'] at h5
        refine ⟨t, defn, rf, b, tg, ht, hdefn, hrel, h5.1.1, h5.1.2, ?_⟩
        intro rq dq hrq hdq
        have := h5.2
        rw [hrq, hdq] at this
        simpa using this
      · cases h5
    · cases h5
  · cases h5

def ingrOKB (env : Env) (content : List Content) (nsec : Nat) (tbl : Array (Ingredient (ScalableValue α)))
    (inter : Option InterData) (igr0 : Ingredient (ScalableValue α)) : Bool :=
  match inter with
  | some d =>
    igr0.modifiers.contains Modifiers.REF &&
    (igr0.modifiers.bits &&& (Modifiers.RECIPE ||| Modifiers.HIDDEN ||| Modifiers.NEW) == 0) &&
    decide (0 ≤ d.val) &&
    (match interRefTarget content nsec d with
     | .ok _ => true
     | .error _ => false)
  | none => decide (plainMods igr0.modifiers) || ingrRefOKB env tbl igr0

theorem rtdr_ingrOKB (env : Env) (content : List Content) (nsec : Nat) (tbl : Array (Ingredient (ScalableValue α)))
    (inter : Option InterData) (igr0 : Ingredient (ScalableValue α)) (h : ingrOKB env content nsec tbl inter igr0 = true) :
    IngrOKG env content nsec tbl inter igr0 := by
  cases inter with
  | some d =>
    simp only [ingrOKB, Bool.and_eq_true, beq_iff_eq, decide_eq_true_eq] at h
    obtain ⟨⟨⟨h1, h2⟩, h3⟩, h4⟩ := h
    refine ⟨h1, h2, h3, ?_⟩
    cases hr : interRefTarget content nsec d with
    | ok rel => exact ⟨rel, rfl⟩
    | error e => rw [hr] at h4; cases h4
  | none =>
    simp only [ingrOKB, Bool.or_eq_true, decide_eq_true_eq] at h
    rcases h with h | h
    · exact Or.inl h
    · exact Or.inr (rtdr_ingrRefOKB env tbl igr0 h)

def cwRefOKB (env : Env) (tbl : Array (Cookware (ScalableValue α))) (cw0 : Cookware (ScalableValue α)) : Bool :=
  cw0.modifiers.contains Modifiers.REF && !cw0.modifiers.contains Modifiers.NEW && cw0.note.isNone &&
  (match sameNameIdx env (tbl.toList.map (fun x => (x.name, x.modifiers))) cw0.name with
   | some t =>
     match tbl[t]? with
     | some defn =>
       match defn.relation with
       | .definition rf b =>
         refConflict cw0.modifiers ⟨defn.modifiers.bits &&& (Modifiers.HIDDEN ||| Modifiers.OPT)⟩ == 0 &&
         !(defn.quantity.isSome && cw0.quantity.isSome && !b) &&
         (match cw0.quantity, defn.quantity with
          | some rq, some dq => rq.val.isText == dq.val.isText
          | _, _ => true)
       | _ => false
     | none => false
   | none => false)

theorem rtdr_cwRefOKB (env : Env) (tbl : Array (Cookware (ScalableValue α))) (cw0 : Cookware (ScalableValue α))
    (h : cwRefOKB env tbl cw0 = true) : CwRefOKG env tbl cw0 := by
  unfold cwRefOKB at h
  simp only [Bool.and_eq_true, Bool.not_eq_true', Option.isNone_iff_eq_none] at h
  obtain ⟨⟨⟨h1, h2⟩, h4⟩, h5⟩ := h
  refine ⟨h1, h2, h4, ?_⟩
  split at h5
  · rename_i t ht
    split at h5
    · rename_i defn hdefn
      split at h5
      · rename_i rf b hrel
        simp only [Bool.and_eq_true, beq_iff_eq, Bool.not_eq_true'] at h5
        refine ⟨t, defn, rf, b, ht, hdefn, hrel, h5.1.1, h5.1.2, ?_⟩
        intro rq dq hrq hdq
        have := h5.2
        rw [hrq, hdq] at this
        simpa using this
      · cases h5
    · cases h5
  · cases h5

def xOKAtB (env : Env) (content : List Content) (nsec : Nat) (T : XTbls α) : XItem α → Bool
  | .ingr inter igr0 => ingrOKB env content nsec T.ing inter igr0
  | .cw cw0 => decide (plainMods cw0.modifiers) || cwRefOKB env T.cw cw0
  | _ => true

theorem rtdr_xOKAtB (env : Env) (content : List Content) (nsec : Nat) (T : XTbls α) (it : XItem α)
    (h : xOKAtB env content nsec T it = true) : xOKAt env content nsec T it := by
  cases it with
  | ingr inter igr0 => exact rtdr_ingrOKB env content nsec T.ing inter igr0 h
  | cw cw0 =>
    simp only [xOKAtB, Bool.or_eq_true, decide_eq_true_eq] at h
    rcases h with h | h
    · exact Or.inl h
    · exact Or.inr (rtdr_cwRefOKB env T.cw cw0 h)
  | text s => trivial
  | timer t => trivial

def xItemsOKB (env : Env) (content : List Content) (nsec : Nat) : XTbls α → List (XItem α) → Bool
  | _, [] => true
  | T, it :: r => xOKAtB env content nsec T it && xItemsOKB env content nsec (xPush env content nsec T it) r

theorem rtdr_xItemsOKB (env : Env) (content : List Content) (nsec : Nat) : ∀ (st : List (XItem α)) (T : XTbls α),
    xItemsOKB env content nsec T st = true → xItemsOK env content nsec T st := by
  intro st
  induction st with
  | nil => intro _ _; trivial
  | cons it r ih =>
    intro T h
    simp only [xItemsOKB, Bool.and_eq_true] at h
    exact ⟨rtdr_xOKAtB env content nsec T it h.1, ih _ h.2⟩

/-- the conditions `xOK` on the references of a described document as a computable check -/
def xOKB (env : Env) : XTbls α → List Section → Section → Nat → List (XBlock α) → Bool
  | _, _, _, _, [] => true
  | T, secs, cur, num, .step st :: r =>
    xItemsOKB env cur.content secs.length T st && !st.isEmpty &&
    xOKB env (xStepTbls env cur.content secs.length T st) secs
      ⟨cur.name, cur.content ++ [.step ⟨xItems env cur.content secs.length T st, num⟩]⟩ (num + 1) r
  | T, secs, cur, _, .sect name :: r => xOKB env T (secs ++ (if cur.isEmpty then [] else [cur])) ⟨name, []⟩ 1 r
  | T, secs, cur, num, .entry _ _ :: r => xOKB env T secs cur num r
  | T, secs, cur, num, .para s :: r => xOKB env T secs ⟨cur.name, cur.content ++ xParaContent s⟩ num r
  | T, secs, cur, num, .comps st :: r => xOKB env (xCTbls T st) secs cur num r

theorem rtdr_xOKB (env : Env) : ∀ (blocks : List (XBlock α)) (T : XTbls α) (secs : List Section) (cur : Section)
    (num : Nat), xOKB env T secs cur num blocks = true → xOK env T secs cur num blocks := by
  intro blocks
  induction blocks with
  | nil => intro _ _ _ _ _; trivial
  | cons b r ih =>
    intro T secs cur num h
    cases b with
    | step st =>
      simp only [xOKB, Bool.and_eq_true, Bool.not_eq_true', List.isEmpty_eq_false_iff] at h
      exact ⟨rtdr_xItemsOKB env _ _ st T h.1.1, h.1.2, ih _ _ _ _ h.2⟩
    | sect name => exact ih _ _ _ _ h
    | entry k v => exact ih _ _ _ _ h
    | para s => exact ih _ _ _ _ h
    | comps st => exact ih _ _ _ _ h

/-! ### documents -/

/-- an abstract block as the analysis reads it -/
def DocItem.x : DocItem → XBlock α
  | .step segs => .step (segs.map SegX.x)
  | .sectionLine name _ => .sect (name.map leafText)
  | .metaLine k v _ => .entry (leafText k) (leafText v)
  | .para lines => .para (lines.flatMap PLine.text)

def DocItem.lockOK : DocItem → Bool
  | .step segs => segs.all SegX.lockOK
  | _ => true

theorem rtdr_item_block (env : Env) (d : DocItem) (evs : List (Ev α)) (h : DocItemEvs env.cs d evs)
    (hl : d.lockOK = true) (hp : d.plain env) (hx : d.extOK α env) :
    ∃ b : SBlock α, evs = b.events ∧ b.SideOK env ∧ b.x env = d.x := by
  cases d with
  | step segs =>
    obtain ⟨e, rfl, hsegs⟩ := h
    obtain ⟨st, rfl, h2⟩ := rtdr_segs_items env.cs segs e hsegs
    simp only [DocItem.lockOK, List.all_eq_true] at hl
    refine ⟨.step st, rfl, rtdr_items_side env segs st h2 hl hx, ?_⟩
    simp only [SBlock.x, DocItem.x, rtdr_items_x env segs st h2]
  | sectionLine name p =>
    obtain ⟨ev, rfl, hm⟩ := h
    cases ev <;> simp only [SectionMatches] at hm
    exact ⟨.sect _, rfl, trivial, by simp only [SBlock.x, DocItem.x, hm]⟩
  | metaLine k v p =>
    obtain ⟨ev, rfl, hm⟩ := h
    cases ev <;> simp only [MetaMatches] at hm
    rename_i kt vt
    obtain ⟨h1, h2, h3⟩ := hm
    refine ⟨.entry kt vt, rfl, ⟨?_, ?_⟩, by simp only [SBlock.x, DocItem.x, h1, h3]⟩
    · rw [h1]; exact hp.1
    · rw [h1, h3]; exact hp.2
  | para lines =>
    obtain ⟨ts, rfl, hm⟩ := h
    refine ⟨.para ts, rfl, trivial, ?_⟩
    simp only [SBlock.x, DocItem.x]
    rw [List.flatMap_def, List.flatMap_def, hm]

theorem rtdr_doc_blocks (env : Env) (doc : List (DocItem × List Tok)) (evss : List (List (Ev α)))
    (h : All2 (fun (d : DocItem × List Tok) evs => DocItemEvs env.cs d.1 evs) doc evss)
    (hl : ∀ d ∈ doc, d.1.lockOK = true) (hp : ∀ d ∈ doc, d.1.plain env) (hx : ∀ d ∈ doc, d.1.extOK α env) :
    ∃ blocks : List (SBlock α), evss.flatten = blocks.flatMap SBlock.events ∧ (∀ b ∈ blocks, b.SideOK env) ∧
      blocks.map (SBlock.x env) = doc.map (fun d => d.1.x) ∧
      (docEntries blocks).length = ((doc.map (·.1)).filter DocItem.isMeta).length := by
  induction h with
  | nil => exact ⟨[], rfl, (fun b hb => nomatch hb), rfl, rfl⟩
  | @cons d evs doc' evss' hd _ ih =>
    obtain ⟨blocks, e1, e2, e3, e4⟩ := ih (fun x hx' => hl x (by simp [hx'])) (fun x hx' => hp x (by simp [hx']))
      (fun x hx' => hx x (by simp [hx']))
    obtain ⟨b, rfl, hb1, hb2⟩ := rtdr_item_block env d.1 evs hd (hl d (by simp)) (hp d (by simp)) (hx d (by simp))
    refine ⟨b :: blocks, by simp [e1], ?_, by simp [e3, hb2], ?_⟩
    · intro x hxm
      simp only [List.mem_cons] at hxm
      rcases hxm with rfl | hxm
      · exact hb1
      · exact e2 x hxm
    · cases hdd : d.1 <;> rw [hdd] at hb2 <;> cases b <;> simp only [SBlock.x, DocItem.x] at hb2 <;>
        simp [docEntries, List.filter_cons, DocItem.isMeta, hdd, e4] <;> cases hb2

/-- End to end for a document with references. -/
theorem rtdr_parseRecipe_doc (env : Env) (pre : List Tok) (doc : List (DocItem × List Tok))
    (hpre : blankLinesOK pre = true) (hok : ∀ d ∈ doc, d.1.ok env.cs env.ext = true)
    (hlock : ∀ d ∈ doc, d.1.lockOK = true) (hplain : ∀ d ∈ doc, d.1.plain env)
    (hext : ∀ d ∈ doc, d.1.extOK α env)
    (hrefs : xOK (α := α) env {} [] ⟨none, []⟩ 1 (doc.map (fun d => d.1.x)))
    (hseps : sepsOK (doc.map (·.2)) = true) (hw : WellSpelled env.cs (pre ++ docSpec doc))
    (hfm : parseFrontmatter env.cs (render (pre ++ docSpec doc)) = none) :
    ∃ (c : Col α) (spans : List Span),
      parseRecipe env (render (pre ++ docSpec doc)) = ⟨some c, c.diags, none⟩ ∧
      c.sections = (xRun (α := α) env {} [] ⟨none, []⟩ 1 [] (doc.map (fun d => d.1.x))).secs ∧
      c.ingredients = (xRun (α := α) env {} [] ⟨none, []⟩ 1 [] (doc.map (fun d => d.1.x))).T.ing ∧
      c.cookware = (xRun (α := α) env {} [] ⟨none, []⟩ 1 [] (doc.map (fun d => d.1.x))).T.cw ∧
      c.timers = (xRun (α := α) env {} [] ⟨none, []⟩ 1 [] (doc.map (fun d => d.1.x))).T.tm ∧
      c.metaMap = (xRun (α := α) env {} [] ⟨none, []⟩ 1 [] (doc.map (fun d => d.1.x))).metaMap ∧
      c.diags = deprecation spans ∧ spans.length = ((doc.map (·.1)).filter DocItem.isMeta).length ∧
      c.inlineQ = #[] ∧ c.frontMatter = none := by
  obtain ⟨blocks0, evss, arr, -, -, hpe, harr, hevs⟩ :=
    rtd_pullEvents_doc (α := α) env.cs env.ext pre doc hpre hok hseps hw hfm
  obtain ⟨blocks, e1, e2, e3, e4⟩ := rtdr_doc_blocks env doc evss hevs hlock hplain hext
  obtain ⟨c, h1, h2, h3, h4, h5, h6, h7, h8, h9⟩ :=
    rtax_parseEvents_doc env (render (pre ++ docSpec doc)) blocks e2 (by rw [e3]; exact hrefs)
  rw [e3] at h2 h3 h4 h5 h6
  refine ⟨c, docSpans (docEntries blocks), ?_, h2, h3, h4, h5, h6, h7, by simp [docSpans, e4], h8, h9⟩
  unfold parseRecipe
  simp only [hpe, harr, e1]
  rw [h1]

end Cook
