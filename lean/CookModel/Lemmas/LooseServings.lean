import CookModel.Lemmas.LoosePara
/-
  C17, wave 5 (tag `bl17`): the `servings` of a document of the round-trip grammar.  The round-trip
  theorems (`rts_parseEvents_doc`, `rtx_parseRecipe_doc`) do not state it; here it is computed from
  the `>>` entries of the document (`absDocServings`: the last entry with a servings key whose value
  the standard-metadata check accepts as a servings list), so that the insertion theorem of C17 can
  state that an insertion in step text / a paragraph leaves `servings` unchanged.
-/
set_option linter.unusedSectionVars false
set_option linter.unusedVariables false
set_option linter.unusedSimpArgs false
namespace Cook

variable {α : Type} [Arith α]

/-- what one `>>` entry (trimmed key, outer-trimmed value) does to `servings` -/
def bl17ServStep (env : Env) (sv : Option (List Nat)) (k v : Str) : Option (List Nat) :=
  match StdKey.ofStr (String.ofList k) with
  | none => sv
  | some sk =>
    match env.stdCheck sk v with
    | .servings x => some x
    | _ => sv

/-- `servings` after the entries of the parsed document -/
def docServings (env : Env) (sv : Option (List Nat)) (es : List (Text × Text)) : Option (List Nat) :=
  es.foldl (fun sv e => bl17ServStep env sv (e.1.trimmed env.cs) (e.2.outerTrimmed env.cs)) sv

/-- `servings` of the abstract document -/
def absDocServings (env : Env) (sv : Option (List Nat)) : List DocItem → Option (List Nat)
  | [] => sv
  | .metaLine k v _ :: r => absDocServings env (bl17ServStep env sv (leafText k) (leafText v)) r
  | _ :: r => absDocServings env sv r

theorem bl17_entryEffect_servings (env : Env) (k v : Text) (s : Col α) :
    (entryEffect env k v s).servings = bl17ServStep env s.servings (k.trimmed env.cs) (v.outerTrimmed env.cs) := by
  unfold entryEffect bl17ServStep
  cases StdKey.ofStr (String.ofList (k.trimmed env.cs)) with
  | none => rfl
  | some sk => cases env.stdCheck sk (v.outerTrimmed env.cs) <;> rfl

theorem bl17_finalCol_servings (s : Col α) : (finalCol s).servings = s.servings := by
  unfold finalCol
  by_cases h1 : s.cur.isEmpty = true <;> by_cases h2 : s.oldStyleUsed.isEmpty = true <;> simp [h1, h2]

/-- the fold of `parse_events` over the blocks of a document: `servings` is what the entries make it -/
theorem bl17_loop_servings (env : Env) (input : Str) :
    ∀ (blocks : List (SBlock α)), (∀ b ∈ blocks, b.OK env) →
      ∀ (base : Col α), BaseOK base → ∀ (before : List (SItem α)) (content : List Content) (n : Nat) (c : Col α),
      (parseEventsLoop env input (blocks.flatMap SBlock.events) (stOfX env base before content n none)).output = some c →
      c.servings = docServings env base.servings (docEntries blocks) := by
  intro blocks
  induction blocks with
  | nil =>
    intro _ base _ before content n c h
    rw [List.flatMap_nil, rts_loop_nil] at h
    simp only [Option.some.injEq] at h
    rw [← h, bl17_finalCol_servings]
    rfl
  | cons b r ih =>
    intro hok base hb before content n c h
    have hr : ∀ x ∈ r, x.OK env := fun x hx => hok x (by simp [hx])
    have hb0 := hok b (by simp)
    cases b with
    | step st =>
      obtain ⟨hs, hne⟩ := hb0
      rw [List.flatMap_cons, SBlock.events, rts_loop_step env input base hb _ st hs hne] at h
      exact ih hr base hb _ _ _ c h
    | sect name =>
      rw [List.flatMap_cons, SBlock.events, List.singleton_append,
        parseEventsLoop_cons_nonerror env input _ _ _ (by rintro ⟨d, h⟩; cases h), rts_section] at h
      have := ih hr
        { base with sections := (if (Section.isEmpty ⟨base.cur.name, content⟩) then base.sections
                                 else base.sections ++ [⟨base.cur.name, content⟩]),
                    cur := ⟨name.map (·.trimmed env.cs), []⟩ } hb before [] 1 c h
      rw [this]
      rfl
    | entry k v =>
      rw [List.flatMap_cons, SBlock.events, List.singleton_append,
        parseEventsLoop_cons_nonerror env input _ _ _ (by rintro ⟨d, h⟩; cases h), rts_entry env input base k v hb0] at h
      have := ih hr (entryEffect env k v base) (rts_entryEffect_base env k v base hb) _ _ _ c h
      rw [this, bl17_entryEffect_servings]
      rfl
    | para ts =>
      rw [List.flatMap_cons, SBlock.events, rts_para env input base hb _ ts] at h
      exact ih hr base hb _ _ _ c h

theorem bl17_abs_servings (env : Env) : ∀ (items : List DocItem) (blocks : List (SBlock α)),
    All2 (BlockMatches env.cs) items blocks → ∀ sv, docServings env sv (docEntries blocks) = absDocServings env sv items := by
  intro items blocks h
  induction h with
  | nil => intro sv; rfl
  | @cons d b items' blocks' hd _ ih =>
    intro sv
    cases d <;> cases b <;> simp only [BlockMatches] at hd
    · simpa [docEntries, absDocServings] using ih sv
    · simpa [docEntries, absDocServings] using ih sv
    · rename_i k v p kt vt
      simp only [docEntries, docServings, List.foldl_cons, absDocServings, hd.1, hd.2]
      exact ih _
    · simpa [docEntries, absDocServings] using ih sv

/-- **`servings` of a well-formed document** (complements `rtx_parseRecipe_doc`) -/
theorem bl17_parseRecipe_doc_servings (env : Env) (pre : List Tok) (doc : List (DocItem × List Tok))
    (hpre : blankLinesOK pre = true) (hok : ∀ d ∈ doc, d.1.ok env.cs env.ext = true)
    (hsimple : ∀ d ∈ doc, d.1.simple = true) (hplain : ∀ d ∈ doc, d.1.plain env)
    (hext : ∀ d ∈ doc, d.1.extOK α env)
    (hseps : sepsOK (doc.map (·.2)) = true) (hw : WellSpelled env.cs (pre ++ docSpec doc))
    (hfm : parseFrontmatter env.cs (render (pre ++ docSpec doc)) = none) (c : Col α)
    (hc : (parseRecipe (α := α) env (render (pre ++ docSpec doc))).output = some c) :
    c.servings = absDocServings env none (doc.map (·.1)) := by
  obtain ⟨blocks0, evss, arr, -, -, hpe, harr, hevs⟩ :=
    rtd_pullEvents_doc (α := α) env.cs env.ext pre doc hpre hok hseps hw hfm
  obtain ⟨blocks, e1, e2, e3⟩ := rtx_doc_blocks env doc evss hevs hok hsimple hplain hext
  have h0 : ({} : Col α) = stOfX env {} [] [] 1 none := by simp [stOfX, ingrsOf, cwsOf, timersOf]
  unfold parseRecipe at hc
  simp only [hpe, harr, e1] at hc
  unfold parseEvents at hc
  rw [h0] at hc
  have := bl17_loop_servings env (render (pre ++ docSpec doc)) blocks e2 {} ⟨rfl, rfl⟩ [] [] 1 c hc
  rw [this, bl17_abs_servings env _ _ e3]

/-- insertions in step text / paragraphs do not touch the `>>` lines -/
theorem bl17_absDocServings_ins (env : Env) (ws : Char → Bool) {items' items : List DocItem}
    (h : LRel (ItemIns ws) items' items) : ∀ sv, absDocServings env sv items' = absDocServings env sv items := by
  induction h with
  | nil => intro sv; rfl
  | @cons d1 d2 _ _ hd _ ih =>
    intro sv
    rcases hd with heq | ⟨segs', segs, rfl, rfl, hs⟩ | ⟨lines', lines, rfl, rfl, hp⟩
    · cases d2 <;> subst heq <;> simp only [absDocServings, ih]
    · simp only [absDocServings, ih]
    · simp only [absDocServings, ih]

/-- **the insertion theorem, `servings`**: the two recipes of `trail_recipe_doc` have the same servings -/
theorem bl17_insertion_servings (env : Env) (ws : Char → Bool) (pre' pre : List Tok) (doc' doc : List (DocItem × List Tok))
    (h' : DocWF α env pre' doc') (h : DocWF α env pre doc)
    (hins : LRel (ItemIns ws) (doc'.map (·.1)) (doc.map (·.1))) (c' c : Col α)
    (hc' : (parseRecipe (α := α) env (render (pre' ++ docSpec doc'))).output = some c')
    (hc : (parseRecipe (α := α) env (render (pre ++ docSpec doc))).output = some c) :
    c'.servings = c.servings := by
  rw [bl17_parseRecipe_doc_servings env pre' doc' h'.hpre h'.ok h'.simple h'.plain h'.ext h'.seps h'.spelled h'.noFront c' hc',
    bl17_parseRecipe_doc_servings env pre doc h.hpre h.ok h.simple h.plain h.ext h.seps h.spelled h.noFront c hc,
    bl17_absDocServings_ins env ws hins]

end Cook
