import CookModel.Lemmas.RoundtripSections
import CookModel.Lemmas.RoundtripRefs
/-
  C01, analysis layer with references: the documents of Lemmas/RoundtripSections.lean where an ingredient
  may also be a correctly written reference `&name` to an earlier definition.  The ingredient table is
  the pure function `ingrTable` of the ingredient events (a definition is appended; a reference is
  appended as `asReference …` after its definition got the back-link), the conditions on a reference are
  stated against the table of the ingredients before it.  (`rtsr_` prefix; a modified copy of the
  `rts_` development, which it generalises: `rtsr_ingrTable_simple`.)
-/
set_option linter.unusedSectionVars false
set_option linter.unusedSimpArgs false
set_option linter.unusedVariables false
namespace Cook

variable {α : Type} [Arith α]

/-! ### the ingredient table as a function of the ingredient events -/

/-- what one ingredient event does to the table: a component carrying REF whose name has an earlier
    non-REF definition becomes a reference to the last such definition, which lists it back; everything
    else is appended as a definition -/
def ingrPush (env : Env) (tbl : Array (Ingredient (ScalableValue α))) (li : Loc (PIngredient α)) :
    Array (Ingredient (ScalableValue α)) :=
  if li.val.modifiers.val.contains Modifiers.REF then
    match sameNameIdx env (tbl.toList.map (fun x => (x.name, x.modifiers))) (ingrOf env li).name with
    | some t =>
      match tbl[t]? with
      | some defn =>
        match defn.relation with
        | ⟨.definition rf b, tg⟩ =>
          (tbl.setIfInBounds t (backlinked defn rf tbl.size b tg)).push (asReference (ingrOf env li) defn.modifiers t)
        | _ => tbl.push (ingrOf env li)
      | none => tbl.push (ingrOf env li)
    | none => tbl.push (ingrOf env li)
  else tbl.push (ingrOf env li)

def ingrTable (env : Env) (l : List (Loc (PIngredient α))) : Array (Ingredient (ScalableValue α)) :=
  l.foldl (ingrPush env) #[]

theorem rtsr_ingrPush_size (env : Env) (tbl : Array (Ingredient (ScalableValue α))) (li : Loc (PIngredient α)) :
    (ingrPush env tbl li).size = tbl.size + 1 := by
  unfold ingrPush
  repeat' split
  all_goals simp

theorem rtsr_ingrTable_snoc (env : Env) (l : List (Loc (PIngredient α))) (li : Loc (PIngredient α)) :
    ingrTable env (l ++ [li]) = ingrPush env (ingrTable env l) li := by
  simp [ingrTable, List.foldl_append]

theorem rtsr_foldl_size (env : Env) (l : List (Loc (PIngredient α))) (tbl : Array (Ingredient (ScalableValue α))) :
    (l.foldl (ingrPush env) tbl).size = tbl.size + l.length := by
  induction l generalizing tbl with
  | nil => rfl
  | cons li r ih => rw [List.foldl_cons, ih, rtsr_ingrPush_size, List.length_cons]; omega

theorem rtsr_ingrTable_size (env : Env) (l : List (Loc (PIngredient α))) : (ingrTable env l).size = l.length := by
  unfold ingrTable
  rw [rtsr_foldl_size]
  simp

theorem rtsr_foldl_simple (env : Env) (l : List (Loc (PIngredient α))) (tbl : Array (Ingredient (ScalableValue α)))
    (h : ∀ li ∈ l, li.val.modifiers.val.contains Modifiers.REF = false) :
    l.foldl (ingrPush env) tbl = tbl ++ (l.map (ingrOf env)).toArray := by
  induction l generalizing tbl with
  | nil => simp
  | cons li r ih =>
    have hp : ingrPush env tbl li = tbl.push (ingrOf env li) := by
      unfold ingrPush
      simp [h li (by simp)]
    rw [List.foldl_cons, hp, ih _ (fun x hx => h x (by simp [hx]))]
    simp

/-- without references the table is the list of the written definitions -/
theorem rtsr_ingrTable_simple (env : Env) (l : List (Loc (PIngredient α)))
    (h : ∀ li ∈ l, li.val.modifiers.val.contains Modifiers.REF = false) :
    ingrTable env l = (l.map (ingrOf env)).toArray := by
  unfold ingrTable
  rw [rtsr_foldl_simple env l #[] h]
  simp

/-- a correctly written reference, relative to the table of the ingredients before it -/
structure IngrRefOK (env : Env) (tbl : Array (Ingredient (ScalableValue α))) (li : Loc (PIngredient α)) : Prop where
  inter : li.val.inter = none
  lock : ∀ q, li.val.quantity = some q → lockOK q.val.value true
  ref : li.val.modifiers.val.contains Modifiers.REF = true
  notNew : li.val.modifiers.val.contains Modifiers.NEW = false
  target : ∃ t defn rf b tg,
    sameNameIdx env (tbl.toList.map (fun x => (x.name, x.modifiers))) (ingrOf env li).name = some t ∧
    tbl[t]? = some defn ∧ defn.relation = ⟨.definition rf b, tg⟩ ∧
    refConflict li.val.modifiers.val
      ⟨defn.modifiers.bits &&& (Modifiers.HIDDEN ||| Modifiers.OPT ||| Modifiers.RECIPE)⟩ = 0 ∧
    RefChecksQuiet env li (ingrOf env li).quantity defn b

/-- side conditions of an item given the ingredient table so far -/
def SItem.OKAt (env : Env) (tbl : Array (Ingredient (ScalableValue α))) : SItem α → Prop
  | .ingredient i => IngrSimple i ∨ IngrRefOK env tbl i
  | it => it.SimpleX env

/-- the items of a step, each checked against the table of the ingredients before it -/
def itemsOK (env : Env) : List (SItem α) → List (SItem α) → Prop
  | _, [] => True
  | before, it :: r => it.OKAt env (ingrTable env (ingrsOf before)) ∧ itemsOK env (before ++ [it]) r

def blocksOK (env : Env) : List (SItem α) → List (SBlock α) → Prop
  | _, [] => True
  | before, .step st :: r => itemsOK env before st ∧ st ≠ [] ∧ blocksOK env (before ++ st) r
  | before, .sect _ :: r => blocksOK env before r
  | before, .entry k v :: r => EntryPlain env k v ∧ blocksOK env before r
  | before, .para _ :: r => blocksOK env before r

theorem rtsr_ingrsOf_snoc (before : List (SItem α)) (it : SItem α) :
    ingrsOf (before ++ [it]) = ingrsOf before ++ (match it with | .ingredient i => [i] | _ => []) := by
  cases it <;> simp [ingrsOf, SItem.ingr?]

/-- the collector after the items `before`, on top of `base` (sections pushed so far, name of the
    current section, metadata, diagnostics, modes): current section content, step counter, open block -/
def stOfR (env : Env) (base : Col α) (before : List (SItem α)) (content : List Content) (counter : Nat)
    (block : Option BlockBuf) : Col α :=
  { base with
    cur := ⟨base.cur.name, content⟩,
    ingredients := ingrTable env (ingrsOf before),
    cookware := ((cwsOf before).map (cwOf env)).toArray,
    timers := ((timersOf before).map (timerOf env)).toArray,
    locIngr := (ingrsOf before).toArray,
    locCw := (cwsOf before).toArray,
    stepCounter := counter,
    block := block }

theorem rtsr_item (env : Env) (input : Str) (base : Col α) (hb : BaseOK base) (it : SItem α)
    (before : List (SItem α)) (h : it.OKAt env (ingrTable env (ingrsOf before))) (content : List Content) (n : Nat)
    (items : List Item) :
    (processEvent env input it.ev (stOfR env base before content n (some (.step items)))).2 =
      stOfR env base (before ++ [it]) content n (some (.step (items ++ [it.toItem before]))) := by
  have hd : (stOfR env base before content n (some (.step items))).defineMode = .all := hb.1
  have hdup : (stOfR env base before content n (some (.step items))).duplicateMode = .new := hb.2
  have hsz : (ingrTable env (List.filterMap SItem.ingr? before)).size = (List.filterMap SItem.ingr? before).length :=
    rtsr_ingrTable_size env _
  cases it with
  | text t =>
    rw [SItem.ev, rts_proc_text env input t _ items h hd rfl]
    simp [stOfR, SItem.toItem, ingrsOf, cwsOf, timersOf, SItem.ingr?, SItem.cw?, SItem.timer?, List.filterMap]
  | ingredient li =>
    have hsnoc : ingrsOf (before ++ [SItem.ingredient li]) = ingrsOf before ++ [li] := by
      simp [ingrsOf, SItem.ingr?]
    rcases h with h | h
    · rw [SItem.ev, rta_proc_ingredient env input li _ items h hd hdup rfl]
      have hp : ingrPush env (ingrTable env (ingrsOf before)) li = (ingrTable env (ingrsOf before)).push (ingrOf env li) := by
        unfold ingrPush
        simp [h.mods.2]
      simp only [stOfR, hsnoc, rtsr_ingrTable_snoc, hp]
      simp [SItem.toItem, ingrsOf, cwsOf, timersOf, SItem.ingr?, SItem.cw?, SItem.timer?, hsz]
    · obtain ⟨t, defn, rf, b, tg, h1, h2, h3, h4, h5⟩ := h.target
      have hlt : t < (ingrsOf before).length := by
        rcases Nat.lt_or_ge t (ingrTable env (ingrsOf before)).size with hh | hh
        · rw [rtsr_ingrTable_size] at hh; exact hh
        · rw [Array.getElem?_eq_none hh] at h2; cases h2
      have hloc : (stOfR env base before content n (some (.step items))).locIngr[t]? = some ((ingrsOf before)[t]'hlt) := by
        simp [stOfR, hlt]
      rw [SItem.ev, rtf_proc_ingredient_ref env input li _ items t defn _ rf b tg hd hdup rfl h.inter h.lock h.ref h.notNew
        h1 h2 hloc h3 h4 h5]
      have hp : ingrPush env (ingrTable env (ingrsOf before)) li =
          ((ingrTable env (ingrsOf before)).setIfInBounds t (backlinked defn rf (ingrTable env (ingrsOf before)).size b tg)).push
            (asReference (ingrOf env li) defn.modifiers t) := by
        unfold ingrPush
        simp only [h.ref, if_true, h1, h2, h3]
      simp only [stOfR, hsnoc, rtsr_ingrTable_snoc, hp]
      simp [SItem.toItem, ingrsOf, cwsOf, timersOf, SItem.ingr?, SItem.cw?, SItem.timer?, hsz]
  | cookware lc =>
    rw [SItem.ev, rta_proc_cookware env input lc _ items h hd hdup rfl]
    simp [stOfR, SItem.toItem, ingrsOf, cwsOf, timersOf, SItem.ingr?, SItem.cw?, SItem.timer?, List.filterMap]
  | timer lt =>
    rw [SItem.ev, rts_proc_timer env input lt _ items h.1 h.2 rfl]
    simp [stOfR, SItem.toItem, ingrsOf, cwsOf, timersOf, SItem.ingr?, SItem.cw?, SItem.timer?, List.filterMap]

theorem rtsr_loop_items (env : Env) (input : Str) (base : Col α) (hb : BaseOK base) (rest : List (Ev α))
    (content : List Content) (n : Nat) :
    ∀ (st : List (SItem α)) (before : List (SItem α)), itemsOK env before st → ∀ (items : List Item),
      parseEventsLoop env input (st.map SItem.ev ++ rest) (stOfR env base before content n (some (.step items))) =
        parseEventsLoop env input rest
          (stOfR env base (before ++ st) content n (some (.step (items ++ itemsFrom before st)))) := by
  intro st
  induction st with
  | nil => intro before _ items; simp [itemsFrom]
  | cons it r ih =>
    intro before hs items
    rw [List.map_cons, List.cons_append, parseEventsLoop_cons_nonerror env input _ _ _ (rta_ev_not_error it),
      rtsr_item env input base hb it before hs.1, ih (before ++ [it]) hs.2]
    simp [itemsFrom]

theorem rtsr_start (env : Env) (input : Str) (base : Col α) (hb : BaseOK base) (before : List (SItem α))
    (content : List Content) (n : Nat) :
    (processEvent env input (.start .step) (stOfR env base before content n none)).2 =
      stOfR env base before content n (some (.step [])) := by
  simp [processEvent, modify, modifyGet, MonadStateOf.modifyGet, StateT.modifyGet, stOfR, pure, StateT.pure, hb.1]

theorem rtsr_stop (env : Env) (input : Str) (base : Col α) (hb : BaseOK base) (before : List (SItem α))
    (content : List Content) (n : Nat) (items : List Item) (hne : items ≠ []) :
    (processEvent env input (.stop .step) (stOfR env base before content n (some (.step items)))).2 =
      stOfR env base before (content ++ [.step ⟨items, n⟩]) (n + 1) none := by
  have hne' : items.isEmpty = false := by cases items <;> simp_all
  simp [processEvent, endBlock, endBlockContent, pushContent, Content.isStep, Content.isEmptyContent, hne', bind,
    StateT.bind, get, getThe, MonadStateOf.get, StateT.get, pure, StateT.pure, modify, modifyGet,
    MonadStateOf.modifyGet, StateT.modifyGet, stOfR, hb.1]

/-- one step block -/
theorem rtsr_loop_step (env : Env) (input : Str) (base : Col α) (hb : BaseOK base) (rest : List (Ev α))
    (st : List (SItem α)) (before : List (SItem α)) (hs : itemsOK env before st) (hne : st ≠ [])
    (content : List Content) (n : Nat) :
    parseEventsLoop env input (stepEvents st ++ rest) (stOfR env base before content n none) =
      parseEventsLoop env input rest
        (stOfR env base (before ++ st) (content ++ [.step ⟨itemsFrom before st, n⟩]) (n + 1) none) := by
  have e : stepEvents st ++ rest = Ev.start .step :: (st.map SItem.ev ++ (Ev.stop .step :: rest)) := by
    simp [stepEvents]
  rw [e, parseEventsLoop_cons_nonerror env input _ _ _ (by rintro ⟨d, h⟩; cases h), rtsr_start env input base hb,
    rtsr_loop_items env input base hb _ content n st before hs [],
    parseEventsLoop_cons_nonerror env input _ _ _ (by rintro ⟨d, h⟩; cases h), List.nil_append,
    rtsr_stop env input base hb _ content n _ (rta_itemsFrom_ne before st hne)]

/-- a section line: the current section is pushed unless it is empty, the new one starts at step 1 -/
theorem rtsr_section (env : Env) (input : Str) (base : Col α) (name : Option Text) (before : List (SItem α))
    (content : List Content) (n : Nat) :
    (processEvent env input (.section name) (stOfR env base before content n none)).2 =
      stOfR env
        { base with sections := (if (Section.isEmpty ⟨base.cur.name, content⟩) then base.sections
                                 else base.sections ++ [⟨base.cur.name, content⟩]),
                    cur := ⟨name.map (·.trimmed env.cs), []⟩ } before [] 1 none := by
  by_cases h : Section.isEmpty ⟨base.cur.name, content⟩ = true <;>
    simp [processEvent, modify, modifyGet, MonadStateOf.modifyGet, StateT.modifyGet, stOfR, pure, StateT.pure, h]

theorem rtsr_entryEffect_stOfR (env : Env) (k v : Text) (base : Col α) (before : List (SItem α))
    (content : List Content) (n : Nat) (block : Option BlockBuf) :
    entryEffect env k v (stOfR env base before content n block) =
      stOfR env (entryEffect env k v base) before content n block := by
  unfold entryEffect
  cases StdKey.ofStr (String.ofList (k.trimmed env.cs)) <;> simp [stOfR]

theorem rtsr_entry (env : Env) (input : Str) (base : Col α) (k v : Text) (h : EntryPlain env k v)
    (before : List (SItem α)) (content : List Content) (n : Nat) :
    (processEvent env input (.metadata k v) (stOfR env base before content n none)).2 =
      stOfR env (entryEffect env k v base) before content n none := by
  have e : processEvent env input (.metadata k v) (stOfR env base before content n none) =
      metadataA env k v (stOfR env base before content n none) := rfl
  rw [e, rts_metadataA_plain env k v _ h, rtsr_entryEffect_stOfR]

theorem rtsr_entryEffect_base (env : Env) (k v : Text) (base : Col α) (hb : BaseOK base) :
    BaseOK (entryEffect env k v base) := by
  unfold entryEffect BaseOK
  cases StdKey.ofStr (String.ofList (k.trimmed env.cs)) <;> exact hb

/-! ### text paragraphs -/

theorem rtsr_para_texts (env : Env) (input : Str) (base : Col α) (rest : List (Ev α)) (before : List (SItem α))
    (content : List Content) (n : Nat) :
    ∀ (ts : List Text) (buf : Str),
      parseEventsLoop env input (ts.map Ev.text ++ rest) (stOfR env base before content n (some (.text buf))) =
        parseEventsLoop env input rest (stOfR env base before content n (some (.text (buf ++ ts.flatMap (·.text))))) := by
  intro ts
  induction ts with
  | nil => intro buf; simp
  | cons t r ih =>
    intro buf
    have hstep : (processEvent env input (.text t) (stOfR env base before content n (some (.text buf)))).2 =
        stOfR env base before content n (some (.text (buf ++ t.text))) := by
      have e : processEvent env input (.text t) (stOfR env base before content n (some (.text buf))) =
          inStepText env t (stOfR env base before content n (some (.text buf))) := rfl
      rw [e]
      unfold inStepText
      simp [bind, StateT.bind, get, getThe, MonadStateOf.get, StateT.get, pure, StateT.pure, stOfR, modify, modifyGet,
        MonadStateOf.modifyGet, StateT.modifyGet]
    rw [List.map_cons, List.cons_append, parseEventsLoop_cons_nonerror env input _ _ _ (by rintro ⟨d, h⟩; cases h), hstep,
      ih]
    simp [List.append_assoc]

/-- one text paragraph: its joined text is appended to the current section (nothing if it is empty); the
    step counter does not move -/
theorem rtsr_para (env : Env) (input : Str) (base : Col α) (hb : BaseOK base) (rest : List (Ev α)) (ts : List Text)
    (before : List (SItem α)) (content : List Content) (n : Nat) :
    parseEventsLoop env input (([Ev.start .text] ++ ts.map Ev.text ++ [Ev.stop .text]) ++ rest)
        (stOfR env base before content n none) =
      parseEventsLoop env input rest (stOfR env base before (content ++ paraContent ts) n none) := by
  have e : ([Ev.start .text] ++ ts.map Ev.text ++ [Ev.stop .text]) ++ rest =
      Ev.start .text :: (ts.map Ev.text ++ (Ev.stop .text :: rest)) := by simp
  have hstart : (processEvent env input (.start .text) (stOfR env base before content n none)).2 =
      stOfR env base before content n (some (.text [])) := by
    simp [processEvent, modify, modifyGet, MonadStateOf.modifyGet, StateT.modifyGet, stOfR, pure, StateT.pure, hb.1]
  have hstop : ∀ buf, (processEvent env input (.stop .text) (stOfR env base before content n (some (.text buf)))).2 =
      stOfR env base before (content ++ (if buf.isEmpty then [] else [.text buf])) n none := by
    intro buf
    by_cases hbuf : buf.isEmpty = true <;>
      simp [processEvent, endBlock, endBlockContent, pushContent, Content.isStep, Content.isEmptyContent, hbuf, bind,
        StateT.bind, get, getThe, MonadStateOf.get, StateT.get, pure, StateT.pure, modify, modifyGet,
        MonadStateOf.modifyGet, StateT.modifyGet, stOfR, hb.1]
  rw [e, parseEventsLoop_cons_nonerror env input _ _ _ (by rintro ⟨d, h⟩; cases h), hstart,
    rtsr_para_texts env input base _ before content n ts [],
    parseEventsLoop_cons_nonerror env input _ _ _ (by rintro ⟨d, h⟩; cases h), hstop]
  simp [paraContent]

/-! ### the intended result -/

structure DocResultR (env : Env) (base : Col α) (before : List (SItem α)) (content : List Content) (n : Nat)
    (blocks : List (SBlock α)) (c : Col α) : Prop where
  sections : c.sections = base.sections ++ docSecs env before ⟨base.cur.name, content⟩ n blocks
  ingredients : c.ingredients = ingrTable env (ingrsOf (before ++ docStepItems blocks))
  cookware : c.cookware = ((cwsOf (before ++ docStepItems blocks)).map (cwOf env)).toArray
  timers : c.timers = ((timersOf (before ++ docStepItems blocks)).map (timerOf env)).toArray
  metaMap : c.metaMap = docMeta env base.metaMap (docEntries blocks)
  used : c.oldStyleUsed = base.oldStyleUsed ++ docSpans (docEntries blocks)
  diags : c.diags = base.diags ++ deprecation (base.oldStyleUsed ++ docSpans (docEntries blocks))
  inlineQ : c.inlineQ = base.inlineQ
  frontMatter : c.frontMatter = base.frontMatter

theorem rtsr_final (env : Env) (input : Str) (base : Col α) (before : List (SItem α)) (content : List Content) (n : Nat) :
    ∃ c : Col α, parseEventsLoop env input [] (stOfR env base before content n none) = ⟨some c, c.diags, base.panic⟩ ∧
      DocResultR env base before content n [] c := by
  refine ⟨finalCol (stOfR env base before content n none), ?_, ?_⟩
  · rw [rts_loop_nil]
    congr 1
    unfold finalCol
    by_cases h1 : Section.isEmpty ⟨base.cur.name, content⟩ = true <;>
      by_cases h2 : base.oldStyleUsed.isEmpty = true <;> simp [stOfR, h1, h2]
  · unfold finalCol
    by_cases h1 : Section.isEmpty ⟨base.cur.name, content⟩ = true <;>
      by_cases h2 : base.oldStyleUsed.isEmpty = true <;>
      constructor <;>
        simp [stOfR, h1, h2, docSecs, docStepItems, docEntries, docMeta, docSpans, deprecation]

theorem rtsr_loop_doc (env : Env) (input : Str) :
    ∀ (blocks : List (SBlock α)) (before : List (SItem α)), blocksOK env before blocks →
      ∀ (base : Col α), BaseOK base → ∀ (content : List Content) (n : Nat),
      ∃ c : Col α,
        parseEventsLoop env input (blocks.flatMap SBlock.events) (stOfR env base before content n none) =
          ⟨some c, c.diags, base.panic⟩ ∧
        DocResultR env base before content n blocks c := by
  intro blocks
  induction blocks with
  | nil => intro before _ base _ content n; exact rtsr_final env input base before content n
  | cons b r ih =>
    intro before hok base hb content n
    cases b with
    | step st =>
      obtain ⟨hs, hne, hr⟩ := hok
      obtain ⟨c, h1, h2⟩ := ih (before ++ st) hr base hb (content ++ [.step ⟨itemsFrom before st, n⟩]) (n + 1)
      refine ⟨c, ?_, ?_⟩
      · rw [List.flatMap_cons, SBlock.events, rtsr_loop_step env input base hb _ st before hs hne, h1]
      · obtain ⟨a1, a2, a3, a4, a5, a6, a7, a8, a9⟩ := h2
        exact ⟨by rw [a1]; rfl, by rw [a2]; simp [docStepItems], by rw [a3]; simp [docStepItems], by rw [a4]; simp [docStepItems],
          a5, a6, a7, a8, a9⟩
    | sect name =>
      have hr : blocksOK env before r := hok
      obtain ⟨c, h1, h2⟩ := ih before hr
        { base with sections := (if (Section.isEmpty ⟨base.cur.name, content⟩) then base.sections
                                 else base.sections ++ [⟨base.cur.name, content⟩]),
                    cur := ⟨name.map (·.trimmed env.cs), []⟩ } hb [] 1
      refine ⟨c, ?_, ?_⟩
      · rw [List.flatMap_cons, SBlock.events, List.singleton_append,
          parseEventsLoop_cons_nonerror env input _ _ _ (by rintro ⟨d, h⟩; cases h), rtsr_section, h1]
      · obtain ⟨a1, a2, a3, a4, a5, a6, a7, a8, a9⟩ := h2
        refine ⟨?_, a2, a3, a4, a5, a6, a7, a8, a9⟩
        rw [a1]
        by_cases hc : Section.isEmpty ⟨base.cur.name, content⟩ = true <;> simp [docSecs, hc]
    | entry k v =>
      obtain ⟨hb0, hr⟩ := hok
      obtain ⟨c, h1, h2⟩ := ih before hr (entryEffect env k v base) (rtsr_entryEffect_base env k v base hb) content n
      have hpanic : (entryEffect env k v base).panic = base.panic := by
        unfold entryEffect; cases StdKey.ofStr (String.ofList (k.trimmed env.cs)) <;> rfl
      have hsec : (entryEffect env k v base).sections = base.sections ∧ (entryEffect env k v base).cur = base.cur ∧
          (entryEffect env k v base).metaMap = metaInsert base.metaMap (k.trimmed env.cs) (v.outerTrimmed env.cs) ∧
          (entryEffect env k v base).oldStyleUsed = base.oldStyleUsed ++ [⟨k.span.start, v.span.stop⟩] ∧
          (entryEffect env k v base).diags = base.diags ∧ (entryEffect env k v base).inlineQ = base.inlineQ ∧
          (entryEffect env k v base).frontMatter = base.frontMatter := by
        unfold entryEffect; cases StdKey.ofStr (String.ofList (k.trimmed env.cs)) <;> exact ⟨rfl, rfl, rfl, rfl, rfl, rfl, rfl⟩
      obtain ⟨e1, e2, e3, e4, e5, e6, e7⟩ := hsec
      refine ⟨c, ?_, ?_⟩
      · rw [List.flatMap_cons, SBlock.events, List.singleton_append,
          parseEventsLoop_cons_nonerror env input _ _ _ (by rintro ⟨d, h⟩; cases h), rtsr_entry env input base k v hb0, h1,
          hpanic]
      · obtain ⟨a1, a2, a3, a4, a5, a6, a7, a8, a9⟩ := h2
        refine ⟨?_, a2, a3, a4, ?_, ?_, ?_, by rw [a8, e6], by rw [a9, e7]⟩
        · rw [a1, e1, e2]; rfl
        · rw [a5, e3]; rfl
        · rw [a6, e4]; simp [docEntries, docSpans]
        · rw [a7, e4, e5]; simp [docEntries, docSpans]

    | para ts =>
      have hr : blocksOK env before r := hok
      obtain ⟨c, h1, h2⟩ := ih before hr base hb (content ++ paraContent ts) n
      refine ⟨c, ?_, ?_⟩
      · rw [List.flatMap_cons, SBlock.events, rtsr_para env input base hb _ ts, h1]
      · obtain ⟨a1, a2, a3, a4, a5, a6, a7, a8, a9⟩ := h2
        exact ⟨by rw [a1]; rfl, a2, a3, a4, a5, a6, a7, a8, a9⟩

/-- **analysis layer, documents with sections and metadata** -/
theorem rtsr_parseEvents_doc (env : Env) (input : Str) (blocks : List (SBlock α)) (hok : blocksOK env [] blocks) :
    ∃ c : Col α, parseEvents env input (blocks.flatMap SBlock.events) = ⟨some c, c.diags, none⟩ ∧
      c.sections = docSecs env [] ⟨none, []⟩ 1 blocks ∧
      c.ingredients = ingrTable env (ingrsOf (docStepItems blocks)) ∧
      c.cookware.toList = (cwsOf (docStepItems blocks)).map (cwOf env) ∧
      c.timers.toList = (timersOf (docStepItems blocks)).map (timerOf env) ∧
      c.metaMap = docMeta env [] (docEntries blocks) ∧
      c.diags = deprecation (docSpans (docEntries blocks)) ∧
      c.inlineQ = #[] ∧ c.frontMatter = none := by
  have h0 : ({} : Col α) = stOfR env {} [] [] 1 none := by simp [stOfR, ingrsOf, cwsOf, timersOf, ingrTable]
  obtain ⟨c, h1, h2⟩ := rtsr_loop_doc env input blocks [] hok {} ⟨rfl, rfl⟩ [] 1
  refine ⟨c, ?_, ?_, ?_, ?_, ?_, ?_, ?_, ?_, ?_⟩
  · unfold parseEvents; rw [h0, h1]
  · rw [h2.sections]; simp
  · rw [h2.ingredients]; simp
  · rw [h2.cookware]; simp
  · rw [h2.timers]; simp
  · rw [h2.metaMap]
  · rw [h2.diags]; simp
  · rw [h2.inlineQ]
  · rw [h2.frontMatter]

end Cook
