import CookModel.Lemmas.BuilderDeclared
/- C16 — the iteration order of an extend block's hash map: whenever two orders both succeed they give the same
   units and the same index (as a lookup function). -/
namespace Cook.Bld
open Cook

/-- same units, same lookups -/
def CoreEq {α : Type} (a b : Core α) : Prop := a.units = b.units ∧ ∀ k, idxGet a.index k = idxGet b.index k

/-- the index of a consistent state is determined by its units -/
theorem index_determined {α : Type} {a b : Core α} (ha : Inv a) (hb : Inv b) (hu : a.units = b.units) (k : Key) :
    idxGet a.index k = idxGet b.index k := by
  have key : ∀ (x y : Core α), Inv x → Inv y → x.units = y.units → ∀ id, idxGet x.index k = some id → idxGet y.index k = some id := by
    intro x y hx hy hxy id hid
    obtain ⟨_, u, hu1, hk⟩ := hx.sound k id hid
    exact hy.complete id u (by simp) (by rw [← hxy]; exact hu1) k hk
  cases h1 : idxGet a.index k with
  | some id => exact (key a b ha hb hu id h1).symm
  | none =>
    cases h2 : idxGet b.index k with
    | none => rfl
    | some id => have := key b a hb ha hu.symm id h2; rw [h1] at this; cases this

theorem unitB_ext {α : Type} {a b : UnitB α} (h1 : a.unit = b.unit) (h2 : SameFlags a b) : a = b := by
  cases a; cases b; obtain ⟨x, y, z⟩ := h2; simp_all

/-- Two iteration orders of the same extend block that both succeed give the same result. -/
theorem applyExtendGroup_order_unique {α : Type} [Arith α] (si : SIConf) (c c1 c2 : Core α) (g g' : Extend α)
    (hc : Ready c) (hsi : SIInv si c.units) (hprec : g'.precedence = g.precedence) (hperm : g'.units.Perm g.units)
    (h1 : applyExtendGroup si c g = .ok c1) (h2 : applyExtendGroup si c g' = .ok c2) : CoreEq c1 c2 := by
  have hr1 := (applyExtendGroup_good si c g hc).of_ok h1
  have hr2 := (applyExtendGroup_good si c g' hc).of_ok h2
  have hs1 := applyExtendGroup_si si c c1 g hc hsi h1
  have hs2 := applyExtendGroup_si si c c2 g' hc hsi h2
  obtain ⟨l1, a1, k1⟩ := applyExtendGroup_spec' si c c1 g hc h1
  obtain ⟨l2, a2, k2⟩ := applyExtendGroup_spec' si c c2 g' hc h2
  rw [hprec] at a2
  have hmem : ∀ ke, ke ∈ g'.units ↔ ke ∈ g.units := fun ke => hperm.mem_iff
  -- every unit of c has an image in c1 and in c2, with the same flags and aliases; units that are not expansions agree
  have himg : ∀ (j : Nat) (v : UnitB α), c.units[j]? = some v →
      ∃ w1 w2, c1.units[j]? = some w1 ∧ c2.units[j]? = some w2 ∧ SameFlags w1 v ∧ SameFlags w2 v ∧
        w1.unit.aliases = w2.unit.aliases ∧ (v.isExpanded = false → w1 = w2) := by
    intro j v hv
    by_cases haddr : ∃ ke, ke ∈ g.units ∧ idxGet c.index ke.1 = some j
    · obtain ⟨ke, hke, hid⟩ := haddr
      obtain ⟨id, u, u', q1, q2, q3, q4, q5, q6⟩ := a1 ke hke
      obtain ⟨id', v', u'', r1, r2, r3, r4, r5, r6⟩ := a2 ke ((hmem ke).mpr hke)
      rw [hid] at q1 r1; cases q1; cases r1
      rw [hv] at q2 r2; cases q2; cases r2
      exact ⟨u', u'', q3, r3, q4, r4, by rw [q5, r5], fun hne => by rw [q6 hne, r6 hne]⟩
    · have hn1 : ∀ ke, ke ∈ g.units → idxGet c.index ke.1 ≠ some j := fun ke hke e => haddr ⟨ke, hke, e⟩
      have hn2 : ∀ ke, ke ∈ g'.units → idxGet c.index ke.1 ≠ some j := fun ke hke e => haddr ⟨ke, (hmem ke).mp hke, e⟩
      obtain ⟨w1, p1, p2, p3, p4⟩ := k1 j v hn1 hv
      obtain ⟨w2, s1, s2, s3, s4⟩ := k2 j v hn2 hv
      exact ⟨w1, w2, p1, s1, p3, s3, by rw [p2, s2], fun hne => by rw [p4 hne, s4 hne]⟩
  have hunits : c1.units = c2.units := by
    apply List.ext_getElem?
    intro j
    by_cases hj : j < c.units.length
    · obtain ⟨w1, w2, e1, e2, f1, f2, hal, hbase⟩ := himg j (c.units[j]) (by simp [hj])
      rw [e1, e2]
      cases hx : (c.units[j]).isExpanded with
      | false => rw [hbase hx]
      | true =>
        -- an expansion: both are the expansion of the same (equal) parent, with the same aliases
        have hx1 : w1.isExpanded = true := by rw [f1.2.1]; exact hx
        obtain ⟨i, p1, m, p, hp1, hm1, hmp⟩ := hs1.hasParent j w1 e1 hx1
        have hilt : i < c.units.length := by rw [← l1]; exact lt_of_getElem?_some hp1
        obtain ⟨y1, y2, d1, d2, g1, g2, _, hpb⟩ := himg i (c.units[i]) (by simp [hilt])
        have hy1 : y1 = p1 := by rw [hp1] at d1; exact (Option.some.inj d1).symm
        subst hy1
        have hm0 : (c.units[i]).expanded = some m := by rw [← g1.1]; exact hm1
        have hbase_i : (c.units[i]).isExpanded = false := by
          cases hb : (c.units[i]).isExpanded with
          | false => rfl
          | true => have := (hc.1.struct.flag i _ (by simp [hilt]) hb).2; rw [hm0] at this; cases this
        have hpeq : y1 = y2 := hpb hbase_i
        subst hpeq
        obtain ⟨pfx, sym, t1, t2, hk1⟩ := hs1.forms i y1 m hp1 hm1
        obtain ⟨pfx', sym', t1', t2', hk2⟩ := hs2.forms i y1 m d2 hm1
        rw [t1] at t1'; cases t1'; rw [t2] at t2'; cases t2'
        obtain ⟨ch1, hch1, heq1⟩ := hk1 p
        obtain ⟨ch2, hch2, heq2⟩ := hk2 p
        rw [hmp, e1] at hch1; cases hch1
        rw [hmp, e2] at hch2; cases hch2
        rw [heq1, heq2, hal]
    · have hj1 : c1.units.length ≤ j := by omega
      have hj2 : c2.units.length ≤ j := by omega
      rw [List.getElem?_eq_none_iff.mpr hj1, List.getElem?_eq_none_iff.mpr hj2]
  exact ⟨hunits, index_determined hr1.1 hr2.1 hunits⟩

/-- the state before the last layer's block satisfies the premises of the order theorem -/
theorem build_last_block_si {α : Type} [Arith α] (fs : List (UnitsFile α)) (f : UnitsFile α) (g : Extend α) (hg : f.extend = some g)
    (b : Builder α) (c : Core α) (h : buildCore (fs ++ [f]) = .ok (b, c)) :
    ∃ c0, Ready c0 ∧ SIInv b.si c0.units ∧ applyExtendGroup b.si c0 g = .ok c := by
  unfold buildCore at h
  split at h
  · cases h
  · rename_i b0 hb0
    split at h
    · cases h
    · rename_i c1 hc1
      cases h
      have hbok := (addFiles_good (fs ++ [f]) Builder.empty BOK.empty).of_ok hb0
      obtain ⟨hext, _⟩ := addFiles_settings hb0
      have hext' : b.extend = fs.filterMap (·.extend) ++ [g] := by
        rw [hext]; simp [Builder.empty, List.filterMap_append, hg]
      unfold finishCore at hc1
      split at hc1
      · cases hc1
      · rename_i ce hce
        have hr := (expandAll_good b.si b.core hbok.1).of_ok hce
        have hs := expandAll_si b.si b.core ce hbok.1 hce
        rw [hext'] at hc1
        obtain ⟨c0, h0, h1⟩ := applyExtendGroups_append b.si _ g ce c hc1
        exact ⟨c0, (applyExtendGroups_good b.si _ ce hr).of_ok h0, applyExtendGroups_si b.si _ ce c0 hr hs h0, h1⟩

end Cook.Bld
