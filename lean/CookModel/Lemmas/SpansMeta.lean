import CookModel.Lemmas.SpansFront
/-
  Source locations of the metadata-only scanner (`into_meta_iter`, model `pullMetaEvents`).
-/
set_option linter.unusedSectionVars false
set_option linter.unusedSimpArgs false
set_option linter.unusedVariables false
namespace Cook

variable {α : Type} [Arith α] {off : Nat} {w : List Char}

theorem metaBlocks_blocksIn (fuel : Nat) (last : TK) (ts : List Tok) (o : Nat) (h : RunIn off w o ts)
    {b : Nat} (hb : b ≤ o) : BlocksIn off w b (metaBlocks fuel last ts) := by
  induction fuel generalizing last ts o b with
  | zero => simp [metaBlocks, BlocksIn]
  | succ fuel ih =>
    unfold metaBlocks
    split
    · trivial
    · rename_i ts' hs
      obtain ⟨⟨pre, hp⟩, t, l, htl, hk⟩ := seekMeta_spec _ _ _ hs
      rw [hp] at h
      obtain ⟨hpre, h1⟩ := h.append
      have hsplit := List.takeWhile_append_dropWhile (p := fun t : Tok => t.kind != .newline) (l := ts')
      have h1' := h1
      rw [← hsplit] at h1'
      obtain ⟨hline, h2⟩ := h1'.append
      have hne : ts'.takeWhile (fun t => t.kind != .newline) ≠ [] := by
        rw [htl, List.takeWhile_cons]; simp [hk]
      obtain ⟨e1, e2⟩ := offAt_length hline hne
      refine ⟨hline.wfi hne, ?_, ?_⟩
      · rw [e1]; exact Nat.le_trans hb hpre.le
      · rw [e2]
        have h3 := h2.suffix 1
        exact ih _ _ _ h3 (h2.prefix 1).le

theorem runMetaBlock_ev (cs : CharSpec) (ext : Ext) (blk : List Tok) (evs : Array (Ev α))
    (hw : WFI off w blk) {b : Nat} (hinv : TopInv off w b evs) (hb : b ≤ baseOff blk) :
    TopInv off w (offAt blk blk.length) (runMetaBlock cs ext blk evs none).1 := by
  have hc := topCtx (α := α) hw b
  have g0 : GE (TopInv off w b) blk ext (⟨blk, 0, ext, cs, evs, none⟩ : BP α) :=
    ⟨⟨rfl, rfl, rfl, Nat.zero_le _⟩, hinv⟩
  have hne : blk.isEmpty = false := by
    have := hw.ne
    cases blk <;> simp_all
  have hbl : b ≤ offAt blk blk.length := by
    have := hw.offAt_mono (Nat.zero_le blk.length)
    rw [offAt_zero] at this; omega
  have key : Sat (do
      if blk.isEmpty then panicWith "BlockParser::new: empty tokens"
      match ← metadataEntry (α := α) with
      | some ev =>
        pushEv ev
        let s ← get
        if s.cur ≠ s.toks.length then panicWith "Block tokens not parsed"
      | none => pure ()) ⟨blk, 0, ext, cs, evs, none⟩
      (fun _ s' => TopInv off w (offAt blk blk.length) s'.evs) := by
    simp only [hne, Bool.false_eq_true, if_false]
    refine Sat.bind (Sat.mono (metadataEntry_ev hc g0) ?_)
    rintro r s1 ⟨g1, c1, hr⟩
    cases r with
    | none => exact Sat.pure (g1.evs.mono hbl)
    | some ev =>
      refine Sat.bind (Sat.pushEv ?_)
      refine Sat.bind (Sat.get ?_)
      have : s1.cur = s1.toks.length := by rw [g1.g.toks]; exact c1 rfl
      simp only [this, ne_eq, not_true_eq_false, if_false]
      refine Sat.pure (g1.evs.push hr.1 hbl ?_)
      intro sp hsp
      obtain ⟨h2, h3⟩ := hr.2 sp hsp
      rw [c1 rfl] at h3
      refine ⟨?_, h3⟩
      have : offAt blk 0 ≤ sp.start := h2
      rw [offAt_zero] at this; omega
  exact key

theorem foldl_runMetaBlock_ev (cs : CharSpec) (ext : Ext) (blocks : List (List Tok))
    (evs0 : Array (Ev α)) {b : Nat} (hinv : TopInv off w b evs0) (hbl : BlocksIn off w b blocks) :
    ∃ b', TopInv off w b'
      (blocks.foldl (fun acc blk => runMetaBlock (α := α) cs ext blk acc.1 acc.2) (evs0, none)).1 := by
  induction blocks generalizing evs0 b with
  | nil => exact ⟨b, hinv⟩
  | cons blk bs ih =>
    rw [List.foldl_cons]
    obtain ⟨hw, hb, hrest⟩ := hbl
    have h1 := runMetaBlock_no_panic (α := α) cs ext blk evs0 hw.wf
    have e1 : runMetaBlock (α := α) cs ext blk evs0 none =
        ((runMetaBlock (α := α) cs ext blk evs0 none).1, none) := by
      apply Prod.ext
      · rfl
      · exact h1
    show ∃ b', TopInv off w b' (bs.foldl _ (runMetaBlock (α := α) cs ext blk evs0 none)).1
    rw [e1]
    exact ih _ (runMetaBlock_ev cs ext blk evs0 hw hinv hb) hrest

/-- the metadata-only scanner: all spans fine, entries in source order -/
theorem pullMetaEvents_topInv (cs : CharSpec) (ext : Ext) (input : List Char) :
    ∃ b, TopInv 0 input b (pullMetaEvents (α := α) cs ext input).1 := by
  unfold pullMetaEvents
  cases hp : parseFrontmatter cs input with
  | some fm =>
    simp only
    exact ⟨0, (topInv_empty 0).pushNone (frontMatterOffsetsOK cs input fm hp).2 rfl⟩
  | none =>
    simp only
    apply foldl_runMetaBlock_ev cs ext _ _ (topInv_empty 0)
    apply metaBlocks_blocksIn _ _ _ 0 _ (Nat.le_refl _)
    unfold lex
    exact ⟨⟨lexFrom_chain cs 0 input, lexFrom_escapedOK cs 0 input⟩,
      ⟨[], [], by simp [lexFrom_tile], by simp [utf8Len]⟩⟩

end Cook
