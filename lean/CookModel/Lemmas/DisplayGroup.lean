import CookModel.Num.Display
/-
  `display_comma_separated` / `impl Display for GroupedQuantity` / `for GroupedValue` (src/quantity.rs) — wave
  `w6numeric`.  The printed text is the items, each printed WITHOUT the alternate flag, joined by `", "`.
  Prefix `dgr_`.
-/
namespace Cook

/-- `display_comma_separated` is joining with `", "` -/
theorem dgr_commaSeparated_eq : ∀ items : List (List Char),
    commaSeparated items = ([',', ' '] : List Char).intercalate items
  | [] => rfl
  | [x] => by simp [commaSeparated, List.intercalate, List.intersperse]
  | x :: y :: rest => by
    have ih := dgr_commaSeparated_eq (y :: rest)
    simp only [commaSeparated, ih, List.intercalate, List.intersperse, List.flatten_cons, List.append_assoc,
      List.cons_append, List.nil_append]

/-- the length of the text: the items' lengths and two characters per separator -/
theorem dgr_commaSeparated_length : ∀ items : List (List Char),
    (commaSeparated items).length = (items.map List.length).sum + 2 * (items.length - 1)
  | [] => rfl
  | [x] => by simp [commaSeparated]
  | x :: y :: rest => by
    have ih := dgr_commaSeparated_length (y :: rest)
    simp only [commaSeparated, List.length_append, List.length_cons, ih, List.map_cons, List.sum_cons]
    omega

/-- every item is a contiguous part of the text, in order: the text is `pre ++ item ++ post` with `pre` the
    comma-separated earlier items (followed by `", "` if there are any) -/
theorem dgr_commaSeparated_split (pre : List (List Char)) (x : List Char) (post : List (List Char)) :
    commaSeparated (pre ++ x :: post) =
      (if pre = [] then [] else commaSeparated pre ++ [',', ' ']) ++ x ++
      (if post = [] then [] else ',' :: ' ' :: commaSeparated post) := by
  induction pre with
  | nil =>
    cases post with
    | nil => simp [commaSeparated]
    | cons y rest => simp [commaSeparated]
  | cons p ps ih =>
    cases ps with
    | nil =>
      simp only [List.cons_append, List.nil_append, commaSeparated, reduceCtorEq, if_false] at ih ⊢
      simp only [if_true] at ih
      rw [ih]; simp
    | cons p2 ps2 =>
      simp only [List.cons_append, commaSeparated, reduceCtorEq, if_false] at ih ⊢
      rw [ih]; simp

end Cook
