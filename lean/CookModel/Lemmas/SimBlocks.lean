import CookModel.Syntax.Blocks
import CookModel.Lemmas.LexLaws
/-
  Token streams related token by token (`LRel R`) by a relation `R` that preserves token kinds are
  split into blocks in the same way: the block splitter (`pull_line`, `next_block`) looks at token
  kinds only.  Instance: the streams of an input and of its CRLF conversion (`CrlfTok`).
-/
namespace Cook

/-- two lists of the same length whose corresponding elements are related by `R` -/
inductive LRel {β γ : Type} (R : β → γ → Prop) : List β → List γ → Prop
  | nil : LRel R [] []
  | cons {a : β} {b : γ} {l : List β} {m : List γ} : R a b → LRel R l m → LRel R (a :: l) (b :: m)

section lrel
variable {β γ : Type} {R : β → γ → Prop}

theorem LRel.length_eq {l : List β} {m : List γ} (h : LRel R l m) : l.length = m.length := by
  induction h with
  | nil => rfl
  | cons _ _ ih => simp [ih]

theorem LRel.mono {R' : β → γ → Prop} (hR : ∀ a b, R a b → R' a b) {l : List β} {m : List γ}
    (h : LRel R l m) : LRel R' l m := by
  induction h with
  | nil => exact .nil
  | cons h1 _ ih => exact .cons (hR _ _ h1) ih

theorem LRel.append {l1 l2 : List β} {m1 m2 : List γ} (h1 : LRel R l1 m1) (h2 : LRel R l2 m2) :
    LRel R (l1 ++ l2) (m1 ++ m2) := by
  induction h1 with
  | nil => simpa using h2
  | cons h _ ih => exact .cons h ih

theorem LRel.reverse {l : List β} {m : List γ} (h : LRel R l m) : LRel R l.reverse m.reverse := by
  induction h with
  | nil => exact .nil
  | cons h _ ih =>
    simp only [List.reverse_cons]
    exact ih.append (.cons h .nil)

theorem LRel.take {l : List β} {m : List γ} (h : LRel R l m) (n : Nat) : LRel R (l.take n) (m.take n) := by
  induction h generalizing n with
  | nil => simp; exact .nil
  | cons h _ ih =>
    cases n with
    | zero => exact .nil
    | succ n => exact .cons h (ih n)

theorem LRel.drop {l : List β} {m : List γ} (h : LRel R l m) (n : Nat) : LRel R (l.drop n) (m.drop n) := by
  induction h generalizing n with
  | nil => simp; exact .nil
  | cons h hl ih =>
    cases n with
    | zero => exact .cons h hl
    | succ n => exact ih n

theorem LRel.getElem? {l : List β} {m : List γ} (h : LRel R l m) (n : Nat) :
    (l[n]? = none ∧ m[n]? = none) ∨ ∃ a b, l[n]? = some a ∧ m[n]? = some b ∧ R a b := by
  induction h generalizing n with
  | nil => left; simp
  | cons h _ ih =>
    cases n with
    | zero => right; exact ⟨_, _, by simp, by simp, h⟩
    | succ n => simpa using ih n

theorem LRel.mem_right {l : List β} {m : List γ} (h : LRel R l m) {b : γ} (hb : b ∈ m) : ∃ a ∈ l, R a b := by
  induction h with
  | nil => cases hb
  | cons h1 _ ih =>
    simp only [List.mem_cons] at hb
    rcases hb with rfl | hb
    · exact ⟨_, by simp, h1⟩
    · obtain ⟨a, ha, hr⟩ := ih hb
      exact ⟨a, by simp [ha], hr⟩

theorem LRel.mem_left {l : List β} {m : List γ} (h : LRel R l m) {a : β} (ha : a ∈ l) : ∃ b ∈ m, R a b := by
  induction h with
  | nil => cases ha
  | cons h1 _ ih =>
    simp only [List.mem_cons] at ha
    rcases ha with rfl | ha
    · exact ⟨_, by simp, h1⟩
    · obtain ⟨b, hb, hr⟩ := ih ha
      exact ⟨b, by simp [hb], hr⟩

theorem LRel.head? {l : List β} {m : List γ} (h : LRel R l m) :
    (l.head? = none ∧ m.head? = none) ∨ ∃ a b, l.head? = some a ∧ m.head? = some b ∧ R a b := by
  cases h with
  | nil => left; simp
  | cons h _ => right; exact ⟨_, _, rfl, rfl, h⟩

theorem LRel.getLast? {l : List β} {m : List γ} (h : LRel R l m) :
    (l.getLast? = none ∧ m.getLast? = none) ∨ ∃ a b, l.getLast? = some a ∧ m.getLast? = some b ∧ R a b := by
  have := h.reverse.head?
  simpa [List.head?_reverse] using this

theorem LRel.isEmpty {l : List β} {m : List γ} (h : LRel R l m) : l.isEmpty = m.isEmpty := by
  cases h <;> rfl

theorem LRel.map_eq {δ : Type} (f : β → δ) (g : γ → δ) (hR : ∀ a b, R a b → f a = g b) {l : List β} {m : List γ}
    (h : LRel R l m) : l.map f = m.map g := by
  induction h with
  | nil => rfl
  | cons h1 _ ih => simp [hR _ _ h1, ih]

theorem LRel.of_map_eq {δ : Type} (f : β → δ) (g : γ → δ) {l : List β} {m : List γ}
    (h : l.map f = m.map g) : LRel (fun a b => f a = g b) l m := by
  induction l generalizing m with
  | nil => cases m with
    | nil => exact .nil
    | cons _ _ => simp at h
  | cons a l ih => cases m with
    | nil => simp at h
    | cons b m =>
      simp only [List.map_cons, List.cons.injEq] at h
      exact .cons h.1 (ih h.2)

/-- predicates that agree on related elements -/
def PredAgree (R : β → γ → Prop) (p : β → Bool) (q : γ → Bool) : Prop := ∀ a b, R a b → p a = q b

theorem LRel.takeWhile {p : β → Bool} {q : γ → Bool} (hp : PredAgree R p q) {l : List β} {m : List γ}
    (h : LRel R l m) : LRel R (l.takeWhile p) (m.takeWhile q) := by
  induction h with
  | nil => exact .nil
  | cons h1 _ ih =>
    simp only [List.takeWhile_cons, hp _ _ h1]
    split
    · exact .cons h1 ih
    · exact .nil

theorem LRel.dropWhile {p : β → Bool} {q : γ → Bool} (hp : PredAgree R p q) {l : List β} {m : List γ}
    (h : LRel R l m) : LRel R (l.dropWhile p) (m.dropWhile q) := by
  induction h with
  | nil => exact .nil
  | cons h1 hl ih =>
    simp only [List.dropWhile_cons, hp _ _ h1]
    split
    · exact ih
    · exact .cons h1 hl

theorem LRel.all {p : β → Bool} {q : γ → Bool} (hp : PredAgree R p q) {l : List β} {m : List γ}
    (h : LRel R l m) : l.all p = m.all q := by
  induction h with
  | nil => rfl
  | cons h1 _ ih => simp [hp _ _ h1, ih]

theorem LRel.any {p : β → Bool} {q : γ → Bool} (hp : PredAgree R p q) {l : List β} {m : List γ}
    (h : LRel R l m) : l.any p = m.any q := by
  induction h with
  | nil => rfl
  | cons h1 _ ih => simp [hp _ _ h1, ih]

theorem LRel.findIdx? {p : β → Bool} {q : γ → Bool} (hp : PredAgree R p q) {l : List β} {m : List γ}
    (h : LRel R l m) : l.findIdx? p = m.findIdx? q := by
  induction h with
  | nil => rfl
  | cons h1 _ ih => simp [List.findIdx?_cons, hp _ _ h1, ih]

theorem LRel.filter {p : β → Bool} {q : γ → Bool} (hp : PredAgree R p q) {l : List β} {m : List γ}
    (h : LRel R l m) : LRel R (l.filter p) (m.filter q) := by
  induction h with
  | nil => exact .nil
  | cons h1 _ ih =>
    simp only [List.filter_cons, hp _ _ h1]
    split
    · exact .cons h1 ih
    · exact ih

end lrel

/-! ### The block splitter on related streams -/

/-- `R` relates tokens of the same kind only -/
def KindPres (R : Tok → Tok → Prop) : Prop := ∀ a b, R a b → a.kind = b.kind

section splitter
variable {R : Tok → Tok → Prop}

theorem KindPres.agree (hR : KindPres R) (p : TK → Bool) :
    PredAgree R (fun t => p t.kind) (fun t => p t.kind) := by
  intro a b h; simp only [hR a b h]

theorem sim_marker (hR : KindPres R) {l m : List Tok} (h : LRel R l m) :
    isSingleLineMarker l.head? = isSingleLineMarker m.head? := by
  rcases h.head? with ⟨h1, h2⟩ | ⟨a, b, h1, h2, hr⟩
  · rw [h1, h2]
  · rw [h1, h2]; simp only [isSingleLineMarker, hR a b hr]

/-- the result of `pull_line` on related streams: both fail, or related lines (same flags) and rests -/
def LineSim (R : Tok → Tok → Prop) : Option (LineInfo × List Tok) → Option (LineInfo × List Tok) → Prop
  | none, none => True
  | some (li', r'), some (li, r) =>
      LRel R li'.toks li.toks ∧ li'.isEmpty = li.isEmpty ∧ li'.isSingleLine = li.isSingleLine ∧ LRel R r' r
  | _, _ => False

theorem sim_pullLine (hR : KindPres R) {l m : List Tok} (h : LRel R l m) : LineSim R (pullLine l) (pullLine m) := by
  cases h with
  | nil => simp [pullLine, LineSim]
  | cons h1 hl =>
    rename_i a b l m
    have hfull : LRel R (a :: l) (b :: m) := .cons h1 hl
    have hb := hfull.takeWhile (hR.agree (fun k => k != .newline))
    have hd := hfull.dropWhile (hR.agree (fun k => k != .newline))
    unfold pullLine
    simp only
    generalize hx' : List.dropWhile (fun t => t.kind != TK.newline) (a :: l) = x' at hd
    generalize hx : List.dropWhile (fun t => t.kind != TK.newline) (b :: m) = x at hd
    cases hd with
    | nil =>
      simp only [LineSim]
      refine ⟨hb, hb.all (hR.agree isEmptyTok), ?_, .nil⟩
      simp only [isSingleLineMarker, hR a b h1]
    | cons hn hr =>
      simp only [LineSim]
      have hline := hb.append (.cons hn .nil)
      refine ⟨hline, hline.all (hR.agree isEmptyTok), ?_, hr⟩
      simp only [isSingleLineMarker, hR a b h1]

theorem sim_skipEmptyLines (hR : KindPres R) (fuel : Nat) {l m : List Tok} (h : LRel R l m) :
    LineSim R (skipEmptyLines fuel l) (skipEmptyLines fuel m) := by
  induction fuel generalizing l m with
  | zero => simp [skipEmptyLines, LineSim]
  | succ fuel ih =>
    have hp := sim_pullLine hR h
    unfold skipEmptyLines
    cases h1 : pullLine l with
    | none =>
      cases h2 : pullLine m with
      | none => simp [LineSim]
      | some x => rw [h1, h2] at hp; cases x; simp [LineSim] at hp
    | some x' =>
      cases h2 : pullLine m with
      | none => rw [h1, h2] at hp; cases x'; simp [LineSim] at hp
      | some x =>
        rw [h1, h2] at hp
        obtain ⟨li', r'⟩ := x'
        obtain ⟨li, r⟩ := x
        obtain ⟨ht, he, hs, hr⟩ := hp
        simp only [he]
        split
        · exact ih hr
        · exact ⟨ht, he, hs, hr⟩

theorem sim_moreLines (hR : KindPres R) (fuel : Nat) {l m : List Tok} (h : LRel R l m) :
    LRel R (moreLines fuel l).1 (moreLines fuel m).1 ∧ LRel R (moreLines fuel l).2 (moreLines fuel m).2 := by
  induction fuel generalizing l m with
  | zero => exact ⟨.nil, h⟩
  | succ fuel ih =>
    have hp := sim_pullLine hR h
    unfold moreLines
    rw [sim_marker hR h]
    split
    · exact ⟨.nil, h⟩
    · cases h1 : pullLine l with
      | none =>
        cases h2 : pullLine m with
        | none => exact ⟨.nil, h⟩
        | some x => rw [h1, h2] at hp; cases x; simp [LineSim] at hp
      | some x' =>
        cases h2 : pullLine m with
        | none => rw [h1, h2] at hp; cases x'; simp [LineSim] at hp
        | some x =>
          rw [h1, h2] at hp
          obtain ⟨li', r'⟩ := x'
          obtain ⟨li, r⟩ := x
          obtain ⟨ht, he, hs, hr⟩ := hp
          simp only [he]
          split
          · exact ⟨.nil, hr⟩
          · exact ⟨ht.append (ih hr).1, (ih hr).2⟩

theorem sim_trimTrailingNewlines (hR : KindPres R) {l m : List Tok} (h : LRel R l m) :
    LRel R (trimTrailingNewlines l) (trimTrailingNewlines m) :=
  (h.reverse.dropWhile (hR.agree (fun k => k == .newline))).reverse

/-- the result of `next_block` on related streams -/
def BlockSim (R : Tok → Tok → Prop) : Option (List Tok × List Tok) → Option (List Tok × List Tok) → Prop
  | none, none => True
  | some (b', r'), some (b, r) => LRel R b' b ∧ LRel R r' r
  | _, _ => False

theorem sim_nextBlock (hR : KindPres R) {l m : List Tok} (h : LRel R l m) :
    BlockSim R (nextBlock l) (nextBlock m) := by
  have hs := sim_skipEmptyLines hR (l.length + 1) h
  unfold nextBlock
  rw [← h.length_eq]
  cases h1 : skipEmptyLines (l.length + 1) l with
  | none =>
    cases h2 : skipEmptyLines (l.length + 1) m with
    | none => simp [BlockSim]
    | some x => rw [h1, h2] at hs; cases x; simp [LineSim] at hs
  | some x' =>
    cases h2 : skipEmptyLines (l.length + 1) m with
    | none => rw [h1, h2] at hs; cases x'; simp [LineSim] at hs
    | some x =>
      rw [h1, h2] at hs
      obtain ⟨li', r'⟩ := x'
      obtain ⟨li, r⟩ := x
      obtain ⟨ht, he, hsl, hr⟩ := hs
      simp only [hsl]
      have hm : LRel R (if li.isSingleLine = true then (([] : List Tok), r') else moreLines (r'.length + 1) r').1
            (if li.isSingleLine = true then (([] : List Tok), r) else moreLines (r.length + 1) r).1 ∧
          LRel R (if li.isSingleLine = true then (([] : List Tok), r') else moreLines (r'.length + 1) r').2
            (if li.isSingleLine = true then (([] : List Tok), r) else moreLines (r.length + 1) r).2 := by
        split
        · exact ⟨.nil, hr⟩
        · rw [hr.length_eq]; exact sim_moreLines hR _ hr
      generalize (if li.isSingleLine = true then (([] : List Tok), r') else moreLines (r'.length + 1) r') = m' at hm
      generalize (if li.isSingleLine = true then (([] : List Tok), r) else moreLines (r.length + 1) r) = mm at hm
      have hblk := sim_trimTrailingNewlines hR (ht.append hm.1)
      rw [hblk.isEmpty]
      by_cases hemp : (trimTrailingNewlines (li.toks ++ mm.1)).isEmpty = true
      · simp [hemp, BlockSim]
      · simp only [hemp, Bool.false_eq_true, if_false, BlockSim]
        exact ⟨hblk, hm.2⟩

/-- **the block splitter on related streams**: the same number of blocks, corresponding blocks
    related token by token -/
theorem sim_allBlocks (hR : KindPres R) (fuel : Nat) {l m : List Tok} (h : LRel R l m) :
    LRel (LRel R) (allBlocks fuel l) (allBlocks fuel m) := by
  induction fuel generalizing l m with
  | zero => exact .nil
  | succ fuel ih =>
    have hn := sim_nextBlock hR h
    unfold allBlocks
    cases h1 : nextBlock l with
    | none =>
      cases h2 : nextBlock m with
      | none => exact .nil
      | some x => rw [h1, h2] at hn; cases x; simp [BlockSim] at hn
    | some x' =>
      cases h2 : nextBlock m with
      | none => rw [h1, h2] at hn; cases x'; simp [BlockSim] at hn
      | some x =>
        rw [h1, h2] at hn
        obtain ⟨b', r'⟩ := x'
        obtain ⟨b, r⟩ := x
        exact .cons hn.1 (ih hn.2)

end splitter

/-! ### CRLF conversion -/

theorem crlfToks_iff_lrel (l m : List Tok) : CrlfToks l m ↔ LRel CrlfTok l m := by
  induction l generalizing m with
  | nil => cases m with
    | nil => simp [CrlfToks]; exact .nil
    | cons _ _ => simp only [CrlfToks, false_iff]; intro h; cases h
  | cons a l ih => cases m with
    | nil => simp only [CrlfToks, false_iff]; intro h; cases h
    | cons b m =>
      simp only [CrlfToks, ih]
      constructor
      · rintro ⟨h1, h2⟩; exact .cons h1 h2
      · intro h; cases h with
        | cons h1 h2 => exact ⟨h1, h2⟩

theorem crlfTok_kindPres : KindPres CrlfTok := fun _ _ h => h.1

/-- what CRLF conversion preserves of a token (`tokAbs`), as a relation -/
theorem crlfTok_tokAbs {t' t : Tok} (h : CrlfTok t' t) : tokAbs t' = tokAbs t := by
  obtain ⟨hk, _, _, _, hv⟩ := h
  unfold tokAbs
  rw [hk]
  cases hvol : crlfVolatile t.kind
  · simp [hv hvol]
  · simp

/-- the blocks of an input and of its CRLF conversion correspond one to one, token by token -/
theorem crlf_blocks (cs : CharSpec) (hcs : CrlfSpec cs) (s : List Char) (hs : CrlfSafe s) (off off' : Nat) :
    LRel (LRel CrlfTok)
      (allBlocks ((lexFrom cs off' (crlf s)).length + 1) (lexFrom cs off' (crlf s)))
      (allBlocks ((lexFrom cs off s).length + 1) (lexFrom cs off s)) := by
  have h := (crlfToks_iff_lrel _ _).1 (lexFrom_crlf_toks cs hcs s hs off off')
  rw [h.length_eq]
  exact sim_allBlocks crlfTok_kindPres _ h

end Cook
