import CookModel.Lemmas.DiagEventExact2
/-
  C07, analysis stage, EVENT level: per-kind localisation (`c07k_` prefix).  Each catalogued kind of an ingredient /
  cookware event is raised by exactly ONE part of the event (the kind lists of the parts are pairwise disjoint), so
  "the event raises kind `k`" is equivalent to "the part owning `k` runs and raises `k`"; the parts have their own
  exact iffs (`C07_resolve_reference_exact`, `C07_reference_checks_exact`, `C07_intermediate_ref_exact`, …).
-/
set_option linter.unusedSectionVars false
set_option linter.unusedSimpArgs false
set_option linter.unusedVariables false
namespace Cook

variable {α : Type} [Arith α]

/-- the kinds of `resolve_reference` -/
def c07k_refKinds : List String := ["ref-conflicting-modifiers", "redundant-new", "redundant-ref", "reference-not-found"]
/-- the kinds of the reference checks against the resolved entry -/
def c07k_checkKinds : List String :=
  ["incompatible-units", "note-in-reference", "conflicting-ref-quantity", "text-value-in-ref"]
/-- the kinds of the intermediate-reference resolution -/
def c07k_interKinds : List String := ["inter-ref-self", "inter-ref-zero", "inter-ref-bounds"]

/-- **ingredient event, kind by kind**: each kind is raised iff the one part that owns it runs and raises it -/
theorem c07k_ingredientEvent_kind (env : Env) (input : Str) (li : Loc (PIngredient α))
    (ings : Array (Ingredient (ScalableValue α))) (locs : Array (Loc (PIngredient α)))
    (dm : DefineMode) (dup : DuplicateMode) (content : List Content) (n : Nat) (k : String) :
    (k = "unnecessary-scaling-lock" →
      ((∃ d ∈ c07v_ingredientEventDiags env input li ings locs dm dup content n, d.kind = k) ↔
        ∃ d ∈ c07v_ingrLockDiags li.val.quantity, d.kind = k)) ∧
    (k = "inter-ref-conflicting-modifiers" →
      ((∃ d ∈ c07v_ingredientEventDiags env input li ings locs dm dup content n, d.kind = k) ↔
        ∃ dd, li.val.inter = some dd ∧ ∃ d ∈ c07v_interCheckDiags li.val li.val.modifiers.val, d.kind = k)) ∧
    (k ∈ c07k_interKinds →
      ((∃ d ∈ c07v_ingredientEventDiags env input li ings locs dm dup content n, d.kind = k) ↔
        ∃ dd, li.val.inter = some dd ∧ ∃ d ∈ interRefDiags content n dd, d.kind = k)) ∧
    (k ∈ c07k_refKinds →
      ((∃ d ∈ c07v_ingredientEventDiags env input li ings locs dm dup content n, d.kind = k) ↔
        (li.val.inter = none ∧
          ∃ d ∈ refDiags env c07v_ingrInherit (ings.toList.map (fun x => (x.name, x.modifiers)))
            (c07v_igr0 env li dm).name li.val.modifiers.val li.span li.val.modifiers.span dm dup, d.kind = k))) ∧
    (k ∈ c07k_checkKinds →
      ((∃ d ∈ c07v_ingredientEventDiags env input li ings locs dm dup content n, d.kind = k) ↔
        (li.val.inter = none ∧
          ∃ d ∈ c07v_ingrRefCheckDiags env input li (c07v_igr0 env li dm) ings locs
            (c07v_refResult env c07v_ingrInherit (ings.toList.map (fun x => (x.name, x.modifiers)))
              (c07v_igr0 env li dm).name li.val.modifiers.val dm dup), d.kind = k))) := by
  have hs := c07v_ingredientEvent_split env input li ings locs dm dup content n (fun d => d.kind = k)
  refine ⟨?_, ?_, ?_, ?_, ?_⟩
  · intro hk
    have n2 : k ∉ ["inter-ref-conflicting-modifiers"] := by subst hk; decide
    have n3 : k ∉ ["inter-ref-self", "inter-ref-zero", "inter-ref-bounds"] := by subst hk; decide
    have n4 : k ∉ ["ref-conflicting-modifiers", "redundant-new", "redundant-ref", "reference-not-found"] := by
      subst hk; decide
    have n5 : k ∉ ["incompatible-units", "note-in-reference", "conflicting-ref-quantity", "text-value-in-ref"] := by
      subst hk; decide
    rw [hs]
    simp only [c07v_interCheck_no k n2, c07v_interRef_no k n3, c07v_refDiags_no k n4,
      c07v_ingrRefCheck_no k n5, or_false, and_false, exists_false]
  · intro hk
    have n1 : k ∉ ["unnecessary-scaling-lock"] := by subst hk; decide
    have n3 : k ∉ ["inter-ref-self", "inter-ref-zero", "inter-ref-bounds"] := by subst hk; decide
    have n4 : k ∉ ["ref-conflicting-modifiers", "redundant-new", "redundant-ref", "reference-not-found"] := by
      subst hk; decide
    have n5 : k ∉ ["incompatible-units", "note-in-reference", "conflicting-ref-quantity", "text-value-in-ref"] := by
      subst hk; decide
    rw [hs]
    simp only [c07v_ingrLock_no k n1, c07v_interRef_no k n3, c07v_refDiags_no k n4,
      c07v_ingrRefCheck_no k n5, or_false, false_or, and_false]
  · intro hk
    simp only [c07k_interKinds, List.mem_cons, List.not_mem_nil, or_false] at hk
    have n1 : k ∉ ["unnecessary-scaling-lock"] := by rcases hk with rfl | rfl | rfl <;> decide
    have n2 : k ∉ ["inter-ref-conflicting-modifiers"] := by rcases hk with rfl | rfl | rfl <;> decide
    have n4 : k ∉ ["ref-conflicting-modifiers", "redundant-new", "redundant-ref", "reference-not-found"] := by
      rcases hk with rfl | rfl | rfl <;> decide
    have n5 : k ∉ ["incompatible-units", "note-in-reference", "conflicting-ref-quantity", "text-value-in-ref"] := by
      rcases hk with rfl | rfl | rfl <;> decide
    rw [hs]
    simp only [c07v_ingrLock_no k n1, c07v_interCheck_no k n2, c07v_refDiags_no k n4,
      c07v_ingrRefCheck_no k n5, or_false, false_or, and_false]
  · intro hk
    simp only [c07k_refKinds, List.mem_cons, List.not_mem_nil, or_false] at hk
    have n1 : k ∉ ["unnecessary-scaling-lock"] := by rcases hk with rfl | rfl | rfl | rfl <;> decide
    have n2 : k ∉ ["inter-ref-conflicting-modifiers"] := by rcases hk with rfl | rfl | rfl | rfl <;> decide
    have n3 : k ∉ ["inter-ref-self", "inter-ref-zero", "inter-ref-bounds"] := by
      rcases hk with rfl | rfl | rfl | rfl <;> decide
    have n5 : k ∉ ["incompatible-units", "note-in-reference", "conflicting-ref-quantity", "text-value-in-ref"] := by
      rcases hk with rfl | rfl | rfl | rfl <;> decide
    rw [hs]
    simp only [c07v_ingrLock_no k n1, c07v_interCheck_no k n2, c07v_interRef_no k n3,
      c07v_ingrRefCheck_no k n5, or_false, false_or, and_false, exists_false]
  · intro hk
    simp only [c07k_checkKinds, List.mem_cons, List.not_mem_nil, or_false] at hk
    have n1 : k ∉ ["unnecessary-scaling-lock"] := by rcases hk with rfl | rfl | rfl | rfl <;> decide
    have n2 : k ∉ ["inter-ref-conflicting-modifiers"] := by rcases hk with rfl | rfl | rfl | rfl <;> decide
    have n3 : k ∉ ["inter-ref-self", "inter-ref-zero", "inter-ref-bounds"] := by
      rcases hk with rfl | rfl | rfl | rfl <;> decide
    have n4 : k ∉ ["ref-conflicting-modifiers", "redundant-new", "redundant-ref", "reference-not-found"] := by
      rcases hk with rfl | rfl | rfl | rfl <;> decide
    rw [hs]
    simp only [c07v_ingrLock_no k n1, c07v_interCheck_no k n2, c07v_interRef_no k n3,
      c07v_refDiags_no k n4, or_false, false_or, and_false, exists_false]

/-- **cookware event, kind by kind** -/
theorem c07k_cookwareEvent_kind (env : Env) (input : Str) (lc : Loc (PCookware α))
    (cws : Array (Cookware (ScalableValue α))) (locs : Array (Loc (PCookware α)))
    (dm : DefineMode) (dup : DuplicateMode) (k : String) :
    (k = "unnecessary-scaling-lock" →
      ((∃ d ∈ c07v_cookwareEventDiags env input lc cws locs dm dup, d.kind = k) ↔
        ∃ d ∈ c07v_cwLockDiags lc.val.quantity, d.kind = k)) ∧
    (k ∈ c07k_refKinds →
      ((∃ d ∈ c07v_cookwareEventDiags env input lc cws locs dm dup, d.kind = k) ↔
        ∃ d ∈ refDiags env c07v_cwInherit (cws.toList.map (fun x => (x.name, x.modifiers)))
          (lc.val.name.trimmed env.cs) lc.val.modifiers.val lc.span lc.val.modifiers.span dm dup, d.kind = k)) ∧
    (k ∈ c07k_checkKinds →
      ((∃ d ∈ c07v_cookwareEventDiags env input lc cws locs dm dup, d.kind = k) ↔
        ∃ d ∈ c07v_cwRefCheckDiags input lc (c07v_cw0 env lc dm) cws locs
          (c07v_refResult env c07v_cwInherit (cws.toList.map (fun x => (x.name, x.modifiers)))
            (lc.val.name.trimmed env.cs) lc.val.modifiers.val dm dup), d.kind = k)) := by
  have hs := c07v_cookwareEvent_split env input lc cws locs dm dup (fun d => d.kind = k)
  refine ⟨?_, ?_, ?_⟩
  · intro hk
    have n4 : k ∉ ["ref-conflicting-modifiers", "redundant-new", "redundant-ref", "reference-not-found"] := by
      subst hk; decide
    have n5 : k ∉ ["incompatible-units", "note-in-reference", "conflicting-ref-quantity", "text-value-in-ref"] := by
      subst hk; decide
    rw [hs]
    simp only [c07v_refDiags_no k n4, c07v_cwRefCheck_no k n5, or_false]
  · intro hk
    simp only [c07k_refKinds, List.mem_cons, List.not_mem_nil, or_false] at hk
    have n1 : k ∉ ["unnecessary-scaling-lock"] := by rcases hk with rfl | rfl | rfl | rfl <;> decide
    have n5 : k ∉ ["incompatible-units", "note-in-reference", "conflicting-ref-quantity", "text-value-in-ref"] := by
      rcases hk with rfl | rfl | rfl | rfl <;> decide
    rw [hs]
    simp only [c07v_cwLock_no k n1, c07v_cwRefCheck_no k n5, or_false, false_or]
  · intro hk
    simp only [c07k_checkKinds, List.mem_cons, List.not_mem_nil, or_false] at hk
    have n1 : k ∉ ["unnecessary-scaling-lock"] := by rcases hk with rfl | rfl | rfl | rfl <;> decide
    have n4 : k ∉ ["ref-conflicting-modifiers", "redundant-new", "redundant-ref", "reference-not-found"] := by
      rcases hk with rfl | rfl | rfl | rfl <;> decide
    rw [hs]
    simp only [c07v_cwLock_no k n1, c07v_refDiags_no k n4, or_false, false_or]

/-- `inter-ref-conflicting-modifiers`, exactly: the intermediate data is there and one of `@`, `-`, `+` is set -/
theorem c07k_interCheck_iff (i : PIngredient α) (m : Modifiers) :
    (∃ d ∈ c07v_interCheckDiags i m, d.kind = "inter-ref-conflicting-modifiers") ↔
      (m.bits &&& (Modifiers.RECIPE ||| Modifiers.HIDDEN ||| Modifiers.NEW)) ≠ 0 := by
  unfold c07v_interCheckDiags
  split
  · rename_i h; simpa [adiag] using h
  · rename_i h; simpa using h

/-- the intermediate-reference error of kind `k`, exactly: the target computation fails with `k` -/
theorem c07k_interRef_iff (content : List Content) (n : Nat) (d : Loc InterData) (k : String) :
    (∃ x ∈ interRefDiags content n d, x.kind = k) ↔ interRefTarget content n d.val = .error k := by
  unfold interRefDiags
  cases h : interRefTarget content n d.val with
  | ok r => simp
  | error k' => simp [adiag]

end Cook
