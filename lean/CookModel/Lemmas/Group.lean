import CookModel.Num.Group
import CookModel.Lemmas.Convert
/-
  Conservation lemmas for the grouping model (Num/Group.lean) at `α := Rat`.

  Everything is stated for an arbitrary *weight* `w : SQuantity Rat → Rat`.  A weight that is
  additive over `try_add` (`Additive`), invariant under `fit` (`FitInvariant`) and additive over
  the converter-free `join` of `absorb` (`JoinAdditive`) is conserved by `add`, `merge`, `fit`,
  `absorb`.  The class totals (lower / upper end of a physical quantity, an unknown unit, the
  unit-less class) and the multiplicity of a text value are such weights (second half of the file).
-/
namespace Cook
open Arith

/-! ### sums -/

def sumBy {β : Type} (w : β → Rat) : List β → Rat
  | [] => 0
  | x :: xs => w x + sumBy w xs

def optW {β : Type} (w : β → Rat) : Option β → Rat
  | none => 0
  | some x => w x

@[simp] theorem sumBy_nil {β : Type} (w : β → Rat) : sumBy w [] = 0 := rfl
@[simp] theorem sumBy_cons {β : Type} (w : β → Rat) (x : β) (xs : List β) :
    sumBy w (x :: xs) = w x + sumBy w xs := rfl
@[simp] theorem optW_none {β : Type} (w : β → Rat) : optW w none = 0 := rfl
@[simp] theorem optW_some {β : Type} (w : β → Rat) (x : β) : optW w (some x) = w x := rfl

theorem sumBy_append {β : Type} (w : β → Rat) (l1 l2 : List β) :
    sumBy w (l1 ++ l2) = sumBy w l1 + sumBy w l2 := by
  induction l1 with
  | nil => simp only [List.nil_append, sumBy_nil]; grind
  | cons x xs ih => simp only [List.cons_append, sumBy_cons, ih]; grind

theorem sumBy_perm {β : Type} (w : β → Rat) {l1 l2 : List β} (h : l1.Perm l2) :
    sumBy w l1 = sumBy w l2 := by
  induction h with
  | nil => rfl
  | cons x _ ih => simp [ih]
  | swap x y l => simp only [sumBy_cons]; grind
  | trans _ _ ih1 ih2 => exact ih1.trans ih2

theorem sumBy_map {β γ : Type} (w : γ → Rat) (f : β → γ) (l : List β) :
    sumBy w (l.map f) = sumBy (fun x => w (f x)) l := by
  induction l with
  | nil => rfl
  | cons x xs ih => simp [ih]

theorem sumBy_filterMap {β γ : Type} (w : γ → Rat) (f : β → Option γ) (l : List β) :
    sumBy w (l.filterMap f) = sumBy (fun x => optW w (f x)) l := by
  induction l with
  | nil => rfl
  | cons x xs ih =>
    simp only [List.filterMap_cons, sumBy_cons]
    cases hx : f x with
    | none => simp only [optW_none, ih]; grind
    | some y => simp [ih]

theorem sumBy_toList {β : Type} (w : β → Rat) (o : Option β) : sumBy w o.toList = optW w o := by
  cases o <;> simp <;> grind

theorem sumBy_flatMap {β γ : Type} (w : γ → Rat) (f : β → List γ) (l : List β) :
    sumBy w (l.flatMap f) = sumBy (fun x => sumBy w (f x)) l := by
  induction l with
  | nil => rfl
  | cons x xs ih => simp [List.flatMap_cons, sumBy_append, ih]

theorem sumBy_congr {β : Type} {w1 w2 : β → Rat} (l : List β) (h : ∀ x ∈ l, w1 x = w2 x) :
    sumBy w1 l = sumBy w2 l := by
  induction l with
  | nil => rfl
  | cons x xs ih =>
    simp only [sumBy_cons]
    rw [h x (List.mem_cons_self), ih (fun y hy => h y (List.mem_cons_of_mem _ hy))]

theorem sumBy_filter {β : Type} (w : β → Rat) (p : β → Bool) (l : List β) :
    sumBy w (l.filter p) = sumBy (fun x => if p x then w x else 0) l := by
  induction l with
  | nil => rfl
  | cons x xs ih =>
    simp only [List.filter_cons, sumBy_cons]
    cases hp : p x <;> simp [ih] <;> grind

theorem sumBy_add {β : Type} (w1 w2 : β → Rat) (l : List β) :
    sumBy (fun x => w1 x + w2 x) l = sumBy w1 l + sumBy w2 l := by
  induction l with
  | nil => simp only [sumBy_nil]; grind
  | cons x xs ih => simp only [sumBy_cons, ih]; grind

theorem sumBy_zero {β : Type} (l : List β) : sumBy (fun _ => (0 : Rat)) l = 0 := by
  induction l with
  | nil => rfl
  | cons x xs ih => simp only [sumBy_cons, ih]; grind

/-! ### the weight of a group -/

namespace GroupedQuantity

/-- the weight of everything a group holds -/
def gsum (w : SQuantity Rat → Rat) (g : GroupedQuantity Rat) : Rat :=
  sumBy (fun pq => optW w (g.known pq)) PhysQ.all + sumBy (fun e => w e.2) g.unknown
    + sumBy w g.other + optW w g.noUnit

theorem gsum_empty (w : SQuantity Rat → Rat) : gsum w (empty : GroupedQuantity Rat) = 0 := by
  simp [gsum, empty, PhysQ.all]; grind

theorem gsum_setKnown (w : SQuantity Rat → Rat) (g : GroupedQuantity Rat) (pq : PhysQ)
    (q : SQuantity Rat) : gsum w (g.setKnown pq q) = gsum w g - optW w (g.known pq) + w q := by
  cases pq <;> simp [gsum, setKnown, PhysQ.all] <;> grind

theorem gsum_pushOther (w : SQuantity Rat → Rat) (g : GroupedQuantity Rat) (q : SQuantity Rat) :
    gsum w (g.pushOther q) = gsum w g + w q := by
  simp only [gsum, pushOther, sumBy_append, sumBy_cons, sumBy_nil]
  grind

theorem sumBy_replaceUnknown (w : SQuantity Rat → Rat) (l : List (Str × SQuantity Rat)) (k : Str)
    (s n : SQuantity Rat) (h : l.lookup k = some s) :
    sumBy (fun e => w e.2) (replaceUnknown l k n) = sumBy (fun e => w e.2) l - w s + w n := by
  induction l with
  | nil => simp [List.lookup] at h
  | cons e rest ih =>
    obtain ⟨ek, ev⟩ := e
    simp only [List.lookup] at h
    unfold replaceUnknown
    cases hk : k == ek with
    | true =>
      simp only [hk] at h
      simp only [Option.some.injEq] at h
      subst h
      simp only [if_true, sumBy_cons]
      grind
    | false =>
      simp only [hk] at h
      simp only [Bool.false_eq_true, if_false, sumBy_cons, ih h]
      grind

theorem gsum_setUnknown (w : SQuantity Rat → Rat) (g : GroupedQuantity Rat)
    (l : List (Str × SQuantity Rat)) :
    gsum w { g with unknown := l } = gsum w g - sumBy (fun e => w e.2) g.unknown + sumBy (fun e => w e.2) l := by
  simp only [gsum]; grind

theorem gsum_setNoUnit (w : SQuantity Rat → Rat) (g : GroupedQuantity Rat) (o : Option (SQuantity Rat)) :
    gsum w { g with noUnit := o } = gsum w g - optW w g.noUnit + optW w o := by
  simp only [gsum]; grind

theorem gsum_setOther (w : SQuantity Rat → Rat) (g : GroupedQuantity Rat) (l : List (SQuantity Rat)) :
    gsum w { g with other := l } = gsum w g - sumBy w g.other + sumBy w l := by
  simp only [gsum]; grind

/-- the group's weight is the weight of what `iter` yields, whatever the hash map's order -/
theorem gsum_iter (w : SQuantity Rat → Rat) (ord : MapOrder Rat) (hord : ord.IsPerm)
    (g : GroupedQuantity Rat) : sumBy w (g.iter ord) = gsum w g := by
  simp only [iter, knownList, sumBy_append, sumBy_filterMap, sumBy_map, sumBy_toList, gsum]
  rw [sumBy_perm (fun e => w e.2) (hord g.unknown)]

end GroupedQuantity

/-! ### `add`, `merge`, `fit`, `absorb` conserve additive weights -/

/-- `w` is additive over a successful `try_add` -/
def Additive (c : Converter Rat) (w : SQuantity Rat → Rat) : Prop :=
  ∀ l q n, qTryAdd c l q = .ok n → w n = w l + w q

/-- `w` does not change under `ScaledQuantity::fit` (whatever its result) -/
def FitInvariant (c : Converter Rat) (w : SQuantity Rat → Rat) : Prop :=
  ∀ q, w (fit c q).1 = w q

/-- `w` is additive over the converter-free `join` of `absorb` -/
def JoinAdditive (w : SQuantity Rat → Rat) : Prop :=
  ∀ l q n, GroupedQuantity.joinTo l q = some n → w n = w l + w q

namespace GroupedQuantity

theorem addTo_some {c : Converter Rat} {w : SQuantity Rat → Rat} (hw : Additive c w)
    {s q n : SQuantity Rat} (h : addTo c s q = some n) : w n = w s + w q := by
  unfold addTo at h
  split at h
  · rename_i n' hn
    simp only [Option.some.injEq] at h
    subst h
    exact hw _ _ _ hn
  · cases h

theorem add_gsum {c : Converter Rat} {w : SQuantity Rat → Rat} (hw : Additive c w)
    (g : GroupedQuantity Rat) (q : SQuantity Rat) : gsum w (g.add c q) = gsum w g + w q := by
  unfold add
  split
  · exact gsum_pushOther w g q
  · split
    · -- no unit
      split
      · rename_i stored hs
        split
        · rename_i n hn
          rw [gsum_setNoUnit, hs, optW_some, optW_some, addTo_some hw hn]; grind
        · exact gsum_pushOther w g q
      · rename_i hs
        rw [gsum_setNoUnit, hs]; simp only [optW_none, optW_some]; grind
    · split
      · -- known unit
        rename_i unit _
        split
        · rename_i stored hs
          split
          · rename_i n hn
            rw [gsum_setKnown, hs, optW_some, addTo_some hw hn]; grind
          · exact gsum_pushOther w g q
        · rename_i hs
          rw [gsum_setKnown, hs]; simp only [optW_none]; grind
      · -- unknown unit
        split
        · rename_i stored hs
          split
          · rename_i n hn
            rw [gsum_setUnknown, sumBy_replaceUnknown w _ _ _ _ hs, addTo_some hw hn]; grind
          · exact gsum_pushOther w g q
        · rw [gsum_setUnknown, sumBy_append]; simp only [sumBy_cons, sumBy_nil]; grind

theorem addAll_gsum {c : Converter Rat} {w : SQuantity Rat → Rat} (hw : Additive c w)
    (g : GroupedQuantity Rat) (qs : List (SQuantity Rat)) :
    gsum w (addAll c g qs) = gsum w g + sumBy w qs := by
  induction qs generalizing g with
  | nil => simp only [addAll, List.foldl_nil, sumBy_nil]; grind
  | cons q qs ih =>
    simp only [addAll, List.foldl_cons, sumBy_cons] at ih ⊢
    rw [ih, add_gsum hw]; grind

theorem merge_gsum {c : Converter Rat} {w : SQuantity Rat → Rat} (hw : Additive c w)
    (ord : MapOrder Rat) (hord : ord.IsPerm) (g h : GroupedQuantity Rat) :
    gsum w (merge ord c g h) = gsum w g + gsum w h := by
  unfold merge
  rw [addAll_gsum hw, gsum_iter w ord hord]

theorem fitKnown_gsum {c : Converter Rat} {w : SQuantity Rat → Rat} (hw : FitInvariant c w)
    (l : List PhysQ) (g : GroupedQuantity Rat) : gsum w (fitKnown c g l).1 = gsum w g := by
  induction l generalizing g with
  | nil => rfl
  | cons pq rest ih =>
    unfold fitKnown
    split
    · exact ih g
    · rename_i q hq
      split
      · rw [ih, gsum_setKnown, hq, optW_some, hw q]; grind
      · simp only
        rw [gsum_setKnown, hq, optW_some, hw q]; grind

theorem fit_gsum {c : Converter Rat} {w : SQuantity Rat → Rat} (hw : FitInvariant c w)
    (g : GroupedQuantity Rat) : gsum w (g.fit c).1 = gsum w g :=
  fitKnown_gsum hw PhysQ.all g

theorem absorbKnown_gsum {w : SQuantity Rat → Rat} (hw : JoinAdditive w)
    (known : PhysQ → Option (SQuantity Rat)) (l : List PhysQ) (g : GroupedQuantity Rat) :
    gsum w (absorbKnown g known l) = gsum w g + sumBy (fun pq => optW w (known pq)) l := by
  induction l generalizing g with
  | nil => simp only [absorbKnown, sumBy_nil]; grind
  | cons pq rest ih =>
    unfold absorbKnown
    simp only [sumBy_cons]
    split
    · rename_i hk
      rw [ih, hk]; simp only [optW_none]; grind
    · rename_i q hk
      rw [hk, optW_some]
      split
      · rename_i stored hs
        split
        · rename_i n hn
          rw [ih, gsum_setKnown, hs, optW_some, hw _ _ _ hn]; grind
        · rw [ih, gsum_pushOther]; grind
      · rename_i hs
        rw [ih, gsum_setKnown, hs]; simp only [optW_none]; grind

theorem absorbUnknown_gsum {w : SQuantity Rat → Rat} (hw : JoinAdditive w)
    (l : List (Str × SQuantity Rat)) (g : GroupedQuantity Rat) :
    gsum w (absorbUnknown g l) = gsum w g + sumBy (fun e => w e.2) l := by
  induction l generalizing g with
  | nil => simp only [absorbUnknown, sumBy_nil]; grind
  | cons e rest ih =>
    unfold absorbUnknown
    simp only [sumBy_cons]
    split
    · rename_i stored hs
      split
      · rename_i n hn
        rw [ih, gsum_setUnknown, sumBy_replaceUnknown w _ _ _ _ hs, hw _ _ _ hn]; grind
      · rw [ih, gsum_pushOther]; grind
    · rw [ih, gsum_setUnknown, sumBy_append]; simp only [sumBy_cons, sumBy_nil]; grind

theorem absorbNoUnit_gsum {w : SQuantity Rat → Rat} (hw : JoinAdditive w)
    (o : Option (SQuantity Rat)) (g : GroupedQuantity Rat) :
    gsum w (absorbNoUnit g o) = gsum w g + optW w o := by
  unfold absorbNoUnit
  split
  · simp only [optW_none]; grind
  · rename_i q
    split
    · rename_i stored hs
      split
      · rename_i n hn
        rw [gsum_setNoUnit, hs, optW_some, optW_some, optW_some, hw _ _ _ hn]; grind
      · rw [gsum_pushOther]; simp
    · rename_i hs
      rw [gsum_setNoUnit, hs]; simp only [optW_none, optW_some]; grind

theorem absorb_gsum {w : SQuantity Rat → Rat} (hw : JoinAdditive w) (ord : MapOrder Rat)
    (hord : ord.IsPerm) (g h : GroupedQuantity Rat) :
    gsum w (absorb ord g h) = gsum w g + gsum w h := by
  unfold absorb
  simp only
  rw [gsum_setOther, sumBy_append, absorbNoUnit_gsum hw, absorbUnknown_gsum hw, absorbKnown_gsum hw,
    sumBy_perm (fun e => w e.2) (hord h.unknown)]
  simp only [gsum]
  grind

end GroupedQuantity

end Cook
