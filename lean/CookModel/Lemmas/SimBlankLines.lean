import CookModel.Lemmas.SimBlocks
import CookModel.Lemmas.Blocks
/-
  Extra blank / comment-only lines between blocks.  Token level: an *empty line* is a run of
  whitespace and comment tokens closed by a newline token (what a blank line or a comment-only
  line lexes to).  Inserting an empty line directly after an empty line, or at the very start of
  the stream, leaves the list of blocks cut by `next_block` unchanged; combined with
  `sim_allBlocks` (the splitter reads kinds only) the blocks are the same up to the offsets of the
  tokens behind the insertion point.
-/
set_option linter.unusedSectionVars false
set_option linter.unusedVariables false
set_option linter.unusedSimpArgs false
namespace Cook

/-- a complete line: tokens without a newline token, closed by a newline token -/
def IsLine (l : List Tok) : Prop :=
  ∃ body nl, l = body ++ [nl] ∧ (∀ t ∈ body, (t.kind != .newline) = true) ∧ nl.kind = .newline

/-- a blank or comment-only line: a complete line of whitespace / comment tokens -/
def EmptyLine (l : List Tok) : Prop := IsLine l ∧ l.all (fun t => isEmptyTok t.kind) = true

def skipOf (ts : List Tok) := skipEmptyLines (ts.length + 1) ts
def moreOf (ts : List Tok) := moreLines (ts.length + 1) ts
def blocksOf (ts : List Tok) := allBlocks (ts.length + 1) ts

theorem IsLine.ne_nil {l : List Tok} (h : IsLine l) : l ≠ [] := by
  obtain ⟨body, nl, rfl, _, _⟩ := h
  simp

theorem IsLine.head_append {l : List Tok} (h : IsLine l) (Z : List Tok) : (l ++ Z).head? = l.head? := by
  cases l with
  | nil => exact absurd rfl h.ne_nil
  | cons a r => rfl

theorem pullLine_line {l : List Tok} (h : IsLine l) (Z : List Tok) :
    pullLine (l ++ Z) = some (⟨l, l.all (fun t => isEmptyTok t.kind), isSingleLineMarker l.head?⟩, Z) := by
  obtain ⟨body, nl, rfl, hb, hn⟩ := h
  have hnl : (nl.kind != TK.newline) = false := by rw [hn]; rfl
  have htw : List.takeWhile (fun t : Tok => t.kind != TK.newline) (body ++ [nl] ++ Z) = body := by
    rw [List.append_assoc, List.takeWhile_append_of_pos hb]
    simp [List.takeWhile_cons, hnl]
  have hdw : List.dropWhile (fun t : Tok => t.kind != TK.newline) (body ++ [nl] ++ Z) = nl :: Z := by
    rw [List.append_assoc, List.dropWhile_append_of_pos hb]
    simp [List.dropWhile_cons, hnl]
  have hhead : (body ++ [nl] ++ Z).head? = (body ++ [nl]).head? := by
    cases body <;> rfl
  cases hts : body ++ [nl] ++ Z with
  | nil => cases body <;> simp at hts
  | cons t0 tl =>
    unfold pullLine
    simp only
    rw [← hts, htw, hdw]
    simp only
    have : some t0 = (body ++ [nl]).head? := by rw [← hhead, hts]; rfl
    rw [this]

theorem skipOf_line {l : List Tok} (h : IsLine l) (Z : List Tok) :
    skipOf (l ++ Z) =
      if l.all (fun t => isEmptyTok t.kind) then skipOf Z
      else some (⟨l, l.all (fun t => isEmptyTok t.kind), isSingleLineMarker l.head?⟩, Z) := by
  unfold skipOf
  rw [blocks_skip_unfold, pullLine_line h]

theorem moreOf_line {l : List Tok} (h : IsLine l) (Z : List Tok) :
    moreOf (l ++ Z) =
      if isSingleLineMarker l.head? then ([], l ++ Z)
      else if l.all (fun t => isEmptyTok t.kind) then ([], Z)
      else (l ++ (moreOf Z).1, (moreOf Z).2) := by
  unfold moreOf
  rw [blocks_more_unfold, pullLine_line h, h.head_append]

/-- `next_block` reads its input through `skip_empty_lines` only -/
theorem nextBlock_of_skipOf {Y1 Y2 : List Tok} (h : skipOf Y1 = skipOf Y2) : nextBlock Y1 = nextBlock Y2 := by
  rw [blocks_next_eq, blocks_next_eq]
  unfold skipOf at h
  rw [h]

theorem EmptyLine.not_marker {E : List Tok} (h : EmptyLine E) : isSingleLineMarker E.head? = false := by
  obtain ⟨hl, ha⟩ := h
  cases E with
  | nil => rfl
  | cons a r =>
    simp only [List.all_cons, Bool.and_eq_true] at ha
    have := ha.1
    simp only [List.head?_cons, isSingleLineMarker]
    unfold isEmptyTok at this
    cases hk : a.kind <;> rw [hk] at this <;> simp at this ⊢

theorem skipOf_empty {E : List Tok} (h : EmptyLine E) (Z : List Tok) : skipOf (E ++ Z) = skipOf Z := by
  rw [skipOf_line h.1, h.2]; rfl

theorem moreOf_empty {E : List Tok} (h : EmptyLine E) (Z : List Tok) : moreOf (E ++ Z) = ([], Z) := by
  rw [moreOf_line h.1, h.not_marker, h.2]; rfl

/-- the stream with an extra empty line against the stream without: unchanged, inserted at a
    block start, or inserted after complete lines the last of which is empty -/
inductive Ins : List Tok → List Tok → Prop
  | refl (Y : List Tok) : Ins Y Y
  | start (E X : List Tok) : EmptyLine E → Ins (E ++ X) X
  | after (L : List (List Tok)) (E0 E X : List Tok) : (∀ l ∈ L, IsLine l) → EmptyLine E0 → EmptyLine E →
      Ins (L.flatten ++ (E0 ++ (E ++ X))) (L.flatten ++ (E0 ++ X))

/-- the results of `next_block`: both none, or the same block and related rests -/
def NextSim : Option (List Tok × List Tok) → Option (List Tok × List Tok) → Prop
  | none, none => True
  | some (b1, r1), some (b2, r2) => b1 = b2 ∧ Ins r1 r2
  | _, _ => False

theorem NextSim.rfl' (x : Option (List Tok × List Tok)) : NextSim x x := by
  cases x with
  | none => trivial
  | some p => exact ⟨rfl, Ins.refl _⟩

theorem moreOf_ins (E0 E X : List Tok) (hE0 : EmptyLine E0) (hE : EmptyLine E) :
    ∀ (L : List (List Tok)), (∀ l ∈ L, IsLine l) →
      (moreOf (L.flatten ++ (E0 ++ (E ++ X)))).1 = (moreOf (L.flatten ++ (E0 ++ X))).1 ∧
      Ins (moreOf (L.flatten ++ (E0 ++ (E ++ X)))).2 (moreOf (L.flatten ++ (E0 ++ X))).2 := by
  intro L
  induction L with
  | nil =>
    intro _
    simp only [List.flatten_nil, List.nil_append]
    rw [moreOf_empty hE0, moreOf_empty hE0]
    exact ⟨rfl, Ins.start E X hE⟩
  | cons l L ih =>
    intro hL
    have hl : IsLine l := hL l (by simp)
    have hL' : ∀ l ∈ L, IsLine l := fun x hx => hL x (by simp [hx])
    simp only [List.flatten_cons, List.append_assoc]
    rw [moreOf_line hl, moreOf_line hl]
    by_cases hm : isSingleLineMarker l.head? = true
    · simp only [hm, if_true]
      refine ⟨trivial, ?_⟩
      have := Ins.after (l :: L) E0 E X hL hE0 hE
      simpa only [List.flatten_cons, List.append_assoc] using this
    · simp only [hm, Bool.false_eq_true, if_false]
      by_cases he : l.all (fun t => isEmptyTok t.kind) = true
      · simp only [he, if_true]
        exact ⟨trivial, Ins.after L E0 E X hL' hE0 hE⟩
      · simp only [he, Bool.false_eq_true, if_false]
        obtain ⟨h1, h2⟩ := ih hL'
        exact ⟨by rw [h1], h2⟩

theorem nextBlock_line_nonempty {l : List Tok} (hl : IsLine l) (he : l.all (fun t => isEmptyTok t.kind) = false)
    (Z : List Tok) :
    nextBlock (l ++ Z) =
      some (trimTrailingNewlines (l ++ (if isSingleLineMarker l.head? then ([], Z) else moreOf Z).1),
        (if isSingleLineMarker l.head? then ([], Z) else moreOf Z).2) := by
  rw [blocks_next_eq]
  have := skipOf_line hl Z
  unfold skipOf at this
  rw [this, he]
  simp only [Bool.false_eq_true, if_false, blockMore]
  rfl

theorem nextBlock_ins {Y1 Y2 : List Tok} (h : Ins Y1 Y2) : NextSim (nextBlock Y1) (nextBlock Y2) := by
  cases h with
  | refl => exact NextSim.rfl' _
  | start E _ hE =>
    rw [nextBlock_of_skipOf (skipOf_empty hE Y2)]
    exact NextSim.rfl' _
  | after L E0 E X hL hE0 hE =>
    induction L with
    | nil =>
      simp only [List.flatten_nil, List.nil_append]
      have e : skipOf (E0 ++ (E ++ X)) = skipOf (E0 ++ X) := by
        rw [skipOf_empty hE0, skipOf_empty hE, skipOf_empty hE0]
      rw [nextBlock_of_skipOf e]
      exact NextSim.rfl' _
    | cons l L ih =>
      have hl : IsLine l := hL l (by simp)
      have hL' : ∀ l ∈ L, IsLine l := fun x hx => hL x (by simp [hx])
      simp only [List.flatten_cons, List.append_assoc]
      by_cases he : l.all (fun t => isEmptyTok t.kind) = true
      · have e1 : ∀ Z, nextBlock (l ++ Z) = nextBlock Z := fun Z =>
          nextBlock_of_skipOf (skipOf_empty ⟨hl, he⟩ Z)
        rw [e1, e1]
        exact ih hL'
      · have he' : l.all (fun t => isEmptyTok t.kind) = false := by simpa using he
        rw [nextBlock_line_nonempty hl he', nextBlock_line_nonempty hl he']
        by_cases hm : isSingleLineMarker l.head? = true
        · simp only [hm, if_true]
          exact ⟨rfl, Ins.after L E0 E X hL' hE0 hE⟩
        · simp only [hm, Bool.false_eq_true, if_false]
          obtain ⟨h1, h2⟩ := moreOf_ins E0 E X hE0 hE L hL'
          exact ⟨by rw [h1], h2⟩

theorem blocksOf_unfold (ts : List Tok) :
    blocksOf ts = match nextBlock ts with
      | none => []
      | some (b, rest) => b :: blocksOf rest := blocks_all_unfold ts

theorem blocksOf_ins : ∀ (n : Nat) (Y1 Y2 : List Tok), Y1.length ≤ n → Ins Y1 Y2 → blocksOf Y1 = blocksOf Y2 := by
  intro n
  induction n with
  | zero =>
    intro Y1 Y2 hlen h
    have h1 : Y1 = [] := List.eq_nil_of_length_eq_zero (by omega)
    subst h1
    have hn := nextBlock_ins h
    rw [blocksOf_unfold, blocksOf_unfold]
    rw [blocks_next_nil] at hn ⊢
    cases h2 : nextBlock Y2 with
    | none => rfl
    | some p => rw [h2] at hn; cases p; exact hn.elim
  | succ n ih =>
    intro Y1 Y2 hlen h
    have hn := nextBlock_ins h
    rw [blocksOf_unfold, blocksOf_unfold]
    cases h1 : nextBlock Y1 with
    | none =>
      cases h2 : nextBlock Y2 with
      | none => rfl
      | some p => rw [h1, h2] at hn; cases p; exact hn.elim
    | some p1 =>
      cases h2 : nextBlock Y2 with
      | none => rw [h1, h2] at hn; cases p1; exact hn.elim
      | some p2 =>
        rw [h1, h2] at hn
        obtain ⟨b1, r1⟩ := p1
        obtain ⟨b2, r2⟩ := p2
        obtain ⟨hb, hr⟩ := hn
        obtain ⟨_, _, _, _, _, _, hl⟩ := blocks_next_some Y1 b1 r1 h1
        simp only
        rw [hb, ih r1 r2 (by omega) hr]

/-- **an extra empty line after an empty line**: the same blocks -/
theorem blocks_extra_empty_line (L : List (List Tok)) (hL : ∀ l ∈ L, IsLine l) (E0 E X : List Tok)
    (hE0 : EmptyLine E0) (hE : EmptyLine E) :
    blocksOf (L.flatten ++ (E0 ++ (E ++ X))) = blocksOf (L.flatten ++ (E0 ++ X)) :=
  blocksOf_ins _ _ _ (Nat.le_refl _) (Ins.after L E0 E X hL hE0 hE)

/-- **an extra empty line at the start of the stream**: the same blocks -/
theorem blocks_leading_empty_line (E X : List Tok) (hE : EmptyLine E) : blocksOf (E ++ X) = blocksOf X :=
  blocksOf_ins _ _ _ (Nat.le_refl _) (Ins.start E X hE)

/-- … up to a kind-preserving relation on the tokens (offsets behind the insertion point shift) -/
theorem blocks_extra_empty_line_rel {R : Tok → Tok → Prop} (hR : KindPres R)
    (L : List (List Tok)) (hL : ∀ l ∈ L, IsLine l) (E0 E X : List Tok)
    (hE0 : EmptyLine E0) (hE : EmptyLine E) (Y : List Tok) (hY : LRel R (L.flatten ++ (E0 ++ X)) Y) :
    LRel (LRel R) (blocksOf (L.flatten ++ (E0 ++ (E ++ X)))) (blocksOf Y) := by
  rw [blocks_extra_empty_line L hL E0 E X hE0 hE]
  unfold blocksOf
  rw [hY.length_eq]
  exact sim_allBlocks hR _ hY

theorem blocks_leading_empty_line_rel {R : Tok → Tok → Prop} (hR : KindPres R)
    (E X : List Tok) (hE : EmptyLine E) (Y : List Tok) (hY : LRel R X Y) :
    LRel (LRel R) (blocksOf (E ++ X)) (blocksOf Y) := by
  rw [blocks_leading_empty_line E X hE]
  unfold blocksOf
  rw [hY.length_eq]
  exact sim_allBlocks hR _ hY

/-! ### from the source text to the token streams -/

/-- empty, or closed by a newline token -/
def EndsNL (ts : List Tok) : Prop := ts = [] ∨ ∃ T nl, ts = T ++ [nl] ∧ nl.kind = .newline

theorem IsLine.endsNL {l : List Tok} (h : IsLine l) : EndsNL l := by
  obtain ⟨body, nl, rfl, _, hn⟩ := h
  exact Or.inr ⟨body, nl, rfl, hn⟩

theorem EndsNL.append_left (a : List Tok) {b : List Tok} (h : EndsNL b) (hb : b ≠ []) : EndsNL (a ++ b) := by
  rcases h with h | ⟨T, nl, rfl, hn⟩
  · exact absurd h hb
  · exact Or.inr ⟨a ++ T, nl, by simp, hn⟩

theorem lines_endsNL (L : List (List Tok)) (hL : ∀ l ∈ L, IsLine l) : EndsNL L.flatten := by
  induction L with
  | nil => exact Or.inl rfl
  | cons l L ih =>
    have hl : IsLine l := hL l (by simp)
    have ih' := ih (fun x hx => hL x (by simp [hx]))
    simp only [List.flatten_cons]
    by_cases he : L.flatten = []
    · rw [he, List.append_nil]; exact hl.endsNL
    · exact ih'.append_left l he

theorem spellOK_newline_next (cs : CharSpec) (text : List Char) (n1 n2 : Option Char)
    (h : spellOK cs .newline text n1 = true) : spellOK cs .newline text n2 = true := by
  cases text with
  | nil => simp [spellOK] at h
  | cons c r => simpa [spellOK] using h

theorem render_append (a b : List Tok) : render (a ++ b) = render a ++ render b := by
  simp [render]

theorem render_head_append (cs : CharSpec) {A : List Tok} (h : WellSpelled cs A) (hA : A ≠ []) (B : List Tok) :
    (render (A ++ B)).head? = (render A).head? := by
  cases A with
  | nil => exact absurd rfl hA
  | cons t r =>
    simp only [WellSpelled, wellSpelled, Bool.and_eq_true] at h
    have hne := spellOK_nonempty h.1
    cases ht : t.text with
    | nil => exact absurd ht hne
    | cons c cs' => simp [render, ht]

theorem wellSpelled_append_nl (cs : CharSpec) (T : List Tok) (nl : Tok) (hn : nl.kind = .newline) (B : List Tok)
    (h1 : WellSpelled cs (T ++ [nl])) (h2 : WellSpelled cs B) : WellSpelled cs (T ++ [nl] ++ B) := by
  induction T with
  | nil =>
    simp only [List.nil_append, WellSpelled, wellSpelled, Bool.and_eq_true, List.singleton_append] at h1 ⊢
    refine ⟨?_, h2⟩
    rw [hn] at h1 ⊢
    exact spellOK_newline_next cs _ _ _ h1.1
  | cons t T ih =>
    simp only [List.cons_append, WellSpelled, wellSpelled, Bool.and_eq_true] at h1 ⊢
    refine ⟨?_, ih h1.2⟩
    have := render_head_append cs (A := T ++ [nl]) h1.2 (by simp) B
    rw [List.append_assoc] at this ⊢
    rw [this]
    exact h1.1

/-- the lexer restarts after a newline token -/
theorem lexFrom_append_nl (cs : CharSpec) (o : Nat) (u v : List Char) (h : EndsNL (lexFrom cs o u)) :
    lexFrom cs o (u ++ v) = lexFrom cs o u ++ lexFrom cs (o + utf8Len u) v := by
  rcases h with h | ⟨T, nl, hT, hn⟩
  · have hu : u = [] := by
      have := lexFrom_tile cs o u
      rw [h] at this
      simpa using this.symm
    subst hu
    simp [lexFrom, utf8Len]
  · have hws : WellSpelled cs (lexFrom cs o u ++ lexFrom cs (o + utf8Len u) v) := by
      rw [hT]
      exact wellSpelled_append_nl cs T nl hn _ (hT ▸ lexFrom_wellSpelled cs o u) (lexFrom_wellSpelled cs _ v)
    have hch : Chain o (lexFrom cs o u ++ lexFrom cs (o + utf8Len u) v) := by
      rw [blocks_chain_append]
      refine ⟨lexFrom_chain cs o u, ?_⟩
      rw [lexFrom_tile]
      exact lexFrom_chain cs _ v
    have hr : render (lexFrom cs o u ++ lexFrom cs (o + utf8Len u) v) = u ++ v := by
      rw [render_append]
      unfold render
      rw [lexFrom_tile, lexFrom_tile]
    have := lexFrom_render_chain cs o _ hws hch
    rw [hr] at this
    exact this

/-- tokens with the same kind and text (at any offsets) -/
def SameKT (a b : Tok) : Prop := (a.kind, a.text) = (b.kind, b.text)

theorem sameKT_kindPres : KindPres SameKT := fun a b h => by
  unfold SameKT at h
  exact (Prod.mk.inj h).1

theorem LRel.refl_of {β : Type} {R : β → β → Prop} (hR : ∀ a, R a a) (l : List β) : LRel R l l := by
  induction l with
  | nil => exact .nil
  | cons a l ih => exact .cons (hR a) ih

/-- lexing the same text at another offset: same kinds and texts -/
theorem lexFrom_offset_sameKT (cs : CharSpec) (o' o : Nat) (x : List Char) :
    LRel SameKT (lexFrom cs o' x) (lexFrom cs o x) := by
  have h := lexFrom_render cs o' (lexFrom cs o x) (lexFrom_wellSpelled cs o x)
  have hr : render (lexFrom cs o x) = x := lexFrom_tile cs o x
  rw [hr] at h
  exact LRel.of_map_eq _ _ h

/-- **an extra blank / comment-only line in the source.**  `u` = complete lines, `e0` and `e`
    = source lines that lex to empty lines, `x` = the rest: the blocks of `u e0 e x` are those of
    `u e0 x` up to offsets. -/
theorem blocks_extra_blank_line_source (cs : CharSpec) (u e0 e x : List Char) (L : List (List Tok))
    (hu : lex cs u = L.flatten) (hL : ∀ l ∈ L, IsLine l)
    (hE0 : EmptyLine (lexFrom cs (utf8Len u) e0))
    (hE : EmptyLine (lexFrom cs (utf8Len u + utf8Len e0) e)) :
    LRel (LRel SameKT) (blocksOf (lex cs (u ++ (e0 ++ (e ++ x))))) (blocksOf (lex cs (u ++ (e0 ++ x)))) := by
  unfold lex at hu ⊢
  have hnu : EndsNL (lexFrom cs 0 u) := by rw [hu]; exact lines_endsNL L hL
  have e1 : lexFrom cs 0 (u ++ (e0 ++ (e ++ x))) =
      L.flatten ++ (lexFrom cs (utf8Len u) e0 ++ (lexFrom cs (utf8Len u + utf8Len e0) e ++
        lexFrom cs (utf8Len u + utf8Len e0 + utf8Len e) x)) := by
    rw [lexFrom_append_nl cs 0 u _ hnu, hu, Nat.zero_add,
      lexFrom_append_nl cs _ e0 _ hE0.1.endsNL, lexFrom_append_nl cs _ e _ hE.1.endsNL]
  have e2 : lexFrom cs 0 (u ++ (e0 ++ x)) =
      L.flatten ++ (lexFrom cs (utf8Len u) e0 ++ lexFrom cs (utf8Len u + utf8Len e0) x) := by
    rw [lexFrom_append_nl cs 0 u _ hnu, hu, Nat.zero_add, lexFrom_append_nl cs _ e0 _ hE0.1.endsNL]
  rw [e1, e2]
  apply blocks_extra_empty_line_rel sameKT_kindPres L hL _ _ _ hE0 hE
  have hrefl : ∀ l : List Tok, LRel SameKT l l := LRel.refl_of (fun _ => rfl)
  exact (hrefl _).append ((hrefl _).append (lexFrom_offset_sameKT cs _ _ x))

end Cook
