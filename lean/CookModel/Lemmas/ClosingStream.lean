import CookModel.Lemmas.ClosingEvOK
/-
  The shape of the pull parsers' event streams: every event is `EvOK'`, the stream is
  `WellBracketed`; the metadata-only parser emits front matter, metadata and diagnostics only.
-/
set_option linter.unusedSectionVars false
set_option linter.unusedVariables false
set_option linter.unusedSimpArgs false
namespace Cook

variable {α : Type} [Arith α] {I : Array (Ev α) → Prop} [DiagStable I]

/-- what a step pushes besides diagnostics: text, and `EvOK'` component events -/
def StepContent (ev : Ev α) : Prop := (∃ t, ev = .text t) ∨ (EvOK' ev ∧ (evSpan ev).isSome = true)

/-- invariants that survive pushing step content -/
class StepStable (I : Array (Ev α) → Prop) : Prop where
  push : ∀ evs ev, StepContent ev → I evs → I (evs.push ev)

/-- invariants that survive pushing a text event -/
class TextStable (I : Array (Ev α) → Prop) : Prop where
  push : ∀ evs t, I evs → I (evs.push (.text t))

theorem closing_pushText_keeps [TextStable I] (t : Text) : Keeps I (pushEv (α := α) (.text t)) (fun _ => True) :=
  Keeps.pushEv (fun evs h => TextStable.push evs _ h)
macro_rules | `(tactic| keeps_leaf) => `(tactic| with_reducible exact closing_pushText_keeps _)

instance [StepStable I] : TextStable I := ⟨fun evs t h => StepStable.push evs _ (Or.inl ⟨t, rfl⟩) h⟩

theorem closing_stepOne_keeps [StepStable I] : Keeps I (stepOne (α := α)) (fun _ => True) := by
  unfold stepOne
  apply Keeps.bind (R := RComp)
  · keeps
  · intro comp hc
    split
    · rename_i ev
      exact Keeps.pushEv (fun evs h => StepStable.push evs ev (Or.inr (hc ev rfl)) h)
    · keeps

theorem closing_stepLoop_keeps [StepStable I] (fuel : Nat) : Keeps I (stepLoop (α := α) fuel) (fun _ => True) := by
  have h1 := closing_stepOne_keeps (α := α) (I := I)
  induction fuel with
  | zero => unfold stepLoop; keeps
  | succ fuel ih => unfold stepLoop; keeps

theorem closing_textBlockLoop_keeps [TextStable I] (fuel : Nat) :
    Keeps I (textBlockLoop (α := α) fuel) (fun _ => True) := by
  induction fuel with
  | zero => unfold textBlockLoop; keeps
  | succ fuel ih =>
    unfold textBlockLoop; keeps

macro_rules | `(tactic| keeps_leaf) => `(tactic| with_reducible exact closing_stepLoop_keeps _)
macro_rules | `(tactic| keeps_leaf) => `(tactic| with_reducible exact closing_textBlockLoop_keeps _)

/-- a single-line block: a section or a metadata entry -/
def RSec (r : Option (Ev α)) : Prop := ∀ ev, r = some ev → ∃ n, ev = .«section» n
def RMeta (r : Option (Ev α)) : Prop := ∀ ev, r = some ev → ∃ k v, ev = .metadata k v

theorem closing_sectionP_keeps : Keeps I (sectionP (α := α)) RSec := by
  unfold sectionP; keeps
  all_goals (refine Keeps.pure ?_; intro ev h; first | (cases h; done) | (cases h; exact ⟨_, rfl⟩))

theorem closing_metadataEntry_keeps : Keeps I (metadataEntry (α := α)) RMeta := by
  unfold metadataEntry; keeps
  all_goals (refine Keeps.pure ?_; intro ev h; first | (cases h; done) | (cases h; exact ⟨_, _, rfl⟩))

/-! ### every event of the pull parser is `EvOK'` -/

instance : DiagQ (EvOK' (α := α)) := ⟨fun _ => trivial, fun _ => trivial⟩
instance : StepStable (AllQ (EvOK' (α := α))) := ⟨fun evs ev hc h => by
  rcases hc with ⟨t, rfl⟩ | ⟨h1, _⟩
  · exact h.push trivial
  · exact h.push h1⟩

section evok
local notation "IOK" => AllQ (EvOK' (α := α))

theorem closing_parseBlock_evOK (oldStyle : Bool) : Keeps IOK (parseBlock (α := α) oldStyle) (fun _ => True) := by
  have hstart : ∀ k, Keeps IOK (pushEv (α := α) (.start k)) (fun _ => True) :=
    fun k => Keeps.pushEv (fun _ h => h.push trivial)
  have hstop : ∀ k, Keeps IOK (pushEv (α := α) (.stop k)) (fun _ => True) :=
    fun k => Keeps.pushEv (fun _ h => h.push trivial)
  have hstep : Keeps IOK (parseStep (α := α)) (fun _ => True) := by
    have h1 := hstart .step
    have h2 := hstop .step
    unfold parseStep; keeps
  have htext : Keeps IOK (parseTextBlock (α := α)) (fun _ => True) := by
    have h1 := hstart .text
    have h2 := hstop .text
    unfold parseTextBlock; keeps
  have hmulti : Keeps IOK (parseMultilineBlock (α := α)) (fun _ => True) := by
    unfold parseMultilineBlock; keeps
  unfold parseBlock
  apply Keeps.bind (R := fun r => ∀ ev, r = some ev → EvOK' ev)
  · have h1 := (closing_sectionP_keeps (α := α) (I := IOK)).mono
      (R' := fun r => ∀ ev, r = some ev → EvOK' ev) (fun r hr ev he => by obtain ⟨n, rfl⟩ := hr ev he; trivial)
    have h2 := closing_metadataEntry_keeps (α := α) (I := IOK)
    keeps
    all_goals (refine Keeps.pure ?_; intro ev he; first | (cases he; done) | (cases he; trivial))
  · intro r hr
    split
    · rename_i ev
      exact Keeps.pushEv (fun _ h => h.push (hr ev rfl))
    · exact hmulti

theorem closing_runBlock_evOK (cs : CharSpec) (ext : Ext) (oldStyle : Bool) (b : List Tok)
    (evs : Array (Ev α)) (panic : Option String) (h : IOK evs) :
    IOK (runBlock cs ext oldStyle b evs panic).1 := by
  have key : Keeps IOK (do
      if b.isEmpty then panicWith "BlockParser::new: empty tokens"
      parseBlock (α := α) oldStyle
      let s ← get
      if s.cur ≠ s.toks.length then panicWith "Block tokens not parsed") (fun _ => True) := by
    have := closing_parseBlock_evOK (α := α) oldStyle
    keeps
  exact (key.run ⟨b, 0, ext, cs, evs, panic⟩ h).1

theorem closing_foldl_runBlock_evOK (cs : CharSpec) (ext : Ext) (oldStyle : Bool) (blocks : List (List Tok))
    (acc : Array (Ev α) × Option String) (h : IOK acc.1) :
    IOK (blocks.foldl (fun acc b => runBlock (α := α) cs ext oldStyle b acc.1 acc.2) acc).1 := by
  induction blocks generalizing acc with
  | nil => exact h
  | cons b bs ih =>
    rw [List.foldl_cons]
    exact ih _ (closing_runBlock_evOK cs ext oldStyle b acc.1 acc.2 h)

/-- **every event of the pull parser is `EvOK'`**: an ingredient event carries intermediate data only
    together with REF, and then a non-negative value; a timer event has a name or a quantity -/
theorem pullEvents_evOK' (cs : CharSpec) (ext : Ext) (input : List Char) :
    ∀ ev ∈ (pullEvents (α := α) cs ext input).1.toList, EvOK' ev := by
  unfold pullEvents
  split
  rename_i toks evs0 oldStyle heq
  apply closing_foldl_runBlock_evOK
  split at heq
  · simp only [Prod.mk.injEq] at heq
    rw [← heq.2.1]
    intro ev hev
    simp only [List.mem_singleton] at hev
    subst hev; trivial
  · simp only [Prod.mk.injEq] at heq
    rw [← heq.2.1]
    intro ev hev
    simp at hev

theorem pullEvents_evOK (cs : CharSpec) (ext : Ext) (input : List Char) :
    ∀ ev ∈ (pullEvents (α := α) cs ext input).1.toList, EvOK ev :=
  fun ev h => (pullEvents_evOK' cs ext input ev h).evOK

end evok

/-! ### the metadata-only parser emits front matter, metadata and diagnostics only -/

def IsMetaEv : Ev α → Prop
  | .frontMatter _ => True
  | .metadata _ _ => True
  | .error _ => True
  | .warning _ => True
  | _ => False

instance : DiagQ (IsMetaEv (α := α)) := ⟨fun _ => trivial, fun _ => trivial⟩

theorem closing_runMetaBlock_meta (cs : CharSpec) (ext : Ext) (b : List Tok)
    (evs : Array (Ev α)) (panic : Option String) (h : AllQ IsMetaEv evs) :
    AllQ IsMetaEv (runMetaBlock cs ext b evs panic).1 := by
  have key : Keeps (AllQ (IsMetaEv (α := α))) (do
      if b.isEmpty then panicWith "BlockParser::new: empty tokens"
      match ← metadataEntry (α := α) with
      | some ev =>
        pushEv ev
        let s ← get
        if s.cur ≠ s.toks.length then panicWith "Block tokens not parsed"
      | none => pure ()) (fun _ => True) := by
    have hm := closing_metadataEntry_keeps (α := α) (I := AllQ IsMetaEv)
    have tail : Keeps (AllQ (IsMetaEv (α := α))) (do
        match ← metadataEntry (α := α) with
        | some ev =>
          pushEv ev
          let s ← get
          if s.cur ≠ s.toks.length then panicWith "Block tokens not parsed"
        | none => pure ()) (fun _ => True) := by
      refine Keeps.bind hm (fun r hr => ?_)
      split
      · rename_i ev
        obtain ⟨k, v, rfl⟩ := hr ev rfl
        have : Keeps (AllQ (IsMetaEv (α := α))) (pushEv (.metadata k v)) (fun _ => True) :=
          Keeps.pushEv (fun _ h => h.push trivial)
        keeps
      · exact Keeps.pure trivial
    dsimp only
    split
    · exact Keeps.bind (Keeps.panicWith _) (fun _ _ => tail)
    · exact tail
  exact (key.run ⟨b, 0, ext, cs, evs, panic⟩ h).1

theorem pullMetaEvents_meta (cs : CharSpec) (ext : Ext) (input : List Char) :
    ∀ ev ∈ (pullMetaEvents (α := α) cs ext input).1.toList, IsMetaEv ev := by
  unfold pullMetaEvents
  split
  · intro ev hev
    simp only [List.mem_singleton] at hev
    subst hev; trivial
  · have : ∀ (blocks : List (List Tok)) (acc : Array (Ev α) × Option String), AllQ IsMetaEv acc.1 →
        AllQ IsMetaEv (blocks.foldl (fun acc b => runMetaBlock (α := α) cs ext b acc.1 acc.2) acc).1 := by
      intro blocks
      induction blocks with
      | nil => intro acc h; exact h
      | cons b bs ih =>
        intro acc h
        rw [List.foldl_cons]
        exact ih _ (closing_runMetaBlock_meta cs ext b acc.1 acc.2 h)
    exact this _ _ (fun ev hev => by simp at hev)

theorem IsMetaEv.evOK' {ev : Ev α} (h : IsMetaEv ev) : EvOK' ev := by
  cases ev <;> first | trivial | cases h

theorem IsMetaEv.spanOK {ev : Ev α} (input : Str) (h : IsMetaEv ev) : SpanOK input ev := by
  intro sp hsp
  cases ev <;> first | (cases h; done) | (simp [evSpan] at hsp)

theorem wbFrom_of_meta (l : List (Ev α)) (h : ∀ ev ∈ l, IsMetaEv ev) : WBFrom none l := by
  induction l with
  | nil => trivial
  | cons ev rest ih =>
    refine ⟨none, ?_, ih (fun e he => h e (List.mem_cons_of_mem _ he))⟩
    have := h ev List.mem_cons_self
    cases ev <;> first | rfl | cases this

end Cook
