import CookModel.Lemmas.ClosingEvOK
/-
  The shape of the pull parsers' event streams: every event is `EvOK'`, the stream is
  `WellBracketed`; the metadata-only parser emits front matter, metadata and diagnostics only.
-/
set_option linter.unusedSectionVars false
set_option linter.unusedVariables false
set_option linter.unusedSimpArgs false
namespace Cook

variable {α : Type} [Arith α] {I : Array (Ev α) → Prop} [DiagStable I]

/-- what a step pushes besides diagnostics: text, and `EvOK'` component events -/
def StepContent (ev : Ev α) : Prop := (∃ t, ev = .text t) ∨ (EvOK' ev ∧ (evSpan ev).isSome = true)

/-- invariants that survive pushing step content -/
class StepStable (I : Array (Ev α) → Prop) : Prop where
  push : ∀ evs ev, StepContent ev → I evs → I (evs.push ev)

/-- invariants that survive pushing a text event -/
class TextStable (I : Array (Ev α) → Prop) : Prop where
  push : ∀ evs t, I evs → I (evs.push (.text t))

theorem closing_pushText_keeps [TextStable I] (t : Text) : Keeps I (pushEv (α := α) (.text t)) (fun _ => True) :=
  Keeps.pushEv (fun evs h => TextStable.push evs _ h)
macro_rules | `(tactic| keeps_leaf) => `(tactic| with_reducible exact closing_pushText_keeps _)

instance [StepStable I] : TextStable I := ⟨fun evs t h => StepStable.push evs _ (Or.inl ⟨t, rfl⟩) h⟩

theorem closing_stepOne_keeps [StepStable I] : Keeps I (stepOne (α := α)) (fun _ => True) := by
  unfold stepOne
  apply Keeps.bind (R := RComp)
  · keeps
  · intro comp hc
    split
    · rename_i ev
      exact Keeps.pushEv (fun evs h => StepStable.push evs ev (Or.inr (hc ev rfl)) h)
    · keeps

theorem closing_stepLoop_keeps [StepStable I] (fuel : Nat) : Keeps I (stepLoop (α := α) fuel) (fun _ => True) := by
  have h1 := closing_stepOne_keeps (α := α) (I := I)
  induction fuel with
  | zero => unfold stepLoop; keeps
  | succ fuel ih => unfold stepLoop; keeps

theorem closing_textBlockLoop_keeps [TextStable I] (fuel : Nat) :
    Keeps I (textBlockLoop (α := α) fuel) (fun _ => True) := by
  induction fuel with
  | zero => unfold textBlockLoop; keeps
  | succ fuel ih =>
    unfold textBlockLoop; keeps

macro_rules | `(tactic| keeps_leaf) => `(tactic| with_reducible exact closing_stepLoop_keeps _)
macro_rules | `(tactic| keeps_leaf) => `(tactic| with_reducible exact closing_textBlockLoop_keeps _)

/-- a single-line block: a section or a metadata entry -/
def RSec (r : Option (Ev α)) : Prop := ∀ ev, r = some ev → ∃ n, ev = .«section» n
def RMeta (r : Option (Ev α)) : Prop := ∀ ev, r = some ev → ∃ k v, ev = .metadata k v

theorem closing_sectionP_keeps : Keeps I (sectionP (α := α)) RSec := by
  unfold sectionP; keeps
  all_goals (refine Keeps.pure ?_; intro ev h; first | (cases h; done) | (cases h; exact ⟨_, rfl⟩))

theorem closing_metadataEntry_keeps : Keeps I (metadataEntry (α := α)) RMeta := by
  unfold metadataEntry; keeps
  all_goals (refine Keeps.pure ?_; intro ev h; first | (cases h; done) | (cases h; exact ⟨_, _, rfl⟩))

/-! ### every event of the pull parser is `EvOK'` -/

instance : DiagQ (EvOK' (α := α)) := ⟨fun _ => trivial, fun _ => trivial⟩
instance : StepStable (AllQ (EvOK' (α := α))) := ⟨fun evs ev hc h => by
  rcases hc with ⟨t, rfl⟩ | ⟨h1, _⟩
  · exact h.push trivial
  · exact h.push h1⟩

section evok
local notation "IOK" => AllQ (EvOK' (α := α))

theorem closing_parseBlock_evOK (oldStyle : Bool) : Keeps IOK (parseBlock (α := α) oldStyle) (fun _ => True) := by
  have hstart : ∀ k, Keeps IOK (pushEv (α := α) (.start k)) (fun _ => True) :=
    fun k => Keeps.pushEv (fun _ h => h.push trivial)
  have hstop : ∀ k, Keeps IOK (pushEv (α := α) (.stop k)) (fun _ => True) :=
    fun k => Keeps.pushEv (fun _ h => h.push trivial)
  have hstep : Keeps IOK (parseStep (α := α)) (fun _ => True) := by
    have h1 := hstart .step
    have h2 := hstop .step
    unfold parseStep; keeps
  have htext : Keeps IOK (parseTextBlock (α := α)) (fun _ => True) := by
    have h1 := hstart .text
    have h2 := hstop .text
    unfold parseTextBlock; keeps
  have hmulti : Keeps IOK (parseMultilineBlock (α := α)) (fun _ => True) := by
    unfold parseMultilineBlock; keeps
  unfold parseBlock
  apply Keeps.bind (R := fun r => ∀ ev, r = some ev → EvOK' ev)
  · have h1 := (closing_sectionP_keeps (α := α) (I := IOK)).mono
      (R' := fun r => ∀ ev, r = some ev → EvOK' ev) (fun r hr ev he => by obtain ⟨n, rfl⟩ := hr ev he; trivial)
    have h2 := closing_metadataEntry_keeps (α := α) (I := IOK)
    keeps
    all_goals (refine Keeps.pure ?_; intro ev he; first | (cases he; done) | (cases he; trivial))
  · intro r hr
    split
    · rename_i ev
      exact Keeps.pushEv (fun _ h => h.push (hr ev rfl))
    · exact hmulti

theorem closing_runBlock_evOK (cs : CharSpec) (ext : Ext) (oldStyle : Bool) (b : List Tok)
    (evs : Array (Ev α)) (panic : Option String) (h : IOK evs) :
    IOK (runBlock cs ext oldStyle b evs panic).1 := by
  have key : Keeps IOK (do
      if b.isEmpty then panicWith "BlockParser::new: empty tokens"
      parseBlock (α := α) oldStyle
      let s ← get
      if s.cur ≠ s.toks.length then panicWith "Block tokens not parsed") (fun _ => True) := by
    have := closing_parseBlock_evOK (α := α) oldStyle
    keeps
  exact (key.run ⟨b, 0, ext, cs, evs, panic⟩ h).1

theorem closing_foldl_runBlock_evOK (cs : CharSpec) (ext : Ext) (oldStyle : Bool) (blocks : List (List Tok))
    (acc : Array (Ev α) × Option String) (h : IOK acc.1) :
    IOK (blocks.foldl (fun acc b => runBlock (α := α) cs ext oldStyle b acc.1 acc.2) acc).1 := by
  induction blocks generalizing acc with
  | nil => exact h
  | cons b bs ih =>
    rw [List.foldl_cons]
    exact ih _ (closing_runBlock_evOK cs ext oldStyle b acc.1 acc.2 h)

/-- **every event of the pull parser is `EvOK'`**: an ingredient event carries intermediate data only
    together with REF, and then a non-negative value; a timer event has a name or a quantity -/
theorem pullEvents_evOK' (cs : CharSpec) (ext : Ext) (input : List Char) :
    ∀ ev ∈ (pullEvents (α := α) cs ext input).1.toList, EvOK' ev := by
  unfold pullEvents
  split
  rename_i toks evs0 oldStyle heq
  apply closing_foldl_runBlock_evOK
  split at heq
  · simp only [Prod.mk.injEq] at heq
    rw [← heq.2.1]
    intro ev hev
    simp only [List.mem_singleton] at hev
    subst hev; trivial
  · simp only [Prod.mk.injEq] at heq
    rw [← heq.2.1]
    intro ev hev
    simp at hev

theorem pullEvents_evOK (cs : CharSpec) (ext : Ext) (input : List Char) :
    ∀ ev ∈ (pullEvents (α := α) cs ext input).1.toList, EvOK ev :=
  fun ev h => (pullEvents_evOK' cs ext input ev h).evOK

end evok

/-! ### the metadata-only parser emits front matter, metadata and diagnostics only -/

def IsMetaEv : Ev α → Prop
  | .frontMatter _ => True
  | .metadata _ _ => True
  | .error _ => True
  | .warning _ => True
  | _ => False

instance : DiagQ (IsMetaEv (α := α)) := ⟨fun _ => trivial, fun _ => trivial⟩

theorem closing_runMetaBlock_meta (cs : CharSpec) (ext : Ext) (b : List Tok)
    (evs : Array (Ev α)) (panic : Option String) (h : AllQ IsMetaEv evs) :
    AllQ IsMetaEv (runMetaBlock cs ext b evs panic).1 := by
  have key : Keeps (AllQ (IsMetaEv (α := α))) (do
      if b.isEmpty then panicWith "BlockParser::new: empty tokens"
      match ← metadataEntry (α := α) with
      | some ev =>
        pushEv ev
        let s ← get
        if s.cur ≠ s.toks.length then panicWith "Block tokens not parsed"
      | none => pure ()) (fun _ => True) := by
    have hm := closing_metadataEntry_keeps (α := α) (I := AllQ IsMetaEv)
    have tail : Keeps (AllQ (IsMetaEv (α := α))) (do
        match ← metadataEntry (α := α) with
        | some ev =>
          pushEv ev
          let s ← get
          if s.cur ≠ s.toks.length then panicWith "Block tokens not parsed"
        | none => pure ()) (fun _ => True) := by
      refine Keeps.bind hm (fun r hr => ?_)
      split
      · rename_i ev
        obtain ⟨k, v, rfl⟩ := hr ev rfl
        have : Keeps (AllQ (IsMetaEv (α := α))) (pushEv (.metadata k v)) (fun _ => True) :=
          Keeps.pushEv (fun _ h => h.push trivial)
        keeps
      · exact Keeps.pure trivial
    dsimp only
    split
    · exact Keeps.bind (Keeps.panicWith _) (fun _ _ => tail)
    · exact tail
  exact (key.run ⟨b, 0, ext, cs, evs, panic⟩ h).1

theorem pullMetaEvents_meta (cs : CharSpec) (ext : Ext) (input : List Char) :
    ∀ ev ∈ (pullMetaEvents (α := α) cs ext input).1.toList, IsMetaEv ev := by
  unfold pullMetaEvents
  split
  · intro ev hev
    simp only [List.mem_singleton] at hev
    subst hev; trivial
  · have : ∀ (blocks : List (List Tok)) (acc : Array (Ev α) × Option String), AllQ IsMetaEv acc.1 →
        AllQ IsMetaEv (blocks.foldl (fun acc b => runMetaBlock (α := α) cs ext b acc.1 acc.2) acc).1 := by
      intro blocks
      induction blocks with
      | nil => intro acc h; exact h
      | cons b bs ih =>
        intro acc h
        rw [List.foldl_cons]
        exact ih _ (closing_runMetaBlock_meta cs ext b acc.1 acc.2 h)
    exact this _ _ (fun ev hev => by simp at hev)

theorem IsMetaEv.evOK' {ev : Ev α} (h : IsMetaEv ev) : EvOK' ev := by
  cases ev <;> first | trivial | cases h

theorem IsMetaEv.spanOK {ev : Ev α} (input : Str) (h : IsMetaEv ev) : CompSpanOnBoundaries input ev := by
  intro sp hsp
  cases ev <;> first | (cases h; done) | (simp [evSpan] at hsp)

theorem wbFrom_of_meta (l : List (Ev α)) (h : ∀ ev ∈ l, IsMetaEv ev) : WBFrom none l := by
  induction l with
  | nil => trivial
  | cons ev rest ih =>
    refine ⟨none, ?_, ih (fun e he => h e (List.mem_cons_of_mem _ he))⟩
    have := h ev List.mem_cons_self
    cases ev <;> first | rfl | cases this

/-! ### the pull parser's stream is well bracketed -/

def QDiag (ev : Ev α) : Prop := (∃ d, ev = .error d) ∨ (∃ d, ev = .warning d)
def QStep (ev : Ev α) : Prop := QDiag ev ∨ StepContent ev
def QText (ev : Ev α) : Prop := QDiag ev ∨ ∃ t, ev = .text t

instance : DiagQ (QDiag (α := α)) := ⟨fun d => Or.inl ⟨d, rfl⟩, fun d => Or.inr ⟨d, rfl⟩⟩
instance : DiagQ (QStep (α := α)) := ⟨fun d => Or.inl (Or.inl ⟨d, rfl⟩), fun d => Or.inl (Or.inr ⟨d, rfl⟩)⟩
instance : DiagQ (QText (α := α)) := ⟨fun d => Or.inl (Or.inl ⟨d, rfl⟩), fun d => Or.inl (Or.inr ⟨d, rfl⟩)⟩
instance {base : Array (Ev α)} : StepStable (ExtQ base (QStep (α := α))) :=
  ⟨fun evs ev hc h => h.push (Or.inr hc)⟩
instance {base : Array (Ev α)} : TextStable (ExtQ base (QText (α := α))) :=
  ⟨fun evs t h => h.push (Or.inr ⟨t, rfl⟩)⟩

theorem wbStep_diag {ev : Ev α} (h : QDiag ev) (o : Option BlockKind) : wbStep o ev = some o := by
  rcases h with ⟨d, rfl⟩ | ⟨d, rfl⟩ <;> rfl

theorem wbStep_step {ev : Ev α} (h : QStep ev) : wbStep (some .step) ev = some (some .step) := by
  rcases h with h | ⟨t, rfl⟩ | ⟨_, hc⟩
  · exact wbStep_diag h _
  · rfl
  · cases ev <;> first | rfl | cases hc

theorem wbStep_text {ev : Ev α} (h : QText ev) : wbStep (some .text) ev = some (some .text) := by
  rcases h with h | ⟨t, rfl⟩
  · exact wbStep_diag h _
  · rfl

theorem wbFrom_stay (o : Option BlockKind) (l rest : List (Ev α)) (h : ∀ e ∈ l, wbStep o e = some o)
    (hr : WBFrom o rest) : WBFrom o (l ++ rest) := by
  induction l with
  | nil => exact hr
  | cons e l ih =>
    exact ⟨o, h e List.mem_cons_self, ih (fun e' he' => h e' (List.mem_cons_of_mem _ he'))⟩

/-- the events one block contributes: from "no block open" back to "no block open" -/
def Closed (l : List (Ev α)) : Prop := ∀ rest, WBFrom none rest → WBFrom none (l ++ rest)

theorem Closed.nil : Closed ([] : List (Ev α)) := fun _ h => h

theorem Closed.append {a b : List (Ev α)} (ha : Closed a) (hb : Closed b) : Closed (a ++ b) := by
  intro rest hr
  rw [List.append_assoc]
  exact ha _ (hb _ hr)

theorem Closed.diag {l : List (Ev α)} (h : ∀ e ∈ l, QDiag e) : Closed l :=
  fun rest hr => wbFrom_stay none l rest (fun e he => wbStep_diag (h e he) _) hr

theorem Closed.block (k : BlockKind) {l : List (Ev α)} (h : ∀ e ∈ l, wbStep (some k) e = some (some k)) :
    Closed (Ev.start k :: (l ++ [Ev.stop k])) := by
  intro rest hr
  refine ⟨some k, rfl, ?_⟩
  show WBFrom (some k) ((l ++ [Ev.stop k]) ++ rest)
  rw [List.append_assoc]
  refine wbFrom_stay (some k) l _ h ?_
  exact ⟨none, by simp [wbStep], hr⟩

/-- running `m` from an empty extension: the events appended satisfy `Q` -/
theorem appends_of_keeps {β : Type} {Q : Ev α → Prop} {R : β → Prop} {m : P α β}
    (h : ∀ base, Keeps (ExtQ base Q) m R) (s : BP α) :
    ∃ l : List (Ev α), (m s).2.evs = s.evs ++ l.toArray ∧ (∀ e ∈ l, Q e) ∧ R (m s).1 := by
  obtain ⟨⟨l, h1, h2⟩, h3⟩ := (h s.evs).run s (ExtQ.refl _ _)
  exact ⟨l, h1, h2, h3⟩

theorem parseStep_closed (s : BP α) :
    ∃ l : List (Ev α), (parseStep s).2.evs = s.evs ++ l.toArray ∧ Closed l := by
  have hk : ∀ base, Keeps (ExtQ base (QStep (α := α))) (do stepLoop (α := α) ((← restToks).length)) (fun _ => True) := by
    intro base; keeps
  obtain ⟨l, h1, h2, -⟩ := appends_of_keeps hk { s with evs := s.evs.push (.start .step) }
  refine ⟨Ev.start .step :: (l ++ [Ev.stop .step]), ?_, Closed.block .step (fun e he => wbStep_step (h2 e he))⟩
  show ((do stepLoop (α := α) ((← restToks).length)) { s with evs := s.evs.push (.start .step) }).2.evs.push (.stop .step) = _
  rw [h1]
  simp

theorem parseTextBlock_closed (s : BP α) :
    ∃ l : List (Ev α), (parseTextBlock s).2.evs = s.evs ++ l.toArray ∧ Closed l := by
  have hk : ∀ base, Keeps (ExtQ base (QText (α := α))) (do textBlockLoop (α := α) ((← restToks).length)) (fun _ => True) := by
    intro base; keeps
  obtain ⟨l, h1, h2, -⟩ := appends_of_keeps hk { s with evs := s.evs.push (.start .text) }
  refine ⟨Ev.start .text :: (l ++ [Ev.stop .text]), ?_, Closed.block .text (fun e he => wbStep_text (h2 e he))⟩
  show ((do textBlockLoop (α := α) ((← restToks).length)) { s with evs := s.evs.push (.start .text) }).2.evs.push (.stop .text) = _
  rw [h1]
  simp

/-- `m` appends a closed group of events and returns a result satisfying `R` -/
structure ClosedM {β : Type} (m : P α β) (R : β → Prop) : Prop where
  run : ∀ s : BP α, ∃ l : List (Ev α), (m s).2.evs = s.evs ++ l.toArray ∧ Closed l ∧ R (m s).1

theorem ClosedM.bind {β γ : Type} {m : P α β} {k : β → P α γ} {R : β → Prop} {R' : γ → Prop}
    (hm : ClosedM m R) (hk : ∀ a, R a → ClosedM (k a) R') : ClosedM (m >>= k) R' := by
  constructor
  intro s
  obtain ⟨l1, h1, c1, r1⟩ := hm.run s
  obtain ⟨l2, h2, c2, r2⟩ := (hk _ r1).run (m s).2
  refine ⟨l1 ++ l2, ?_, c1.append c2, r2⟩
  show ((k (m s).1) (m s).2).2.evs = _
  rw [h2, h1]; simp

theorem ClosedM.pure {β : Type} {a : β} {R : β → Prop} (h : R a) : ClosedM (Pure.pure a : P α β) R :=
  ⟨fun s => ⟨[], by simp [Pure.pure, StateT.pure], Closed.nil, h⟩⟩

/-- a parser that only pushes diagnostics -/
theorem ClosedM.of_diag {β : Type} {m : P α β} {R : β → Prop}
    (h : ∀ base, Keeps (ExtQ base (QDiag (α := α))) m R) : ClosedM m R := by
  constructor
  intro s
  obtain ⟨l, h1, h2, h3⟩ := appends_of_keeps h s
  exact ⟨l, h1, Closed.diag h2, h3⟩

theorem closing_parseMultilineBlock_closed : ClosedM (parseMultilineBlock (α := α)) (fun _ => True) := by
  unfold parseMultilineBlock
  refine ClosedM.bind (ClosedM.of_diag (fun _ => allToks_keeps)) (fun all _ => ?_)
  split
  · exact ClosedM.bind (ClosedM.of_diag (fun _ => consumeRest_keeps)) (fun _ _ => ClosedM.pure trivial)
  · refine ClosedM.bind (ClosedM.of_diag (fun _ => peekK_keeps)) (fun k _ => ?_)
    split
    · exact ⟨fun s => by obtain ⟨l, h1, h2⟩ := parseTextBlock_closed s; exact ⟨l, h1, h2, trivial⟩⟩
    · exact ⟨fun s => by obtain ⟨l, h1, h2⟩ := parseStep_closed s; exact ⟨l, h1, h2, trivial⟩⟩

/-- the event of a single-line block -/
def IsSingle (ev : Ev α) : Prop := (∃ n, ev = .«section» n) ∨ ∃ k v, ev = .metadata k v
def RSingle (r : Option (Ev α)) : Prop := ∀ ev, r = some ev → IsSingle ev

theorem closing_pushSingle_closed {ev : Ev α} (h : IsSingle ev) : ClosedM (pushEv ev) (fun _ => True) := by
  constructor
  intro s
  refine ⟨[ev], by simp [pushEv, modify, modifyGet, MonadStateOf.modifyGet, StateT.modifyGet, Pure.pure], ?_, trivial⟩
  intro rest hr
  refine ⟨none, ?_, hr⟩
  rcases h with ⟨n, rfl⟩ | ⟨k, v, rfl⟩ <;> rfl

theorem closing_parseBlock_closed (oldStyle : Bool) : ClosedM (parseBlock (α := α) oldStyle) (fun _ => True) := by
  unfold parseBlock
  apply ClosedM.bind (R := RSingle)
  · apply ClosedM.of_diag
    intro base
    have h1 := (closing_sectionP_keeps (α := α) (I := ExtQ base QDiag)).mono
      (R' := RSingle) (fun r hr ev he => Or.inl (hr ev he))
    have h2 := closing_metadataEntry_keeps (α := α) (I := ExtQ base QDiag)
    keeps
    all_goals (
      refine Keeps.pure ?_
      intro ev he
      first | (cases he; done) | (cases he; exact Or.inr ⟨_, _, rfl⟩))
  · intro r hr
    split
    · rename_i ev
      exact closing_pushSingle_closed (hr ev rfl)
    · exact closing_parseMultilineBlock_closed

theorem closing_runBlock_closed (cs : CharSpec) (ext : Ext) (oldStyle : Bool) (b : List Tok)
    (evs : Array (Ev α)) (panic : Option String) :
    ∃ l : List (Ev α), (runBlock cs ext oldStyle b evs panic).1 = evs ++ l.toArray ∧ Closed l := by
  have key : ClosedM (do
      if b.isEmpty then panicWith "BlockParser::new: empty tokens"
      parseBlock (α := α) oldStyle
      let s ← get
      if s.cur ≠ s.toks.length then panicWith "Block tokens not parsed") (fun _ => True) := by
    have hp : ∀ site, ClosedM (panicWith (α := α) site) (fun _ => True) :=
      fun site => ClosedM.of_diag (fun _ => Keeps.panicWith site)
    have tail : ClosedM (do
        parseBlock (α := α) oldStyle
        let s ← get
        if s.cur ≠ s.toks.length then panicWith "Block tokens not parsed") (fun _ => True) := by
      refine ClosedM.bind (closing_parseBlock_closed oldStyle) (fun _ _ => ?_)
      refine ClosedM.bind (R := fun _ => True) (ClosedM.of_diag (fun _ => ⟨fun s hs => ⟨hs, trivial⟩⟩)) (fun s0 _ => ?_)
      split
      · exact hp _
      · exact ClosedM.pure trivial
    dsimp only
    split
    · exact ClosedM.bind (hp _) (fun _ _ => tail)
    · exact tail
  obtain ⟨l, h1, h2, -⟩ := key.run ⟨b, 0, ext, cs, evs, panic⟩
  exact ⟨l, h1, h2⟩

theorem closing_foldl_runBlock_closed (cs : CharSpec) (ext : Ext) (oldStyle : Bool) (blocks : List (List Tok))
    (acc : Array (Ev α) × Option String) :
    ∃ l : List (Ev α), (blocks.foldl (fun acc b => runBlock (α := α) cs ext oldStyle b acc.1 acc.2) acc).1 =
      acc.1 ++ l.toArray ∧ Closed l := by
  induction blocks generalizing acc with
  | nil => exact ⟨[], by simp, Closed.nil⟩
  | cons b bs ih =>
    rw [List.foldl_cons]
    obtain ⟨l1, h1, c1⟩ := closing_runBlock_closed cs ext oldStyle b acc.1 acc.2
    obtain ⟨l2, h2, c2⟩ := ih (runBlock cs ext oldStyle b acc.1 acc.2)
    exact ⟨l1 ++ l2, by rw [h2, h1]; simp, c1.append c2⟩

/-- **the pull parser's event stream is well bracketed** -/
theorem pullEvents_wellBracketed (cs : CharSpec) (ext : Ext) (input : List Char) :
    WellBracketed (pullEvents (α := α) cs ext input).1.toList := by
  unfold pullEvents
  split
  rename_i toks evs0 oldStyle heq
  obtain ⟨l, h1, c⟩ := closing_foldl_runBlock_closed (α := α) cs ext oldStyle
    (allBlocks (toks.length + 1) toks) (evs0, none)
  rw [h1]
  split at heq
  · simp only [Prod.mk.injEq] at heq
    rw [← heq.2.1]
    simp only [Array.toList_append, List.toList_toArray]
    exact ⟨none, rfl, by simpa using c [] trivial⟩
  · simp only [Prod.mk.injEq] at heq
    rw [← heq.2.1]
    simp only [Array.toList_append, List.toList_toArray]
    show WBFrom none _
    simpa using c [] trivial

end Cook
