import CookModel.Lemmas.RecipeKeep
import CookModel.Lemmas.SerdeModsParsed
import CookModel.Num.ScaleM
/-
  The recipe `parse` returns WITH its metadata map and its servings (notes/frontmatter.md, open items 2 and 3; wave
  `w7c15nan`).  `Col.packWith` / `Col.pack` read the collector as the `Serde.FullRecipe` that `RecipeContent` → `Recipe`
  packs (vocabulary like `Col.toRecipe`, not model: the three fields are copied).  Facts: the keys of the collector's
  metadata map are pairwise distinct (`metaInsert` replaces in place); the servings are those of the LAST `>>` entry the
  standard-key check accepted as servings; `scale` of the packed recipe is `scaleM`.  Prefix `pk_`.
-/
set_option linter.unusedSectionVars false
set_option linter.unusedVariables false
namespace Cook
variable {α : Type} [Arith α]

/-- the collector's recipe with a metadata map and servings (`Recipe { metadata, sections, …, data }`) -/
def Col.packWith (c : Col α) (m : Serde.Metadata) (sv : Serde.Servings) :
    Serde.FullRecipe α (ScalableValue α) Serde.Servings := ⟨m, c.toRecipe, sv⟩

/-- … for a document WITHOUT front matter: the map of the `>>` entries (string values) and the servings the fold
    stored.  (With front matter the two fields are `FM.fullMetadata` / `FM.fullServings`, Analysis/FrontMatter.lean.) -/
def Col.pack (c : Col α) : Serde.FullRecipe α (ScalableValue α) Serde.Servings :=
  c.packWith (c.metaMap.map (fun p => (p.1, Serde.Json.str p.2))) c.servings

/-! ### distinct keys -/

theorem pk_metaInsert_keys (m : List (Str × Str)) (k v : Str) :
    (metaInsert m k v).map Prod.fst = if m.any (fun p => p.1 == k) then m.map Prod.fst else m.map Prod.fst ++ [k] := by
  unfold metaInsert
  split
  · rw [List.map_map]
    apply List.map_congr_left
    intro p _
    simp only [Function.comp_def]
    split
    · rename_i h; exact (beq_iff_eq.mp h).symm
    · rfl
  · simp

theorem pk_metaInsert_nodup (m : List (Str × Str)) (k v : Str) (h : (m.map Prod.fst).Nodup) :
    ((metaInsert m k v).map Prod.fst).Nodup := by
  rw [pk_metaInsert_keys]
  split
  · exact h
  · rename_i hk
    rw [List.nodup_append]
    refine ⟨h, by simp, ?_⟩
    intro a ha b hb
    simp only [List.mem_singleton] at hb
    subst hb
    intro e
    subst e
    apply hk
    simp only [List.mem_map] at ha
    obtain ⟨p, hp, rfl⟩ := ha
    exact List.any_eq_true.mpr ⟨p, hp, by simp⟩

theorem pk_processEvent_nodup (env : Env) (input : Str) (ev : Ev α) (s : Col α)
    (h : (s.metaMap.map Prod.fst).Nodup) : ((processEvent env input ev s).2.metaMap.map Prod.fst).Nodup := by
  by_cases hm : ∃ k v, ev = .metadata k v
  · obtain ⟨k, v, rfl⟩ := hm
    simp only [processEvent]
    rcases rk_metadataA_map env k v s with e | e <;> rw [e]
    · exact h
    · exact pk_metaInsert_nodup _ _ _ h
  · rw [rk_processEvent_map env input ev s (fun k v e => hm ⟨k, v, e⟩)]
    exact h

theorem pk_parseEventsLoop_nodup (env : Env) (input : Str) (evs : List (Ev α)) (s c : Col α)
    (hs : (s.metaMap.map Prod.fst).Nodup) (hc : (parseEventsLoop env input evs s).output = some c) :
    (c.metaMap.map Prod.fst).Nodup := by
  induction evs generalizing s with
  | nil => rw [(rk_final env input s c hc).2.2.2.2.1]; exact hs
  | cons ev rest ih =>
    by_cases he : ∃ d0, ev = .error d0
    · obtain ⟨d0, rfl⟩ := he
      simp only [parseEventsLoop] at hc
      cases hc
    · rw [parseEventsLoop_cons_nonerror env input ev rest s he] at hc
      exact ih _ (pk_processEvent_nodup env input ev s hs) hc

/-- **the keys of the metadata map of a parsed recipe are pairwise distinct** -/
theorem pk_parseRecipe_nodup (env : Env) (input : Str) (c : Col α)
    (h : (parseRecipe (α := α) env input).output = some c) : (c.metaMap.map Prod.fst).Nodup := by
  unfold parseRecipe parseEvents at h
  exact pk_parseEventsLoop_nodup env input _ {} c (by simp) h

/-! ### servings -/

/-- the `>>` entry is one whose value the standard-key check accepts as servings -/
def ServingsEntry (env : Env) (k v : Text) (sv : List Nat) : Prop :=
  rkConfigKey env (k.trimmed env.cs) = false ∧
  ∃ sk, StdKey.ofStr (String.ofList (k.trimmed env.cs)) = some sk ∧
    env.stdCheck sk (v.outerTrimmed env.cs) = .servings sv

theorem pk_timeOverrideCheck_servings (k : StdKey) (s : Col α) : (timeOverrideCheck k s).2.servings = s.servings := by
  unfold timeOverrideCheck
  simp +instances only [A_bind, A_get, A_ite, A_modify, A_pure, awarn, apanic]
  repeat' split
  all_goals rfl

theorem pk_bracket_len (l : List Char) (h1 : l.head? = some '[') (h2 : l.getLast? = some ']') : l.length ≥ 2 := by
  match l, h1, h2 with
  | [x], h1, h2 =>
    simp only [List.head?_cons, Option.some.injEq, List.getLast?_singleton] at h1 h2
    rw [h1] at h2; cases h2
  | _ :: _ :: _, _, _ => simp

/-- a servings entry stores its list -/
theorem pk_metadataA_servings_set (env : Env) (k v : Text) (s : Col α) (sv : List Nat)
    (h : ServingsEntry env k v sv) : (metadataA env k v s).2.servings = some sv := by
  obtain ⟨hnc, sk, h1, h2⟩ := h
  unfold rkConfigKey at hnc
  unfold metadataA
  dsimp only
  simp +instances only [A_bind, A_get, A_ite, A_modify, A_pure, awarn, aerr, apanic, hnc, Bool.false_and,
    Bool.false_eq_true, if_false, h1, h2]
  repeat' split
  all_goals first
    | rfl
    | (simp only [pk_timeOverrideCheck_servings]; done)

/-- any other `>>` entry leaves the stored servings alone -/
theorem pk_metadataA_servings_keep (env : Env) (k v : Text) (s : Col α)
    (h : ∀ sv, ¬ ServingsEntry env k v sv) : (metadataA env k v s).2.servings = s.servings := by
  unfold ServingsEntry rkConfigKey at h
  unfold metadataA
  dsimp only
  cases h1 : StdKey.ofStr (String.ofList (k.trimmed env.cs)) with
  | none =>
    simp +instances only [A_bind, A_get, A_ite, A_modify, A_pure, awarn, aerr, apanic]
    repeat' split
    all_goals rfl
  | some sk =>
    cases h2 : env.stdCheck sk (v.outerTrimmed env.cs) with
    | servings sv =>
      have hc : (env.ext.has Gen.EXT_MODES && (k.trimmed env.cs).head? == some '[' &&
          (k.trimmed env.cs).getLast? == some ']') = true := by
        cases hcc : (env.ext.has Gen.EXT_MODES && (k.trimmed env.cs).head? == some '[' &&
          (k.trimmed env.cs).getLast? == some ']') with
        | true => rfl
        | false => exact absurd ⟨hcc, sk, h1, h2⟩ (h sv)
      have hlen : (k.trimmed env.cs).length ≥ 2 := by
        simp only [Bool.and_eq_true, beq_iff_eq] at hc
        exact pk_bracket_len _ hc.1.2 hc.2
      have hc4 : (env.ext.has Gen.EXT_MODES && (k.trimmed env.cs).head? == some '[' &&
          (k.trimmed env.cs).getLast? == some ']' && decide ((k.trimmed env.cs).length ≥ 2)) = true := by
        rw [hc]; simpa using hlen
      simp +instances only [A_bind, A_get, A_ite, A_modify, A_pure, awarn, aerr, apanic, hc4, h2, if_true]
      repeat' split
      all_goals rfl
    | ok =>
      simp +instances only [A_bind, A_get, A_ite, A_modify, A_pure, awarn, aerr, apanic, h2]
      repeat' split
      all_goals first
        | rfl
        | (simp only [pk_timeOverrideCheck_servings]; done)
    | rejected =>
      simp +instances only [A_bind, A_get, A_ite, A_modify, A_pure, awarn, aerr, apanic, h2]
      repeat' split
      all_goals first
        | rfl
        | (simp only [pk_timeOverrideCheck_servings]; done)

/-- only a `>>` entry touches the stored servings -/
theorem pk_processEvent_servings (env : Env) (input : Str) (ev : Ev α) (s : Col α)
    (hnm : ∀ k v sv, ev = .metadata k v → ¬ ServingsEntry env k v sv) :
    (processEvent env input ev s).2.servings = s.servings := by
  cases ev with
  | metadata k v => exact pk_metadataA_servings_keep env k v s (fun sv => hnm k v sv rfl)
  | frontMatter t => rfl
  | «section» name => rfl
  | start kind => rfl
  | error d => rfl
  | warning d => rfl
  | stop kind => exact congrArg MS.servings ((pf_endBlock s.ms kind).run s rfl)
  | text t => exact congrArg MS.servings ((pf_inStepText s.ms env t).run s rfl)
  | ingredient i => exact congrArg MS.servings ((pf_inBlockComponent s.ms env input _).run s rfl)
  | cookware c => exact congrArg MS.servings ((pf_inBlockComponent s.ms env input _).run s rfl)
  | timer t => exact congrArg MS.servings ((pf_inBlockComponent s.ms env input _).run s rfl)

theorem pk_final_servings (env : Env) (input : Str) (s c : Col α)
    (hout : (parseEventsLoop env input ([] : List (Ev α)) s).output = some c) : c.servings = s.servings := by
  unfold parseEventsLoop at hout
  simp only [Option.some.injEq] at hout
  rw [← hout]
  split <;> split <;> rfl

/-- **`parse`: the stored servings are those of the LAST servings entry.**  For a `>>` entry of the stream that the
    standard-key check accepts as servings (`ServingsEntry`: not a config key, a standard key, `check_std_entry` gives
    `value_as_servings = sv`) and which no later servings entry follows, the recipe's servings are `sv`. -/
theorem pk_parse_servings_last (env : Env) (input : Str) (c : Col α)
    (hout : (parseRecipe (α := α) env input).output = some c) (pre post : List (Ev α)) (k v : Text) (sv : List Nat)
    (hsplit : (pullEvents (α := α) env.cs env.ext input).1.toList = pre ++ Ev.metadata k v :: post)
    (hentry : ServingsEntry env k v sv)
    (hlast : ∀ k' v' sv', Ev.metadata k' v' ∈ post → ¬ ServingsEntry env k' v' sv') :
    c.servings = some sv := by
  obtain ⟨o1, o1', hat, hw, hev, hsp, hrest⟩ := rk_parse_reach env input c hout pre post _ hsplit
  obtain ⟨hnp', hb'⟩ := hat.next
  have h0 : (processEvent env input (Ev.metadata k v) (collectorAfter env input pre ({} : Col α))).2.servings =
      some sv := by
    simp only [processEvent]
    exact pk_metadataA_servings_set env k v _ sv hentry
  obtain ⟨sF, hK, -, -, hfin⟩ := rk_fold_pres env input (fun s => s.servings = some sv) post
    (fun ev hmem s o o' _ hk => by
      show (processEvent env input ev s).2.servings = some sv
      rw [pk_processEvent_servings env input ev s (fun k' v' sv' e => hlast k' v' sv' (e ▸ hmem))]
      exact hk)
    _ o1' hnp' hb' hw hev hsp c hrest h0
  rw [pk_final_servings env input sF c hfin]
  exact hK

/-- without any servings entry in the stream the recipe has no servings -/
theorem pk_parse_servings_none (env : Env) (input : Str) (c : Col α)
    (hout : (parseRecipe (α := α) env input).output = some c)
    (hno : ∀ k v sv, Ev.metadata k v ∈ (pullEvents (α := α) env.cs env.ext input).1.toList →
      ¬ ServingsEntry env k v sv) : c.servings = none := by
  unfold parseRecipe parseEvents at hout
  have key : ∀ (evs : List (Ev α)) (s : Col α), s.servings = none →
      (∀ k v sv, Ev.metadata k v ∈ evs → ¬ ServingsEntry env k v sv) →
      (parseEventsLoop env input evs s).output = some c → c.servings = none := by
    intro evs
    induction evs with
    | nil => intro s hs _ hc; rw [pk_final_servings env input s c hc]; exact hs
    | cons ev rest ih =>
      intro s hs hno hc
      by_cases he : ∃ d0, ev = .error d0
      · obtain ⟨d0, rfl⟩ := he
        simp only [parseEventsLoop] at hc
        cases hc
      · rw [parseEventsLoop_cons_nonerror env input ev rest s he] at hc
        refine ih _ ?_ (fun k v sv hm => hno k v sv (List.mem_cons_of_mem _ hm)) hc
        rw [pk_processEvent_servings env input ev s (fun k v sv e => hno k v sv (e ▸ List.mem_cons_self))]
        exact hs
  exact key _ {} rfl hno hout

end Cook
