import CookModel.Lemmas.RoundtripDocModes
/-
  C01, document level, TIGHT separators: a single-line block (`>>` line, `=` line) may be followed directly
  by the next block, with only the line's own newline between them; a step / paragraph may be followed directly
  by a single-line block (`pull_line`'s single-line rule and the `is_single_line_marker(peek)` stop of the
  continuation loop in `next_block`).  Only between two multi-line blocks a blank line is needed.
  (`rtdt_` prefix.)
-/
set_option linter.unusedSectionVars false
set_option linter.unusedSimpArgs false
set_option linter.unusedVariables false
namespace Cook

variable {α : Type} [Arith α]

/-! ### `nextBlock` with a tight follower -/

/-- a single-line block followed by a newline token and ANYTHING: it is the next block, the newline is dropped -/
theorem rtdt_next_single (B : List Tok) (nl : Tok) (F : List Tok) (hB : singleShape B = true)
    (hnlk : nl.kind = .newline) : nextBlock (B ++ nl :: F) = some (B, F) := by
  obtain ⟨t0, tl, hBc, hmk, hnl⟩ := rtd_singleShape_facts B hB
  have hnb := rtd_marker_not_blank hmk
  have hhead : ∀ R, (B ++ R).head? = some t0 := by intro R; rw [hBc]; rfl
  have hsl : isSingleLineMarker (some t0) = true := by rw [rtd_isSingleLineMarker]; exact hmk
  have hne : ∀ R, B ++ R ≠ [] := by intro R; rw [hBc]; simp
  rw [blocks_next_eq, rtd_skip_unfold_line _ (hne _), hhead]
  obtain ⟨e1, e2⟩ := rtd_lineOf_nl B nl F hnl hnlk
  rw [e1, e2]
  have : (B ++ [nl]).all (fun t => isEmptyTok t.kind) = false := by
    rw [hBc]; exact rtd_not_all_blank_of_head t0 tl [nl] hnb
  simp only [this, Bool.false_eq_true, if_false, blockMore, hsl, if_true, List.append_nil]
  rw [blocks_trim_append_newlines B [nl] (by intro t ht; simp at ht; subst ht; exact hnlk), blocks_trim_id B hnl]

/-- the continuation of a step stops before a line that starts with `>>` or `=` -/
theorem rtdt_more_step_marker : ∀ (n : Nat) (X : List Tok), X.length ≤ n → stepShape X = true →
    ∀ (nl : Tok) (F : List Tok), nl.kind = .newline → isSingleLineMarker F.head? = true →
    moreLines ((X ++ nl :: F).length + 1) (X ++ nl :: F) = (X ++ [nl], F) := by
  intro n
  induction n with
  | zero =>
    intro X hl h
    have : X = [] := List.eq_nil_of_length_eq_zero (by omega)
    subst this; simp [stepShape, contShapeK] at h
  | succ n ih =>
    intro X hl h nl0 F hnl0 hF
    obtain ⟨L, hL, hnb, hhead, hX⟩ := rtd_stepShape_split X h
    obtain ⟨t0, tl, hLc⟩ : ∃ t0 tl, L = t0 :: tl := by
      cases L with
      | nil => simp at hnb
      | cons a b => exact ⟨a, b, rfl⟩
    have hm : ∀ R, isSingleLineMarker (L ++ R).head? = false := by
      intro R
      rw [hLc, List.cons_append, List.head?_cons, rtd_isSingleLineMarker]; exact hhead t0 (by rw [hLc]; rfl)
    have hne : ∀ R, L ++ R ≠ [] := by intro R; rw [hLc]; simp
    have hnb' : ∀ nl : Tok, (L ++ [nl]).all (fun t => isEmptyTok t.kind) = false := by
      intro nl; rw [List.all_append, hnb]; rfl
    have hstop : moreLines (F.length + 1) F = ([], F) := by
      rw [blocks_more_unfold, hF]; rfl
    rcases hX with hX | ⟨nl, X', hX, hnl, hX'⟩
    · subst hX
      obtain ⟨e1, e2⟩ := rtd_lineOf_nl X nl0 F hL hnl0
      rw [rtd_more_unfold_line _ (hne _) (hm _), e1, e2, hnb' nl0, hstop]
      simp
    · subst hX
      have hlen : X'.length ≤ n := by simp only [List.length_append, List.length_cons] at hl; omega
      have e0 : L ++ nl :: X' ++ nl0 :: F = L ++ nl :: (X' ++ nl0 :: F) := by simp
      obtain ⟨e1, e2⟩ := rtd_lineOf_nl L nl (X' ++ nl0 :: F) hL hnl
      rw [e0, rtd_more_unfold_line _ (hne _) (hm _), e1, e2, hnb' nl, ih X' hlen hX' nl0 F hnl0 hF]
      simp

/-- a step block followed by a newline token and a line that starts with `>>` or `=`: it is the next block,
    the newline is dropped, the marker line is what remains -/
theorem rtdt_next_step_marker (B : List Tok) (nl0 : Tok) (F : List Tok) (hB : stepShape B = true)
    (hnl0 : nl0.kind = .newline) (hF : isSingleLineMarker F.head? = true) :
    nextBlock (B ++ nl0 :: F) = some (B, F) := by
  obtain ⟨L, hL, hnb, hhead, hX⟩ := rtd_stepShape_split B hB
  obtain ⟨t0, tl, hLc⟩ : ∃ t0 tl, L = t0 :: tl := by
    cases L with
    | nil => simp at hnb
    | cons a b => exact ⟨a, b, rfl⟩
  have hm : ∀ R, isSingleLineMarker (L ++ R).head? = false := by
    intro R
    rw [hLc, List.cons_append, List.head?_cons, rtd_isSingleLineMarker]; exact hhead t0 (by rw [hLc]; rfl)
  have hne : ∀ R, L ++ R ≠ [] := by intro R; rw [hLc]; simp
  have hnb' : ∀ nl : Tok, (L ++ [nl]).all (fun t => isEmptyTok t.kind) = false := by
    intro nl; rw [List.all_append, hnb]; rfl
  have htrim : trimTrailingNewlines (B ++ [nl0]) = B := by
    rw [blocks_trim_append_newlines _ _ (by intro t ht; simp at ht; subst ht; exact hnl0)]
    exact rtd_trim_last B (rtd_contShape_last _ _ B hB)
  have hstop : moreLines (F.length + 1) F = ([], F) := by
    rw [blocks_more_unfold, hF]; rfl
  rw [blocks_next_eq]
  rcases hX with hX | ⟨nl, X', hX, hnl, hX'⟩
  · subst hX
    obtain ⟨e1, e2⟩ := rtd_lineOf_nl B nl0 F hL hnl0
    rw [rtd_skip_unfold_line _ (hne _), e1, e2, hnb' nl0]
    simp only [Bool.false_eq_true, if_false, blockMore, hm, hstop, List.append_nil]
    rw [htrim]
  · subst hX
    have e0 : L ++ nl :: X' ++ nl0 :: F = L ++ nl :: (X' ++ nl0 :: F) := by simp
    obtain ⟨e1, e2⟩ := rtd_lineOf_nl L nl (X' ++ nl0 :: F) hL hnl
    rw [e0, rtd_skip_unfold_line _ (hne _), e1, e2, hnb' nl]
    simp only [Bool.false_eq_true, if_false, blockMore, hm,
      rtdt_more_step_marker X'.length X' (Nat.le_refl _) hX' nl0 F hnl0 hF]
    have e3 : L ++ [nl] ++ (X' ++ [nl0]) = L ++ nl :: X' ++ [nl0] := by simp
    rw [e3, htrim]

/-! ### documents with tight separators -/

/-- a separator that is exactly one newline token -/
def nlOnly (s : List Tok) : Bool := s.map (·.kind) == [TK.newline]

/-- a separator between two blocks: a newline and one or more blank lines (`sepOK`), or — when `tight` — just
    the newline that ends the block's last line -/
def sepOKT (tight : Bool) (s : List Tok) : Bool := sepOK s || (tight && nlOnly s)

/-- as `docOK`, but the separator between two blocks may be a single newline when one of the two is a
    single-line block -/
def docOKT : List (List Tok × List Tok) → Bool
  | [] => true
  | [d] => blockShape d.1 && tailOK d.2
  | d :: x :: r => blockShape d.1 && sepOKT (singleShape d.1 || singleShape x.1) d.2 && docOKT (x :: r)

theorem rtdt_nlOnly_facts (s : List Tok) (h : nlOnly s = true) : ∃ nl, s = [nl] ∧ nl.kind = .newline := by
  unfold nlOnly at h
  cases s with
  | nil => simp at h
  | cons a r =>
    cases r with
    | nil => exact ⟨a, rfl, by simpa using h⟩
    | cons b r' => simp at h

theorem rtdt_docToks_head (x : List Tok × List Tok) (r : List (List Tok × List Tok)) (h : singleShape x.1 = true) :
    isSingleLineMarker (docToks (x :: r)).head? = true := by
  obtain ⟨t0, tl, hBc, hmk, -⟩ := rtd_singleShape_facts x.1 h
  simp only [docToks, hBc, List.cons_append, List.head?_cons, rtd_isSingleLineMarker]
  exact hmk

/-- The splitter on a document with tight separators (`docOKT`): `allBlocks` returns exactly the blocks. -/
theorem rtdt_allBlocks_doc (ds : List (List Tok × List Tok)) (h : docOKT ds = true) :
    ∀ pre, BlankLines pre →
      allBlocks ((pre ++ docToks ds).length + 1) (pre ++ docToks ds) = ds.map (·.1) := by
  induction ds with
  | nil =>
    intro pre hpre
    simp only [docToks, List.append_nil, List.map_nil]
    exact rtd_allBlocks_blank pre hpre.1
  | cons d r ih =>
    intro pre hpre
    have e0 : pre ++ docToks (d :: r) = pre ++ (d.1 ++ (d.2 ++ docToks r)) := by simp [docToks]
    rw [e0, blocks_all_unfold, rtd_next_blankLines pre hpre]
    cases r with
    | nil =>
      simp only [docOKT, Bool.and_eq_true] at h
      obtain ⟨hf, hb1, hb2⟩ := rtd_follow_tail d.2 h.2
      simp only [docToks, List.append_nil, List.map_cons, List.map_nil]
      rcases rtd_next_block d.1 d.2 h.1 hf with hn | hn <;> rw [hn]
      · simp only; rw [rtd_allBlocks_blank _ hb1]
      · simp only; rw [rtd_allBlocks_blank _ hb2]
    | cons x r' =>
      simp only [docOKT, Bool.and_eq_true] at h
      obtain ⟨⟨hshape, hsep⟩, hrest⟩ := h
      simp only [List.map_cons]
      simp only [sepOKT, Bool.or_eq_true, Bool.and_eq_true] at hsep
      rcases hsep with hsep | ⟨htight, hnlo⟩
      · obtain ⟨hf, E1, E2, hE1, hE2, e1, e2⟩ := rtd_follow_sep d.2 (docToks (x :: r')) hsep
        rcases rtd_next_block d.1 _ hshape hf with hn | hn <;> rw [hn]
        · simp only; rw [e1, ih hrest E1 hE1]; rfl
        · simp only; rw [e2, ih hrest E2 hE2]; rfl
      · obtain ⟨nl, hs, hnl⟩ := rtdt_nlOnly_facts d.2 hnlo
        have hnext : nextBlock (d.1 ++ (d.2 ++ docToks (x :: r'))) = some (d.1, docToks (x :: r')) := by
          rw [hs, List.singleton_append]
          simp only [blockShape, Bool.or_eq_true] at hshape
          rcases hshape with hsh | hsh
          · exact rtdt_next_single d.1 nl _ hsh hnl
          · rcases htight with ht | ht
            · exact rtdt_next_single d.1 nl _ ht hnl
            · exact rtdt_next_step_marker d.1 nl _ hsh hnl (rtdt_docToks_head x r' ht)
        rw [hnext]
        simp only
        have := ih hrest [] rtd_blankLines_nil
        simp only [List.nil_append, List.map_cons] at this
        rw [this]

/-! ### transfer from the spelled document -/

theorem rtdt_singleShape_transfer {ts spec : List Tok} (h : Spells ts spec) : singleShape ts = singleShape spec := by
  simp only [singleShape, rtd_spells_kinds h]

theorem rtdt_nlOnly_transfer {ts spec : List Tok} (h : Spells ts spec) : nlOnly ts = nlOnly spec := by
  simp only [nlOnly, rtd_spells_kinds h]

theorem rtdt_docOKT_transfer {β : Type} (f : β → List Tok × List Tok) (tds : List (List Tok × List Tok)) (ds : List β)
    (h : All2 (fun (td : List Tok × List Tok) d => Spells td.1 (f d).1 ∧ Spells td.2 (f d).2) tds ds) :
    docOKT tds = docOKT (ds.map f) := by
  induction h with
  | nil => rfl
  | cons hd htl ih =>
    cases htl with
    | nil => simp only [List.map_cons, List.map_nil, docOKT, rtd_blockShape_transfer hd.1, rtd_tailOK_transfer hd.2]
    | cons hd2 htl2 =>
      simp only [List.map_cons, docOKT, sepOKT, rtd_blockShape_transfer hd.1, rtd_sepOK_transfer hd.2,
        rtdt_singleShape_transfer hd.1, rtdt_singleShape_transfer hd2.1, rtdt_nlOnly_transfer hd.2]
      simp only [List.map_cons] at ih
      rw [ih]

/-- a `>>` line or a section line: a single-line block -/
def DocItem.isLine : DocItem → Bool
  | .sectionLine _ _ => true
  | .metaLine _ _ _ => true
  | _ => false

/-- separators of a document, TIGHT form: after the last block `tailOK`; between two blocks a newline and at
    least one blank line (`sepOK`), or — when one of the two blocks is a `>>` / section line — just one
    newline token.  `l` pairs each block's `isLine` flag with what follows the block. -/
def sepsOKT : List (Bool × List Tok) → Bool
  | [] => true
  | [t] => tailOK t.2
  | s :: x :: r => sepOKT (s.1 || x.1) s.2 && sepsOKT (x :: r)

/-- the separators of a described document -/
def docSeps (doc : List (DocItem × List Tok)) : List (Bool × List Tok) := doc.map (fun d => (d.1.isLine, d.2))

/-- the old condition (a blank line after every block) is a special case -/
theorem rtdt_sepsOK_sepsOKT (doc : List (DocItem × List Tok)) (h : sepsOK (doc.map (·.2)) = true) :
    sepsOKT (docSeps doc) = true := by
  induction doc with
  | nil => rfl
  | cons d r ih =>
    cases r with
    | nil => simpa [docSeps, sepsOKT, sepsOK] using h
    | cons x r' =>
      simp only [List.map_cons, sepsOK, Bool.and_eq_true] at h
      simp only [docSeps, List.map_cons, sepsOKT, sepOKT, h.1, Bool.true_or, Bool.true_and]
      exact ih (by simpa using h.2)

theorem rtdt_isLine_shape (cs : CharSpec) (ext : Ext) (d : DocItem) (h : d.ok cs ext = true) (hl : d.isLine = true) :
    singleShape d.spell = true := by
  cases d with
  | step segs => cases hl
  | para lines => cases hl
  | sectionLine name p => exact rtd_section_shape cs name p h
  | metaLine k v p => exact rtd_meta_shape cs k v p h

theorem rtdt_sepOKT_mono (a b : Bool) (s : List Tok) (hab : a = true → b = true) (h : sepOKT a s = true) :
    sepOKT b s = true := by
  simp only [sepOKT, Bool.or_eq_true, Bool.and_eq_true] at h ⊢
  rcases h with h | ⟨h1, h2⟩
  · exact Or.inl h
  · exact Or.inr ⟨hab h1, h2⟩

theorem rtdt_docOKT_intro (cs : CharSpec) (ext : Ext) (doc : List (DocItem × List Tok))
    (hok : ∀ d ∈ doc, d.1.ok cs ext = true) (hs : sepsOKT (docSeps doc) = true) :
    docOKT (doc.map (fun d : DocItem × List Tok => (d.1.spell, d.2))) = true := by
  induction doc with
  | nil => rfl
  | cons d r ih =>
    have hd := rtd_item_shape cs ext d.1 (hok d (by simp))
    cases r with
    | nil =>
      simp only [docSeps, List.map_cons, List.map_nil, sepsOKT] at hs
      simp only [List.map_cons, List.map_nil, docOKT, hd, hs, Bool.and_self]
    | cons x r' =>
      simp only [docSeps, List.map_cons, sepsOKT, Bool.and_eq_true] at hs
      have hmono : sepOKT (singleShape d.1.spell || singleShape x.1.spell) d.2 = true := by
        refine rtdt_sepOKT_mono _ _ _ ?_ hs.1
        intro hab
        rw [Bool.or_eq_true] at hab ⊢
        rcases hab with hab | hab
        · exact Or.inl (rtdt_isLine_shape cs ext d.1 (hok d (by simp)) hab)
        · exact Or.inr (rtdt_isLine_shape cs ext x.1 (hok x (by simp)) hab)
      simp only [List.map_cons, docOKT, hd, hmono, Bool.true_and]
      exact ih (fun y hy => hok y (by simp [hy])) (by simpa [docSeps] using hs.2)

/-- Document level with tight separators: as `rtd_pullEvents_doc`, the condition on the separators weakened to
    `sepsOKT`. -/
theorem rtdt_pullEvents_doc (cs : CharSpec) (ext : Ext) (pre : List Tok) (doc : List (DocItem × List Tok))
    (hpre : blankLinesOK pre = true) (hok : ∀ d ∈ doc, d.1.ok cs ext = true)
    (hseps : sepsOKT (docSeps doc) = true) (hw : WellSpelled cs (pre ++ docSpec doc))
    (hfm : parseFrontmatter cs (render (pre ++ docSpec doc)) = none) :
    ∃ (blocks : List (List Tok)) (evss : List (List (Ev α))) (arr : Array (Ev α)),
      allBlocks ((lex cs (render (pre ++ docSpec doc))).length + 1) (lex cs (render (pre ++ docSpec doc))) = blocks ∧
      All2 (fun b (d : DocItem × List Tok) => Spells b d.1.spell) blocks doc ∧
      pullEvents (α := α) cs ext (render (pre ++ docSpec doc)) = (arr, none) ∧
      arr.toList = evss.flatten ∧
      All2 (fun (d : DocItem × List Tok) evs => DocItemEvs cs d.1 evs) doc evss := by
  obtain ⟨hsp, hrun⟩ := rtin_lex_spells cs 0 (pre ++ docSpec doc) hw
  generalize hts : lexFrom cs 0 (render (pre ++ docSpec doc)) = ts at hsp hrun
  have hlex : lex cs (render (pre ++ docSpec doc)) = ts := hts
  obtain ⟨tpre, tdoc, rfl, hsp1, hsp2⟩ := hsp.append_inv
  obtain ⟨tds, rfl, hF⟩ := rtd_spells_doc (fun d : DocItem × List Tok => (d.1.spell, d.2)) doc tdoc hsp2
  have hdoc : docOKT tds = true := by
    rw [rtdt_docOKT_transfer _ tds doc hF]
    exact rtdt_docOKT_intro cs ext doc hok hseps
  have hbl : BlankLines tpre := rtd_blankLinesOK_facts tpre (by rw [rtd_blankLinesOK_transfer hsp1]; exact hpre)
  have hall := rtdt_allBlocks_doc tds hdoc tpre hbl
  have hruns := rtd_doc_runs tds 0 tpre hrun
  obtain ⟨evss, arr, g1, g2, g3⟩ := rtd_fold_items (α := α) cs ext doc tds hF hok hruns #[] none
  refine ⟨tds.map (·.1), evss, arr, by rw [hlex]; exact hall, ?_, ?_, by simpa using g2, g3⟩
  · exact rtd_all2_blocks tds doc hF
  · unfold pullEvents
    simp only [hfm, hlex, hall]
    exact g1

/-! ### the end-to-end theorems with tight separators -/

/-- `rtx_parseRecipe_doc` with tight separators -/
theorem rtdt_parseRecipe_doc (env : Env) (pre : List Tok) (doc : List (DocItem × List Tok))
    (hpre : blankLinesOK pre = true) (hok : ∀ d ∈ doc, d.1.ok env.cs env.ext = true)
    (hsimple : ∀ d ∈ doc, d.1.simple = true) (hplain : ∀ d ∈ doc, d.1.plain env)
    (hext : ∀ d ∈ doc, d.1.extOK α env)
    (hseps : sepsOKT (docSeps doc) = true) (hw : WellSpelled env.cs (pre ++ docSpec doc))
    (hfm : parseFrontmatter env.cs (render (pre ++ docSpec doc)) = none) :
    ∃ (c : Col α) (spans : List Span),
      parseRecipe env (render (pre ++ docSpec doc)) = ⟨some c, c.diags, none⟩ ∧
      c.sections = absDocSecs [] ⟨none, []⟩ 1 (doc.map (·.1)) ∧
      c.ingredients.toList = ((absDocSegs (doc.map (·.1))).filterMap SegX.ingr?).map absIngr ∧
      c.cookware.toList = ((absDocSegs (doc.map (·.1))).filterMap SegX.cw?).map absCw ∧
      c.timers.toList = ((absDocSegs (doc.map (·.1))).filterMap SegX.timer?).map absTimer ∧
      c.metaMap = absDocMeta [] (doc.map (·.1)) ∧
      c.diags = deprecation spans ∧ spans.length = ((doc.map (·.1)).filter DocItem.isMeta).length ∧
      c.inlineQ = #[] ∧ c.frontMatter = none := by
  obtain ⟨blocks0, evss, arr, -, -, hpe, harr, hevs⟩ :=
    rtdt_pullEvents_doc (α := α) env.cs env.ext pre doc hpre hok hseps hw hfm
  obtain ⟨blocks, e1, e2, e3⟩ := rtx_doc_blocks env doc evss hevs hok hsimple hplain hext
  obtain ⟨c, h1, h2, h3, h4, h5, h6, h7, h8, h9⟩ :=
    rts_parseEvents_doc env (render (pre ++ docSpec doc)) blocks e2
  have hs' : ∀ i ∈ doc.map (·.1), i.simple = true := by
    intro i hi
    obtain ⟨d, hd, rfl⟩ := List.mem_map.1 hi
    exact hsimple d hd
  obtain ⟨a1, a2, a3, a4, a5⟩ := rtx_abs env (doc.map (·.1)) blocks e3 hs' [] [] ⟨none, []⟩ 1 [] All2.nil rfl
  simp only [List.nil_append] at a2 a3
  obtain ⟨t1, t2, t3⟩ := rtr_tables env _ _ a2 a3
  refine ⟨c, docSpans (docEntries blocks), ?_, by rw [h2, a1], by rw [h3, t1], by rw [h4, t2], by rw [h5, t3],
    by rw [h6, a4], h7, by simp [docSpans, a5], h8, h9⟩
  unfold parseRecipe
  simp only [hpe, harr, e1]
  rw [h1]

/-- `rtdr_parseRecipe_doc` (documents with references) with tight separators -/
theorem rtdt_parseRecipe_doc_refs (env : Env) (pre : List Tok) (doc : List (DocItem × List Tok))
    (hpre : blankLinesOK pre = true) (hok : ∀ d ∈ doc, d.1.ok env.cs env.ext = true)
    (hlock : ∀ d ∈ doc, d.1.lockOK = true) (hplain : ∀ d ∈ doc, d.1.plain env)
    (hext : ∀ d ∈ doc, d.1.extOK α env)
    (hrefs : xOK (α := α) env {} [] ⟨none, []⟩ 1 (doc.map (fun d => d.1.x)))
    (hseps : sepsOKT (docSeps doc) = true) (hw : WellSpelled env.cs (pre ++ docSpec doc))
    (hfm : parseFrontmatter env.cs (render (pre ++ docSpec doc)) = none) :
    ∃ (c : Col α) (spans : List Span),
      parseRecipe env (render (pre ++ docSpec doc)) = ⟨some c, c.diags, none⟩ ∧
      c.sections = (xRun (α := α) env {} [] ⟨none, []⟩ 1 [] (doc.map (fun d => d.1.x))).secs ∧
      c.ingredients = (xRun (α := α) env {} [] ⟨none, []⟩ 1 [] (doc.map (fun d => d.1.x))).T.ing ∧
      c.cookware = (xRun (α := α) env {} [] ⟨none, []⟩ 1 [] (doc.map (fun d => d.1.x))).T.cw ∧
      c.timers = (xRun (α := α) env {} [] ⟨none, []⟩ 1 [] (doc.map (fun d => d.1.x))).T.tm ∧
      c.metaMap = (xRun (α := α) env {} [] ⟨none, []⟩ 1 [] (doc.map (fun d => d.1.x))).metaMap ∧
      c.diags = deprecation spans ∧ spans.length = ((doc.map (·.1)).filter DocItem.isMeta).length ∧
      c.inlineQ = #[] ∧ c.frontMatter = none := by
  obtain ⟨blocks0, evss, arr, -, -, hpe, harr, hevs⟩ :=
    rtdt_pullEvents_doc (α := α) env.cs env.ext pre doc hpre hok hseps hw hfm
  obtain ⟨blocks, e1, e2, e3, e4⟩ := rtdr_doc_blocks env doc evss hevs hlock hplain hext
  obtain ⟨c, h1, h2, h3, h4, h5, h6, h7, h8, h9⟩ :=
    rtax_parseEvents_doc env (render (pre ++ docSpec doc)) blocks e2 (by rw [e3]; exact hrefs)
  rw [e3] at h2 h3 h4 h5 h6
  refine ⟨c, docSpans (docEntries blocks), ?_, h2, h3, h4, h5, h6, h7, by simp [docSpans, e4], h8, h9⟩
  unfold parseRecipe
  simp only [hpe, harr, e1]
  rw [h1]

/-- `rtdm_parseRecipe_doc` (documents with mode switches) with tight separators -/
theorem rtdt_parseRecipe_doc_modes (env : Env) (pre : List Tok) (doc : List (DocItem × List Tok))
    (hpre : blankLinesOK pre = true) (hok : ∀ d ∈ doc, d.1.ok env.cs env.ext = true)
    (hside : docSideOK α env .all (doc.map (·.1)))
    (hrefs : yOKB (α := α) env .all .new {} [] ⟨none, []⟩ 1 (doc.map (fun d => d.1.y env)) = true)
    (hseps : sepsOKT (docSeps doc) = true) (hw : WellSpelled env.cs (pre ++ docSpec doc))
    (hfm : parseFrontmatter env.cs (render (pre ++ docSpec doc)) = none) :
    ∃ (c : Col α) (spans : List Span),
      parseRecipe env (render (pre ++ docSpec doc)) = ⟨some c, c.diags, none⟩ ∧
      c.sections = (yRun (α := α) env .all .new {} [] ⟨none, []⟩ 1 [] (doc.map (fun d => d.1.y env))).secs ∧
      c.ingredients = (yRun (α := α) env .all .new {} [] ⟨none, []⟩ 1 [] (doc.map (fun d => d.1.y env))).T.ing ∧
      c.cookware = (yRun (α := α) env .all .new {} [] ⟨none, []⟩ 1 [] (doc.map (fun d => d.1.y env))).T.cw ∧
      c.timers = (yRun (α := α) env .all .new {} [] ⟨none, []⟩ 1 [] (doc.map (fun d => d.1.y env))).T.tm ∧
      c.metaMap = (yRun (α := α) env .all .new {} [] ⟨none, []⟩ 1 [] (doc.map (fun d => d.1.y env))).metaMap ∧
      c.diags = deprecation spans ∧
      spans.length = ((doc.map (·.1)).filter (DocItem.isEntry α env)).length ∧
      c.inlineQ = #[] ∧ c.frontMatter = none := by
  obtain ⟨blocks0, evss, arr, -, -, hpe, harr, hevs⟩ :=
    rtdt_pullEvents_doc (α := α) env.cs env.ext pre doc hpre hok hseps hw hfm
  obtain ⟨blocks, e1, e2, e3, e4⟩ := rtdm_doc_blocks env doc evss hevs .all hside
  obtain ⟨c, h1, h2, h3, h4, h5, h6, h7, h8, h9⟩ :=
    rtq_parseEvents_doc env (render (pre ++ docSpec doc)) blocks e2 (by rw [e3]; exact hrefs)
  rw [e3] at h2 h3 h4 h5 h6
  refine ⟨c, docSpans (nEntries blocks), ?_, h2, h3, h4, h5, h6, h7, by simp [docSpans, e4], h8, h9⟩
  unfold parseRecipe
  simp only [hpe, harr, e1]
  rw [h1]

end Cook
