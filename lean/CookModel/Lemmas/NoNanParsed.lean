import CookModel.Lemmas.NoNanCollector
import CookModel.Lemmas.SerdeModsParsed
/-
  C15 — "no number has a NaN value" (`RecipeSelfEq`, the premise of `C15_eq_reflexive` / `C15_roundtrip_equal`) for the
  recipe `parse` returns (`Col.toRecipe`), from the collector invariant `ColNumOK` (Lemmas/NoNanCollector.lean), and for
  its `default_scale` (values are copied).  Prefix `nnp_`.
-/
set_option linter.unusedSectionVars false
set_option linter.unusedVariables false
namespace Cook
open Serde
variable {α : Type} [Arith α] [IeeeHypC α]

theorem nnp_scalableSelfEq (v : ScalableValue α) (h : v.val.ParsedOK) : scalableSelfEq v := by
  cases v <;> exact fi_parsedOK_selfEq IeeeHypC.out _ h

/-- the structural part of the invariant, in the vocabulary of wave 6: every stored fraction has `den ≠ 0`, parts within
    `u32` and a non-NaN error -/
structure RecipeFracOK {V} (ok : V → Prop) (r : Recipe α V) : Prop where
  ingredients : ∀ i ∈ r.ingredients, optFinite (fun q => ok q.value) i.quantity
  cookware : ∀ i ∈ r.cookware, optFinite ok i.quantity
  timers : ∀ i ∈ r.timers, optFinite (fun q => ok q.value) i.quantity
  inlineQuantities : ∀ q ∈ r.inlineQuantities, q.value.ParsedOK

theorem nnp_toRecipe_parsedOK (c : Col α) (h : ColNumOK c) :
    RecipeFracOK (fun v : ScalableValue α => v.val.ParsedOK) c.toRecipe := by
  refine ⟨?_, ?_, ?_, h.2.2.2⟩
  · intro i hi
    cases hq : i.quantity with
    | none => trivial
    | some q => exact h.1 i hi q hq
  · intro i hi
    cases hq : i.quantity with
    | none => trivial
    | some q => exact h.2.1 i hi q hq
  · intro i hi
    cases hq : i.quantity with
    | none => trivial
    | some q => exact h.2.2.1 i hi q hq

theorem nnp_selfEq_of_parsedOK (r : ScalableRecipe α)
    (h : RecipeFracOK (fun v : ScalableValue α => v.val.ParsedOK) r) : RecipeSelfEq scalableSelfEq r := by
  refine ⟨?_, ?_, ?_, fun q hq => fi_parsedOK_selfEq IeeeHypC.out _ (h.inlineQuantities q hq)⟩
  · intro i hi
    have := h.ingredients i hi
    cases hq : i.quantity with
    | none => trivial
    | some q => rw [hq] at this; exact nnp_scalableSelfEq _ this
  · intro i hi
    have := h.cookware i hi
    cases hq : i.quantity with
    | none => trivial
    | some q => rw [hq] at this; exact nnp_scalableSelfEq _ this
  · intro i hi
    have := h.timers i hi
    cases hq : i.quantity with
    | none => trivial
    | some q => rw [hq] at this; exact nnp_scalableSelfEq _ this

/-- **no number of the recipe `parse` returns has a NaN value** -/
theorem nnp_parsed_selfEq (env : Env) (input : Str) (c : Col α)
    (h : (parseRecipe (α := α) env input).output = some c) : RecipeSelfEq scalableSelfEq c.toRecipe :=
  nnp_selfEq_of_parsedOK _ (nnp_toRecipe_parsedOK c (nnc_parseRecipe_numOK env input c h))

/-- `default_scale` copies the values -/
theorem nnp_defaultScale_selfEq (r : ScalableRecipe α) (h : RecipeSelfEq scalableSelfEq r) :
    RecipeSelfEq valueSelfEq (recipeDefaultScale r) := by
  have hv : ∀ v : ScalableValue α, scalableSelfEq v → valueSelfEq v.defaultScale := by
    intro v hv; cases v <;> exact hv
  refine ⟨?_, ?_, ?_, h.inlineQuantities⟩
  · intro i hi
    simp only [recipeDefaultScale, List.mem_map] at hi
    obtain ⟨j, hj, rfl⟩ := hi
    have := h.ingredients j hj
    cases hq : j.quantity with
    | none => trivial
    | some q => rw [hq] at this; exact hv _ this
  · intro i hi
    simp only [recipeDefaultScale, List.mem_map] at hi
    obtain ⟨j, hj, rfl⟩ := hi
    have := h.cookware j hj
    cases hq : j.quantity with
    | none => trivial
    | some q => rw [hq] at this; exact hv _ this
  · intro i hi
    simp only [recipeDefaultScale, List.mem_map] at hi
    obtain ⟨j, hj, rfl⟩ := hi
    have := h.timers j hj
    cases hq : j.quantity with
    | none => trivial
    | some q => rw [hq] at this; exact hv _ this

/-- over ℚ the IEEE facts are theorems -/
instance nnp_ieeeHypC_rat : IeeeHypC Rat :=
  ⟨fi_ieeeHyp_rat, by intros; simp [notNaN, Arith.eq]⟩

end Cook
