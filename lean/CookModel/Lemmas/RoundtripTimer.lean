import CookModel.Lemmas.RoundtripComp
import CookModel.Print.PrinterMore
/-
  C01, component layer continued: the timer parser reads back what `spellTimer` writes.
  (`rtt_` prefix.)
-/
set_option linter.unusedSectionVars false
set_option linter.unusedSimpArgs false
set_option linter.unusedVariables false
namespace Cook

variable {α : Type} [Arith α]

/-! ### a text made of blank tokens only is empty -/

theorem rtt_trim_all_uws {cs : CharSpec} {s : List Char} (h : ∀ c ∈ s, cs.uws c = true) : trim cs.uws s = [] := by
  unfold trim trimEnd trimStart
  have : s.dropWhile cs.uws = [] := by
    induction s with
    | nil => rfl
    | cons c r ih =>
      rw [List.dropWhile_cons, h c (by simp)]
      exact ih (fun x hx => h x (by simp [hx]))
  rw [this]; rfl

/-- all stored fragments and the pending characters are blank -/
def PadAcc (cs : CharSpec) (a : TextAcc) : Prop :=
  (∀ f ∈ a.t.frags, ∀ c ∈ f.text, cs.uws c = true) ∧ ∀ c ∈ a.cur, cs.uws c = true

theorem rtt_appendStr_pad {cs : CharSpec} (t : Text) (s : List Char) (off : Nat)
    (ht : ∀ f ∈ t.frags, ∀ c ∈ f.text, cs.uws c = true) (hs : ∀ c ∈ s, cs.uws c = true) :
    ∀ f ∈ (t.appendStr s off).frags, ∀ c ∈ f.text, cs.uws c = true := by
  unfold Text.appendStr
  rw [appendFrag_frags]
  intro f hf
  rcases List.mem_append.mp hf with hf | hf
  · exact ht f hf
  · split at hf
    · simp at hf
    · simp only [List.mem_singleton] at hf; subst hf; exact hs

theorem rtt_textStep_pad {cs : CharSpec} (a : TextAcc) (tok : Tok) (h : PadAcc cs a) (hp : padTok cs tok = true) :
    PadAcc cs (textStep a tok) := by
  unfold padTok at hp
  simp only [Bool.or_eq_true, Bool.and_eq_true, beq_iff_eq, List.all_eq_true] at hp
  unfold textStep
  rcases hp with ⟨hk, hall⟩ | hk
  · rw [hk]
    refine ⟨h.1, ?_⟩
    intro c hc
    rcases List.mem_append.mp hc with hc | hc
    · exact h.2 c hc
    · exact hall c hc
  · rw [hk]
    exact ⟨rtt_appendStr_pad a.t a.cur a.start h.1 h.2, by intro c hc; simp at hc⟩

theorem rtt_foldl_pad {cs : CharSpec} (ts : List Tok) (a : TextAcc) (h : PadAcc cs a) (hp : padOK cs ts = true) :
    PadAcc cs (ts.foldl textStep a) := by
  induction ts generalizing a with
  | nil => exact h
  | cons t r ih =>
    unfold padOK at hp
    simp only [List.all_cons, Bool.and_eq_true] at hp
    rw [List.foldl_cons]
    exact ih _ (rtt_textStep_pad a t h hp.1) hp.2

/-- the text assembled from blank tokens only (whitespace, block comments) is an empty text -/
theorem rtt_buildText_pad_empty {cs : CharSpec} (off : Nat) (ts : List Tok) (hp : padOK cs ts = true) :
    (buildText off ts).isTextEmpty cs = true := by
  have key : ∀ t : Text, (∀ f ∈ t.frags, ∀ c ∈ f.text, cs.uws c = true) → t.isTextEmpty cs = true := by
    intro t ht
    unfold Text.isTextEmpty
    rw [List.all_eq_true]
    intro f hf
    rw [rtt_trim_all_uws (ht f hf)]; rfl
  unfold buildText
  cases ts with
  | nil => exact key _ (by intro f hf; simp [Text.empty] at hf)
  | cons t0 rest =>
    simp only
    have hacc := rtt_foldl_pad (cs := cs) (t0 :: rest) ⟨Text.empty off, t0.start, []⟩
      ⟨by intro f hf; simp [Text.empty] at hf, by intro c hc; simp at hc⟩ hp
    have hfr := rtt_appendStr_pad (cs := cs) _ _ ((t0 :: rest).foldl textStep ⟨Text.empty off, t0.start, []⟩).start
      hacc.1 hacc.2
    split
    · exact key _ hfr
    · exact key _ hfr

/-! ### the timer -/

theorem checkNoteTimer_skip (s : BP α) (A R : List Tok) (ht : s.toks = A ++ R) (hc : s.cur = A.length)
    (hR : ∀ t, R.head? = some t → t.kind ≠ .openParen) : checkNoteTimer s = ((), s) := by
  unfold checkNoteTimer
  simp only [withRecover_run, bind, StateT.bind, consumeK_split_none .openParen s A R ht hc hR, pure, StateT.pure,
    Option.isNone_none, if_true]

/-- the parsed timer is the intended one: the name trims to the intended string (no name: none),
    the quantity as in the quantity layer -/
def TimerMatches (cs : CharSpec) (c : ATimer) (t : PTimer α) : Prop :=
  t.name.map (fun x => x.trimmed cs) = c.name.map leafText ∧ QtyMatches cs c.qty t.quantity

theorem rtt_timer_decomp {c : ATimer} {p : CPad} {ts : List Tok} (hs : Spells ts (spellTimer c p)) :
    ∃ tm nm n1 tob Q tcb,
      ts = tm :: (nm ++ n1 ++ tob :: (Q ++ [tcb])) ∧ tm.kind = .tilde ∧
      Spells nm (spellOptLeaf c.name) ∧ Spells n1 p.n1 ∧
      tob.kind = .openBrace ∧ Spells Q (match c.qty with | some q => spellQty q p.q | none => p.e) ∧
      tcb.kind = .closeBrace := by
  simp only [spellTimer, spellBraces, List.append_assoc, List.cons_append, List.nil_append] at hs
  obtain ⟨tm, r, rfl, hmk, -, hs⟩ := hs.cons_inv
  obtain ⟨nm, r, rfl, hnm, hs⟩ := hs.append_inv
  obtain ⟨n1, r, rfl, hn1, hs⟩ := hs.append_inv
  obtain ⟨tob, r, rfl, hobk, -, hs⟩ := hs.cons_inv
  obtain ⟨Q, r, rfl, hQ, hs⟩ := hs.append_inv
  obtain ⟨tcb, rfl, hcbk, -⟩ := hs.single_inv
  exact ⟨tm, nm, n1, tob, Q, tcb, by simp, hmk, hnm, hn1, hobk, hQ, hcbk⟩

theorem rt_timerP (c : ATimer) (p : CPad) (s : BP α) (hwf : c.wf s.cs s.ext = true) (hp : p.ok s.cs = true)
    (A ts rest : List Tok) (hs : Spells ts (spellTimer c p)) (ht : s.toks = A ++ (ts ++ rest))
    (hc : s.cur = A.length) (hrest : noParenNext rest = true) (hrun : RunAt (baseOff s.toks) s.toks) :
    ∃ tmr : PTimer α,
      timerP s = (some (.timer ⟨tmr, ⟨offAt s.toks A.length, offAt s.toks (A.length + ts.length)⟩⟩),
        { s with cur := A.length + ts.length }) ∧ TimerMatches s.cs c tmr := by
  simp only [ATimer.wf, Bool.and_eq_true] at hwf
  obtain ⟨hname, hqty⟩ := hwf
  simp only [CPad.ok, Bool.and_eq_true] at hp
  obtain ⟨⟨⟨⟨hpn1, hpa0⟩, hpa1⟩, hpq⟩, hpe⟩ := hp
  obtain ⟨tm, nm, n1, tob, Q, tcb, rfl, htmk, hnm, hn1, hobk, hQ, hcbk⟩ := rtt_timer_decomp hs
  have hn1k := pad_kinds hpn1 hn1
  -- kinds of the name tokens
  have hnmk : ∀ t ∈ nm, nameKind t.kind = true ∨ t.kind = .ws := by
    intro t ht'
    cases hcn : c.name with
    | none => rw [hcn] at hnm; simp only [spellOptLeaf] at hnm; rw [hnm.nil_inv] at ht'; simp at ht'
    | some n =>
      rw [hcn] at hnm hname
      simp only [Bool.and_eq_true] at hname
      exact leaf_kinds hname.1.1 hnm t ht'
  have hNTk : ∀ t ∈ nm ++ n1, (t.kind == .openBrace || isMarker t.kind) = false ∧ t.kind ≠ .openParen := by
    intro t ht'
    rcases List.mem_append.mp ht' with ht' | ht'
    · rcases hnmk t ht' with h' | h'
      · exact ⟨(nameKind_excl (Or.inl h')).1, (nameKind_excl (Or.inl h')).2.1⟩
      · exact ⟨(nameKind_excl (Or.inr (Or.inl h'))).1, (nameKind_excl (Or.inr (Or.inl h'))).2.1⟩
    · exact ⟨(nameKind_excl (Or.inr (hn1k t ht'))).1, (nameKind_excl (Or.inr (hn1k t ht'))).2.1⟩
  -- the quantity tokens
  have hQfacts : (∀ t ∈ Q, t.kind ≠ .closeBrace) ∧ Q.any (fun t => !isPadK t) = c.qty.isSome := by
    cases hcq : c.qty with
    | none =>
      rw [hcq] at hQ
      have := pad_kinds hpe hQ
      refine ⟨fun t ht' => by rcases this t ht' with h' | h' <;> simp [h'], ?_⟩
      simp only [Option.isSome_none, List.any_eq_false]
      intro t ht'
      rcases this t ht' with h' | h' <;> simp [isPadK, h']
    | some q =>
      rw [hcq] at hQ hqty
      simp only [Bool.and_eq_true] at hqty
      have := rt_qty_kinds q p.q hqty.1.1 hpq Q hQ
      exact ⟨this.1, by simp [this.2]⟩
  have e1 : s.toks = A ++ tm :: ((nm ++ n1) ++ tob :: (Q ++ tcb :: rest)) := by rw [ht]; simp
  have h1 := consumeK_split_some .tilde s A tm _ e1 hc htmk
  -- the first token after `~` is not a modifier character
  have hhead : ∃ x R, (nm ++ n1) ++ tob :: (Q ++ tcb :: rest) = x :: R ∧
      (s.ext.has Gen.EXT_COMPONENT_MODIFIERS = true → modKind x.kind = false) ∧ x.kind ≠ .openParen := by
    cases hnmc : nm with
    | nil =>
      cases hn1c : n1 with
      | nil => exact ⟨tob, _, rfl, by intro _; rw [hobk]; rfl, by rw [hobk]; simp⟩
      | cons y ys =>
        refine ⟨y, _, rfl, ?_, ?_⟩
        · intro _; rcases hn1k y (by rw [hn1c]; simp) with h' | h' <;> rw [h'] <;> rfl
        · rcases hn1k y (by rw [hn1c]; simp) with h' | h' <;> rw [h'] <;> simp
    | cons y ys =>
      refine ⟨y, _, rfl, ?_, (hNTk y (by rw [hnmc]; simp)).2⟩
      intro hext
      cases hcn : c.name with
      | none => rw [hcn, hnmc] at hnm; simp only [spellOptLeaf] at hnm; exact absurd hnm.nil_inv (by simp)
      | some n =>
        rw [hcn, hnmc] at hnm
        rw [hcn] at hname
        simp only [spellOptLeaf] at hnm
        simp only [Bool.and_eq_true] at hname
        obtain ⟨u, ur, hu, hau⟩ := (leafOK_facts hname.1.1).head
        rw [hu] at hnm
        obtain ⟨hd, nmr, hnmeq, hhdk, -, -⟩ := hnm.cons_inv
        simp only [List.cons.injEq] at hnmeq
        have hmh := hname.1.2
        simp only [Ext.modifiers, hext, Bool.not_true, Bool.false_or, hu, List.head?_cons, Option.all_some] at hmh
        rw [hnmeq.1, hhdk]; simpa using hmh
  obtain ⟨x, R, hxR, hxmod, hxp⟩ := hhead
  have h2 : modifiersP ({ s with cur := A.length + 1 } : BP α) = ([], { s with cur := A.length + 1 }) := by
    by_cases hext : s.ext.has Gen.EXT_COMPONENT_MODIFIERS = true
    · have := modifiersP_on ({ s with cur := A.length + 1 } : BP α) hext (A ++ [tm]) [] x R
        (by rw [e1, hxR]; simp) (by simp) (by intro m hm; simp at hm) (hxmod hext) hxp
      rw [this]; simp
    · have hext' : s.ext.has Gen.EXT_COMPONENT_MODIFIERS = false := by simpa using hext
      exact modifiersP_off ({ s with cur := A.length + 1 } : BP α) hext'
  have h3 := compBody_run ({ s with cur := A.length + 1 } : BP α) (A ++ [tm])
    (nm ++ n1) tob Q tcb rest (by rw [e1]; simp) (by simp) (fun t ht' => (hNTk t ht').1) hobk hQfacts.1 hcbk
  have hlen : (A ++ [tm]).length + (nm ++ n1).length + 1 + Q.length + 1 =
      A.length + (tm :: (nm ++ n1 ++ tob :: (Q ++ [tcb]))).length := by lenarith
  rw [hlen] at h3
  -- no alias separator in the name
  have hnoOr : s.ext.has Gen.EXT_COMPONENT_ALIAS = true → (nm ++ n1).findIdx? (fun t => t.kind == .or) = none := by
    intro hext
    apply rt_findIdx_none
    intro t ht'
    rcases List.mem_append.mp ht' with ht' | ht'
    · cases hcn : c.name with
      | none => rw [hcn] at hnm; simp only [spellOptLeaf] at hnm; rw [hnm.nil_inv] at ht'; simp at ht'
      | some n =>
        rw [hcn] at hnm hname
        simp only [spellOptLeaf] at hnm
        simp only [Bool.and_eq_true] at hname
        obtain ⟨u', hu', hk', -⟩ := hnm.mem ht'
        have hno := hname.2
        simp only [Ext.alias, hext, Bool.not_true, Bool.false_or, List.all_eq_true, bne_iff_ne] at hno
        rw [hk']; simpa using hno u' hu'
    · rcases hn1k t ht' with h' | h' <;> simp [h']
  have h4 := checkNoteTimer_skip ({ s with cur := A.length + (tm :: (nm ++ n1 ++ tob :: (Q ++ [tcb]))).length } : BP α)
    (A ++ tm :: (nm ++ n1 ++ tob :: (Q ++ [tcb]))) rest (by rw [ht]; simp) (by simp)
    (by
      intro t ht'
      simp only [noParenNext, ht', Option.all_some, bne_iff_ne] at hrest
      simpa using hrest)
  -- the name
  have hrunName : RunAt (offAt s.toks (A.length + 1)) (nm ++ n1) := by
    have := rt_runAt_mid hrun (A ++ [tm]) (nm ++ n1) (tob :: (Q ++ tcb :: rest)) (by rw [e1]; simp)
    have e2 : (A ++ [tm]).length = A.length + 1 := by lenarith
    rwa [e2] at this
  have hrunQ : RunAt (baseOff Q) Q :=
    (rt_runAt_mid hrun (A ++ [tm] ++ (nm ++ n1) ++ [tob]) Q (tcb :: rest) (by rw [e1]; simp)).base
  have hnameR : (if (buildText (offAt s.toks (A.length + 1)) (nm ++ n1)).isTextEmpty s.cs then none
        else some (buildText (offAt s.toks (A.length + 1)) (nm ++ n1))).map (fun x => x.trimmed s.cs) =
      c.name.map leafText ∧
      ((buildText (offAt s.toks (A.length + 1)) (nm ++ n1)).isTextEmpty s.cs = c.name.isNone) := by
    cases hcn : c.name with
    | none =>
      rw [hcn] at hnm; simp only [spellOptLeaf] at hnm
      have := hnm.nil_inv; subst this
      have := rtt_buildText_pad_empty (cs := s.cs) (offAt s.toks (A.length + 1)) n1 (hn1.padOK_of hpn1)
      simp [this]
    | some n =>
      rw [hcn] at hnm hname
      simp only [spellOptLeaf] at hnm
      simp only [Bool.and_eq_true] at hname
      have := rt_leaf_text (cs := s.cs) (allowed := nameKind) (pre := []) (l := n) (post := p.n1)
        (ts := nm ++ n1) (by simpa using hnm.append hn1) rfl hpn1 hname.1.1 (offAt s.toks (A.length + 1))
      simp [this.1, this.2]
  obtain ⟨e, he⟩ : ∃ e, e = A.length + (tm :: (nm ++ n1 ++ tob :: (Q ++ [tcb]))).length := ⟨_, rfl⟩
  rw [← he] at h3 h4 ⊢
  unfold timerP
  rcases Bool.eq_false_or_eq_true (s.ext.has Gen.EXT_COMPONENT_ALIAS) with hal | hal
  all_goals
    simp only [bind, StateT.bind, currentOffset_run, h1, h2, h3, h4, List.isEmpty_nil, Bool.not_true,
      Bool.false_eq_true, if_false, if_true, hasExt_run, hal, hnoOr, bpText_run hrunName, get, getThe,
      MonadStateOf.get, StateT.get, pure, StateT.pure, hQfacts.2]
    cases hcq : c.qty with
    | none =>
      rw [hcq] at hqty
      simp only [Bool.and_eq_true, Bool.not_eq_true'] at hqty
      have hnn : c.name.isNone = false := by
        cases hcn : c.name with
        | none => rw [hcn] at hqty; simp at hqty
        | some n => rfl
      have hne := hnameR.2
      rw [hnn] at hne
      refine ⟨⟨some (buildText (offAt s.toks (A.length + 1)) (nm ++ n1)), none⟩, ?_, ?_, ?_⟩
      · simp [pure, bind, StateT.pure, StateT.bind, hqty.2, hne, hc]
      · have := hnameR.1
        rw [hne] at this
        simpa using this
      · rw [hcq]; trivial
    | some q =>
      rw [hcq] at hQ hqty
      simp only [Bool.and_eq_true, Bool.or_eq_true, Bool.not_eq_true'] at hqty
      obtain ⟨vspan, lspan, unitT, sep, hpq', hl, hunit, hsep⟩ := rt_parseQuantity q p.q
        ({ s with cur := e } : BP α) hqty.1.1 hpq
        (by intro hr; rcases hqty.2 with h | h; · rw [hr] at h; cases h
            · exact h)
        (by intro _; simp [AQty.advSafe, hqty.1.2])
        Q hQ hrunQ
      have hus : unitT ≠ none := by
        cases hu : q.unit with
        | none => rw [hu] at hqty; simp at hqty
        | some u => rw [hu] at hunit; cases unitT <;> simp_all
      refine ⟨⟨if (buildText (offAt s.toks (A.length + 1)) (nm ++ n1)).isTextEmpty s.cs then none
          else some (buildText (offAt s.toks (A.length + 1)) (nm ++ n1)),
        some ⟨⟨⟨⟨q.val.denote, vspan⟩, lspan⟩, unitT⟩, tokensSpan Q⟩⟩, ?_, hnameR.1, ?_⟩
      · simp [pure, bind, StateT.pure, StateT.bind, hpq', hus, hc]
      · rw [hcq]
        exact ⟨rfl, hl, hunit⟩

end Cook
