import CookModel.Analysis.Collector
/-
  The metadata part of the collector state is touched only by `Metadata` and front matter events,
  and what a `Metadata` event does to it depends only on that part.  (For C14.)
-/
set_option linter.unusedSectionVars false
set_option linter.tactic.unusedName false
namespace Cook
variable {α : Type} [Arith α]

/-- the metadata part of the collector state -/
structure MS where
  metaMap : List (Str × Str)
  frontMatter : Option Text
  metaLocs : List (StdKey × Span)
  servings : Option (List Nat)
  oldStyle : Bool
  oldStyleUsed : List Span

def Col.ms (s : Col α) : MS := ⟨s.metaMap, s.frontMatter, s.metaLocs, s.servings, s.oldStyle, s.oldStyleUsed⟩

/-- started in a state whose metadata part is `m`, `f` ends in such a state -/
structure PF {β : Type} (m : MS) (f : A α β) : Prop where
  run : ∀ s, s.ms = m → (f s).2.ms = m

theorem PF.pure {β : Type} {m : MS} (a : β) : PF (α := α) m (pure a) := ⟨fun _ h => h⟩

theorem PF.bind {β γ : Type} {m : MS} {f : A α β} {g : β → A α γ}
    (hf : PF m f) (hg : ∀ a, PF m (g a)) : PF m (f >>= g) :=
  ⟨fun s h => (hg (f s).1).run (f s).2 (hf.run s h)⟩

theorem PF.get_bind {γ : Type} {m : MS} {g : Col α → A α γ}
    (hg : ∀ s0 : Col α, s0.ms = m → PF m (g s0)) : PF m ((get : A α (Col α)) >>= g) :=
  ⟨fun s h => (hg s h).run s h⟩

theorem PF.set {m : MS} (x : Col α) (h : x.ms = m) : PF (α := α) m (set x : A α PUnit) := ⟨fun _ _ => h⟩

theorem PF.modify {m : MS} (k : Col α → Col α) (h : ∀ s, (k s).ms = s.ms) :
    PF (α := α) m (modify k : A α PUnit) := ⟨fun s hs => (h s).trans hs⟩

syntax "pf_leaf" : tactic
macro_rules | `(tactic| pf_leaf) => `(tactic| with_reducible exact PF.pure _)
macro_rules | `(tactic| pf_leaf) => `(tactic| assumption)
macro_rules | `(tactic| pf_leaf) => `(tactic| (with_reducible apply PF.set) <;> assumption)
macro_rules | `(tactic| pf_leaf) => `(tactic| (with_reducible apply PF.modify) <;> (intro s; rfl))

syntax "pf" : tactic
macro_rules | `(tactic| pf) => `(tactic| repeat' (first
  | intro _
  | pf_leaf
  | with_reducible apply_assumption (maxDepth := 1) -exfalso -symm
  | (extract_lets +onlyGivenNames x
     first
       | (have hjp : ∀ r, PF ‹MS› (x r) := by (intro r; unfold x; pf))
       | (have hjp : ∀ r r', PF ‹MS› (x r r') := by (intro r r'; unfold x; pf))
       | skip
     try clear_value x)
  | dsimp -zeta only
  | with_reducible apply PF.get_bind
  | with_reducible apply PF.bind
  | split))

theorem pf_apanic (m : MS) (site : String) : PF (α := α) m (apanic site) := by
  unfold apanic
  apply PF.modify
  intro s; split <;> rfl
macro_rules | `(tactic| pf_leaf) => `(tactic| with_reducible exact pf_apanic _ _)
theorem pf_aerr (m : MS) (k : String) (l : List Span) : PF (α := α) m (aerr k l) := by unfold aerr; pf
macro_rules | `(tactic| pf_leaf) => `(tactic| with_reducible exact pf_aerr _ _ _)
theorem pf_awarn (m : MS) (k : String) (l : List Span) : PF (α := α) m (awarn k l) := by unfold awarn; pf
macro_rules | `(tactic| pf_leaf) => `(tactic| with_reducible exact pf_awarn _ _ _)

theorem pf_valueOf (m : MS) (env : Env) (v : PQValue α) (b : Bool) : PF (α := α) m (valueOf env v b) := by
  unfold valueOf; pf
macro_rules | `(tactic| pf_leaf) => `(tactic| with_reducible exact pf_valueOf _ _ _ _)
theorem pf_quantityOf (m : MS) (env : Env) (q : Loc (PQuantity α)) (b : Bool) : PF (α := α) m (quantityOf env q b) := by
  unfold quantityOf; pf
macro_rules | `(tactic| pf_leaf) => `(tactic| with_reducible exact pf_quantityOf _ _ _ _)
theorem pf_resolveReference (m : MS) (env : Env) (c : String) (inh : Nat) (ex : List (Str × Modifiers)) (n : Str)
    (mods : Modifiers) (l ml : Span) : PF (α := α) m (resolveReference (α := α) env c inh ex n mods l ml) := by
  unfold resolveReference; pf
macro_rules | `(tactic| pf_leaf) => `(tactic| with_reducible exact pf_resolveReference _ _ _ _ _ _ _ _ _)
theorem pf_resolveInterRef (m : MS) (d : Loc InterData) : PF (α := α) m (resolveInterRef (α := α) d) := by
  unfold resolveInterRef; pf
macro_rules | `(tactic| pf_leaf) => `(tactic| with_reducible exact pf_resolveInterRef _ _)
theorem pf_noteReferenceError (m : MS) (i : Str) (a b : Span) (c : Option Span) :
    PF (α := α) m (noteReferenceError (α := α) i a b c) := by
  unfold noteReferenceError; pf
macro_rules | `(tactic| pf_leaf) => `(tactic| with_reducible exact pf_noteReferenceError _ _ _ _ _)

theorem PF.forIn {β γ : Type} {m : MS} (l : List γ) (init : β) (body : γ → β → A α (ForInStep β))
    (h : ∀ a b, PF m (body a b)) : PF m (forIn l init body) := by
  induction l generalizing init with
  | nil => simp only [List.forIn_nil]; exact PF.pure _
  | cons a l ih =>
    simp only [List.forIn_cons]
    apply PF.bind (h a init)
    intro r
    split
    · exact PF.pure _
    · exact ih _
macro_rules | `(tactic| pf_leaf) => `(tactic| with_reducible apply PF.forIn)

theorem pf_optQuantityOf (m : MS) (env : Env) (q : Option (Loc (PQuantity α))) (b : Bool) : PF (α := α) m (optQuantityOf (α := α) env q b) := by
  unfold optQuantityOf; pf
macro_rules | `(tactic| pf_leaf) => `(tactic| with_reducible exact pf_optQuantityOf _ _ _ _)
theorem pf_optValueOf (m : MS) (env : Env) (q : Option (Loc (PQValue α))) : PF (α := α) m (optValueOf (α := α) env q) := by
  unfold optValueOf; pf
macro_rules | `(tactic| pf_leaf) => `(tactic| with_reducible exact pf_optValueOf _ _ _)
theorem pf_ingrInterChecks (m : MS) (i : PIngredient α) (igr : Ingredient (ScalableValue α)) : PF (α := α) m (ingrInterChecks (α := α) i igr) := by
  unfold ingrInterChecks; pf
macro_rules | `(tactic| pf_leaf) => `(tactic| with_reducible exact pf_ingrInterChecks _ _ _)
theorem pf_ingrInter (m : MS) (i : PIngredient α) (igr : Ingredient (ScalableValue α)) (d : Loc InterData) : PF (α := α) m (ingrInter (α := α) i igr d) := by
  unfold ingrInter; pf
macro_rules | `(tactic| pf_leaf) => `(tactic| with_reducible exact pf_ingrInter _ _ _ _)
theorem pf_ingrUnitChecks (m : MS) (env : Env) (i : PIngredient α) (newQ : Quantity (ScalableValue α)) (idxs : List Nat) : PF (α := α) m (ingrUnitChecks (α := α) env i newQ idxs) := by
  unfold ingrUnitChecks; pf
macro_rules | `(tactic| pf_leaf) => `(tactic| with_reducible exact pf_ingrUnitChecks _ _ _ _ _)
theorem pf_ingrRefChecks (m : MS) (env : Env) (input : Str) (li : Loc (PIngredient α)) (igr : Ingredient (ScalableValue α)) (refTo : Nat) (defn : Ingredient (ScalableValue α)) (defLoc : Loc (PIngredient α)) : PF (α := α) m (ingrRefChecks (α := α) env input li igr refTo defn defLoc) := by
  unfold ingrRefChecks; pf
macro_rules | `(tactic| pf_leaf) => `(tactic| with_reducible exact pf_ingrRefChecks _ _ _ _ _ _ _ _)
theorem pf_ingrSetReferencedFrom (m : MS) (refTo newIndex : Nat) (defn : Ingredient (ScalableValue α)) : PF (α := α) m (ingrSetReferencedFrom (α := α) refTo newIndex defn) := by
  unfold ingrSetReferencedFrom; pf
macro_rules | `(tactic| pf_leaf) => `(tactic| with_reducible exact pf_ingrSetReferencedFrom _ _ _ _)
theorem pf_ingrRegular (m : MS) (env : Env) (input : Str) (li : Loc (PIngredient α)) (igr0 : Ingredient (ScalableValue α)) : PF (α := α) m (ingrRegular (α := α) env input li igr0) := by
  unfold ingrRegular; pf
macro_rules | `(tactic| pf_leaf) => `(tactic| with_reducible exact pf_ingrRegular _ _ _ _ _)
theorem pf_ingrBuild (m : MS) (env : Env) (input : Str) (li : Loc (PIngredient α)) (igr0 : Ingredient (ScalableValue α)) : PF (α := α) m (ingrBuild (α := α) env input li igr0) := by
  unfold ingrBuild; pf
macro_rules | `(tactic| pf_leaf) => `(tactic| with_reducible exact pf_ingrBuild _ _ _ _ _)
theorem pf_cwRefChecks (m : MS) (input : Str) (lc : Loc (PCookware α)) (cw : Cookware (ScalableValue α)) (defn : Cookware (ScalableValue α)) (defLoc : Loc (PCookware α)) : PF (α := α) m (cwRefChecks (α := α) input lc cw defn defLoc) := by
  unfold cwRefChecks; pf
macro_rules | `(tactic| pf_leaf) => `(tactic| with_reducible exact pf_cwRefChecks _ _ _ _ _ _)
theorem pf_cwSetReferencedFrom (m : MS) (refTo newIndex : Nat) (defn : Cookware (ScalableValue α)) : PF (α := α) m (cwSetReferencedFrom (α := α) refTo newIndex defn) := by
  unfold cwSetReferencedFrom; pf
macro_rules | `(tactic| pf_leaf) => `(tactic| with_reducible exact pf_cwSetReferencedFrom _ _ _ _)
theorem pf_cwResolve (m : MS) (env : Env) (input : Str) (lc : Loc (PCookware α)) (cw0 : Cookware (ScalableValue α)) : PF (α := α) m (cwResolve (α := α) env input lc cw0) := by
  unfold cwResolve; pf
macro_rules | `(tactic| pf_leaf) => `(tactic| with_reducible exact pf_cwResolve _ _ _ _ _)
theorem pf_cwBuild (m : MS) (env : Env) (input : Str) (lc : Loc (PCookware α)) (cw0 : Cookware (ScalableValue α)) : PF (α := α) m (cwBuild (α := α) env input lc cw0) := by
  unfold cwBuild; pf
macro_rules | `(tactic| pf_leaf) => `(tactic| with_reducible exact pf_cwBuild _ _ _ _ _)
theorem pf_timerQuantityChecks (m : MS) (env : Env) (q : Loc (PQuantity α)) (r : Quantity (ScalableValue α)) : PF (α := α) m (timerQuantityChecks (α := α) env q r) := by
  unfold timerQuantityChecks; pf
macro_rules | `(tactic| pf_leaf) => `(tactic| with_reducible exact pf_timerQuantityChecks _ _ _ _)
theorem pf_timerQuantity (m : MS) (env : Env) (tq : Option (Loc (PQuantity α))) : PF (α := α) m (timerQuantity (α := α) env tq) := by
  unfold timerQuantity; pf
macro_rules | `(tactic| pf_leaf) => `(tactic| with_reducible exact pf_timerQuantity _ _ _)
theorem pf_ingredientA (m : MS) (env : Env) (input : Str) (li : Loc (PIngredient α)) :
    PF (α := α) m (ingredientA env input li) := by
  unfold ingredientA; pf
macro_rules | `(tactic| pf_leaf) => `(tactic| with_reducible exact pf_ingredientA _ _ _ _)
theorem pf_cookwareA (m : MS) (env : Env) (input : Str) (lc : Loc (PCookware α)) :
    PF (α := α) m (cookwareA env input lc) := by
  unfold cookwareA; pf
macro_rules | `(tactic| pf_leaf) => `(tactic| with_reducible exact pf_cookwareA _ _ _ _)
theorem pf_timerA (m : MS) (env : Env) (lt : Loc (PTimer α)) : PF (α := α) m (timerA env lt) := by
  unfold timerA; pf
macro_rules | `(tactic| pf_leaf) => `(tactic| with_reducible exact pf_timerA _ _ _)
theorem pf_inStepTextStep (m : MS) (env : Env) (t : Text) (items : List Item) : PF (α := α) m (inStepTextStep (α := α) env t items) := by
  unfold inStepTextStep; pf
macro_rules | `(tactic| pf_leaf) => `(tactic| with_reducible exact pf_inStepTextStep _ _ _ _)
theorem pf_inStepText (m : MS) (env : Env) (t : Text) : PF (α := α) m (inStepText (α := α) env t) := by
  unfold inStepText; pf
macro_rules | `(tactic| pf_leaf) => `(tactic| with_reducible exact pf_inStepText _ _ _)
theorem pf_pushItem (m : MS) (it : Item) : PF (α := α) m (pushItem (α := α) it) := by
  unfold pushItem; pf
macro_rules | `(tactic| pf_leaf) => `(tactic| with_reducible exact pf_pushItem _ _)
theorem pf_inStepComponent (m : MS) (env : Env) (input : Str) (ev : Ev α) : PF (α := α) m (inStepComponent (α := α) env input ev) := by
  unfold inStepComponent; pf
macro_rules | `(tactic| pf_leaf) => `(tactic| with_reducible exact pf_inStepComponent _ _ _ _)
theorem pf_inTextComponent (m : MS) (input : Str) (ev : Ev α) (buf : Str) : PF (α := α) m (inTextComponent (α := α) input ev buf) := by
  unfold inTextComponent; pf
macro_rules | `(tactic| pf_leaf) => `(tactic| with_reducible exact pf_inTextComponent _ _ _ _)
theorem pf_inBlockComponent (m : MS) (env : Env) (input : Str) (ev : Ev α) :
    PF (α := α) m (inBlockComponent env input ev) := by
  unfold inBlockComponent; pf
macro_rules | `(tactic| pf_leaf) => `(tactic| with_reducible exact pf_inBlockComponent _ _ _ _)
theorem pf_endBlockContent (m : MS) (kind : BlockKind) : PF (α := α) m (endBlockContent (α := α) kind) := by
  unfold endBlockContent; pf
macro_rules | `(tactic| pf_leaf) => `(tactic| with_reducible exact pf_endBlockContent _ _)
theorem pf_pushContent (m : MS) (c : Content) : PF (α := α) m (pushContent (α := α) c) := by
  unfold pushContent; pf
macro_rules | `(tactic| pf_leaf) => `(tactic| with_reducible exact pf_pushContent _ _)
theorem pf_endBlock (m : MS) (k : BlockKind) : PF (α := α) m (endBlock (α := α) k) := by
  unfold endBlock; pf
macro_rules | `(tactic| pf_leaf) => `(tactic| with_reducible exact pf_endBlock _ _)

/-! ### what a `Metadata` event does to the metadata part depends only on that part -/

structure SM {β : Type} (f f' : A α β) : Prop where
  run : ∀ s s', s.ms = s'.ms → (f s).1 = (f' s').1 ∧ (f s).2.ms = (f' s').2.ms

theorem SM.pure {β : Type} (a : β) : SM (α := α) (pure a) (pure a) := ⟨fun _ _ h => ⟨rfl, h⟩⟩

theorem SM.bind {β γ : Type} {f f' : A α β} {g g' : β → A α γ}
    (hf : SM f f') (hg : ∀ a, SM (g a) (g' a)) : SM (f >>= g) (f' >>= g') := by
  refine ⟨fun s s' h => ?_⟩
  have h1 := hf.run s s' h
  have h2 := (hg (f s).1).run (f s).2 (f' s').2 h1.2
  have e1 : (f >>= g) s = g (f s).1 (f s).2 := rfl
  have e2 : (f' >>= g') s' = g' (f' s').1 (f' s').2 := rfl
  rw [e1, e2, ← h1.1]
  exact h2

theorem SM.get_bind {γ : Type} {g g' : Col α → A α γ}
    (hg : ∀ s0 s0' : Col α, s0.ms = s0'.ms → SM (g s0) (g' s0')) :
    SM ((get : A α (Col α)) >>= g) ((get : A α (Col α)) >>= g') :=
  ⟨fun s s' h => (hg s s' h).run s s' h⟩

theorem SM.set (x x' : Col α) (h : x.ms = x'.ms) : SM (α := α) (set x : A α PUnit) (set x') :=
  ⟨fun _ _ _ => ⟨rfl, h⟩⟩

theorem SM.modify (k : Col α → Col α) (h : ∀ s s', s.ms = s'.ms → (k s).ms = (k s').ms) :
    SM (α := α) (modify k : A α PUnit) (modify k) := ⟨fun s s' hs => ⟨rfl, h s s' hs⟩⟩

theorem sm_modify_pres (k : Col α → Col α) (h : ∀ s, (k s).ms = s.ms) :
    SM (α := α) (modify k : A α PUnit) (modify k) :=
  SM.modify k (fun s s' hs => by rw [h, h]; exact hs)

theorem ms_eq {s s' : Col α} (h : s.ms = s'.ms) :
    s.metaMap = s'.metaMap ∧ s.frontMatter = s'.frontMatter ∧ s.metaLocs = s'.metaLocs ∧
    s.servings = s'.servings ∧ s.oldStyle = s'.oldStyle ∧ s.oldStyleUsed = s'.oldStyleUsed :=
  ⟨congrArg MS.metaMap h, congrArg MS.frontMatter h, congrArg MS.metaLocs h, congrArg MS.servings h,
   congrArg MS.oldStyle h, congrArg MS.oldStyleUsed h⟩

macro "ms_tac" : tactic => `(tactic| (
  intro s s' h
  obtain ⟨h1, h2, h3, h4, h5, h6⟩ := ms_eq h
  simp only [Col.ms, h1, h2, h3, h4, h5, h6]))

theorem sm_apanic (site : String) : SM (α := α) (apanic site) (apanic site) := by
  unfold apanic
  apply sm_modify_pres
  intro s; split <;> rfl
theorem sm_aerr (k : String) (l : List Span) : SM (α := α) (aerr k l) (aerr k l) := by
  unfold aerr; exact sm_modify_pres _ (fun _ => rfl)
theorem sm_awarn (k : String) (l : List Span) : SM (α := α) (awarn k l) (awarn k l) := by
  unfold awarn; exact sm_modify_pres _ (fun _ => rfl)

syntax "smc_leaf" : tactic
macro_rules | `(tactic| smc_leaf) => `(tactic| with_reducible exact SM.pure _)
macro_rules | `(tactic| smc_leaf) => `(tactic| with_reducible exact sm_apanic _)
macro_rules | `(tactic| smc_leaf) => `(tactic| with_reducible exact sm_aerr _ _)
macro_rules | `(tactic| smc_leaf) => `(tactic| with_reducible exact sm_awarn _ _)
macro_rules | `(tactic| smc_leaf) => `(tactic| (with_reducible apply SM.modify) <;> ms_tac)
macro_rules | `(tactic| smc_leaf) => `(tactic| (with_reducible apply SM.set) <;> (simp only [Col.ms, *]))

syntax "smt" : tactic
macro_rules | `(tactic| smt) => `(tactic| repeat' (first
  | intro _
  | smc_leaf
  | dsimp only
  | (with_reducible apply SM.get_bind
     intro s0 s0' h
     obtain ⟨h1, h2, h3, h4, h5, h6⟩ := ms_eq h
     try simp only [h3, h5])
  | with_reducible apply SM.bind
  | split))

theorem sm_timeOverrideCheck (k : StdKey) : SM (α := α) (timeOverrideCheck (α := α) k) (timeOverrideCheck k) := by
  unfold timeOverrideCheck; smt
macro_rules | `(tactic| smc_leaf) => `(tactic| with_reducible exact sm_timeOverrideCheck _)

theorem sm_metadataA (env : Env) (k v : Text) : SM (α := α) (metadataA (α := α) env k v) (metadataA env k v) := by
  unfold metadataA; smt


end Cook
