import CookModel.Analysis.Collector
/-
  The metadata part of the collector state is touched only by `Metadata` and front matter events,
  and what a `Metadata` event does to it depends only on that part.  (For C14.)
-/
set_option linter.unusedSectionVars false
namespace Cook
variable {α : Type} [Arith α]

/-- the metadata part of the collector state -/
structure MS where
  metaMap : List (Str × Str)
  frontMatter : Option Text
  metaLocs : List (StdKey × Span)
  servings : Option (List Nat)
  oldStyle : Bool
  oldStyleUsed : List Span

def Col.ms (s : Col α) : MS := ⟨s.metaMap, s.frontMatter, s.metaLocs, s.servings, s.oldStyle, s.oldStyleUsed⟩

/-- started in a state whose metadata part is `m`, `f` ends in such a state -/
structure PF {β : Type} (m : MS) (f : A α β) : Prop where
  run : ∀ s, s.ms = m → (f s).2.ms = m

theorem PF.pure {β : Type} {m : MS} (a : β) : PF (α := α) m (pure a) := ⟨fun _ h => h⟩

theorem PF.bind {β γ : Type} {m : MS} {f : A α β} {g : β → A α γ}
    (hf : PF m f) (hg : ∀ a, PF m (g a)) : PF m (f >>= g) :=
  ⟨fun s h => (hg (f s).1).run (f s).2 (hf.run s h)⟩

theorem PF.get_bind {γ : Type} {m : MS} {g : Col α → A α γ}
    (hg : ∀ s0 : Col α, s0.ms = m → PF m (g s0)) : PF m ((get : A α (Col α)) >>= g) :=
  ⟨fun s h => (hg s h).run s h⟩

theorem PF.set {m : MS} (x : Col α) (h : x.ms = m) : PF (α := α) m (set x : A α PUnit) := ⟨fun _ _ => h⟩

theorem PF.modify {m : MS} (k : Col α → Col α) (h : ∀ s, (k s).ms = s.ms) :
    PF (α := α) m (modify k : A α PUnit) := ⟨fun s hs => (h s).trans hs⟩

syntax "pf_leaf" : tactic
macro_rules | `(tactic| pf_leaf) => `(tactic| with_reducible exact PF.pure _)
macro_rules | `(tactic| pf_leaf) => `(tactic| assumption)
macro_rules | `(tactic| pf_leaf) => `(tactic| (with_reducible apply PF.set) <;> assumption)
macro_rules | `(tactic| pf_leaf) => `(tactic| (with_reducible apply PF.modify) <;> (intro s; rfl))

macro "pf" : tactic => `(tactic| repeat' (first
  | intro _
  | pf_leaf
  | dsimp only
  | with_reducible apply PF.get_bind
  | with_reducible apply PF.bind
  | split))

theorem pf_apanic (m : MS) (site : String) : PF (α := α) m (apanic site) := by
  unfold apanic
  apply PF.modify
  intro s; split <;> rfl
macro_rules | `(tactic| pf_leaf) => `(tactic| with_reducible exact pf_apanic _ _)
theorem pf_aerr (m : MS) (k : String) (l : List Span) : PF (α := α) m (aerr k l) := by unfold aerr; pf
macro_rules | `(tactic| pf_leaf) => `(tactic| with_reducible exact pf_aerr _ _ _)
theorem pf_awarn (m : MS) (k : String) (l : List Span) : PF (α := α) m (awarn k l) := by unfold awarn; pf
macro_rules | `(tactic| pf_leaf) => `(tactic| with_reducible exact pf_awarn _ _ _)

theorem pf_valueOf (m : MS) (env : Env) (v : PQValue α) (b : Bool) : PF (α := α) m (valueOf env v b) := by
  unfold valueOf; pf
macro_rules | `(tactic| pf_leaf) => `(tactic| with_reducible exact pf_valueOf _ _ _ _)
theorem pf_quantityOf (m : MS) (env : Env) (q : Loc (PQuantity α)) (b : Bool) : PF (α := α) m (quantityOf env q b) := by
  unfold quantityOf; pf
macro_rules | `(tactic| pf_leaf) => `(tactic| with_reducible exact pf_quantityOf _ _ _ _)
theorem pf_resolveReference (m : MS) (env : Env) (c : String) (inh : Nat) (ex : List (Str × Modifiers)) (n : Str)
    (mods : Modifiers) (l ml : Span) : PF (α := α) m (resolveReference (α := α) env c inh ex n mods l ml) := by
  unfold resolveReference; pf
macro_rules | `(tactic| pf_leaf) => `(tactic| with_reducible exact pf_resolveReference _ _ _ _ _ _ _ _ _)
theorem pf_resolveInterRef (m : MS) (d : Loc InterData) : PF (α := α) m (resolveInterRef (α := α) d) := by
  unfold resolveInterRef; pf
macro_rules | `(tactic| pf_leaf) => `(tactic| with_reducible exact pf_resolveInterRef _ _)
theorem pf_noteReferenceError (m : MS) (i : Str) (a b : Span) (c : Option Span) :
    PF (α := α) m (noteReferenceError (α := α) i a b c) := by
  unfold noteReferenceError; pf
macro_rules | `(tactic| pf_leaf) => `(tactic| with_reducible exact pf_noteReferenceError _ _ _ _ _)

theorem PF.forIn {β γ : Type} {m : MS} (l : List γ) (init : β) (body : γ → β → A α (ForInStep β))
    (h : ∀ a b, PF m (body a b)) : PF m (forIn l init body) := by
  induction l generalizing init with
  | nil => simp only [List.forIn_nil]; exact PF.pure _
  | cons a l ih =>
    simp only [List.forIn_cons]
    apply PF.bind (h a init)
    intro r
    split
    · exact PF.pure _
    · exact ih _
macro_rules | `(tactic| pf_leaf) => `(tactic| with_reducible apply PF.forIn)


end Cook
