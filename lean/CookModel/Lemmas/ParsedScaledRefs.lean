import CookModel.Lemmas.ParsedScaled
import CookModel.Lemmas.IngList
/-
  Second half of the link parser → consumers (see Lemmas/ParsedScaled.lean): the reference tables of
  every parsed and scaled recipe satisfy `RefsConsistent`, the hypothesis of the C10 theorems.
  (Separate file: `Cook.GroupedQuantity` / `Cook.IngredientList` of the grouping model must not be in
  scope of Props/C19.lean, which has its own `Ffi.` types of these names.)
-/
namespace Cook
open Arith

/-! ### `RefsConsistent` depends on the relations only -/

theorem parsed_rel_at {V W : Type} {l : List (Ingredient V)} {l' : List (Ingredient W)}
    (h : l'.map (·.relation) = l.map (·.relation)) (k : Nat) :
    (l'[k]?).map (·.relation) = (l[k]?).map (·.relation) := by
  have := congrArg (fun x => x[k]?) h
  simpa [List.getElem?_map] using this

theorem parsed_refsConsistent_of_rels {all : List (Ingredient (Value Rat))} {src : List (Ingredient (ScalableValue Rat))}
    (hrel : all.map (·.relation) = src.map (·.relation))
    (pointsBack : ∀ (d : Nat) (i : Ingredient (ScalableValue Rat)), src[d]? = some i →
      ∀ j ∈ i.relation.relation.referencedFrom,
        ∃ ij, src[j]? = some ij ∧ ij.relation = ⟨.reference d, some .ingredient⟩)
    (registered : ∀ (j : Nat) (ij : Ingredient (ScalableValue Rat)) (d : Nat), src[j]? = some ij →
      ij.relation = ⟨.reference d, some .ingredient⟩ →
      ∃ i, src[d]? = some i ∧ i.relation.isDefinition = true ∧ j ∈ i.relation.relation.referencedFrom)
    (nodup : ∀ (d : Nat) (i : Ingredient (ScalableValue Rat)), src[d]? = some i →
      i.relation.relation.referencedFrom.Nodup) : RefsConsistent all := by
  -- transport an entry of `all` to the entry of `src` with the same relation, and back
  have toSrc : ∀ (k : Nat) (i : Ingredient (Value Rat)), all[k]? = some i →
      ∃ s : Ingredient (ScalableValue Rat), src[k]? = some s ∧ s.relation = i.relation := by
    intro k i hk
    have := parsed_rel_at hrel k
    rw [hk] at this
    cases hs : src[k]? with
    | none => rw [hs] at this; cases this
    | some s => rw [hs] at this; exact ⟨s, rfl, by simpa using this.symm⟩
  have toAll : ∀ (k : Nat) (s : Ingredient (ScalableValue Rat)), src[k]? = some s →
      ∃ i : Ingredient (Value Rat), all[k]? = some i ∧ i.relation = s.relation := by
    intro k s hk
    have := parsed_rel_at hrel k
    rw [hk] at this
    cases hs : all[k]? with
    | none => rw [hs] at this; cases this
    | some i => rw [hs] at this; exact ⟨i, rfl, by simpa using this⟩
  refine ⟨?_, ?_, ?_⟩
  · intro d i hd j hj
    obtain ⟨s, hs, hsr⟩ := toSrc d i hd
    obtain ⟨sj, hsj, hsjr⟩ := pointsBack d s hs j (hsr ▸ hj)
    obtain ⟨ij, hij, hijr⟩ := toAll j sj hsj
    exact ⟨ij, hij, hijr.trans hsjr⟩
  · intro j ij d hj hr
    obtain ⟨sj, hsj, hsjr⟩ := toSrc j ij hj
    obtain ⟨s, hs, hsdef, hsmem⟩ := registered j sj d hsj (hsjr.trans hr)
    obtain ⟨i, hi, hir⟩ := toAll d s hs
    exact ⟨i, hi, by rw [hir]; exact hsdef, by rw [hir]; exact hsmem⟩
  · intro d i hd
    obtain ⟨s, hs, hsr⟩ := toSrc d i hd
    rw [← hsr]
    exact nodup d s hs

/-- every recipe obtained from the parser has consistent reference tables -/
theorem ParsedScaled.refsConsistent {r : ScaledRecipe Rat} (h : ParsedScaled r) :
    RefsConsistent r.ingredients := by
  obtain ⟨env, input, c, hc, hs⟩ := h.sameShape
  have hinv := C06_holds env input c hc
  have hback := (C06_backlinks_sound env input c hc).1
  have hnd := (C06_backlinks_no_duplicates env input c hc).1
  apply parsed_refsConsistent_of_rels (src := c.ingredients.toList) hs.ingredientRels
  · intro d i hd j hj
    rw [Array.getElem?_toList] at hd
    obtain ⟨_, ig, hig, hrel⟩ := hback d i hd j hj
    exact ⟨ig, by rw [Array.getElem?_toList]; exact hig, hrel⟩
  · intro j ij d hj hr
    rw [Array.getElem?_toList] at hj
    obtain ⟨_, dd, hdd, rf, b, hrf, hcount⟩ := hinv.2.1 j ij hj d hr
    refine ⟨dd, by rw [Array.getElem?_toList]; exact hdd, ?_, ?_⟩
    · simp [IngredientRelation.isDefinition, hrf, ComponentRelation.isReference]
    · rw [hrf]
      simp only [ComponentRelation.referencedFrom]
      exact List.count_pos_iff.mp (by omega)
  · intro d i hd
    rw [Array.getElem?_toList] at hd
    exact hnd d i hd

end Cook
