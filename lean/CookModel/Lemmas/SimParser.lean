import CookModel.Lemmas.SimText
import CookModel.Lemmas.ParserNoPanic
/-
  A relational Hoare layer for the block parser monad: the same parser run on two related token
  blocks (`LRel TokSim ts' ts`: same kinds, same texts except newlines/comments, any offsets) from
  related states produces related results and related event queues (`EvSim`: same constructors,
  texts with the same content, diagnostics of the same kind; source spans are NOT compared).

  `Rel m' m A` : from related states, the results of `m'` and `m` are related by `A` and the final
  states are related.  One lemma per primitive of `BlockParser`, then `metadata_entry`, `section`,
  text blocks, and steps WITHOUT component markers (`@ # ~`), then `parse_block`/`runBlock`.
-/
set_option linter.unusedSectionVars false
set_option linter.unusedVariables false
namespace Cook

variable {α : Type} [Arith α]

def OptRel {β γ : Type} (A : β → γ → Prop) : Option β → Option γ → Prop
  | none, none => True
  | some a, some b => A a b
  | _, _ => False

theorem OptRel.elim {β γ : Type} {A : β → γ → Prop} {a' : Option β} {a : Option γ} (h : OptRel A a' a) :
    (a' = none ∧ a = none) ∨ ∃ x' x, a' = some x' ∧ a = some x ∧ A x' x := by
  cases a' <;> cases a <;> simp [OptRel] at h ⊢
  exact h

theorem OptRel.none_none {β γ : Type} {A : β → γ → Prop} : OptRel A none none := trivial
theorem OptRel.some_some {β γ : Type} {A : β → γ → Prop} {x : β} {y : γ} (h : A x y) : OptRel A (some x) (some y) := h

theorem OptRel.isNone {β γ : Type} {A : β → γ → Prop} {a' : Option β} {a : Option γ} (h : OptRel A a' a) :
    a'.isNone = a.isNone := by
  rcases h.elim with ⟨rfl, rfl⟩ | ⟨_, _, rfl, rfl, _⟩ <;> rfl

/-- diagnostics of the same kind (labels are source spans: only their number is compared) -/
def DiagSim (d' d : Diag) : Prop :=
  d'.sev = d.sev ∧ d'.stage = d.stage ∧ d'.kind = d.kind ∧ d'.labels.length = d.labels.length

/-- located values with related contents (the span is not compared) -/
def LocSim {β : Type} (A : β → β → Prop) (l' l : Loc β) : Prop := A l'.val l.val

/-- quantity values: the same value (numbers are computed from the digits, text values are the
    trimmed text), a scaling lock on both sides or on neither -/
def PQValueSim (v' v : PQValue α) : Prop := v'.value.val = v.value.val ∧ v'.lock.isSome = v.lock.isSome

/-- quantities: related values, units with the same content -/
def PQuantitySim (uws : Char → Bool) (q' q : PQuantity α) : Prop :=
  PQValueSim q'.value q.value ∧ OptRel (TextSim uws) q'.unit q.unit

/-- ingredients with the same content: equal modifiers and intermediate-reference data, name,
    alias and note with the same content, related quantities -/
structure PIngredientSim (uws : Char → Bool) (i' i : PIngredient α) : Prop where
  modifiers : i'.modifiers.val = i.modifiers.val
  inter : OptRel (LocSim Eq) i'.inter i.inter
  name : TextSim uws i'.name i.name
  alias : OptRel (TextSim uws) i'.alias i.alias
  quantity : OptRel (LocSim (PQuantitySim uws)) i'.quantity i.quantity
  note : OptRel (TextSim uws) i'.note i.note

structure PCookwareSim (uws : Char → Bool) (c' c : PCookware α) : Prop where
  modifiers : c'.modifiers.val = c.modifiers.val
  name : TextSim uws c'.name c.name
  alias : OptRel (TextSim uws) c'.alias c.alias
  quantity : OptRel (LocSim PQValueSim) c'.quantity c.quantity
  note : OptRel (TextSim uws) c'.note c.note

structure PTimerSim (uws : Char → Bool) (t' t : PTimer α) : Prop where
  name : OptRel (TextSim uws) t'.name t.name
  quantity : OptRel (LocSim (PQuantitySim uws)) t'.quantity t.quantity

/-- the YAML text of a front-matter event and its CRLF conversion (the YAML parser is outside the
    model: the texts are related as source text, one fragment each, at any offsets) -/
def FmTextCrlf (t' t : Text) : Prop := ∃ y o' o, t' = Text.fromStr (crlf y) o' ∧ t = Text.fromStr y o

/-- events with the same rendered content: same constructor, texts with the same content
    (`TextSim`), diagnostics of the same kind, components with the same content
    (`PIngredientSim`, `PCookwareSim`, `PTimerSim`: equal modifiers, values and reference data,
    texts with the same content).  Source spans are never compared.  A front-matter event (never
    produced by the block parsers) is related to one with the same content or with the
    CRLF-converted YAML text (`FmTextCrlf`). -/
def EvSim (uws : Char → Bool) : Ev α → Ev α → Prop
  | .frontMatter t', .frontMatter t => TextSim uws t' t ∨ FmTextCrlf t' t
  | .ingredient i', .ingredient i => PIngredientSim uws i'.val i.val
  | .cookware c', .cookware c => PCookwareSim uws c'.val c.val
  | .timer t', .timer t => PTimerSim uws t'.val t.val
  | .metadata k' v', .metadata k v => TextSim uws k' k ∧ TextSim uws v' v
  | .«section» n', .«section» n => OptRel (TextSim uws) n' n
  | .start k', .start k => k' = k
  | .stop k', .stop k => k' = k
  | .text t', .text t => TextSim uws t' t
  | .error d', .error d => DiagSim d' d
  | .warning d', .warning d => DiagSim d' d
  | _, _ => False

theorem EvSim.mk_metadata {uws : Char → Bool} {k' v' k v : Text} (h1 : TextSim uws k' k) (h2 : TextSim uws v' v) :
    EvSim (α := α) uws (.metadata k' v') (.metadata k v) := by unfold EvSim; exact ⟨h1, h2⟩
theorem EvSim.mk_section {uws : Char → Bool} {n' n : Option Text} (h : OptRel (TextSim uws) n' n) :
    EvSim (α := α) uws (.«section» n') (.«section» n) := by unfold EvSim; exact h
theorem EvSim.mk_text {uws : Char → Bool} {t' t : Text} (h : TextSim uws t' t) :
    EvSim (α := α) uws (.text t') (.text t) := by unfold EvSim; exact h
theorem EvSim.mk_start {uws : Char → Bool} (k : BlockKind) : EvSim (α := α) uws (.start k) (.start k) := by
  unfold EvSim; rfl
theorem EvSim.mk_stop {uws : Char → Bool} (k : BlockKind) : EvSim (α := α) uws (.stop k) (.stop k) := by
  unfold EvSim; rfl
theorem EvSim.mk_ingredient {uws : Char → Bool} {i' i : Loc (PIngredient α)} (h : PIngredientSim uws i'.val i.val) :
    EvSim (α := α) uws (.ingredient i') (.ingredient i) := by unfold EvSim; exact h
theorem EvSim.mk_cookware {uws : Char → Bool} {c' c : Loc (PCookware α)} (h : PCookwareSim uws c'.val c.val) :
    EvSim (α := α) uws (.cookware c') (.cookware c) := by unfold EvSim; exact h
theorem EvSim.mk_timer {uws : Char → Bool} {t' t : Loc (PTimer α)} (h : PTimerSim uws t'.val t.val) :
    EvSim (α := α) uws (.timer t') (.timer t) := by unfold EvSim; exact h
theorem EvSim.mk_error {uws : Char → Bool} {d' d : Diag} (h : DiagSim d' d) :
    EvSim (α := α) uws (.error d') (.error d) := by unfold EvSim; exact h
theorem EvSim.mk_warning {uws : Char → Bool} {d' d : Diag} (h : DiagSim d' d) :
    EvSim (α := α) uws (.warning d') (.warning d) := by unfold EvSim; exact h

/-- related parser states: working on the blocks `ts'` / `ts`, same cursor, same extensions, the
    same character table `cs`, related event queues.  The panic flag is not compared. -/
structure SimS (cs : CharSpec) (ts' ts : List Tok) (s' s : BP α) : Prop where
  toks' : s'.toks = ts'
  toks : s.toks = ts
  cur : s'.cur = s.cur
  ext : s'.ext = s.ext
  csL : s'.cs = cs
  csR : s.cs = cs
  evs : LRel (EvSim cs.uws) s'.evs.toList s.evs.toList

/-- from related states, `m'` and `m` give results related by `A` and related final states -/
def Rel (cs : CharSpec) (ts' ts : List Tok) {β : Type} (m' m : P α β) (A : β → β → Prop) : Prop :=
  ∀ s' s : BP α, SimS cs ts' ts s' s → A (m' s').1 (m s).1 ∧ SimS cs ts' ts (m' s').2 (m s).2

section rel
variable {cs : CharSpec} {ts' ts : List Tok}

theorem SimS.setCur {s' s : BP α} (h : SimS cs ts' ts s' s) {c' c : Nat} (e : c' = c) :
    SimS cs ts' ts { s' with cur := c' } { s with cur := c } :=
  ⟨h.toks', h.toks, e, h.ext, h.csL, h.csR, h.evs⟩

theorem SimS.setPanic {s' s : BP α} (h : SimS cs ts' ts s' s) (p' p : Option String) :
    SimS cs ts' ts { s' with panic := p' } { s with panic := p } :=
  ⟨h.toks', h.toks, h.cur, h.ext, h.csL, h.csR, h.evs⟩

theorem SimS.push {s' s : BP α} (h : SimS cs ts' ts s' s) {ev' ev : Ev α} (he : EvSim cs.uws ev' ev) :
    SimS cs ts' ts { s' with evs := s'.evs.push ev' } { s with evs := s.evs.push ev } :=
  ⟨h.toks', h.toks, h.cur, h.ext, h.csL, h.csR, by
    simp only [Array.toList_push]; exact h.evs.append (.cons he .nil)⟩

theorem Rel.pure {β : Type} {a' a : β} {A : β → β → Prop} (h : A a' a) :
    Rel cs ts' ts (Pure.pure a' : P α β) (Pure.pure a) A := fun _ _ hs => ⟨h, hs⟩

theorem Rel.bind {β γ : Type} {m' m : P α β} {k' k : β → P α γ} {A : β → β → Prop} {B : γ → γ → Prop}
    (h1 : Rel cs ts' ts m' m A) (h2 : ∀ a' a, A a' a → Rel cs ts' ts (k' a') (k a) B) :
    Rel cs ts' ts (m' >>= k') (m >>= k) B := by
  intro s' s hs
  obtain ⟨ha, hs1⟩ := h1 s' s hs
  exact h2 _ _ ha _ _ hs1

theorem Rel.mono {β : Type} {m' m : P α β} {A B : β → β → Prop} (h : Rel cs ts' ts m' m A)
    (hab : ∀ a' a, A a' a → B a' a) : Rel cs ts' ts m' m B :=
  fun s' s hs => ⟨hab _ _ (h s' s hs).1, (h s' s hs).2⟩

theorem Rel.get : Rel cs ts' ts (get : P α (BP α)) get (SimS cs ts' ts) := fun _ _ hs => ⟨hs, hs⟩

theorem simS_panic_left {s' s : BP α} (h : SimS cs ts' ts s' s) (a : String) :
    SimS cs ts' ts (panicWith (α := α) a s').2 s := by
  show SimS cs ts' ts (if s'.panic.isNone then { s' with panic := some a } else s') s
  split
  · exact ⟨h.toks', h.toks, h.cur, h.ext, h.csL, h.csR, h.evs⟩
  · exact h

theorem simS_panic_right {s' s : BP α} (h : SimS cs ts' ts s' s) (b : String) :
    SimS cs ts' ts s' (panicWith (α := α) b s).2 := by
  show SimS cs ts' ts s' (if s.panic.isNone then { s with panic := some b } else s)
  split
  · exact ⟨h.toks', h.toks, h.cur, h.ext, h.csL, h.csR, h.evs⟩
  · exact h

theorem panicWith_rel (a b : String) : Rel cs ts' ts (panicWith (α := α) a) (panicWith b) (fun _ _ => True) :=
  fun _ _ hs => ⟨trivial, simS_panic_right (simS_panic_left hs a) b⟩

/-- `if c then panic`: whatever the conditions are, the related part of the state is untouched -/
theorem Rel.panicIf {c' c : Prop} [Decidable c'] [Decidable c] {a b : String} :
    Rel cs ts' ts (if c' then panicWith (α := α) a else Pure.pure ()) (if c then panicWith b else Pure.pure ())
      (fun _ _ => True) := by
  intro s' s hs
  refine ⟨trivial, ?_⟩
  split <;> split
  · exact simS_panic_right (simS_panic_left hs a) b
  · exact simS_panic_left hs a
  · exact simS_panic_right hs b
  · exact hs

/-- the shape the `do` notation gives to `if c then panic; rest` -/
theorem Rel.panicIfK {β : Type} {c' c : Prop} [Decidable c'] [Decidable c] {a b : String} {x' x : P α β}
    {B : β → β → Prop} (h : Rel cs ts' ts x' x B) :
    Rel cs ts' ts (if c' then panicWith (α := α) a >>= fun _ => x' else x')
      (if c then panicWith (α := α) b >>= fun _ => x else x) B := by
  intro s' s hs
  split <;> split
  · exact h _ _ (simS_panic_right (simS_panic_left hs a) b)
  · exact h _ _ (simS_panic_left hs a)
  · exact h _ _ (simS_panic_right hs b)
  · exact h _ _ hs

variable (hts : LRel TokSim ts' ts)
include hts

theorem peekK_rel : Rel cs ts' ts (peekK (α := α)) peekK
    (fun a' a => a' = a ∧ ∀ k, a = some k → ∃ t ∈ ts, t.kind = k) := by
  intro s' s hs
  refine ⟨?_, hs⟩
  show (s'.toks[s'.cur]?).map (·.kind) = (s.toks[s.cur]?).map (·.kind) ∧
    ∀ k, (s.toks[s.cur]?).map (·.kind) = some k → ∃ t ∈ ts, t.kind = k
  rw [hs.toks', hs.toks, hs.cur]
  rcases hts.getElem? s.cur with ⟨h1, h2⟩ | ⟨a, b, h1, h2, hr⟩
  · rw [h1, h2]; simp
  · rw [h1, h2]
    refine ⟨by simp [hr.kind], ?_⟩
    intro k hk
    simp only [Option.map_some, Option.some.injEq] at hk
    exact ⟨b, List.mem_of_getElem? h2, hk⟩

theorem atK_rel (k : TK) : Rel cs ts' ts (atK (α := α) k) (atK k) (fun a' a => a' = a) := by
  intro s' s hs
  refine ⟨?_, hs⟩
  have := ((peekK_rel (α := α) (cs := cs) hts) s' s hs).1.1
  change (s'.toks[s'.cur]?).map (·.kind) = (s.toks[s.cur]?).map (·.kind) at this
  show ((s'.toks[s'.cur]?).map (·.kind) == some k) = ((s.toks[s.cur]?).map (·.kind) == some k)
  rw [this]

theorem nextToken_rel : Rel cs ts' ts (nextToken (α := α)) nextToken (OptRel TokSim) := by
  intro s' s hs
  rcases hts.getElem? s.cur with ⟨h1, h2⟩ | ⟨a, b, h1, h2, hr⟩
  · have e1 : s'.toks[s'.cur]? = none := by rw [hs.toks', hs.cur]; exact h1
    have e2 : s.toks[s.cur]? = none := by rw [hs.toks]; exact h2
    rw [nextToken_run, nextToken_run, e1, e2]
    exact ⟨trivial, hs⟩
  · have e1 : s'.toks[s'.cur]? = some a := by rw [hs.toks', hs.cur]; exact h1
    have e2 : s.toks[s.cur]? = some b := by rw [hs.toks]; exact h2
    rw [nextToken_run, nextToken_run, e1, e2]
    exact ⟨hr, hs.setCur (by rw [hs.cur])⟩

theorem bumpAny_rel : Rel cs ts' ts (bumpAny (α := α)) bumpAny TokSim := by
  unfold bumpAny
  refine Rel.bind (nextToken_rel hts) fun a' a ha => ?_
  rcases ha.elim with ⟨rfl, rfl⟩ | ⟨x', x, rfl, rfl, hx⟩
  · exact Rel.bind (panicWith_rel _ _) (fun _ _ _ => Rel.pure (α := α) tokSim_dummy)
  · exact Rel.pure (α := α) hx

theorem bump_rel (k : TK) : Rel cs ts' ts (bump (α := α) k) (bump k) TokSim := by
  unfold bump
  refine Rel.bind (bumpAny_rel hts) fun t' t ht => ?_
  dsimp only
  exact Rel.panicIfK (Rel.pure (α := α) ht)

theorem consumeK_rel (k : TK) : Rel cs ts' ts (consumeK (α := α) k) (consumeK k) (OptRel TokSim) := by
  unfold consumeK
  refine Rel.bind (atK_rel hts k) fun a' a ha => ?_
  subst ha
  cases a'
  · exact Rel.pure (α := α) OptRel.none_none
  · exact Rel.bind (bumpAny_rel hts) fun t' t ht => Rel.pure (α := α) (OptRel.some_some ht)

theorem untilK_rel (f : TK → Bool) : Rel cs ts' ts (untilK (α := α) f) (untilK f) (OptRel (LRel TokSim)) := by
  intro s' s hs
  have hd : LRel TokSim (s'.toks.drop s'.cur) (s.toks.drop s.cur) := by
    rw [hs.toks', hs.toks, hs.cur]; exact hts.drop _
  have hf := hd.findIdx? (tokSim_kindPres.agree f)
  rw [untilK_run, untilK_run, hf]
  cases (s.toks.drop s.cur).findIdx? (fun t => f t.kind) with
  | none => exact ⟨trivial, hs⟩
  | some pos => exact ⟨hd.take pos, hs.setCur (by rw [hs.cur])⟩

theorem consumeWhile_rel (f : TK → Bool) : Rel cs ts' ts (consumeWhile (α := α) f) (consumeWhile f) (LRel TokSim) := by
  intro s' s hs
  have hd : LRel TokSim (s'.toks.drop s'.cur) (s.toks.drop s.cur) := by
    rw [hs.toks', hs.toks, hs.cur]; exact hts.drop _
  have hf := hd.findIdx? (tokSim_kindPres.agree (fun k => !f k))
  rw [consumeWhile_run, consumeWhile_run]
  simp only [hf, hd.length_eq]
  exact ⟨hd.take _, hs.setCur (by rw [hs.cur])⟩

theorem consumeRest_rel : Rel cs ts' ts (consumeRest (α := α)) consumeRest (LRel TokSim) := by
  intro s' s hs
  have hd : LRel TokSim (s'.toks.drop s'.cur) (s.toks.drop s.cur) := by
    rw [hs.toks', hs.toks, hs.cur]; exact hts.drop _
  show LRel TokSim (s'.toks.drop s'.cur) (s.toks.drop s.cur) ∧
    SimS cs ts' ts { s' with cur := s'.cur + (s'.toks.drop s'.cur).length }
      { s with cur := s.cur + (s.toks.drop s.cur).length }
  exact ⟨hd, hs.setCur (by rw [hd.length_eq, hs.cur])⟩

theorem restToks_rel : Rel cs ts' ts (restToks (α := α)) restToks (LRel TokSim) := by
  intro s' s hs
  refine ⟨?_, hs⟩
  show LRel TokSim (s'.toks.drop s'.cur) (s.toks.drop s.cur)
  rw [hs.toks', hs.toks, hs.cur]; exact hts.drop _

theorem allToks_rel : Rel cs ts' ts (allToks (α := α)) allToks (LRel TokSim) := by
  intro s' s hs
  refine ⟨?_, hs⟩
  show LRel TokSim s'.toks s.toks
  rw [hs.toks', hs.toks]; exact hts

omit hts

theorem getCur_rel : Rel cs ts' ts (getCur (α := α)) getCur (fun a' a => a' = a) :=
  fun s' s hs => ⟨hs.cur, hs⟩

theorem setCur_rel (c : Nat) : Rel cs ts' ts (setCur (α := α) c) (setCur c) (fun _ _ => True) :=
  fun s' s hs => ⟨trivial, hs.setCur rfl⟩

theorem hasExt_rel (flag : Nat) : Rel cs ts' ts (hasExt (α := α) flag) (hasExt flag) (fun a' a => a' = a) := by
  intro s' s hs
  refine ⟨?_, hs⟩
  show s'.ext.has flag = s.ext.has flag
  rw [hs.ext]

theorem currentOffset_rel : Rel cs ts' ts (currentOffset (α := α)) currentOffset (fun _ _ => True) := by
  intro s' s hs
  rw [currentOffset_run, currentOffset_run]
  exact ⟨trivial, hs⟩

theorem pushEv_rel {ev' ev : Ev α} (h : EvSim cs.uws ev' ev) :
    Rel cs ts' ts (pushEv ev') (pushEv ev) (fun _ _ => True) :=
  fun s' s hs => ⟨trivial, hs.push h⟩

theorem perr_rel (kind : String) {l' l : List Span} (h : l'.length = l.length) :
    Rel cs ts' ts (perr (α := α) kind l') (perr kind l) (fun _ _ => True) :=
  pushEv_rel (EvSim.mk_error ⟨rfl, rfl, rfl, h⟩)

theorem pwarn_rel (kind : String) {l' l : List Span} (h : l'.length = l.length) :
    Rel cs ts' ts (pwarn (α := α) kind l') (pwarn kind l) (fun _ _ => True) :=
  pushEv_rel (EvSim.mk_warning ⟨rfl, rfl, rfl, h⟩)

theorem tokensSpanP_rel (a b : String) (l' l : List Tok) :
    Rel cs ts' ts (tokensSpanP (α := α) a l') (tokensSpanP b l) (fun _ _ => True) := by
  unfold tokensSpanP
  dsimp only
  exact Rel.panicIfK (Rel.pure (α := α) (A := fun _ _ => True) trivial)

theorem bpSpan_rel : Rel cs ts' ts (bpSpan (α := α)) bpSpan (fun _ _ => True) := by
  unfold bpSpan
  exact Rel.bind (A := SimS cs ts' ts) Rel.get (fun _ _ _ => tokensSpanP_rel _ _ _ _)

theorem bpText_rel (hu : UwsNL cs) {l' l : List Tok} (h : LRel TokSim l' l) (o' o : Nat) :
    Rel cs ts' ts (bpText (α := α) o' l') (bpText o l) (TextSim cs.uws) := by
  unfold bpText
  dsimp only
  exact Rel.panicIfK (Rel.pure (α := α) (buildText_sim hu h o' o))

theorem withRecover_rel {β : Type} {f' f : P α (Option β)} {A : β → β → Prop}
    (h : Rel cs ts' ts f' f (OptRel A)) : Rel cs ts' ts (withRecover f') (withRecover f) (OptRel A) := by
  unfold withRecover
  refine Rel.bind getCur_rel fun c' c hc => ?_
  subst hc
  refine Rel.bind h fun r' r hr => ?_
  rw [hr.isNone]
  dsimp only
  split
  · exact Rel.bind (setCur_rel _) (fun _ _ _ => Rel.pure (α := α) hr)
  · exact Rel.pure (α := α) hr

end rel

end Cook
