import CookModel.Lemmas.CollectorFrame
import CookModel.Lemmas.Collector
/-
  C01, analysis layer: the event list of a simple recipe (steps made of text and of ingredient /
  cookware / timer definitions, default modes) is folded by `parse_events` into exactly the
  intended tables and steps, with no diagnostic.  (`rta_` prefix.)
-/
set_option linter.unusedSectionVars false
set_option linter.unusedSimpArgs false
set_option linter.unusedVariables false
namespace Cook

variable {α : Type} [Arith α]

/-! ### the intended components -/

/-- `Linear` for a numeric ingredient amount without scaling lock, `Fixed` otherwise -/
def expValue (v : PQValue α) (isIngr : Bool) : ScalableValue α :=
  if isIngr && !v.value.val.isText && !v.lock.isSome then .linear v.value.val else .fixed v.value.val

def expQuantity (env : Env) (q : Loc (PQuantity α)) (isIngr : Bool) : Quantity (ScalableValue α) :=
  ⟨expValue q.val.value isIngr, q.val.unit.map (fun t => t.trimmed env.cs)⟩

/-- the ingredient a parsed ingredient definition stands for -/
def ingrOf (env : Env) (li : Loc (PIngredient α)) : Ingredient (ScalableValue α) :=
  ⟨match parseReference (li.val.name.trimmed env.cs) with
    | some r => r.name
    | none => li.val.name.trimmed env.cs,
   li.val.alias.map (·.trimmed env.cs), li.val.quantity.map (fun q => expQuantity env q true),
   li.val.note.map (·.trimmed env.cs), parseReference (li.val.name.trimmed env.cs),
   ⟨.definition [] true, none⟩, li.val.modifiers.val⟩

def cwOf (env : Env) (lc : Loc (PCookware α)) : Cookware (ScalableValue α) :=
  ⟨lc.val.name.trimmed env.cs, lc.val.alias.map (·.trimmed env.cs),
   lc.val.quantity.map (fun q => expValue q.val false), lc.val.note.map (·.trimmed env.cs),
   .definition [] true, lc.val.modifiers.val⟩

def timerOf (env : Env) (lt : Loc (PTimer α)) : Timer (ScalableValue α) :=
  ⟨lt.val.name.map (·.trimmed env.cs), lt.val.quantity.map (fun q => expQuantity env q false)⟩

/-- no warning from `Value::from_ast`: a scaling lock only on a numeric ingredient amount -/
def lockOK (v : PQValue α) (isIngr : Bool) : Prop := v.lock.isSome = true → isIngr = true ∧ v.value.val.isText = false

/-- a plain definition: neither `&` (REF) nor `+` (NEW) -/
def plainMods (m : Modifiers) : Prop := m.contains Modifiers.NEW = false ∧ m.contains Modifiers.REF = false

instance (m : Modifiers) : Decidable (plainMods m) := by unfold plainMods; infer_instance

/-! ### the pieces of the collector on a plain definition -/

theorem rta_valueOf (env : Env) (v : PQValue α) (b : Bool) (s : Col α) (h : lockOK v b) :
    valueOf env v b s = (expValue v b, s) := by
  unfold valueOf expValue
  unfold lockOK at h
  cases hl : v.lock.isSome <;> cases hb : b <;> cases ht : v.value.val.isText <;>
    simp_all [bind, pure, StateT.bind, StateT.pure]

theorem rta_quantityOf (env : Env) (q : Loc (PQuantity α)) (b : Bool) (s : Col α) (h : lockOK q.val.value b) :
    quantityOf env q b s = (expQuantity env q b, s) := by
  unfold quantityOf
  simp only [bind, StateT.bind, rta_valueOf env _ b s h, pure, StateT.pure]
  rfl

theorem rta_optQuantityOf (env : Env) (q : Option (Loc (PQuantity α))) (b : Bool) (s : Col α)
    (h : ∀ x, q = some x → lockOK x.val.value b) :
    optQuantityOf env q b s = (q.map (fun q => expQuantity env q b), s) := by
  cases q with
  | none => rfl
  | some x =>
    simp only [optQuantityOf, bind, StateT.bind, rta_quantityOf env x b s (h x rfl), pure, StateT.pure, Option.map_some]

theorem rta_optValueOf (env : Env) (q : Option (Loc (PQValue α))) (s : Col α)
    (h : ∀ x, q = some x → lockOK x.val false) :
    optValueOf env q s = (q.map (fun q => expValue q.val false), s) := by
  cases q with
  | none => rfl
  | some x =>
    simp only [optValueOf, bind, StateT.bind, rta_valueOf env x.val false s (h x rfl), pure, StateT.pure, Option.map_some]

theorem rta_resolveReference (env : Env) (container : String) (inherit : Nat) (existing : List (Str × Modifiers))
    (name : Str) (mods : Modifiers) (loc modLoc : Span) (s : Col α) (hm : plainMods mods)
    (hd : s.defineMode = .all) (hdup : s.duplicateMode = .new) :
    resolveReference env container inherit existing name mods loc modLoc s = ((mods, none), s) := by
  unfold resolveReference
  obtain ⟨h1, h2⟩ := hm
  simp [bind, pure, StateT.bind, StateT.pure, get, getThe, MonadStateOf.get, StateT.get, h1, h2, hd, hdup]

/-- side conditions of an ingredient definition of a simple recipe -/
structure IngrSimple (li : Loc (PIngredient α)) : Prop where
  inter : li.val.inter = none
  mods : plainMods li.val.modifiers.val
  lock : ∀ q, li.val.quantity = some q → lockOK q.val.value true

structure CwSimple (lc : Loc (PCookware α)) : Prop where
  mods : plainMods lc.val.modifiers.val
  lock : ∀ q, lc.val.quantity = some q → lockOK q.val false

structure TimerSimple (lt : Loc (PTimer α)) : Prop where
  lock : ∀ q, lt.val.quantity = some q → lockOK q.val.value false

theorem rta_ingredientA (env : Env) (input : Str) (li : Loc (PIngredient α)) (s : Col α) (h : IngrSimple li)
    (hd : s.defineMode = .all) (hdup : s.duplicateMode = .new) :
    ingredientA env input li s =
      (s.ingredients.size, { s with locIngr := s.locIngr.push li, ingredients := s.ingredients.push (ingrOf env li) }) := by
  unfold ingredientA
  simp only [bind, StateT.bind, rta_optQuantityOf env _ true s h.lock, get, getThe, MonadStateOf.get, StateT.get, pure,
    StateT.pure, hd]
  unfold ingrBuild
  simp only [h.inter, bind, StateT.bind]
  unfold ingrRegular
  simp only [bind, StateT.bind, get, getThe, MonadStateOf.get, StateT.get, pure, StateT.pure,
    rta_resolveReference env _ _ _ _ _ _ _ s h.mods hd hdup, modify, modifyGet, MonadStateOf.modifyGet,
    StateT.modifyGet, Array.size_push, Nat.add_sub_cancel]
  have hne : (DefineMode.all != DefineMode.components) = true := by decide
  simp only [ingrOf, hne]
  rw [← hd]
  congr 3

theorem rta_cookwareA (env : Env) (input : Str) (lc : Loc (PCookware α)) (s : Col α) (h : CwSimple lc)
    (hd : s.defineMode = .all) (hdup : s.duplicateMode = .new) :
    cookwareA env input lc s =
      (s.cookware.size, { s with locCw := s.locCw.push lc, cookware := s.cookware.push (cwOf env lc) }) := by
  unfold cookwareA
  simp only [bind, StateT.bind, rta_optValueOf env _ s h.lock, get, getThe, MonadStateOf.get, StateT.get, pure,
    StateT.pure, hd]
  unfold cwBuild
  simp only [bind, StateT.bind]
  unfold cwResolve
  simp only [bind, StateT.bind, get, getThe, MonadStateOf.get, StateT.get, pure, StateT.pure,
    rta_resolveReference env _ _ _ _ _ _ _ s h.mods hd hdup, modify, modifyGet, MonadStateOf.modifyGet,
    StateT.modifyGet, Array.size_push, Nat.add_sub_cancel]
  have hne : (DefineMode.all != DefineMode.components) = true := by decide
  simp only [cwOf, hne]
  rw [← hd]

theorem rta_timerA (env : Env) (lt : Loc (PTimer α)) (s : Col α) (h : TimerSimple lt)
    (hext : env.ext.has Gen.EXT_ADVANCED_UNITS = false) :
    timerA env lt s = (s.timers.size, { s with timers := s.timers.push (timerOf env lt) }) := by
  unfold timerA
  have hq : timerQuantity env lt.val.quantity s = (lt.val.quantity.map (fun q => expQuantity env q false), s) := by
    cases hq : lt.val.quantity with
    | none => rfl
    | some q =>
      simp only [timerQuantity, bind, StateT.bind, rta_quantityOf env q false s (h.lock q hq), timerQuantityChecks, hext,
        Bool.false_eq_true, if_false, pure, StateT.pure, Option.map_some]
  simp only [bind, StateT.bind, hq, get, getThe, MonadStateOf.get, StateT.get, pure, StateT.pure, modify, modifyGet,
    MonadStateOf.modifyGet, StateT.modifyGet, Array.size_push, Nat.add_sub_cancel]
  rfl

/-! ### simple recipes -/

/-- an item of a step of a simple recipe, as the parser hands it to the analysis -/
inductive SItem (α : Type) where
  | text (t : Text)
  | ingredient (i : Loc (PIngredient α))
  | cookware (c : Loc (PCookware α))
  | timer (t : Loc (PTimer α))

/-- a simple recipe: steps made of text and component definitions -/
structure SimpleRecipe (α : Type) where
  steps : List (List (SItem α))

def SItem.ev : SItem α → Ev α
  | .text t => .text t
  | .ingredient i => .ingredient i
  | .cookware c => .cookware c
  | .timer t => .timer t

/-- the events of one step: `start step`, the items, `stop step` -/
def stepEvents (st : List (SItem α)) : List (Ev α) := [Ev.start .step] ++ st.map SItem.ev ++ [Ev.stop .step]

/-- the events of a simple recipe -/
def SimpleRecipe.events (r : SimpleRecipe α) : List (Ev α) := r.steps.flatMap stepEvents

def SItem.Simple : SItem α → Prop
  | .text _ => True
  | .ingredient i => IngrSimple i
  | .cookware c => CwSimple c
  | .timer t => TimerSimple t

def SItem.ingr? : SItem α → Option (Loc (PIngredient α))
  | .ingredient i => some i
  | _ => none
def SItem.cw? : SItem α → Option (Loc (PCookware α))
  | .cookware c => some c
  | _ => none
def SItem.timer? : SItem α → Option (Loc (PTimer α))
  | .timer t => some t
  | _ => none

def ingrsOf (l : List (SItem α)) : List (Loc (PIngredient α)) := l.filterMap SItem.ingr?
def cwsOf (l : List (SItem α)) : List (Loc (PCookware α)) := l.filterMap SItem.cw?
def timersOf (l : List (SItem α)) : List (Loc (PTimer α)) := l.filterMap SItem.timer?

/-- the step item of a recipe item: a component item carries the number of components of its
    kind before it (`before`: all items of the recipe before this one) -/
def SItem.toItem (before : List (SItem α)) : SItem α → Item
  | .text t => .text t.text
  | .ingredient _ => .ingredient (ingrsOf before).length
  | .cookware _ => .cookware (cwsOf before).length
  | .timer _ => .timer (timersOf before).length

def itemsFrom (before : List (SItem α)) : List (SItem α) → List Item
  | [] => []
  | it :: r => it.toItem before :: itemsFrom (before ++ [it]) r

/-- the steps, numbered from `num` -/
def stepsFrom (before : List (SItem α)) (num : Nat) : List (List (SItem α)) → List Content
  | [] => []
  | st :: r => .step ⟨itemsFrom before st, num⟩ :: stepsFrom (before ++ st) (num + 1) r

/-- the collector after the items `before`, with the given current section content, step counter
    and open block; everything else as at the start -/
def stOf (env : Env) (before : List (SItem α)) (content : List Content) (counter : Nat) (block : Option BlockBuf) :
    Col α :=
  { cur := ⟨none, content⟩,
    ingredients := ((ingrsOf before).map (ingrOf env)).toArray,
    cookware := ((cwsOf before).map (cwOf env)).toArray,
    timers := ((timersOf before).map (timerOf env)).toArray,
    locIngr := (ingrsOf before).toArray,
    locCw := (cwsOf before).toArray,
    stepCounter := counter,
    block := block }

theorem rta_inBlock_step (env : Env) (input : Str) (ev : Ev α) (s : Col α) (items : List Item)
    (hb : s.block = some (.step items)) : inBlockComponent env input ev s = inStepComponent env input ev s := by
  unfold inBlockComponent
  simp only [bind, StateT.bind, get, getThe, MonadStateOf.get, StateT.get, pure, StateT.pure, hb]

theorem rta_pushItem (it : Item) (s : Col α) (items : List Item) (hb : s.block = some (.step items)) :
    pushItem it s = ((), { s with block := some (.step (items ++ [it])) }) := by
  unfold pushItem
  simp only [bind, StateT.bind, get, getThe, MonadStateOf.get, StateT.get, pure, StateT.pure, hb, set, StateT.set]

theorem rta_proc_ingredient (env : Env) (input : Str) (li : Loc (PIngredient α)) (s : Col α) (items : List Item)
    (h : IngrSimple li) (hd : s.defineMode = .all) (hdup : s.duplicateMode = .new) (hb : s.block = some (.step items)) :
    (processEvent env input (.ingredient li) s).2 =
      { s with locIngr := s.locIngr.push li, ingredients := s.ingredients.push (ingrOf env li),
               block := some (.step (items ++ [.ingredient s.ingredients.size])) } := by
  have e : processEvent env input (.ingredient li) s = inBlockComponent env input (.ingredient li) s := rfl
  rw [e, rta_inBlock_step env input _ s items hb]
  simp only [inStepComponent, bind, StateT.bind, rta_ingredientA env input li s h hd hdup]
  rw [rta_pushItem _ { s with locIngr := s.locIngr.push li, ingredients := s.ingredients.push (ingrOf env li) } items hb]

theorem rta_proc_cookware (env : Env) (input : Str) (lc : Loc (PCookware α)) (s : Col α) (items : List Item)
    (h : CwSimple lc) (hd : s.defineMode = .all) (hdup : s.duplicateMode = .new) (hb : s.block = some (.step items)) :
    (processEvent env input (.cookware lc) s).2 =
      { s with locCw := s.locCw.push lc, cookware := s.cookware.push (cwOf env lc),
               block := some (.step (items ++ [.cookware s.cookware.size])) } := by
  have e : processEvent env input (.cookware lc) s = inBlockComponent env input (.cookware lc) s := rfl
  rw [e, rta_inBlock_step env input _ s items hb]
  simp only [inStepComponent, bind, StateT.bind, rta_cookwareA env input lc s h hd hdup]
  rw [rta_pushItem _ { s with locCw := s.locCw.push lc, cookware := s.cookware.push (cwOf env lc) } items hb]

theorem rta_proc_timer (env : Env) (input : Str) (lt : Loc (PTimer α)) (s : Col α) (items : List Item)
    (h : TimerSimple lt) (hadv : env.ext.has Gen.EXT_ADVANCED_UNITS = false) (hb : s.block = some (.step items)) :
    (processEvent env input (.timer lt) s).2 =
      { s with timers := s.timers.push (timerOf env lt),
               block := some (.step (items ++ [.timer s.timers.size])) } := by
  have e : processEvent env input (.timer lt) s = inBlockComponent env input (.timer lt) s := rfl
  rw [e, rta_inBlock_step env input _ s items hb]
  simp only [inStepComponent, bind, StateT.bind, rta_timerA env lt s h hadv]
  rw [rta_pushItem _ { s with timers := s.timers.push (timerOf env lt) } items hb]

theorem rta_proc_text (env : Env) (input : Str) (t : Text) (s : Col α) (items : List Item)
    (hinl : env.ext.has Gen.EXT_INLINE_QUANTITIES = false) (hd : s.defineMode = .all)
    (hb : s.block = some (.step items)) :
    (processEvent env input (.text t) s).2 = { s with block := some (.step (items ++ [.text t.text])) } := by
  have e : processEvent env input (.text t) s = inStepText env t s := rfl
  rw [e]
  unfold inStepText
  simp only [bind, StateT.bind, get, getThe, MonadStateOf.get, StateT.get, pure, StateT.pure, hb]
  unfold inStepTextStep
  simp [bind, StateT.bind, get, getThe, MonadStateOf.get, StateT.get, pure, StateT.pure, hd, hinl, modify, modifyGet,
    MonadStateOf.modifyGet, StateT.modifyGet]

theorem rta_item (env : Env) (input : Str) (hadv : env.ext.has Gen.EXT_ADVANCED_UNITS = false)
    (hinl : env.ext.has Gen.EXT_INLINE_QUANTITIES = false) (it : SItem α) (h : it.Simple)
    (before : List (SItem α)) (content : List Content) (n : Nat) (items : List Item) :
    (processEvent env input it.ev (stOf env before content n (some (.step items)))).2 =
      stOf env (before ++ [it]) content n (some (.step (items ++ [it.toItem before]))) := by
  cases it with
  | text t =>
    rw [SItem.ev, rta_proc_text env input t _ items hinl rfl rfl]
    simp [stOf, SItem.toItem, ingrsOf, cwsOf, timersOf, SItem.ingr?, SItem.cw?, SItem.timer?]
  | ingredient li =>
    rw [SItem.ev, rta_proc_ingredient env input li _ items h rfl rfl rfl]
    simp [stOf, SItem.toItem, ingrsOf, cwsOf, timersOf, SItem.ingr?, SItem.cw?, SItem.timer?]
  | cookware lc =>
    rw [SItem.ev, rta_proc_cookware env input lc _ items h rfl rfl rfl]
    simp [stOf, SItem.toItem, ingrsOf, cwsOf, timersOf, SItem.ingr?, SItem.cw?, SItem.timer?]
  | timer lt =>
    rw [SItem.ev, rta_proc_timer env input lt _ items h hadv rfl]
    simp [stOf, SItem.toItem, ingrsOf, cwsOf, timersOf, SItem.ingr?, SItem.cw?, SItem.timer?]

theorem rta_ev_not_error (it : SItem α) : ¬ ∃ d0, it.ev = .error d0 := by
  rintro ⟨d, h⟩; cases it <;> cases h

/-- the items of a step, one after the other -/
theorem rta_loop_items (env : Env) (input : Str) (hadv : env.ext.has Gen.EXT_ADVANCED_UNITS = false)
    (hinl : env.ext.has Gen.EXT_INLINE_QUANTITIES = false) (rest : List (Ev α)) (content : List Content) (n : Nat) :
    ∀ (st : List (SItem α)), (∀ it ∈ st, it.Simple) → ∀ (before : List (SItem α)) (items : List Item),
      parseEventsLoop env input (st.map SItem.ev ++ rest) (stOf env before content n (some (.step items))) =
        parseEventsLoop env input rest
          (stOf env (before ++ st) content n (some (.step (items ++ itemsFrom before st)))) := by
  intro st
  induction st with
  | nil => intro _ before items; simp [itemsFrom]
  | cons it r ih =>
    intro hs before items
    rw [List.map_cons, List.cons_append, parseEventsLoop_cons_nonerror env input _ _ _ (rta_ev_not_error it),
      rta_item env input hadv hinl it (hs it (by simp)), ih (fun x hx => hs x (by simp [hx]))]
    simp [itemsFrom]

theorem rta_start (env : Env) (input : Str) (before : List (SItem α)) (content : List Content) (n : Nat) :
    (processEvent env input (.start .step) (stOf env before content n none)).2 =
      stOf env before content n (some (.step [])) := by
  simp [processEvent, modify, modifyGet, MonadStateOf.modifyGet, StateT.modifyGet, stOf, pure, StateT.pure]

theorem rta_stop (env : Env) (input : Str) (before : List (SItem α)) (content : List Content) (n : Nat)
    (items : List Item) (hne : items ≠ []) :
    (processEvent env input (.stop .step) (stOf env before content n (some (.step items)))).2 =
      stOf env before (content ++ [.step ⟨items, n⟩]) (n + 1) none := by
  have hne' : items.isEmpty = false := by cases items <;> simp_all
  simp [processEvent, endBlock, endBlockContent, pushContent, Content.isStep, Content.isEmptyContent, hne', bind,
    StateT.bind, get, getThe, MonadStateOf.get, StateT.get, pure, StateT.pure, modify, modifyGet,
    MonadStateOf.modifyGet, StateT.modifyGet, stOf]

theorem rta_itemsFrom_ne (before : List (SItem α)) (st : List (SItem α)) (h : st ≠ []) : itemsFrom before st ≠ [] := by
  cases st with
  | nil => exact absurd rfl h
  | cons a r => simp [itemsFrom]

/-- the steps, one after the other -/
theorem rta_loop_steps (env : Env) (input : Str) (hadv : env.ext.has Gen.EXT_ADVANCED_UNITS = false)
    (hinl : env.ext.has Gen.EXT_INLINE_QUANTITIES = false) (rest : List (Ev α)) :
    ∀ (steps : List (List (SItem α))), (∀ st ∈ steps, ∀ it ∈ st, it.Simple) → (∀ st ∈ steps, st ≠ []) →
      ∀ (before : List (SItem α)) (content : List Content) (n : Nat),
      parseEventsLoop env input (steps.flatMap stepEvents ++ rest) (stOf env before content n none) =
        parseEventsLoop env input rest
          (stOf env (before ++ steps.flatten) (content ++ stepsFrom before n steps) (n + steps.length) none) := by
  intro steps
  induction steps with
  | nil => intro _ _ before content n; simp [stepsFrom]
  | cons st r ih =>
    intro hs hne before content n
    have e : (st :: r).flatMap stepEvents ++ rest =
        Ev.start .step :: (st.map SItem.ev ++ (Ev.stop .step :: (r.flatMap stepEvents ++ rest))) := by
      simp [stepEvents, List.flatMap_cons]
    rw [e, parseEventsLoop_cons_nonerror env input _ _ _ (by rintro ⟨d, h⟩; cases h), rta_start,
      rta_loop_items env input hadv hinl _ content n st (hs st (by simp)) before [],
      parseEventsLoop_cons_nonerror env input _ _ _ (by rintro ⟨d, h⟩; cases h), List.nil_append,
      rta_stop env input _ content n _ (rta_itemsFrom_ne before st (hne st (by simp))),
      ih (fun x hx => hs x (by simp [hx])) (fun x hx => hne x (by simp [hx]))]
    simp [stepsFrom, List.append_assoc, Nat.add_assoc, Nat.add_comm 1]

/-- the collector's result for a simple recipe: one unnamed section with the steps numbered from 1,
    the component tables in source order; everything else as in an empty recipe -/
def expectedCol (env : Env) (r : SimpleRecipe α) : Col α :=
  { sections := if r.steps.isEmpty then [] else [⟨none, stepsFrom [] 1 r.steps⟩],
    ingredients := ((ingrsOf r.steps.flatten).map (ingrOf env)).toArray,
    cookware := ((cwsOf r.steps.flatten).map (cwOf env)).toArray,
    timers := ((timersOf r.steps.flatten).map (timerOf env)).toArray,
    locIngr := (ingrsOf r.steps.flatten).toArray,
    locCw := (cwsOf r.steps.flatten).toArray,
    stepCounter := 1 + r.steps.length }

theorem rta_parseEvents_simple (env : Env) (input : Str) (hadv : env.ext.has Gen.EXT_ADVANCED_UNITS = false)
    (hinl : env.ext.has Gen.EXT_INLINE_QUANTITIES = false) (r : SimpleRecipe α)
    (hs : ∀ st ∈ r.steps, ∀ it ∈ st, it.Simple) (hne : ∀ st ∈ r.steps, st ≠ []) :
    parseEvents env input r.events = ⟨some (expectedCol env r), #[], none⟩ := by
  have h0 : ({} : Col α) = stOf env [] [] 1 none := by simp [stOf, ingrsOf, cwsOf, timersOf]
  have e : r.events = r.steps.flatMap stepEvents ++ [] := by simp [SimpleRecipe.events]
  unfold parseEvents
  rw [h0, e, rta_loop_steps env input hadv hinl [] r.steps hs hne [] [] 1]
  cases hst : r.steps with
  | nil => simp [parseEventsLoop, stOf, expectedCol, hst, stepsFrom, Section.isEmpty, ingrsOf, cwsOf, timersOf]
  | cons a b =>
    simp [parseEventsLoop, stOf, expectedCol, hst, stepsFrom, Section.isEmpty]

end Cook
