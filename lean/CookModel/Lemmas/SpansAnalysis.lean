import CookModel.Lemmas.CollectorFold
import CookModel.Lemmas.SpansDoc
import CookModel.Lemmas.SpansMeta
import CookModel.Lemmas.SpansFront
/-
  Source locations of the ANALYSIS pass (C04): every label of every diagnostic the collector pushes,
  and every location it records (`locations` of ingredients and cookware, the spans of the `>>`
  entries) is a valid span of the input — both ends character boundaries of the input, start ≤ end —
  provided the incoming events have valid spans (`EvSpansOK 0 input`, which `C04_event_spans_ok`
  gives for the events of `PullParser`).

  `ColOK input s`  : the invariant of the collector state.
  `SpOK input m`   : the piece `m` of the fold keeps `ColOK`.
-/
set_option linter.unusedSectionVars false
set_option linter.unusedSimpArgs false
set_option linter.unusedVariables false
namespace Cook
variable {α : Type} [Arith α]

/-- all source locations recorded in the collector state are valid spans of `input` -/
structure ColOK (input : Str) (s : Col α) : Prop where
  diags : ∀ d ∈ s.diags.toList, DiagOK 0 input d
  locI : ∀ li ∈ s.locIngr.toList, EvSpansOK 0 input (Ev.ingredient li)
  locC : ∀ lc ∈ s.locCw.toList, EvSpansOK 0 input (Ev.cookware lc)
  metaLocs : ∀ p ∈ s.metaLocs, SpanOK 0 input p.2
  oldStyle : ∀ sp ∈ s.oldStyleUsed, SpanOK 0 input sp

theorem ColOK.init (input : Str) : ColOK (α := α) input {} :=
  ⟨fun d h => by simp at h, fun d h => by simp at h, fun d h => by simp at h, fun d h => by simp at h,
   fun d h => by simp at h⟩

/-- the labels of a diagnostic about to be pushed; irreducible so that the decomposition tactic
    leaves these goals alone -/
@[irreducible] def LabelsOK (input : Str) (labels : List Span) : Prop := ∀ l ∈ labels, SpanOK 0 input l

theorem LabelsOK.mk {input : Str} {labels : List Span} (h : ∀ l ∈ labels, SpanOK 0 input l) : LabelsOK input labels := by
  unfold LabelsOK; exact h

theorem LabelsOK.out {input : Str} {labels : List Span} (h : LabelsOK input labels) : ∀ l ∈ labels, SpanOK 0 input l := by
  unfold LabelsOK at h; exact h

theorem LabelsOK.one {input : Str} {a : Span} (ha : SpanOK 0 input a) : LabelsOK input [a] :=
  LabelsOK.mk (one_label ha)

theorem LabelsOK.two {input : Str} {a b : Span} (ha : SpanOK 0 input a) (hb : SpanOK 0 input b) : LabelsOK input [a, b] :=
  LabelsOK.mk (two_labels ha hb)

theorem ColOK.pushDiag {input : Str} {s : Col α} (h : ColOK input s) (d : Diag) (hd : DiagOK 0 input d) :
    ColOK input { s with diags := s.diags.push d } := by
  refine ⟨?_, h.locI, h.locC, h.metaLocs, h.oldStyle⟩
  intro x hx
  simp only [Array.toList_push, List.mem_append, List.mem_singleton] at hx
  rcases hx with hx | rfl
  · exact h.diags x hx
  · exact hd

/-- a change of fields that carry no locations -/
theorem ColOK.congr {input : Str} {s s' : Col α} (h : ColOK input s) (h1 : s'.diags = s.diags)
    (h2 : s'.locIngr = s.locIngr) (h3 : s'.locCw = s.locCw) (h4 : s'.metaLocs = s.metaLocs)
    (h5 : s'.oldStyleUsed = s.oldStyleUsed) : ColOK input s' :=
  ⟨by rw [h1]; exact h.diags, by rw [h2]; exact h.locI, by rw [h3]; exact h.locC, by rw [h4]; exact h.metaLocs,
   by rw [h5]; exact h.oldStyle⟩

/-- `m` keeps the invariant `ColOK input` -/
structure SpOK {β : Type} (input : Str) (m : A α β) : Prop where
  out : ∀ s, ColOK input s → ColOK input (m s).2

theorem SpOK.pure {β : Type} {input : Str} (a : β) : SpOK (α := α) input (Pure.pure a : A α β) := ⟨fun s h => h⟩

theorem SpOK.bind {β γ : Type} {input : Str} {m : A α β} {f : β → A α γ} (hm : SpOK input m)
    (hf : ∀ a, SpOK input (f a)) : SpOK input (m >>= f) :=
  ⟨fun s h => (hf (m s).1).out (m s).2 (hm.out s h)⟩

/-- reading the state: the continuation may use that the state it is given satisfies the invariant -/
theorem SpOK.bindGet {γ : Type} {input : Str} {f : Col α → A α γ}
    (hf : ∀ s0, ColOK input s0 → SpOK input (f s0)) : SpOK input ((get : A α (Col α)) >>= f) :=
  ⟨fun s h => (hf s h).out s h⟩

theorem SpOK.get {input : Str} : SpOK (α := α) input (get : A α (Col α)) := ⟨fun s h => h⟩

theorem SpOK.ite {β : Type} {input : Str} {c : Prop} [Decidable c] {a b : A α β} (ha : SpOK input a) (hb : SpOK input b) :
    SpOK input (if c then a else b) := by
  split <;> assumption

theorem SpOK.apanic {input : Str} (site : String) : SpOK (α := α) input (apanic site) := by
  constructor
  intro s h
  obtain ⟨d, p, hp⟩ := (DiagOnly.apanic (α := α) site).out s
  have hd : (Cook.apanic site s).2.diags = s.diags := by
    unfold Cook.apanic
    simp only [A_modify]
    split <;> rfl
  rw [hp] at hd ⊢
  exact h.congr hd rfl rfl rfl rfl

theorem SpOK.aerr {input : Str} (k : String) (l : List Span) (hl : LabelsOK input l) : SpOK (α := α) input (aerr k l) :=
  ⟨fun s h => h.pushDiag _ hl.out⟩

theorem SpOK.awarn {input : Str} (k : String) (l : List Span) (hl : LabelsOK input l) : SpOK (α := α) input (awarn k l) :=
  ⟨fun s h => h.pushDiag _ hl.out⟩

theorem SpOK.modify {input : Str} (f : Col α → Col α) (hf : ∀ s, ColOK input s → ColOK input (f s)) :
    SpOK input (modify f : A α PUnit) := ⟨fun s h => hf s h⟩

theorem SpOK.set {input : Str} (s' : Col α) (h : ColOK input s') : SpOK input (set s' : A α PUnit) := ⟨fun _ _ => h⟩

theorem SpOK.forIn {β γ : Type} {input : Str} (l : List β) (init : γ) (f : β → γ → A α (ForInStep γ))
    (hf : ∀ b c, SpOK input (f b c)) : SpOK input (forIn l init f) := by
  induction l generalizing init with
  | nil => simp only [List.forIn_nil]; exact SpOK.pure _
  | cons x xs ih =>
    simp only [List.forIn_cons]
    apply SpOK.bind (hf x init)
    intro r
    cases r with
    | done c => exact SpOK.pure _
    | yield c => exact ih c

syntax "sp_leaf" : tactic
macro_rules | `(tactic| sp_leaf) => `(tactic| first
  | with_reducible exact SpOK.pure _
  | with_reducible exact SpOK.get
  | with_reducible exact SpOK.apanic _
  | with_reducible refine SpOK.aerr _ _ ?_
  | with_reducible refine SpOK.awarn _ _ ?_
  | assumption)

/-- decomposes an `SpOK` goal along the `do` block; stops at `LabelsOK` goals, at calls of other
    pieces and at `modify`s -/
macro "sp_ok" : tactic => `(tactic|
  repeat' (first
    | sp_leaf
    | with_reducible apply SpOK.bindGet
    | with_reducible apply SpOK.bind
    | with_reducible apply SpOK.ite
    | with_reducible apply SpOK.forIn
    | intro _
    | (show SpOK _ _; dsimp only; show SpOK _ _)
    | (show SpOK _ _; split)))

/-! ### small facts about spans -/

theorem spansA_zero (input : Str) : SpanOK 0 input ⟨0, 0⟩ := SpanOK.pos Boundary.first

theorem spansA_optSpan {β : Type} (input : Str) (q : Option (Loc β)) (h : OptOK (fun x => SpanOK 0 input x.span) q) :
    SpanOK 0 input ((q.map (·.span)).getD ⟨0, 0⟩) := by
  cases q with
  | none => exact spansA_zero input
  | some x => exact h

theorem spansA_optText (input : Str) (q : Option Text) (d : Span) (h : OptOK (TextOK 0 input) q) (hd : SpanOK 0 input d) :
    SpanOK 0 input ((q.map (·.span)).getD d) := by
  cases q with
  | none => exact hd
  | some x => exact h.1

/-- the unit span (or the quantity span) of an optional located quantity -/
theorem spansA_unitSpan (input : Str) (q : Option (Loc (PQuantity α))) :
    OptOK (LocQOK 0 input) q → SpanOK 0 input (match q with
      | some oq => (oq.val.unit.map (·.span)).getD oq.span
      | none => ⟨0, 0⟩) := by
  intro h
  cases q with
  | none => exact spansA_zero input
  | some oq => exact spansA_optText input _ _ h.2.2 h.1

theorem spansA_optLocQ (input : Str) (q : Option (Loc (PQuantity α))) (h : OptOK (LocQOK 0 input) q) :
    OptOK (fun x => SpanOK 0 input x.span) q := by
  cases q with
  | none => trivial
  | some x => exact h.1

/-! ### `note_reference_error`: the note span widened over the parentheses -/

theorem spansA_byteAt_go (pos : Nat) (s : Str) (off : Nat) (c : Char) (h : byteAt.go pos s off = some c) :
    ∃ pre suf, s = pre ++ c :: suf ∧ pos = off + utf8Len pre := by
  induction s generalizing off with
  | nil => simp [byteAt.go] at h
  | cons x t ih =>
    unfold byteAt.go at h
    split at h
    · rename_i he
      simp only [Option.some.injEq] at h
      subst h
      exact ⟨[], t, rfl, by simp [utf8Len, he]⟩
    · split at h
      · cases h
      · obtain ⟨pre, suf, h1, h2⟩ := ih _ h
        refine ⟨x :: pre, suf, by rw [h1]; rfl, ?_⟩
        rw [h2]; simp [utf8Len]; omega

theorem spansA_byteAt (input : Str) (pos : Nat) (c : Char) (h : byteAt input pos = some c) :
    ∃ pre suf, input = pre ++ c :: suf ∧ pos = utf8Len pre := by
  obtain ⟨pre, suf, h1, h2⟩ := spansA_byteAt_go pos input 0 c h
  exact ⟨pre, suf, h1, by omega⟩

theorem spansA_noteRefSpan (input : Str) (span : Span) (h : SpanOK 0 input span) :
    SpanOK 0 input (noteRefSpan input span) := by
  unfold noteRefSpan
  obtain ⟨hs, he, hle⟩ := h
  have h1 : Boundary 0 input (if (decide (span.start > 0) && byteAt input (span.start - 1) == some '(') = true
      then span.start - 1 else span.start) ∧
      (if (decide (span.start > 0) && byteAt input (span.start - 1) == some '(') = true
      then span.start - 1 else span.start) ≤ span.start := by
    split
    · rename_i hc
      simp only [Bool.and_eq_true, decide_eq_true_eq, beq_iff_eq] at hc
      obtain ⟨pre, suf, e1, e2⟩ := spansA_byteAt input _ _ hc.2
      exact ⟨⟨pre, '(' :: suf, e1, by omega⟩, by omega⟩
    · exact ⟨hs, Nat.le_refl _⟩
  have h2 : Boundary 0 input (if (byteAt input span.stop == some ')') = true then span.stop + 1 else span.stop) ∧
      span.stop ≤ (if (byteAt input span.stop == some ')') = true then span.stop + 1 else span.stop) := by
    split
    · rename_i hc
      simp only [beq_iff_eq] at hc
      obtain ⟨pre, suf, e1, e2⟩ := spansA_byteAt input _ _ hc
      refine ⟨⟨pre ++ [')'], suf, by rw [e1]; simp, ?_⟩, by omega⟩
      rw [utf8Len_append, e2]
      have : utf8Len [')'] = 1 := by decide
      omega
    · exact ⟨he, Nat.le_refl _⟩
  exact ⟨h1.1, h2.1, by have := h1.2; have := h2.2; show _ ≤ _; dsimp only; omega⟩

/-! ### values, quantities, references -/

theorem ColOK.locI_get {input : Str} {s : Col α} (h : ColOK input s) {k : Nat} {li : Loc (PIngredient α)}
    (hk : s.locIngr[k]? = some li) : EvSpansOK 0 input (Ev.ingredient li) :=
  h.locI li (by rw [← Array.getElem?_toList] at hk; exact List.mem_of_getElem? hk)

theorem ColOK.locC_get {input : Str} {s : Col α} (h : ColOK input s) {k : Nat} {lc : Loc (PCookware α)}
    (hk : s.locCw[k]? = some lc) : EvSpansOK 0 input (Ev.cookware lc) :=
  h.locC lc (by rw [← Array.getElem?_toList] at hk; exact List.mem_of_getElem? hk)

theorem valueOf_spOK (input : Str) (env : Env) (v : PQValue α) (b : Bool) (hv : PQValueOK 0 input v) :
    SpOK input (valueOf env v b) := by
  unfold valueOf
  sp_ok
  all_goals exact LabelsOK.one hv.1

theorem quantityOf_spOK (input : Str) (env : Env) (q : Loc (PQuantity α)) (b : Bool) (hq : LocQOK 0 input q) :
    SpOK input (quantityOf env q b) := by
  have := valueOf_spOK input env q.val.value b hq.2.1
  unfold quantityOf
  sp_ok

theorem optQuantityOf_spOK (input : Str) (env : Env) (q : Option (Loc (PQuantity α))) (b : Bool)
    (hq : OptOK (LocQOK 0 input) q) : SpOK input (optQuantityOf env q b) := by
  unfold optQuantityOf
  cases q with
  | none => exact SpOK.pure _
  | some q =>
    have := quantityOf_spOK input env q b hq
    sp_ok

theorem optValueOf_spOK (input : Str) (env : Env) (q : Option (Loc (PQValue α)))
    (hq : OptOK (fun q => SpanOK 0 input q.span ∧ PQValueOK 0 input q.val) q) : SpOK input (optValueOf env q) := by
  unfold optValueOf
  cases q with
  | none => exact SpOK.pure _
  | some q =>
    have := valueOf_spOK input env q.val false hq.2
    sp_ok

theorem resolveReference_spOK (input : Str) (env : Env) (container : String) (inherit : Nat)
    (existing : List (Str × Modifiers)) (name : Str) (mods : Modifiers) (location modLoc : Span)
    (hl : SpanOK 0 input location) (hm : SpanOK 0 input modLoc) :
    SpOK input (resolveReference (α := α) env container inherit existing name mods location modLoc) := by
  unfold resolveReference
  sp_ok
  all_goals first | exact LabelsOK.one hm | exact LabelsOK.one hl

theorem resolveInterRef_spOK (input : Str) (d : Loc InterData) (hd : SpanOK 0 input d.span) :
    SpOK input (resolveInterRef (α := α) d) := by
  unfold resolveInterRef
  sp_ok
  all_goals exact LabelsOK.one hd

theorem noteReferenceError_spOK (input : Str) (noteSpan defSpan : Span) (defNote : Option Span)
    (h1 : SpanOK 0 input noteSpan) (h2 : SpanOK 0 input defSpan) (h3 : OptOK (SpanOK 0 input) defNote) :
    SpOK input (noteReferenceError (α := α) input noteSpan defSpan defNote) := by
  unfold noteReferenceError
  cases defNote with
  | none => exact SpOK.aerr _ _ (LabelsOK.two (spansA_noteRefSpan input _ h1) (SpanOK.pos h2.2.1))
  | some sp => exact SpOK.aerr _ _ (LabelsOK.two (spansA_noteRefSpan input _ h1) h3)

theorem ingrInterChecks_spOK (input : Str) (i : PIngredient α) (igr : Ingredient (ScalableValue α))
    (hm : SpanOK 0 input i.modifiers.span) : SpOK input (ingrInterChecks i igr) := by
  unfold ingrInterChecks
  sp_ok
  all_goals exact LabelsOK.one hm

theorem ingrInter_spOK (input : Str) (i : PIngredient α) (igr : Ingredient (ScalableValue α)) (d : Loc InterData)
    (hm : SpanOK 0 input i.modifiers.span) (hd : SpanOK 0 input d.span) : SpOK input (ingrInter i igr d) := by
  have := ingrInterChecks_spOK input i igr hm
  have := resolveInterRef_spOK (α := α) input d hd
  unfold ingrInter
  sp_ok

theorem ingrUnitChecks_spOK (input : Str) (env : Env) (i : PIngredient α) (newQ : Quantity (ScalableValue α))
    (idxs : List Nat) (hq : OptOK (LocQOK 0 input) i.quantity) : SpOK input (ingrUnitChecks env i newQ idxs) := by
  unfold ingrUnitChecks
  sp_ok
  all_goals
    have hs0 := ‹ColOK input _›
    have := hs0.locI_get ‹(Col.locIngr _)[_]? = some _›
    exact LabelsOK.two (spansA_unitSpan input _ hq) (spansA_unitSpan input _ this.2.2.2.2.2.1)

/-! ### ingredients -/

theorem ingrRefChecks_spOK (input : Str) (env : Env) (li : Loc (PIngredient α)) (igr : Ingredient (ScalableValue α))
    (refTo : Nat) (defn : Ingredient (ScalableValue α)) (defLoc : Loc (PIngredient α))
    (hli : EvSpansOK 0 input (Ev.ingredient li)) (hdef : EvSpansOK 0 input (Ev.ingredient defLoc)) :
    SpOK input (ingrRefChecks env input li igr refTo defn defLoc) := by
  obtain ⟨l1, l2, l3, l4, l5, l6, l7⟩ := hli
  obtain ⟨d1, d2, d3, d4, d5, d6, d7⟩ := hdef
  have hu : ∀ q idxs, SpOK input (ingrUnitChecks env li.val q idxs) := fun q idxs => ingrUnitChecks_spOK input env li.val q idxs l6
  have hn : ∀ n : Text, li.val.note = some n →
      SpOK input (noteReferenceError (α := α) input n.span defLoc.span (defLoc.val.note.map (·.span))) := by
    intro n hn
    rw [hn] at l7
    refine noteReferenceError_spOK input _ _ _ l7.1 d1 ?_
    cases hdn : defLoc.val.note with
    | none => trivial
    | some x => rw [hdn] at d7; exact d7.1
  have hq := spansA_optSpan input _ (spansA_optLocQ input _ l6)
  have hdq := spansA_optSpan input _ (spansA_optLocQ input _ d6)
  unfold ingrRefChecks
  sp_ok
  all_goals first
    | exact hu _ _
    | exact hn _ ‹_›
    | exact LabelsOK.two hq d1
    | exact LabelsOK.two hq hdq
    | exact LabelsOK.two hdq hq

theorem ingrSetReferencedFrom_spOK (input : Str) (refTo newIndex : Nat) (defn : Ingredient (ScalableValue α)) :
    SpOK input (ingrSetReferencedFrom refTo newIndex defn) := by
  unfold ingrSetReferencedFrom
  split
  · exact SpOK.modify _ (fun s h => h.congr rfl rfl rfl rfl rfl)
  · exact SpOK.apanic _

theorem ingrRegular_spOK (input : Str) (env : Env) (li : Loc (PIngredient α)) (igr0 : Ingredient (ScalableValue α))
    (hli : EvSpansOK 0 input (Ev.ingredient li)) : SpOK input (ingrRegular env input li igr0) := by
  have hr : ∀ c n e nm m, SpOK input (resolveReference (α := α) env c n e nm m li.span li.val.modifiers.span) :=
    fun c n e nm m => resolveReference_spOK input env c n e nm m _ _ hli.1 hli.2.1
  have hs : ∀ a b c, SpOK input (ingrSetReferencedFrom (α := α) a b c) := fun a b c => ingrSetReferencedFrom_spOK input a b c
  unfold ingrRegular
  sp_ok
  all_goals first
    | exact hr _ _ _ _ _
    | exact hs _ _ _
    | (exact ingrRefChecks_spOK input env li _ _ _ _ hli (ColOK.locI_get ‹ColOK input _› ‹(Col.locIngr _)[_]? = some _›))

theorem ingrBuild_spOK (input : Str) (env : Env) (li : Loc (PIngredient α)) (igr0 : Ingredient (ScalableValue α))
    (hli : EvSpansOK 0 input (Ev.ingredient li)) : SpOK input (ingrBuild env input li igr0) := by
  have h1 := ingrRegular_spOK input env li igr0 hli
  have h2 : ∀ d, li.val.inter = some d → SpOK input (ingrInter li.val igr0 d) := by
    intro d hd
    have := hli.2.2.1
    rw [hd] at this
    exact ingrInter_spOK input li.val igr0 d hli.2.1 this
  unfold ingrBuild
  apply SpOK.bind
  · split
    · exact h2 _ ‹_›
    · exact h1
  intro igr
  apply SpOK.bind
  · refine SpOK.modify _ (fun s h => ⟨h.diags, ?_, h.locC, h.metaLocs, h.oldStyle⟩)
    intro x hx
    simp only [Array.toList_push, List.mem_append, List.mem_singleton] at hx
    rcases hx with hx | rfl
    · exact h.locI x hx
    · exact hli
  intro _
  sp_ok

theorem ingredientA_spOK (input : Str) (env : Env) (li : Loc (PIngredient α))
    (hli : EvSpansOK 0 input (Ev.ingredient li)) : SpOK input (ingredientA env input li) := by
  have h1 := optQuantityOf_spOK input env li.val.quantity true hli.2.2.2.2.2.1
  have h2 : ∀ g, SpOK input (ingrBuild env input li g) := fun g => ingrBuild_spOK input env li g hli
  unfold ingredientA
  sp_ok
  all_goals exact h2 _

/-! ### cookware -/

theorem cwRefChecks_spOK (input : Str) (lc : Loc (PCookware α)) (cw : Cookware (ScalableValue α))
    (defn : Cookware (ScalableValue α)) (defLoc : Loc (PCookware α))
    (hlc : EvSpansOK 0 input (Ev.cookware lc)) (hdef : EvSpansOK 0 input (Ev.cookware defLoc)) :
    SpOK input (cwRefChecks input lc cw defn defLoc) := by
  obtain ⟨l1, l2, l3, l4, l5, l6⟩ := hlc
  obtain ⟨d1, d2, d3, d4, d5, d6⟩ := hdef
  have hn : ∀ n : Text, lc.val.note = some n →
      SpOK input (noteReferenceError (α := α) input n.span defLoc.span (defLoc.val.note.map (·.span))) := by
    intro n hn
    rw [hn] at l6
    refine noteReferenceError_spOK input _ _ _ l6.1 d1 ?_
    cases hdn : defLoc.val.note with
    | none => trivial
    | some x => rw [hdn] at d6; exact d6.1
  have hq : SpanOK 0 input ((lc.val.quantity.map (·.span)).getD ⟨0, 0⟩) := by
    apply spansA_optSpan
    cases hx : lc.val.quantity with
    | none => trivial
    | some x => rw [hx] at l5; exact l5.1
  have hdq : SpanOK 0 input ((defLoc.val.quantity.map (·.span)).getD ⟨0, 0⟩) := by
    apply spansA_optSpan
    cases hx : defLoc.val.quantity with
    | none => trivial
    | some x => rw [hx] at d5; exact d5.1
  unfold cwRefChecks
  sp_ok
  all_goals first
    | exact hn _ ‹_›
    | exact LabelsOK.two hq d1
    | exact LabelsOK.two hq hdq
    | exact LabelsOK.two hdq hq

theorem cwSetReferencedFrom_spOK (input : Str) (refTo newIndex : Nat) (defn : Cookware (ScalableValue α)) :
    SpOK input (cwSetReferencedFrom refTo newIndex defn) := by
  unfold cwSetReferencedFrom
  split
  · exact SpOK.modify _ (fun s h => h.congr rfl rfl rfl rfl rfl)
  · exact SpOK.apanic _

theorem cwResolve_spOK (input : Str) (env : Env) (lc : Loc (PCookware α)) (cw0 : Cookware (ScalableValue α))
    (hlc : EvSpansOK 0 input (Ev.cookware lc)) : SpOK input (cwResolve env input lc cw0) := by
  have hr : ∀ c n e nm m, SpOK input (resolveReference (α := α) env c n e nm m lc.span lc.val.modifiers.span) :=
    fun c n e nm m => resolveReference_spOK input env c n e nm m _ _ hlc.1 hlc.2.1
  have hs : ∀ a b c, SpOK input (cwSetReferencedFrom (α := α) a b c) := fun a b c => cwSetReferencedFrom_spOK input a b c
  unfold cwResolve
  sp_ok
  all_goals first
    | exact hr _ _ _ _ _
    | exact hs _ _ _
    | (exact cwRefChecks_spOK input lc _ _ _ hlc (ColOK.locC_get ‹ColOK input _› ‹(Col.locCw _)[_]? = some _›))

theorem cwBuild_spOK (input : Str) (env : Env) (lc : Loc (PCookware α)) (cw0 : Cookware (ScalableValue α))
    (hlc : EvSpansOK 0 input (Ev.cookware lc)) : SpOK input (cwBuild env input lc cw0) := by
  have h1 := cwResolve_spOK input env lc cw0 hlc
  unfold cwBuild
  apply SpOK.bind h1
  intro cw
  apply SpOK.bind
  · refine SpOK.modify _ (fun s h => ⟨h.diags, h.locI, ?_, h.metaLocs, h.oldStyle⟩)
    intro x hx
    simp only [Array.toList_push, List.mem_append, List.mem_singleton] at hx
    rcases hx with hx | rfl
    · exact h.locC x hx
    · exact hlc
  intro _
  sp_ok

theorem cookwareA_spOK (input : Str) (env : Env) (lc : Loc (PCookware α))
    (hlc : EvSpansOK 0 input (Ev.cookware lc)) : SpOK input (cookwareA env input lc) := by
  have h1 := optValueOf_spOK input env lc.val.quantity hlc.2.2.2.2.1
  have h2 : ∀ g, SpOK input (cwBuild env input lc g) := fun g => cwBuild_spOK input env lc g hlc
  unfold cookwareA
  sp_ok
  all_goals exact h2 _

/-! ### timers -/

theorem timerQuantityChecks_spOK (input : Str) (env : Env) (q : Loc (PQuantity α)) (r : Quantity (ScalableValue α))
    (hq : LocQOK 0 input q) : SpOK input (timerQuantityChecks env q r) := by
  have hu := spansA_optText input q.val.unit ⟨0, 0⟩ hq.2.2 (spansA_zero input)
  unfold timerQuantityChecks
  sp_ok
  all_goals first
    | exact LabelsOK.one hq.2.1.1
    | exact LabelsOK.one hu

theorem timerQuantity_spOK (input : Str) (env : Env) (tq : Option (Loc (PQuantity α)))
    (hq : OptOK (LocQOK 0 input) tq) : SpOK input (timerQuantity env tq) := by
  unfold timerQuantity
  cases tq with
  | none => exact SpOK.pure _
  | some q =>
    have := quantityOf_spOK input env q false hq
    have h2 : ∀ r, SpOK input (timerQuantityChecks env q r) := fun r => timerQuantityChecks_spOK input env q r hq
    sp_ok
    all_goals exact h2 _

theorem timerA_spOK (input : Str) (env : Env) (lt : Loc (PTimer α))
    (hlt : EvSpansOK 0 input (Ev.timer lt)) : SpOK input (timerA env lt) := by
  have := timerQuantity_spOK input env lt.val.quantity hlt.2.2
  unfold timerA
  apply SpOK.bind this
  intro q
  apply SpOK.bind
  · exact SpOK.modify _ (fun s h => h.congr rfl rfl rfl rfl rfl)
  intro _
  sp_ok

/-! ### step and text items -/

theorem inStepTextStep_spOK (input : Str) (env : Env) (t : Text) (items : List Item) (ht : TextOK 0 input t) :
    SpOK input (inStepTextStep (α := α) env t items) := by
  unfold inStepTextStep
  sp_ok
  all_goals first
    | exact LabelsOK.one ht.1
    | exact SpOK.modify _ (fun s h => h.congr rfl rfl rfl rfl rfl)

theorem inStepText_spOK (input : Str) (env : Env) (t : Text) (ht : TextOK 0 input t) :
    SpOK input (inStepText (α := α) env t) := by
  have h1 : ∀ items, SpOK input (inStepTextStep (α := α) env t items) := fun items => inStepTextStep_spOK input env t items ht
  unfold inStepText
  sp_ok
  all_goals first
    | exact h1 _
    | exact SpOK.modify _ (fun s h => h.congr rfl rfl rfl rfl rfl)

theorem pushItem_spOK (input : Str) (it : Item) : SpOK input (pushItem (α := α) it) := by
  unfold pushItem
  sp_ok
  all_goals
    have h0 := ‹ColOK input _›
    exact SpOK.set _ (h0.congr rfl rfl rfl rfl rfl)

theorem inStepComponent_spOK (input : Str) (env : Env) (ev : Ev α) (hev : EvSpansOK 0 input ev) :
    SpOK input (inStepComponent env input ev) := by
  have hp : ∀ it, SpOK input (pushItem (α := α) it) := fun it => pushItem_spOK input it
  unfold inStepComponent
  cases ev with
  | ingredient i => exact SpOK.bind (ingredientA_spOK input env i hev) (fun _ => hp _)
  | cookware c => exact SpOK.bind (cookwareA_spOK input env c hev) (fun _ => hp _)
  | timer t => exact SpOK.bind (timerA_spOK input env t hev) (fun _ => hp _)
  | _ => exact SpOK.apanic _

theorem inTextComponent_spOK (input : Str) (ev : Ev α) (buf : Str) (hev : EvSpansOK 0 input ev) :
    SpOK input (inTextComponent input ev buf) := by
  have hm : ∀ f : Col α → Col α, (∀ s, (f s).diags = s.diags ∧ (f s).locIngr = s.locIngr ∧ (f s).locCw = s.locCw ∧
      (f s).metaLocs = s.metaLocs ∧ (f s).oldStyleUsed = s.oldStyleUsed) → SpOK input (modify f : A α PUnit) :=
    fun f hf => SpOK.modify _ (fun s h => h.congr (hf s).1 (hf s).2.1 (hf s).2.2.1 (hf s).2.2.2.1 (hf s).2.2.2.2)
  unfold inTextComponent
  cases ev <;> sp_ok
  all_goals first
    | exact LabelsOK.one hev.1
    | exact LabelsOK.one (spansA_zero input)
    | exact hm _ (fun s => ⟨rfl, rfl, rfl, rfl, rfl⟩)

theorem inBlockComponent_spOK (input : Str) (env : Env) (ev : Ev α) (hev : EvSpansOK 0 input ev) :
    SpOK input (inBlockComponent env input ev) := by
  have h1 := inStepComponent_spOK input env ev hev
  have h2 : ∀ buf, SpOK input (inTextComponent input ev buf) := fun buf => inTextComponent_spOK input ev buf hev
  unfold inBlockComponent
  sp_ok
  all_goals exact h2 _

/-! ### `>>` metadata -/

theorem spansA_insertionSort_foldl (l acc : List Span) (y : Span)
    (h : y ∈ l.foldl (fun acc x =>
      let lt (a b : Span) : Bool := a.start < b.start || (a.start == b.start && a.stop < b.stop)
      (acc.takeWhile (fun y => !lt x y)) ++ [x] ++ (acc.dropWhile (fun y => !lt x y))) acc) : y ∈ acc ∨ y ∈ l := by
  induction l generalizing acc with
  | nil => exact Or.inl h
  | cons x xs ih =>
    simp only [List.foldl_cons] at h
    rcases ih _ h with h1 | h1
    · simp only [List.append_assoc, List.mem_append, List.mem_cons, List.not_mem_nil, or_false] at h1
      rcases h1 with h1 | h1 | h1
      · exact Or.inl ((List.takeWhile_sublist _).subset h1)
      · exact Or.inr (by rw [h1]; exact List.mem_cons_self)
      · exact Or.inl ((List.dropWhile_sublist _).subset h1)
    · exact Or.inr (List.mem_cons_of_mem _ h1)

theorem spansA_insertionSort_mem (l : List Span) (y : Span) (h : y ∈ insertionSort l) : y ∈ l := by
  unfold insertionSort at h
  rcases spansA_insertionSort_foldl l [] y h with h1 | h1
  · cases h1
  · exact h1

theorem spansA_labels_append {input : Str} {a : List Span} {b : Span} (ha : ∀ x ∈ a, SpanOK 0 input x)
    (hb : SpanOK 0 input b) : LabelsOK input (a ++ [b]) := by
  apply LabelsOK.mk
  intro l hl
  simp only [List.mem_append, List.mem_singleton] at hl
  rcases hl with hl | rfl
  · exact ha l hl
  · exact hb

theorem spansA_head_getD {input : Str} {a : List Span} (ha : ∀ x ∈ a, SpanOK 0 input x) :
    SpanOK 0 input ((a[0]?).getD ⟨0, 0⟩) := by
  cases a with
  | nil => exact spansA_zero input
  | cons x xs => exact ha x List.mem_cons_self

theorem timeOverrideCheck_spOK (input : Str) (new : StdKey) : SpOK input (timeOverrideCheck (α := α) new) := by
  unfold timeOverrideCheck
  apply SpOK.bindGet
  intro s0 hs0
  have hlocs : ∀ keys : List StdKey, ∀ x ∈ insertionSort
      (keys.filterMap (fun k => (s0.metaLocs.find? (fun p => p.1 == k)).map (·.2))), SpanOK 0 input x := by
    intro keys x hx
    have := spansA_insertionSort_mem _ _ hx
    simp only [List.mem_filterMap, Option.map_eq_some_iff] at this
    obtain ⟨k, _, p, hp, rfl⟩ := this
    exact hs0.metaLocs p (List.mem_of_find?_eq_some hp)
  have hm : ∀ keys : List StdKey, SpOK input (modify (fun s : Col α =>
      { s with metaLocs := s.metaLocs.filter (fun p => !keys.contains p.1) }) : A α PUnit) := by
    intro keys
    refine SpOK.modify _ (fun s h => ⟨h.diags, h.locI, h.locC, ?_, h.oldStyle⟩)
    intro p hp
    exact h.metaLocs p (List.mem_filter.mp hp).1
  sp_ok
  all_goals first
    | exact hm _
    | exact spansA_labels_append (hlocs _) (spansA_head_getD (hlocs _))

theorem metadataA_spOK (input : Str) (env : Env) (key value : Text)
    (hev : EvSpansOK (α := α) 0 input (Ev.metadata key value)) : SpOK input (metadataA (α := α) env key value) := by
  obtain ⟨hk, hv, hkv⟩ := hev
  have hsp : SpanOK 0 input ⟨key.span.start, value.span.stop⟩ :=
    ⟨hk.1.1, hv.1.2.1, by have := hk.1.2.2; have := hv.1.2.2; show key.span.start ≤ value.span.stop; omega⟩
  have ht : ∀ k, SpOK input (timeOverrideCheck (α := α) k) := fun k => timeOverrideCheck_spOK input k
  have hm : ∀ f : Col α → Col α, (∀ s, (f s).diags = s.diags ∧ (f s).locIngr = s.locIngr ∧ (f s).locCw = s.locCw ∧
      (f s).metaLocs = s.metaLocs ∧ (f s).oldStyleUsed = s.oldStyleUsed) → SpOK input (modify f : A α PUnit) :=
    fun f hf => SpOK.modify _ (fun s h => h.congr (hf s).1 (hf s).2.1 (hf s).2.2.1 (hf s).2.2.2.1 (hf s).2.2.2.2)
  have hold : ∀ m : Col α → List (Str × Str), SpOK input (modify (fun s : Col α =>
      { s with oldStyleUsed := s.oldStyleUsed ++ [⟨key.span.start, value.span.stop⟩], metaMap := m s }) : A α PUnit) := by
    intro m
    refine SpOK.modify _ (fun s h => ⟨h.diags, h.locI, h.locC, h.metaLocs, ?_⟩)
    intro x hx
    simp only [List.mem_append, List.mem_singleton] at hx
    rcases hx with hx | rfl
    · exact h.oldStyle x hx
    · exact hsp
  have hloc : ∀ sk : StdKey, SpOK input (modify (fun s : Col α => { s with metaLocs :=
      (s.metaLocs.filter (fun p => p.1 != sk)) ++ [(sk, ⟨key.span.start, value.span.stop⟩)] }) : A α PUnit) := by
    intro sk
    refine SpOK.modify _ (fun s h => ⟨h.diags, h.locI, h.locC, ?_, h.oldStyle⟩)
    intro x hx
    simp only [List.mem_append, List.mem_singleton] at hx
    rcases hx with hx | rfl
    · exact h.metaLocs x (List.mem_filter.mp hx).1
    · exact hsp
  unfold metadataA
  sp_ok
  all_goals first
    | exact ht _
    | exact hold _
    | exact hloc _
    | exact LabelsOK.two hv.1 hk.1
    | exact LabelsOK.one hk.1
    | exact hm _ (fun s => ⟨rfl, rfl, rfl, rfl, rfl⟩)

/-! ### the end of a block, every event -/

theorem endBlock_spOK (input : Str) (kind : BlockKind) : SpOK input (endBlock (α := α) kind) := by
  have hm : ∀ f : Col α → Col α, (∀ s, (f s).diags = s.diags ∧ (f s).locIngr = s.locIngr ∧ (f s).locCw = s.locCw ∧
      (f s).metaLocs = s.metaLocs ∧ (f s).oldStyleUsed = s.oldStyleUsed) → SpOK input (modify f : A α PUnit) :=
    fun f hf => SpOK.modify _ (fun s h => h.congr (hf s).1 (hf s).2.1 (hf s).2.2.1 (hf s).2.2.2.1 (hf s).2.2.2.2)
  unfold endBlock endBlockContent pushContent
  sp_ok
  all_goals exact hm _ (fun s => ⟨rfl, rfl, rfl, rfl, rfl⟩)

theorem processEvent_spOK (input : Str) (env : Env) (ev : Ev α) (hev : EvSpansOK 0 input ev) :
    SpOK input (processEvent env input ev) := by
  have hm : ∀ f : Col α → Col α, (∀ s, (f s).diags = s.diags ∧ (f s).locIngr = s.locIngr ∧ (f s).locCw = s.locCw ∧
      (f s).metaLocs = s.metaLocs ∧ (f s).oldStyleUsed = s.oldStyleUsed) → SpOK input (modify f : A α PUnit) :=
    fun f hf => SpOK.modify _ (fun s h => h.congr (hf s).1 (hf s).2.1 (hf s).2.2.1 (hf s).2.2.2.1 (hf s).2.2.2.2)
  cases ev with
  | frontMatter t => exact hm _ (fun s => ⟨rfl, rfl, rfl, rfl, rfl⟩)
  | metadata k v => exact metadataA_spOK input env k v hev
  | «section» name => exact hm _ (fun s => ⟨rfl, rfl, rfl, rfl, rfl⟩)
  | start kind => exact hm _ (fun s => ⟨rfl, rfl, rfl, rfl, rfl⟩)
  | stop kind => exact endBlock_spOK input kind
  | text t => exact inStepText_spOK input env t hev
  | ingredient i => exact inBlockComponent_spOK input env _ hev
  | cookware c => exact inBlockComponent_spOK input env _ hev
  | timer t => exact inBlockComponent_spOK input env _ hev
  | error d => exact SpOK.pure _
  | warning d => exact SpOK.modify _ (fun s h => h.pushDiag d hev)

/-- every diagnostic `parse_events` reports — the analysis diagnostics of a complete run, or the
    parse-stage diagnostics kept when a parse error cuts the run short — has valid labels; so has
    every location recorded in the collector it returns -/
theorem parseEventsLoop_spOK (input : Str) (env : Env) (evs : List (Ev α)) (s : Col α)
    (hs : ColOK input s) (hev : ∀ ev ∈ evs, EvSpansOK 0 input ev) :
    (∀ d ∈ (parseEventsLoop env input evs s).diags.toList, DiagOK 0 input d) ∧
    (∀ c, (parseEventsLoop env input evs s).output = some c → ColOK input c) := by
  induction evs generalizing s with
  | nil =>
    simp only [parseEventsLoop]
    have h1 : ColOK input (if (!s.cur.isEmpty) = true then { s with sections := s.sections ++ [s.cur], cur := ⟨none, []⟩ } else s) := by
      split
      · exact hs.congr rfl rfl rfl rfl rfl
      · exact hs
    generalize (if (!s.cur.isEmpty) = true then { s with sections := s.sections ++ [s.cur], cur := ⟨none, []⟩ } else s) = s1 at h1
    have h2 : ColOK input (if (!s1.oldStyleUsed.isEmpty) = true then
        { s1 with diags := s1.diags.push ⟨.warning, .analysis, "meta-deprecated", s1.oldStyleUsed⟩ } else s1) := by
      split
      · exact h1.pushDiag _ h1.oldStyle
      · exact h1
    exact ⟨h2.diags, fun c hc => by cases hc; exact h2⟩
  | cons ev rest ih =>
    by_cases he : ∃ d0, ev = .error d0
    · obtain ⟨d0, rfl⟩ := he
      simp only [parseEventsLoop]
      refine ⟨?_, fun c hc => by cases hc⟩
      intro d hd
      simp only [Array.toList_filter, List.mem_filter, Array.toList_append, Array.toList_push, List.mem_append,
        List.mem_singleton, List.mem_filterMap] at hd
      rcases hd.1 with (h | rfl) | ⟨e, he, hde⟩
      · exact hs.diags d h
      · exact hev _ List.mem_cons_self
      · have := hev e (List.mem_cons_of_mem _ he)
        cases e <;> simp only [isDiagEv, Option.some.injEq, reduceCtorEq] at hde <;> subst hde <;> exact this
    · rw [parseEventsLoop_cons_nonerror env input ev rest s he]
      exact ih _ ((processEvent_spOK input env ev (hev ev List.mem_cons_self)).out s hs)
        (fun e he' => hev e (List.mem_cons_of_mem _ he'))

end Cook
