import CookModel.Num.Fraction
import CookModel.Lemmas.ArithRat
namespace Cook
open Arith

theorem newApprox_nonpos (t : List FracEntry) (v acc : Rat) (maxDen maxWhole : Nat)
    (h : v ≤ 0) : newApprox t v acc maxDen maxWhole = none := by
  unfold newApprox
  simp [h]

def wholeOf (v : Rat) : Nat := (clampInt 0 u32Max (ratTrunc v)).toNat
def roundedOf (v : Rat) : Nat := (clampInt 0 u32Max (ratRound v)).toNat

theorem newApprox_cases (t : List FracEntry) (v acc : Rat) (maxDen maxWhole : Nat) (n : Number Rat)
    (h : newApprox t v acc maxDen maxWhole = some n) :
    0 < v ∧ wholeOf v ≤ maxWhole ∧ wholeOf v ≠ u32Max ∧
    ( (n = .regular v ∧ v - (ratTrunc v : Rat) < Gen.APPROX_EPS.rat)
    ∨ (n = .fraction (roundedOf v) 0 1 (v - (ratRound v : Rat)) ∧
         Rat.abs (v - (ratRound v : Rat)) < acc * v ∧ 0 < roundedOf v ∧ roundedOf v ≤ maxWhole)
    ∨ (∃ e, lookup t (v - (ratTrunc v : Rat)) maxDen = some e ∧
         n = .fraction (wholeOf v) e.num e.den (v - ((wholeOf v : Rat) + (e.num : Rat) / (e.den : Rat))) ∧
         ¬ (acc * v < Rat.abs (v - ((wholeOf v : Rat) + (e.num : Rat) / (e.den : Rat)))))) := by
  unfold newApprox at h
  simp only [rat_le, rat_isFinite, rat_ofNat, rat_lt, rat_toU32, rat_trunc, rat_fract, rat_const,
    rat_round, rat_sub, rat_mul, rat_abs, rat_add, rat_div, rat_abs_eq, ratTrunc_intCast,
    decide_eq_true_eq, Bool.or_eq_true, Bool.and_eq_true, Bool.not_true] at h
  split at h
  · cases h
  rename_i h0
  split at h
  · cases h
  rename_i h1
  have hv : 0 < v := by
    have : ¬ v ≤ 0 := by simpa using h0
    exact Rat.not_le.mp this
  have hw : wholeOf v ≤ maxWhole ∧ wholeOf v ≠ u32Max := by
    simpa [wholeOf, Nat.not_lt] using h1
  refine ⟨hv, hw.1, hw.2, ?_⟩
  split at h
  · rename_i h2
    left
    simp only [Option.some.injEq] at h
    exact ⟨h.symm, by simpa using h2⟩
  split at h
  · rename_i h3
    right; left
    simp only [Option.some.injEq] at h
    exact ⟨h.symm, h3.1.1, h3.1.2, h3.2⟩
  split at h
  · cases h
  rename_i e he
  split at h
  · cases h
  rename_i h5
  right; right
  simp only [Option.some.injEq] at h
  exact ⟨e, he, h.symm, by simpa [wholeOf] using h5⟩

theorem newApprox_pos (t : List FracEntry) (v acc : Rat) (maxDen maxWhole : Nat) (n : Number Rat)
    (h : newApprox t v acc maxDen maxWhole = some n) : 0 < v :=
  (newApprox_cases t v acc maxDen maxWhole n h).1

theorem roundedOf_exact {v : Rat} (hv : 0 ≤ v) (h : wholeOf v ≠ u32Max) :
    ((roundedOf v : Nat) : Rat) = (ratRound v : Rat) := by
  have := toU32_round_exact hv h
  simp only [ratTrunc_intCast] at this
  unfold roundedOf
  exact_mod_cast this

theorem find?_mem_prop {α} (p : α → Bool) (l : List α) (x : α) (h : l.find? p = some x) :
    x ∈ l ∧ p x = true := ⟨List.mem_of_find?_eq_some h, List.find?_some h⟩

theorem pickNeighbour_mem (fixed : Int) (maxDen : Nat) (lo hi : List FracEntry) (e : FracEntry)
    (h : pickNeighbour fixed maxDen lo hi = some e) : (e ∈ lo ∨ e ∈ hi) ∧ e.den ≤ maxDen := by
  unfold pickNeighbour at h
  simp only at h
  split at h
  · rename_i h1 h2
    simp only [Option.some.injEq] at h; subst h
    have := find?_mem_prop _ _ _ h2
    exact ⟨Or.inr this.1, by simpa using this.2⟩
  · rename_i h1 h2
    simp only [Option.some.injEq] at h; subst h
    have := find?_mem_prop _ _ _ h1
    exact ⟨Or.inl (by simpa using this.1), by simpa using this.2⟩
  · rename_i a b h1 h2
    have ha := find?_mem_prop _ _ _ h1
    have hb := find?_mem_prop _ _ _ h2
    split at h <;> (simp only [Option.some.injEq] at h; subst h)
    · exact ⟨Or.inl (by simpa using ha.1), by simpa using ha.2⟩
    · exact ⟨Or.inr hb.1, by simpa using hb.2⟩
  · cases h

theorem lookupKey_mem (t : List FracEntry) (fixed : Int) (maxDen : Nat) (e : FracEntry)
    (h : lookupKey t fixed maxDen = some e) : e ∈ t ∧ e.den ≤ maxDen := by
  unfold lookupKey at h
  simp only at h
  have hsub : ∀ x, (x ∈ t.takeWhile (fun e => decide (e.key < fixed)) ∨
      x ∈ t.dropWhile (fun e => decide (e.key < fixed))) → x ∈ t := by
    intro x hx
    rcases hx with hx | hx
    · exact (List.takeWhile_sublist _).subset hx
    · exact (List.dropWhile_sublist _).subset hx
  split at h
  · rename_i e0 rest heq
    split at h
    · rename_i hc
      simp only [Option.some.injEq] at h; subst h
      refine ⟨hsub _ (Or.inr ?_), hc.2⟩
      rw [heq]; simp
    · have := pickNeighbour_mem _ _ _ _ _ h
      exact ⟨hsub _ this.1, this.2⟩
  · rename_i heq
    have := pickNeighbour_mem _ _ _ _ _ h
    exact ⟨hsub _ this.1, this.2⟩

theorem newApprox_value (t : List FracEntry) (v acc : Rat) (maxDen maxWhole : Nat) (n : Number Rat)
    (h : newApprox t v acc maxDen maxWhole = some n) : n.value = v := by
  obtain ⟨hv, _, hne, hc⟩ := newApprox_cases t v acc maxDen maxWhole n h
  rcases hc with ⟨rfl, _⟩ | ⟨rfl, _⟩ | ⟨e, _, rfl, _⟩
  · rfl
  · simp only [Number.value, rat_ofNat, rat_add, rat_div]
    rw [roundedOf_exact (Rat.le_of_lt hv) hne]; grind
  · simp only [Number.value, rat_ofNat, rat_add, rat_div]; grind

theorem newApprox_err (t : List FracEntry) (v acc : Rat) (maxDen maxWhole w n d : Nat) (e : Rat)
    (h : newApprox t v acc maxDen maxWhole = some (.fraction w n d e)) : Rat.abs e ≤ acc * v := by
  obtain ⟨_, _, _, hc⟩ := newApprox_cases t v acc maxDen maxWhole _ h
  rcases hc with ⟨h1, _⟩ | ⟨h1, h2, _⟩ | ⟨e', _, h1, h2⟩
  · cases h1
  · cases h1; exact Rat.le_of_lt h2
  · cases h1; exact Rat.not_lt.mp h2

theorem newApprox_shape (t : List FracEntry) (v acc : Rat) (maxDen maxWhole w n d : Nat) (e : Rat)
    (ht : tableOK Gen.DENOMS t = true)
    (h : newApprox t v acc maxDen maxWhole = some (.fraction w n d e)) :
    w ≤ maxWhole ∧ ((n = 0 ∧ d = 1) ∨ (0 < n ∧ n < d ∧ d ≤ maxDen ∧ d ∈ Gen.DENOMS)) := by
  obtain ⟨_, hw, _, hc⟩ := newApprox_cases t v acc maxDen maxWhole _ h
  rcases hc with ⟨h1, _⟩ | ⟨h1, _, _, h4⟩ | ⟨e', hl, h1, _⟩
  · cases h1
  · cases h1; exact ⟨h4, Or.inl ⟨rfl, rfl⟩⟩
  · cases h1
    refine ⟨hw, Or.inr ?_⟩
    have hm := lookupKey_mem t _ maxDen e' hl
    have hok := (List.all_eq_true.mp ht) e' hm.1
    simp only [entryOK, Bool.and_eq_true, decide_eq_true_eq, List.contains_eq_mem] at hok
    exact ⟨hok.1.1, hok.1.2, hm.2, hok.2⟩

theorem newApprox_regular (t : List FracEntry) (v acc : Rat) (maxDen maxWhole : Nat) (x : Rat)
    (h : newApprox t v acc maxDen maxWhole = some (.regular x)) :
    x = v ∧ v - (ratTrunc v : Rat) < Gen.APPROX_EPS.rat ∧ (ratTrunc v).toNat ≤ maxWhole := by
  obtain ⟨hv, hw, hne, hc⟩ := newApprox_cases t v acc maxDen maxWhole _ h
  rcases hc with ⟨h1, h2⟩ | ⟨h1, _⟩ | ⟨e', _, h1, _⟩
  · cases h1
    refine ⟨rfl, h2, ?_⟩
    have := toU32_trunc_exact (Rat.le_of_lt hv) hne
    rw [ratTrunc_nonneg (Rat.le_of_lt hv)]
    unfold wholeOf at hw; omega
  · cases h1
  · cases h1

theorem newApprox_int (t : List FracEntry) (k : Nat) (acc : Rat) (maxDen maxWhole : Nat)
    (hk : 0 < k) (hle : k ≤ maxWhole) (hlt : k < u32Max) (heps : 0 < Gen.APPROX_EPS.rat) :
    newApprox t (k : Rat) acc maxDen maxWhole = some (.regular (k : Rat)) := by
  have hk' : ¬ ((k : Rat) ≤ 0) := by
    apply Rat.not_le.mpr
    exact_mod_cast hk
  have htr : ratTrunc (k : Rat) = (k : Int) := by
    exact ratTrunc_intCast (k : Int)
  have hcl : (clampInt 0 u32Max (k : Int)).toNat = k := by
    unfold clampInt u32Max at *; split <;> (try split) <;> omega
  unfold newApprox
  simp only [rat_le, rat_isFinite, rat_ofNat, rat_lt, rat_toU32, rat_trunc, rat_fract, rat_const,
    ratTrunc_intCast, htr, hcl]
  have hz : (k : Rat) - ((k : Int) : Rat) = 0 := by
    have : ((k : Int) : Rat) = (k : Rat) := by norm_cast
    rw [this]; grind
  simp [hk', Nat.not_lt.mpr hle, Nat.ne_of_lt hlt, heps, hz]

theorem fracForm_denote (w n d : Nat) :
    (fracForm false w n d).denote = (w : Rat) + (n : Rat) / d := by
  unfold fracForm
  simp only [Bool.false_eq_true, if_false]
  split
  · rename_i h; simp only [FracForm.denote, h.1, h.2]; grind
  · split
    · rename_i h; simp only [FracForm.denote, h]; grind
    · split
      · rename_i h; simp only [FracForm.denote, h]; grind
      · simp [FracForm.denote]

end Cook
