import CookModel.Analysis.Collector
import CookModel.Side.Builder
import CookModel.Syntax.CharTable
/-
  C18: hash maps that are only looked up.  The parser reads the converter's `UnitIndex`
  (`HashMap<Arc<str>, usize>`, src/convert/mod.rs:246) only through `get`; the model of that map is
  the association list `Bld.Index` with `Bld.idxGet`.  Here: lookups in an association list with
  unique keys do not depend on the order of its entries, nor on the order in which the entries were
  inserted (`HashMap::insert`), hence neither does anything computed from the lookups.
  (`det_` prefix.)
-/
namespace Cook
open Bld

/-- `List.lookup` in an association list with unique keys is invariant under permutation -/
theorem det_lookup_perm {κ β : Type} [BEq κ] [LawfulBEq κ] {l l' : List (κ × β)} (hp : l.Perm l')
    (hu : (l.map (·.1)).Nodup) (k : κ) : l.lookup k = l'.lookup k := by
  induction hp with
  | nil => rfl
  | cons x _ ih =>
    obtain ⟨a, b⟩ := x
    simp only [List.map_cons, List.nodup_cons] at hu
    simp only [List.lookup_cons, ih hu.2]
  | swap x y l =>
    obtain ⟨a, b⟩ := x
    obtain ⟨c, d⟩ := y
    simp only [List.map_cons, List.nodup_cons, List.mem_cons, not_or] at hu
    have hne : ¬ c = a := hu.1.1
    simp only [List.lookup_cons]
    by_cases h1 : k = a
    · subst h1
      have : (k == c) = false := by simpa using fun h => hne h.symm
      simp [this]
    · have : (k == a) = false := by simpa using h1
      simp [this]
  | trans h1 _ ih1 ih2 =>
    rw [ih1 hu, ih2 ((h1.map _).nodup_iff.1 hu)]

/-- `idxGet` (the model of `HashMap::get` on the unit index) is `List.lookup` -/
theorem det_idxGet_eq_lookup (idx : Index) (k : Key) : idxGet idx k = idx.lookup k := by
  induction idx with
  | nil => rfl
  | cons e t ih =>
    obtain ⟨k', v⟩ := e
    simp only [idxGet, List.lookup_cons, ih]
    by_cases h : k = k'
    · subst h; simp
    · have : (k == k') = false := by simpa using h
      simp [h, this]

/-- the unit index as a lookup function does not depend on the order of its entries -/
theorem det_idxGet_perm {idx idx' : Index} (hp : idx.Perm idx') (hu : (idx.map (·.1)).Nodup) (k : Key) :
    idxGet idx k = idxGet idx' k := by
  rw [det_idxGet_eq_lookup, det_idxGet_eq_lookup, det_lookup_perm hp hu]

/-- `HashMap::insert`: the new value replaces an existing one -/
def idxInsert (idx : Index) (e : Key × Nat) : Index := e :: idxErase idx e.1

theorem det_idxGet_erase (idx : Index) (k k' : Key) :
    idxGet (idxErase idx k) k' = if k' = k then none else idxGet idx k' := by
  induction idx with
  | nil => simp [idxErase, idxGet]
  | cons e t ih =>
    obtain ⟨a, v⟩ := e
    unfold idxErase at ih ⊢
    by_cases h : a = k
    · subst h
      simp only [List.filter_cons, ne_eq, not_true_eq_false, decide_false, Bool.false_eq_true, if_false, ih, idxGet]
      by_cases h2 : k' = a <;> simp [h2]
    · simp only [List.filter_cons, ne_eq, h, not_false_eq_true, decide_true, if_true, idxGet, ih]
      by_cases h2 : k' = a
      · subst h2; simp [h]
      · simp [h2]

theorem det_idxGet_insert (idx : Index) (e : Key × Nat) (k : Key) :
    idxGet (idxInsert idx e) k = if k = e.1 then some e.2 else idxGet idx k := by
  obtain ⟨a, v⟩ := e
  simp only [idxInsert, idxGet, det_idxGet_erase]
  by_cases h : k = a <;> simp [h]

/-- after inserting entries with pairwise different keys, a lookup finds the entry of the list or,
    failing that, what the map held before -/
theorem det_idxGet_insertAll (l : List (Key × Nat)) (hu : (l.map (·.1)).Nodup) (acc : Index) (k : Key) :
    idxGet (l.foldl idxInsert acc) k = (l.lookup k).or (idxGet acc k) := by
  induction l generalizing acc with
  | nil => simp
  | cons e t ih =>
    obtain ⟨a, v⟩ := e
    simp only [List.map_cons, List.nodup_cons] at hu
    simp only [List.foldl_cons, ih hu.2, det_idxGet_insert, List.lookup_cons]
    by_cases h : k = a
    · subst h
      have : t.lookup k = none := by
        rw [List.lookup_eq_none_iff]
        intro p hp
        simp only [bne_iff_ne, ne_eq]
        intro hk
        exact hu.1 (List.mem_map.2 ⟨p, hp, hk.symm⟩)
      simp [this]
    · have : (k == a) = false := by simpa using h
      simp [h, this]

/-- lookups in a unit index built by `insert` from entries with pairwise different keys do not depend
    on the order of the insertions -/
theorem det_idxGet_insertion_order (l l' : List (Key × Nat)) (hp : l.Perm l') (hu : (l.map (·.1)).Nodup) (k : Key) :
    idxGet (l.foldl idxInsert []) k = idxGet (l'.foldl idxInsert []) k := by
  rw [det_idxGet_insertAll l hu, det_idxGet_insertAll l' ((hp.map _).nodup_iff.1 hu), det_lookup_perm hp hu]

/-- the analysis environment whose `find_unit` goes through a unit index: key ↦ unit id ↦ physical
    quantity of that unit (`Converter::find_unit` = `unit_index.get_unit_id` + `all_units[id]`) -/
def envWithIndex (base : Env) (idx : Index) (pqOf : Nat → Option Nat) : Env :=
  { base with findUnit := fun k => (idxGet idx k).bind pqOf }

/-- the environment whose case folding is read from an association list (identity where absent) -/
def envWithFoldTable (base : Env) (tbl : List (Char × List Char)) : Env :=
  { base with fold := fun c => (tbl.lookup c).getD [c] }

theorem det_envWithIndex_perm (base : Env) (pqOf : Nat → Option Nat) {idx idx' : Index} (hp : idx.Perm idx')
    (hu : (idx.map (·.1)).Nodup) : envWithIndex base idx pqOf = envWithIndex base idx' pqOf := by
  unfold envWithIndex
  congr 1
  funext k
  rw [det_idxGet_perm hp hu]

theorem det_envWithFoldTable_perm (base : Env) {tbl tbl' : List (Char × List Char)} (hp : tbl.Perm tbl')
    (hu : (tbl.map (·.1)).Nodup) : envWithFoldTable base tbl = envWithFoldTable base tbl' := by
  unfold envWithFoldTable
  congr 1
  funext c
  rw [det_lookup_perm hp hu]

/-- the converter lookup the driver uses for the bundled units (`bundledFindUnit`, a `find?` over the
    generated key table) is `idxGet` on that table -/
theorem det_bundledFindUnit_eq (k : List Char) : bundledFindUnit k = idxGet unitKeyTable k := by
  unfold bundledFindUnit
  generalize unitKeyTable = l
  induction l with
  | nil => rfl
  | cons e t ih =>
    obtain ⟨a, v⟩ := e
    simp only [List.find?_cons, idxGet]
    by_cases h : k = a
    · subst h; simp
    · have : (a == k) = false := by simpa using fun h' => h h'.symm
      simp [this, h, ih]

end Cook
