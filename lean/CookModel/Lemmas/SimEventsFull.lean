import CookModel.Lemmas.SimEvents
import CookModel.Lemmas.SimComp
import CookModel.Lemmas.SimFront
import CookModel.Lemmas.SpansFront
/-
  The block parsers on related blocks WITHOUT the no-marker side condition of `SimEvents.lean`:
  steps with components (`@ # ~`), `parse_block`, `runBlock`, the fold over all blocks, and the
  CRLF law at event level for every backslash-free input.
-/
set_option linter.unusedSectionVars false
set_option linter.unusedVariables false
namespace Cook

variable {α : Type} [Arith α]

section rel
variable {cs : CharSpec} {ts' ts : List Tok}
variable (hu : UwsNL cs) (hts : LRel TokSim ts' ts)
include hu hts

theorem stepOne_relF : Rel cs ts' ts (stepOne (α := α)) stepOne (fun _ _ => True) := by
  unfold stepOne
  refine Rel.bind (A := OptRel (EvSim cs.uws)) ?_ ?_
  · refine Rel.bind (peekK_rel hts) fun a' a ha => ?_
    obtain ⟨rfl, -⟩ := ha
    split
    · exact withRecover_rel (ingredientP_rel hu hts)
    · exact withRecover_rel (cookwareP_rel hu hts)
    · exact withRecover_rel (timerP_rel hu hts)
    · exact Rel.pure (α := α) OptRel.none_none
  · intro c' c hc
    rcases hc.elim with ⟨rfl, rfl⟩ | ⟨e', e, rfl, rfl, he⟩
    · dsimp only
      refine Rel.bind currentOffset_rel fun o' o _ => ?_
      refine Rel.bind getCur_rel fun c' c hc => ?_
      subst hc
      refine Rel.bind (bumpAny_rel hts) fun _ _ _ => ?_
      refine Rel.bind (consumeWhile_rel hts _) fun _ _ _ => ?_
      refine Rel.bind Rel.get fun g' g hg => ?_
      have hl : LRel TokSim ((g'.toks.take g'.cur).drop c') ((g.toks.take g.cur).drop c') := by
        rw [hg.toks', hg.toks, hg.cur]; exact (hts.take _).drop _
      try dsimp only
      refine Rel.bind (bpText_rel hu hl _ _) fun t' t ht => ?_
      rw [ht.frags_isEmpty]
      split
      · exact pushEv_rel (EvSim.mk_text ht)
      · exact Rel.pure (α := α) (A := fun _ _ => True) trivial
    · exact pushEv_rel he

theorem stepLoop_relF (fuel : Nat) :
    Rel cs ts' ts (stepLoop (α := α) fuel) (stepLoop fuel) (fun _ _ => True) := by
  induction fuel with
  | zero =>
    unfold stepLoop
    refine Rel.bind (restToks_rel hts) fun r' r hr => ?_
    rw [hr.isEmpty]
    split
    · exact panicWith_rel _ _
    · exact Rel.pure (α := α) (A := fun _ _ => True) trivial
  | succ fuel ih =>
    unfold stepLoop
    refine Rel.bind (restToks_rel hts) fun r' r hr => ?_
    rw [hr.isEmpty]
    split
    · exact Rel.pure (α := α) (A := fun _ _ => True) trivial
    · exact Rel.bind (stepOne_relF hu hts) fun _ _ _ => ih

theorem parseStep_relF : Rel cs ts' ts (parseStep (α := α)) parseStep (fun _ _ => True) := by
  unfold parseStep
  refine Rel.bind (pushEv_rel (EvSim.mk_start _)) fun _ _ _ => ?_
  refine Rel.bind (restToks_rel hts) fun r' r hr => ?_
  rw [hr.length_eq]
  refine Rel.bind (stepLoop_relF hu hts _) fun _ _ _ => ?_
  exact pushEv_rel (EvSim.mk_stop _)

theorem parseMultilineBlock_relF :
    Rel cs ts' ts (parseMultilineBlock (α := α)) parseMultilineBlock (fun _ _ => True) := by
  unfold parseMultilineBlock
  refine Rel.bind (allToks_rel hts) fun l' l hl => ?_
  rw [hl.all (tokSim_kindPres.agree isEmptyTok)]
  split
  · exact Rel.bind (consumeRest_rel hts) fun _ _ _ => Rel.pure (α := α) (A := fun _ _ => True) trivial
  · refine Rel.bind (peekK_rel hts) fun a' a ha => ?_
    obtain ⟨rfl, -⟩ := ha
    split
    · exact parseTextBlock_rel hu hts
    · exact parseStep_relF hu hts

theorem parseBlock_relF (oldStyle : Bool) :
    Rel cs ts' ts (parseBlock (α := α) oldStyle) (parseBlock oldStyle) (fun _ _ => True) := by
  unfold parseBlock
  refine Rel.bind (A := OptRel (EvSim cs.uws)) ?_ ?_
  · refine Rel.bind (peekK_rel hts) fun a' a ha => ?_
    obtain ⟨rfl, -⟩ := ha
    split
    · apply withRecover_rel
      refine Rel.bind (metadataEntry_rel hu hts) fun r' r hr => ?_
      rcases hr.elim with ⟨rfl, rfl⟩ | ⟨e', e, rfl, rfl, he⟩
      · exact Rel.pure (α := α) OptRel.none_none
      · cases e' <;> cases e <;> simp only [EvSim] at he <;>
          try exact Rel.pure (α := α) OptRel.none_none
        rename_i k' v' k v
        dsimp only
        refine Rel.bind Rel.get fun g' g hg => ?_
        refine Rel.bind (hasExt_rel _) fun m' m hm => ?_
        subst hm
        have hkey : isConfigKey g'.cs k' = isConfigKey g.cs k := by
          unfold isConfigKey
          rw [hg.csL, hg.csR, he.1.outerTrimmed]
        rw [hkey]
        split
        · exact Rel.pure (α := α) (OptRel.some_some (EvSim.mk_metadata he.1 he.2))
        · exact Rel.pure (α := α) OptRel.none_none
    · exact withRecover_rel (sectionP_rel hu hts)
    · exact Rel.pure (α := α) OptRel.none_none
  · intro r' r hr
    rcases hr.elim with ⟨rfl, rfl⟩ | ⟨e', e, rfl, rfl, he⟩
    · exact parseMultilineBlock_relF hu hts
    · exact pushEv_rel he

end rel

/-- **one block**: `runBlock` on related blocks appends related events to related queues -/
theorem runBlock_relF {cs : CharSpec} (hu : UwsNL cs) {b' b : List Tok} (hb : LRel TokSim b' b)
    (ext : Ext) (oldStyle : Bool) {evs' evs : Array (Ev α)} (he : LRel (EvSim cs.uws) evs'.toList evs.toList)
    (p' p : Option String) :
    LRel (EvSim cs.uws) (runBlock cs ext oldStyle b' evs' p').1.toList (runBlock cs ext oldStyle b evs p).1.toList := by
  have hs0 : SimS cs b' b (⟨b', 0, ext, cs, evs', p'⟩ : BP α) ⟨b, 0, ext, cs, evs, p⟩ :=
    ⟨rfl, rfl, rfl, rfl, rfl, rfl, he⟩
  have key : Rel cs b' b
      (do
        if b'.isEmpty then panicWith "BlockParser::new: empty tokens"
        parseBlock (α := α) oldStyle
        let s ← get
        if s.cur ≠ s.toks.length then panicWith "Block tokens not parsed")
      (do
        if b.isEmpty then panicWith "BlockParser::new: empty tokens"
        parseBlock (α := α) oldStyle
        let s ← get
        if s.cur ≠ s.toks.length then panicWith "Block tokens not parsed")
      (fun _ _ => True) := by
    dsimp only
    apply Rel.panicIfK
    refine Rel.bind (parseBlock_relF hu hb oldStyle) fun _ _ _ => ?_
    refine Rel.bind Rel.get fun g' g hg => ?_
    exact Rel.panicIf
  exact (key _ _ hs0).2.evs

/-- all blocks: folding `runBlock` over related block lists -/
theorem foldl_runBlock_relF {cs : CharSpec} (hu : UwsNL cs) (ext : Ext) (oldStyle : Bool)
    {bs' bs : List (List Tok)} (hb : LRel (LRel TokSim) bs' bs)
    {acc' acc : Array (Ev α) × Option String} (he : LRel (EvSim cs.uws) acc'.1.toList acc.1.toList) :
    LRel (EvSim cs.uws)
      (bs'.foldl (fun a b => runBlock cs ext oldStyle b a.1 a.2) acc').1.toList
      (bs.foldl (fun a b => runBlock cs ext oldStyle b a.1 a.2) acc).1.toList := by
  induction hb generalizing acc' acc with
  | nil => exact he
  | cons h1 _ ih =>
    simp only [List.foldl_cons]
    exact ih (runBlock_relF hu h1 ext oldStyle he _ _)

/-- **CRLF conversion at event level**, every backslash-free body -/
theorem crlf_eventsF (cs : CharSpec) (hcs : CrlfSpec cs) (hu : UwsNL cs) (ext : Ext) (oldStyle : Bool)
    (s : List Char) (hs : CrlfSafe s) (off off' : Nat)
    {acc' acc : Array (Ev α) × Option String} (he : LRel (EvSim cs.uws) acc'.1.toList acc.1.toList) :
    LRel (EvSim cs.uws)
      ((allBlocks ((lexFrom cs off' (crlf s)).length + 1) (lexFrom cs off' (crlf s))).foldl
        (fun a b => runBlock cs ext oldStyle b a.1 a.2) acc').1.toList
      ((allBlocks ((lexFrom cs off s).length + 1) (lexFrom cs off s)).foldl
        (fun a b => runBlock cs ext oldStyle b a.1 a.2) acc).1.toList := by
  have hl := crlf_tokSim cs hcs s hs off off'
  have hb : LRel (LRel TokSim) (allBlocks ((lexFrom cs off' (crlf s)).length + 1) (lexFrom cs off' (crlf s)))
      (allBlocks ((lexFrom cs off s).length + 1) (lexFrom cs off s)) := by
    rw [hl.length_eq]; exact sim_allBlocks tokSim_kindPres _ hl
  exact foldl_runBlock_relF hu ext oldStyle hb he

/-- **CRLF conversion of a whole input**: the `PullParser` run (front-matter split, lexer, block
    splitter, block parsers) on `crlf s` and on `s`, for every backslash-free `s` -/
theorem crlf_pullEventsF (cs : CharSpec) (hcs : CrlfSpec cs) (hu : UwsNL cs) (ext : Ext)
    (s : List Char) (hs : CrlfSafe s) :
    LRel (EvSim cs.uws) (pullEvents (α := α) cs ext (crlf s)).1.toList (pullEvents (α := α) cs ext s).1.toList := by
  unfold pullEvents
  have hfm := crlf_frontmatter cs hu s
  rcases hfm.elim with ⟨e', e⟩ | ⟨fm', fm, e', e, hf⟩
  · simp only [e', e]
    exact crlf_eventsF cs hcs hu ext true s hs 0 0 .nil
  · simp only [e', e]
    obtain ⟨⟨pre, hpre, -⟩, -⟩ := frontMatterOffsetsOK cs s fm e
    have hsafe : CrlfSafe fm.cookText := by
      intro hm
      apply hs
      rw [hpre]
      exact List.mem_append_right _ hm
    rw [hf.2, hf.1]
    refine crlf_eventsF cs hcs hu ext false fm.cookText hsafe _ _
      (acc' := (#[.frontMatter (Text.fromStr (crlf fm.yamlText) fm'.yamlOffset)], none))
      (acc := (#[.frontMatter (Text.fromStr fm.yamlText fm.yamlOffset)], none)) ?_
    refine .cons ?_ .nil
    unfold EvSim
    exact Or.inr ⟨_, _, _, rfl, rfl⟩

end Cook
