import CookModel.Lemmas.Text
import CookModel.Lemmas.TextLaws
/-
  C05 at the level of spans: `BlockParser::text` over a run of adjacent tokens puts every token
  that is not a comment inside a fragment, hence inside the span of the text.
-/
set_option linter.unusedSimpArgs false
namespace Cook

/-- the part of a token that is content: all of it, except the backslash of an escape -/
def tokBodyStart (t : Tok) : Nat := if t.kind = .escaped then t.start + 1 else t.start

/-- a token that contributes characters to a text: not a comment, and a non-empty body -/
def HasBody (t : Tok) : Prop :=
  t.kind ≠ .lineComment ∧ t.kind ≠ .blockComment ∧ tokBodyStart t < t.stop

/-- `t` lies inside fragment `f` -/
def InFrag (t : Tok) (f : Frag) : Prop := f.offset ≤ tokBodyStart t ∧ t.stop ≤ f.stop

theorem cov_appendFrag_frags (t : Text) (f : Frag) :
    (t.appendFrag f).frags = if f.text.isEmpty then t.frags else t.frags ++ [f] := by
  unfold Text.appendFrag
  by_cases h1 : t.span.stop ≤ f.offset <;> by_cases h2 : f.text.isEmpty = true <;> simp [h1, h2]

theorem cov_appendFrag_mem (t : Text) (f g : Frag) (h : g ∈ t.frags) : g ∈ (t.appendFrag f).frags := by
  rw [cov_appendFrag_frags]; split
  · exact h
  · simp [h]

theorem cov_appendFrag_new (t : Text) (f : Frag) (h : f.text ≠ []) : f ∈ (t.appendFrag f).frags := by
  rw [cov_appendFrag_frags]
  have : f.text.isEmpty = false := by cases hf : f.text <;> simp_all
  simp [this]

/-- coverage invariant of the fold: every token with a body processed so far is inside a stored
    fragment or inside the pending slice `[a.start, a.start + |a.cur|)` -/
def CovInv (a : TextAcc) (done : List Tok) : Prop :=
  ∀ u ∈ done, HasBody u →
    (∃ f ∈ a.t.frags, InFrag u f) ∨ (a.start ≤ tokBodyStart u ∧ u.stop ≤ a.start + utf8Len a.cur)

theorem cov_flush {a : TextAcc} {done : List Tok} (h : CovInv a done) :
    ∀ u ∈ done, HasBody u → ∃ f ∈ (a.t.appendStr a.cur a.start).frags, InFrag u f := by
  intro u hu hb
  rcases h u hu hb with ⟨f, hf, hin⟩ | ⟨h1, h2⟩
  · exact ⟨f, cov_appendFrag_mem _ _ _ hf, hin⟩
  · have hne : a.cur ≠ [] := by
      intro h0
      rw [h0] at h2
      have := hb.2.2
      simp [utf8Len] at h2
      omega
    exact ⟨⟨a.cur, a.start, false⟩, cov_appendFrag_new _ _ hne, h1, h2⟩

theorem cov_step {off : Nat} {P : List Char} {a : TextAcc} {done : List Tok} (tok : Tok)
    (hi : TInv off P a) (hc : CovInv a done) (hstart : tok.start = off + utf8Len P)
    (hesc : tok.kind = .escaped → tok.text.head? = some '\\') :
    CovInv (textStep a tok) (done ++ [tok]) := by
  have hend := hi.end_eq
  have hfl := cov_flush hc
  have hstop : tok.stop = tok.start + utf8Len tok.text := rfl
  intro u hu hb
  simp only [List.mem_append, List.mem_singleton] at hu
  unfold textStep
  split
  · -- newline: flush, then the soft fragment
    left
    rcases hu with hu | rfl
    · obtain ⟨f, hf, hin⟩ := hfl u hu hb
      exact ⟨f, cov_appendFrag_mem _ _ _ hf, hin⟩
    · rename_i hk
      have hne : u.text ≠ [] := by
        intro h0
        have := hb.2.2
        simp [tokBodyStart, hk, Tok.stop, h0, utf8Len] at this
      refine ⟨⟨u.text, u.start, true⟩, cov_appendFrag_new _ _ hne, ?_, Nat.le_refl _⟩
      simp [tokBodyStart, hk]
  · -- line comment
    left
    rcases hu with hu | rfl
    · exact hfl u hu hb
    · rename_i hk; exact absurd hk hb.1
  · left
    rcases hu with hu | rfl
    · exact hfl u hu hb
    · rename_i hk; exact absurd hk hb.2.1
  · -- escaped
    rename_i hk
    rcases hu with hu | rfl
    · left; exact hfl u hu hb
    · right
      have hh := hesc hk
      cases htxt : u.text with
      | nil => rw [htxt] at hh; simp at hh
      | cons c tl =>
        rw [htxt] at hh
        simp only [List.head?_cons, Option.some.injEq] at hh
        subst hh
        have h1 : utf8Len ('\\' :: tl) = 1 + utf8Len tl := by
          rw [utf8Len_cons]; rfl
        simp only [tokBodyStart, hk, if_true, List.tail_cons, Tok.stop, htxt, h1]
        omega
  · -- ordinary token: joins the pending slice
    rename_i h1 h2 h3 h4
    rcases hu with hu | rfl
    · rcases hc u hu hb with hf | ⟨g1, g2⟩
      · left; exact hf
      · right
        refine ⟨g1, ?_⟩
        simp only [utf8Len_append]; omega
    · right
      have hbs : tokBodyStart u = u.start := by
        unfold tokBodyStart; rw [if_neg (fun h => h4 h)]
      simp only [hbs, utf8Len_append, Tok.stop]
      omega

theorem cov_foldl {off : Nat} (ts : List Tok) (P : List Char) (a : TextAcc) (done : List Tok)
    (hi : TInv off P a) (hcv : CovInv a done) (hc : Chain (off + utf8Len P) ts) (he : EscapedOK ts) :
    CovInv (ts.foldl textStep a) (done ++ ts) := by
  induction ts generalizing P a done with
  | nil => simpa using hcv
  | cons t ts ih =>
    obtain ⟨h1, h2⟩ := hc
    have hstep := textStep_inv t hi h1 (he t (by simp))
    have hcov := cov_step t hi hcv h1 (he t (by simp))
    have hc' : Chain (off + utf8Len (P ++ t.text)) ts := by
      have : t.stop = off + utf8Len (P ++ t.text) := by simp [Tok.stop, h1, utf8Len_append]; omega
      rw [← this]; exact h2
    have := ih (P ++ t.text) (textStep a t) (done ++ [t]) hstep hcov hc' (fun x hx => he x (by simp [hx]))
    simpa using this

/-- **every token with a body lies inside a fragment of the assembled text** -/
theorem cov_buildText (off : Nat) (ts : List Tok) (h : Chain off ts) (he : EscapedOK ts) :
    ∀ u ∈ ts, HasBody u → ∃ f ∈ (buildText off ts).frags, InFrag u f := by
  cases ts with
  | nil => intro u hu; cases hu
  | cons t0 rest =>
    have h0 : t0.start = off := h.1
    have hinit : TInv off [] (⟨Text.empty off, t0.start, []⟩ : TextAcc) :=
      ⟨⟨rfl, by simp [Text.empty, h0], by simp [Text.empty], by simp [Text.empty]⟩, ⟨[], by simp, by simp [h0, utf8Len]⟩⟩
    have hcov0 : CovInv (⟨Text.empty off, t0.start, []⟩ : TextAcc) [] := by intro u hu; cases hu
    have hfold := cov_foldl (t0 :: rest) [] _ [] hinit hcov0 (by simpa [utf8Len] using h) he
    simp only [List.nil_append] at hfold
    have hfl := cov_flush hfold
    intro u hu hb
    obtain ⟨f, hf, hin⟩ := hfl u hu hb
    refine ⟨f, ?_, hin⟩
    unfold buildText
    simp only
    split
    · exact hf
    · exact hf

/-- a fragment of a well-ordered text lies inside the text's span -/
theorem cov_frag_in_span {off : Nat} {P : List Char} {hi : Nat} {t : Text} (h : FI off P hi t) (f : Frag)
    (hf : f ∈ t.frags) : t.span.start ≤ f.offset ∧ f.stop ≤ t.span.stop := by
  have hle : ∀ g ∈ t.frags, g.offset ≤ g.stop := fun g _ => by unfold Frag.stop; omega
  unfold Text.span
  cases hfr : t.frags with
  | nil => rw [hfr] at hf; cases hf
  | cons f0 fs =>
    simp only
    have hord := h.ordered
    rw [hfr] at hord hf
    have hpw := List.pairwise_cons.1 hord
    constructor
    · simp only [List.mem_cons] at hf
      rcases hf with rfl | hf
      · exact Nat.le_refl _
      · have := hpw.1 f hf
        have := hle f0 (by rw [hfr]; simp)
        omega
    · -- f.stop ≤ last.stop
      have hlast : ∀ (l : List Frag) (d : Frag), l.Pairwise (fun a b => a.stop ≤ b.offset) →
          (∀ g ∈ l, g.offset ≤ g.stop) → ∀ g ∈ l, g.stop ≤ (l.getLast?.getD d).stop := by
        intro l
        induction l with
        | nil => intro d _ _ g hg; cases hg
        | cons a l ih =>
          intro d hp hl g hg
          have hp' := List.pairwise_cons.1 hp
          cases l with
          | nil =>
            simp only [List.mem_singleton] at hg; subst hg; simp
          | cons b l' =>
            simp only [List.getLast?_cons_cons]
            simp only [List.mem_cons] at hg
            rcases hg with rfl | hg
            · have h1 := hp'.1 b (by simp)
              have h2 := ih d hp'.2 (fun g hg => hl g (by simp [hg])) b (by simp)
              have h3 := hl b (by simp)
              omega
            · exact ih d hp'.2 (fun g hg => hl g (by simp [hg])) g (by simpa using hg)
      exact hlast (f0 :: fs) f0 hord (fun g hg => hle g (by rw [hfr]; exact hg)) f hf

/-- … hence inside the span of the text (`Text::span`) -/
theorem cov_buildText_span (off : Nat) (ts : List Tok) (h : Chain off ts) (he : EscapedOK ts) :
    ∀ u ∈ ts, HasBody u →
      (buildText off ts).span.start ≤ tokBodyStart u ∧ u.stop ≤ (buildText off ts).span.stop ∧
      (buildText off ts).frags ≠ [] := by
  intro u hu hb
  obtain ⟨f, hf, h1, h2⟩ := cov_buildText off ts h he u hu hb
  have hfi := buildText_FI off ts h he
  obtain ⟨g1, g2⟩ := cov_frag_in_span hfi f hf
  exact ⟨Nat.le_trans g1 h1, Nat.le_trans h2 g2, by intro h0; rw [h0] at hf; cases hf⟩

end Cook
