import CookModel.Lemmas.DiagMore
/-
  C07, the quiet direction: a component without modifiers and alias, with a non-blank name and a
  quantity whose reading is quiet, pushes no event at all; timers included.
  Then: the `{value%unit}` family of quantities is read quietly under every extension set.
-/
set_option linter.unusedSectionVars false
set_option linter.unusedSimpArgs false
set_option linter.unusedVariables false
namespace Cook

variable {α : Type} [Arith α]

/-- an ingredient with quantity tokens `qt`, no modifiers, no alias separator, a non-blank name: if
    `parse_quantity qt` is quiet (from every state with these tables, extensions and queue) so is the tail -/
theorem ingredientTail_quiet_q (start stop modPos nameOffset : Nat) (body : Body) (note : Option Text) (s : BP α)
    (qt : List Tok) (hq : body.quantity = some qt)
    (ha : s.ext.has Gen.EXT_COMPONENT_ALIAS = false ∨ ∀ t ∈ body.name, t.kind ≠ .or)
    (hn : (buildText nameOffset body.name).isTextEmpty s.cs = false)
    (hQ : ∀ sq, Same s sq → Sat (parseQuantity (α := α) qt) sq (fun _ s' => Same sq s')) :
    Sat (ingredientTail (α := α) start stop modPos nameOffset [] body note) s (fun r s' => Same s s' ∧
      ∃ q, r = some (.ingredient ⟨⟨⟨Modifiers.empty, Span.pos modPos⟩, none, buildText nameOffset body.name, none,
        some q, note⟩, ⟨start, stop⟩⟩)) := by
  unfold ingredientTail
  refine Sat.bind (Sat.mono (parseAlias_quiet "ingredient" body.name nameOffset s ha) ?_)
  rintro ⟨name, alias⟩ s5 ⟨q5, heq⟩
  cases heq
  dsimp only
  refine Sat.bind ?_
  unfold checkEmptyName
  refine Sat.bind (Sat.get ?_)
  rw [q5.1, hn]
  simp only [Bool.false_eq_true, if_false]
  refine Sat.pure ?_
  refine Sat.bind ?_
  unfold parseModifiers
  simp only [List.isEmpty_nil, if_true]
  refine Sat.pure ?_
  rw [hq]
  dsimp only
  refine Sat.bind (Sat.bind (Sat.mono (hQ s5 q5) ?_))
  intro q s6 q6
  refine Sat.pure ?_
  exact Sat.pure ⟨q5.trans q6, _, rfl⟩

/-- the same for a cookware item; the quantity must come without unit -/
theorem cookwareTail_quiet_q (start stop modPos nameOffset : Nat) (body : Body) (note : Option Text) (s : BP α)
    (qt : List Tok) (hq : body.quantity = some qt)
    (ha : s.ext.has Gen.EXT_COMPONENT_ALIAS = false ∨ ∀ t ∈ body.name, t.kind ≠ .or)
    (hn : (buildText nameOffset body.name).isTextEmpty s.cs = false)
    (hQ : ∀ sq, Same s sq → Sat (parseQuantity (α := α) qt) sq
      (fun r s' => Same sq s' ∧ r.quantity.val.unit = none)) :
    Sat (cookwareTail (α := α) start stop modPos nameOffset [] body note) s (fun r s' => Same s s' ∧
      ∃ q, r = some (.cookware ⟨⟨⟨Modifiers.empty, Span.pos modPos⟩, buildText nameOffset body.name, none,
        some q, note⟩, ⟨start, stop⟩⟩)) := by
  unfold cookwareTail
  refine Sat.bind (Sat.mono (parseAlias_quiet "cookware" body.name nameOffset s ha) ?_)
  rintro ⟨name, alias⟩ s5 ⟨q5, heq⟩
  cases heq
  dsimp only
  refine Sat.bind ?_
  unfold checkEmptyName
  refine Sat.bind (Sat.get ?_)
  rw [q5.1, hn]
  simp only [Bool.false_eq_true, if_false]
  refine Sat.pure ?_
  refine Sat.bind ?_
  unfold cookwareQty
  rw [hq]
  dsimp only
  refine Sat.bind (Sat.mono (hQ s5 q5) ?_)
  rintro q s6 ⟨q6, hu⟩
  rw [hu]
  dsimp only
  refine Sat.bind (Sat.pure ?_)
  refine Sat.pure ?_
  refine Sat.bind ?_
  unfold parseModifiers
  simp only [List.isEmpty_nil, if_true]
  refine Sat.pure ?_
  have h0 : Modifiers.empty.contains Modifiers.RECIPE = false := by decide
  simp only [h0, Bool.false_eq_true, if_false]
  refine Sat.bind (Sat.pure ?_)
  refine Sat.bind (Sat.pure ?_)
  exact Sat.pure ⟨q5.trans q6, _, rfl⟩

/-- `check_note` of a timer when the next token is not `(` : nothing happens -/
theorem checkNoteTimer_quiet (s : BP α) (hnp : (s.toks[s.cur]?).map (·.kind) ≠ some .openParen) :
    Sat (checkNoteTimer (α := α)) s (fun _ s' => s' = s) := by
  unfold checkNoteTimer
  apply Sat.bind
  apply Sat.mono (Q := fun _ s' => s' = s)
  · apply withRecover_sat
    unfold consumeK
    refine Sat.bind (Sat.bind (Sat.atK ?_))
    have : ((s.toks[s.cur]?).map (·.kind) == some .openParen) = false := by
      cases h : (s.toks[s.cur]?).map (·.kind) with
      | none => rfl
      | some k =>
        rw [h] at hnp
        simp only [ne_eq, Option.some.injEq] at hnp
        simpa using hnp
    rw [this]
    simp only [Bool.false_eq_true, if_false]
    refine Sat.pure ?_
    exact Sat.pure rfl
  · rintro _ s1 rfl
    exact Sat.pure rfl

theorem timerFinish_some (start stop nameOffset : Nat) (body : Body) (name : Text) (cs : CharSpec)
    (q : Loc (PQuantity α)) (s : BP α) :
    Sat (timerFinish (α := α) start stop nameOffset body name cs (some q)) s (fun r s' => s' = s ∧
      r = some (.timer ⟨⟨if name.isTextEmpty cs then none else some name, some q⟩, ⟨start, stop⟩⟩)) := by
  unfold timerFinish
  dsimp only
  refine Sat.bind (Sat.hasExt ?_)
  simp only [Option.isNone_some, Bool.false_and, Bool.false_eq_true, if_false, Bool.and_false]
  refine Sat.bind (Sat.pure ?_)
  refine Sat.bind (Sat.pure ?_)
  exact Sat.pure ⟨rfl, rfl⟩

/-- a timer without modifiers and alias separator, not followed by `(`, with quantity tokens whose
    reading is quiet and yields a unit: the tail pushes nothing -/
theorem timerTail_quiet (start stop nameOffset : Nat) (body : Body) (s : BP α)
    (qt : List Tok) (hq : body.quantity = some qt)
    (ha : s.ext.has Gen.EXT_COMPONENT_ALIAS = false ∨ ∀ t ∈ body.name, t.kind ≠ .or)
    (hnp : (s.toks[s.cur]?).map (·.kind) ≠ some .openParen)
    (hQ : ∀ sq, Same s sq → Sat (parseQuantity (α := α) qt) sq
      (fun r s' => Same sq s' ∧ r.quantity.val.unit.isNone = false)) :
    Sat (timerTail (α := α) start stop nameOffset [] body) s (fun r s' => Same s s' ∧
      ∃ q, r = some (.timer ⟨⟨if (buildText nameOffset body.name).isTextEmpty s.cs then none
        else some (buildText nameOffset body.name), some q⟩, ⟨start, stop⟩⟩)) := by
  have hsep : (if s.ext.has Gen.EXT_COMPONENT_ALIAS = true then body.name.findIdx? (fun t => t.kind == .or) else none)
      = none := by
    rcases ha with h | h
    · simp [h]
    · split
      · rw [List.findIdx?_eq_none_iff]
        intro t ht; simpa using h t ht
      · rfl
  have hrest : Sat (α := α) (do
      checkNoteTimer
      let name ← bpText nameOffset body.name
      let l ← get
      let quantity ← timerQty body
      timerFinish start stop nameOffset body name l.cs quantity) s (fun r s' => Same s s' ∧
      ∃ q, r = some (.timer ⟨⟨if (buildText nameOffset body.name).isTextEmpty s.cs then none
        else some (buildText nameOffset body.name), some q⟩, ⟨start, stop⟩⟩)) := by
    refine Sat.bind (Sat.mono (checkNoteTimer_quiet s hnp) ?_)
    rintro _ s2 rfl
    refine Sat.bind (Sat.mono (bpText_spec nameOffset body.name s2) ?_)
    rintro name s3 ⟨rfl, q3⟩
    refine Sat.bind (Sat.get ?_)
    refine Sat.bind ?_
    unfold timerQty
    rw [hq]
    dsimp only
    refine Sat.bind (Sat.mono (hQ s3 q3) ?_)
    rintro q s4 ⟨q4, hu⟩
    rw [hu]
    simp only [Bool.false_eq_true, if_false]
    refine Sat.bind (Sat.pure ?_)
    refine Sat.pure ?_
    refine Sat.mono (timerFinish_some start stop nameOffset body _ s3.cs q.quantity s4) ?_
    rintro r s5 ⟨rfl, hr⟩
    refine ⟨q3.trans q4, q.quantity, ?_⟩
    rw [hr, q3.1]
  unfold timerTail
  simp only [List.isEmpty_nil, Bool.not_true, Bool.false_eq_true, if_false]
  refine Sat.bind (Sat.hasExt ?_)
  split
  · rename_i he
    rw [if_pos he] at hsep
    split
    · rename_i i hi
      rw [hi] at hsep; cases hsep
    · exact hrest
  · exact hrest

end Cook
