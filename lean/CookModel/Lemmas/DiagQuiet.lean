import CookModel.Lemmas.DiagMore
/-
  C07, the quiet direction: a component without modifiers and alias, with a non-blank name and a
  quantity whose reading is quiet, pushes no event at all; timers included.
  Then: the `{value%unit}` family of quantities is read quietly under every extension set.
-/
set_option linter.unusedSectionVars false
set_option linter.unusedSimpArgs false
set_option linter.unusedVariables false
namespace Cook

variable {α : Type} [Arith α]

/-- an ingredient with quantity tokens `qt`, no modifiers, no alias separator, a non-blank name: if
    `parse_quantity qt` is quiet (from every state with these tables, extensions and queue) so is the tail -/
theorem ingredientTail_quiet_q (start stop modPos nameOffset : Nat) (body : Body) (note : Option Text) (s : BP α)
    (qt : List Tok) (hq : body.quantity = some qt)
    (ha : s.ext.has Gen.EXT_COMPONENT_ALIAS = false ∨ ∀ t ∈ body.name, t.kind ≠ .or)
    (hn : (buildText nameOffset body.name).isTextEmpty s.cs = false)
    (hQ : ∀ sq, Same s sq → Sat (parseQuantity (α := α) qt) sq (fun _ s' => Same sq s')) :
    Sat (ingredientTail (α := α) start stop modPos nameOffset [] body note) s (fun r s' => Same s s' ∧
      ∃ q, r = some (.ingredient ⟨⟨⟨Modifiers.empty, Span.pos modPos⟩, none, buildText nameOffset body.name, none,
        some q, note⟩, ⟨start, stop⟩⟩)) := by
  unfold ingredientTail
  refine Sat.bind (Sat.mono (parseAlias_quiet "ingredient" body.name nameOffset s ha) ?_)
  rintro ⟨name, alias⟩ s5 ⟨q5, heq⟩
  cases heq
  dsimp only
  refine Sat.bind ?_
  unfold checkEmptyName
  refine Sat.bind (Sat.get ?_)
  rw [q5.1, hn]
  simp only [Bool.false_eq_true, if_false]
  refine Sat.pure ?_
  refine Sat.bind ?_
  unfold parseModifiers
  simp only [List.isEmpty_nil, if_true]
  refine Sat.pure ?_
  rw [hq]
  dsimp only
  refine Sat.bind (Sat.bind (Sat.mono (hQ s5 q5) ?_))
  intro q s6 q6
  refine Sat.pure ?_
  exact Sat.pure ⟨q5.trans q6, _, rfl⟩

/-- the same for a cookware item; the quantity must come without unit -/
theorem cookwareTail_quiet_q (start stop modPos nameOffset : Nat) (body : Body) (note : Option Text) (s : BP α)
    (qt : List Tok) (hq : body.quantity = some qt)
    (ha : s.ext.has Gen.EXT_COMPONENT_ALIAS = false ∨ ∀ t ∈ body.name, t.kind ≠ .or)
    (hn : (buildText nameOffset body.name).isTextEmpty s.cs = false)
    (hQ : ∀ sq, Same s sq → Sat (parseQuantity (α := α) qt) sq
      (fun r s' => Same sq s' ∧ r.quantity.val.unit = none)) :
    Sat (cookwareTail (α := α) start stop modPos nameOffset [] body note) s (fun r s' => Same s s' ∧
      ∃ q, r = some (.cookware ⟨⟨⟨Modifiers.empty, Span.pos modPos⟩, buildText nameOffset body.name, none,
        some q, note⟩, ⟨start, stop⟩⟩)) := by
  unfold cookwareTail
  refine Sat.bind (Sat.mono (parseAlias_quiet "cookware" body.name nameOffset s ha) ?_)
  rintro ⟨name, alias⟩ s5 ⟨q5, heq⟩
  cases heq
  dsimp only
  refine Sat.bind ?_
  unfold checkEmptyName
  refine Sat.bind (Sat.get ?_)
  rw [q5.1, hn]
  simp only [Bool.false_eq_true, if_false]
  refine Sat.pure ?_
  refine Sat.bind ?_
  unfold cookwareQty
  rw [hq]
  dsimp only
  refine Sat.bind (Sat.mono (hQ s5 q5) ?_)
  rintro q s6 ⟨q6, hu⟩
  rw [hu]
  dsimp only
  refine Sat.bind (Sat.pure ?_)
  refine Sat.pure ?_
  refine Sat.bind ?_
  unfold parseModifiers
  simp only [List.isEmpty_nil, if_true]
  refine Sat.pure ?_
  have h0 : Modifiers.empty.contains Modifiers.RECIPE = false := by decide
  simp only [h0, Bool.false_eq_true, if_false]
  refine Sat.bind (Sat.pure ?_)
  refine Sat.bind (Sat.pure ?_)
  exact Sat.pure ⟨q5.trans q6, _, rfl⟩

/-- `check_note` of a timer when the next token is not `(` : nothing happens -/
theorem checkNoteTimer_quiet (s : BP α) (hnp : (s.toks[s.cur]?).map (·.kind) ≠ some .openParen) :
    Sat (checkNoteTimer (α := α)) s (fun _ s' => s' = s) := by
  unfold checkNoteTimer
  apply Sat.bind
  apply Sat.mono (Q := fun _ s' => s' = s)
  · apply withRecover_sat
    unfold consumeK
    refine Sat.bind (Sat.bind (Sat.atK ?_))
    have : ((s.toks[s.cur]?).map (·.kind) == some .openParen) = false := by
      cases h : (s.toks[s.cur]?).map (·.kind) with
      | none => rfl
      | some k =>
        rw [h] at hnp
        simp only [ne_eq, Option.some.injEq] at hnp
        simpa using hnp
    rw [this]
    simp only [Bool.false_eq_true, if_false]
    refine Sat.pure ?_
    exact Sat.pure rfl
  · rintro _ s1 rfl
    exact Sat.pure rfl

theorem timerFinish_some (start stop nameOffset : Nat) (body : Body) (name : Text) (cs : CharSpec)
    (q : Loc (PQuantity α)) (s : BP α) :
    Sat (timerFinish (α := α) start stop nameOffset body name cs (some q)) s (fun r s' => s' = s ∧
      r = some (.timer ⟨⟨if name.isTextEmpty cs then none else some name, some q⟩, ⟨start, stop⟩⟩)) := by
  unfold timerFinish
  dsimp only
  refine Sat.bind (Sat.hasExt ?_)
  simp only [Option.isNone_some, Bool.false_and, Bool.false_eq_true, if_false, Bool.and_false]
  refine Sat.bind (Sat.pure ?_)
  refine Sat.bind (Sat.pure ?_)
  exact Sat.pure ⟨rfl, rfl⟩

/-- a timer without modifiers and alias separator, not followed by `(`, with quantity tokens whose
    reading is quiet and yields a unit: the tail pushes nothing -/
theorem timerTail_quiet (start stop nameOffset : Nat) (body : Body) (s : BP α)
    (qt : List Tok) (hq : body.quantity = some qt)
    (ha : s.ext.has Gen.EXT_COMPONENT_ALIAS = false ∨ ∀ t ∈ body.name, t.kind ≠ .or)
    (hnp : (s.toks[s.cur]?).map (·.kind) ≠ some .openParen)
    (hQ : ∀ sq, Same s sq → Sat (parseQuantity (α := α) qt) sq
      (fun r s' => Same sq s' ∧ r.quantity.val.unit.isNone = false)) :
    Sat (timerTail (α := α) start stop nameOffset [] body) s (fun r s' => Same s s' ∧
      ∃ q, r = some (.timer ⟨⟨if (buildText nameOffset body.name).isTextEmpty s.cs then none
        else some (buildText nameOffset body.name), some q⟩, ⟨start, stop⟩⟩)) := by
  have hsep : (if s.ext.has Gen.EXT_COMPONENT_ALIAS = true then body.name.findIdx? (fun t => t.kind == .or) else none)
      = none := by
    rcases ha with h | h
    · simp [h]
    · split
      · rw [List.findIdx?_eq_none_iff]
        intro t ht; simpa using h t ht
      · rfl
  have hrest : Sat (α := α) (do
      checkNoteTimer
      let name ← bpText nameOffset body.name
      let l ← get
      let quantity ← timerQty body
      timerFinish start stop nameOffset body name l.cs quantity) s (fun r s' => Same s s' ∧
      ∃ q, r = some (.timer ⟨⟨if (buildText nameOffset body.name).isTextEmpty s.cs then none
        else some (buildText nameOffset body.name), some q⟩, ⟨start, stop⟩⟩)) := by
    refine Sat.bind (Sat.mono (checkNoteTimer_quiet s hnp) ?_)
    rintro _ s2 rfl
    refine Sat.bind (Sat.mono (bpText_spec nameOffset body.name s2) ?_)
    rintro name s3 ⟨rfl, q3⟩
    refine Sat.bind (Sat.get ?_)
    refine Sat.bind ?_
    unfold timerQty
    rw [hq]
    dsimp only
    refine Sat.bind (Sat.mono (hQ s3 q3) ?_)
    rintro q s4 ⟨q4, hu⟩
    rw [hu]
    simp only [Bool.false_eq_true, if_false]
    refine Sat.bind (Sat.pure ?_)
    refine Sat.pure ?_
    refine Sat.mono (timerFinish_some start stop nameOffset body _ s3.cs q.quantity s4) ?_
    rintro r s5 ⟨rfl, hr⟩
    refine ⟨q3.trans q4, q.quantity, ?_⟩
    rw [hr, q3.1]
  unfold timerTail
  simp only [List.isEmpty_nil, Bool.not_true, Bool.false_eq_true, if_false]
  refine Sat.bind (Sat.hasExt ?_)
  split
  · rename_i he
    rw [if_pos he] at hsep
    split
    · rename_i i hi
      rw [hi] at hsep; cases hsep
    · exact hrest
  · exact hrest

/-! ### the `{value%unit}` family is read quietly -/

/-- `s'` works on the tokens `qt` with the cursor at `c`, and has the tables, extensions and queue of `s0` -/
def At (qt : List Tok) (c : Nat) (s0 s' : BP α) : Prop := s'.toks = qt ∧ s'.cur = c ∧ Same s0 s'

theorem findIdx_getD_split (p : Tok → Bool) (mid rest : List Tok) (hmid : ∀ t ∈ mid, p t = false)
    (hrest : ∀ b, rest.head? = some b → p b = true) :
    ((mid ++ rest).findIdx? p).getD (mid ++ rest).length = mid.length := by
  induction mid with
  | nil =>
    cases rest with
    | nil => rfl
    | cons b r => simp [List.findIdx?_cons, hrest b rfl]
  | cons t m ih =>
    have h1 : p t = false := hmid t (by simp)
    have ih' := ih (fun x hx => hmid x (List.mem_cons_of_mem _ hx))
    simp only [List.cons_append, List.findIdx?_cons, h1, Bool.false_eq_true, if_false, List.length_cons]
    cases hf : (m ++ rest).findIdx? p with
    | none => rw [hf] at ih'; simp at ih' ⊢; omega
    | some k => rw [hf] at ih'; simp at ih' ⊢; omega

theorem consumeWhile_at (f : TK → Bool) {qt : List Tok} {c : Nat} {s0 s : BP α} (h : At qt c s0 s)
    (mid rest : List Tok) (hd : qt.drop c = mid ++ rest) (hmid : ∀ t ∈ mid, f t.kind = true)
    (hrest : ∀ b, rest.head? = some b → f b.kind = false) :
    Sat (consumeWhile (α := α) f) s (fun r s' => r = mid ∧ At qt (c + mid.length) s0 s') := by
  unfold Sat
  rw [consumeWhile_run]
  dsimp only
  rw [h.1, h.2.1, hd, findIdx_getD_split (fun t => !f t.kind) mid rest (by intro t ht; simp [hmid t ht])
    (by intro b hb; simp [hrest b hb])]
  exact ⟨List.take_left' rfl, rfl, rfl, h.2.2⟩

theorem bpText_at (o : Nat) (l : List Tok) {qt : List Tok} {c : Nat} {s0 s : BP α} (h : At qt c s0 s) :
    Sat (bpText (α := α) o l) s (fun r s' => r = buildText o l ∧ At qt c s0 s') := by
  unfold bpText
  dsimp only
  split
  · refine Sat.bind (Sat.modify ?_)
    refine Sat.pure ⟨rfl, ?_⟩
    split
    · exact ⟨h.1, h.2.1, h.2.2⟩
    · exact h
  · exact Sat.pure ⟨rfl, h⟩

/-- a value that is a well-formed number (or range), or a non-blank text, is read without event -/
theorem parseValue_at {qt : List Tok} {c : Nat} {s0 s : BP α} (h : At qt c s0 s) (vt : List Tok) (t0 : Tok)
    (h0 : vt.head? = some t0)
    (hval : (∃ v, numOrRange (α := α) (s0.ext.has Gen.EXT_RANGE_VALUES) vt = some (.ok v)) ∨
      (numOrRange (α := α) (s0.ext.has Gen.EXT_RANGE_VALUES) vt = none ∧
        (buildText t0.start vt).isTextEmpty s0.cs = false)) :
    Sat (parseValue (α := α) vt) s (fun _ s' => At qt c s0 s') := by
  unfold parseValue
  refine Sat.bind (Sat.currentOffset ?_)
  dsimp only
  refine Sat.bind (Sat.hasExt ?_)
  rw [h.2.2.2.1]
  rcases hval with ⟨v, hv⟩ | ⟨hnone, hne⟩
  · rw [hv]
    exact Sat.pure h
  · rw [hnone]
    dsimp only
    refine Sat.bind ?_
    unfold textValue
    rw [h0]
    simp only [Option.map_some, Option.getD_some]
    refine Sat.bind (Sat.mono (bpText_at _ _ h) ?_)
    rintro _ s1 ⟨rfl, h1⟩
    refine Sat.bind (Sat.get ?_)
    rw [h1.2.2.1, hne]
    simp only [Bool.false_eq_true, if_false]
    refine Sat.bind (Sat.pure ?_)
    refine Sat.pure ?_
    exact Sat.pure h1

theorem Sat.of_eq {β : Type} {m : P α β} {s s' : BP α} {a : β} (h : m s = (a, s')) {Q : β → BP α → Prop}
    (hq : Q a s') : Sat m s Q := by
  unfold Sat; rw [h]; exact hq

theorem getElem?_mid (vt ut : List Tok) (pct : Tok) : (vt ++ pct :: ut)[vt.length]? = some pct := by
  simp

/-- the regular quantity reader on `value % unit` -/
theorem parseRegularQuantity_at {s0 s : BP α} (vt ut : List Tok) (pct t0 : Tok)
    (h : At (vt ++ pct :: ut) 0 s0 s) (h0 : vt.head? = some t0) (hws : isWsComment t0.kind = false)
    (heq : t0.kind ≠ .eq) (hvp : ∀ t ∈ vt, t.kind ≠ .percent) (hp : pct.kind = .percent)
    (hval : (∃ v, numOrRange (α := α) (s0.ext.has Gen.EXT_RANGE_VALUES) vt = some (.ok v)) ∨
      (numOrRange (α := α) (s0.ext.has Gen.EXT_RANGE_VALUES) vt = none ∧
        (buildText t0.start vt).isTextEmpty s0.cs = false))
    (hunit : (buildText pct.stop ut).isTextEmpty s0.cs = false) :
    Sat (parseRegularQuantity (α := α)) s (fun r s' => Same s0 s' ∧
      r.quantity.val.unit = some (buildText pct.stop ut)) := by
  obtain ⟨vr, rfl⟩ : ∃ vr, vt = t0 :: vr := by
    cases vt with
    | nil => cases h0
    | cons a r => simp only [List.head?_cons, Option.some.injEq] at h0; subst h0; exact ⟨r, rfl⟩
  unfold parseRegularQuantity qvalue scalingLock wsComments
  -- leading blanks: none
  refine Sat.bind (Sat.bind (Sat.bind (Sat.mono (consumeWhile_at isWsComment h [] (t0 :: vr ++ pct :: ut) rfl
    (by intro t ht; cases ht) (by intro b hb; simp at hb; subst hb; exact hws)) ?_)))
  rintro _ s1 ⟨-, h1⟩
  simp only [List.length_nil, Nat.add_zero] at h1
  -- no `=`
  refine Sat.bind (Sat.atK ?_)
  have hk : ((s1.toks[s1.cur]?).map (·.kind) == some TK.eq) = false := by
    rw [h1.1, h1.2.1]
    simp only [List.cons_append, List.getElem?_cons_zero, Option.map_some]
    simpa using heq
  rw [hk]
  simp only [Bool.false_eq_true, if_false]
  refine Sat.pure ?_
  -- the value tokens
  refine Sat.bind (Sat.mono (consumeWhile_at (fun k => k != .percent) h1 (t0 :: vr) (pct :: ut) (by simp)
    (by intro t ht; simpa using hvp t ht) (by intro b hb; simp at hb; subst hb; simp [hp])) ?_)
  rintro _ s2 ⟨rfl, h2⟩
  refine Sat.bind (Sat.mono (parseValue_at h2 (t0 :: vr) t0 rfl hval) ?_)
  rintro v s3 h3
  refine Sat.pure ?_
  -- the unit
  apply Sat.bind
  apply Sat.mono (Q := fun (u : Option (Span × Text)) s' => Same s0 s' ∧
    ∃ sep, u = some (sep, buildText pct.stop ut))
  · refine Sat.bind (Sat.peekK ?_)
    have hpk : (s3.toks[s3.cur]?).map (·.kind) = some TK.percent := by
      rw [h3.1, h3.2.1]
      simp only [Nat.zero_add]
      rw [getElem?_mid]
      simp [hp]
    rw [hpk]
    dsimp only
    have hb : (bumpAny : P α Tok) s3 = (pct, { s3 with cur := s3.cur + 1 }) := by
      have ht : s3.toks[s3.cur]? = some pct := by
        rw [h3.1, h3.2.1]; simp only [Nat.zero_add]; exact getElem?_mid _ _ _
      unfold bumpAny
      simp only [bind, StateT.bind, nextToken_run, ht]
      rfl
    refine Sat.bind (Sat.of_eq hb ?_)
    have hut : s3.toks.drop (s3.cur + 1) = ut := by
      rw [h3.1, h3.2.1]
      simp only [Nat.zero_add]
      rw [List.drop_append]
      simp
    have hcr : (consumeRest : P α (List Tok)) ({ s3 with cur := s3.cur + 1 } : BP α) =
        (ut, { s3 with cur := s3.cur + 1 + ut.length }) := by
      have e : (consumeRest : P α (List Tok)) ({ s3 with cur := s3.cur + 1 } : BP α) =
        (s3.toks.drop (s3.cur + 1), { s3 with cur := s3.cur + 1 + (s3.toks.drop (s3.cur + 1)).length }) := rfl
      rw [e, hut]
    refine Sat.bind (Sat.of_eq hcr ?_)
    have h5 : At (t0 :: vr ++ pct :: ut) (s3.cur + 1 + ut.length) s0
        ({ s3 with cur := s3.cur + 1 + ut.length } : BP α) := ⟨h3.1, rfl, h3.2.2⟩
    refine Sat.bind (Sat.mono (bpText_at pct.stop ut h5) ?_)
    rintro _ s6 ⟨rfl, h6⟩
    exact Sat.pure ⟨h6.2.2, _, rfl⟩
  · rintro unit s7 ⟨q7, sep, rfl⟩
    refine Sat.bind (Sat.get ?_)
    dsimp only
    rw [q7.1, hunit]
    simp only [Bool.false_eq_true, if_false]
    refine Sat.bind (Sat.get ?_)
    refine Sat.bind (Sat.mono ((FQ.tokensSpanP _ _).sat s7) ?_)
    rintro sp s8 q8
    exact Sat.pure ⟨q7.trans q8, rfl⟩

/-- **`parse_quantity` on `value % unit` is quiet under every extension set**: the value tokens start
    with a token that is neither blank nor `=`, contain no `%`, and are a well-formed number/range or a
    non-blank text; the unit text is not blank -/
theorem parseQuantity_quiet_pct (vt ut : List Tok) (pct t0 : Tok) (s : BP α)
    (h0 : vt.head? = some t0) (hws : isWsComment t0.kind = false)
    (heq : t0.kind ≠ .eq) (hvp : ∀ t ∈ vt, t.kind ≠ .percent) (hp : pct.kind = .percent)
    (hval : (∃ v, numOrRange (α := α) (s.ext.has Gen.EXT_RANGE_VALUES) vt = some (.ok v)) ∨
      (numOrRange (α := α) (s.ext.has Gen.EXT_RANGE_VALUES) vt = none ∧
        (buildText t0.start vt).isTextEmpty s.cs = false))
    (hunit : (buildText pct.stop ut).isTextEmpty s.cs = false) :
    Sat (parseQuantity (α := α) (vt ++ pct :: ut)) s (fun r s' => Same s s' ∧
      r.quantity.val.unit = some (buildText pct.stop ut)) := by
  unfold parseQuantity
  have hne : (vt ++ pct :: ut).isEmpty = false := by cases vt <;> rfl
  simp only [hne, Bool.false_eq_true, if_false]
  refine Sat.bind (Sat.get ?_)
  refine Sat.bind (Sat.set ?_)
  have hat : At (vt ++ pct :: ut) 0 s ({ s with toks := vt ++ pct :: ut, cur := 0 } : BP α) :=
    by unfold At Same; exact ⟨rfl, rfl, rfl, rfl, rfl⟩
  apply Sat.bind
  apply Sat.mono (Q := fun (r : Option (ParsedQuantity α)) s' => r = none ∧ At (vt ++ pct :: ut) 0 s s')
  · refine Sat.bind (Sat.hasExt ?_)
    split
    · apply withRecover_sat
      unfold parseAdvancedQuantity
      refine Sat.bind (Sat.allToks ?_)
      have hany : (vt ++ pct :: ut).any (fun t => t.kind == .percent) = true := by
        simp [hp]
      simp only [hany, if_true]
      exact Sat.pure ⟨trivial, hat⟩
    · exact Sat.pure ⟨rfl, hat⟩
  · rintro adv s1 ⟨rfl, h1⟩
    dsimp only
    refine Sat.bind (Sat.mono (parseRegularQuantity_at vt ut pct t0 h1 h0 hws heq hvp hp hval hunit) ?_)
    rintro r s2 ⟨q2, hu⟩
    refine Sat.bind (Sat.modify ?_)
    exact Sat.pure ⟨q2, hu⟩

/-- the warning for a blank unit after `%` -/
def emptyUnitEvs (pct : Tok) (ut : List Tok) (cs : CharSpec) : List (Ev α) :=
  if (buildText pct.stop ut).isTextEmpty cs then
    [.warning ⟨.warning, .parse, "empty-unit", [⟨pct.start, pct.stop⟩]⟩] else []

/-- the regular quantity reader on `value % unit`, blank unit included: then the warning `empty-unit`
    on the `%` is pushed and there is no unit -/
theorem parseRegularQuantity_at_gen {s0 s : BP α} (vt ut : List Tok) (pct t0 : Tok)
    (h : At (vt ++ pct :: ut) 0 s0 s) (h0 : vt.head? = some t0) (hws : isWsComment t0.kind = false)
    (heq : t0.kind ≠ .eq) (hvp : ∀ t ∈ vt, t.kind ≠ .percent) (hp : pct.kind = .percent)
    (hval : (∃ v, numOrRange (α := α) (s0.ext.has Gen.EXT_RANGE_VALUES) vt = some (.ok v)) ∨
      (numOrRange (α := α) (s0.ext.has Gen.EXT_RANGE_VALUES) vt = none ∧
        (buildText t0.start vt).isTextEmpty s0.cs = false))
    :
    Sat (parseRegularQuantity (α := α)) s (fun r s' => Pushed (emptyUnitEvs pct ut s0.cs) s0 s' ∧
      r.quantity.val.unit = (if (buildText pct.stop ut).isTextEmpty s0.cs then none
        else some (buildText pct.stop ut))) := by
  obtain ⟨vr, rfl⟩ : ∃ vr, vt = t0 :: vr := by
    cases vt with
    | nil => cases h0
    | cons a r => simp only [List.head?_cons, Option.some.injEq] at h0; subst h0; exact ⟨r, rfl⟩
  unfold parseRegularQuantity qvalue scalingLock wsComments
  -- leading blanks: none
  refine Sat.bind (Sat.bind (Sat.bind (Sat.mono (consumeWhile_at isWsComment h [] (t0 :: vr ++ pct :: ut) rfl
    (by intro t ht; cases ht) (by intro b hb; simp at hb; subst hb; exact hws)) ?_)))
  rintro _ s1 ⟨-, h1⟩
  simp only [List.length_nil, Nat.add_zero] at h1
  -- no `=`
  refine Sat.bind (Sat.atK ?_)
  have hk : ((s1.toks[s1.cur]?).map (·.kind) == some TK.eq) = false := by
    rw [h1.1, h1.2.1]
    simp only [List.cons_append, List.getElem?_cons_zero, Option.map_some]
    simpa using heq
  rw [hk]
  simp only [Bool.false_eq_true, if_false]
  refine Sat.pure ?_
  -- the value tokens
  refine Sat.bind (Sat.mono (consumeWhile_at (fun k => k != .percent) h1 (t0 :: vr) (pct :: ut) (by simp)
    (by intro t ht; simpa using hvp t ht) (by intro b hb; simp at hb; subst hb; simp [hp])) ?_)
  rintro _ s2 ⟨rfl, h2⟩
  refine Sat.bind (Sat.mono (parseValue_at h2 (t0 :: vr) t0 rfl hval) ?_)
  rintro v s3 h3
  refine Sat.pure ?_
  -- the unit
  apply Sat.bind
  apply Sat.mono (Q := fun (u : Option (Span × Text)) s' => Same s0 s' ∧
    u = some (⟨pct.start, pct.stop⟩, buildText pct.stop ut))
  · refine Sat.bind (Sat.peekK ?_)
    have hpk : (s3.toks[s3.cur]?).map (·.kind) = some TK.percent := by
      rw [h3.1, h3.2.1]
      simp only [Nat.zero_add]
      rw [getElem?_mid]
      simp [hp]
    rw [hpk]
    dsimp only
    have hb : (bumpAny : P α Tok) s3 = (pct, { s3 with cur := s3.cur + 1 }) := by
      have ht : s3.toks[s3.cur]? = some pct := by
        rw [h3.1, h3.2.1]; simp only [Nat.zero_add]; exact getElem?_mid _ _ _
      unfold bumpAny
      simp only [bind, StateT.bind, nextToken_run, ht]
      rfl
    refine Sat.bind (Sat.of_eq hb ?_)
    have hut : s3.toks.drop (s3.cur + 1) = ut := by
      rw [h3.1, h3.2.1]
      simp only [Nat.zero_add]
      rw [List.drop_append]
      simp
    have hcr : (consumeRest : P α (List Tok)) ({ s3 with cur := s3.cur + 1 } : BP α) =
        (ut, { s3 with cur := s3.cur + 1 + ut.length }) := by
      have e : (consumeRest : P α (List Tok)) ({ s3 with cur := s3.cur + 1 } : BP α) =
        (s3.toks.drop (s3.cur + 1), { s3 with cur := s3.cur + 1 + (s3.toks.drop (s3.cur + 1)).length }) := rfl
      rw [e, hut]
    refine Sat.bind (Sat.of_eq hcr ?_)
    have h5 : At (t0 :: vr ++ pct :: ut) (s3.cur + 1 + ut.length) s0
        ({ s3 with cur := s3.cur + 1 + ut.length } : BP α) := ⟨h3.1, rfl, h3.2.2⟩
    refine Sat.bind (Sat.mono (bpText_at pct.stop ut h5) ?_)
    rintro _ s6 ⟨rfl, h6⟩
    exact Sat.pure ⟨h6.2.2, rfl⟩
  · rintro unit s7 ⟨q7, rfl⟩
    refine Sat.bind (Sat.get ?_)
    dsimp only
    rw [q7.1]
    cases hunit : (buildText pct.stop ut).isTextEmpty s0.cs
    · simp only [Bool.false_eq_true, if_false]
      refine Sat.bind (Sat.get ?_)
      refine Sat.bind (Sat.mono ((FQ.tokensSpanP _ _).sat s7) ?_)
      rintro sp s8 q8
      refine Sat.pure ⟨((q7.trans q8).pushed).cast ?_, rfl⟩
      simp [emptyUnitEvs, hunit]
    · simp only [if_true]
      refine Sat.bind (Sat.pwarnE ?_)
      refine Sat.bind (Sat.get ?_)
      refine Sat.bind (Sat.mono ((FQ.tokensSpanP _ _).sat _) ?_)
      rintro sp s8 q8
      refine Sat.pure ⟨((q7.pushed.trans (Pushed.one _ _)).trans q8.pushed).cast ?_, rfl⟩
      simp [emptyUnitEvs, hunit]

/-- `parse_quantity` on `value % unit`, blank unit included -/
theorem parseQuantity_pct_gen (vt ut : List Tok) (pct t0 : Tok) (s : BP α)
    (h0 : vt.head? = some t0) (hws : isWsComment t0.kind = false)
    (heq : t0.kind ≠ .eq) (hvp : ∀ t ∈ vt, t.kind ≠ .percent) (hp : pct.kind = .percent)
    (hval : (∃ v, numOrRange (α := α) (s.ext.has Gen.EXT_RANGE_VALUES) vt = some (.ok v)) ∨
      (numOrRange (α := α) (s.ext.has Gen.EXT_RANGE_VALUES) vt = none ∧
        (buildText t0.start vt).isTextEmpty s.cs = false))
    :
    Sat (parseQuantity (α := α) (vt ++ pct :: ut)) s (fun r s' => Pushed (emptyUnitEvs pct ut s.cs) s s' ∧
      r.quantity.val.unit = (if (buildText pct.stop ut).isTextEmpty s.cs then none
        else some (buildText pct.stop ut))) := by
  unfold parseQuantity
  have hne : (vt ++ pct :: ut).isEmpty = false := by cases vt <;> rfl
  simp only [hne, Bool.false_eq_true, if_false]
  refine Sat.bind (Sat.get ?_)
  refine Sat.bind (Sat.set ?_)
  have hat : At (vt ++ pct :: ut) 0 s ({ s with toks := vt ++ pct :: ut, cur := 0 } : BP α) :=
    by unfold At Same; exact ⟨rfl, rfl, rfl, rfl, rfl⟩
  apply Sat.bind
  apply Sat.mono (Q := fun (r : Option (ParsedQuantity α)) s' => r = none ∧ At (vt ++ pct :: ut) 0 s s')
  · refine Sat.bind (Sat.hasExt ?_)
    split
    · apply withRecover_sat
      unfold parseAdvancedQuantity
      refine Sat.bind (Sat.allToks ?_)
      have hany : (vt ++ pct :: ut).any (fun t => t.kind == .percent) = true := by
        simp [hp]
      simp only [hany, if_true]
      exact Sat.pure ⟨trivial, hat⟩
    · exact Sat.pure ⟨rfl, hat⟩
  · rintro adv s1 ⟨rfl, h1⟩
    dsimp only
    refine Sat.bind (Sat.mono (parseRegularQuantity_at_gen vt ut pct t0 h1 h0 hws heq hvp hp hval) ?_)
    rintro r s2 ⟨q2, hu⟩
    refine Sat.bind (Sat.modify ?_)
    exact Sat.pure ⟨q2, hu⟩

/-! ### a bare numeric quantity `{n}` is read quietly, without unit, under every extension set -/

theorem scalingLock_at {qt : List Tok} {s0 s : BP α} (t0 : Tok) (tl : List Tok) (hqt : qt = t0 :: tl)
    (h : At qt 0 s0 s) (hws : isWsComment t0.kind = false) (heq : t0.kind ≠ .eq) :
    Sat (scalingLock (α := α)) s (fun r s' => r = none ∧ At qt 0 s0 s') := by
  unfold scalingLock wsComments
  refine Sat.bind (Sat.mono (consumeWhile_at isWsComment h [] qt rfl
    (by intro t ht; cases ht) (by intro b hb; rw [hqt] at hb; simp at hb; subst hb; exact hws)) ?_)
  rintro _ s1 ⟨-, h1⟩
  simp only [List.length_nil, Nat.add_zero] at h1
  refine Sat.bind (Sat.atK ?_)
  have hk : ((s1.toks[s1.cur]?).map (·.kind) == some TK.eq) = false := by
    rw [h1.1, h1.2.1, hqt]
    simp only [List.getElem?_cons_zero, Option.map_some]
    simpa using heq
  rw [hk]
  simp only [Bool.false_eq_true, if_false]
  exact Sat.pure ⟨rfl, h1⟩

/-- `parse_quantity` on value tokens without blank, word or `%`, not starting with `=`, that read as a
    well-formed number or range: no event, no unit -/
theorem parseQuantity_quiet_num (t0 : Tok) (tl : List Tok) (s : BP α)
    (hws : isWsComment t0.kind = false) (heq : t0.kind ≠ .eq)
    (hk : ∀ t ∈ t0 :: tl, t.kind ≠ .percent ∧ t.kind ≠ .word ∧ t.kind ≠ .ws)
    (hval : ∃ v, numOrRange (α := α) (s.ext.has Gen.EXT_RANGE_VALUES) (t0 :: tl) = some (.ok v)) :
    Sat (parseQuantity (α := α) (t0 :: tl)) s (fun r s' => Same s s' ∧ r.quantity.val.unit = none) := by
  unfold parseQuantity
  simp only [List.isEmpty_cons, Bool.false_eq_true, if_false]
  refine Sat.bind (Sat.get ?_)
  refine Sat.bind (Sat.set ?_)
  have hat : At (t0 :: tl) 0 s ({ s with toks := t0 :: tl, cur := 0 } : BP α) := by
    unfold At Same; exact ⟨rfl, rfl, rfl, rfl, rfl⟩
  apply Sat.bind
  apply Sat.mono (Q := fun (r : Option (ParsedQuantity α)) s' => r = none ∧ At (t0 :: tl) 0 s s')
  · refine Sat.bind (Sat.hasExt ?_)
    split
    · apply withRecover_sat
      unfold parseAdvancedQuantity
      refine Sat.bind (Sat.allToks ?_)
      have hany : (t0 :: tl).any (fun t => t.kind == .percent) = false := by
        rw [List.any_eq_false]
        intro t ht
        simpa using (hk t ht).1
      simp only [hany, Bool.false_eq_true, if_false]
      refine Sat.bind (Sat.mono (scalingLock_at t0 tl rfl hat hws heq) ?_)
      rintro _ s1 ⟨-, h1⟩
      unfold wsComments
      refine Sat.bind (Sat.mono (consumeWhile_at isWsComment h1 [] (t0 :: tl) rfl
        (by intro t ht; cases ht) (by intro b hb; simp at hb; subst hb; exact hws)) ?_)
      rintro _ s2 ⟨-, h2⟩
      simp only [List.length_nil, Nat.add_zero] at h2
      refine Sat.bind (Sat.mono (consumeWhile_at (fun k => k != .word) h2 (t0 :: tl) [] (by simp)
        (by intro t ht; simpa using (hk t ht).2.1) (by intro b hb; cases hb)) ?_)
      rintro _ s3 ⟨rfl, h3⟩
      cases hl : (t0 :: tl).reverse.find? (fun t => t.kind != TK.blockComment) with
      | none =>
        refine Sat.pure ⟨trivial, ?_⟩
        exact ⟨h3.1, rfl, h3.2.2⟩
      | some l =>
        have hlm : l ∈ t0 :: tl := List.mem_reverse.mp (List.mem_of_find?_eq_some hl)
        dsimp only
        have hlw : (l.kind != .ws) = true := by simpa using (hk l hlm).2.2
        simp only [hlw, if_true]
        refine Sat.pure ⟨trivial, ?_⟩
        exact ⟨h3.1, rfl, h3.2.2⟩
    · exact Sat.pure ⟨rfl, hat⟩
  · rintro adv s1 ⟨rfl, h1⟩
    dsimp only
    apply Sat.bind
    apply Sat.mono (Q := fun (r : ParsedQuantity α) s' => Same s s' ∧ r.quantity.val.unit = none)
    · unfold parseRegularQuantity qvalue
      refine Sat.bind (Sat.bind (Sat.mono (scalingLock_at t0 tl rfl h1 hws heq) ?_))
      rintro _ s2 ⟨-, h2⟩
      refine Sat.bind (Sat.mono (consumeWhile_at (fun k => k != .percent) h2 (t0 :: tl) [] (by simp)
        (by intro t ht; simpa using (hk t ht).1) (by intro b hb; cases hb)) ?_)
      rintro _ s3 ⟨rfl, h3⟩
      refine Sat.bind (Sat.mono (parseValue_at h3 (t0 :: tl) t0 rfl (Or.inl hval)) ?_)
      rintro v s4 h4
      refine Sat.pure ?_
      apply Sat.bind
      apply Sat.mono (Q := fun (u : Option (Span × Text)) s' => Same s s' ∧ u = none)
      · refine Sat.bind (Sat.peekK ?_)
        have hpk : (s4.toks[s4.cur]?).map (·.kind) = none := by
          rw [h4.1, h4.2.1]
          simp
        rw [hpk]
        exact Sat.pure ⟨h4.2.2, rfl⟩
      · rintro unit s5 ⟨q5, rfl⟩
        refine Sat.bind (Sat.get ?_)
        dsimp only
        refine Sat.bind (Sat.get ?_)
        refine Sat.bind (Sat.mono ((FQ.tokensSpanP _ _).sat s5) ?_)
        rintro sp s6 q6
        exact Sat.pure ⟨q5.trans q6, rfl⟩
    · rintro r s2 ⟨q2, hu⟩
      refine Sat.bind (Sat.modify ?_)
      exact Sat.pure ⟨q2, hu⟩

end Cook
