import CookModel.Lemmas.SpansData
import CookModel.Lemmas.ClosingKeeps
import CookModel.Lemmas.SpansDoc
import CookModel.Lemmas.SpansFront
import CookModel.Lemmas.SpansMeta
/-
  C04, derived data, document level (wave 5).

  1. `CsK`: the parsers leave the character tables of the state alone (needed because `parse_value` trims with them).
  2. A block-level sweep for an ARBITRARY predicate `Q` on events (`stepOne_q` … `runBlock_q`, `pullEvents_q`): if `Q`
     holds of every non-component event and of what the three component parsers return on every block, it holds of
     every event of `PullParser`.  (The sweep of Lemmas/SpansEv.lean is tied to `TopInv`; this one is reusable.)
  3. `toksIn T sp`, the tokens of the token stream inside a span, and `toksIn_of_infix`: in a token stream a run of
     adjacent tokens is determined by its span.  So the component-level statements of Lemmas/SpansData.lean
     ("∃ run of adjacent tokens of the block with this span …") become "THE tokens inside the span …" (`EvRead`),
     for the token stream `pullToks` the pull parser works on: `pullEvents_evRead`.
  4. `SpanText`: those tokens spell exactly the input slice at the span.
-/
set_option linter.unusedSectionVars false
set_option linter.unusedSimpArgs false
set_option linter.unusedVariables false
namespace Cook
variable {α : Type} [Arith α]
variable {off : Nat} {w : List Char} {ts : List Tok} {e : Ext} {s : BP α} {Q : Ev α → Prop} {cs : CharSpec}

/-- `m` leaves the character tables of the parser state alone -/
structure CsK {β : Type} (m : P α β) : Prop where
  out : ∀ s : BP α, (m s).2.cs = s.cs

namespace CsK
variable {β γ : Type}
theorem pure (a : β) : CsK (Pure.pure a : P α β) := ⟨fun _ => rfl⟩
theorem bind {m : P α β} {k : β → P α γ} (hm : CsK m) (hk : ∀ a, CsK (k a)) : CsK (m >>= k) :=
  ⟨fun s => ((hk _).out _).trans (hm.out s)⟩
theorem ofFG {m : P α β} (h : FG m) : CsK m := ⟨fun s => (h.out s).1⟩
theorem ofFQ {m : P α β} (h : FQ m) : CsK m := ⟨fun s => (h.out s).1⟩
theorem get : CsK (get : P α (BP α)) := ⟨fun _ => rfl⟩
theorem modify {f : BP α → BP α} (h : ∀ s, (f s).cs = s.cs) : CsK (modify f : P α PUnit) := ⟨fun s => h s⟩
theorem pushEv (ev : Ev α) : CsK (Cook.pushEv ev) := ⟨fun _ => rfl⟩
theorem withRecover {f : P α (Option β)} (h : CsK f) : CsK (withRecover f) := by
  unfold Cook.withRecover
  refine bind (ofFQ FQ.getCur) (fun old => ?_)
  refine bind h (fun r => ?_)
  dsimp only
  split
  · exact bind (ofFQ (FQ.setCur _)) (fun _ => pure _)
  · exact pure _
end CsK

syntax "csk_leaf" : tactic
macro_rules | `(tactic| csk_leaf) => `(tactic| first
  | with_reducible exact CsK.pure _
  | with_reducible exact CsK.get
  | with_reducible exact CsK.pushEv _
  | with_reducible exact CsK.ofFQ (FQ.panicWith _)
  | with_reducible exact CsK.ofFQ (FQ.hasExt _)
  | with_reducible exact CsK.ofFQ FQ.restToks
  | with_reducible exact CsK.ofFQ FQ.allToks
  | with_reducible exact CsK.ofFQ FQ.getCur
  | with_reducible exact CsK.ofFQ (FQ.setCur _)
  | with_reducible exact CsK.ofFQ (FQ.tokensSpanP _ _)
  | with_reducible exact CsK.ofFQ FQ.currentOffset
  | with_reducible exact CsK.ofFQ FQ.bpSpan
  | with_reducible exact CsK.ofFQ FQ.peekK
  | with_reducible exact CsK.ofFQ (FQ.atK _)
  | with_reducible exact CsK.ofFQ FQ.bumpAny
  | with_reducible exact CsK.ofFQ (FQ.bump _)
  | with_reducible exact CsK.ofFQ (FQ.untilK _)
  | with_reducible exact CsK.ofFQ (FQ.consumeWhile _)
  | with_reducible exact CsK.ofFQ FQ.wsComments
  | with_reducible exact CsK.ofFQ (FQ.consumeK _)
  | with_reducible exact CsK.ofFQ FQ.consumeRest
  | with_reducible exact CsK.ofFQ (FQ.bpText _ _)
  | with_reducible exact CsK.ofFG (FG.perr _ _)
  | with_reducible exact CsK.ofFG (FG.pwarn _ _)
  | with_reducible exact CsK.ofFG (FG.parseQuantity _)
  | with_reducible exact CsK.ofFG FG.compBody
  | with_reducible exact CsK.ofFQ FQ.modifiersP
  | with_reducible exact CsK.ofFQ FQ.noteP
  | with_reducible exact CsK.ofFG (FG.parseModifiers _ _)
  | with_reducible exact CsK.ofFG (FG.parseAlias _ _ _)
  | with_reducible exact CsK.ofFG (FG.checkEmptyName _ _)
  | with_reducible exact CsK.ofFG FG.checkNoteTimer
  | with_reducible assumption)

macro "csk" : tactic => `(tactic|
  repeat' (first
    | intro _
    | csk_leaf
    | with_reducible apply CsK.bind
    | with_reducible apply CsK.withRecover
    | dsimp only
    | split))

theorem sectionP_csK : CsK (sectionP (α := α)) := by unfold sectionP; csk
theorem metadataEntry_csK : CsK (metadataEntry (α := α)) := by unfold metadataEntry; csk

theorem Sat.csK {β : Type} {m : P α β} (hm : CsK m) {R : β → BP α → Prop} (hcs : s.cs = cs) (h : Sat m s R) :
    Sat m s (fun r s' => R r s' ∧ s'.cs = cs) := ⟨h, by rw [hm.out s]; exact hcs⟩

/-! ### a block-level sweep for an arbitrary predicate on events

  `Q` holds of every event that is not a component (`PlainQ`), and of every event the three component parsers return
  on this block (`CompQ`); then it holds of every event `parse_block` pushes. -/

def Ev.isComponent : Ev α → Bool
  | .ingredient _ | .cookware _ | .timer _ => true
  | _ => false

def PlainQ (Q : Ev α → Prop) : Prop := ∀ ev : Ev α, ev.isComponent = false → Q ev

structure CompQ (Q : Ev α → Prop) (cs : CharSpec) (ts : List Tok) (e : Ext) : Prop where
  ingr : ∀ s : BP α, GE (AllQ Q) ts e s → s.cs = cs →
    Sat (ingredientP (α := α)) s (fun r s' => s'.cs = cs ∧ ∀ ev, r = some ev → Q ev)
  cw : ∀ s : BP α, GE (AllQ Q) ts e s → s.cs = cs →
    Sat (cookwareP (α := α)) s (fun r s' => s'.cs = cs ∧ ∀ ev, r = some ev → Q ev)
  tm : ∀ s : BP α, GE (AllQ Q) ts e s → s.cs = cs →
    Sat (timerP (α := α)) s (fun r s' => s'.cs = cs ∧ ∀ ev, r = some ev → Q ev)

theorem sdat_ctx (hw : WFI off w ts) (hp : PlainQ Q) : Ctx off w (AllQ Q) ts :=
  ⟨hw, fun evs d h _ => ⟨h.push (hp _ rfl), h.push (hp _ rfl)⟩⟩

theorem Sat.csTo {β : Type} {m : P α β} (hm : FG m) {R : β → BP α → Prop} (hcs : s.cs = cs) (h : Sat m s R) :
    Sat m s (fun r s' => R r s' ∧ s'.cs = cs) := ⟨h, by rw [(hm.out s).1]; exact hcs⟩

theorem stepOne_q (hw : WFI off w ts) (hz : Boundary off w 0) (hp : PlainQ Q) (hcq : CompQ Q cs ts e)
    (h : GE (AllQ Q) ts e s) (hcs : s.cs = cs) (hlt : s.cur < ts.length) :
    Sat (stepOne (α := α)) s (fun _ s' => GE (AllQ Q) ts e s' ∧ s'.cs = cs ∧ s.cur < s'.cur) := by
  have hc := sdat_ctx (α := α) hw hp
  unfold stepOne
  apply Sat.bind
  apply Sat.mono (Q := fun r s' => GE (AllQ Q) ts e s' ∧ s'.cs = cs ∧
    match r with
    | none => s'.cur = s.cur
    | some ev => s.cur < s'.cur ∧ Q ev)
  · have comp : ∀ (p : P α (Option (Ev α))),
        (Sat p s (fun r s' => GE (AllQ Q) ts e s' ∧ (r.isSome = true → s.cur < s'.cur) ∧
          CompRet off w ts s.cur s'.cur r)) →
        (Sat p s (fun r s' => s'.cs = cs ∧ ∀ ev, r = some ev → Q ev)) →
        Sat (withRecover p) s (fun r s' => GE (AllQ Q) ts e s' ∧ s'.cs = cs ∧
          match r with
          | none => s'.cur = s.cur
          | some ev => s.cur < s'.cur ∧ Q ev) := by
      intro p hp1 hp2
      apply withRecover_sat
      refine Sat.mono (Sat.sdatBoth hp1 hp2) ?_
      rintro r s1 ⟨⟨g1, h1, h2⟩, cs1, hq⟩
      cases r with
      | none => exact ⟨g1.setCur h.le, cs1, rfl⟩
      | some ev => exact ⟨g1, cs1, h1 rfl, hq ev rfl⟩
    refine Sat.bind (peekK_sat h.g ?_)
    split
    · exact comp _ (ingredientP_ev hc h) (hcq.ingr s h hcs)
    · exact comp _ (cookwareP_ev hc h) (hcq.cw s h hcs)
    · exact comp _ (timerP_ev hc hz h) (hcq.tm s h hcs)
    · exact Sat.pure ⟨h, hcs, rfl⟩
  rintro comp s1 ⟨g1, cs1, h1⟩
  cases comp with
  | some ev =>
    obtain ⟨c1, hq⟩ := h1
    exact Sat.pushEv ⟨g1.push (g1.evs.push hq), cs1, c1⟩
  | none =>
    dsimp only at h1 ⊢
    refine Sat.bind (currentOffset_sat g1.g ?_)
    refine Sat.bind (Sat.getCur ?_)
    have hget : ts[s1.cur]? = some ts[s1.cur] := List.getElem?_eq_getElem (by omega)
    refine Sat.bind (Sat.mono (Sat.csTo FQ.bumpAny.toFG cs1 (bumpAny_ge g1 hget)) ?_)
    rintro _ s2 ⟨⟨-, g2, c2⟩, cs2⟩
    refine Sat.bind (Sat.mono (Sat.csTo (FQ.consumeWhile _).toFG cs2 (consumeWhile_ge _ g2)) ?_)
    rintro _ s3 ⟨⟨g3, c3, -, -, -⟩, cs3⟩
    refine Sat.bind (Sat.get ?_)
    try dsimp only
    have hle : s1.cur ≤ s3.cur := by omega
    have hr : RunIn off w (offAt ts s1.cur) ((s3.toks.take s3.cur).drop s1.cur) := by
      rw [g3.g.toks]; exact hw.slice hle
    refine Sat.bind (bpText_sat hr.run ?_)
    split
    · exact Sat.pushEv ⟨g3.push (g3.evs.push (hp _ rfl)), cs3, by show s.cur < s3.cur; omega⟩
    · exact Sat.pure ⟨g3, cs3, by omega⟩

theorem stepLoop_q (hw : WFI off w ts) (hz : Boundary off w 0) (hp : PlainQ Q) (hcq : CompQ Q cs ts e) (fuel : Nat)
    (h : GE (AllQ Q) ts e s) (hcs : s.cs = cs) (hf : ts.length - s.cur ≤ fuel) :
    Sat (stepLoop (α := α) fuel) s (fun _ s' => GE (AllQ Q) ts e s' ∧ s'.cs = cs ∧ s'.cur = ts.length) := by
  have hle := h.le
  induction fuel generalizing s with
  | zero =>
    unfold stepLoop
    refine Sat.bind (restToks_sat h.g ?_)
    have : ts.drop s.cur = [] := List.drop_eq_nil_of_le (by omega)
    rw [this]
    exact Sat.pure ⟨h, hcs, by omega⟩
  | succ fuel ih =>
    unfold stepLoop
    refine Sat.bind (restToks_sat h.g ?_)
    split
    · rename_i hemp
      have := drop_isEmpty_true hemp
      exact Sat.pure ⟨h, hcs, by omega⟩
    · rename_i hemp
      have hlt := drop_isEmpty_false (by simpa using hemp)
      refine Sat.bind (Sat.mono (stepOne_q hw hz hp hcq h hcs hlt) ?_)
      rintro _ s1 ⟨g1, cs1, c1⟩
      exact ih g1 cs1 (by omega) g1.le

theorem parseStep_q (hw : WFI off w ts) (hz : Boundary off w 0) (hp : PlainQ Q) (hcq : CompQ Q cs ts e)
    (h : GE (AllQ Q) ts e s) (hcs : s.cs = cs) :
    Sat (parseStep (α := α)) s (fun _ s' => GE (AllQ Q) ts e s' ∧ s'.cs = cs ∧ s'.cur = ts.length) := by
  unfold parseStep
  refine Sat.bind (Sat.pushEv ?_)
  have g1 : GE (AllQ Q) ts e { s with evs := s.evs.push (.start .step) } := h.push (h.evs.push (hp _ rfl))
  refine Sat.bind (restToks_sat g1.g ?_)
  refine Sat.bind (Sat.mono (stepLoop_q hw hz hp hcq _ g1 hcs (by simp)) ?_)
  rintro _ s2 ⟨g2, cs2, c2⟩
  exact Sat.pushEv ⟨g2.push (g2.evs.push (hp _ rfl)), cs2, c2⟩

theorem textLineK_q (hw : WFI off w ts) (hp : PlainQ Q) (h : GE (AllQ Q) ts e s) (hcs : s.cs = cs)
    (k : P α Unit) (R : Unit → BP α → Prop)
    (hk : ∀ (s2 : BP α), GE (AllQ Q) ts e s2 → s2.cs = cs → s.cur ≤ s2.cur →
      (s.cur < ts.length → s.cur < s2.cur) → Sat k s2 R) :
    Sat (textLineK (α := α) k) s R := by
  unfold textLineK
  refine Sat.bind (currentOffset_sat h.g ?_)
  refine Sat.bind (Sat.getCur ?_)
  refine Sat.bind (Sat.mono (Sat.csTo (FQ.consumeWhile _).toFG hcs (consumeWhile_ge _ h)) ?_)
  rintro _ s1 ⟨⟨g1, c1, -, -, hend⟩, cs1⟩
  refine Sat.bind (Sat.mono (Sat.csTo (FQ.consumeK _).toFG cs1 (consumeK_ge _ g1)) ?_)
  rintro r2 s2 ⟨⟨g2, h2⟩, cs2⟩
  have hprog : s1.cur ≤ s2.cur ∧ (s.cur < ts.length → s.cur < s2.cur) := by
    cases r2 with
    | some nl =>
      obtain ⟨-, -, c2⟩ := h2
      exact ⟨by omega, fun _ => by omega⟩
    | none =>
      obtain ⟨c2, hk⟩ := h2
      refine ⟨by omega, fun hlt => ?_⟩
      rcases Nat.lt_or_ge s.cur s1.cur with h' | h'
      · omega
      · exfalso
        have e1 : s1.cur = s.cur := by omega
        have hget : ts[s1.cur]? = some ts[s1.cur] := List.getElem?_eq_getElem (by omega)
        have := hend _ hget
        apply hk
        rw [hget]
        simp only [Option.map_some, Option.some.injEq]
        simpa using this
  refine Sat.bind (Sat.get ?_)
  dsimp only
  have hle : s.cur ≤ s2.cur := by omega
  have hr : RunIn off w (offAt ts s.cur) ((s2.toks.take s2.cur).drop s.cur) := by
    rw [g2.g.toks]; exact hw.slice hle
  refine Sat.bind (bpText_sat hr.run ?_)
  split
  · refine Sat.bind (Sat.pushEv ?_)
    exact hk _ (g2.push (g2.evs.push (hp _ rfl))) cs2 (by show s.cur ≤ s2.cur; omega) hprog.2
  · exact hk _ g2 cs2 (by omega) hprog.2

theorem textBlockLoop_q (hw : WFI off w ts) (hp : PlainQ Q) (fuel : Nat) (h : GE (AllQ Q) ts e s) (hcs : s.cs = cs)
    (hf : ts.length - s.cur ≤ fuel) :
    Sat (textBlockLoop (α := α) fuel) s (fun _ s' => GE (AllQ Q) ts e s' ∧ s'.cs = cs ∧ s'.cur = ts.length) := by
  have hle := h.le
  induction fuel generalizing s with
  | zero =>
    unfold textBlockLoop
    refine Sat.bind (restToks_sat h.g ?_)
    have : ts.drop s.cur = [] := List.drop_eq_nil_of_le (by omega)
    rw [this]
    exact Sat.pure ⟨h, hcs, by omega⟩
  | succ fuel ih =>
    unfold textBlockLoop
    refine Sat.bind (restToks_sat h.g ?_)
    split
    · rename_i hemp
      have := drop_isEmpty_true hemp
      exact Sat.pure ⟨h, hcs, by omega⟩
    · rename_i hemp
      have hlt := drop_isEmpty_false (by simpa using hemp)
      have tail : ∀ s1 : BP α, GE (AllQ Q) ts e s1 → s1.cs = cs → s.cur ≤ s1.cur →
          Sat (textLineK (α := α) (textBlockLoop fuel)) s1
            (fun _ s' => GE (AllQ Q) ts e s' ∧ s'.cs = cs ∧ s'.cur = ts.length) := by
        intro s1 g1 cs1 c1
        refine textLineK_q hw hp g1 cs1 _ _ ?_
        intro s2 g2 cs2 c2 hpr
        have hle2 := g2.le
        have hle1 := g1.le
        refine ih g2 cs2 ?_ g2.le
        rcases Nat.lt_or_ge s1.cur ts.length with h' | h'
        · have := hpr h'; omega
        · omega
      refine Sat.bind (Sat.mono (Sat.csTo (FQ.consumeK _).toFG hcs (consumeK_ge _ h)) ?_)
      rintro r1 s1 ⟨⟨g1, h1⟩, cs1⟩
      cases r1 with
      | none => exact tail s1 g1 cs1 (by omega)
      | some m =>
        obtain ⟨-, -, c1⟩ := h1
        dsimp only
        refine Sat.bind (Sat.mono (Sat.csTo (FQ.consumeK _).toFG cs1 (consumeK_ge _ g1)) ?_)
        rintro r2 s2 ⟨⟨g2, h2⟩, cs2⟩
        refine tail s2 g2 cs2 ?_
        cases r2 with
        | none => omega
        | some w => obtain ⟨-, -, c2⟩ := h2; omega

theorem parseTextBlock_q (hw : WFI off w ts) (hp : PlainQ Q) (h : GE (AllQ Q) ts e s) (hcs : s.cs = cs) :
    Sat (parseTextBlock (α := α)) s (fun _ s' => GE (AllQ Q) ts e s' ∧ s'.cs = cs ∧ s'.cur = ts.length) := by
  unfold parseTextBlock
  refine Sat.bind (Sat.pushEv ?_)
  have g1 : GE (AllQ Q) ts e { s with evs := s.evs.push (.start .text) } := h.push (h.evs.push (hp _ rfl))
  refine Sat.bind (restToks_sat g1.g ?_)
  refine Sat.bind (Sat.mono (textBlockLoop_q hw hp _ g1 hcs (by simp)) ?_)
  rintro _ s2 ⟨g2, cs2, c2⟩
  exact Sat.pushEv ⟨g2.push (g2.evs.push (hp _ rfl)), cs2, c2⟩

theorem parseMultilineBlock_q (hw : WFI off w ts) (hz : Boundary off w 0) (hp : PlainQ Q) (hcq : CompQ Q cs ts e)
    (h : GE (AllQ Q) ts e s) (hcs : s.cs = cs) :
    Sat (parseMultilineBlock (α := α)) s (fun _ s' => GE (AllQ Q) ts e s' ∧ s'.cs = cs ∧ s'.cur = ts.length) := by
  unfold parseMultilineBlock
  refine Sat.bind (allToks_sat h.g ?_)
  split
  · refine Sat.bind (Sat.mono (Sat.csTo FQ.consumeRest.toFG hcs (consumeRest_ge h)) ?_)
    rintro _ s1 ⟨⟨g1, c1, -⟩, cs1⟩
    exact Sat.pure ⟨g1, cs1, c1⟩
  · refine Sat.bind (peekK_sat h.g ?_)
    split
    · exact parseTextBlock_q hw hp h hcs
    · exact parseStep_q hw hz hp hcq h hcs

instance sdat_trueStable : DiagStable (α := α) (fun _ => True) := ⟨fun _ _ _ => trivial, fun _ _ _ => trivial⟩

theorem sectionP_shape : Sat (sectionP (α := α)) s (fun r _ => ∀ ev, r = some ev → ev.isComponent = false) := by
  have hk : Keeps (fun _ => True) (sectionP (α := α)) (fun r => ∀ ev, r = some ev → ev.isComponent = false) := by
    unfold sectionP
    keeps
    all_goals (refine Keeps.pure (fun ev hev => ?_); cases hev <;> simp [Ev.isComponent])
  exact (hk.run s trivial).2

theorem parseBlock_q (oldStyle : Bool) (hw : WFI off w ts) (hz : Boundary off w 0) (hp : PlainQ Q)
    (hcq : CompQ Q cs ts e) (h : GE (AllQ Q) ts e s) (hcs : s.cs = cs) :
    Sat (parseBlock (α := α) oldStyle) s (fun _ s' => GE (AllQ Q) ts e s' ∧ s'.cs = cs ∧ s'.cur = ts.length) := by
  have hc := sdat_ctx (α := α) hw hp
  unfold parseBlock
  apply Sat.bind
  apply Sat.mono (Q := fun r s' => GE (AllQ Q) ts e s' ∧ s'.cs = cs ∧
    match r with
    | none => s'.cur = s.cur
    | some ev => s'.cur = ts.length ∧ ev.isComponent = false)
  · refine Sat.bind (peekK_sat h.g ?_)
    split
    · apply withRecover_sat
      refine Sat.bind (Sat.mono (Sat.csK metadataEntry_csK hcs (metadataEntry_ev hc h)) ?_)
      rintro r1 s1 ⟨⟨g1, h1, h2⟩, cs1⟩
      split
      · refine Sat.bind (Sat.get ?_)
        refine Sat.bind (hasExt_sat g1.g ?_)
        split
        · exact Sat.pure ⟨g1, cs1, h1 rfl, rfl⟩
        · exact Sat.pure ⟨g1.setCur h.le, cs1, rfl⟩
      · exact Sat.pure ⟨g1.setCur h.le, cs1, rfl⟩
    · apply withRecover_sat
      refine Sat.mono (Sat.sdatBoth (Sat.csK sectionP_csK hcs (sectionP_ev hc h)) (sectionP_shape (s := s))) ?_
      rintro r1 s1 ⟨⟨⟨g1, h1, h2⟩, cs1⟩, hsh⟩
      cases r1 with
      | none => exact ⟨g1.setCur h.le, cs1, rfl⟩
      | some ev => exact ⟨g1, cs1, h1 rfl, hsh ev rfl⟩
    · exact Sat.pure ⟨h, hcs, rfl⟩
  rintro r s1 ⟨g1, cs1, h1⟩
  cases r with
  | some ev =>
    obtain ⟨c1, hnc⟩ := h1
    exact Sat.pushEv ⟨g1.push (g1.evs.push (hp _ hnc)), cs1, c1⟩
  | none =>
    dsimp only at h1
    exact parseMultilineBlock_q hw hz hp hcq g1 cs1

/-- **one block**, for an arbitrary predicate on events -/
theorem runBlock_q (cs : CharSpec) (ext : Ext) (oldStyle : Bool) (blk : List Tok) (evs : Array (Ev α))
    (hw : WFI off w blk) (hz : Boundary off w 0) (hp : PlainQ Q) (hcq : CompQ Q cs blk ext) (hinv : AllQ Q evs) :
    AllQ Q (runBlock cs ext oldStyle blk evs none).1 := by
  have g0 : GE (AllQ Q) blk ext (⟨blk, 0, ext, cs, evs, none⟩ : BP α) :=
    ⟨⟨rfl, rfl, rfl, Nat.zero_le _⟩, hinv⟩
  have hne : blk.isEmpty = false := by
    have := hw.ne
    cases blk <;> simp_all
  have key : Sat (do
      if blk.isEmpty then panicWith "BlockParser::new: empty tokens"
      parseBlock (α := α) oldStyle
      let s ← get
      if s.cur ≠ s.toks.length then panicWith "Block tokens not parsed") ⟨blk, 0, ext, cs, evs, none⟩
      (fun _ s' => AllQ Q s'.evs) := by
    simp only [hne, Bool.false_eq_true, if_false]
    refine Sat.bind (Sat.mono (parseBlock_q oldStyle hw hz hp hcq g0 rfl) ?_)
    rintro _ s1 ⟨g1, -, c1⟩
    refine Sat.bind (Sat.get ?_)
    have : s1.cur = s1.toks.length := by rw [g1.g.toks]; exact c1
    simp only [this, ne_eq, not_true_eq_false, if_false]
    exact Sat.pure g1.evs
  exact key

theorem foldl_runBlock_q (cs : CharSpec) (ext : Ext) (oldStyle : Bool) (blocks : List (List Tok))
    (evs0 : Array (Ev α)) {b : Nat} (hz : Boundary off w 0) (hp : PlainQ Q)
    (hcq : ∀ blk ∈ blocks, CompQ Q cs blk ext) (hinv : AllQ Q evs0) (hbl : BlocksIn off w b blocks) :
    AllQ Q (blocks.foldl (fun acc blk => runBlock (α := α) cs ext oldStyle blk acc.1 acc.2) (evs0, none)).1 := by
  induction blocks generalizing evs0 b with
  | nil => exact hinv
  | cons blk bs ih =>
    rw [List.foldl_cons]
    obtain ⟨hw, hb, hrest⟩ := hbl
    have h1 := runBlock_no_panic (α := α) cs ext oldStyle blk evs0 hw.wf
    have e1 : runBlock (α := α) cs ext oldStyle blk evs0 none =
        ((runBlock (α := α) cs ext oldStyle blk evs0 none).1, none) := by
      apply Prod.ext
      · rfl
      · exact h1
    show AllQ Q (bs.foldl _ (runBlock (α := α) cs ext oldStyle blk evs0 none)).1
    rw [e1]
    exact ih _ (fun blk' hb' => hcq blk' (List.mem_cons_of_mem _ hb'))
      (runBlock_q cs ext oldStyle blk evs0 hw hz hp (hcq blk List.mem_cons_self) hinv) hrest

theorem allBlocks_infix (fuel : Nat) (ts : List Tok) : ∀ blk ∈ allBlocks fuel ts, blk <:+: ts := by
  induction fuel generalizing ts with
  | zero => intro blk h; simp [allBlocks] at h
  | succ fuel ih =>
    intro blk h
    unfold allBlocks at h
    split at h
    · cases h
    · rename_i b rest hn
      obtain ⟨pre, mid, hsplit⟩ := nextBlock_split ts b rest hn
      simp only [List.mem_cons] at h
      rcases h with rfl | h
      · exact ⟨pre, mid ++ rest, by rw [hsplit]; simp⟩
      · have h1 := ih rest blk h
        have h2 : rest <:+: ts := ⟨pre ++ (b ++ mid), [], by rw [hsplit]; simp⟩
        exact h1.trans h2

/-- the token stream `PullParser` works on: the body lexed at `cooklang_offset` after front matter, the whole
    input otherwise -/
def pullToks (cs : CharSpec) (input : List Char) : List Tok :=
  match parseFrontmatter cs input with
  | some fm => lexFrom cs fm.cookOffset fm.cookText
  | none => lex cs input

/-- **the whole document**: a predicate that holds of every non-component event, of the front-matter event, and of
    what the component parsers return on every block of the token stream holds of every event of `PullParser` -/
theorem pullEvents_q (cs : CharSpec) (ext : Ext) (input : List Char) (hp : PlainQ Q)
    (hcq : ∀ blk, blk <:+: pullToks cs input → WFI 0 input blk → CompQ Q cs blk ext) :
    AllQ Q (pullEvents (α := α) cs ext input).1 := by
  have hz : Boundary 0 input 0 := Boundary.first
  have hfm := frontMatterOffsetsOK cs input
  have hwfi : ∀ {b : Nat} {blocks : List (List Tok)}, BlocksIn 0 input b blocks → ∀ blk ∈ blocks, WFI 0 input blk := by
    intro b blocks hbl
    induction blocks generalizing b with
    | nil => intro blk h; cases h
    | cons x xs ih =>
      intro blk h
      simp only [List.mem_cons] at h
      rcases h with rfl | h
      · exact hbl.1
      · exact ih hbl.2.2 blk h
  unfold pullEvents
  unfold pullToks at hcq
  cases hpf : parseFrontmatter cs input with
  | none =>
    rw [hpf] at hcq
    simp only at hcq ⊢
    have hbl : BlocksIn 0 input 0 (allBlocks ((lex cs input).length + 1) (lex cs input)) := by
      apply allBlocks_blocksIn _ _ 0 _ (Nat.le_refl _)
      unfold lex
      exact ⟨⟨lexFrom_chain cs 0 input, lexFrom_escapedOK cs 0 input⟩,
        ⟨[], [], by simp [lexFrom_tile], by simp [utf8Len]⟩⟩
    apply foldl_runBlock_q cs ext true _ _ hz hp _ (by intro ev h; simp at h) hbl
    intro blk hb
    exact hcq blk (allBlocks_infix _ _ blk hb) (hwfi hbl blk hb)
  | some fm =>
    rw [hpf] at hcq
    simp only at hcq ⊢
    obtain ⟨⟨pre, h1, h2⟩, h3⟩ := hfm fm hpf
    have hbl : BlocksIn 0 input 0 (allBlocks ((lexFrom cs fm.cookOffset fm.cookText).length + 1)
        (lexFrom cs fm.cookOffset fm.cookText)) := by
      apply allBlocks_blocksIn _ _ fm.cookOffset _ (Nat.zero_le _)
      exact ⟨⟨lexFrom_chain cs _ _, lexFrom_escapedOK cs _ _⟩,
        ⟨pre, [], by simp [lexFrom_tile, h1], by simp [h2]⟩⟩
    apply foldl_runBlock_q cs ext false _ _ hz hp _ _ hbl
    · intro blk hb
      exact hcq blk (allBlocks_infix _ _ blk hb) (hwfi hbl blk hb)
    · intro ev h
      simp only [Array.toList, List.mem_singleton] at h
      subst h
      exact hp _ rfl

/-! ### from "a run of adjacent tokens with this span" to "THE tokens inside the span" -/

/-- the tokens of `T` that lie inside the span -/
def toksIn (T : List Tok) (sp : Span) : List Tok :=
  T.filter (fun t => decide (sp.start ≤ t.start) && decide (t.stop ≤ sp.stop))

/-- a token stream: adjacent, non-empty tokens (what the lexer produces) -/
structure TokLine (T : List Tok) : Prop where
  chain : ∃ o, Chain o T
  ne : ∀ t ∈ T, t.text ≠ []

theorem sdat_tok_lt {T : List Tok} (h : TokLine T) {t : Tok} (ht : t ∈ T) : t.start < t.stop := by
  have := utf8Len_pos (h.ne t ht)
  simp only [Tok.stop]; omega

theorem sdat_filter_nil {l : List Tok} {p : Tok → Bool} (h : ∀ t ∈ l, p t = false) : l.filter p = [] := by
  rw [List.filter_eq_nil_iff]
  intro t ht
  simp [h t ht]

theorem sdat_filter_all {l : List Tok} {p : Tok → Bool} (h : ∀ t ∈ l, p t = true) : l.filter p = l := by
  rw [List.filter_eq_self]
  exact h

/-- in a token stream, a run of adjacent tokens is determined by its span: it is the list of the tokens inside it -/
theorem toksIn_of_infix {T toks : List Tok} {sp : Span} (hT : TokLine T) (hi : toks <:+: T) (hsp : TokSpanOf sp toks) :
    toksIn T sp = toks := by
  obtain ⟨a, c, hac⟩ := hi
  obtain ⟨o, hch⟩ := hT.chain
  have hpw := (chain_pairwise hch).1
  by_cases hne : toks = []
  · subst hne
    have h0 := hsp.2 rfl
    unfold toksIn
    apply sdat_filter_nil
    intro t ht
    have := sdat_tok_lt hT ht
    simp only [Bool.and_eq_false_iff, decide_eq_false_iff_not]
    omega
  · have hspan := hsp.1 hne
    rw [← hac] at hpw
    rw [List.pairwise_append, List.pairwise_append] at hpw
    obtain ⟨⟨-, htoks, hat⟩, -, hac'⟩ := hpw
    obtain ⟨hd, tl, rfl⟩ := List.exists_cons_of_ne_nil hne
    -- first and last token of the run
    have hstart : sp.start = hd.start := by rw [hspan]; simp [tokensSpan]
    obtain ⟨lst, hlst⟩ : ∃ l, (hd :: tl).getLast? = some l := by
      cases h : (hd :: tl).getLast? with
      | none => simp at h
      | some l => exact ⟨l, rfl⟩
    have hstop : sp.stop = lst.stop := by rw [hspan]; simp [tokensSpan, hlst]
    have hlm : lst ∈ hd :: tl := List.mem_of_getLast? hlst
    have hmemT : ∀ t ∈ hd :: tl, t ∈ T := fun t ht => by
      rw [← hac]; exact List.mem_append_left _ (List.mem_append_right _ ht)
    have hlt : ∀ t ∈ hd :: tl, t.start < t.stop := fun t ht => sdat_tok_lt hT (hmemT t ht)
    have hge : ∀ t ∈ hd :: tl, hd.start ≤ t.start := by
      intro t ht
      simp only [List.mem_cons] at ht
      rcases ht with rfl | ht
      · exact Nat.le_refl _
      · have := (List.pairwise_cons.mp htoks).1 t ht
        have := hlt hd (by simp)
        omega
    have hle : ∀ t ∈ hd :: tl, t.stop ≤ lst.stop := by
      intro t ht
      obtain ⟨ys, hys⟩ : ∃ ys, hd :: tl = ys ++ [lst] := List.getLast?_eq_some_iff.1 hlst
      rw [hys] at ht htoks
      rw [List.pairwise_append] at htoks
      simp only [List.mem_append, List.mem_singleton] at ht
      rcases ht with ht | rfl
      · have := htoks.2.2 t ht lst (by simp)
        have := hlt lst hlm
        omega
      · exact Nat.le_refl _
    unfold toksIn
    rw [← hac, List.filter_append, List.filter_append]
    have ha : a.filter (fun t => decide (sp.start ≤ t.start) && decide (t.stop ≤ sp.stop)) = [] := by
      apply sdat_filter_nil
      intro t ht
      have h1 := hat t ht hd (by simp)
      have h2 : t.start < t.stop := sdat_tok_lt hT (by rw [← hac]; exact List.mem_append_left _ (List.mem_append_left _ ht))
      simp only [Bool.and_eq_false_iff, decide_eq_false_iff_not]
      omega
    have hc : c.filter (fun t => decide (sp.start ≤ t.start) && decide (t.stop ≤ sp.stop)) = [] := by
      apply sdat_filter_nil
      intro t ht
      have h1 := hac' lst (List.mem_append_right _ hlm) t ht
      have h2 : t.start < t.stop := sdat_tok_lt hT (by rw [← hac]; exact List.mem_append_right _ ht)
      simp only [Bool.and_eq_false_iff, decide_eq_false_iff_not]
      omega
    have hm : (hd :: tl).filter (fun t => decide (sp.start ≤ t.start) && decide (t.stop ≤ sp.stop)) = hd :: tl := by
      apply sdat_filter_all
      intro t ht
      have := hge t ht
      have := hle t ht
      simp only [Bool.and_eq_true, decide_eq_true_eq]
      omega
    rw [ha, hc, hm]; simp

/-! ### the data predicates over THE tokens inside the span -/

/-- the value is what `parse_value` reads from the (adjacent) tokens of `T` inside its span -/
def ValueRead (cs : CharSpec) (e : Ext) (T : List Tok) (v : Loc (Value α)) : Prop :=
  toksIn T v.span <:+: T ∧ TokSpanOf v.span (toksIn T v.span) ∧
    v.val = readValue cs (e.has Gen.EXT_RANGE_VALUES) v.span.start (toksIn T v.span)

/-- the scaling lock is the span of one token, an `=` -/
def LockRead (T : List Tok) (sp : Span) : Prop :=
  ∃ t, toksIn T sp = [t] ∧ [t] <:+: T ∧ t.kind = .eq ∧ sp = ⟨t.start, t.stop⟩

def QValRead (cs : CharSpec) (e : Ext) (T : List Tok) (v : PQValue α) : Prop :=
  ValueRead cs e T v.value ∧ ∀ sp, v.lock = some sp → LockRead T sp

/-- the modifier set is what is read from the (adjacent) tokens of `T` inside its span -/
def ModsRead (T : List Tok) (m : Loc Modifiers) : Prop :=
  toksIn T m.span <:+: T ∧ TokSpanOf m.span (toksIn T m.span) ∧ m.val = readModifiers (toksIn T m.span)

/-- the reference data is the reading of the group `( … )` formed by the (adjacent) tokens of `T` inside its span -/
def InterRead (T : List Tok) (d : Loc InterData) : Prop :=
  toksIn T d.span <:+: T ∧ toksIn T d.span ≠ [] ∧ d.span = tokensSpan (toksIn T d.span) ∧
    readInterRef (toksIn T d.span) = some d.val

/-- the derived data of an event are the readings of the tokens inside their spans; the recovered quantity of a timer
    (documented span `(0, 0)`, value 1, emitted together with an error) is the one exception -/
def EvRead (cs : CharSpec) (e : Ext) (T : List Tok) : Ev α → Prop
  | .ingredient i => ModsRead T i.val.modifiers ∧ OptOK (InterRead T) i.val.inter ∧
      OptOK (fun q : Loc (PQuantity α) => QValRead cs e T q.val.value) i.val.quantity
  | .cookware c => ModsRead T c.val.modifiers ∧ OptOK (fun q : Loc (PQValue α) => QValRead cs e T q.val) c.val.quantity
  | .timer t => OptOK (fun q : Loc (PQuantity α) => QValRead cs e T q.val.value ∨ q = recoverPQuantity) t.val.quantity
  | _ => True

theorem ValueAt.read {cs : CharSpec} {e : Ext} {T : List Tok} {v : Loc (Value α)} (hT : TokLine T)
    (h : ValueAt cs e T v) : ValueRead cs e T v := by
  obtain ⟨toks, h1, h2, h3⟩ := h
  have := toksIn_of_infix hT h1 h2
  rw [ValueRead, this]
  exact ⟨h1, h2, h3⟩

theorem LockAt.read {T : List Tok} {sp : Span} (hT : TokLine T) (h : LockAt T sp) : LockRead T sp := by
  obtain ⟨t, h1, h2, h3⟩ := h
  have hs : TokSpanOf sp [t] := ⟨fun _ => by rw [h3]; simp [tokensSpan], fun h0 => by cases h0⟩
  exact ⟨t, toksIn_of_infix hT h1 hs, h1, h2, h3⟩

theorem QValAt.read {cs : CharSpec} {e : Ext} {T : List Tok} {v : PQValue α} (hT : TokLine T)
    (h : QValAt cs e T v) : QValRead cs e T v :=
  ⟨h.1.read hT, fun sp hsp => (h.2 sp hsp).read hT⟩

theorem ModsAt.read {T : List Tok} {m : Loc Modifiers} (hT : TokLine T) (h : ModsAt T m) : ModsRead T m := by
  obtain ⟨toks, h1, h2, h3⟩ := h
  have := toksIn_of_infix hT h1 h2
  rw [ModsRead, this]
  exact ⟨h1, h2, h3⟩

theorem InterAt.read {T : List Tok} {d : Loc InterData} (hT : TokLine T) (h : InterAt T d) : InterRead T d := by
  obtain ⟨grp, h1, h2, h3, h4⟩ := h
  have := toksIn_of_infix hT h1 (sp := d.span) ⟨fun _ => h3, fun h0 => absurd h0 h2⟩
  rw [InterRead, this]
  exact ⟨h1, h2, h3, h4⟩

theorem sdat_optOK_imp {β : Type} {p q : β → Prop} (h : ∀ x, p x → q x) : ∀ {o : Option β}, OptOK p o → OptOK q o
  | none, _ => trivial
  | some x, hx => h x hx

theorem EvDataAt.read {cs : CharSpec} {e : Ext} {B T : List Tok} {ev : Ev α} (hT : TokLine T) (hB : B <:+: T)
    (h : EvDataAt cs e B ev) : EvRead cs e T ev := by
  cases ev with
  | ingredient i =>
    exact ⟨(h.1.mono hB).read hT, sdat_optOK_imp (fun _ hx => (hx.mono hB).read hT) h.2.1,
      sdat_optOK_imp (fun _ hx => (QValAt.mono hx hB).read hT) h.2.2⟩
  | cookware c =>
    exact ⟨(h.1.mono hB).read hT, sdat_optOK_imp (fun _ hx => (QValAt.mono hx hB).read hT) h.2⟩
  | timer t =>
    refine sdat_optOK_imp (fun q hx => ?_) h
    rcases hx with hx | hx
    · exact Or.inl ((QValAt.mono hx hB).read hT)
    · exact Or.inr hx
  | _ => trivial

theorem pullToks_tokLine (cs : CharSpec) (input : List Char) : TokLine (pullToks cs input) := by
  unfold pullToks
  split
  · exact ⟨⟨_, lexFrom_chain cs _ _⟩, lexFrom_nonempty cs _ _⟩
  · exact ⟨⟨_, lexFrom_chain cs _ _⟩, lexFrom_nonempty cs _ _⟩

/-- **every derived datum of every event of a document is the reading of the tokens inside its span** -/
theorem pullEvents_evRead (cs : CharSpec) (ext : Ext) (input : List Char) :
    ∀ ev ∈ (pullEvents (α := α) cs ext input).1.toList, EvRead cs ext (pullToks cs input) ev := by
  have hT := pullToks_tokLine cs input
  have hp : PlainQ (EvRead (α := α) cs ext (pullToks cs input)) := by
    intro ev hev
    cases ev <;> first | trivial | (simp [Ev.isComponent] at hev)
  apply pullEvents_q cs ext input hp
  intro blk hB hw
  have hc := sdat_ctx (α := α) hw hp
  refine ⟨?_, ?_, ?_⟩
  · intro s h hcs
    refine Sat.mono (ingredientP_data hc h) ?_
    rintro r s' ⟨h1, h2⟩
    rw [hcs] at h1 h2
    exact ⟨h1, fun ev hev => (h2 ev hev).read hT hB⟩
  · intro s h hcs
    refine Sat.mono (cookwareP_data hc h) ?_
    rintro r s' ⟨h1, h2⟩
    rw [hcs] at h1 h2
    exact ⟨h1, fun ev hev => (h2 ev hev).read hT hB⟩
  · intro s h hcs
    refine Sat.mono (timerP_data hc h) ?_
    rintro r s' ⟨h1, h2⟩
    rw [hcs] at h1 h2
    exact ⟨h1, fun ev hev => (h2 ev hev).read hT hB⟩

/-! ### the tokens inside a span spell the input slice at the span -/

/-- the tokens of `T` inside `sp` spell exactly `input[sp]` -/
def SpanText (input : List Char) (T : List Tok) (sp : Span) : Prop :=
  SliceAt 0 input sp.start ((toksIn T sp).flatMap (·.text)) ∧
    sp.stop = sp.start + utf8Len ((toksIn T sp).flatMap (·.text))

theorem pullToks_emb (cs : CharSpec) (input : List Char) :
    ∃ pre, input = pre ++ (pullToks cs input).flatMap (·.text) ∧ Chain (utf8Len pre) (pullToks cs input) := by
  unfold pullToks
  cases hpf : parseFrontmatter cs input with
  | none =>
    refine ⟨[], ?_, ?_⟩
    · simp only [lex, lexFrom_tile, List.nil_append]
    · simp only [utf8Len, List.map_nil, List.sum_nil]; exact lexFrom_chain cs 0 input
  | some fm =>
    obtain ⟨⟨pre, h1, h2⟩, -⟩ := frontMatterOffsetsOK cs input fm hpf
    refine ⟨pre, ?_, ?_⟩
    · simp only [lexFrom_tile]; exact h1
    · simp only; rw [← h2]; exact lexFrom_chain cs _ _

theorem spanText_of {input : List Char} {T : List Tok} {sp : Span}
    (hemb : ∃ pre, input = pre ++ T.flatMap (·.text) ∧ Chain (utf8Len pre) T)
    (hi : toksIn T sp <:+: T) (hsp : TokSpanOf sp (toksIn T sp)) (hb : Boundary 0 input sp.start) :
    SpanText input T sp := by
  unfold SpanText
  generalize toksIn T sp = toks at hi hsp
  by_cases hne : toks = []
  · subst hne
    obtain ⟨p, q, h1, h2⟩ := hb
    refine ⟨⟨p, q, by simpa using h1, h2⟩, ?_⟩
    have := hsp.2 rfl
    simp [utf8Len]; omega
  · obtain ⟨pre, h1, hch⟩ := hemb
    obtain ⟨a, c, hac⟩ := hi
    rw [← hac] at hch h1
    have c1 := (chain_append _ _ _).mp hch
    have c2 := (chain_append _ _ _).mp c1.1
    have hspan := hsp.1 hne
    rw [tokensSpan_chain c2.2 hne] at hspan
    rw [hspan]
    refine ⟨⟨pre ++ a.flatMap (·.text), c.flatMap (·.text), ?_, ?_⟩, ?_⟩
    · rw [h1]; simp
    · simp only
      rw [chain_lastStop c2.1, utf8Len_append]; omega
    · simp only
      rw [chain_lastStop c2.2]

/-! ### the metadata-only stream carries no component -/

theorem metadataEntry_shape : Sat (metadataEntry (α := α)) s (fun r _ => ∀ ev, r = some ev → ev.isComponent = false) := by
  have hk : Keeps (fun _ => True) (metadataEntry (α := α)) (fun r => ∀ ev, r = some ev → ev.isComponent = false) := by
    unfold metadataEntry
    keeps
    all_goals (refine Keeps.pure (fun ev hev => ?_); cases hev <;> simp [Ev.isComponent])
  exact (hk.run s trivial).2

theorem runMetaBlock_q (cs : CharSpec) (ext : Ext) (blk : List Tok) (evs : Array (Ev α))
    (hw : WFI off w blk) (hp : PlainQ Q) (hinv : AllQ Q evs) :
    AllQ Q (runMetaBlock cs ext blk evs none).1 := by
  have hc := sdat_ctx (α := α) hw hp
  have g0 : GE (AllQ Q) blk ext (⟨blk, 0, ext, cs, evs, none⟩ : BP α) :=
    ⟨⟨rfl, rfl, rfl, Nat.zero_le _⟩, hinv⟩
  have hne : blk.isEmpty = false := by
    have := hw.ne
    cases blk <;> simp_all
  have key : Sat (do
      if blk.isEmpty then panicWith "BlockParser::new: empty tokens"
      match ← metadataEntry (α := α) with
      | some ev =>
        pushEv ev
        let s ← get
        if s.cur ≠ s.toks.length then panicWith "Block tokens not parsed"
      | none => pure ()) ⟨blk, 0, ext, cs, evs, none⟩
      (fun _ s' => AllQ Q s'.evs) := by
    simp only [hne, Bool.false_eq_true, if_false]
    refine Sat.bind (Sat.mono (Sat.sdatBoth (metadataEntry_ev hc g0) metadataEntry_shape) ?_)
    rintro r s1 ⟨⟨g1, c1, hr⟩, hsh⟩
    cases r with
    | none => exact Sat.pure g1.evs
    | some ev =>
      refine Sat.bind (Sat.pushEv ?_)
      refine Sat.bind (Sat.get ?_)
      have : s1.cur = s1.toks.length := by rw [g1.g.toks]; exact c1 rfl
      simp only [this, ne_eq, not_true_eq_false, if_false]
      exact Sat.pure (g1.evs.push (hp _ (hsh ev rfl)))
  exact key

theorem foldl_runMetaBlock_q (cs : CharSpec) (ext : Ext) (blocks : List (List Tok))
    (evs0 : Array (Ev α)) {b : Nat} (hp : PlainQ Q) (hinv : AllQ Q evs0) (hbl : BlocksIn off w b blocks) :
    AllQ Q (blocks.foldl (fun acc blk => runMetaBlock (α := α) cs ext blk acc.1 acc.2) (evs0, none)).1 := by
  induction blocks generalizing evs0 b with
  | nil => exact hinv
  | cons blk bs ih =>
    rw [List.foldl_cons]
    obtain ⟨hw, hb, hrest⟩ := hbl
    have h1 := runMetaBlock_no_panic (α := α) cs ext blk evs0 hw.wf
    have e1 : runMetaBlock (α := α) cs ext blk evs0 none =
        ((runMetaBlock (α := α) cs ext blk evs0 none).1, none) := by
      apply Prod.ext
      · rfl
      · exact h1
    show AllQ Q (bs.foldl _ (runMetaBlock (α := α) cs ext blk evs0 none)).1
    rw [e1]
    exact ih _ (runMetaBlock_q cs ext blk evs0 hw hp hinv) hrest

/-- every predicate that holds of all non-component events holds of every event of the metadata-only scanner -/
theorem pullMetaEvents_q (cs : CharSpec) (ext : Ext) (input : List Char) (hp : PlainQ Q) :
    AllQ Q (pullMetaEvents (α := α) cs ext input).1 := by
  unfold pullMetaEvents
  cases hpf : parseFrontmatter cs input with
  | some fm =>
    simp only
    intro ev h
    simp only [Array.toList, List.mem_singleton] at h
    subst h
    exact hp _ rfl
  | none =>
    simp only
    apply foldl_runMetaBlock_q (off := 0) (w := input) cs ext _ _ hp (by intro ev h; simp at h)
    apply metaBlocks_blocksIn _ _ _ 0 _ (Nat.le_refl _)
    unfold lex
    exact ⟨⟨lexFrom_chain cs 0 input, lexFrom_escapedOK cs 0 input⟩,
      ⟨[], [], by simp [lexFrom_tile], by simp [utf8Len]⟩⟩

theorem pullMetaEvents_evRead (cs : CharSpec) (ext : Ext) (input : List Char) :
    ∀ ev ∈ (pullMetaEvents (α := α) cs ext input).1.toList, EvRead cs ext (pullToks cs input) ev := by
  apply pullMetaEvents_q
  intro ev hev
  cases ev <;> first | trivial | (simp [Ev.isComponent] at hev)
end Cook
