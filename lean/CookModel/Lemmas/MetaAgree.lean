import CookModel.Lemmas.ParserMeta
/-
  C14 at the level of events: the `.metadata` events of the full pull parser are exactly the
  events of the metadata-only pull parser (no front matter).
-/
set_option linter.unusedSectionVars false
namespace Cook
variable {α : Type} [Arith α]

theorem sim_metadataEntry : Sim (α := α) (metadataEntry (α := α)) metadataEntry := by
  unfold metadataEntry
  repeat' (first
    | intro _
    | sm_leaf
    | dsimp only
    | (with_reducible apply Sim.get_bind
       intro s0 s0' h
       have hcs := (core_eq h).2.2.2
       simp only [hcs])
    | with_reducible apply Sim.bind
    | split)

/-- `metadata_entry` returns a `Metadata` event or nothing -/
theorem mf_metadataEntry_ret :
    MF (α := α) (fun r => ∀ ev, r = some ev → ∃ k v, ev = .metadata k v) (metadataEntry (α := α)) := by
  unfold metadataEntry; mf
  all_goals (refine MF.pure _ ?_; intro ev h; cases h; exact ⟨_, _, rfl⟩)

/-- the entry `metadata_entry` parses from a block (a function of the block alone) -/
def entryOf (cs : CharSpec) (ext : Ext) (b : List Tok) : Option (Ev α) :=
  (metadataEntry (α := α) ⟨b, 0, ext, cs, #[], none⟩).1

/-- the metadata events an entry contributes -/
def newOf : Option (Ev α) → List (Ev α)
  | some ev => if ev.isKey then [ev] else []
  | none => []

theorem entry_indep (cs : CharSpec) (ext : Ext) (b : List Tok) (evs : Array (Ev α)) (p : Option String) :
    (metadataEntry (α := α) ⟨b, 0, ext, cs, evs, p⟩).1 = entryOf cs ext b :=
  (sim_metadataEntry.run ⟨b, 0, ext, cs, evs, p⟩ ⟨b, 0, ext, cs, #[], none⟩ rfl).1

theorem panicWith_evs (m : String) (s : BP α) : (panicWith (α := α) m s).2.evs = s.evs := by
  simp only [panicWith, modify, modifyGet, MonadStateOf.modifyGet, StateT.modifyGet, pure]
  split <;> rfl

theorem runMetaBlock_meta (cs : CharSpec) (ext : Ext) (b : List Tok) (evs : Array (Ev α)) (p : Option String)
    (hb : b ≠ []) :
    metaOf (runMetaBlock (α := α) cs ext b evs p).1 = metaOf evs ++ newOf (entryOf (α := α) cs ext b) := by
  have hne : b.isEmpty = false := by cases b with | nil => contradiction | cons _ _ => rfl
  rw [← entry_indep cs ext b evs p]
  have hm := (mf_metadataEntry (α := α)).run ⟨b, 0, ext, cs, evs, p⟩
  unfold runMetaBlock
  simp only [hne, Bool.false_eq_true, if_false, bind, StateT.bind, pure]
  rcases hme : metadataEntry (α := α) ⟨b, 0, ext, cs, evs, p⟩ with ⟨r, s1⟩
  rw [hme] at hm
  cases r with
  | none =>
    simp only [newOf, List.append_nil]
    exact hm.1
  | some ev =>
    simp only [newOf]
    have : ∀ s : BP α, ((StateT.bind (pushEv ev) fun _ => StateT.bind get fun s : BP α =>
        if s.cur ≠ s.toks.length then panicWith "Block tokens not parsed" else StateT.pure ()) s).2.evs
        = s.evs.push ev := by
      intro s
      show ((if s.cur ≠ s.toks.length then panicWith "Block tokens not parsed" else StateT.pure ())
        ({ s with evs := s.evs.push ev } : BP α)).2.evs = _
      split
      · exact panicWith_evs _ _
      · rfl
    simp only [this, metaOf_push]
    rw [hm.1]

theorem withRecover_none_ma {β : Type} (f : P α (Option β)) (s s2 : BP α) (h : f s = (none, s2)) :
    withRecover f s = (none, { s2 with cur := s.cur }) := by
  simp only [withRecover, bind, StateT.bind, getCur, get, getThe, MonadStateOf.get, StateT.get, pure, StateT.pure, h]
  rfl

theorem withRecover_some_ma {β : Type} (f : P α (Option β)) (s s2 : BP α) (a : β) (h : f s = (some a, s2)) :
    withRecover f s = (some a, s2) := by
  simp only [withRecover, bind, StateT.bind, getCur, get, getThe, MonadStateOf.get, StateT.get, pure, StateT.pure, h]
  rfl

theorem peekK_run (s : BP α) : peekK (α := α) s = ((s.toks[s.cur]?).map (·.kind), s) := rfl

theorem parseBlock_meta_head (s0 : BP α) (hk : (s0.toks[s0.cur]?).map (·.kind) = some .metaStart) :
    metaOf (parseBlock (α := α) true s0).2.evs = metaOf s0.evs ++ newOf (metadataEntry (α := α) s0).1 := by
  have hm := (mf_metadataEntry (α := α)).run s0
  unfold parseBlock
  simp only [bind, StateT.bind, peekK_run, hk]
  have hret := ((mf_metadataEntry_ret (α := α)).run s0).2
  rcases hme : metadataEntry (α := α) s0 with ⟨e, s1⟩
  rw [hme] at hm hret
  have hother : ∀ s : BP α, metaOf s.evs = metaOf s0.evs →
      metaOf ((match ((none : Option (Ev α)), s) with
        | (a, s) => (match a with
          | some ev => pushEv ev
          | none => parseMultilineBlock) s).2.evs) = metaOf s0.evs := by
    intro s hs
    exact ((mf_parseMultilineBlock (α := α)).run s).1.trans hs
  cases e with
  | none =>
    rw [withRecover_none_ma (s2 := s1)]
    · simpa [newOf] using hother { s1 with cur := s0.cur } hm.1
    · simp only [StateT.bind, hme]; rfl
  | some ev =>
    obtain ⟨k, v, rfl⟩ := hret ev rfl
    rw [withRecover_some_ma (s2 := s1) (a := .metadata k v)]
    · show metaOf (s1.evs.push (.metadata k v)) = _
      rw [metaOf_push, hm.1]; rfl
    · simp only [StateT.bind, hme, Bool.or_true, if_true]; rfl

theorem parseBlock_tail_nometa (X : P α (Option (Ev α))) (hX : MF NM X) (s0 : BP α) :
    metaOf ((match X s0 with
      | (a, s) => (match a with
        | some ev => pushEv ev
        | none => parseMultilineBlock) s).2.evs) = metaOf s0.evs := by
  obtain ⟨h1, h2⟩ := hX.run s0
  rcases hx : X s0 with ⟨a, s⟩
  rw [hx] at h1 h2
  cases a with
  | none => exact ((mf_parseMultilineBlock (α := α)).run s).1.trans h1
  | some ev => exact ((mf_pushEv ev (h2 ev rfl)).run s).1.trans h1

theorem parseBlock_other_head (o : Bool) (s0 : BP α)
    (hk : (s0.toks[s0.cur]?).map (·.kind) ≠ some .metaStart) :
    metaOf (parseBlock (α := α) o s0).2.evs = metaOf s0.evs := by
  unfold parseBlock
  simp only [bind, StateT.bind, peekK_run]
  generalize (s0.toks[s0.cur]?).map (·.kind) = k0 at hk
  have hnone : MF (α := α) NM (pure (none : Option (Ev α))) := MF.pure _ (by intro ev h; cases h)
  cases k0 with
  | none => exact parseBlock_tail_nometa _ hnone s0
  | some k =>
    cases k <;> first
      | exact absurd rfl hk
      | exact parseBlock_tail_nometa _ (mf_withRecover mf_sectionP) s0
      | exact parseBlock_tail_nometa _ hnone s0

theorem runBlock_evs (cs : CharSpec) (ext : Ext) (o : Bool) (b : List Tok) (evs : Array (Ev α)) (p : Option String)
    (hb : b ≠ []) :
    (runBlock (α := α) cs ext o b evs p).1 = (parseBlock (α := α) o ⟨b, 0, ext, cs, evs, p⟩).2.evs := by
  have hne : b.isEmpty = false := by cases b with | nil => contradiction | cons _ _ => rfl
  unfold runBlock
  simp only [hne, Bool.false_eq_true, if_false, bind, StateT.bind, pure]
  rcases parseBlock (α := α) o ⟨b, 0, ext, cs, evs, p⟩ with ⟨u, s⟩
  show ((if s.cur ≠ s.toks.length then panicWith "Block tokens not parsed" else StateT.pure PUnit.unit) s).2.evs = s.evs
  split
  · exact panicWith_evs _ _
  · rfl

theorem isMetaBlock_true (b : List Tok) (h : isMetaBlock b = true) :
    ∃ t r, b = t :: r ∧ t.kind = .metaStart := by
  cases b with
  | nil => simp [isMetaBlock] at h
  | cons t r => exact ⟨t, r, rfl, by simpa [isMetaBlock] using h⟩

theorem runBlock_meta (cs : CharSpec) (ext : Ext) (b : List Tok) (evs : Array (Ev α)) (p : Option String)
    (hb : b ≠ []) :
    metaOf (runBlock (α := α) cs ext true b evs p).1 =
      metaOf evs ++ (if isMetaBlock b then newOf (entryOf (α := α) cs ext b) else []) := by
  rw [runBlock_evs cs ext true b evs p hb]
  cases hm : isMetaBlock b with
  | true =>
    obtain ⟨t, r, e, hk⟩ := isMetaBlock_true b hm
    subst e
    rw [parseBlock_meta_head _ (by simp [hk]), entry_indep]
    rfl
  | false =>
    rw [parseBlock_other_head]
    · simp
    · cases b with
      | nil => contradiction
      | cons t r =>
        have : t.kind ≠ .metaStart := by
          intro hk; simp [isMetaBlock, hk] at hm
        simpa using this

theorem fold_meta_agree (cs : CharSpec) (ext : Ext) : ∀ (bs : List (List Tok)), (∀ b ∈ bs, b ≠ []) →
    ∀ (acc acc' : Array (Ev α) × Option String), metaOf acc.1 = metaOf acc'.1 →
    metaOf (bs.foldl (fun acc b => runBlock (α := α) cs ext true b acc.1 acc.2) acc).1 =
    metaOf ((bs.filter isMetaBlock).foldl (fun acc b => runMetaBlock (α := α) cs ext b acc.1 acc.2) acc').1 := by
  intro bs
  induction bs with
  | nil => intro _ acc acc' h; exact h
  | cons b bs ih =>
    intro hne acc acc' h
    have hb : b ≠ [] := hne b (List.mem_cons_self ..)
    have hbs : ∀ b' ∈ bs, b' ≠ [] := fun b' hb' => hne b' (List.mem_cons_of_mem _ hb')
    simp only [List.foldl_cons, List.filter_cons]
    have h1 := runBlock_meta cs ext b acc.1 acc.2 hb
    cases hm : isMetaBlock b with
    | true =>
      simp only [if_true, List.foldl_cons]
      apply ih hbs
      rw [h1, hm, runMetaBlock_meta cs ext b acc'.1 acc'.2 hb, h]
      rfl
    | false =>
      simp only [Bool.false_eq_true, if_false]
      apply ih hbs
      rw [h1, hm]
      simpa using h

/-- without front matter, the `.metadata` events of the full pull parser are exactly the
    `.metadata` events of the metadata-only pull parser, in the same order -/
theorem metadata_events_agree (cs : CharSpec) (ext : Ext) (input : List Char)
    (h : parseFrontmatter cs input = none) :
    metaOf (pullEvents (α := α) cs ext input).1 = metaOf (pullMetaEvents (α := α) cs ext input).1 := by
  unfold pullEvents pullMetaEvents
  simp only [h]
  have e := blocks_meta_eq (lex cs input).length (lex cs input) (Nat.le_refl _)
  unfold metaBlocksOf at e
  rw [e]
  apply fold_meta_agree
  · intro b hb
    exact (blocks_all_infix _ _ b hb).1
  · rfl

end Cook
