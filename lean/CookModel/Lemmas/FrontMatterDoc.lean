import CookModel.Lemmas.FrontMatter
import CookModel.Analysis.FrontMatter
import CookModel.Lemmas.MetaFront
import CookModel.Lemmas.MetaFrontDiags
/-
  The front-matter branch at the level of a whole document (tag `fmd_`): what `FM.outcomeOf`,
  `FM.fullDiags`, `FM.fullMetadata`, `FM.fullServings` are for an input with front matter, for
  `parse` and for `parse_metadata`.  Built on the facts of C14 about the event streams
  (`analysis_front_full`, `analysis_front_meta`, `front_meta_report`).
-/
namespace Cook
namespace FM
open SM (Y)

variable {α : Type} [Arith α]

/-- the front-matter event of a document: the YAML slice at its offset -/
def docYaml (fm : FrontMatter) : Text := Text.fromStr fm.yamlText fm.yamlOffset

theorem fmd_docYaml_text (fm : FrontMatter) : (docYaml fm).text = fm.yamlText := fmx_fromStr_text _ _
theorem fmd_docYaml_start (fm : FrontMatter) : (docYaml fm).span.start = fm.yamlOffset := fmx_fromStr_start _ _

/-- `parse` on an input with front matter, when it has output -/
theorem fmd_full (env : Cook.Env) (fe : Env α) (input : Str) (fm : FrontMatter)
    (h : parseFrontmatter env.cs input = some fm) (r1 : Col α)
    (h1 : (parseRecipe (α := α) env input).output = some r1) :
    outcomeOf fe (parseRecipe (α := α) env input) = some (processFrontmatter fe (docYaml fm)) ∧
    fullDiags fe (parseRecipe (α := α) env input) =
      (processFrontmatter fe (docYaml fm)).diags.toArray ++ (parseRecipe (α := α) env input).diags ∧
    fullMetadata fe r1 = ((processFrontmatter fe (docYaml fm)).map).getD [] ∧
    fullServings fe r1 = (processFrontmatter fe (docYaml fm)).servings := by
  have e := analysis_front_full env input fm h r1 h1
  have ef : r1.frontMatter = some (docYaml fm) := congrArg MS.frontMatter e
  have em : r1.metaMap = [] := congrArg MS.metaMap e
  have es : r1.servings = none := congrArg MS.servings e
  have eo : outcomeOf fe (parseRecipe (α := α) env input) = some (processFrontmatter fe (docYaml fm)) := by
    unfold outcomeOf; rw [h1]; simp [ef]
  refine ⟨eo, ?_, ?_, ?_⟩
  · unfold fullDiags; rw [eo]
  · unfold fullMetadata; rw [ef, em]
    cases hm : (processFrontmatter fe (docYaml fm)).map <;> simp [hm]
  · unfold fullServings; rw [ef, es]; simp

/-- `parse_metadata` on an input with front matter: it always has output, and its whole report is
    the report of `process_frontmatter` -/
theorem fmd_meta (env : Cook.Env) (fe : Env α) (input : Str) (fm : FrontMatter)
    (h : parseFrontmatter env.cs input = some fm) :
    ∃ r2 : Col α, (parseMetadata (α := α) env input).output = some r2 ∧
      outcomeOf fe (parseMetadata (α := α) env input) = some (processFrontmatter fe (docYaml fm)) ∧
      fullDiags fe (parseMetadata (α := α) env input) = (processFrontmatter fe (docYaml fm)).diags.toArray ∧
      fullMetadata fe r2 = ((processFrontmatter fe (docYaml fm)).map).getD [] := by
  obtain ⟨r2, e2, e⟩ := analysis_front_meta (α := α) env input fm h
  have ef : r2.frontMatter = some (docYaml fm) := congrArg MS.frontMatter e
  have em : r2.metaMap = [] := congrArg MS.metaMap e
  have eo : outcomeOf fe (parseMetadata (α := α) env input) = some (processFrontmatter fe (docYaml fm)) := by
    unfold outcomeOf; rw [e2]; simp [ef]
  refine ⟨r2, e2, eo, ?_, ?_⟩
  · unfold fullDiags; rw [eo, (front_meta_report (α := α) env input fm h).1]; simp
  · unfold fullMetadata; rw [ef, em]
    cases hm : (processFrontmatter fe (docYaml fm)).map <;> simp [hm]

/-- the labels of `process_frontmatter` on the slice of a document are valid spans of the input, when
    the location of a YAML error (external) is a character boundary of the slice -/
theorem fmd_labels_ok (fe : Env α) (input : Str) (fm : FrontMatter)
    (hs : SliceAt 0 input fm.yamlOffset fm.yamlText)
    (hloc : ∀ i, fe.decode fm.yamlText = .err (some i) → Boundary 0 fm.yamlText i) :
    ∀ d ∈ (processFrontmatter fe (docYaml fm)).diags, ∀ l ∈ d.labels, SpanOK 0 input l := by
  intro d hd l hl
  cases hdec : fe.decode (docYaml fm).text with
  | ok m =>
    have := (fmx_process_ok_diags fe (docYaml fm) m hdec d hd).2.2 l hl
    rw [fmd_docYaml_start, fmd_docYaml_text] at this
    exact fmx_keyLabel_ok hs this
  | err loc =>
    rw [fmx_process_err fe (docYaml fm) loc hdec] at hd
    simp only [List.mem_singleton] at hd
    subst hd
    cases loc with
    | none => simp [posLabel] at hl
    | some i =>
      simp only [posLabel, List.mem_singleton] at hl
      rw [hl, fmd_docYaml_start]
      rw [fmd_docYaml_text] at hdec
      exact fmx_pos_ok hs (hloc i hdec)

end FM
end Cook
