import CookModel.Lemmas.RoundtripBlock
import CookModel.Lemmas.Blocks
/-
  C01, from characters to blocks: the tokens the lexer produces from the rendering of a
  well-spelled token list spell that list and are a run (so every round-trip theorem applies to
  the printed string), and an input that is one newline-free block is handed to `parse_block` whole.
  (`rtin_` prefix.)
-/
set_option linter.unusedSectionVars false
set_option linter.unusedSimpArgs false
set_option linter.unusedVariables false
namespace Cook

variable {α : Type} [Arith α]

/-- the lexer's tokens of a printed well-spelled list: same kinds and texts, adjacent positions -/
theorem rtin_lex_spells (cs : CharSpec) (off : Nat) (spec : List Tok) (h : WellSpelled cs spec) :
    Spells (lexFrom cs off (render spec)) spec ∧ RunAt off (lexFrom cs off (render spec)) := by
  refine ⟨?_, lexFrom_chain cs off _, lexFrom_escapedOK cs off _⟩
  have := lexFrom_render cs off spec h
  unfold Spells Tok.kt
  exact this

theorem rtin_baseRun {off : Nat} {ts : List Tok} (h : RunAt off ts) : RunAt (baseOff ts) ts := h.base

/-- a token list without newline tokens that is not all blank is exactly one block -/
theorem rtin_allBlocks_single (ts : List Tok) (hnl : ∀ t ∈ ts, t.kind ≠ .newline)
    (hnb : ts.all (fun t => isEmptyTok t.kind) = false) : allBlocks (ts.length + 1) ts = [ts] := by
  obtain ⟨t0, tl, rfl⟩ : ∃ t0 tl, ts = t0 :: tl := by
    cases ts with
    | nil => simp at hnb
    | cons a b => exact ⟨a, b, rfl⟩
  have hdwg : ∀ l : List Tok, (∀ t ∈ l, t.kind ≠ .newline) → l.dropWhile (fun t => t.kind != .newline) = [] := by
    intro l hl
    induction l with
    | nil => rfl
    | cons c r ih =>
      have : (c.kind != TK.newline) = true := by simpa using hl c (by simp)
      rw [List.dropWhile_cons, this]
      exact ih (fun x hx => hl x (by simp [hx]))
  have hdw : (t0 :: tl).dropWhile (fun t => t.kind != .newline) = [] := hdwg _ hnl
  have htw : (t0 :: tl).takeWhile (fun t => t.kind != .newline) = t0 :: tl := by
    have := List.takeWhile_append_dropWhile (p := fun t : Tok => t.kind != .newline) (l := t0 :: tl)
    rw [hdw, List.append_nil] at this; exact this
  have hline : lineOf (t0 :: tl) = t0 :: tl := by unfold lineOf; rw [htw, hdw]; simp
  have hafter : afterLine (t0 :: tl) = [] := by unfold afterLine; rw [hdw]; rfl
  have hskip : skipEmptyLines ((t0 :: tl).length + 1) (t0 :: tl) =
      some (⟨t0 :: tl, false, isSingleLineMarker (some t0)⟩, []) := by
    rw [blocks_skip_unfold, blocks_pullLine_cons, hline, hafter, hnb]
    simp
  have hmore : (blockMore ⟨t0 :: tl, false, isSingleLineMarker (some t0)⟩ []) = ([], []) := by
    unfold blockMore
    split
    · rfl
    · simp [moreLines, isSingleLineMarker, pullLine]
  have hnext : nextBlock (t0 :: tl) = some (t0 :: tl, []) := by
    rw [blocks_next_eq, hskip]
    simp only [hmore, List.append_nil]
    rw [blocks_trim_id _ hnl]
  rw [blocks_all_unfold, hnext]
  simp [blocks_all_nil]

/-- an input without front matter whose tokens are one newline-free, non-blank block: `PullParser`
    is `parse_block` on all tokens -/
theorem rtin_pullEvents_single (cs : CharSpec) (ext : Ext) (input : List Char)
    (hfm : parseFrontmatter cs input = none) (hnl : ∀ t ∈ lex cs input, t.kind ≠ .newline)
    (hnb : (lex cs input).all (fun t => isEmptyTok t.kind) = false) :
    pullEvents (α := α) cs ext input = runBlock cs ext true (lex cs input) #[] none := by
  unfold pullEvents
  simp only [hfm]
  rw [rtin_allBlocks_single _ hnl hnb]
  rfl

/-! ### well-spelledness is compositional -/

/-- `ts` is well spelled when followed by a text starting with `nx` -/
def wellSpelledNext (cs : CharSpec) (nx : Option Char) : List Tok → Bool
  | [] => true
  | t :: ts => spellOK cs t.kind t.text ((render ts).head?.or nx) && wellSpelledNext cs nx ts

theorem rtin_render_append (a b : List Tok) : render (a ++ b) = render a ++ render b := by
  simp [render]

theorem rtin_wellSpelled_append (cs : CharSpec) (a b : List Tok) :
    wellSpelled cs (a ++ b) = (wellSpelledNext cs (render b).head? a && wellSpelled cs b) := by
  induction a with
  | nil => simp [wellSpelledNext]
  | cons t ts ih =>
    simp only [List.cons_append, wellSpelled, wellSpelledNext, ih, rtin_render_append, List.head?_append,
      Bool.and_assoc]

theorem rtin_wellSpelledNext_none (cs : CharSpec) (a : List Tok) : wellSpelledNext cs none a = wellSpelled cs a := by
  induction a with
  | nil => rfl
  | cons t ts ih => simp only [wellSpelledNext, wellSpelled, ih, Option.or_none]

end Cook
