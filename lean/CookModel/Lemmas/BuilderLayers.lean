import CookModel.Lemmas.BuilderPrecedence
/- C16 — how the settings of later layers combine with earlier ones (best lists, default system, SI tables,
   extend blocks, fractions). -/
namespace Cook.Bld
open Cook

/-- `self.best_units[group.quantity] = Some(best_units)` when the group gives a list -/
def bestStep {α : Type} (q : PQ) (acc : Option BestDecl) (g : QuantityGroup α) : Option BestDecl :=
  if g.quantity = q then g.best.or acc else acc

structure SameSettings {α : Type} (b b' : Builder α) : Prop where
  extend : b'.extend = b.extend
  si : b'.si = b.si
  fractions : b'.fractions = b.fractions
  dflt : b'.defaultSystem = b.defaultSystem

theorem addGroup_settings {α : Type} {b b' : Builder α} {g : QuantityGroup α} (h : addGroup b g = .ok b') :
    SameSettings b b' ∧ ∀ q, b'.best q = bestStep q (b.best q) g := by
  unfold addGroup at h
  split at h
  · cases h
  · split at h
    · rename_i hb; cases h
      refine ⟨⟨rfl, rfl, rfl, rfl⟩, ?_⟩
      intro q; simp [bestStep, hb]
    · rename_i bd hb
      split at h
      · cases h
      · cases h
        refine ⟨⟨rfl, rfl, rfl, rfl⟩, ?_⟩
        intro q
        simp only [setBest, bestStep, hb]
        by_cases hq : q = g.quantity
        · simp [hq]
        · have : ¬ g.quantity = q := fun e => hq e.symm
          simp [hq, this]

theorem addGroups_settings {α : Type} {gs : List (QuantityGroup α)} {b b' : Builder α} (h : addGroups gs b = .ok b') :
    SameSettings b b' ∧ ∀ q, b'.best q = gs.foldl (bestStep q) (b.best q) := by
  induction gs generalizing b with
  | nil => simp [addGroups] at h; subst h; exact ⟨⟨rfl, rfl, rfl, rfl⟩, fun _ => rfl⟩
  | cons g gs ih =>
    unfold addGroups at h
    split at h
    · cases h
    · rename_i b1 hb1
      obtain ⟨s1, q1⟩ := addGroup_settings hb1
      obtain ⟨s2, q2⟩ := ih h
      refine ⟨⟨s2.extend.trans s1.extend, s2.si.trans s1.si, s2.fractions.trans s1.fractions, s2.dflt.trans s1.dflt⟩, ?_⟩
      intro q; rw [q2, q1]; rfl

/-- one layer: what it does to the settings of the builder -/
def layerBest {α : Type} (q : PQ) (acc : Option BestDecl) (f : UnitsFile α) : Option BestDecl := f.quantity.foldl (bestStep q) acc
def layerSI {α : Type} (s : SIConf) (f : UnitsFile α) : SIConf := match f.si with | some x => joinSI s x | none => s
def layerDefault {α : Type} (d : Sys) (f : UnitsFile α) : Sys := f.defaultSystem.getD d

theorem addUnitsFile_settings {α : Type} {f : UnitsFile α} {b b' : Builder α} (h : addUnitsFile b f = .ok b') :
    b'.extend = b.extend ++ f.extend.toList ∧ b'.fractions = b.fractions ++ f.fractions.toList ∧
    b'.defaultSystem = layerDefault b.defaultSystem f ∧ b'.si = layerSI b.si f ∧ ∀ q, b'.best q = layerBest q (b.best q) f := by
  unfold addUnitsFile at h
  split at h
  · cases h
  · rename_i b1 hb1
    cases h
    obtain ⟨s1, q1⟩ := addGroups_settings hb1
    unfold addFileSettings layerDefault layerSI layerBest
    refine ⟨?_, ?_, ?_, ?_, ?_⟩
    · cases f.extend <;> cases f.si <;> cases f.defaultSystem <;> cases f.fractions <;> simp [s1.extend]
    · cases f.extend <;> cases f.si <;> cases f.defaultSystem <;> cases f.fractions <;> simp [s1.fractions]
    · cases f.extend <;> cases f.si <;> cases f.defaultSystem <;> cases f.fractions <;> simp [s1.dflt]
    · cases f.extend <;> cases f.si <;> cases f.defaultSystem <;> cases f.fractions <;> simp [s1.si]
    · intro q
      cases f.extend <;> cases f.si <;> cases f.defaultSystem <;> cases f.fractions <;> simp [q1]

/-- All layers: extend blocks and fraction layers are kept in layer order; the default system, the SI tables and the
    best lists are folded over the layers, so a later layer overrides (or, for SI tables, joins by its precedence). -/
theorem addFiles_settings {α : Type} {fs : List (UnitsFile α)} {b b' : Builder α} (h : addFiles fs b = .ok b') :
    b'.extend = b.extend ++ fs.filterMap (·.extend) ∧ b'.fractions = b.fractions ++ fs.filterMap (·.fractions) ∧
    b'.defaultSystem = fs.foldl layerDefault b.defaultSystem ∧ b'.si = fs.foldl layerSI b.si ∧
    ∀ q, b'.best q = fs.foldl (layerBest q) (b.best q) := by
  induction fs generalizing b with
  | nil => simp [addFiles] at h; subst h; simp
  | cons f fs ih =>
    unfold addFiles at h
    split at h
    · cases h
    · rename_i b1 hb1
      obtain ⟨a1, a2, a3, a4, a5⟩ := addUnitsFile_settings hb1
      obtain ⟨c1, c2, c3, c4, c5⟩ := ih h
      refine ⟨?_, ?_, ?_, ?_, ?_⟩
      · rw [c1, a1, List.filterMap_cons]; cases f.extend <;> simp
      · rw [c2, a2, List.filterMap_cons]; cases f.fractions <;> simp
      · rw [c3, a3]; rfl
      · rw [c4, a4]; rfl
      · intro q; rw [c5, a5]; rfl

/-! ### reading the folds: the last layer that says something wins -/

theorem layerDefault_last {α : Type} (fs : List (UnitsFile α)) (f : UnitsFile α) (d : Sys) (s : Sys) (hs : f.defaultSystem = some s) :
    (fs ++ [f]).foldl layerDefault d = s := by
  simp [List.foldl_append, layerDefault, hs]

theorem layerDefault_none {α : Type} (fs : List (UnitsFile α)) (f : UnitsFile α) (d : Sys) (hs : f.defaultSystem = none) :
    (fs ++ [f]).foldl layerDefault d = fs.foldl layerDefault d := by
  simp [List.foldl_append, layerDefault, hs]

/-- a group that gives a best list for `q` overrides whatever was there; the groups after it that say nothing about
    `q` do not change it -/
theorem bestStep_foldl_last {α : Type} (q : PQ) (pre post : List (QuantityGroup α)) (g : QuantityGroup α) (bd : BestDecl)
    (acc : Option BestDecl) (hq : g.quantity = q) (hb : g.best = some bd)
    (hpost : ∀ g', g' ∈ post → g'.quantity = q → g'.best = none) :
    (pre ++ g :: post).foldl (bestStep q) acc = some bd := by
  rw [List.foldl_append, List.foldl_cons]
  have h1 : bestStep q (pre.foldl (bestStep q) acc) g = some bd := by simp [bestStep, hq, hb]
  rw [h1]
  clear h1
  induction post with
  | nil => rfl
  | cons g' post ih =>
    rw [List.foldl_cons]
    have : bestStep q (some bd) g' = some bd := by
      unfold bestStep
      split
      · rename_i hq'; rw [hpost g' (by simp) hq']; rfl
      · rfl
    rw [this]; exact ih (fun x hx => hpost x (by simp [hx]))

theorem joinPrefixes_before (a b : SIPrefix → List Key) : joinPrefixes (some a) (some b) .before = some (fun p => b p ++ a p) := rfl
theorem joinPrefixes_after (a b : SIPrefix → List Key) : joinPrefixes (some a) (some b) .after = some (fun p => a p ++ b p) := rfl
theorem joinPrefixes_override (a b : SIPrefix → List Key) : joinPrefixes (some a) (some b) .override = some b := rfl
theorem joinPrefixes_none_right (a : Option (SIPrefix → List Key)) (pr : Prec) : joinPrefixes a none pr = a := by
  cases a <;> rfl
theorem joinPrefixes_none_left (b : Option (SIPrefix → List Key)) (pr : Prec) : joinPrefixes none b pr = b := by
  cases b <;> rfl

/-! ### fractions: later layers override field by field, a unit's setting falls back to quantity, system, all -/

theorem lastLayer_append {α : Type} (sel : FractionsDecl α → Option (FracW α)) (fs : List (FractionsDecl α)) (f : FractionsDecl α)
    (acc : Option (FracH α)) : lastLayer sel (fs ++ [f]) acc = ((sel f).map FracW.get).or (lastLayer sel fs acc) := by
  induction fs generalizing acc with
  | nil => rfl
  | cons g fs ih => simp only [List.cons_append, lastLayer]; exact ih _

theorem quantityLayer_get {α : Type} (l : List (PQ × FracW α)) (m : PQ → Option (FracH α)) (q : PQ) :
    quantityLayer l m q = ((l.reverse.find? (fun e => decide (e.1 = q))).map (·.2.get)).or (m q) := by
  induction l generalizing m with
  | nil => simp [quantityLayer]
  | cons e l ih =>
    simp only [quantityLayer, ih, List.reverse_cons, List.find?_append]
    cases hf : l.reverse.find? (fun e => decide (e.1 = q)) with
    | some x => simp
    | none =>
      simp only [Option.none_or, List.find?_cons, List.find?_nil, Option.map_none, setQ]
      by_cases hq : e.1 = q
      · simp [hq]
      · have : ¬ q = e.1 := fun x => hq x.symm
        simp [hq, this]

theorem quantityLayers_append {α : Type} (fs : List (FractionsDecl α)) (f : FractionsDecl α) (m : PQ → Option (FracH α)) :
    quantityLayers (fs ++ [f]) m = quantityLayer f.quantity (quantityLayers fs m) := by
  induction fs generalizing m with
  | nil => rfl
  | cons g fs ih => simp only [List.cons_append, quantityLayers]; exact ih _

theorem mapGet_mapInsert {β : Type} (m : List (Nat × β)) (k k' : Nat) (v : β) :
    mapGet (mapInsert m k v) k' = if k' = k then some v else mapGet m k' := by
  unfold mapInsert
  by_cases h : k' = k
  · simp [mapGet, h]
  · simp only [mapGet, h, ↓reduceIte]
    induction m with
    | nil => simp [mapGet]
    | cons e t ih =>
      obtain ⟨ek, ev⟩ := e
      by_cases he : ek = k
      · subst he; simp [List.filter_cons, mapGet, h, ih]
      · simp only [List.filter_cons, bne_iff_ne, ne_eq, he, not_false_eq_true, decide_true, ↓reduceIte, mapGet, ih]

/-- `FractionsConfigHelper::merge`: the receiver's fields win, field by field -/
theorem FracH.merge_enabled {α : Type} (a b : FracH α) : (a.merge b).enabled = a.enabled.or b.enabled := rfl

end Cook.Bld

namespace Cook.Bld
open Cook

theorem applyExtendGroups_append {α : Type} [Arith α] (si : SIConf) (gs : List (Extend α)) (g : Extend α) (c c' : Core α)
    (h : applyExtendGroups si (gs ++ [g]) c = .ok c') :
    ∃ c1, applyExtendGroups si gs c = .ok c1 ∧ applyExtendGroup si c1 g = .ok c' := by
  induction gs generalizing c with
  | nil =>
    simp only [List.nil_append, applyExtendGroups] at h
    split at h
    · cases h
    · rename_i c1 hc1; cases h; exact ⟨c, rfl, hc1⟩
  | cons g0 gs ih =>
    simp only [List.cons_append, applyExtendGroups] at h
    split at h
    · cases h
    · rename_i c0 hc0
      obtain ⟨c1, h1, h2⟩ := ih c0 h
      exact ⟨c1, by simp only [applyExtendGroups, hc0]; exact h1, h2⟩

/-- the state just before the extend block of the last layer is applied -/
theorem build_last_block {α : Type} [Arith α] (fs : List (UnitsFile α)) (f : UnitsFile α) (g : Extend α) (hg : f.extend = some g)
    (b : Builder α) (c : Core α) (h : buildCore (fs ++ [f]) = .ok (b, c)) :
    ∃ c0, Ready c0 ∧ applyExtendGroup b.si c0 g = .ok c := by
  unfold buildCore at h
  split at h
  · cases h
  · rename_i b0 hb0
    split at h
    · cases h
    · rename_i c1 hc1
      cases h
      have hbok := (addFiles_good (fs ++ [f]) Builder.empty BOK.empty).of_ok hb0
      obtain ⟨hext, _⟩ := addFiles_settings hb0
      have hext' : b.extend = fs.filterMap (·.extend) ++ [g] := by
        rw [hext]; simp [Builder.empty, List.filterMap_append, hg]
      unfold finishCore at hc1
      split at hc1
      · cases hc1
      · rename_i ce hce
        have hr := (expandAll_good b.si b.core hbok.1).of_ok hce
        rw [hext'] at hc1
        obtain ⟨c0, h0, h1⟩ := applyExtendGroups_append b.si _ g ce c hc1
        exact ⟨c0, (applyExtendGroups_good b.si _ ce hr).of_ok h0, h1⟩

theorem optJoin_before (old new : List Key) : optJoin old (some new) .before = new ++ old := rfl
theorem optJoin_after (old new : List Key) : optJoin old (some new) .after = old ++ new := rfl
theorem optJoin_override (old new : List Key) : optJoin old (some new) .override = new := rfl
theorem optJoin_none (old : List Key) (pr : Prec) : optJoin old none pr = old := rfl

end Cook.Bld
