import CookModel.Lemmas.DiagPlaceInst
/-
  C07 placement, the remaining catalogued families (`c07w_` prefix, wave 6).  Instead of one lemma per
  construct, one GENERIC piece lemma per component parser and tail shape, parameterised by the exact
  reading of the part that raises the diagnostic:

    `c07w_timer_noqty_piece`   `~ mods name {}` (+ anything after it, also a note): modifiers-not-allowed:timer,
                               alias-not-allowed:timer, note-not-allowed:timer, timer-missing-quantity,
                               timer-neither-name-nor-quantity — the exact list, every extension set
    `c07w_timer_qty_piece`     `~ mods name { Q }`: the same head/note events, then what `parse_quantity Q` pushes
                               (any exact reading `l`), then timer-missing-unit iff the reading has no unit
    `c07w_ingredient_qty_piece`, `c07w_cookware_qty_piece`   `@name{Q}`, `#name{Q}` with any exact reading of `Q`
                               (empty value, empty unit, value errors …; cookware adds cookware-unit iff a unit)
    `c07w_ingredient_alias_piece`, `c07w_cookware_alias_piece`   `@ mods name|alias… {}` with COMPONENT_ALIAS: the alias
                               errors (multiple-aliases, empty-alias), then the duplicate / recipe modifier errors
    `c07w_cookware_empty_name_piece`   `#{}`
-/
set_option linter.unusedSectionVars false
set_option linter.unusedSimpArgs false
set_option linter.unusedVariables false
namespace Cook

variable {α : Type} [Arith α]

/-! ### the timer tail, exactly, for every modifier list / name / follower -/

/-- what the head of `timer` pushes: `modifiers-not-allowed:timer` (labelled with the span of all modifier
    tokens) iff there are modifier tokens, then `alias-not-allowed:timer` (labelled from the first `|` to the
    end of the name) iff COMPONENT_ALIAS is on and the name tokens contain a `|` -/
def c07w_timerHeadEvs (mtoks name : List Tok) (e : Ext) : List (Ev α) :=
  (if mtoks.isEmpty then [] else [.error ⟨.error, .parse, "modifiers-not-allowed:timer", [tokensSpan mtoks]⟩]) ++
  (if e.has Gen.EXT_COMPONENT_ALIAS then
    match name.findIdx? (fun t => t.kind == .or) with
    | some i => [.error ⟨.error, .parse, "alias-not-allowed:timer",
        [⟨((name[i]?).getD dummyTok).start, ((name.getLast?).getD ((name[i]?).getD dummyTok)).stop⟩]⟩]
    | none => []
   else [])

theorem c07w_timerHead_exact (mtoks : List Tok) (body : Body) (s : BP α) :
    timerHead mtoks body s = ((), pushAll (c07w_timerHeadEvs mtoks body.name s.ext) s) := by
  unfold timerHead timerHeadA timerHeadB c07w_timerHeadEvs pushAll
  cases hm : mtoks.isEmpty <;> cases he : s.ext.has Gen.EXT_COMPONENT_ALIAS <;>
    cases hi : body.name.findIdx? (fun t => t.kind == .or) <;>
    simp [bind, StateT.bind, hasExt, perr, pushEv, modify, modifyGet, MonadStateOf.modifyGet, StateT.modifyGet,
      get, getThe, MonadStateOf.get, StateT.get, pure, StateT.pure, hm, he, hi]

/-- `timerNoteEvs` as a function of the token list and the cursor -/
def c07w_noteEvs (T : List Tok) (c : Nat) : List (Ev α) :=
  match T[c]? with
  | some op =>
    if op.kind = .openParen then
      match (T.drop (c + 1)).findIdx? (fun t => t.kind == .closeParen) with
      | some n => [timerNoteWarn op ((T[c + 1 + n]?).getD dummyTok)]
      | none => []
    else []
  | none => []

theorem c07w_noteEvs_eq (s : BP α) : timerNoteEvs s = c07w_noteEvs s.toks s.cur := rfl

theorem c07w_pushAll_cs (l : List (Ev α)) (s : BP α) : (pushAll l s).cs = s.cs ∧ (pushAll l s).ext = s.ext :=
  ⟨(pushAll_pushed l s).1, (pushAll_pushed l s).2.1⟩

/-- the tail of `timer` is its last part run after the head and the note check have pushed their events -/
theorem c07w_timerTail_run (start stop nameOffset : Nat) (mtoks : List Tok) (body : Body) (s : BP α) :
    timerTail (α := α) start stop nameOffset mtoks body s =
      timerRest2 start stop nameOffset body
        (pushAll (c07w_noteEvs s.toks s.cur) (pushAll (c07w_timerHeadEvs mtoks body.name s.ext) s)) := by
  rw [timerTail_eq]
  show timerRest2 start stop nameOffset body (checkNoteTimer (timerHead mtoks body s).2).2 = _
  rw [c07w_timerHead_exact, checkNoteTimer_exact, c07w_noteEvs_eq, (pushAll_fields _ s).1, (pushAll_fields _ s).2.1]

/-- what `timer` pushes at the end when there is no quantity: `timer-missing-quantity` (on the braces) under
    TIMER_REQUIRES_TIME; otherwise `timer-neither-name-nor-quantity` (from the name offset to the `}`) iff the
    name is blank -/
def c07w_timerFinishEvs (nameOffset : Nat) (body : Body) (name : Text) (cs : CharSpec) (e : Ext) : List (Ev α) :=
  if e.has Gen.EXT_TIMER_REQUIRES_TIME then
    [.error ⟨.error, .parse, "timer-missing-quantity", [body.close.getD (Span.pos name.span.stop)]⟩]
  else if name.isTextEmpty cs then
    [.error ⟨.error, .parse, "timer-neither-name-nor-quantity", [timerNeitherSpan nameOffset body]⟩]
  else []

/-- the quantity of the delivered timer when there is none in the text: the recovery value iff an error was raised -/
def c07w_timerFinishQty (name : Text) (cs : CharSpec) (e : Ext) : Option (Loc (PQuantity α)) :=
  if e.has Gen.EXT_TIMER_REQUIRES_TIME || name.isTextEmpty cs then some recoverPQuantity else none

theorem c07w_timerFinish_none (start stop nameOffset : Nat) (body : Body) (name : Text) (cs : CharSpec) (s : BP α) :
    Sat (timerFinish (α := α) start stop nameOffset body name cs none) s (fun r s' =>
      Pushed (c07w_timerFinishEvs nameOffset body name cs s.ext) s s' ∧
      r = some (.timer ⟨⟨if name.isTextEmpty cs then none else some name, c07w_timerFinishQty name cs s.ext⟩,
        ⟨start, stop⟩⟩)) := by
  unfold timerFinish c07w_timerFinishEvs c07w_timerFinishQty
  dsimp only
  refine Sat.bind (Sat.hasExt ?_)
  cases he : s.ext.has Gen.EXT_TIMER_REQUIRES_TIME
  · simp only [Option.isNone_none, Bool.and_false, Bool.false_eq_true, if_false, Bool.false_or]
    cases hn : name.isTextEmpty cs
    · simp only [Bool.false_eq_true, if_false, Option.isNone_some, Bool.false_and]
      refine Sat.bind (Sat.pure ?_)
      refine Sat.bind (Sat.pure ?_)
      exact Sat.pure ⟨Pushed.refl _, rfl⟩
    · simp only [if_true, Option.isNone_none, Bool.and_self]
      refine Sat.bind (Sat.perrE ?_)
      refine Sat.pure ⟨(Pushed.one _ _).cast ?_, rfl⟩
      simp only [timerNeitherSpan]
  · simp only [Option.isNone_none, Bool.and_self, if_true, Bool.true_or]
    refine Sat.bind (Sat.bind (Sat.perrE ?_))
    refine Sat.pure ?_
    simp only [Option.isNone_some, Bool.and_false, Bool.false_eq_true, if_false]
    refine Sat.bind (Sat.pure ?_)
    exact Sat.pure ⟨Pushed.one _ _, rfl⟩

/-- the last part of `timer` without quantity tokens -/
theorem c07w_timerRest2_none (start stop nameOffset : Nat) (body : Body) (s : BP α) (hq : body.quantity = none) :
    Sat (timerRest2 (α := α) start stop nameOffset body) s (fun r s' =>
      Pushed (c07w_timerFinishEvs nameOffset body (buildText nameOffset body.name) s.cs s.ext) s s' ∧
      r = some (.timer ⟨⟨if (buildText nameOffset body.name).isTextEmpty s.cs then none
          else some (buildText nameOffset body.name),
        c07w_timerFinishQty (buildText nameOffset body.name) s.cs s.ext⟩, ⟨start, stop⟩⟩)) := by
  unfold timerRest2
  refine Sat.bind (Sat.mono (bpText_spec nameOffset body.name s) ?_)
  rintro name s3 ⟨rfl, q3⟩
  refine Sat.bind (Sat.get ?_)
  refine Sat.bind ?_
  unfold timerQty
  rw [hq]
  refine Sat.pure ?_
  refine Sat.mono (c07w_timerFinish_none start stop nameOffset body _ s3.cs s3) ?_
  rintro r s5 ⟨p5, hr⟩
  rw [q3.1, q3.2.1] at p5 hr
  exact ⟨q3.pushed.trans p5, hr⟩

/-- the last part of `timer` with quantity tokens `qt`, for any exact reading of them -/
theorem c07w_timerRest2_some (start stop nameOffset : Nat) (body : Body) (s : BP α)
    (qt : List Tok) (hq : body.quantity = some qt) (l : List (Ev α)) (R : ParsedQuantity α → Prop)
    (hQ : ∀ sq, sq.cs = s.cs → sq.ext = s.ext → Sat (parseQuantity (α := α) qt) sq (fun r s' => Pushed l sq s' ∧ R r)) :
    Sat (timerRest2 (α := α) start stop nameOffset body) s (fun r s' =>
      ∃ q, R q ∧ Pushed (l ++ c07f_missingUnitEvs q) s s' ∧
        r = some (.timer ⟨⟨if (buildText nameOffset body.name).isTextEmpty s.cs then none
          else some (buildText nameOffset body.name), some q.quantity⟩, ⟨start, stop⟩⟩)) := by
  unfold timerRest2
  refine Sat.bind (Sat.mono (bpText_spec nameOffset body.name s) ?_)
  rintro name s3 ⟨rfl, q3⟩
  refine Sat.bind (Sat.get ?_)
  refine Sat.bind ?_
  unfold timerQty
  rw [hq]
  dsimp only
  refine Sat.bind (Sat.mono (hQ s3 q3.1 q3.2.1) ?_)
  rintro q s4 ⟨p4, hr⟩
  cases hu : q.quantity.val.unit.isNone with
  | false =>
    simp only [Bool.false_eq_true, if_false]
    refine Sat.bind (Sat.pure ?_)
    refine Sat.pure ?_
    refine Sat.mono (timerFinish_some start stop nameOffset body _ s3.cs q.quantity s4) ?_
    rintro r s5 ⟨rfl, hr'⟩
    refine ⟨q, hr, (q3.pushed.trans p4).cast (by simp [c07f_missingUnitEvs, hu]), ?_⟩
    rw [hr', q3.1]
  | true =>
    simp only [if_true]
    refine Sat.bind (Sat.perrE ?_)
    refine Sat.pure ?_
    refine Sat.mono (timerFinish_some start stop nameOffset body _ s3.cs q.quantity _) ?_
    rintro r s5 ⟨rfl, hr'⟩
    refine ⟨q, hr, ((q3.pushed.trans p4).trans (Pushed.one _ _)).cast (by simp [c07f_missingUnitEvs, hu]), ?_⟩
    rw [hr', q3.1]

/-! ### the cut of a braces component followed by ANYTHING (timers: a note may follow) -/

/-- `PlShape` without the clause on what follows the component -/
structure PlShapeN (e : Ext) (k : TK) (tm : Tok) (ms nameT : List Tok) (tob : Tok) (Q : List Tok) (tcb : Tok) :
    Prop where
  hk : tm.kind = k
  hm : (e.has Gen.EXT_COMPONENT_MODIFIERS = false ∧ ms = []) ∨
    (e.has Gen.EXT_COMPONENT_MODIFIERS = true ∧ (∀ m ∈ ms, modKind m.kind = true) ∧
      ∀ x, (nameT ++ [tob]).head? = some x → modKind x.kind = false ∧ x.kind ≠ .openParen)
  hn : ∀ t ∈ nameT, (t.kind == .openBrace || isMarker t.kind) = false
  hob : tob.kind = .openBrace
  hQ : ∀ t ∈ Q, t.kind ≠ .closeBrace
  hcb : tcb.kind = .closeBrace

theorem PlShape.toN {e : Ext} {k : TK} {tm : Tok} {ms nameT : List Tok} {tob : Tok} {Q : List Tok} {tcb : Tok}
    {rest : List Tok} (sh : PlShape e k tm ms nameT tob Q tcb rest) : PlShapeN e k tm ms nameT tob Q tcb :=
  ⟨sh.hk, sh.hm, sh.hn, sh.hob, sh.hQ, sh.hcb⟩

theorem c07w_cutN (k : TK) (s : BP α) (A : List Tok) (tm : Tok) (ms nameT : List Tok) (tob : Tok) (Q : List Tok)
    (tcb : Tok) (rest : List Tok) (sh : PlShapeN s.ext k tm ms nameT tob Q tcb)
    (ht : s.toks = A ++ (c07p_comp tm ms nameT tob Q tcb ++ rest)) (hc : s.cur = A.length) :
    Cut k s ms (c07p_body nameT tob Q tcb)
      { s with cur := A.length + 1 } { s with cur := A.length + 1 + ms.length }
      { s with cur := A.length + (c07p_comp tm ms nameT tob Q tcb).length } := by
  have ht' : s.toks = A ++ tm :: (ms ++ (nameT ++ tob :: (Q ++ tcb :: rest))) := by
    rw [ht]; simp [c07p_comp]
  have h1 := consumeK_split_some k s A tm _ ht' hc sh.hk
  have h2 : modifiersP ({ s with cur := A.length + 1 } : BP α) = (ms, { s with cur := A.length + 1 + ms.length }) := by
    rcases sh.hm with ⟨hoff, hms⟩ | ⟨hon, hms, hx⟩
    · subst hms
      rw [modifiersP_off ({ s with cur := A.length + 1 } : BP α) hoff]; rfl
    · obtain ⟨x, R', hxr⟩ : ∃ x R', nameT ++ tob :: (Q ++ tcb :: rest) = x :: R' := by
        cases nameT with
        | nil => exact ⟨_, _, rfl⟩
        | cons n ns => exact ⟨_, _, rfl⟩
      have hxh : (nameT ++ [tob]).head? = some x := by
        cases nameT with
        | nil => simp at hxr ⊢; exact hxr.1
        | cons n ns => simp at hxr ⊢; exact hxr.1
      have hx' := hx x hxh
      have := modifiersP_on ({ s with cur := A.length + 1 } : BP α) hon (A ++ [tm]) ms x R'
        (by show s.toks = _; rw [ht', hxr]; simp) (by simp) hms hx'.1 hx'.2
      rw [this]
      exact congrArg (fun c => (ms, ({ s with cur := c } : BP α))) (by simp)
  have h3 := compBody_run ({ s with cur := A.length + 1 + ms.length } : BP α) (A ++ tm :: ms) nameT tob Q tcb rest
    (by show s.toks = _; rw [ht']; simp) (by simp; omega) sh.hn sh.hob sh.hQ sh.hcb
  have hlen : (A ++ tm :: ms).length + nameT.length + 1 + Q.length + 1 =
      A.length + (c07p_comp tm ms nameT tob Q tcb).length := by
    rw [c07p_comp_length]; simp only [List.length_append, List.length_cons]; omega
  rw [hlen] at h3
  exact ⟨⟨tm, h1⟩, h2, h3⟩

theorem c07w_timer_run (s : BP α) (A : List Tok) (tm : Tok) (ms nameT : List Tok) (tob : Tok) (Q : List Tok)
    (tcb : Tok) (rest : List Tok) (sh : PlShapeN s.ext .tilde tm ms nameT tob Q tcb)
    (ht : s.toks = A ++ (c07p_comp tm ms nameT tob Q tcb ++ rest)) (hc : s.cur = A.length) :
    timerP s = timerTail (offAt s.toks A.length)
      (offAt s.toks (A.length + (c07p_comp tm ms nameT tob Q tcb).length))
      (offAt s.toks (A.length + 1 + ms.length)) ms (c07p_body nameT tob Q tcb)
      { s with cur := A.length + (c07p_comp tm ms nameT tob Q tcb).length } := by
  have hcut := c07w_cutN .tilde s A tm ms nameT tob Q tcb rest sh ht hc
  have := timerP_cut hcut
  rw [this]
  simp only [curOff, hc]

theorem c07w_timer_run2 (s : BP α) (A : List Tok) (tm : Tok) (ms nameT : List Tok) (tob : Tok) (Q : List Tok)
    (tcb : Tok) (rest : List Tok) (sh : PlShapeN s.ext .tilde tm ms nameT tob Q tcb)
    (ht : s.toks = A ++ (c07p_comp tm ms nameT tob Q tcb ++ rest)) (hc : s.cur = A.length) :
    timerP s = timerRest2 (offAt s.toks A.length)
      (offAt s.toks (A.length + (c07p_comp tm ms nameT tob Q tcb).length))
      (offAt s.toks (A.length + 1 + ms.length)) (c07p_body nameT tob Q tcb)
      (pushAll (c07w_noteEvs s.toks (A.length + (c07p_comp tm ms nameT tob Q tcb).length))
        (pushAll (c07w_timerHeadEvs ms nameT s.ext)
          ({ s with cur := A.length + (c07p_comp tm ms nameT tob Q tcb).length } : BP α))) := by
  rw [c07w_timer_run s A tm ms nameT tob Q tcb rest sh ht hc, c07w_timerTail_run]
  rfl

theorem c07w_pushed_setCur (s : BP α) (c : Nat) : Pushed [] s ({ s with cur := c } : BP α) := ⟨rfl, rfl, by simp⟩

/-- **a timer without quantity, wherever it stands and whatever follows it** (`~x{}`, `~{}`, `~?x{}`, `~a|b{}`,
    `~x{}(note)`): from every state one iteration consumes exactly the timer and pushes EXACTLY
    `modifiers-not-allowed:timer` iff there are modifier tokens, `alias-not-allowed:timer` iff COMPONENT_ALIAS is on
    and the name has a `|`, `note-not-allowed:timer` iff `(` … `)` follows, then `timer-missing-quantity` (under
    TIMER_REQUIRES_TIME) or else `timer-neither-name-nor-quantity` iff the name is blank; then the timer. -/
theorem c07w_timer_noqty_piece (T A rest : List Tok) (cs : CharSpec) (e : Ext) (tm : Tok) (ms nameT : List Tok)
    (tob : Tok) (Q : List Tok) (tcb : Tok)
    (hT : T = A ++ (c07p_comp tm ms nameT tob Q tcb ++ rest)) (hw : WF T)
    (sh : PlShapeN e .tilde tm ms nameT tob Q tcb) (hQ : ∀ t ∈ Q, isPadK t = true) :
    PlPieceAt (α := α) T cs e A ⟨c07p_comp tm ms nameT tob Q tcb, fun evs =>
      evs = c07w_timerHeadEvs ms nameT e ++ c07w_noteEvs T (A.length + (c07p_comp tm ms nameT tob Q tcb).length) ++
        c07w_timerFinishEvs (offAt T (A.length + 1 + ms.length)) (c07p_body nameT tob Q tcb)
          (buildText (offAt T (A.length + 1 + ms.length)) nameT) cs e ++
        [.timer ⟨⟨if (buildText (offAt T (A.length + 1 + ms.length)) nameT).isTextEmpty cs then none
            else some (buildText (offAt T (A.length + 1 + ms.length)) nameT),
          c07w_timerFinishQty (buildText (offAt T (A.length + 1 + ms.length)) nameT) cs e⟩,
          ⟨offAt T A.length, offAt T (A.length + (c07p_comp tm ms nameT tob Q tcb).length)⟩⟩]⟩ := by
  apply c07p_piece_of_timer T A _ rest cs e hT hw tm _ rfl sh.hk
  intro s h1 h2 h3 h4 h5
  subst h1 h2 h3
  have hrun := c07w_timer_run s A tm ms nameT tob Q tcb rest sh hT h5
  have hbody := c07p_body_qty_none nameT tob Q tcb hQ
  have hrun2 := c07w_timer_run2 s A tm ms nameT tob Q tcb rest sh hT h5
  have ht := c07w_timerRest2_none (α := α) (offAt s.toks A.length)
    (offAt s.toks (A.length + (c07p_comp tm ms nameT tob Q tcb).length))
    (offAt s.toks (A.length + 1 + ms.length)) (c07p_body nameT tob Q tcb)
    (pushAll (c07w_noteEvs s.toks (A.length + (c07p_comp tm ms nameT tob Q tcb).length))
      (pushAll (c07w_timerHeadEvs ms nameT s.ext)
        ({ s with cur := A.length + (c07p_comp tm ms nameT tob Q tcb).length } : BP α))) hbody
  unfold Sat at ht
  rw [← hrun2] at ht
  obtain ⟨hpu, hr⟩ := ht
  simp only [(c07w_pushAll_cs _ _).1, (c07w_pushAll_cs _ _).2] at hpu hr
  have hp := ((c07w_pushed_setCur s (A.length + (c07p_comp tm ms nameT tob Q tcb).length)).trans
    ((pushAll_pushed _ _).trans (pushAll_pushed _ _))).trans hpu
  refine ⟨_, _, hr, hp, ?_, ?_⟩
  · rw [hrun]
    exact c07p_timerTail_cur ..
  · simp [c07p_body]

/-- **a timer with quantity tokens, wherever it stands and whatever follows it**, for any exact reading
    `l`/`R` of the quantity tokens by `parse_quantity`: the head errors, the note warning, `l`, then
    `timer-missing-unit` iff the reading has no unit, then the timer carrying the quantity read. -/
theorem c07w_timer_qty_piece (T A rest : List Tok) (cs : CharSpec) (e : Ext) (tm : Tok) (ms nameT : List Tok)
    (tob : Tok) (Q : List Tok) (tcb : Tok)
    (hT : T = A ++ (c07p_comp tm ms nameT tob Q tcb ++ rest)) (hw : WF T)
    (sh : PlShapeN e .tilde tm ms nameT tob Q tcb) (hne : ∃ t ∈ Q, isPadK t = false)
    (l : List (Ev α)) (R : ParsedQuantity α → Prop)
    (hQ : ∀ sq : BP α, sq.cs = cs → sq.ext = e → Sat (parseQuantity (α := α) Q) sq (fun r s' => Pushed l sq s' ∧ R r)) :
    PlPieceAt (α := α) T cs e A ⟨c07p_comp tm ms nameT tob Q tcb, fun evs => ∃ q : ParsedQuantity α, R q ∧
      evs = c07w_timerHeadEvs ms nameT e ++ c07w_noteEvs T (A.length + (c07p_comp tm ms nameT tob Q tcb).length) ++
        (l ++ c07f_missingUnitEvs q) ++
        [.timer ⟨⟨if (buildText (offAt T (A.length + 1 + ms.length)) nameT).isTextEmpty cs then none
            else some (buildText (offAt T (A.length + 1 + ms.length)) nameT), some q.quantity⟩,
          ⟨offAt T A.length, offAt T (A.length + (c07p_comp tm ms nameT tob Q tcb).length)⟩⟩]⟩ := by
  apply c07p_piece_of_timer T A _ rest cs e hT hw tm _ rfl sh.hk
  intro s h1 h2 h3 h4 h5
  subst h1 h2 h3
  have hrun := c07w_timer_run s A tm ms nameT tob Q tcb rest sh hT h5
  have hbody := c07p_body_qty_some nameT tob Q tcb hne
  have hrun2 := c07w_timer_run2 s A tm ms nameT tob Q tcb rest sh hT h5
  have ht := c07w_timerRest2_some (α := α) (offAt s.toks A.length)
    (offAt s.toks (A.length + (c07p_comp tm ms nameT tob Q tcb).length))
    (offAt s.toks (A.length + 1 + ms.length)) (c07p_body nameT tob Q tcb)
    (pushAll (c07w_noteEvs s.toks (A.length + (c07p_comp tm ms nameT tob Q tcb).length))
      (pushAll (c07w_timerHeadEvs ms nameT s.ext)
        ({ s with cur := A.length + (c07p_comp tm ms nameT tob Q tcb).length } : BP α))) Q hbody l R
    (fun sq h1 h2 => hQ sq (by rw [h1, (c07w_pushAll_cs _ _).1, (c07w_pushAll_cs _ _).1])
      (by rw [h2, (c07w_pushAll_cs _ _).2, (c07w_pushAll_cs _ _).2]))
  unfold Sat at ht
  rw [← hrun2] at ht
  obtain ⟨q, hRq, hpu, hr⟩ := ht
  simp only [(c07w_pushAll_cs _ _).1, (c07w_pushAll_cs _ _).2] at hpu hr
  have hp := ((c07w_pushed_setCur s (A.length + (c07p_comp tm ms nameT tob Q tcb).length)).trans
    ((pushAll_pushed _ _).trans (pushAll_pushed _ _))).trans hpu
  refine ⟨_, _, hr, hp, ?_, q, hRq, ?_⟩
  · rw [hrun]
    exact c07p_timerTail_cur ..
  · simp [c07p_body]

/-! ### ingredient / cookware with quantity tokens, for any exact reading of them -/

/-- **an ingredient whose quantity tokens raise diagnostics** (`@x{%g}`, `@x{= %g}`, `@x{5%}`, `@x{1/0%g}` …): no
    modifiers, no alias separator, a non-blank name; `parse_quantity` on the quantity tokens pushes exactly `l`
    (result described by `R`) from every state.  Then exactly `l`, then the ingredient carrying the quantity read. -/
theorem c07w_ingredient_qty_piece (T A rest : List Tok) (cs : CharSpec) (e : Ext) (tm : Tok) (nameT : List Tok)
    (tob : Tok) (Q : List Tok) (tcb : Tok)
    (hT : T = A ++ (c07p_comp tm [] nameT tob Q tcb ++ rest)) (hw : WF T)
    (sh : PlShape e .at tm [] nameT tob Q tcb rest)
    (ha : e.has Gen.EXT_COMPONENT_ALIAS = false ∨ ∀ t ∈ nameT, t.kind ≠ .or)
    (hname : (buildText (offAt T (A.length + 1)) nameT).isTextEmpty cs = false)
    (hne : ∃ t ∈ Q, isPadK t = false) (l : List (Ev α)) (R : ParsedQuantity α → Prop)
    (hQ : ∀ sq : BP α, sq.cs = cs → sq.ext = e → Sat (parseQuantity (α := α) Q) sq (fun r s' => Pushed l sq s' ∧ R r)) :
    PlPieceAt T cs e A ⟨c07p_comp tm [] nameT tob Q tcb, fun evs => ∃ q : ParsedQuantity α, R q ∧
      evs = l ++ [.ingredient ⟨⟨⟨Modifiers.empty, Span.pos (offAt T (A.length + 1))⟩, none,
        buildText (offAt T (A.length + 1)) nameT, none, some q.quantity, none⟩,
        ⟨offAt T A.length, offAt T (A.length + (c07p_comp tm [] nameT tob Q tcb).length)⟩⟩]⟩ := by
  apply c07p_piece_of_ingredient T A _ rest cs e hT hw tm _ rfl sh.hk
  intro s h1 h2 h3 h4 h5
  subst h1 h2 h3
  have hrun := c07p_ingredient_run s A tm [] nameT tob Q tcb rest sh hT h5
  have hbody := c07p_body_qty_some nameT tob Q tcb hne
  have ht := c07e_ingredientTail_q (α := α) (offAt s.toks A.length)
    (offAt s.toks (A.length + (c07p_comp tm [] nameT tob Q tcb).length))
    (offAt s.toks (A.length + 1)) (offAt s.toks (A.length + 1)) (c07p_body nameT tob Q tcb) none
    ({ s with cur := A.length + (c07p_comp tm [] nameT tob Q tcb).length } : BP α) Q hbody ha hname
    l R (fun sq qq => hQ sq qq.1 qq.2.1)
  unfold Sat at ht
  have hrun' : ingredientP s = ingredientTail (offAt s.toks A.length)
      (offAt s.toks (A.length + (c07p_comp tm [] nameT tob Q tcb).length))
      (offAt s.toks (A.length + 1)) (offAt s.toks (A.length + 1)) [] (c07p_body nameT tob Q tcb) none
      { s with cur := A.length + (c07p_comp tm [] nameT tob Q tcb).length } := hrun
  rw [← hrun'] at ht
  obtain ⟨hpu, q, hRq, hr⟩ := ht
  refine ⟨l, _, hr, hpu, ?_, q, hRq, rfl⟩
  rw [hrun']
  exact (c07p_indep_fields (Indep.ingredientTail ..) _).1

/-- **a cookware item whose quantity tokens raise diagnostics** (`#pot{ %x}`, `#pot{3/0}`, `#pot{1%kg}` …): as for
    the ingredient; after `l` comes `cookware-unit` iff the reading has a unit (`c07f_cwUnitEvs`). -/
theorem c07w_cookware_qty_piece (T A rest : List Tok) (cs : CharSpec) (e : Ext) (tm : Tok) (nameT : List Tok)
    (tob : Tok) (Q : List Tok) (tcb : Tok)
    (hT : T = A ++ (c07p_comp tm [] nameT tob Q tcb ++ rest)) (hw : WF T)
    (sh : PlShape e .hash tm [] nameT tob Q tcb rest)
    (ha : e.has Gen.EXT_COMPONENT_ALIAS = false ∨ ∀ t ∈ nameT, t.kind ≠ .or)
    (hname : (buildText (offAt T (A.length + 1)) nameT).isTextEmpty cs = false)
    (hne : ∃ t ∈ Q, isPadK t = false) (l : List (Ev α)) (R : ParsedQuantity α → Prop)
    (hQ : ∀ sq : BP α, sq.cs = cs → sq.ext = e → Sat (parseQuantity (α := α) Q) sq (fun r s' => Pushed l sq s' ∧ R r)) :
    PlPieceAt T cs e A ⟨c07p_comp tm [] nameT tob Q tcb, fun evs => ∃ q : ParsedQuantity α, R q ∧
      evs = l ++ c07f_cwUnitEvs q ++ [.cookware ⟨⟨⟨Modifiers.empty, Span.pos (offAt T (A.length + 1))⟩,
        buildText (offAt T (A.length + 1)) nameT, none, some ⟨q.quantity.val.value, q.quantity.span⟩, none⟩,
        ⟨offAt T A.length, offAt T (A.length + (c07p_comp tm [] nameT tob Q tcb).length)⟩⟩]⟩ := by
  apply c07p_piece_of_cookware T A _ rest cs e hT hw tm _ rfl sh.hk
  intro s h1 h2 h3 h4 h5
  subst h1 h2 h3
  have hrun := c07p_cookware_run s A tm [] nameT tob Q tcb rest sh hT h5
  have hbody := c07p_body_qty_some nameT tob Q tcb hne
  have ht := c07f_cookwareTail_q (α := α) (offAt s.toks A.length)
    (offAt s.toks (A.length + (c07p_comp tm [] nameT tob Q tcb).length))
    (offAt s.toks (A.length + 1)) (offAt s.toks (A.length + 1)) (c07p_body nameT tob Q tcb) none
    ({ s with cur := A.length + (c07p_comp tm [] nameT tob Q tcb).length } : BP α) Q hbody ha hname
    l R (fun sq qq => hQ sq qq.1 qq.2.1)
  unfold Sat at ht
  have hrun' : cookwareP s = cookwareTail (offAt s.toks A.length)
      (offAt s.toks (A.length + (c07p_comp tm [] nameT tob Q tcb).length))
      (offAt s.toks (A.length + 1)) (offAt s.toks (A.length + 1)) [] (c07p_body nameT tob Q tcb) none
      { s with cur := A.length + (c07p_comp tm [] nameT tob Q tcb).length } := hrun
  rw [← hrun'] at ht
  obtain ⟨q, hRq, hpu, hr⟩ := ht
  refine ⟨_, _, hr, hpu, ?_, q, hRq, rfl⟩
  rw [hrun']
  exact (c07p_indep_fields (Indep.cookwareTail ..) _).1

/-! ### components without quantity: alias errors (with plain modifier tokens) -/

/-- **alias errors on an ingredient** (`@a|b|c{}`, `@a|{}`; COMPONENT_ALIAS on, the first `|` of the name tokens at
    index `i`, a non-blank name before it, plain modifier tokens, blank braces): exactly `multiple-aliases:ingredient`
    (labelled from the first `|` to the end of the name) iff a second `|` follows, else `empty-alias:ingredient`
    (labelled with the `|`) iff the alias text is blank (`aliasEvs`); then one `duplicate-modifier` per repeated
    modifier token; then the ingredient. -/
theorem c07w_ingredient_alias_piece (T A rest : List Tok) (cs : CharSpec) (e : Ext) (tm : Tok)
    (ms nameT : List Tok) (tob : Tok) (Q : List Tok) (tcb : Tok) (i : Nat)
    (hT : T = A ++ (c07p_comp tm ms nameT tob Q tcb ++ rest)) (hw : WF T)
    (sh : PlShape e .at tm ms nameT tob Q tcb rest) (hs : SimpleMods ms)
    (hQ : ∀ t ∈ Q, isPadK t = true)
    (he : e.has Gen.EXT_COMPONENT_ALIAS = true) (hi : nameT.findIdx? (fun t => t.kind == .or) = some i)
    (hname : (buildText (offAt T (A.length + 1 + ms.length)) (nameT.take i)).isTextEmpty cs = false) :
    PlPieceAt (α := α) T cs e A ⟨c07p_comp tm ms nameT tob Q tcb, fun evs =>
      evs = aliasEvs "ingredient" nameT i cs ++ dupEvs ms ++
        [.ingredient ⟨⟨simpleFlags ms (offAt T (A.length + 1)), none,
          buildText (offAt T (A.length + 1 + ms.length)) (nameT.take i), aliasRes nameT i cs, none, none⟩,
        ⟨offAt T A.length, offAt T (A.length + (c07p_comp tm ms nameT tob Q tcb).length)⟩⟩]⟩ := by
  apply c07p_piece_of_ingredient T A _ rest cs e hT hw tm _ rfl sh.hk
  intro s h1 h2 h3 h4 h5
  subst h1 h2 h3
  have hrun := c07p_ingredient_run s A tm ms nameT tob Q tcb rest sh hT h5
  have hbody := c07p_body_qty_none nameT tob Q tcb hQ
  have ht := ingredientTail_noqty (α := α) (offAt s.toks A.length)
    (offAt s.toks (A.length + (c07p_comp tm ms nameT tob Q tcb).length))
    (offAt s.toks (A.length + 1)) (offAt s.toks (A.length + 1 + ms.length)) ms (c07p_body nameT tob Q tcb) none
    ({ s with cur := A.length + (c07p_comp tm ms nameT tob Q tcb).length } : BP α) _ _ _
    (parseAlias_sep "ingredient" nameT _ i _ he hi) hname hbody hs
  unfold Sat at ht
  rw [← hrun] at ht
  obtain ⟨hpu, hr⟩ := ht
  refine ⟨_, _, hr, hpu, ?_, rfl⟩
  rw [hrun]
  exact (c07p_indep_fields (Indep.ingredientTail ..) _).1

/-- **alias errors on a cookware item** (`#a|b|c{}`, `#a|{}`): as for the ingredient, with
    `cookware-recipe-modifier` after the duplicate-modifier errors iff a `@` is among the modifiers. -/
theorem c07w_cookware_alias_piece (T A rest : List Tok) (cs : CharSpec) (e : Ext) (tm : Tok)
    (ms nameT : List Tok) (tob : Tok) (Q : List Tok) (tcb : Tok) (i : Nat)
    (hT : T = A ++ (c07p_comp tm ms nameT tob Q tcb ++ rest)) (hw : WF T)
    (sh : PlShape e .hash tm ms nameT tob Q tcb rest) (hs : SimpleMods ms)
    (hQ : ∀ t ∈ Q, isPadK t = true)
    (he : e.has Gen.EXT_COMPONENT_ALIAS = true) (hi : nameT.findIdx? (fun t => t.kind == .or) = some i)
    (hname : (buildText (offAt T (A.length + 1 + ms.length)) (nameT.take i)).isTextEmpty cs = false) :
    PlPieceAt (α := α) T cs e A ⟨c07p_comp tm ms nameT tob Q tcb, fun evs =>
      evs = aliasEvs "cookware" nameT i cs ++ dupEvs ms ++ recipeModEvs ms ++
        [.cookware ⟨⟨simpleFlags ms (offAt T (A.length + 1)),
          buildText (offAt T (A.length + 1 + ms.length)) (nameT.take i), aliasRes nameT i cs, none, none⟩,
        ⟨offAt T A.length, offAt T (A.length + (c07p_comp tm ms nameT tob Q tcb).length)⟩⟩]⟩ := by
  apply c07p_piece_of_cookware T A _ rest cs e hT hw tm _ rfl sh.hk
  intro s h1 h2 h3 h4 h5
  subst h1 h2 h3
  have hrun := c07p_cookware_run s A tm ms nameT tob Q tcb rest sh hT h5
  have hbody := c07p_body_qty_none nameT tob Q tcb hQ
  have ht := cookwareTail_noqty (α := α) (offAt s.toks A.length)
    (offAt s.toks (A.length + (c07p_comp tm ms nameT tob Q tcb).length))
    (offAt s.toks (A.length + 1)) (offAt s.toks (A.length + 1 + ms.length)) ms (c07p_body nameT tob Q tcb) none
    ({ s with cur := A.length + (c07p_comp tm ms nameT tob Q tcb).length } : BP α) _ _ _
    (parseAlias_sep "cookware" nameT _ i _ he hi) hname hbody hs
  unfold Sat at ht
  rw [← hrun] at ht
  obtain ⟨hpu, hr⟩ := ht
  refine ⟨_, _, hr, hpu, ?_, rfl⟩
  rw [hrun]
  exact (c07p_indep_fields (Indep.cookwareTail ..) _).1

end Cook
