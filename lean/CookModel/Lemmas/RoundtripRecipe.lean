import CookModel.Lemmas.RoundtripDoc
import CookModel.Lemmas.RoundtripAnalysis
/-
  C01, end to end for recipes made of steps: characters → lexer → splitter → block parser →
  analysis.  (`rtr_` prefix.)
-/
set_option linter.unusedSectionVars false
set_option linter.unusedSimpArgs false
set_option linter.unusedVariables false
namespace Cook

variable {α : Type} [Arith α]

theorem rtr_denote_isText (v : AVal) : (v.denote (α := α)).isText = v.isText := by cases v <;> rfl

/-- a scaling lock only on a numeric amount -/
def AQty.lockIngrOK (q : AQty) : Bool := !q.lock || !q.val.isText

/-- segments of a simple recipe: plain definitions (neither `&` nor `+` among the modifiers), no
    intermediate reference, `=` only on a numeric ingredient amount -/
def SegX.simple : SegX → Bool
  | .text _ => true
  | .ingredient c _ => decide (plainMods (modsOf c.mods)) && c.qty.all AQty.lockIngrOK
  | .ingredient1 c => decide (plainMods (modsOf c.mods)) && c.qty.all AQty.lockIngrOK
  | .cookware c _ => decide (plainMods (modsOf c.mods)) && c.qty.all (fun q => !q.lock)
  | .cookware1 c => decide (plainMods (modsOf c.mods)) && c.qty.all (fun q => !q.lock)
  | .timer c _ => c.qty.all (fun q => !q.lock)
  | .ingredientI _ _ _ _ _ _ => false

theorem rtr_ingr_simple (cs : CharSpec) (c : AComp) (i : Loc (PIngredient α)) (h : IngrMatches cs c i.val)
    (hm : plainMods (modsOf c.mods)) (hl : c.qty.all AQty.lockIngrOK = true) : IngrSimple i := by
  obtain ⟨-, -, -, hmods, hinter, hq⟩ := h
  refine ⟨hinter, by rw [hmods]; exact hm, ?_⟩
  intro q hq'
  rw [hq'] at hq
  cases hc : c.qty with
  | none => rw [hc] at hq; exact absurd hq (by simp [QtyMatches])
  | some aq =>
    rw [hc] at hq hl
    simp only [QtyMatches] at hq
    simp only [Option.all_some, AQty.lockIngrOK, Bool.or_eq_true, Bool.not_eq_true'] at hl
    intro hlock
    refine ⟨rfl, ?_⟩
    rw [hq.1, rtr_denote_isText]
    rcases hl with hl | hl
    · rw [hq.2.1, hl] at hlock; cases hlock
    · exact hl

theorem rtr_cw_simple (cs : CharSpec) (c : AComp) (i : Loc (PCookware α)) (h : CwMatches cs c i.val)
    (hm : plainMods (modsOf c.mods)) (hl : c.qty.all (fun q => !q.lock) = true) : CwSimple i := by
  obtain ⟨-, -, -, hmods, hq⟩ := h
  refine ⟨by rw [hmods]; exact hm, ?_⟩
  intro q hq'
  rw [hq'] at hq
  cases hc : c.qty with
  | none => rw [hc] at hq; exact absurd hq (by simp [CwQtyMatches])
  | some aq =>
    rw [hc] at hq hl
    simp only [CwQtyMatches] at hq
    simp only [Option.all_some, Bool.not_eq_true'] at hl
    intro hlock
    rw [hq.2, hl] at hlock; cases hlock

theorem rtr_timer_simple (cs : CharSpec) (c : ATimer) (i : Loc (PTimer α)) (h : TimerMatches cs c i.val)
    (hl : c.qty.all (fun q => !q.lock) = true) : TimerSimple i := by
  obtain ⟨-, hq⟩ := h
  refine ⟨?_⟩
  intro q hq'
  rw [hq'] at hq
  cases hc : c.qty with
  | none => rw [hc] at hq; exact absurd hq (by simp [QtyMatches])
  | some aq =>
    rw [hc] at hq hl
    simp only [QtyMatches] at hq
    simp only [Option.all_some, Bool.not_eq_true'] at hl
    intro hlock
    rw [hq.2.1, hl] at hlock; cases hlock

/-- the event of a segment of a simple recipe is an item of a simple recipe -/
theorem rtr_seg_item (cs : CharSpec) (seg : SegX) (ev : Ev α) (h : SegXEv cs seg ev) (hs : seg.simple = true) :
    ∃ it : SItem α, ev = it.ev ∧ it.Simple := by
  cases seg <;> cases ev <;> simp only [SegXEv] at h <;>
    simp only [SegX.simple, Bool.and_eq_true, decide_eq_true_eq, Bool.false_eq_true] at hs
  · exact ⟨.text _, rfl, trivial⟩
  · exact ⟨.ingredient _, rfl, rtr_ingr_simple cs _ _ h hs.1 hs.2⟩
  · exact ⟨.cookware _, rfl, rtr_cw_simple cs _ _ h hs.1 hs.2⟩
  · exact ⟨.timer _, rfl, rtr_timer_simple cs _ _ h hs⟩
  · exact ⟨.ingredient _, rfl, rtr_ingr_simple cs _ _ h hs.1 hs.2⟩
  · exact ⟨.cookware _, rfl, rtr_cw_simple cs _ _ h hs.1 hs.2⟩

/-- the items match the segments, one to one -/
def SegsItems (cs : CharSpec) (segs : List SegX) (st : List (SItem α)) : Prop :=
  All2 (fun seg (it : SItem α) => SegXEv cs seg it.ev) segs st

theorem rtr_segs_items (cs : CharSpec) (segs : List SegX) (e : List (Ev α)) (h : SegsXEvs cs segs e)
    (hs : segs.all SegX.simple = true) :
    ∃ st : List (SItem α), e = st.map SItem.ev ∧ (∀ it ∈ st, it.Simple) ∧ SegsItems cs segs st ∧
      (segs ≠ [] → st ≠ []) := by
  induction h with
  | nil => exact ⟨[], rfl, (fun it h => nomatch h), All2.nil, fun h => absurd rfl h⟩
  | cons hev _ ih =>
    simp only [List.all_cons, Bool.and_eq_true] at hs
    obtain ⟨st, rfl, h1, h2, -⟩ := ih hs.2
    obtain ⟨it, rfl, hit⟩ := rtr_seg_item cs _ _ hev hs.1
    refine ⟨it :: st, rfl, ?_, All2.cons hev h2, fun _ => by simp⟩
    intro x hx
    simp only [List.mem_cons] at hx
    rcases hx with rfl | hx
    · exact hit
    · exact h1 x hx

/-- the document of a recipe made of steps only -/
def stepsDoc (doc : List (List SegX × List Tok)) : List (DocItem × List Tok) :=
  doc.map (fun d => (DocItem.step d.1, d.2))

theorem rtr_steps_events (cs : CharSpec) (doc : List (List SegX × List Tok)) (evss : List (List (Ev α)))
    (h : All2 (fun (d : DocItem × List Tok) evs => DocItemEvs cs d.1 evs) (stepsDoc doc) evss)
    (hs : ∀ d ∈ doc, d.1.all SegX.simple = true) (hne : ∀ d ∈ doc, d.1 ≠ []) :
    ∃ steps : List (List (SItem α)), evss.flatten = steps.flatMap stepEvents ∧
      (∀ st ∈ steps, ∀ it ∈ st, it.Simple) ∧ (∀ st ∈ steps, st ≠ []) ∧
      All2 (fun (d : List SegX × List Tok) st => SegsItems cs d.1 st) doc steps := by
  induction doc generalizing evss with
  | nil =>
    cases h
    exact ⟨[], rfl, (fun st h => nomatch h), (fun st h => nomatch h), All2.nil⟩
  | cons d r ih =>
    simp only [stepsDoc, List.map_cons] at h
    cases h with
    | cons hd htl =>
      obtain ⟨steps, e1, e2, e3, e4⟩ := ih _ htl (fun x hx => hs x (by simp [hx])) (fun x hx => hne x (by simp [hx]))
      obtain ⟨e, rfl, hsegs⟩ := hd
      obtain ⟨st, rfl, h1, h2, h3⟩ := rtr_segs_items cs d.1 e hsegs (hs d (by simp))
      refine ⟨st :: steps, ?_, ?_, ?_, All2.cons h2 e4⟩
      · simp only [List.flatten_cons, List.flatMap_cons, e1, stepEvents]
      · intro x hx
        simp only [List.mem_cons] at hx
        rcases hx with rfl | hx
        · exact h1
        · exact e2 x hx
      · intro x hx
        simp only [List.mem_cons] at hx
        rcases hx with rfl | hx
        · exact h3 (hne d (by simp))
        · exact e3 x hx

theorem rtr_step_ne (cs : CharSpec) (ext : Ext) (segs : List SegX) (h : (DocItem.step segs).ok cs ext = true) :
    segs ≠ [] := by
  intro h0
  subst h0
  simp [DocItem.ok, stepBlockOK] at h

/-- End to end for a recipe made of steps: the characters of the printed document go through the
    lexer, the block splitter, the block parser and the analysis pass, and the result is the
    collector state `expectedCol` of a simple recipe whose items match the printed segments one to
    one, with no diagnostic and no panic. -/
theorem rtr_parseRecipe_steps (env : Env) (pre : List Tok) (doc : List (List SegX × List Tok))
    (hadv : env.ext.has Gen.EXT_ADVANCED_UNITS = false) (hinl : env.ext.has Gen.EXT_INLINE_QUANTITIES = false)
    (hpre : blankLinesOK pre = true) (hok : ∀ d ∈ doc, (DocItem.step d.1).ok env.cs env.ext = true)
    (hsimple : ∀ d ∈ doc, d.1.all SegX.simple = true) (hseps : sepsOK (doc.map (·.2)) = true)
    (hw : WellSpelled env.cs (pre ++ docSpec (stepsDoc doc)))
    (hfm : parseFrontmatter env.cs (render (pre ++ docSpec (stepsDoc doc))) = none) :
    ∃ r : SimpleRecipe α,
      parseRecipe env (render (pre ++ docSpec (stepsDoc doc))) = ⟨some (expectedCol env r), #[], none⟩ ∧
      All2 (fun (d : List SegX × List Tok) st => SegsItems env.cs d.1 st) doc r.steps := by
  obtain ⟨blocks, evss, arr, -, -, hpe, harr, hevs⟩ := rtd_pullEvents_doc (α := α) env.cs env.ext pre (stepsDoc doc) hpre
    (by
      intro d hd
      obtain ⟨x, hx, rfl⟩ := List.mem_map.1 hd
      exact hok x hx)
    (by simpa [stepsDoc, List.map_map, Function.comp_def] using hseps) hw hfm
  obtain ⟨steps, e1, e2, e3, e4⟩ := rtr_steps_events env.cs doc evss hevs hsimple
    (fun d hd => rtr_step_ne env.cs env.ext d.1 (hok d hd))
  refine ⟨⟨steps⟩, ?_, e4⟩
  unfold parseRecipe
  simp only [hpe, harr, e1]
  have := rta_parseEvents_simple env (render (pre ++ docSpec (stepsDoc doc))) hadv hinl ⟨steps⟩ e2 e3
  simp only [SimpleRecipe.events] at this
  rw [this]

end Cook
