import CookModel.Lemmas.RoundtripDoc
import CookModel.Lemmas.RoundtripAnalysis
/-
  C01, end to end for recipes made of steps: characters → lexer → splitter → block parser →
  analysis.  (`rtr_` prefix.)
-/
set_option linter.unusedSectionVars false
set_option linter.unusedSimpArgs false
set_option linter.unusedVariables false
namespace Cook

variable {α : Type} [Arith α]

theorem rtr_denote_isText (v : AVal) : (v.denote (α := α)).isText = v.isText := by cases v <;> rfl

/-- a scaling lock only on a numeric amount -/
def AQty.lockIngrOK (q : AQty) : Bool := !q.lock || !q.val.isText

/-- segments of a simple recipe: plain definitions (neither `&` nor `+` among the modifiers), no
    intermediate reference, `=` only on a numeric ingredient amount -/
def SegX.simple : SegX → Bool
  | .text _ => true
  | .ingredient c _ => decide (plainMods (modsOf c.mods)) && c.qty.all AQty.lockIngrOK
  | .ingredient1 c => decide (plainMods (modsOf c.mods)) && c.qty.all AQty.lockIngrOK
  | .cookware c _ => decide (plainMods (modsOf c.mods)) && c.qty.all (fun q => !q.lock)
  | .cookware1 c => decide (plainMods (modsOf c.mods)) && c.qty.all (fun q => !q.lock)
  | .timer c _ => c.qty.all (fun q => !q.lock)
  | .ingredientI _ _ _ _ _ _ => false

theorem rtr_ingr_simple (cs : CharSpec) (c : AComp) (i : Loc (PIngredient α)) (h : IngrMatches cs c i.val)
    (hm : plainMods (modsOf c.mods)) (hl : c.qty.all AQty.lockIngrOK = true) : IngrSimple i := by
  obtain ⟨-, -, -, hmods, hinter, hq⟩ := h
  refine ⟨hinter, by rw [hmods]; exact hm, ?_⟩
  intro q hq'
  rw [hq'] at hq
  cases hc : c.qty with
  | none => rw [hc] at hq; exact absurd hq (by simp [QtyMatches])
  | some aq =>
    rw [hc] at hq hl
    simp only [QtyMatches] at hq
    simp only [Option.all_some, AQty.lockIngrOK, Bool.or_eq_true, Bool.not_eq_true'] at hl
    intro hlock
    refine ⟨rfl, ?_⟩
    rw [hq.1, rtr_denote_isText]
    rcases hl with hl | hl
    · rw [hq.2.1, hl] at hlock; cases hlock
    · exact hl

theorem rtr_cw_simple (cs : CharSpec) (c : AComp) (i : Loc (PCookware α)) (h : CwMatches cs c i.val)
    (hm : plainMods (modsOf c.mods)) (hl : c.qty.all (fun q => !q.lock) = true) : CwSimple i := by
  obtain ⟨-, -, -, hmods, hq⟩ := h
  refine ⟨by rw [hmods]; exact hm, ?_⟩
  intro q hq'
  rw [hq'] at hq
  cases hc : c.qty with
  | none => rw [hc] at hq; exact absurd hq (by simp [CwQtyMatches])
  | some aq =>
    rw [hc] at hq hl
    simp only [CwQtyMatches] at hq
    simp only [Option.all_some, Bool.not_eq_true'] at hl
    intro hlock
    rw [hq.2, hl] at hlock; cases hlock

theorem rtr_timer_simple (cs : CharSpec) (c : ATimer) (i : Loc (PTimer α)) (h : TimerMatches cs c i.val)
    (hl : c.qty.all (fun q => !q.lock) = true) : TimerSimple i := by
  obtain ⟨-, hq⟩ := h
  refine ⟨?_⟩
  intro q hq'
  rw [hq'] at hq
  cases hc : c.qty with
  | none => rw [hc] at hq; exact absurd hq (by simp [QtyMatches])
  | some aq =>
    rw [hc] at hq hl
    simp only [QtyMatches] at hq
    simp only [Option.all_some, Bool.not_eq_true'] at hl
    intro hlock
    rw [hq.2.1, hl] at hlock; cases hlock

/-- the event of a segment of a simple recipe is an item of a simple recipe -/
theorem rtr_seg_item (cs : CharSpec) (seg : SegX) (ev : Ev α) (h : SegXEv cs seg ev) (hs : seg.simple = true) :
    ∃ it : SItem α, ev = it.ev ∧ it.Simple := by
  cases seg <;> cases ev <;> simp only [SegXEv] at h <;>
    simp only [SegX.simple, Bool.and_eq_true, decide_eq_true_eq, Bool.false_eq_true] at hs
  · exact ⟨.text _, rfl, trivial⟩
  · exact ⟨.ingredient _, rfl, rtr_ingr_simple cs _ _ h hs.1 hs.2⟩
  · exact ⟨.cookware _, rfl, rtr_cw_simple cs _ _ h hs.1 hs.2⟩
  · exact ⟨.timer _, rfl, rtr_timer_simple cs _ _ h hs⟩
  · exact ⟨.ingredient _, rfl, rtr_ingr_simple cs _ _ h hs.1 hs.2⟩
  · exact ⟨.cookware _, rfl, rtr_cw_simple cs _ _ h hs.1 hs.2⟩

/-- the items match the segments, one to one -/
def SegsItems (cs : CharSpec) (segs : List SegX) (st : List (SItem α)) : Prop :=
  All2 (fun seg (it : SItem α) => SegXEv cs seg it.ev) segs st

theorem rtr_segs_items (cs : CharSpec) (segs : List SegX) (e : List (Ev α)) (h : SegsXEvs cs segs e)
    (hs : segs.all SegX.simple = true) :
    ∃ st : List (SItem α), e = st.map SItem.ev ∧ (∀ it ∈ st, it.Simple) ∧ SegsItems cs segs st ∧
      (segs ≠ [] → st ≠ []) := by
  induction h with
  | nil => exact ⟨[], rfl, (fun it h => nomatch h), All2.nil, fun h => absurd rfl h⟩
  | cons hev _ ih =>
    simp only [List.all_cons, Bool.and_eq_true] at hs
    obtain ⟨st, rfl, h1, h2, -⟩ := ih hs.2
    obtain ⟨it, rfl, hit⟩ := rtr_seg_item cs _ _ hev hs.1
    refine ⟨it :: st, rfl, ?_, All2.cons hev h2, fun _ => by simp⟩
    intro x hx
    simp only [List.mem_cons] at hx
    rcases hx with rfl | hx
    · exact hit
    · exact h1 x hx

/-- the document of a recipe made of steps only -/
def stepsDoc (doc : List (List SegX × List Tok)) : List (DocItem × List Tok) :=
  doc.map (fun d => (DocItem.step d.1, d.2))

theorem rtr_steps_events (cs : CharSpec) (doc : List (List SegX × List Tok)) (evss : List (List (Ev α)))
    (h : All2 (fun (d : DocItem × List Tok) evs => DocItemEvs cs d.1 evs) (stepsDoc doc) evss)
    (hs : ∀ d ∈ doc, d.1.all SegX.simple = true) (hne : ∀ d ∈ doc, d.1 ≠ []) :
    ∃ steps : List (List (SItem α)), evss.flatten = steps.flatMap stepEvents ∧
      (∀ st ∈ steps, ∀ it ∈ st, it.Simple) ∧ (∀ st ∈ steps, st ≠ []) ∧
      All2 (fun (d : List SegX × List Tok) st => SegsItems cs d.1 st) doc steps := by
  induction doc generalizing evss with
  | nil =>
    cases h
    exact ⟨[], rfl, (fun st h => nomatch h), (fun st h => nomatch h), All2.nil⟩
  | cons d r ih =>
    simp only [stepsDoc, List.map_cons] at h
    cases h with
    | cons hd htl =>
      obtain ⟨steps, e1, e2, e3, e4⟩ := ih _ htl (fun x hx => hs x (by simp [hx])) (fun x hx => hne x (by simp [hx]))
      obtain ⟨e, rfl, hsegs⟩ := hd
      obtain ⟨st, rfl, h1, h2, h3⟩ := rtr_segs_items cs d.1 e hsegs (hs d (by simp))
      refine ⟨st :: steps, ?_, ?_, ?_, All2.cons h2 e4⟩
      · simp only [List.flatten_cons, List.flatMap_cons, e1, stepEvents]
      · intro x hx
        simp only [List.mem_cons] at hx
        rcases hx with rfl | hx
        · exact h1
        · exact e2 x hx
      · intro x hx
        simp only [List.mem_cons] at hx
        rcases hx with rfl | hx
        · exact h3 (hne d (by simp))
        · exact e3 x hx

theorem rtr_step_ne (cs : CharSpec) (ext : Ext) (segs : List SegX) (h : (DocItem.step segs).ok cs ext = true) :
    segs ≠ [] := by
  intro h0
  subst h0
  simp [DocItem.ok, stepBlockOK] at h

/-- End to end for a recipe made of steps: the characters of the printed document go through the
    lexer, the block splitter, the block parser and the analysis pass, and the result is the
    collector state `expectedCol` of a simple recipe whose items match the printed segments one to
    one, with no diagnostic and no panic. -/
theorem rtr_parseRecipe_steps (env : Env) (pre : List Tok) (doc : List (List SegX × List Tok))
    (hadv : env.ext.has Gen.EXT_ADVANCED_UNITS = false) (hinl : env.ext.has Gen.EXT_INLINE_QUANTITIES = false)
    (hpre : blankLinesOK pre = true) (hok : ∀ d ∈ doc, (DocItem.step d.1).ok env.cs env.ext = true)
    (hsimple : ∀ d ∈ doc, d.1.all SegX.simple = true) (hseps : sepsOK (doc.map (·.2)) = true)
    (hw : WellSpelled env.cs (pre ++ docSpec (stepsDoc doc)))
    (hfm : parseFrontmatter env.cs (render (pre ++ docSpec (stepsDoc doc))) = none) :
    ∃ r : SimpleRecipe α,
      parseRecipe env (render (pre ++ docSpec (stepsDoc doc))) = ⟨some (expectedCol env r), #[], none⟩ ∧
      All2 (fun (d : List SegX × List Tok) st => SegsItems env.cs d.1 st) doc r.steps := by
  obtain ⟨blocks, evss, arr, -, -, hpe, harr, hevs⟩ := rtd_pullEvents_doc (α := α) env.cs env.ext pre (stepsDoc doc) hpre
    (by
      intro d hd
      obtain ⟨x, hx, rfl⟩ := List.mem_map.1 hd
      exact hok x hx)
    (by simpa [stepsDoc, List.map_map, Function.comp_def] using hseps) hw hfm
  obtain ⟨steps, e1, e2, e3, e4⟩ := rtr_steps_events env.cs doc evss hevs hsimple
    (fun d hd => rtr_step_ne env.cs env.ext d.1 (hok d hd))
  refine ⟨⟨steps⟩, ?_, e4⟩
  unfold parseRecipe
  simp only [hpe, harr, e1]
  have := rta_parseEvents_simple env (render (pre ++ docSpec (stepsDoc doc))) hadv hinl ⟨steps⟩ e2 e3
  simp only [SimpleRecipe.events] at this
  rw [this]

/-! ### the result in closed form, from the abstract segments -/

def absQty (q : AQty) (isIngr : Bool) : Quantity (ScalableValue α) :=
  ⟨if isIngr && !q.val.isText && !q.lock then .linear q.val.denote else .fixed q.val.denote, q.unit.map leafText⟩

/-- the ingredient an abstract component stands for -/
def absIngr (c : AComp) : Ingredient (ScalableValue α) :=
  ⟨match parseReference (leafText c.name) with
    | some r => r.name
    | none => leafText c.name,
   c.alias.map leafText, c.qty.map (fun q => absQty q true), c.note.map leafText, parseReference (leafText c.name),
   ⟨.definition [] true, none⟩, modsOf c.mods⟩

def absCw (c : AComp) : Cookware (ScalableValue α) :=
  ⟨leafText c.name, c.alias.map leafText, c.qty.map (fun q => (absQty (α := α) q false).value), c.note.map leafText,
   .definition [] true, modsOf c.mods⟩

def absTimer (c : ATimer) : Timer (ScalableValue α) :=
  ⟨c.name.map leafText, c.qty.map (fun q => absQty q false)⟩

theorem rtr_expQuantity_abs (env : Env) (aq : AQty) (pq : Loc (PQuantity α)) (b : Bool)
    (h : QtyMatches env.cs (some aq) (some pq)) : expQuantity env pq b = absQty aq b := by
  simp only [QtyMatches] at h
  simp only [expQuantity, expValue, absQty, h.1, h.2.1, h.2.2, rtr_denote_isText]

theorem rtr_optQuantity_abs (env : Env) (aq : Option AQty) (pq : Option (Loc (PQuantity α))) (b : Bool)
    (h : QtyMatches env.cs aq pq) : pq.map (fun q => expQuantity env q b) = aq.map (fun q => absQty q b) := by
  cases aq <;> cases pq <;> simp only [QtyMatches] at h
  · rfl
  · simp only [Option.map_some, rtr_expQuantity_abs env _ _ b (by simpa [QtyMatches] using h)]

theorem rtr_ingrOf_abs (env : Env) (c : AComp) (li : Loc (PIngredient α)) (h : IngrMatches env.cs c li.val) :
    ingrOf env li = absIngr c := by
  obtain ⟨h1, h2, h3, h4, -, h6⟩ := h
  simp only [ingrOf, absIngr, h1, h2, h3, h4, rtr_optQuantity_abs env _ _ true h6]
  congr 1

theorem rtr_cwOf_abs (env : Env) (c : AComp) (lc : Loc (PCookware α)) (h : CwMatches env.cs c lc.val) :
    cwOf env lc = absCw c := by
  obtain ⟨h1, h2, h3, h4, h5⟩ := h
  have hq : lc.val.quantity.map (fun q => expValue q.val false) =
      c.qty.map (fun q => (absQty (α := α) q false).value) := by
    cases hc : c.qty <;> cases hl : lc.val.quantity <;> rw [hc, hl] at h5 <;> simp only [CwQtyMatches] at h5
    · rfl
    · simp [expValue, absQty, h5.1]
  simp only [cwOf, absCw, h1, h2, h3, h4, hq]

theorem rtr_timerOf_abs (env : Env) (c : ATimer) (lt : Loc (PTimer α)) (h : TimerMatches env.cs c lt.val) :
    timerOf env lt = absTimer c := by
  obtain ⟨h1, h2⟩ := h
  simp only [timerOf, absTimer, h1, rtr_optQuantity_abs env _ _ false h2]

def SegX.ingr? : SegX → Option AComp
  | .ingredient c _ => some c
  | .ingredient1 c => some c
  | _ => none
def SegX.cw? : SegX → Option AComp
  | .cookware c _ => some c
  | .cookware1 c => some c
  | _ => none
def SegX.timer? : SegX → Option ATimer
  | .timer c _ => some c
  | _ => none

/-- the step item of a segment: the shown text of a run, or the number of components of the kind
    among the segments before it -/
def SegX.toItem (before : List SegX) : SegX → Item
  | .text l => .text (l.flatMap vis)
  | .ingredient _ _ => .ingredient (before.filterMap SegX.ingr?).length
  | .ingredient1 _ => .ingredient (before.filterMap SegX.ingr?).length
  | .ingredientI _ _ _ _ _ _ => .ingredient (before.filterMap SegX.ingr?).length
  | .cookware _ _ => .cookware (before.filterMap SegX.cw?).length
  | .cookware1 _ => .cookware (before.filterMap SegX.cw?).length
  | .timer _ _ => .timer (before.filterMap SegX.timer?).length

def absItemsFrom (before : List SegX) : List SegX → List Item
  | [] => []
  | sg :: r => sg.toItem before :: absItemsFrom (before ++ [sg]) r

def absStepsFrom (before : List SegX) (num : Nat) : List (List SegX) → List Content
  | [] => []
  | st :: r => .step ⟨absItemsFrom before st, num⟩ :: absStepsFrom (before ++ st) (num + 1) r

theorem rtr_all2_append {β γ : Type} {R : β → γ → Prop} {a1 a2 : List β} {b1 b2 : List γ}
    (h1 : All2 R a1 b1) (h2 : All2 R a2 b2) : All2 R (a1 ++ a2) (b1 ++ b2) := by
  induction h1 with
  | nil => exact h2
  | cons hd _ ih => exact All2.cons hd ih

/-- matching segments and items (simple segments): the same tables, the same counts -/
theorem rtr_tables (env : Env) (segs : List SegX) (st : List (SItem α)) (h : SegsItems env.cs segs st)
    (hs : segs.all SegX.simple = true) :
    (ingrsOf st).map (ingrOf env) = (segs.filterMap SegX.ingr?).map absIngr ∧
    (cwsOf st).map (cwOf env) = (segs.filterMap SegX.cw?).map absCw ∧
    (timersOf st).map (timerOf env) = (segs.filterMap SegX.timer?).map absTimer := by
  induction h with
  | nil => exact ⟨rfl, rfl, rfl⟩
  | @cons seg it segs' st' hd _ ih =>
    simp only [List.all_cons, Bool.and_eq_true] at hs
    obtain ⟨i1, i2, i3⟩ := ih hs.2
    have hs1 := hs.1
    cases seg <;> cases it <;> simp only [SItem.ev, SegXEv] at hd <;>
      simp only [SegX.simple, Bool.false_eq_true] at hs1 <;>
      simp only [ingrsOf, cwsOf, timersOf, List.filterMap_cons, SItem.ingr?, SItem.cw?, SItem.timer?, SegX.ingr?,
        SegX.cw?, SegX.timer?, List.map_cons] at i1 i2 i3 ⊢
    · exact ⟨i1, i2, i3⟩
    · exact ⟨by rw [i1, rtr_ingrOf_abs env _ _ hd], i2, i3⟩
    · exact ⟨i1, by rw [i2, rtr_cwOf_abs env _ _ hd], i3⟩
    · exact ⟨i1, i2, by rw [i3, rtr_timerOf_abs env _ _ hd]⟩
    · exact ⟨by rw [i1, rtr_ingrOf_abs env _ _ hd], i2, i3⟩
    · exact ⟨i1, by rw [i2, rtr_cwOf_abs env _ _ hd], i3⟩

theorem rtr_counts (env : Env) (segs : List SegX) (st : List (SItem α)) (h : SegsItems env.cs segs st)
    (hs : segs.all SegX.simple = true) :
    (ingrsOf st).length = (segs.filterMap SegX.ingr?).length ∧ (cwsOf st).length = (segs.filterMap SegX.cw?).length ∧
    (timersOf st).length = (segs.filterMap SegX.timer?).length := by
  obtain ⟨h1, h2, h3⟩ := rtr_tables env segs st h hs
  have := congrArg List.length h1
  have := congrArg List.length h2
  have := congrArg List.length h3
  simp only [List.length_map] at *
  exact ⟨by assumption, by assumption, by assumption⟩

theorem rtr_toItem (env : Env) (bsegs : List SegX) (before : List (SItem α)) (hb : SegsItems env.cs bsegs before)
    (hbs : bsegs.all SegX.simple = true) (seg : SegX) (it : SItem α) (h : SegXEv env.cs seg it.ev)
    (hs : seg.simple = true) : it.toItem before = seg.toItem bsegs := by
  obtain ⟨c1, c2, c3⟩ := rtr_counts env bsegs before hb hbs
  cases seg <;> cases it <;> simp only [SItem.ev, SegXEv] at h <;> simp only [SegX.simple, Bool.false_eq_true] at hs <;>
    simp only [SItem.toItem, SegX.toItem, c1, c2, c3, h]

theorem rtr_itemsFrom (env : Env) : ∀ (segs : List SegX) (st : List (SItem α)), SegsItems env.cs segs st →
    segs.all SegX.simple = true → ∀ (bsegs : List SegX) (before : List (SItem α)), SegsItems env.cs bsegs before →
    bsegs.all SegX.simple = true → itemsFrom before st = absItemsFrom bsegs segs := by
  intro segs st h
  induction h with
  | nil => intros; rfl
  | @cons seg it segs' st' hd _ ih =>
    intro hs bsegs before hb hbs
    simp only [List.all_cons, Bool.and_eq_true] at hs
    simp only [itemsFrom, absItemsFrom, rtr_toItem env bsegs before hb hbs seg it hd hs.1]
    rw [ih hs.2 (bsegs ++ [seg]) (before ++ [it]) (rtr_all2_append hb (All2.cons hd All2.nil))
      (by simp [List.all_append, hbs, hs.1])]

theorem rtr_stepsFrom (env : Env) : ∀ (doc : List (List SegX × List Tok)) (steps : List (List (SItem α))),
    All2 (fun (d : List SegX × List Tok) st => SegsItems env.cs d.1 st) doc steps →
    (∀ d ∈ doc, d.1.all SegX.simple = true) → ∀ (bsegs : List SegX) (before : List (SItem α)) (n : Nat),
    SegsItems env.cs bsegs before → bsegs.all SegX.simple = true →
    stepsFrom before n steps = absStepsFrom bsegs n (doc.map (·.1)) ∧
    SegsItems env.cs (bsegs ++ (doc.map (·.1)).flatten) (before ++ steps.flatten) := by
  intro doc steps h
  induction h with
  | nil => intro _ bsegs before n hb _; exact ⟨rfl, by simpa using hb⟩
  | @cons d st doc' steps' hd _ ih =>
    intro hs bsegs before n hb hbs
    have hs1 := hs d (by simp)
    obtain ⟨i1, i2⟩ := ih (fun x hx => hs x (by simp [hx])) (bsegs ++ d.1) (before ++ st) (n + 1)
      (rtr_all2_append hb hd) (by simp [List.all_append, hbs, hs1])
    refine ⟨?_, by simpa [List.append_assoc] using i2⟩
    simp only [stepsFrom, absStepsFrom, List.map_cons, rtr_itemsFrom env d.1 st hd hs1 bsegs before hb hbs, i1]

/-- `expectedCol` of a simple recipe whose items match the segments of a printed document, in closed
    form: the tables and the steps are functions of the abstract segments -/
theorem rtr_expectedCol_abs (env : Env) (doc : List (List SegX × List Tok)) (r : SimpleRecipe α)
    (h : All2 (fun (d : List SegX × List Tok) st => SegsItems env.cs d.1 st) doc r.steps)
    (hs : ∀ d ∈ doc, d.1.all SegX.simple = true) :
    (expectedCol env r).sections = (if doc.isEmpty then [] else [⟨none, absStepsFrom [] 1 (doc.map (·.1))⟩]) ∧
    (expectedCol env r).ingredients.toList = ((doc.map (·.1)).flatten.filterMap SegX.ingr?).map absIngr ∧
    (expectedCol env r).cookware.toList = ((doc.map (·.1)).flatten.filterMap SegX.cw?).map absCw ∧
    (expectedCol env r).timers.toList = ((doc.map (·.1)).flatten.filterMap SegX.timer?).map absTimer := by
  obtain ⟨steps⟩ := r
  simp only at h
  obtain ⟨e1, e2⟩ := rtr_stepsFrom env doc steps h hs [] [] 1 All2.nil rfl
  simp only [List.nil_append] at e2
  have hall : ((doc.map (·.1)).flatten).all SegX.simple = true := by
    rw [List.all_eq_true]
    intro x hx
    obtain ⟨l, hl, hxl⟩ := List.mem_flatten.1 hx
    obtain ⟨d, hd, rfl⟩ := List.mem_map.1 hl
    exact List.all_eq_true.1 (hs d hd) x hxl
  obtain ⟨t1, t2, t3⟩ := rtr_tables env _ _ e2 hall
  refine ⟨?_, by simpa [expectedCol] using t1, by simpa [expectedCol] using t2, by simpa [expectedCol] using t3⟩
  have hemp : steps.isEmpty = doc.isEmpty := by
    cases h <;> rfl
  simp only [expectedCol, hemp, e1]

/-! ### plain modifiers in closed form -/

theorem rtr_flag_bits (k : TK) (h : (k != .and && k != .plus) = true) :
    ((modifierFlag k).getD 0) &&& Modifiers.REF = 0 ∧ ((modifierFlag k).getD 0) &&& Modifiers.NEW = 0 := by
  cases k <;> first | (simp at h; done) | decide

theorem rtr_modsOf_plain_aux (mods : List TK) (h : mods.all (fun k => k != .and && k != .plus) = true) (m : Modifiers)
    (hm : m.bits &&& Modifiers.REF = 0 ∧ m.bits &&& Modifiers.NEW = 0) :
    (mods.foldl (fun m k => m.insert ((modifierFlag k).getD 0)) m).bits &&& Modifiers.REF = 0 ∧
    (mods.foldl (fun m k => m.insert ((modifierFlag k).getD 0)) m).bits &&& Modifiers.NEW = 0 := by
  induction mods generalizing m with
  | nil => exact hm
  | cons k r ih =>
    simp only [List.all_cons, Bool.and_eq_true] at h
    have hk := rtr_flag_bits k (by simpa using h.1)
    apply ih (by simpa using h.2)
    simp only [Modifiers.insert, Nat.and_or_distrib_right, hm.1, hm.2, hk.1, hk.2]
    exact ⟨rfl, rfl⟩

theorem rtr_modsOf_plain (mods : List TK) (h : mods.all (fun k => k != .and && k != .plus) = true) :
    plainMods (modsOf mods) := by
  obtain ⟨h1, h2⟩ := rtr_modsOf_plain_aux mods h Modifiers.empty ⟨by decide, by decide⟩
  unfold plainMods Modifiers.contains modsOf
  rw [h1, h2]
  decide

/-! ### well-spelledness: building blocks -/

/-- `wellSpelledNext` of a concatenation: the look-ahead of the first part is the first character of
    the second part, or the outer look-ahead when the second part renders to nothing -/
theorem rtin_wellSpelledNext_append (cs : CharSpec) (nx : Option Char) (a b : List Tok) :
    wellSpelledNext cs nx (a ++ b) = (wellSpelledNext cs ((render b).head?.or nx) a && wellSpelledNext cs nx b) := by
  induction a with
  | nil => simp [wellSpelledNext]
  | cons t ts ih =>
    simp only [List.cons_append, wellSpelledNext, ih, rtin_render_append, List.head?_append, Bool.and_assoc,
      Option.or_assoc]

/-- a one-character marker token (`@ # ~ { } ( ) % | : = ? + & * / . ,` …: every kind of the lexer's
    single-character table) is well spelled whatever follows -/
theorem rtin_spellOK_single (cs : CharSpec) (k : TK) (c : Char) (nx : Option Char) (h : singleKind c = some k)
    (hk : k ≠ .escaped ∧ k ≠ .metaStart ∧ k ≠ .textStep ∧ k ≠ .minus ∧ k ≠ .lineComment ∧ k ≠ .blockComment ∧
      k ≠ .newline ∧ k ≠ .int ∧ k ≠ .zeroInt ∧ k ≠ .ws ∧ k ≠ .punct ∧ k ≠ .word) :
    spellOK cs k [c] nx = true := by
  obtain ⟨h1, h2, h3, h4, h5, h6, h7, h8, h9, h10, h11, h12⟩ := hk
  cases k <;> simp_all [spellOK]

end Cook
