import CookModel.Lemmas.C02LiftInter
import CookModel.Lemmas.ParserNoPanic
import CookModel.Lemmas.SimQty
import CookModel.Lemmas.Diag
/-
  Wave 7, seed audit of C02 / C03 (branch w7reauditA): lemmas for the theorems that close the
  "no existing theorem breaks" rows of notes/audit-C02.md, notes/audit-C03.md.

  * INTERMEDIATE_PREPARATIONS off (COMPONENT_MODIFIERS on): `modifiers()` consumes exactly the run of
    modifier characters, never a `( … )` group; `parse_modifiers` returns no intermediate data.
  * RANGE_VALUES off: no value `parse_quantity` returns is a range, on either path.
  * the operand of `pop().unwrap()` in `parse_reference` is never empty.
-/
set_option linter.unusedSectionVars false
set_option linter.unusedSimpArgs false
set_option linter.unusedVariables false
namespace Cook

variable {α : Type} [Arith α]

/-! ### `modifiers()` without INTERMEDIATE_PREPARATIONS -/

/-- the run of modifier characters (`@ ? + - &`) at the cursor -/
def w7aModRun (s : BP α) : List Tok := (s.toks.drop s.cur).takeWhile (fun t => isModStart t.kind)

theorem w7a_drop_cons {ts : List Tok} {c : Nat} {t : Tok} (h : ts[c]? = some t) :
    ts.drop c = t :: ts.drop (c + 1) := by
  have hlt : c < ts.length := by
    rcases Nat.lt_or_ge c ts.length with h' | h'
    · exact h'
    · rw [List.getElem?_eq_none h'] at h; cases h
  rw [List.drop_eq_getElem_cons hlt]
  congr 1
  rw [List.getElem?_eq_getElem hlt] at h
  exact Option.some.inj h

/-- with `inter = false` the loop of `modifiers()` walks over the modifier characters and stops at the
    first other token -/
theorem w7a_modifiersLoop_false (fuel : Nat) (s : BP α) (hf : (s.toks.drop s.cur).length < fuel) :
    modifiersLoop false fuel s = ((), { s with cur := s.cur + (w7aModRun s).length }) := by
  induction fuel generalizing s with
  | zero => omega
  | succ fuel ih =>
    unfold modifiersLoop
    rw [P_bind_run]
    have hp : peekK s = ((s.toks[s.cur]?).map (·.kind), s) := rfl
    rw [hp]
    cases ht : s.toks[s.cur]? with
    | none =>
      have hd : s.toks.drop s.cur = [] := by
        rw [List.drop_eq_nil_iff]
        exact (List.getElem?_eq_none_iff.mp ht)
      unfold w7aModRun
      rw [hd]
      rfl
    | some t =>
      have hd := w7a_drop_cons ht
      simp only [Option.map_some]
      have hb := c02inter_bumpAny_run s t ht
      have hlen : (({ s with cur := s.cur + 1 } : BP α).toks.drop ({ s with cur := s.cur + 1 } : BP α).cur).length < fuel := by
        show (s.toks.drop (s.cur + 1)).length < fuel
        rw [hd] at hf
        simp only [List.length_cons] at hf
        omega
      have hih := ih ({ s with cur := s.cur + 1 } : BP α) hlen
      by_cases hm : isModifierTok t.kind = true
      · simp only [hm, if_true]
        rw [P_bind_run, hb]
        dsimp only
        rw [hih]
        have hr : w7aModRun s = t :: w7aModRun ({ s with cur := s.cur + 1 } : BP α) := by
          unfold w7aModRun
          rw [hd]
          show List.takeWhile _ (t :: _) = _
          rw [List.takeWhile_cons]
          simp only [isModStart, hm, Bool.true_or, if_true]
        rw [hr]
        simp only [List.length_cons]
        congr 2
        omega
      · simp only [hm, Bool.false_eq_true, if_false]
        by_cases ha : (t.kind == TK.and) = true
        · simp only [ha, if_true]
          rw [P_bind_run, hb]
          dsimp only
          have hr : w7aModRun s = t :: w7aModRun ({ s with cur := s.cur + 1 } : BP α) := by
            unfold w7aModRun
            rw [hd]
            show List.takeWhile _ (t :: _) = _
            rw [List.takeWhile_cons]
            simp only [isModStart, ha, Bool.or_true, if_true]
          rw [hr]
          simp only [List.length_cons]
          rw [hih]
          dsimp only
          have : s.cur + 1 + (w7aModRun ({ s with cur := s.cur + 1 } : BP α)).length =
              s.cur + ((w7aModRun ({ s with cur := s.cur + 1 } : BP α)).length + 1) := by omega
          rw [this]
        · simp only [ha, Bool.false_eq_true, if_false]
          have hr : w7aModRun s = [] := by
            unfold w7aModRun
            rw [hd, List.takeWhile_cons]
            have hm' : isModifierTok t.kind = false := by simpa using hm
            have ha' : (t.kind == TK.and) = false := by simpa using ha
            simp only [isModStart, hm', ha', Bool.or_false, Bool.false_eq_true, if_false]
          rw [hr]
          rfl

/-- **`modifiers()` with COMPONENT_MODIFIERS on and INTERMEDIATE_PREPARATIONS off** returns exactly the
    run of modifier characters at the cursor and moves the cursor behind it; nothing else of the
    state changes.  In particular a `(` after `&` is never consumed. -/
theorem w7a_modifiersP_inter_off (s : BP α) (hon : s.ext.has Gen.EXT_COMPONENT_MODIFIERS = true)
    (hoff : s.ext.has Gen.EXT_INTERMEDIATE_PREPARATIONS = false) :
    modifiersP s = (w7aModRun s, { s with cur := s.cur + (w7aModRun s).length }) := by
  unfold modifiersP
  rw [P_bind_run]
  have hx : hasExt (α := α) Gen.EXT_COMPONENT_MODIFIERS s = (s.ext.has Gen.EXT_COMPONENT_MODIFIERS, s) := rfl
  rw [hx, hon]
  simp only [Bool.not_true, Bool.false_eq_true, if_false]
  simp only [P_bind_run]
  have h1 : getCur s = (s.cur, s) := rfl
  have h2 : hasExt (α := α) Gen.EXT_INTERMEDIATE_PREPARATIONS s = (s.ext.has Gen.EXT_INTERMEDIATE_PREPARATIONS, s) := rfl
  have h3 : restToks s = (s.toks.drop s.cur, s) := rfl
  simp only [h1, h2, h3, hoff]
  rw [w7a_modifiersLoop_false _ s (Nat.lt_succ_self _)]
  show ((List.take (s.cur + (w7aModRun s).length) s.toks).drop s.cur, _) = _
  congr 1
  -- take (c + n) then drop c = take n of drop c; the run is a prefix of drop c
  rw [List.drop_take]
  have : s.cur + (w7aModRun s).length - s.cur = (w7aModRun s).length := by omega
  rw [this]
  unfold w7aModRun
  exact (List.prefix_iff_eq_take.mp (List.takeWhile_prefix _)).symm

/-! ### `parse_modifiers` without INTERMEDIATE_PREPARATIONS -/

theorem w7a_parseModifiersLoop_false (span : Span) (fuel : Nat) (toks : List Tok) (m : Modifiers) (s : BP α) :
    (parseModifiersLoop (α := α) span false fuel toks m none s).1.2 = none := by
  induction fuel generalizing toks m s with
  | zero => rfl
  | succ fuel ih =>
    cases toks with
    | nil => rfl
    | cons tok rest =>
      unfold parseModifiersLoop
      simp only [Bool.and_false, Bool.false_eq_true, if_false]
      rw [P_bind_run]
      split
      · rw [P_bind_run]; exact ih _ _ _
      · exact ih _ _ _

/-- **`parse_modifiers` with INTERMEDIATE_PREPARATIONS off** never returns intermediate-reference data,
    whatever the modifier tokens are -/
theorem w7a_parseModifiers_inter_off (mtoks : List Tok) (pos : Nat) (s : BP α)
    (hoff : s.ext.has Gen.EXT_INTERMEDIATE_PREPARATIONS = false) :
    (parseModifiers mtoks pos s).1.inter = none := by
  unfold parseModifiers
  split
  · rfl
  · rw [P_bind_run]
    have h2 : hasExt (α := α) Gen.EXT_INTERMEDIATE_PREPARATIONS s = (s.ext.has Gen.EXT_INTERMEDIATE_PREPARATIONS, s) := rfl
    rw [h2, hoff]
    dsimp only
    rw [P_bind_run]
    exact w7a_parseModifiersLoop_false _ _ _ _ _

/-! ### RANGE_VALUES off: no quantity value is a range -/

/-- the value is not a range -/
def Value.notRange (v : Value α) : Prop := ∀ a b, v ≠ .range a b

theorem w7a_exmap_notRange (r : Except Diag (Number α)) (v : Value α) (h : r.map Value.number = .ok v) :
    Value.notRange v := by
  cases r with
  | error e => cases h
  | ok n =>
    have : v = .number n := by
      have h' : (Except.ok (Value.number n) : Except Diag (Value α)) = .ok v := h
      injection h' with h''
      exact h''.symm
    subst this
    intro a b hc; cases hc

/-- `numeric_value` never yields a range -/
theorem w7a_numericValue_notRange (tokens : List Tok) (v : Value α)
    (h : numericValue (α := α) tokens = some (.ok v)) : Value.notRange v := by
  rw [numericValue_eq] at h
  dsimp only at h
  have hnum : ∀ n : Number α, Value.notRange (Value.number n) := fun n a b hc => by cases hc
  have hfrac : ∀ f : List Tok, fracTail (α := α) f = some (.ok v) → Value.notRange v := by
    intro f hf
    unfold fracTail at hf
    split at hf
    · split at hf
      · simp only [Option.some.injEq] at hf
        exact w7a_exmap_notRange _ _ hf
      · cases hf
    · cases hf
  have hmixed : ∀ f : List Tok, mixedTail (α := α) f = some (.ok v) → Value.notRange v := by
    intro f hf
    unfold mixedTail at hf
    split at hf
    · split at hf
      · simp only [Option.some.injEq] at hf
        exact w7a_exmap_notRange _ _ hf
      · cases hf
    · split at hf
      · simp only [Option.some.injEq] at hf
        exact w7a_exmap_notRange _ _ hf
      · cases hf
    · cases hf
  split at h
  · cases h
  · split at h
    · simp only [Option.some.injEq, Except.ok.injEq] at h; subst h; exact hnum _
    · cases h
  · split at h
    · simp only [Option.some.injEq, Except.ok.injEq] at h; subst h; exact hnum _
    · exact hfrac _ h
  · split at h
    · simp only [Option.some.injEq, Except.ok.injEq] at h; subst h; exact hnum _
    · cases h
  · exact hmixed _ h

/-- `R` holds of the result of `m` from every state whose extension set lacks RANGE_VALUES -/
def RSat {β : Type} (m : P α β) (R : β → Prop) : Prop :=
  ∀ s : BP α, s.ext.has Gen.EXT_RANGE_VALUES = false → R (m s).1

theorem RSat.pure {β : Type} {R : β → Prop} (a : β) (h : R a) : RSat (Pure.pure a : P α β) R := fun _ _ => h

theorem RSat.bind {β γ : Type} {m : P α β} {k : β → P α γ} {R : γ → Prop} (hm : FG m)
    (hk : ∀ a, RSat (k a) R) : RSat (m >>= k) R := by
  intro s hs
  rw [P_bind_run]
  apply hk
  rw [(hm.out s).2.1]
  exact hs

theorem RSat.bind' {β γ : Type} {m : P α β} {k : β → P α γ} {R1 : β → Prop} {R : γ → Prop} (hm : FG m)
    (h1 : RSat m R1) (hk : ∀ a, R1 a → RSat (k a) R) : RSat (m >>= k) R := by
  intro s hs
  rw [P_bind_run]
  apply hk _ (h1 s hs)
  rw [(hm.out s).2.1]
  exact hs

theorem RSat.hasExtRange {γ : Type} {k : Bool → P α γ} {R : γ → Prop} (hk : RSat (k false) R) :
    RSat (hasExt Gen.EXT_RANGE_VALUES >>= k) R := by
  intro s hs
  rw [P_bind_run]
  have h2 : hasExt (α := α) Gen.EXT_RANGE_VALUES s = (s.ext.has Gen.EXT_RANGE_VALUES, s) := rfl
  rw [h2, hs]
  exact hk s hs

theorem w7a_numOrRange_false (tokens : List Tok) : numOrRange (α := α) false tokens = numericValue tokens := by
  unfold numOrRange rangeValue
  simp only [Bool.not_false, if_true]

theorem w7a_textValue_text (tokens : List Tok) (off : Nat) (s : BP α) :
    ∃ t, (textValue tokens off s).1 = Value.text t := by
  unfold textValue
  simp only [P_bind_run]
  split <;> exact ⟨_, rfl⟩

theorem w7a_parseValue_rsat (tokens : List Tok) :
    RSat (parseValue (α := α) tokens) (fun v => Value.notRange v.val) := by
  unfold parseValue
  refine RSat.bind FQ.currentOffset.toFG (fun cur => ?_)
  dsimp only
  refine RSat.hasExtRange ?_
  rw [w7a_numOrRange_false]
  cases hn : numericValue (α := α) tokens with
  | none =>
    intro s hs
    dsimp only
    rw [P_bind_run]
    obtain ⟨t, ht⟩ := w7a_textValue_text tokens ((tokens.head?.map (·.start)).getD cur) s
    show Value.notRange (textValue tokens _ s).1
    rw [ht]
    intro a b hc; cases hc
  | some r =>
    cases r with
    | ok v => exact RSat.pure _ (w7a_numericValue_notRange tokens v hn)
    | error e =>
      intro s hs
      intro a b hc
      cases hc

/-- `R` holds of the result of `m` from every state -/
def Res {β : Type} (m : P α β) (R : β → Prop) : Prop := ∀ s : BP α, R (m s).1

theorem Res.pure {β : Type} {R : β → Prop} (a : β) (h : R a) : Res (Pure.pure a : P α β) R := fun _ => h

theorem Res.bind {β γ : Type} {m : P α β} {k : β → P α γ} {R : γ → Prop} (hk : ∀ a, Res (k a) R) :
    Res (m >>= k) R := fun s => hk _ _

theorem RSat.bindRes {β γ : Type} {m : P α β} {k : β → P α γ} {R1 : β → Prop} {R : γ → Prop}
    (h1 : RSat m R1) (hk : ∀ a, R1 a → Res (k a) R) : RSat (m >>= k) R := by
  intro s hs
  rw [P_bind_run]
  exact hk _ (h1 s hs) _

theorem w7a_qvalue_rsat : RSat (qvalue (α := α)) (fun v => Value.notRange v.value.val) := by
  unfold qvalue
  refine RSat.bind (by fg_auto) (fun lock => ?_)
  refine RSat.bind (by fg_auto) (fun vt => ?_)
  refine RSat.bindRes (w7a_parseValue_rsat vt) (fun v hv => ?_)
  exact Res.pure _ hv

theorem w7a_parseRegularQuantity_rsat :
    RSat (parseRegularQuantity (α := α)) (fun pq => Value.notRange pq.quantity.val.value.value.val) := by
  unfold parseRegularQuantity
  refine RSat.bindRes w7a_qvalue_rsat (fun value hv => ?_)
  repeat (first
    | exact Res.pure _ hv
    | refine Res.bind (fun _ => ?_)
    | dsimp only
    | split)

theorem w7a_parseAdvancedQuantity_rsat :
    RSat (parseAdvancedQuantity (α := α))
      (fun r => ∀ pq, r = some pq → Value.notRange pq.quantity.val.value.value.val) := by
  have hnone : ∀ pq : ParsedQuantity α, (none : Option (ParsedQuantity α)) = some pq →
      Value.notRange pq.quantity.val.value.value.val := fun pq h => by cases h
  unfold parseAdvancedQuantity
  refine RSat.bind (by fg_auto) (fun all => ?_)
  split
  · exact RSat.pure _ hnone
  refine RSat.bind (by fg_auto) (fun lock => ?_)
  refine RSat.bind (by fg_auto) (fun _ => ?_)
  refine RSat.bind (by fg_auto) (fun vt => ?_)
  split
  · exact RSat.pure _ hnone
  split
  · exact RSat.pure _ hnone
  dsimp only
  split
  case' isTrue => refine RSat.bind (by fg_auto) (fun _ => ?_)
  all_goals
    refine RSat.bind (by fg_auto) (fun ut => ?_)
    split
    · exact RSat.pure _ hnone
    try dsimp only
    refine RSat.hasExtRange ?_
    rw [w7a_numOrRange_false]
    split
    · exact RSat.pure _ hnone
    rename_i r hr
    refine RSat.bind' (R1 := Value.notRange) (by fg_auto) ?_ (fun v hv => ?_)
    · cases r with
      | ok v => exact RSat.pure _ (w7a_numericValue_notRange _ v hr)
      | error e =>
        intro s hs a b hc
        cases hc
    · refine RSat.bind (by fg_auto) (fun unit => ?_)
      refine RSat.bind (by fg_auto) (fun sp => ?_)
      refine RSat.pure _ ?_
      intro pq hpq
      simp only [Option.some.injEq] at hpq
      subst hpq
      exact hv

/-- **RANGE_VALUES off: `parse_quantity` never returns a range value**, on either path (the advanced-units
    parser or the regular one), whatever the tokens and the other extension bits are -/
theorem w7a_parseQuantityInner_rsat :
    RSat (parseQuantityInner (α := α)) (fun pq => Value.notRange pq.quantity.val.value.value.val) := by
  unfold parseQuantityInner
  refine RSat.bind' (R1 := fun r => ∀ pq, r = some pq → Value.notRange pq.quantity.val.value.value.val)
    ?_ ?_ (fun adv hadv => ?_)
  · refine FG.bind (FQ.hasExt _).toFG (fun b => ?_)
    split
    · exact FG.withRecover FG.parseAdvancedQuantity
    · exact FG.pure _
  · refine RSat.bind (FQ.hasExt _).toFG (fun b => ?_)
    split
    · intro s hs
      have : (withRecover parseAdvancedQuantity s).1 = (parseAdvancedQuantity s).1 := by
        rw [withRecover_run_ext]; split <;> rfl
      rw [this]
      exact w7a_parseAdvancedQuantity_rsat s hs
    · exact RSat.pure _ (fun pq h => by cases h)
  · cases adv with
    | some q => exact RSat.pure _ (hadv q rfl)
    | none => exact w7a_parseRegularQuantity_rsat

/-- **RANGE_VALUES off: `parse_quantity` never returns a range value**, on either path (the advanced-units
    parser or the regular one), whatever the tokens and the other extension bits are -/
theorem w7a_parseQuantity_no_range (q : List Tok) (s : BP α) (hoff : s.ext.has Gen.EXT_RANGE_VALUES = false) :
    Value.notRange (parseQuantity q s).1.quantity.val.value.value.val := by
  rw [parseQuantity_run]
  dsimp only
  apply w7a_parseQuantityInner_rsat
  show (((if q.isEmpty then panicWith "parse_quantity: empty tokens" else pure () : P α Unit) s).2).ext.has _ = false
  have hf : FQ (if q.isEmpty then panicWith "parse_quantity: empty tokens" else pure () : P α Unit) := by
    split
    · exact FQ.panicWith _
    · exact FQ.pure _
  rw [(hf.out s).2.1]
  exact hoff

end Cook
