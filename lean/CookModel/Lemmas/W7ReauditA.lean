import CookModel.Lemmas.C02LiftInter
import CookModel.Lemmas.ParserNoPanic
/-
  Wave 7, seed audit of C02 / C03 (branch w7reauditA): lemmas for the theorems that close the
  "no existing theorem breaks" rows of notes/audit-C02.md, notes/audit-C03.md.

  * INTERMEDIATE_PREPARATIONS off (COMPONENT_MODIFIERS on): `modifiers()` consumes exactly the run of
    modifier characters, never a `( … )` group; `parse_modifiers` returns no intermediate data.
  * RANGE_VALUES off: no value `parse_quantity` returns is a range, on either path.
  * the operand of `pop().unwrap()` in `parse_reference` is never empty.
-/
set_option linter.unusedSectionVars false
set_option linter.unusedSimpArgs false
set_option linter.unusedVariables false
namespace Cook

variable {α : Type} [Arith α]

/-! ### `modifiers()` without INTERMEDIATE_PREPARATIONS -/

/-- the run of modifier characters (`@ ? + - &`) at the cursor -/
def w7aModRun (s : BP α) : List Tok := (s.toks.drop s.cur).takeWhile (fun t => isModStart t.kind)

theorem w7a_drop_cons {ts : List Tok} {c : Nat} {t : Tok} (h : ts[c]? = some t) :
    ts.drop c = t :: ts.drop (c + 1) := by
  have hlt : c < ts.length := by
    rcases Nat.lt_or_ge c ts.length with h' | h'
    · exact h'
    · rw [List.getElem?_eq_none h'] at h; cases h
  rw [List.drop_eq_getElem_cons hlt]
  congr 1
  rw [List.getElem?_eq_getElem hlt] at h
  exact Option.some.inj h

/-- with `inter = false` the loop of `modifiers()` walks over the modifier characters and stops at the
    first other token -/
theorem w7a_modifiersLoop_false (fuel : Nat) (s : BP α) (hf : (s.toks.drop s.cur).length < fuel) :
    modifiersLoop false fuel s = ((), { s with cur := s.cur + (w7aModRun s).length }) := by
  induction fuel generalizing s with
  | zero => omega
  | succ fuel ih =>
    unfold modifiersLoop
    rw [P_bind_run]
    have hp : peekK s = ((s.toks[s.cur]?).map (·.kind), s) := rfl
    rw [hp]
    cases ht : s.toks[s.cur]? with
    | none =>
      have hd : s.toks.drop s.cur = [] := by
        rw [List.drop_eq_nil_iff]
        exact (List.getElem?_eq_none_iff.mp ht)
      unfold w7aModRun
      rw [hd]
      rfl
    | some t =>
      have hd := w7a_drop_cons ht
      simp only [Option.map_some]
      have hb := c02inter_bumpAny_run s t ht
      have hlen : (({ s with cur := s.cur + 1 } : BP α).toks.drop ({ s with cur := s.cur + 1 } : BP α).cur).length < fuel := by
        show (s.toks.drop (s.cur + 1)).length < fuel
        rw [hd] at hf
        simp only [List.length_cons] at hf
        omega
      have hih := ih ({ s with cur := s.cur + 1 } : BP α) hlen
      by_cases hm : isModifierTok t.kind = true
      · simp only [hm, if_true]
        rw [P_bind_run, hb]
        dsimp only
        rw [hih]
        have hr : w7aModRun s = t :: w7aModRun ({ s with cur := s.cur + 1 } : BP α) := by
          unfold w7aModRun
          rw [hd]
          show List.takeWhile _ (t :: _) = _
          rw [List.takeWhile_cons]
          simp only [isModStart, hm, Bool.true_or, if_true]
        rw [hr]
        simp only [List.length_cons]
        congr 2
        omega
      · simp only [hm, Bool.false_eq_true, if_false]
        by_cases ha : (t.kind == TK.and) = true
        · simp only [ha, if_true]
          rw [P_bind_run, hb]
          dsimp only
          have hr : w7aModRun s = t :: w7aModRun ({ s with cur := s.cur + 1 } : BP α) := by
            unfold w7aModRun
            rw [hd]
            show List.takeWhile _ (t :: _) = _
            rw [List.takeWhile_cons]
            simp only [isModStart, ha, Bool.or_true, if_true]
          rw [hr]
          simp only [List.length_cons]
          rw [hih]
          dsimp only
          have : s.cur + 1 + (w7aModRun ({ s with cur := s.cur + 1 } : BP α)).length =
              s.cur + ((w7aModRun ({ s with cur := s.cur + 1 } : BP α)).length + 1) := by omega
          rw [this]
        · simp only [ha, Bool.false_eq_true, if_false]
          have hr : w7aModRun s = [] := by
            unfold w7aModRun
            rw [hd, List.takeWhile_cons]
            have hm' : isModifierTok t.kind = false := by simpa using hm
            have ha' : (t.kind == TK.and) = false := by simpa using ha
            simp only [isModStart, hm', ha', Bool.or_false, Bool.false_eq_true, if_false]
          rw [hr]
          rfl

/-- **`modifiers()` with COMPONENT_MODIFIERS on and INTERMEDIATE_PREPARATIONS off** returns exactly the
    run of modifier characters at the cursor and moves the cursor behind it; nothing else of the
    state changes.  In particular a `(` after `&` is never consumed. -/
theorem w7a_modifiersP_inter_off (s : BP α) (hon : s.ext.has Gen.EXT_COMPONENT_MODIFIERS = true)
    (hoff : s.ext.has Gen.EXT_INTERMEDIATE_PREPARATIONS = false) :
    modifiersP s = (w7aModRun s, { s with cur := s.cur + (w7aModRun s).length }) := by
  unfold modifiersP
  rw [P_bind_run]
  have hx : hasExt (α := α) Gen.EXT_COMPONENT_MODIFIERS s = (s.ext.has Gen.EXT_COMPONENT_MODIFIERS, s) := rfl
  rw [hx, hon]
  simp only [Bool.not_true, Bool.false_eq_true, if_false]
  simp only [P_bind_run]
  have h1 : getCur s = (s.cur, s) := rfl
  have h2 : hasExt (α := α) Gen.EXT_INTERMEDIATE_PREPARATIONS s = (s.ext.has Gen.EXT_INTERMEDIATE_PREPARATIONS, s) := rfl
  have h3 : restToks s = (s.toks.drop s.cur, s) := rfl
  simp only [h1, h2, h3, hoff]
  rw [w7a_modifiersLoop_false _ s (Nat.lt_succ_self _)]
  show ((List.take (s.cur + (w7aModRun s).length) s.toks).drop s.cur, _) = _
  congr 1
  -- take (c + n) then drop c = take n of drop c; the run is a prefix of drop c
  rw [List.drop_take]
  have : s.cur + (w7aModRun s).length - s.cur = (w7aModRun s).length := by omega
  rw [this]
  unfold w7aModRun
  exact (List.prefix_iff_eq_take.mp (List.takeWhile_prefix _)).symm

/-! ### `parse_modifiers` without INTERMEDIATE_PREPARATIONS -/

theorem w7a_parseModifiersLoop_false (span : Span) (fuel : Nat) (toks : List Tok) (m : Modifiers) (s : BP α) :
    (parseModifiersLoop (α := α) span false fuel toks m none s).1.2 = none := by
  induction fuel generalizing toks m s with
  | zero => rfl
  | succ fuel ih =>
    cases toks with
    | nil => rfl
    | cons tok rest =>
      unfold parseModifiersLoop
      simp only [Bool.and_false, Bool.false_eq_true, if_false]
      rw [P_bind_run]
      split
      · rw [P_bind_run]; exact ih _ _ _
      · exact ih _ _ _

/-- **`parse_modifiers` with INTERMEDIATE_PREPARATIONS off** never returns intermediate-reference data,
    whatever the modifier tokens are -/
theorem w7a_parseModifiers_inter_off (mtoks : List Tok) (pos : Nat) (s : BP α)
    (hoff : s.ext.has Gen.EXT_INTERMEDIATE_PREPARATIONS = false) :
    (parseModifiers mtoks pos s).1.inter = none := by
  unfold parseModifiers
  split
  · rfl
  · rw [P_bind_run]
    have h2 : hasExt (α := α) Gen.EXT_INTERMEDIATE_PREPARATIONS s = (s.ext.has Gen.EXT_INTERMEDIATE_PREPARATIONS, s) := rfl
    rw [h2, hoff]
    dsimp only
    rw [P_bind_run]
    exact w7a_parseModifiersLoop_false _ _ _ _ _

end Cook
