import CookModel.Lemmas.BuilderFracValue
import CookModel.Lemmas.BuilderBridge
/-
  C16 ∩ C09 — the lookup order of `Fractions::config` / `Converter::fractions_config` (unit → quantity → system → all →
  default) on a converter the builder made, in terms of the builder's own tables.
-/
namespace Cook.Bld
open Cook

variable {α : Type}

theorem bfl_lookup_unit (l : List (Nat × FracCfg α)) (id : Nat) :
    (l.map (fun e => (e.1, cfgOfBuilt e.2))).lookup id = (mapGet l id).map cfgOfBuilt := by
  induction l with
  | nil => rfl
  | cons e t ih =>
    obtain ⟨k, v⟩ := e
    simp only [List.map_cons, List.lookup_cons, mapGet]
    by_cases h : id = k
    · subst h; simp
    · have : (id == k) = false := by simpa using h
      simp [this, h, ih]

theorem bfl_lookup_filterMap (g : PQ → Option (FracCfg α)) (l : List PhysQ) (q : PhysQ) :
    (l.filterMap (fun q => (g (pqTo q)).map (fun c => (q, cfgOfBuilt c)))).lookup q =
      if q ∈ l then (g (pqTo q)).map cfgOfBuilt else none := by
  induction l with
  | nil => rfl
  | cons a t ih =>
    by_cases hq : q = a
    · subst hq
      cases hg : g (pqTo q) with
      | none =>
        simp only [List.filterMap_cons, hg, Option.map_none, List.mem_cons, true_or, ↓reduceIte]
        rw [ih]; simp [hg]
      | some c => simp [hg]
    · have hne : (q == a) = false := by simpa using hq
      cases hg : g (pqTo a) with
      | none => simp only [List.filterMap_cons, hg, Option.map_none, List.mem_cons, hq, false_or]; exact ih
      | some c => simp only [List.filterMap_cons, hg, Option.map_some, List.lookup_cons, hne, List.mem_cons, hq, false_or]; exact ih

theorem bfl_lookup_quantity (f : Fractions α) (q : PhysQ) :
    (fractionsOfBuilt f).quantity.lookup q = (f.quantity (pqTo q)).map cfgOfBuilt := by
  unfold fractionsOfBuilt
  simp only
  rw [bfl_lookup_filterMap]
  have : q ∈ PhysQ.all := by cases q <;> decide
  simp [this]

theorem bfl_systemCfg [Arith α] (f : Fractions α) (s : Option Sys) :
    systemCfg (fractionsOfBuilt f) (s.map sysOf) = (sysSel f.metric f.imperial s).map cfgOfBuilt := by
  cases s with
  | none => rfl
  | some s => cases s <;> rfl

/-- `Fractions::config` on the translation of the builder's tables: the first of the unit's own entry, the entry of its
    quantity, of its system, `all`; the default configuration when there is none -/
theorem bfl_config [Arith α] (f : Fractions α) (sys : Option Sys) (q : PQ) (id : Nat) :
    (fractionsOfBuilt f).config (sys.map sysOf) (pqOf q) id =
      (((((mapGet f.unit id).or (f.quantity q)).or (sysSel f.metric f.imperial sys)).or f.all).map cfgOfBuilt).getD
        defaultCfg := by
  unfold Fractions.config
  rw [bfl_lookup_quantity, bfl_systemCfg, pqTo_pqOf]
  have hu : (fractionsOfBuilt f).unit.lookup id = (mapGet f.unit id).map cfgOfBuilt := bfl_lookup_unit f.unit id
  rw [hu]
  have ha : (fractionsOfBuilt f).all = f.all.map cfgOfBuilt := rfl
  rw [ha]
  cases mapGet f.unit id <;> cases f.quantity q <;> cases sysSel f.metric f.imperial sys <;> cases f.all <;> rfl

/-- `Converter::fractions_config(unit)` for unit `id` of a built converter -/
theorem bfl_fractionsConfig [Arith α] (conv : Converter α) (id : Nat) (u : Unit α) :
    (convOfBuilt conv).fractionsConfig (unitOfBuilt id u) =
      (((((mapGet conv.fractions.unit id).or (conv.fractions.quantity u.quantity)).or
          (sysSel conv.fractions.metric conv.fractions.imperial u.system)).or conv.fractions.all).map cfgOfBuilt).getD
        defaultCfg :=
  bfl_config conv.fractions u.system u.quantity id

end Cook.Bld
