import CookModel.Lemmas.RoundtripStepX
/-
  C07, arbitrary placement, generic part (`c07p_` prefix).

  The step loop (`parse_step`'s `while`) works piece by piece: a PIECE is a run of tokens that one
  iteration (`stepOne`) consumes completely, pushing a list of events described by the piece.  The
  events of the loop are the concatenation of the events of the pieces (`c07p_stepLoop_pieces`),
  whatever the pieces are: well-spelled segments of C01 (`c07p_seg_pieceAt`: exactly one text /
  component event, no diagnostic) or an invalid construct with its documented diagnostics
  (Lemmas/DiagPlaceCut.lean, DiagPlaceInst.lean).
-/
set_option linter.unusedSectionVars false
set_option linter.unusedSimpArgs false
set_option linter.unusedVariables false
namespace Cook

variable {α : Type} [Arith α]

/-- a piece of a step: its tokens and what is known about the events one iteration pushes for it -/
structure PlPiece (α : Type) where
  toks : List Tok
  spec : List (Ev α) → Prop

/-- from EVERY parser state working on the tokens `T` (tables `cs`, extensions `e`, no panic so far, any
    event queue) whose cursor is right after `A`, one iteration of the step loop consumes exactly the
    tokens of the piece, appends a list of events satisfying the piece's description and changes
    nothing else -/
def PlPieceAt (T : List Tok) (cs : CharSpec) (e : Ext) (A : List Tok) (p : PlPiece α) : Prop :=
  p.toks ≠ [] ∧ ∀ s : BP α, s.toks = T → s.cs = cs → s.ext = e → s.panic = none → s.cur = A.length →
    ∃ (evs : List (Ev α)) (arr : Array (Ev α)),
      stepOne s = ((), { s with cur := A.length + p.toks.length, evs := arr }) ∧
      arr.toList = s.evs.toList ++ evs ∧ p.spec evs

/-- the pieces one after the other, the first one right after `A` -/
def PlPiecesAt (T : List Tok) (cs : CharSpec) (e : Ext) : List Tok → List (PlPiece α) → Prop
  | _, [] => True
  | A, p :: ps => PlPieceAt T cs e A p ∧ PlPiecesAt T cs e (A ++ p.toks) ps

/-- one list of events per piece, each as its piece describes -/
inductive PlEvs : List (PlPiece α) → List (List (Ev α)) → Prop
  | nil : PlEvs [] []
  | cons {p : PlPiece α} {evs : List (Ev α)} {ps : List (PlPiece α)} {evss : List (List (Ev α))} :
      p.spec evs → PlEvs ps evss → PlEvs (p :: ps) (evs :: evss)

/-- **the diagnostics (all events) of the step loop are the concatenation of the per-piece events** -/
theorem c07p_stepLoop_pieces : ∀ (ps : List (PlPiece α)) (fuel : Nat) (s : BP α) (A : List Tok),
    s.toks = A ++ ps.flatMap (·.toks) → s.cur = A.length → s.panic = none →
    PlPiecesAt s.toks s.cs s.ext A ps → (ps.flatMap (·.toks)).length ≤ fuel →
    ∃ (evss : List (List (Ev α))) (arr : Array (Ev α)),
      stepLoop fuel s = ((), { s with cur := A.length + (ps.flatMap (·.toks)).length, evs := arr }) ∧
      arr.toList = s.evs.toList ++ evss.flatten ∧ PlEvs ps evss := by
  intro ps
  induction ps with
  | nil =>
    intro fuel s A ht hc hp _ hf
    simp only [List.flatMap_nil, List.append_nil] at ht
    have hd : s.toks.drop s.cur = [] := by rw [ht, hc]; simp
    refine ⟨[], s.evs, ?_, by simp, PlEvs.nil⟩
    cases fuel with
    | zero =>
      unfold stepLoop
      simp only [bind, StateT.bind, restToks_run, hd, List.isEmpty_nil, Bool.not_true, Bool.false_eq_true, if_false,
        List.flatMap_nil, List.length_nil, Nat.add_zero, ← hc]
      rfl
    | succ f =>
      unfold stepLoop
      simp only [bind, StateT.bind, restToks_run, hd, List.isEmpty_nil, if_true, List.flatMap_nil, List.length_nil,
        Nat.add_zero, ← hc]
      rfl
  | cons p ps ih =>
    intro fuel s A ht hc hp hps hf
    obtain ⟨⟨hne, hone⟩, hrest⟩ := hps
    simp only [List.flatMap_cons] at ht hf ⊢
    obtain ⟨evs, arr1, hstep, harr1, hspec⟩ := hone s rfl rfl rfl hp hc
    have hpos : 0 < p.toks.length := List.length_pos_iff.mpr hne
    obtain ⟨f, rfl⟩ : ∃ f, fuel = f + 1 := ⟨fuel - 1, by simp only [List.length_append] at hf; omega⟩
    obtain ⟨evss, arr, hl, harr, hall⟩ := ih f ({ s with cur := A.length + p.toks.length, evs := arr1 } : BP α)
      (A ++ p.toks) (by simp [ht]) (by simp) hp hrest (by simp only [List.length_append] at hf; omega)
    refine ⟨evs :: evss, arr, ?_, by rw [harr, harr1]; simp, PlEvs.cons hspec hall⟩
    have hd : (s.toks.drop s.cur).isEmpty = false := by
      rw [ht, hc, List.drop_left]
      cases hpt : p.toks with
      | nil => exact absurd hpt hne
      | cons t r => rfl
    unfold stepLoop
    simp only [bind, StateT.bind, restToks_run, hd, Bool.false_eq_true, if_false, hstep, hl]
    congr 2
    simp only [List.length_append]; omega

/-- `parse_step` on a block cut into pieces: `Start(Step)`, the events of the pieces in order, `End(Step)` -/
theorem c07p_parseStep_pieces (ps : List (PlPiece α)) (s : BP α) (ht : s.toks = ps.flatMap (·.toks)) (hc : s.cur = 0)
    (hp : s.panic = none) (hps : PlPiecesAt s.toks s.cs s.ext [] ps) :
    ∃ (evss : List (List (Ev α))) (arr : Array (Ev α)),
      parseStep s = ((), { s with cur := s.toks.length, evs := arr }) ∧
      arr.toList = s.evs.toList ++ [.start .step] ++ evss.flatten ++ [.stop .step] ∧ PlEvs ps evss := by
  obtain ⟨evss, arr, hl, harr, hall⟩ := c07p_stepLoop_pieces ps s.toks.length
    ({ s with evs := s.evs.push (.start .step) } : BP α) [] (by simpa using ht) (by simpa using hc) hp hps
    (by rw [ht]; exact Nat.le_refl _)
  refine ⟨evss, arr.push (.stop .step), ?_, by simp [harr], hall⟩
  unfold parseStep
  have hd : (s.toks.drop s.cur).length = s.toks.length := by rw [hc]; simp
  simp only [bind, StateT.bind, pushEv_run, restToks_run, hd, hl]
  simp [← ht]

/-! ### the well-spelled segments of C01 are pieces -/

/-- what may follow a segment, on the tokens that really follow it (kinds only): after a text run a
    marker or the end of the step; after a braces component without note and after a timer no `(`;
    after a single-word component what `shortRestOK` says -/
def SegX.followT : SegX → List Tok → Bool
  | .text _, rest => rest.head?.all (fun t => isMarker t.kind)
  | .ingredient c _, rest => restOK c rest
  | .cookware c _, rest => restOK c rest
  | .timer _ _, rest => noParenNext rest
  | .ingredient1 c, rest => shortRestOK c rest
  | .cookware1 c, rest => shortRestOK c rest
  | .ingredientI _ _ _ _ c _, rest => restOK c rest

/-- the piece of a well-spelled segment: its actual tokens; exactly ONE event, the text / component the
    segment denotes (`SegXEv`: never an error or a warning) -/
def SegX.piece (cs : CharSpec) (seg : SegX) (tseg : List Tok) : PlPiece α :=
  ⟨tseg, fun evs => ∃ ev, evs = [ev] ∧ SegXEv cs seg ev⟩

theorem c07p_seg_pieceAt (seg : SegX) (cs : CharSpec) (e : Ext) (T A tseg rest : List Tok)
    (hT : T = A ++ (tseg ++ rest)) (hs : Spells tseg seg.spell) (hok : seg.ok cs e = true)
    (hf : seg.followT rest = true) (hrun : RunAt (baseOff T) T) :
    PlPieceAt (α := α) T cs e A (seg.piece cs tseg) := by
  have key : ∀ (s : BP α) (ev : Ev α),
      stepOne s = ((), { s with cur := A.length + tseg.length, evs := s.evs.push ev }) → SegXEv cs seg ev →
      ∃ (evs : List (Ev α)) (arr : Array (Ev α)),
        stepOne s = ((), { s with cur := A.length + (seg.piece (α := α) cs tseg).toks.length, evs := arr }) ∧
        arr.toList = s.evs.toList ++ evs ∧ (seg.piece (α := α) cs tseg).spec evs :=
    fun s ev h1 h2 => ⟨[ev], s.evs.push ev, h1, by simp, ev, rfl, h2⟩
  cases seg with
  | text l =>
    simp only [SegX.ok, Bool.and_eq_true, Bool.not_eq_true', List.isEmpty_eq_false_iff, List.all_eq_true] at hok
    obtain ⟨⟨hlne, hlm⟩, hlv⟩ := hok
    simp only [SegX.spell] at hs
    cases tseg with
    | nil => have := hs.length; simp at this; exact absurd (List.length_eq_zero_iff.mp this.symm) hlne
    | cons t0 tl =>
      have hnm : ∀ t ∈ t0 :: tl, isMarker t.kind = false := by
        intro t ht'
        obtain ⟨u, hu, hk, -⟩ := hs.mem ht'
        rw [hk]; simpa using hlm u hu
      have hC : ∀ t, rest.head? = some t → isMarker t.kind = true := by
        intro t ht'
        simp only [SegX.followT, ht', Option.all_some] at hf
        exact hf
      have hvis : (t0 :: tl).flatMap vis ≠ [] := by
        rw [hs.vis_eq]; intro h0; rw [h0] at hlv; simp at hlv
      refine ⟨by simp [SegX.piece], ?_⟩
      intro s h1 h2 h3 h4 h5
      subst h1 h2 h3
      obtain ⟨t, hstep, htx⟩ := stepOne_text s A t0 tl rest hT h5 (hnm t0 (by simp))
        (fun x hx => hnm x (by simp [hx])) hC hvis hrun
      exact key s (.text t) hstep (by simp only [SegXEv]; rw [htx, hs.vis_eq])
  | ingredient c p =>
    simp only [SegX.ok, Bool.and_eq_true] at hok
    simp only [SegX.spell] at hs
    simp only [SegX.followT] at hf
    obtain ⟨tm, r, hts, -⟩ := comp_head hs
    refine ⟨by simp [SegX.piece, hts], ?_⟩
    intro s h1 h2 h3 h4 h5
    subst h1 h2 h3
    obtain ⟨i, hstep, hm⟩ := stepOne_ingredient c p s hok.1 hok.2 A tseg rest hs hT h5 hf hrun
    exact key s (.ingredient i) hstep hm
  | cookware c p =>
    simp only [SegX.ok, Bool.and_eq_true] at hok
    simp only [SegX.spell] at hs
    simp only [SegX.followT] at hf
    obtain ⟨tm, r, hts, -⟩ := comp_head hs
    refine ⟨by simp [SegX.piece, hts], ?_⟩
    intro s h1 h2 h3 h4 h5
    subst h1 h2 h3
    obtain ⟨i, hstep, hm⟩ := stepOne_cookware c p s hok.1 hok.2 A tseg rest hs hT h5 hf hrun
    exact key s (.cookware i) hstep hm
  | timer c p =>
    simp only [SegX.ok, Bool.and_eq_true] at hok
    simp only [SegX.spell] at hs
    simp only [SegX.followT] at hf
    obtain ⟨tm, r, hts, -⟩ := timer_head hs
    refine ⟨by simp [SegX.piece, hts], ?_⟩
    intro s h1 h2 h3 h4 h5
    subst h1 h2 h3
    obtain ⟨i, hstep, hm⟩ := stepOne_timer c p s hok.1 hok.2 A tseg rest hs hT h5 hf hrun
    exact key s (.timer i) hstep hm
  | ingredient1 c =>
    simp only [SegX.ok] at hok
    simp only [SegX.spell] at hs
    simp only [SegX.followT] at hf
    obtain ⟨tm, r, hts, -⟩ := short_head hs
    refine ⟨by simp [SegX.piece, hts], ?_⟩
    intro s h1 h2 h3 h4 h5
    subst h1 h2 h3
    obtain ⟨i, hstep, hm⟩ := stepOne_ingredient1 c s hok A tseg rest hs hT h5 hf hrun
    exact key s (.ingredient i) hstep hm
  | cookware1 c =>
    simp only [SegX.ok] at hok
    simp only [SegX.spell] at hs
    simp only [SegX.followT] at hf
    obtain ⟨tm, r, hts, -⟩ := short_head hs
    refine ⟨by simp [SegX.piece, hts], ?_⟩
    intro s h1 h2 h3 h4 h5
    subst h1 h2 h3
    obtain ⟨i, hstep, hm⟩ := stepOne_cookware1 c s hok A tseg rest hs hT h5 hf hrun
    exact key s (.cookware i) hstep hm
  | ingredientI pre post i ip c p =>
    simp only [SegX.ok, Bool.and_eq_true] at hok
    simp only [SegX.spell] at hs
    simp only [SegX.followT] at hf
    obtain ⟨tm, r, hts, -⟩ := inter_head hs
    refine ⟨by simp [SegX.piece, hts], ?_⟩
    intro s h1 h2 h3 h4 h5
    subst h1 h2 h3
    obtain ⟨ing, hstep, hm⟩ := stepOne_ingredientI pre post i ip c p s hok.1.1 hok.1.2 hok.2 A tseg rest hs hT h5 hf hrun
    exact key s (.ingredient ing) hstep hm

/-! ### a list of well-spelled segments as a list of pieces -/

/-- the segments are well-formed one by one and each is followed as `followT` asks, `tail` being the
    (specification) tokens that follow the whole list -/
def segsFollowT (cs : CharSpec) (e : Ext) : List SegX → List Tok → Bool
  | [], _ => true
  | seg :: rest, tail =>
    seg.ok cs e && seg.followT (rest.flatMap SegX.spell ++ tail) && segsFollowT cs e rest tail

/-- the pieces of a list of segments whose actual tokens are `ts` (cut by the lengths of the spellings) -/
def segPieces (cs : CharSpec) : List SegX → List Tok → List (PlPiece α)
  | [], _ => []
  | seg :: rest, ts => seg.piece cs (ts.take seg.spell.length) :: segPieces cs rest (ts.drop seg.spell.length)

theorem c07p_head_kind_transfer {rest trest : List Tok} (hs : Spells trest rest) (p : TK → Bool)
    (h : rest.head?.all (fun t => p t.kind) = true) : trest.head?.all (fun t => p t.kind) = true := by
  have hk := hs.head_kind
  cases hr : rest.head? with
  | none =>
    rw [hr] at hk
    cases ht : trest.head? with
    | none => rfl
    | some t => rw [ht] at hk; simp at hk
  | some u =>
    rw [hr] at hk h
    cases ht : trest.head? with
    | none => rfl
    | some t =>
      rw [ht] at hk
      simp only [Option.map_some, Option.some.injEq] at hk
      simp only [Option.all_some] at h ⊢
      rw [hk]; exact h

theorem c07p_followT_transfer (seg : SegX) {rest trest : List Tok} (hs : Spells trest rest)
    (h : seg.followT rest = true) : seg.followT trest = true := by
  cases seg with
  | text l => exact c07p_head_kind_transfer hs isMarker h
  | ingredient c p => exact restOK_transfer hs h
  | cookware c p => exact restOK_transfer hs h
  | timer c p => exact noParenNext_transfer hs h
  | ingredient1 c => exact shortRestOK_transfer hs h
  | cookware1 c => exact shortRestOK_transfer hs h
  | ingredientI pre post i ip c p => exact restOK_transfer hs h

theorem c07p_segPieces_toks (cs : CharSpec) : ∀ (segs : List SegX) (ts : List Tok),
    Spells ts (segs.flatMap SegX.spell) → (segPieces (α := α) cs segs ts).flatMap (·.toks) = ts := by
  intro segs
  induction segs with
  | nil => intro ts hs; simp only [List.flatMap_nil] at hs; rw [hs.nil_inv]; rfl
  | cons seg rest ih =>
    intro ts hs
    simp only [List.flatMap_cons] at hs
    obtain ⟨tseg, trest, rfl, hseg, hrest⟩ := hs.append_inv
    have hl : tseg.length = seg.spell.length := hseg.length
    simp only [segPieces, List.flatMap_cons, SegX.piece, ← hl, List.take_left', List.drop_left]
    rw [ih trest hrest]

/-- the pieces of a well-formed segment list, placed after `A` and followed by the tokens `tailT`
    (spelling `tail`), then by further pieces -/
theorem c07p_segs_piecesAt (cs : CharSpec) (e : Ext) (T : List Tok) (hrun : RunAt (baseOff T) T) :
    ∀ (segs : List SegX) (A tsegs tailT tail : List Tok) (more : List (PlPiece α)),
    T = A ++ (tsegs ++ tailT) → Spells tsegs (segs.flatMap SegX.spell) → Spells tailT tail →
    segsFollowT cs e segs tail = true → PlPiecesAt T cs e (A ++ tsegs) more →
    PlPiecesAt T cs e A (segPieces cs segs tsegs ++ more) := by
  intro segs
  induction segs with
  | nil =>
    intro A tsegs tailT tail more hT hs htl hok hm
    simp only [List.flatMap_nil] at hs
    rw [hs.nil_inv] at hm
    simpa [segPieces] using hm
  | cons seg rest ih =>
    intro A tsegs tailT tail more hT hs htl hok hm
    simp only [List.flatMap_cons] at hs
    obtain ⟨tseg, trest, rfl, hseg, hrest⟩ := hs.append_inv
    simp only [segsFollowT, Bool.and_eq_true] at hok
    obtain ⟨⟨hsok, hfol⟩, hrok⟩ := hok
    have hl : tseg.length = seg.spell.length := hseg.length
    simp only [segPieces, ← hl, List.take_left', List.drop_left, List.cons_append]
    refine ⟨c07p_seg_pieceAt seg cs e T A tseg (trest ++ tailT) (by rw [hT]; simp) hseg hsok
      (c07p_followT_transfer seg (hrest.append htl) hfol) hrun, ?_⟩
    exact ih (A ++ tseg) trest tailT tail more (by rw [hT]; simp) hrest htl hrok (by simpa using hm)

theorem PlEvs.append_inv : ∀ {ps1 ps2 : List (PlPiece α)} {evss : List (List (Ev α))}, PlEvs (ps1 ++ ps2) evss →
    ∃ e1 e2, evss = e1 ++ e2 ∧ PlEvs ps1 e1 ∧ PlEvs ps2 e2 := by
  intro ps1
  induction ps1 with
  | nil => intro ps2 evss h; exact ⟨[], evss, rfl, PlEvs.nil, h⟩
  | cons p ps ih =>
    intro ps2 evss h
    cases h with
    | cons h1 h2 =>
      obtain ⟨e1, e2, rfl, a1, a2⟩ := ih h2
      exact ⟨_ :: e1, e2, rfl, PlEvs.cons h1 a1, a2⟩

/-- the events of the pieces of a segment list: one event per segment, in order, none a diagnostic -/
theorem c07p_segPieces_evs (cs : CharSpec) : ∀ (segs : List SegX) (ts : List Tok) (evss : List (List (Ev α))),
    PlEvs (segPieces cs segs ts) evss → SegsXEvs cs segs evss.flatten := by
  intro segs
  induction segs with
  | nil => intro ts evss h; cases h; exact SegsXEvs.nil
  | cons seg rest ih =>
    intro ts evss h
    cases h with
    | cons h1 h2 =>
      obtain ⟨ev, rfl, hev⟩ := h1
      simpa using SegsXEvs.cons hev (ih _ _ h2)

/-- the side condition of C01's `step_compose` implies the one used here (with nothing after the list) -/
theorem c07p_segsFollowT_of_segsXOK (cs : CharSpec) (e : Ext) : ∀ (segs : List SegX),
    segsXOK cs e segs = true → segsFollowT cs e segs [] = true := by
  intro segs
  induction segs with
  | nil => intro _; rfl
  | cons seg rest ih =>
    intro h
    simp only [segsXOK, Bool.and_eq_true] at h
    obtain ⟨⟨h1, h2⟩, h3⟩ := h
    simp only [segsFollowT, Bool.and_eq_true, List.append_nil]
    refine ⟨⟨h1, ?_⟩, ih h3⟩
    cases seg with
    | text l =>
      cases rest with
      | nil => rfl
      | cons sg rest' =>
        have hnt : ∀ l', sg ≠ .text l' := by
          intro l' he; subst he; simp [SegX.followOK] at h2
        obtain ⟨tm, r, hr, hk⟩ := segX_head_marker (Spells.rfl' sg.spell) hnt
        simp only [SegX.followT, List.flatMap_cons, hr, List.cons_append, List.head?_cons, Option.all_some]
        exact hk
    | ingredient c p => exact h2
    | cookware c p => exact h2
    | timer c p => exact h2
    | ingredient1 c => exact h2
    | cookware1 c => exact h2
    | ingredientI pre post i ip c p => exact h2

/-- **A construct planted anywhere in a step.**  The step consists of well-spelled segments `pre`, then the
    tokens `B` of a construct, then well-spelled segments `post`; the segments are well-formed and
    followed as their forms require (the construct's tokens counting as what follows `pre`); from the
    position after `pre` one iteration of the step loop consumes exactly `B` and pushes events described
    by `specB` (`PlPieceAt`).  Then `parse_step` delivers: `Start(Step)`, ONE text/component event per
    segment of `pre` (no diagnostic), the events of the construct, ONE text/component event per segment
    of `post` (no diagnostic), `End(Step)` — and nothing else; no panic site is reached. -/
theorem c07p_planted_step (pre post : List SegX) (B : List Tok) (specB : List (Ev α) → Prop) (s : BP α)
    (tpre tpost : List Tok) (hspre : Spells tpre (pre.flatMap SegX.spell))
    (hspost : Spells tpost (post.flatMap SegX.spell))
    (ht : s.toks = tpre ++ (B ++ tpost)) (hc : s.cur = 0) (hp : s.panic = none)
    (hrun : RunAt (baseOff s.toks) s.toks)
    (hpre : segsFollowT s.cs s.ext pre (B ++ post.flatMap SegX.spell) = true)
    (hpost : segsFollowT s.cs s.ext post [] = true)
    (hB : PlPieceAt s.toks s.cs s.ext tpre ⟨B, specB⟩) :
    ∃ (evs1 evsB evs2 : List (Ev α)) (arr : Array (Ev α)),
      parseStep s = ((), { s with cur := s.toks.length, evs := arr }) ∧
      arr.toList = s.evs.toList ++ [.start .step] ++ evs1 ++ evsB ++ evs2 ++ [.stop .step] ∧
      SegsXEvs s.cs pre evs1 ∧ specB evsB ∧ SegsXEvs s.cs post evs2 := by
  have hposts : PlPiecesAt s.toks s.cs s.ext (tpre ++ B) (segPieces (α := α) s.cs post tpost ++ []) :=
    c07p_segs_piecesAt s.cs s.ext s.toks hrun post (tpre ++ B) tpost [] [] []
      (by rw [ht]; simp) hspost (Spells.rfl' []) hpost trivial
  have hmid : PlPiecesAt s.toks s.cs s.ext (tpre ++ []) ((⟨B, specB⟩ : PlPiece α) :: segPieces (α := α) s.cs post tpost) := by
    refine ⟨by simpa using hB, ?_⟩
    simpa using hposts
  have hall := c07p_segs_piecesAt s.cs s.ext s.toks hrun pre [] tpre (B ++ tpost) (B ++ post.flatMap SegX.spell)
    ((⟨B, specB⟩ : PlPiece α) :: segPieces (α := α) s.cs post tpost)
    (by rw [ht]; simp) hspre ((Spells.rfl' B).append hspost) hpre (by simpa using hmid)
  have htoks : (segPieces (α := α) s.cs pre tpre ++ (⟨B, specB⟩ : PlPiece α) :: segPieces (α := α) s.cs post tpost).flatMap
      (·.toks) = s.toks := by
    rw [List.flatMap_append, List.flatMap_cons, c07p_segPieces_toks s.cs pre tpre hspre,
      c07p_segPieces_toks s.cs post tpost hspost, ht]
  obtain ⟨evss, arr, h1, h2, h3⟩ := c07p_parseStep_pieces _ s htoks.symm hc hp hall
  obtain ⟨e1, e2, rfl, a1, a2⟩ := h3.append_inv
  cases a2 with
  | cons b1 b2 =>
    rename_i evsB evss2
    refine ⟨e1.flatten, evsB, evss2.flatten, arr, h1, ?_, c07p_segPieces_evs s.cs pre tpre e1 a1, b1,
      c07p_segPieces_evs s.cs post tpost evss2 b2⟩
    rw [h2]; simp

end Cook
