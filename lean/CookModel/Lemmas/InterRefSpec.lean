import CookModel.Analysis.Collector
/-
  C01: what an intermediate-preparation reference resolves to, in closed form.  `&(=k)` is the k-th step
  of the current section counted from its start, `&(~k)` the k-th step counted back from the end of what
  the section holds so far (text paragraphs are not counted but do occupy positions), `&(=k)` / `&(~k)`
  on sections likewise over the finished sections.  (`irs_` prefix.)
-/
set_option linter.unusedSectionVars false
set_option linter.unusedVariables false
namespace Cook

theorem irs_stepIndices_cons (c : Content) (cs : List Content) :
    stepIndices (c :: cs) = (if c.isStep then [0] else []) ++ (stepIndices cs).map (· + 1) := by
  unfold stepIndices
  rw [List.length_cons, List.range_succ_eq_map, List.filter_cons]
  have hmap : ((List.range cs.length).map Nat.succ).filter
        (fun i => (((c :: cs)[i]?).map Content.isStep).getD false) =
      ((List.range cs.length).filter (fun i => ((cs[i]?).map Content.isStep).getD false)).map (· + 1) := by
    rw [List.filter_map]
    congr 1
  simp only [List.getElem?_cons_zero, Option.map_some, Option.getD_some]
  by_cases h : c.isStep = true
  · simp only [h, if_true, List.cons_append, List.nil_append]
    rw [hmap]
  · simp only [h, if_false, List.nil_append]
    exact hmap

/-- the `m`-th entry of `stepIndices` is the position of a step with exactly `m` steps before it -/
theorem irs_stepIndices_get (content : List Content) (m i : Nat) (h : (stepIndices content)[m]? = some i) :
    (∃ st, content[i]? = some (.step st)) ∧ ((content.take i).filter Content.isStep).length = m := by
  induction content generalizing m i with
  | nil => simp [stepIndices] at h
  | cons c cs ih =>
    rw [irs_stepIndices_cons] at h
    cases hc : c.isStep
    · simp only [hc, Bool.false_eq_true, if_false, List.nil_append, List.getElem?_map, Option.map_eq_some_iff] at h
      obtain ⟨j, hj, rfl⟩ := h
      obtain ⟨h1, h2⟩ := ih m j hj
      refine ⟨by simpa using h1, ?_⟩
      simp only [List.take_succ_cons, List.filter_cons, hc, Bool.false_eq_true, if_false]
      exact h2
    · simp only [hc, if_true, List.cons_append, List.nil_append] at h
      cases m with
      | zero =>
        simp only [List.getElem?_cons_zero, Option.some.injEq] at h
        subst h
        refine ⟨?_, by simp⟩
        cases c with
        | step st => exact ⟨st, rfl⟩
        | text t => cases hc
      | succ m' =>
        simp only [List.getElem?_cons_succ, List.getElem?_map, Option.map_eq_some_iff] at h
        obtain ⟨j, hj, rfl⟩ := h
        obtain ⟨h1, h2⟩ := ih m' j hj
        refine ⟨by simpa using h1, ?_⟩
        simp only [List.take_succ_cons, List.filter_cons, hc, if_true, List.length_cons, h2]

theorem irs_stepIndices_length (content : List Content) :
    (stepIndices content).length = (content.filter Content.isStep).length := by
  induction content with
  | nil => rfl
  | cons c cs ih =>
    rw [irs_stepIndices_cons]
    cases hc : c.isStep <;> simp [hc, List.filter_cons, ih]

/-- counted from the end: the `m`-th entry of the reversed list is a step with exactly `m` steps after it -/
theorem irs_stepIndices_get_rev (content : List Content) (m i : Nat) (h : (stepIndices content).reverse[m]? = some i) :
    (∃ st, content[i]? = some (.step st)) ∧ ((content.drop (i + 1)).filter Content.isStep).length = m := by
  have hm : m < (stepIndices content).length := by
    have := List.getElem?_eq_some_iff.1 h
    obtain ⟨hlt, _⟩ := this
    simpa using hlt
  rw [List.getElem?_reverse hm] at h
  obtain ⟨⟨st, hst⟩, hcount⟩ := irs_stepIndices_get content _ i h
  refine ⟨⟨st, hst⟩, ?_⟩
  have hi : i < content.length := by
    rcases Nat.lt_or_ge i content.length with hh | hh
    · exact hh
    · rw [List.getElem?_eq_none hh] at hst; cases hst
  have hsplit : content = content.take i ++ (Content.step st :: content.drop (i + 1)) := by
    have h1 : content.drop i = Content.step st :: content.drop (i + 1) := by
      rw [List.drop_eq_getElem_cons hi]
      congr 1
      have := List.getElem?_eq_getElem hi
      rw [hst] at this
      exact (Option.some.inj this).symm
    rw [← h1, List.take_append_drop]
  have htot := irs_stepIndices_length content
  rw [hsplit, List.filter_append, List.length_append, List.filter_cons] at htot
  simp only [Content.isStep, if_true, List.length_cons] at htot
  rw [← hsplit] at htot
  omega

/-- **closed form of `resolve_intermediate_ref`** -/
theorem irs_interRefTarget_spec (content : List Content) (n : Nat) (d : InterData) (rel : IngredientRelation)
    (h : interRefTarget content n d = .ok rel) :
    1 ≤ d.val.toNat ∧
    ((d.isSection = false ∧ d.relative = false ∧ ∃ i st, rel = ⟨.reference i, some .step⟩ ∧
        content[i]? = some (.step st) ∧ ((content.take i).filter Content.isStep).length = d.val.toNat - 1) ∨
     (d.isSection = false ∧ d.relative = true ∧ ∃ i st, rel = ⟨.reference i, some .step⟩ ∧
        content[i]? = some (.step st) ∧ ((content.drop (i + 1)).filter Content.isStep).length = d.val.toNat - 1) ∨
     (d.isSection = true ∧ d.relative = false ∧ rel = ⟨.reference (d.val.toNat - 1), some .section⟩ ∧
        d.val.toNat - 1 < n) ∨
     (d.isSection = true ∧ d.relative = true ∧ rel = ⟨.reference (n - d.val.toNat), some .section⟩ ∧
        d.val.toNat ≤ n)) := by
  unfold interRefTarget at h
  by_cases h0 : (d.val.toNat == 0) = true
  · simp only [h0, if_true] at h
    split at h <;> cases h
  · simp only [h0, Bool.false_eq_true, if_false] at h
    have hpos : 1 ≤ d.val.toNat := by
      have : d.val.toNat ≠ 0 := by simpa using h0
      omega
    refine ⟨hpos, ?_⟩
    cases hs : d.isSection <;> cases hr : d.relative <;> simp only [hs, hr] at h
    · -- step, absolute
      cases hx : (stepIndices content)[d.val.toNat - 1]? with
      | none => rw [hx] at h; cases h
      | some i =>
        rw [hx] at h
        simp only [Except.ok.injEq] at h
        obtain ⟨⟨st, hst⟩, hc⟩ := irs_stepIndices_get content _ i hx
        exact Or.inl ⟨rfl, rfl, i, st, h.symm, hst, hc⟩
    · -- step, relative
      cases hx : (stepIndices content).reverse[d.val.toNat - 1]? with
      | none => rw [hx] at h; cases h
      | some i =>
        rw [hx] at h
        simp only [Except.ok.injEq] at h
        obtain ⟨⟨st, hst⟩, hc⟩ := irs_stepIndices_get_rev content _ i hx
        exact Or.inr (Or.inl ⟨rfl, rfl, i, st, h.symm, hst, hc⟩)
    · -- section, absolute
      split at h
      · cases h
      · rename_i hge
        simp only [Except.ok.injEq] at h
        exact Or.inr (Or.inr (Or.inl ⟨rfl, rfl, h.symm, by omega⟩))
    · -- section, relative
      split at h
      · cases h
      · rename_i hgt
        simp only [Except.ok.injEq] at h
        exact Or.inr (Or.inr (Or.inr ⟨rfl, rfl, h.symm, by omega⟩))

end Cook
