import CookModel.Lemmas.SerdeModsStream
import CookModel.Lemmas.FracInv
/-
  C15 — "no number has a NaN value" for parsed recipes, parser side (wave `w7c15nan`): every quantity value carried
  by an ingredient / cookware / timer event of the pull parser is `Value.ParsedOK` (fractions have `den ≠ 0`, parts
  within `u32`, error `0`; plain numbers are decimal literals or the recovery value `1`, not NaN).  Only
  `parse_value` and the advanced-quantity reader build values (`numOrRange`, `fi_numOrRange`, or the recovery value,
  or a text); everything above copies them into the event.  Pattern: Lemmas/SerdeModsStream.lean.  Prefix `nn_`.
-/
set_option linter.unusedSectionVars false
set_option linter.unusedVariables false
set_option linter.unusedSimpArgs false
namespace Cook

/-- the IEEE facts as an instance argument (so that the `keeps` leaves can use them) -/
class IeeeHypC (α : Type) [Arith α] : Prop where
  /-- the facts of wave 6 (Lemmas/FracInv.lean) -/
  out : IeeeHyp α
  /-- the negation of a value that is not NaN is not NaN (`find_inline_quantity` negates a literal) -/
  neg : ∀ x : α, notNaN x → notNaN (Arith.neg x)

variable {α : Type} [Arith α] [IeeeHypC α] {I : Array (Ev α) → Prop} [DiagStable I]

/-- the quantity value of a component event is a value the parser's numeric reader built (or a text) -/
def EvNumOK : Ev α → Prop
  | .ingredient i => ∀ q, i.val.quantity = some q → q.val.value.value.val.ParsedOK
  | .cookware c => ∀ q, c.val.quantity = some q → q.val.value.val.ParsedOK
  | .timer t => ∀ q, t.val.quantity = some q → q.val.value.value.val.ParsedOK
  | _ => True

instance : DiagQ (EvNumOK (α := α)) := ⟨fun _ => trivial, fun _ => trivial⟩

def RNum (r : Option (Ev α)) : Prop := ∀ ev, r = some ev → EvNumOK ev

theorem RNum.none : RNum (α := α) Option.none := fun ev h => by cases h
theorem RNum.some {ev : Ev α} (h : EvNumOK ev) : RNum (Option.some ev) :=
  fun ev' h' => by cases h'; exact h

theorem nn_recoverValue : (recoverValue (α := α)).ParsedOK :=
  ⟨trivial, fun v hv => by
    cases hv
    exact (IeeeHypC.out (α := α)).finite _ ((IeeeHypC.out (α := α)).nat 1 (by decide))⟩

theorem nn_textValue_keeps (ts : List Tok) (off : Nat) :
    Keeps I (textValue (α := α) ts off) (fun v => v.ParsedOK) := by
  unfold textValue
  keeps
  all_goals exact Keeps.pure trivial

/-- `keeps` without case splits (the splits are done by hand where the result matters) -/
local macro "keeps_ns" : tactic => `(tactic|
  repeat' (first
    | intro _
    | keeps_leaf
    | with_reducible apply Keeps.get_bind
    | with_reducible apply Keeps.bind
    | with_reducible apply Keeps.withRecover
    | dsimp only))

theorem nn_parseValue_keeps (ts : List Tok) :
    Keeps I (parseValue (α := α) ts) (fun v => v.val.ParsedOK) := by
  unfold parseValue
  keeps_ns
  split
  · rename_i hv
    exact Keeps.pure (fi_numOrRange IeeeHypC.out _ _ _ hv)
  · exact Keeps.bind (Keeps.pushErr _) (fun _ _ => Keeps.pure nn_recoverValue)
  · exact Keeps.bind (nn_textValue_keeps _ _) (fun v hv => Keeps.pure hv)

theorem nn_qvalue_keeps : Keeps I (qvalue (α := α)) (fun v => v.value.val.ParsedOK) := by
  unfold qvalue
  refine Keeps.bind scalingLock_keeps (fun lock _ => ?_)
  refine Keeps.bind (consumeWhile_keeps _) (fun vt _ => ?_)
  exact Keeps.bind (nn_parseValue_keeps vt) (fun v hv => Keeps.pure hv)

def RPQ (q : ParsedQuantity α) : Prop := q.quantity.val.value.value.val.ParsedOK

theorem nn_parseRegularQuantity_keeps : Keeps I (parseRegularQuantity (α := α)) RPQ := by
  unfold parseRegularQuantity
  refine Keeps.bind nn_qvalue_keeps (fun value hv => ?_)
  keeps
  all_goals exact Keeps.pure hv

theorem nn_none_keeps {β : Type} {R : β → Prop} :
    Keeps I (pure none : P α (Option β)) (fun r => ∀ q, r = some q → R q) :=
  Keeps.pure (fun q hq => by cases hq)

local macro "nn_adv_tail" : tactic => `(tactic|
  (keeps_ns
   split
   · exact nn_none_keeps
   · keeps_ns
     split
     · exact nn_none_keeps
     · rename_i r hr
       refine Keeps.bind (R := fun v => Value.ParsedOK v) ?_ (fun v hv => ?_)
       · split
         · exact Keeps.pure (fi_numOrRange IeeeHypC.out _ _ _ hr)
         · exact Keeps.bind (Keeps.pushErr _) (fun _ _ => Keeps.pure nn_recoverValue)
       · keeps_ns
         exact Keeps.pure (fun q hq => by cases hq; exact hv)))

theorem nn_parseAdvancedQuantity_keeps :
    Keeps I (parseAdvancedQuantity (α := α)) (fun r => ∀ q, r = some q → RPQ q) := by
  unfold parseAdvancedQuantity
  keeps_ns
  split
  · exact nn_none_keeps
  · keeps_ns
    split
    · exact nn_none_keeps
    · split
      · exact nn_none_keeps
      · split
        · refine Keeps.bind (Keeps.panicWith _) (fun _ _ => ?_)
          nn_adv_tail
        · nn_adv_tail

theorem nn_parseQuantity_keeps (ts : List Tok) : Keeps I (parseQuantity (α := α) ts) RPQ := by
  unfold parseQuantity
  split
  all_goals first
    | refine Keeps.bind (Keeps.panicWith _) (fun _ _ => ?_)
    | skip
  all_goals
    apply Keeps.get_bind; intro outer ho
    refine Keeps.bind (Keeps.set ho) (fun _ _ => ?_)
    refine Keeps.bind (R := fun r => ∀ q, r = some q → RPQ q) ?_ (fun adv hadv => ?_)
    · refine Keeps.bind (hasExt_keeps _) (fun b _ => ?_)
      split
      · exact Keeps.withRecover nn_parseAdvancedQuantity_keeps
      · exact nn_none_keeps
    · refine Keeps.bind (R := RPQ) ?_ (fun r hr => ?_)
      · split
        · exact Keeps.pure (hadv _ rfl)
        · exact nn_parseRegularQuantity_keeps
      · exact Keeps.bind (Keeps.modify _ (fun _ => rfl)) (fun _ _ => Keeps.pure hr)

theorem nn_ingredientP_keeps : Keeps I (ingredientP (α := α)) RNum := by
  unfold ingredientP
  keeps_ns
  split
  · exact Keeps.pure RNum.none
  · keeps_ns
    split
    · exact Keeps.pure RNum.none
    · keeps_ns
      -- (the continuation's own `Keeps` statement was taken as the result predicate of the quantity reader)
      split
      · exact Keeps.bind (nn_parseQuantity_keeps _)
          (fun q hq => Keeps.pure (Keeps.pure (RNum.some (fun q' h' => by cases h'; exact hq))))
      · exact Keeps.pure (Keeps.pure (RNum.some (fun q' h' => by cases h')))

theorem nn_cookwareP_keeps : Keeps I (cookwareP (α := α)) RNum := by
  unfold cookwareP
  keeps_ns
  split
  · exact Keeps.pure RNum.none
  · keeps_ns
    split
    · exact Keeps.pure RNum.none
    · keeps_ns
      refine Keeps.mono (R := fun a => ∀ q, a = some q → q.val.value.val.ParsedOK) ?_ (fun a ha => ?_)
      · split
        · refine Keeps.bind (nn_parseQuantity_keeps _) (fun q hq => ?_)
          split
          · exact Keeps.bind (Keeps.perr _ _) (fun _ _ => Keeps.pure (fun q' h' => by cases h'; exact hq))
          · exact Keeps.pure (fun q' h' => by cases h'; exact hq)
        · exact nn_none_keeps
      · keeps
        all_goals exact Keeps.pure (RNum.some ha)

theorem nn_timerQty_keeps (oq : Option (List Tok)) :
    Keeps I (match oq with
      | some qt => do
        let q ← parseQuantity (α := α) qt
        if q.quantity.val.unit.isNone = true then do
            perr "timer-missing-unit" [Span.pos q.quantity.val.value.value.span.stop]
            pure (some q.quantity)
          else pure (some q.quantity)
      | none => pure none)
      (fun a => ∀ q, a = some q → q.val.value.value.val.ParsedOK) := by
  split
  · refine Keeps.bind (nn_parseQuantity_keeps _) (fun q hq => ?_)
    split
    · exact Keeps.bind (Keeps.perr _ _) (fun _ _ => Keeps.pure (fun q' h' => by cases h'; exact hq))
    · exact Keeps.pure (fun q' h' => by cases h'; exact hq)
  · exact nn_none_keeps

theorem nn_recoverPQuantity : (recoverPQuantity (α := α)).val.value.value.val.ParsedOK := nn_recoverValue

theorem nn_timerP_keeps : Keeps I (timerP (α := α)) RNum := by
  unfold timerP
  have hq := fun oq => nn_timerQty_keeps (α := α) (I := I) oq
  keeps_ns
  split
  · exact Keeps.pure RNum.none
  · keeps_ns
    split
    · exact Keeps.pure RNum.none
    · repeat' (first
        | intro _
        | exact hq _
        | keeps_leaf
        | with_reducible apply Keeps.get_bind
        | with_reducible apply Keeps.bind
        | dsimp only
        | split)
      all_goals first
        | exact Keeps.pure (RNum.some (fun q h => by cases h; exact nn_recoverPQuantity))
        | (refine Keeps.pure (RNum.some ?_); assumption)

/-- invariants that survive pushing any event with parser-built quantity values -/
class NumStable (I : Array (Ev α) → Prop) : Prop where
  push : ∀ evs ev, EvNumOK ev → I evs → I (evs.push ev)

instance : NumStable (AllQ (EvNumOK (α := α))) := ⟨fun evs ev hc h => h.push hc⟩

instance [NumStable I] : TextStable I := ⟨fun evs t h => NumStable.push evs _ trivial h⟩

theorem nn_stepOne_keeps [NumStable I] : Keeps I (stepOne (α := α)) (fun _ => True) := by
  unfold stepOne
  apply Keeps.bind (R := RNum)
  · have h1 := nn_ingredientP_keeps (α := α) (I := I)
    have h2 := nn_cookwareP_keeps (α := α) (I := I)
    have h3 := nn_timerP_keeps (α := α) (I := I)
    keeps
    all_goals exact Keeps.pure RNum.none
  · intro comp hc
    split
    · rename_i ev
      exact Keeps.pushEv (fun evs h => NumStable.push evs ev (hc ev rfl) h)
    · keeps

theorem nn_stepLoop_keeps [NumStable I] (fuel : Nat) : Keeps I (stepLoop (α := α) fuel) (fun _ => True) := by
  have h1 := nn_stepOne_keeps (α := α) (I := I)
  induction fuel with
  | zero => unfold stepLoop; keeps
  | succ fuel ih => unfold stepLoop; keeps

section stream
local macro_rules | `(tactic| keeps_leaf) => `(tactic| with_reducible exact nn_stepLoop_keeps _)
local notation "IN" => AllQ (EvNumOK (α := α))

theorem nn_parseBlock_keeps (oldStyle : Bool) : Keeps IN (parseBlock (α := α) oldStyle) (fun _ => True) := by
  have hstart : ∀ k, Keeps IN (pushEv (α := α) (.start k)) (fun _ => True) :=
    fun k => Keeps.pushEv (fun _ h => h.push trivial)
  have hstop : ∀ k, Keeps IN (pushEv (α := α) (.stop k)) (fun _ => True) :=
    fun k => Keeps.pushEv (fun _ h => h.push trivial)
  have hstep : Keeps IN (parseStep (α := α)) (fun _ => True) := by
    have h1 := hstart .step
    have h2 := hstop .step
    unfold parseStep; keeps
  have htext : Keeps IN (parseTextBlock (α := α)) (fun _ => True) := by
    have h1 := hstart .text
    have h2 := hstop .text
    unfold parseTextBlock; keeps
  have hmulti : Keeps IN (parseMultilineBlock (α := α)) (fun _ => True) := by
    unfold parseMultilineBlock; keeps
  unfold parseBlock
  apply Keeps.bind (R := RNum)
  · have h1 := (closing_sectionP_keeps (α := α) (I := IN)).mono
      (R' := RNum) (fun r hr ev he => by obtain ⟨n, rfl⟩ := hr ev he; trivial)
    have h2 := closing_metadataEntry_keeps (α := α) (I := IN)
    keeps
    all_goals (refine Keeps.pure ?_; intro ev he; first | (cases he; done) | (cases he; trivial))
  · intro r hr
    split
    · rename_i ev
      exact Keeps.pushEv (fun _ h => h.push (hr ev rfl))
    · exact hmulti

theorem nn_runBlock (cs : CharSpec) (ext : Ext) (oldStyle : Bool) (b : List Tok)
    (evs : Array (Ev α)) (panic : Option String) (h : IN evs) :
    IN (runBlock cs ext oldStyle b evs panic).1 := by
  have key : Keeps IN (do
      if b.isEmpty then panicWith "BlockParser::new: empty tokens"
      parseBlock (α := α) oldStyle
      let s ← get
      if s.cur ≠ s.toks.length then panicWith "Block tokens not parsed") (fun _ => True) := by
    have := nn_parseBlock_keeps (α := α) oldStyle
    keeps
  exact (key.run ⟨b, 0, ext, cs, evs, panic⟩ h).1

theorem nn_foldl_runBlock (cs : CharSpec) (ext : Ext) (oldStyle : Bool) (blocks : List (List Tok))
    (acc : Array (Ev α) × Option String) (h : IN acc.1) :
    IN (blocks.foldl (fun acc b => runBlock (α := α) cs ext oldStyle b acc.1 acc.2) acc).1 := by
  induction blocks generalizing acc with
  | nil => exact h
  | cons b bs ih =>
    rw [List.foldl_cons]
    exact ih _ (nn_runBlock cs ext oldStyle b acc.1 acc.2 h)

/-- **every ingredient / cookware / timer event of the pull parser carries a quantity value the numeric reader built (or a text)** -/
theorem nn_pullEvents_numOK (cs : CharSpec) (ext : Ext) (input : List Char) :
    ∀ ev ∈ (pullEvents (α := α) cs ext input).1.toList, EvNumOK ev := by
  unfold pullEvents
  split
  rename_i toks evs0 oldStyle heq
  apply nn_foldl_runBlock
  split at heq
  · simp only [Prod.mk.injEq] at heq
    rw [← heq.2.1]
    intro ev hev
    simp only [List.mem_singleton] at hev
    subst hev; trivial
  · simp only [Prod.mk.injEq] at heq
    rw [← heq.2.1]
    intro ev hev
    simp at hev

end stream

end Cook
