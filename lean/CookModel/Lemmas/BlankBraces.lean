import CookModel.Lemmas.DiagExactComp
/-
  C17, seeded change C17-10 (tag `w10b`): braces that hold only blanks and block comments hold no quantity.
  `comp_body` (src/parser/step.rs) tests `quantity_not_empty` with
  `tokens.iter().any(|t| !matches!(t.kind, T![ws] | T![block comment]))`; the mirror is `compBodyLong`, whose
  result is described by `longBody` (`compBodyLong_fst`).
-/
set_option linter.unusedSectionVars false
set_option linter.unusedVariables false
namespace Cook

variable {α : Type} [Arith α]

/-- a token of braces that count as empty: whitespace or block comment (the test of `comp_body`) -/
def w10bBlank (t : Tok) : Bool := t.kind == .ws || t.kind == .blockComment

theorem w10b_findIdx (p : Tok → Bool) (l r : List Tok) (a : Tok) (hl : ∀ t ∈ l, p t = false) (ha : p a = true) :
    (l ++ a :: r).findIdx? p = some l.length := by
  induction l with
  | nil => simp [List.findIdx?_cons, ha]
  | cons x l ih =>
    have hx : p x = false := hl x (by simp)
    have := ih (fun t ht => hl t (by simp [ht]))
    simp [List.findIdx?_cons, hx, this]

/-- the long form on `name { q } rest`: the name, and the tokens between the braces iff one of them is neither
    whitespace nor a block comment -/
theorem w10b_longBody (name q rest : List Tok) (ob cb : Tok)
    (hn : ∀ t ∈ name, (t.kind == .openBrace || isMarker t.kind) = false)
    (hob : ob.kind = .openBrace) (hcb : cb.kind = .closeBrace)
    (hq : ∀ t ∈ q, (t.kind == .closeBrace) = false) :
    longBody (name ++ ob :: (q ++ cb :: rest)) =
      some (name, if q.any (fun t => !(t.kind == .ws || t.kind == .blockComment)) then some q else none) := by
  unfold longBody
  rw [w10b_findIdx _ name _ ob hn (by simp [hob])]
  simp only [List.getElem?_append_right (Nat.le_refl _), Nat.sub_self, List.getElem?_cons_zero, Option.map_some, hob,
    BEq.rfl, if_true]
  have e1 : (name ++ ob :: (q ++ cb :: rest)).drop (name.length + 1) = q ++ cb :: rest := by
    rw [show name ++ ob :: (q ++ cb :: rest) = (name ++ [ob]) ++ (q ++ cb :: rest) by simp]
    rw [List.drop_append_of_le_length (by simp)]
    simp
  rw [e1, w10b_findIdx _ q _ cb hq (by simp [hcb])]
  simp

theorem w10b_any_blank (q : List Tok) (hq : ∀ t ∈ q, w10bBlank t = true) :
    q.any (fun t => !(t.kind == .ws || t.kind == .blockComment)) = false := by
  rw [List.any_eq_false]
  intro t ht
  have := hq t ht
  simp only [w10bBlank] at this
  simp [this]

theorem w10b_blank_noClose (q : List Tok) (hq : ∀ t ∈ q, w10bBlank t = true) :
    ∀ t ∈ q, (t.kind == .closeBrace) = false := by
  intro t ht
  have := hq t ht
  simp only [w10bBlank, Bool.or_eq_true, beq_iff_eq] at this
  rcases this with h | h <;> rw [h] <;> rfl

/-- `comp_body` at `name { q } rest`, `q` only whitespace and block comments: the body has the name `name`
    and NO quantity -/
theorem w10b_compBody_blank (s : BP α) (name q rest : List Tok) (ob cb : Tok)
    (hs : s.toks.drop s.cur = name ++ ob :: (q ++ cb :: rest))
    (hn : ∀ t ∈ name, (t.kind == .openBrace || isMarker t.kind) = false)
    (hob : ob.kind = .openBrace) (hcb : cb.kind = .closeBrace)
    (hq : ∀ t ∈ q, w10bBlank t = true) :
    ∃ b, (compBody s).1 = some b ∧ b.name = name ∧ b.quantity = none := by
  have hl : longBody s.rest = some (name, none) := by
    unfold BP.rest
    rw [hs, w10b_longBody name q rest ob cb hn hob hcb (w10b_blank_noClose q hq), w10b_any_blank q hq]
    rfl
  cases hb : (compBody s).1 with
  | none =>
    have := (c07x_compBody_none_iff s).1 hb
    rw [hl] at this
    exact absurd this.1 (by simp)
  | some b =>
    refine ⟨b, rfl, ?_⟩
    rcases compBody_fact s b hb with h | h
    · rw [hl] at h
      simp only [Option.some.injEq, Prod.mk.injEq] at h
      exact ⟨h.1.symm, h.2.symm⟩
    · rw [hl] at h
      exact absurd h.1 (by simp)

/-- … and with a token between the braces that is neither: the quantity tokens are `q` -/
theorem w10b_compBody_solid (s : BP α) (name q rest : List Tok) (ob cb : Tok)
    (hs : s.toks.drop s.cur = name ++ ob :: (q ++ cb :: rest))
    (hn : ∀ t ∈ name, (t.kind == .openBrace || isMarker t.kind) = false)
    (hob : ob.kind = .openBrace) (hcb : cb.kind = .closeBrace)
    (hq : ∀ t ∈ q, (t.kind == .closeBrace) = false) (hsolid : ∃ t ∈ q, w10bBlank t = false) :
    ∃ b, (compBody s).1 = some b ∧ b.name = name ∧ b.quantity = some q := by
  have hany : q.any (fun t => !(t.kind == .ws || t.kind == .blockComment)) = true := by
    obtain ⟨t, ht, h⟩ := hsolid
    rw [List.any_eq_true]
    refine ⟨t, ht, ?_⟩
    simp only [w10bBlank] at h
    simp [h]
  have hl : longBody s.rest = some (name, some q) := by
    unfold BP.rest
    rw [hs, w10b_longBody name q rest ob cb hn hob hcb hq, hany]
    rfl
  cases hb : (compBody s).1 with
  | none =>
    have := (c07x_compBody_none_iff s).1 hb
    rw [hl] at this
    exact absurd this.1 (by simp)
  | some b =>
    refine ⟨b, rfl, ?_⟩
    rcases compBody_fact s b hb with h | h
    · rw [hl] at h
      simp only [Option.some.injEq, Prod.mk.injEq] at h
      exact ⟨h.1.symm, h.2.symm⟩
    · rw [hl] at h
      exact absurd h.1 (by simp)

end Cook
