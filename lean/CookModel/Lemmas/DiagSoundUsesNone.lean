import CookModel.Lemmas.DiagSoundConv
/-
  C07, soundness under every extension set (prefix `c07u_`): the FIRST premise of
  `parseRecipe_ext_irrelevant` (C02) — every block of the token stream of the printed text satisfies
  `UsesNone` — derived from a check on the ABSTRACT document: `stepCore` of the spec tokens of each step
  (no lexing, no printing).  `stepCore` reads token kinds only, so it is the same on the lexer's tokens of a
  block and on the spec tokens the block spells; a step block does not start with `>>`, so the `>>` clause of
  `UsesNone` holds for it.
  (Specification vocabulary and lemmas only: no model function is added.)
-/
set_option linter.unusedSectionVars false
set_option linter.unusedSimpArgs false
set_option linter.unusedVariables false
namespace Cook

variable {α : Type} [Arith α]

/-! ### `stepCore` reads kinds only -/

section kinds
variable (f : Tok → Tok) (hf : ∀ t, (f t).kind = t.kind)
include hf

theorem c07u_comp_kind (p : TK → Bool) : (fun t : Tok => p t.kind) ∘ f = fun t => p t.kind := by
  funext t; simp only [Function.comp, hf]

theorem c07u_findIdx_map (p : TK → Bool) (ts : List Tok) :
    (ts.map f).findIdx? (fun t => p t.kind) = ts.findIdx? (fun t => p t.kind) := by
  rw [List.findIdx?_map, c07u_comp_kind f hf]

theorem c07u_any_map (p : TK → Bool) (ts : List Tok) :
    (ts.map f).any (fun t => p t.kind) = ts.any (fun t => p t.kind) := by
  rw [List.any_map, c07u_comp_kind f hf]

theorem c07u_dropWhile_map (p : TK → Bool) (ts : List Tok) :
    (ts.map f).dropWhile (fun t => p t.kind) = (ts.dropWhile (fun t => p t.kind)).map f := by
  rw [List.dropWhile_map, c07u_comp_kind f hf]

theorem c07u_takeWhile_map (p : TK → Bool) (ts : List Tok) :
    (ts.map f).takeWhile (fun t => p t.kind) = (ts.takeWhile (fun t => p t.kind)).map f := by
  rw [List.takeWhile_map, c07u_comp_kind f hf]

theorem c07u_lockRest_map (q : List Tok) : lockRest (q.map f) = (lockRest q).map f := by
  unfold lockRest
  rw [c07u_dropWhile_map f hf (fun k => isWsComment k)]
  cases q.dropWhile (fun t => isWsComment t.kind) with
  | nil => rfl
  | cons t r =>
    simp only [List.map_cons, hf]
    split <;> rfl

theorem c07u_advValueToks_map (q : List Tok) : advValueToks (q.map f) = (advValueToks q).map f := by
  unfold advValueToks
  rw [c07u_lockRest_map f hf, c07u_dropWhile_map f hf (fun k => isWsComment k),
    c07u_takeWhile_map f hf (fun k => k != .word)]

theorem c07u_find_map (p : TK → Bool) (ts : List Tok) :
    (ts.map f).find? (fun t => p t.kind) = (ts.find? (fun t => p t.kind)).map f := by
  rw [List.find?_map, c07u_comp_kind f hf]

theorem c07u_advNone_map (q : List Tok) : advNone (q.map f) = advNone q := by
  unfold advNone advSepTok
  rw [c07u_any_map f hf (fun k => k == .percent), c07u_advValueToks_map f hf, ← List.map_reverse,
    c07u_find_map f hf (fun k => k != .blockComment)]
  cases (advValueToks q).reverse.find? (fun t => t.kind != .blockComment) with
  | none => rfl
  | some t => simp only [Option.map_some, hf]

theorem c07u_quantCore_map (q : List Tok) : quantCore (q.map f) = quantCore q := by
  unfold quantCore
  rw [c07u_any_map f hf (fun k => k == .minus), c07u_advNone_map f hf]

theorem c07u_longBody_map (r : List Tok) :
    longBody (r.map f) = (longBody r).map (fun nq => (nq.1.map f, nq.2.map (List.map f))) := by
  unfold longBody
  rw [c07u_findIdx_map f hf (fun k => k == .openBrace || isMarker k)]
  cases r.findIdx? (fun t => t.kind == .openBrace || isMarker t.kind) with
  | none => rfl
  | some p =>
    dsimp only
    have e1 : ((r.map f)[p]?).map (·.kind) = (r[p]?).map (·.kind) := by
      rw [List.getElem?_map]
      cases r[p]? with
      | none => rfl
      | some t => simp only [Option.map_some, hf]
    rw [e1]
    split
    · rw [← List.map_drop, c07u_findIdx_map f hf (fun k => k == .closeBrace)]
      cases (r.drop (p + 1)).findIdx? (fun t => t.kind == .closeBrace) with
      | none => rfl
      | some p2 =>
        dsimp only
        rw [← List.map_take, ← List.map_take,
          c07u_any_map f hf (fun k => !(k == .ws || k == .blockComment))]
        split <;> rfl
    · rfl

theorem c07u_compCore_map (k : TK) (r : List Tok) : compCore k (r.map f) = compCore k r := by
  unfold compCore
  rw [c07u_longBody_map f hf, List.head?_map]
  have hor : ∀ n : List Tok, (n.map f).any (fun t => t.kind == .or) = n.any (fun t => t.kind == .or) :=
    fun n => c07u_any_map f hf (fun k => k == .or) n
  cases hh : r.head? with
  | none =>
    cases longBody r with
    | none => rfl
    | some nq =>
      obtain ⟨n, q⟩ := nq
      cases q with
      | none => simp only [Option.map_some, Option.map_none, hor]
      | some q => simp only [Option.map_some, Option.map_none, hor, c07u_quantCore_map f hf]
  | some t =>
    cases longBody r with
    | none => simp only [Option.map_some, Option.map_none, hf]
    | some nq =>
      obtain ⟨n, q⟩ := nq
      cases q with
      | none => simp only [Option.map_some, Option.map_none, hor, hf]
      | some q => simp only [Option.map_some, Option.map_none, hor, hf, c07u_quantCore_map f hf]

/-- `stepCore` does not change when the tokens are replaced by tokens of the same kinds -/
theorem c07u_stepCore_map (ts : List Tok) : stepCore (ts.map f) = stepCore ts := by
  induction ts with
  | nil => rfl
  | cons t r ih =>
    simp only [List.map_cons, stepCore, hf, ih, c07u_compCore_map f hf]

end kinds

/-- a token with its position forgotten -/
def c07u_z (t : Tok) : Tok := ⟨t.kind, t.text, 0⟩

theorem c07u_spells_z {ts spec : List Tok} (h : Spells ts spec) : ts.map c07u_z = spec.map c07u_z := by
  have e : c07u_z = (fun p : TK × List Char => (⟨p.1, p.2, 0⟩ : Tok)) ∘ Tok.kt := rfl
  rw [e, ← List.map_map, ← List.map_map, h]

/-- **`stepCore` is invariant under `Spells`**: it reads kinds only -/
theorem c07u_stepCore_spells {ts spec : List Tok} (h : Spells ts spec) : stepCore ts = stepCore spec := by
  rw [← c07u_stepCore_map c07u_z (fun _ => rfl) ts, ← c07u_stepCore_map c07u_z (fun _ => rfl) spec,
    c07u_spells_z h]

/-! ### the `>>` clause: a block with the shape of a step does not start with `>>` -/

theorem c07u_metaKeyCore_of_stepShape (cs : CharSpec) (b : List Tok) (h : stepShape b = true) :
    metaKeyCore cs b = true := by
  unfold metaKeyCore metaKeyOf
  cases b with
  | nil => rfl
  | cons t0 rest =>
    have hk : t0.kind ≠ .metaStart := by
      intro hk
      unfold stepShape at h
      simp only [List.map_cons, contShapeK, hk, kIsMarker] at h
      simp at h
    simp only [hk, if_false]

theorem c07u_stepShape_spells {ts spec : List Tok} (h : Spells ts spec) : stepShape ts = stepShape spec := by
  unfold stepShape
  have : ts.map (·.kind) = spec.map (·.kind) := by
    have e : (fun t : Tok => t.kind) = Prod.fst ∘ Tok.kt := rfl
    rw [e, ← List.map_map, ← List.map_map, h]
  rw [this]

/-- a block that spells a well-formed step satisfies `UsesNone` when `stepCore` holds for the SPEC tokens
    of the step -/
theorem c07u_usesNone_block (cs : CharSpec) (ext : Ext) (segs : List SegX) (b : List Tok)
    (hok : (DocItem.step segs).ok cs ext = true) (hs : Spells b (DocItem.step segs).spell)
    (hc : stepCore (segs.flatMap SegX.spell) = true) : UsesNone cs b = true := by
  simp only [DocItem.ok, Bool.and_eq_true] at hok
  unfold UsesNone
  rw [Bool.and_eq_true]
  refine ⟨c07u_metaKeyCore_of_stepShape cs b ?_, ?_⟩
  · rw [c07u_stepShape_spells hs]; exact hok.2
  · rw [c07u_stepCore_spells hs]; exact hc

/-- without front matter the token stream of the pull parser is the lexer's -/
theorem c07u_inputTokens_none (cs : CharSpec) (input : List Char) (h : parseFrontmatter cs input = none) :
    inputTokens cs input = lex cs input := by
  unfold inputTokens; rw [h]

/-- **Level 1: C02's premise `UsesNoneInput` from the abstract document.**  For a well-formed document of
    steps, if `stepCore` holds for the spec tokens of every step (a decidable check on the abstract document:
    no lexing, no printing), every block of the token stream of the printed text satisfies `UsesNone`. -/
theorem c07u_usesNoneInput_of_spec (cs : CharSpec) (ext : Ext) (pre : List Tok) (doc : List (List SegX × List Tok))
    (hpre : blankLinesOK pre = true) (hok : ∀ d ∈ doc, (DocItem.step d.1).ok cs ext = true)
    (hseps : sepsOK (doc.map (·.2)) = true)
    (hw : WellSpelled cs (pre ++ docSpec (stepsDoc doc)))
    (hfm : parseFrontmatter cs (render (pre ++ docSpec (stepsDoc doc))) = none)
    (hc : ∀ d ∈ doc, stepCore (d.1.flatMap SegX.spell) = true) :
    UsesNoneInput cs (render (pre ++ docSpec (stepsDoc doc))) = true := by
  obtain ⟨blocks, evss, arr, hbl, hsp, -, -, -⟩ := rtd_pullEvents_doc (α := Rat) cs ext pre (stepsDoc doc) hpre
    (by
      intro d hd
      obtain ⟨x, hx', rfl⟩ := List.mem_map.1 hd
      exact hok x hx')
    (by simpa [stepsDoc, List.map_map, Function.comp_def] using hseps) hw hfm
  unfold UsesNoneInput
  rw [c07u_inputTokens_none cs _ hfm, hbl, List.all_eq_true]
  have key : ∀ (blocks : List (List Tok)) (doc : List (List SegX × List Tok)),
      All2 (fun b (d : DocItem × List Tok) => Spells b d.1.spell) blocks (stepsDoc doc) →
      (∀ d ∈ doc, (DocItem.step d.1).ok cs ext = true) →
      (∀ d ∈ doc, stepCore (d.1.flatMap SegX.spell) = true) → ∀ b ∈ blocks, UsesNone cs b = true := by
    intro blocks doc
    induction doc generalizing blocks with
    | nil =>
      intro h _ _ b hb
      cases h
      cases hb
    | cons d doc' ih =>
      intro h hok hc b hb
      cases h with
      | cons hd htl =>
        simp only [List.mem_cons] at hb
        rcases hb with rfl | hb
        · exact c07u_usesNone_block cs ext d.1 _ (hok d (by simp)) hd (hc d (by simp))
        · exact ih _ htl (fun x hx => hok x (by simp [hx])) (fun x hx => hc x (by simp [hx])) b hb
  exact key blocks doc hsp hok hc

end Cook
