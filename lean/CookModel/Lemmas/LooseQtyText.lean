import CookModel.Lemmas.LooseLeaf
import CookModel.Lemmas.ValueFiller
/-
  C17, wave 10 (tag `w10v`): filler (block comments, blanks) behind a blank INSIDE A TEXT VALUE of a quantity
  (`@salt{a [- c -] few%pinches}`), through `parse_value`.  `ValFiller vF v`: the value `vF` is `v`, or both are
  text values and `vF` has filler behind one of the blanks of `v` (`FillerIn`).
-/
set_option linter.unusedSectionVars false
set_option linter.unusedSimpArgs false
set_option linter.unusedVariables false
namespace Cook

variable {α : Type} [Arith α]

inductive ValFiller : AVal → AVal → Prop
  | same (v : AVal) : ValFiller v v
  | text (lF l : List Tok) (h : FillerIn lF l) : ValFiller (.text lF) (.text l)

theorem w10v_pad_of_bl17 {t u : Tok} (h : bl17Pad u) (hk : t.kind = u.kind) : w7vPad t = true := by
  unfold w7vPad isWsComment
  rcases h with h | h
  · rw [hk, h]; rfl
  · rw [hk, h.1]; rfl

/-- `parse_value` on a padded text leaf with filler: the text value of the clean leaf -/
theorem w10v_parseValue_text (l lF : List Tok) (hF : FillerIn lF l) (pre post : List Tok) (s : BP α)
    (hsp : s.cs.uws ' ' = true) (hl : leafOK s.cs valKind l = true) (hns : notSingleInt l = true)
    (hpre : padOK s.cs pre = true) (hpost : padOK s.cs post = true)
    (ts : List Tok) (hs : Spells ts (pre ++ lF ++ post)) (off : Nat) (hrun : RunAt off ts) :
    parseValue ts s = (⟨(AVal.text l).denote, ⟨valStart ts s, offAt s.toks s.cur⟩⟩, s) := by
  obtain ⟨h1, h2⟩ := bl17_leaf_text (cs := s.cs) hs hpre hpost hl hF hsp (valStart ts s)
  have hnn : numOrRange (α := α) (s.ext.has Gen.EXT_RANGE_VALUES) ts = none := by
    cases hF with
    | same =>
      obtain ⟨r1, tpost, rfl, hs1, hspost⟩ := hs.append_inv
      obtain ⟨tpre, tl, rfl, hspre, htl⟩ := hs1.append_inv
      exact rt_text_not_numeric (α := α) l hl hns tpre tl tpost htl
        (padOK_blank (hspre.padOK_of hpre)) (padOK_blank (hspost.padOK_of hpost)) _
    | ins X w F Y hX hw hFp =>
      obtain ⟨t1, tpost, rfl, hs1, hspost⟩ := hs.append_inv
      obtain ⟨tpre, t2, rfl, hspre, hs2⟩ := hs1.append_inv
      obtain ⟨tX, t3, rfl, hsX, hs3⟩ := hs2.append_inv
      obtain ⟨tw, t4, rfl, hwk, hwt, hs4⟩ := hs3.cons_inv
      obtain ⟨tF, tY, rfl, hsF, hsY⟩ := hs4.append_inv
      obtain ⟨wk, wt⟩ := isSpTok_facts hw
      have e1 : tpre ++ (tX ++ tw :: (tF ++ tY)) ++ tpost = (tpre ++ tX) ++ [tw] ++ tF ++ (tY ++ tpost) := by simp
      have e2 : (tpre ++ tX) ++ [tw] ++ (tY ++ tpost) = tpre ++ (tX ++ tw :: tY) ++ tpost := by simp
      rw [e1, w7v_numOrRange_filler _ _ tw tF _ (by unfold w7vPad isWsComment; rw [hwk, wk]; rfl)
        (by
          intro x hx
          obtain ⟨u, hu, hk, -⟩ := hsF.mem hx
          exact w10v_pad_of_bl17 (hFp u hu) hk), e2]
      have hsl : Spells (tX ++ tw :: tY) (X ++ w :: Y) :=
        hsX.append (Spells.append (ta := [tw]) (a := [w]) (by simp [Spells, Tok.kt, hwk, hwt]) hsY)
      exact rt_text_not_numeric (α := α) (X ++ w :: Y) hl hns tpre _ tpost hsl
        (padOK_blank (hspre.padOK_of hpre)) (padOK_blank (hspost.padOK_of hpost)) _
  rw [parseValue_text_run _ s hrun hnn h2, h1]
  rfl

end Cook
