import CookModel.Lemmas.LooseLeaf
import CookModel.Lemmas.ValueFiller
/-
  C17, wave 10 (tag `w10v`): filler (block comments, blanks) behind a blank INSIDE A TEXT VALUE of a quantity
  (`@salt{a [- c -] few%pinches}`), through `parse_value`.  `ValFiller vF v`: the value `vF` is `v`, or both are
  text values and `vF` has filler behind one of the blanks of `v` (`FillerIn`).
-/
set_option linter.unusedSectionVars false
set_option linter.unusedSimpArgs false
set_option linter.unusedVariables false
namespace Cook

variable {α : Type} [Arith α]

inductive ValFiller : AVal → AVal → Prop
  | same (v : AVal) : ValFiller v v
  | text (lF l : List Tok) (h : FillerIn lF l) : ValFiller (.text lF) (.text l)

theorem w10v_pad_of_bl17 {t u : Tok} (h : bl17Pad u) (hk : t.kind = u.kind) : w7vPad t = true := by
  unfold w7vPad isWsComment
  rcases h with h | h
  · rw [hk, h]; rfl
  · rw [hk, h.1]; rfl

/-- a padded text leaf with filler is still not number-like -/
theorem w10v_numOrRange_text {cs : CharSpec} (l lF : List Tok) (hF : FillerIn lF l) (pre post : List Tok)
    (hl : leafOK cs valKind l = true) (hns : notSingleInt l = true)
    (hpre : padOK cs pre = true) (hpost : padOK cs post = true)
    (ts : List Tok) (hs : Spells ts (pre ++ lF ++ post)) (ext : Bool) :
    numOrRange (α := α) ext ts = none := by
  induction hF generalizing ts with
  | same =>
    obtain ⟨r1, tpost, rfl, hs1, hspost⟩ := hs.append_inv
    obtain ⟨tpre, tl, rfl, hspre, htl⟩ := hs1.append_inv
    exact rt_text_not_numeric (α := α) _ hl hns tpre tl tpost htl
      (padOK_blank (hspre.padOK_of hpre)) (padOK_blank (hspost.padOK_of hpost)) _
  | ins X w F Y hX hw hFp =>
    obtain ⟨t1, tpost, rfl, hs1, hspost⟩ := hs.append_inv
    obtain ⟨tpre, t2, rfl, hspre, hs2⟩ := hs1.append_inv
    obtain ⟨tX, t3, rfl, hsX, hs3⟩ := hs2.append_inv
    obtain ⟨tw, t4, rfl, hwk, hwt, hs4⟩ := hs3.cons_inv
    obtain ⟨tF, tY, rfl, hsF, hsY⟩ := hs4.append_inv
    obtain ⟨wk, wt⟩ := isSpTok_facts hw
    have e1 : tpre ++ (tX ++ tw :: (tF ++ tY)) ++ tpost = (tpre ++ tX) ++ [tw] ++ tF ++ (tY ++ tpost) := by simp
    have e2 : (tpre ++ tX) ++ [tw] ++ (tY ++ tpost) = tpre ++ (tX ++ tw :: tY) ++ tpost := by simp
    rw [e1, w7v_numOrRange_filler _ _ tw tF _ (by unfold w7vPad isWsComment; rw [hwk, wk]; rfl)
      (by
        intro x hx
        obtain ⟨u, hu, hk, -⟩ := hsF.mem hx
        exact w10v_pad_of_bl17 (hFp u hu) hk), e2]
    have hsl : Spells (tX ++ tw :: tY) (X ++ w :: Y) :=
      hsX.append (Spells.append (ta := [tw]) (a := [w]) (by simp [Spells, Tok.kt, hwk, hwt]) hsY)
    exact rt_text_not_numeric (α := α) (X ++ w :: Y) hl hns tpre _ tpost hsl
      (padOK_blank (hspre.padOK_of hpre)) (padOK_blank (hspost.padOK_of hpost)) _
  | more X w F Y l h0 hX hw hFp ih =>
    obtain ⟨t1, tpost, rfl, hs1, hspost⟩ := hs.append_inv
    obtain ⟨tpre, t2, rfl, hspre, hs2⟩ := hs1.append_inv
    obtain ⟨tX, t3, rfl, hsX, hs3⟩ := hs2.append_inv
    obtain ⟨tw, t4, rfl, hwk, hwt, hs4⟩ := hs3.cons_inv
    obtain ⟨tF, tY, rfl, hsF, hsY⟩ := hs4.append_inv
    obtain ⟨wk, wt⟩ := isSpTok_facts hw
    have e1 : tpre ++ (tX ++ tw :: (tF ++ tY)) ++ tpost = (tpre ++ tX) ++ [tw] ++ tF ++ (tY ++ tpost) := by simp
    have e2 : (tpre ++ tX) ++ [tw] ++ (tY ++ tpost) = tpre ++ (tX ++ tw :: tY) ++ tpost := by simp
    rw [e1, w7v_numOrRange_filler _ _ tw tF _ (by unfold w7vPad isWsComment; rw [hwk, wk]; rfl)
      (by
        intro x hx
        obtain ⟨u, hu, hk, -⟩ := hsF.mem hx
        exact w10v_pad_of_bl17 (hFp u hu) hk), e2]
    have hsl : Spells (tpre ++ (tX ++ tw :: tY) ++ tpost) (pre ++ (X ++ w :: Y) ++ post) :=
      (hspre.append (hsX.append (Spells.append (ta := [tw]) (a := [w]) (by simp [Spells, Tok.kt, hwk, hwt]) hsY))).append hspost
    exact ih hl hns _ hsl

/-- `parse_value` on a padded text leaf with filler: the text value of the clean leaf -/
theorem w10v_parseValue_text (l lF : List Tok) (hF : FillerIn lF l) (pre post : List Tok) (s : BP α)
    (hsp : s.cs.uws ' ' = true) (hl : leafOK s.cs valKind l = true) (hns : notSingleInt l = true)
    (hpre : padOK s.cs pre = true) (hpost : padOK s.cs post = true)
    (ts : List Tok) (hs : Spells ts (pre ++ lF ++ post)) (off : Nat) (hrun : RunAt off ts) :
    parseValue ts s = (⟨(AVal.text l).denote, ⟨valStart ts s, offAt s.toks s.cur⟩⟩, s) := by
  obtain ⟨h1, h2⟩ := bl17_leaf_text (cs := s.cs) hs hpre hpost hl hF hsp (valStart ts s)
  have hnn : numOrRange (α := α) (s.ext.has Gen.EXT_RANGE_VALUES) ts = none :=
    w10v_numOrRange_text l lF hF pre post hl hns hpre hpost ts hs _
  rw [parseValue_text_run _ s hrun hnn h2, h1]
  rfl

theorem w10v_valKind_core {k : TK} (h : valKind k = true ∨ k = .ws ∨ k = .blockComment) :
    coreKind k = true := by
  rcases h with h | h | h
  · simp [coreKind, h]
  · subst h; rfl
  · subst h; rfl

theorem w10v_valKind_notBlank {k : TK} (h : valKind k = true) : isWsComment k = false := by
  cases k <;> simp [valKind, isWsComment] at h ⊢

/-- kinds and first token of the actual tokens of a text value with filler -/
theorem w10v_text_facts {cs : CharSpec} {l lF M : List Tok} (hl : leafOK cs valKind l = true) (hF : FillerIn lF l)
    (hM : Spells M lF) :
    (∀ t ∈ M, coreKind t.kind = true) ∧
    ∃ h r, M = h :: r ∧ isWsComment h.kind = false ∧ coreKind h.kind = true ∧ ∃ t rl, l = t :: rl ∧ h.kind = t.kind := by
  refine ⟨fun t ht => w10v_valKind_core (bl17_leaf_kinds hl hF hM t ht), ?_⟩
  obtain ⟨t, r, hlt, hat⟩ := (leafOK_facts hl).head
  obtain ⟨r', hlF⟩ := hF.head hlt
  rw [hlF] at hM
  obtain ⟨h, r'', rfl, hk, -, -⟩ := hM.cons_inv
  have hvk : valKind h.kind = true := by rw [hk]; exact (isAtomTok_facts hat).1
  exact ⟨h, r'', rfl, w10v_valKind_notBlank hvk, w10v_valKind_core (Or.inl hvk), t, r, hlt, hk⟩

/-- `bl17_qvalue` for a text value with filler -/
theorem w10v_qvalue_text (q : AQty) (l lF : List Tok) (hv : q.val = .text l) (hF : FillerIn lF l) (p : QPad) (s : BP α)
    (hsp : s.cs.uws ' ' = true) (hq : q.ok s.cs = true) (hp : p.ok s.cs = true)
    (L pre M post U : List Tok) (ht : s.toks = L ++ (pre ++ M ++ post) ++ U) (hc : s.cur = 0)
    (hL : Spells L (spellLock q.lock p)) (hpre : Spells pre p.v.pre) (hM : Spells M lF)
    (hpost : Spells post p.v.post) (hUh : ∀ t, U.head? = some t → t.kind = .percent)
    (hrun : RunAt (baseOff s.toks) s.toks) :
    ∃ vspan lspan, qvalue s = (⟨⟨q.val.denote, vspan⟩, lspan⟩, { s with cur := (L ++ (pre ++ M ++ post)).length }) ∧
      lspan.isSome = q.lock := by
  simp only [AQty.ok, Bool.and_eq_true] at hq
  simp only [QPad.ok, Bool.and_eq_true] at hp
  obtain ⟨⟨⟨hpl0, hpv⟩, hpu0⟩, hpu1⟩ := hp
  have hvok := hq.1
  rw [hv] at hvok ⊢
  simp only [AVal.ok, Bool.and_eq_true] at hvok
  have hpv' := hpv
  simp only [VPad.ok, Bool.and_eq_true] at hpv'
  obtain ⟨⟨⟨⟨⟨hppre, hppost⟩, -⟩, -⟩, -⟩, -⟩ := hpv'
  have bpre := padOK_blank (hpre.padOK_of hppre)
  have bpost := padOK_blank (hpost.padOK_of hppost)
  obtain ⟨hMk, h, r, hMh, hhb, hhk, -⟩ := w10v_text_facts hvok.1 hF hM
  have hVk : ∀ t ∈ pre ++ M ++ post, coreKind t.kind = true := by
    intro t ht'
    simp only [List.mem_append] at ht'
    rcases ht' with (h' | h') | h'
    · rcases padOK_padT (hpre.padOK_of hppre) t h' with h'' | h'' <;> rw [h''] <;> rfl
    · exact hMk t h'
    · rcases padOK_padT (hpost.padOK_of hppost) t h' with h'' | h'' <;> rw [h''] <;> rfl
  have hVnp : ∀ t ∈ pre ++ M ++ post, (t.kind != TK.percent) = true := by
    intro t ht'; simpa using (coreKind_excl (hVk t ht')).1
  have hUnp : ∀ t, U.head? = some t → (t.kind != TK.percent) = false := by
    intro t ht'; simp [hUh t ht']
  unfold qvalue
  cases hlock : q.lock with
  | true =>
    rw [hlock] at hL
    simp only [spellLock, if_true] at hL
    obtain ⟨l0, r1, rfl, hl0, hteq⟩ := hL.append_inv
    obtain ⟨teq, rfl, hteqk, -⟩ := hteq.single_inv
    simp only [tk] at hteqk
    have bl0 := padOK_blank (hl0.padOK_of hpl0)
    have h1 := scalingLock_lock s l0 teq ((pre ++ M ++ post) ++ U) (by rw [ht]; simp) hc bl0 hteqk
    have h2 := consumeWhile_split (fun k => k != .percent) ({ s with cur := l0.length + 1 } : BP α)
      (l0 ++ [teq]) (pre ++ M ++ post) U (by simpa using ht) (by simp) (fun t ht' => hVnp t ht') hUnp
    have hrun2 : RunAt (lastStop (baseOff s.toks) (l0 ++ [teq])) (pre ++ M ++ post) := by
      have : RunAt (baseOff s.toks) (l0 ++ [teq] ++ (pre ++ M ++ post) ++ U) := by rw [← ht]; exact hrun
      exact ((runAt_append _ _ _).mp ((runAt_append _ _ _).mp this).1).2
    have h3 := w10v_parseValue_text l lF hF p.v.pre p.v.post
      ({ s with cur := (l0 ++ [teq]).length + (pre ++ M ++ post).length } : BP α) hsp hvok.1 hvok.2 hppre hppost
      (pre ++ M ++ post) ((hpre.append hM).append hpost) _ hrun2
    have hlen : (l0 ++ [teq]).length + (pre ++ M ++ post).length = (l0 ++ [teq] ++ (pre ++ M ++ post)).length := by
      simp only [List.length_append]
    rw [hlen] at h2 h3
    simp only [bind, StateT.bind, h1, h2, h3]
    exact ⟨_, _, rfl, rfl⟩
  | false =>
    rw [hlock] at hL
    simp only [spellLock, Bool.false_eq_true, if_false] at hL
    have hLn := hL.nil_inv
    subst hLn
    subst hMh
    have h1 := scalingLock_nolock s pre h (r ++ post ++ U) (by rw [ht]; simp) hc bpre hhb (coreKind_excl hhk).2.2.1
    have h2 := consumeWhile_split (fun k => k != .percent) ({ s with cur := pre.length } : BP α)
      pre (h :: r ++ post) U (by simpa using ht) rfl
      (fun t ht' => hVnp t (by simp only [List.mem_append] at ht' ⊢; rcases ht' with h' | h' <;> simp [h'])) hUnp
    have hrun2 : RunAt (lastStop (baseOff s.toks) pre) (h :: r ++ post) := by
      have : RunAt (baseOff s.toks) (pre ++ (h :: r ++ post) ++ U) := by
        have e : pre ++ (h :: r ++ post) ++ U = [] ++ (pre ++ h :: r ++ post) ++ U := by simp
        rw [e, ← ht]; exact hrun
      exact ((runAt_append _ _ _).mp ((runAt_append _ _ _).mp this).1).2
    have hsp' : Spells (h :: r ++ post) ([] ++ lF ++ p.v.post) := by
      simpa using hM.append hpost
    have h3 := w10v_parseValue_text l lF hF [] p.v.post
      ({ s with cur := pre.length + (h :: r ++ post).length } : BP α) hsp hvok.1 hvok.2 rfl hppost
      (h :: r ++ post) hsp' _ hrun2
    have hlen : pre.length + (h :: r ++ post).length = ([] ++ (pre ++ h :: r ++ post)).length := by
      simp only [List.nil_append, List.length_append]; omega
    rw [hlen] at h2 h3
    simp only [bind, StateT.bind, h1, h2, h3]
    exact ⟨_, _, rfl, rfl⟩

theorem ValFiller.elim {vF v : AVal} (h : ValFiller vF v) :
    vF = v ∨ ∃ lF l, vF = .text lF ∧ v = .text l ∧ FillerIn lF l := by
  cases h with
  | same => exact Or.inl rfl
  | text lF l h => exact Or.inr ⟨lF, l, rfl, rfl, h⟩

/-- `rt_val_facts` for a value with filler -/
theorem w10v_val_facts {cs : CharSpec} {vF v : AVal} (hV : ValFiller vF v) {vp : VPad} (hv : v.ok cs = true)
    (hp : vp.ok cs = true) {pre M post : List Tok} (hpre : Spells pre vp.pre) (hM : Spells M (spellCore vF vp))
    (hpost : Spells post vp.post) :
    (∀ t ∈ pre, BlankT t) ∧ (∀ t ∈ post, BlankT t) ∧ (∀ t ∈ pre ++ M ++ post, coreKind t.kind = true) ∧
    ∃ h r, M = h :: r ∧ isWsComment h.kind = false ∧ coreKind h.kind = true := by
  rcases hV.elim with e | ⟨lF, l, e1, e2, hF⟩
  · rw [e] at hM
    exact rt_val_facts hv hp hpre hM hpost
  · rw [e1] at hM
    rw [e2] at hv
    simp only [spellCore] at hM
    simp only [AVal.ok, Bool.and_eq_true] at hv
    simp only [VPad.ok, Bool.and_eq_true] at hp
    obtain ⟨⟨⟨⟨⟨hppre, hppost⟩, -⟩, -⟩, -⟩, -⟩ := hp
    obtain ⟨hMk, h, r, hMh, hhb, hhk, -⟩ := w10v_text_facts hv.1 hF hM
    refine ⟨padOK_blank (hpre.padOK_of hppre), padOK_blank (hpost.padOK_of hppost), ?_, h, r, hMh, hhb, hhk⟩
    intro t ht'
    simp only [List.mem_append] at ht'
    rcases ht' with (h' | h') | h'
    · rcases padOK_padT (hpre.padOK_of hppre) t h' with h'' | h'' <;> rw [h''] <;> rfl
    · exact hMk t h'
    · rcases padOK_padT (hpost.padOK_of hppost) t h' with h'' | h'' <;> rw [h''] <;> rfl

/-- the advanced form declines a text value with filler that starts with a word and has no unit -/
theorem w10v_parseAdvancedQuantity_none_text (q : AQty) (l lF : List Tok) (hv : q.val = .text l) (hF : FillerIn lF l)
    (hu : q.unit = none) (p : QPad) (s : BP α) (hq : q.ok s.cs = true) (hp : p.ok s.cs = true) (hadv : q.advSafe = true)
    (L pre M post : List Tok) (hts : s.toks = L ++ (pre ++ M ++ post)) (hc : s.cur = 0)
    (hL : Spells L (spellLock q.lock p)) (hpre : Spells pre p.v.pre) (hM : Spells M lF) (hpost : Spells post p.v.post) :
    ∃ c, parseAdvancedQuantity s = (none, { s with cur := c }) := by
  have hq' := hq
  simp only [AQty.ok, Bool.and_eq_true] at hq'
  have hp' := hp
  simp only [QPad.ok, Bool.and_eq_true] at hp'
  obtain ⟨⟨⟨hpl0, hpv⟩, hpu0⟩, hpu1⟩ := hp'
  have hM' : Spells M (spellCore (AVal.text lF) p.v) := hM
  have hvok := hq'.1
  rw [hv] at hvok
  obtain ⟨bpre, bpost, hVk, -⟩ := w10v_val_facts (ValFiller.text lF l hF) hvok hpv hpre hM' hpost
  simp only [AVal.ok, Bool.and_eq_true] at hvok
  obtain ⟨-, h, r, hMh, hhb, hhk, t, rl, hlt, hkt⟩ := w10v_text_facts hvok.1 hF hM
  unfold parseAdvancedQuantity
  simp only [bind, StateT.bind, allToks, get, getThe, MonadStateOf.get, StateT.get, pure, StateT.pure]
  have hany : s.toks.any (fun t => t.kind == .percent) = false := by
    rw [hts, List.any_eq_false]
    intro t ht
    rcases List.mem_append.mp ht with ht | ht
    · simpa using rt_lock_kinds hpl0 hL t ht
    · simpa using (coreKind_excl (hVk t ht)).1
  simp only [hany, Bool.false_eq_true, if_false]
  subst hMh
  obtain ⟨l', c1, B, h1, h2⟩ := rt_lock_then_ws q p s hpl0 L pre h (r ++ post) (by rw [hts]; simp) hc hL bpre hhb
    (coreKind_excl hhk).2.2.1
  simp only [bind, StateT.bind, h1, h2]
  have hhw : h.kind = .word := by
    simp only [AQty.advSafe, hu, hv, hlt, Option.isSome_none, Bool.false_or, List.head?_cons, Option.any_some] at hadv
    rw [hkt]
    simpa using hadv
  have h3 := consumeWhile_split (fun k => k != .word) ({ s with cur := (L ++ pre).length } : BP α)
    (L ++ pre) [] (h :: r ++ post) (by rw [hts]; simp) rfl (by simp)
    (by intro t ht'; simp at ht'; subst ht'; simp [hhw])
  simp only [h3, List.reverse_nil, List.find?_nil]
  exact ⟨_, rfl⟩

end Cook
