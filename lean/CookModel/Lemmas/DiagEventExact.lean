import CookModel.Lemmas.DiagRefChecksExact
import CookModel.Lemmas.DiagAnalysisIff
import CookModel.Lemmas.ScaleMore
/-
  C07, analysis stage, EVENT level (prefix `c07v_`): the exact list of diagnostics of a whole ingredient
  event (`ingredientA`) and of a whole cookware event (`cookwareA`), from every collector state, as a pure
  function of the event and of the tables / modes / current section of the state — the composition of the
  exact lists of the parts (`valueOf_run`, `refDiags`, `interRefDiags`, `c07r_ingrRefDiags`,
  `c07r_cwRefDiags`) through `ingrInter` / `ingrRegular` / `ingrBuild` / `cwResolve` / `cwBuild`.

  Everything defined here is specification vocabulary (the expected lists and the expected pure results);
  each definition is tied to the model function it describes by an `…_exact` / `…_val` lemma.
-/
namespace Cook
variable {α : Type} [Arith α]
set_option linter.unusedSectionVars false
set_option linter.unusedSimpArgs false
set_option linter.unusedVariables false

/-! ### the value / quantity conversion -/

/-- the warning of `valueOf`: the lock `=` has no effect (not an ingredient, or a text value) -/
def c07v_lockDiags (v : PQValue α) (isIngredient : Bool) : List Diag :=
  if v.lock.isSome && (!isIngredient || v.value.val.isText) then
    [adiag .warning "unnecessary-scaling-lock" [v.value.span]] else []

/-- the converted quantity of an ingredient (`Linear` unless text or locked; the unit trimmed) -/
def c07v_ingrQuantity (env : Env) (q : Option (Loc (PQuantity α))) : Option (Quantity (ScalableValue α)) :=
  q.map fun q => ⟨mkScalable true q.val.value.lock.isSome q.val.value.value.val,
    q.val.unit.map (fun t => t.trimmed env.cs)⟩

/-- the converted amount of a cookware item (always `Fixed`) -/
def c07v_cwQuantity (q : Option (Loc (PQValue α))) : Option (ScalableValue α) :=
  q.map fun q => .fixed q.val.value.val

/-- the lock warning of an ingredient's quantity -/
def c07v_ingrLockDiags (q : Option (Loc (PQuantity α))) : List Diag :=
  match q with
  | some q => c07v_lockDiags q.val.value true
  | none => []

/-- the lock warning of a cookware item's amount -/
def c07v_cwLockDiags (q : Option (Loc (PQValue α))) : List Diag :=
  match q with
  | some q => c07v_lockDiags q.val false
  | none => []

theorem c07v_valueOf_exact (env : Env) (v : PQValue α) (b : Bool) (s : Col α) :
    (valueOf env v b s).2.diags.toList = s.diags.toList ++ c07v_lockDiags v b ∧
    (valueOf env v b s).2 = { s with diags := (valueOf env v b s).2.diags } := by
  rw [valueOf_run]
  unfold c07v_lockDiags
  split <;> simp

theorem c07v_optQuantityOf_exact (env : Env) (q : Option (Loc (PQuantity α))) (s : Col α) :
    (optQuantityOf env q true s).2.diags.toList = s.diags.toList ++ c07v_ingrLockDiags q ∧
    (optQuantityOf env q true s).2 = { s with diags := (optQuantityOf env q true s).2.diags } ∧
    (optQuantityOf env q true s).1 = c07v_ingrQuantity env q := by
  unfold optQuantityOf c07v_ingrLockDiags c07v_ingrQuantity
  cases q with
  | none => simp [A_pure]
  | some q =>
    have h2 : (quantityOf env q true s).2 = (valueOf env q.val.value true s).2 := by
      unfold quantityOf; simp only [A_bind, A_pure]
    have h1 : (quantityOf env q true s).1 =
        ⟨(valueOf env q.val.value true s).1, q.val.unit.map (fun t => t.trimmed env.cs)⟩ := by
      unfold quantityOf; simp only [A_bind, A_pure]
    simp only [A_bind, A_pure, Option.map_some, h1, h2, scm_valueOf_eq]
    exact ⟨(c07v_valueOf_exact env q.val.value true s).1, (c07v_valueOf_exact env q.val.value true s).2, trivial⟩

theorem c07v_optValueOf_exact (env : Env) (q : Option (Loc (PQValue α))) (s : Col α) :
    (optValueOf env q s).2.diags.toList = s.diags.toList ++ c07v_cwLockDiags q ∧
    (optValueOf env q s).2 = { s with diags := (optValueOf env q s).2.diags } ∧
    (optValueOf env q s).1 = c07v_cwQuantity q := by
  unfold optValueOf c07v_cwLockDiags c07v_cwQuantity
  cases q with
  | none => simp [A_pure]
  | some q =>
    simp only [A_bind, A_pure, Option.map_some, scm_valueOf_eq, scm_mkScalable_not_ingredient]
    exact ⟨(c07v_valueOf_exact env q.val false s).1, (c07v_valueOf_exact env q.val false s).2, trivial⟩

/-! ### the pure result of `resolve_reference` -/

/-- what `resolve_reference` returns (the modifiers to store and the reference target, if any), as a function
    of its arguments and of the two modes of the collector -/
def c07v_refResult (env : Env) (inherit : Nat) (existing : List (Str × Modifiers)) (name : Str) (mods : Modifiers)
    (dm : DefineMode) (dup : DuplicateMode) : Modifiers × Option RefOutcome :=
  if mods.contains Modifiers.NEW then (mods, none)
  else if mods.contains Modifiers.REF || dm == .steps ||
      (dup == .reference && (sameNameIdx env existing name).isSome) then
    (match sameNameIdx env existing name with
     | some refTo =>
       (⟨mods.bits ||| ((((existing[refTo]?).map (·.2)).getD Modifiers.empty).bits &&& inherit) ||| Modifiers.REF⟩,
        some ⟨refTo, !mods.contains Modifiers.REF⟩)
     | none => (mods, none))
  else (mods, none)

theorem c07v_resolveReferenceCB_val (cbOf : Nat → Nat) (env : Env) (container : String) (inherit : Nat)
    (existing : List (Str × Modifiers)) (name : Str) (mods : Modifiers) (location modLoc : Span) (s : Col α) :
    (resolveReferenceCB cbOf env container inherit existing name mods location modLoc s).1 =
      c07v_refResult env inherit existing name mods s.defineMode s.duplicateMode := by
  unfold resolveReferenceCB c07v_refResult
  simp +instances only [A_bind, A_pure, A_get, A_ite, aerr, awarn, A_modify]
  cases hn : mods.contains Modifiers.NEW <;> cases hr : mods.contains Modifiers.REF <;>
    cases hsn : sameNameIdx env existing name <;>
    simp only [Bool.false_and, Bool.true_and, Bool.and_true, Bool.and_false, Bool.false_eq_true, if_false, if_true,
      Bool.true_or, Bool.false_or, Bool.not_true, Bool.not_false, Option.isSome_none, Option.isSome_some,
      Option.isNone_none, Option.isNone_some, Bool.or_false, Bool.or_true] <;>
    (repeat' split) <;> first | rfl | simp_all

/-- `resolve_reference` returns exactly `c07v_refResult` -/
theorem c07v_resolveReference_val (env : Env) (container : String) (inherit : Nat)
    (existing : List (Str × Modifiers)) (name : Str) (mods : Modifiers) (location modLoc : Span) (s : Col α) :
    (resolveReference env container inherit existing name mods location modLoc s).1 =
      c07v_refResult env inherit existing name mods s.defineMode s.duplicateMode := by
  rw [c07a_resolveReference_eq_CB]
  exact c07v_resolveReferenceCB_val _ env container inherit existing name mods location modLoc s

/-- the target is `some` exactly when the component is not `+`, is treated as a reference and the name is found -/
theorem c07v_refResult_some_iff (env : Env) (inherit : Nat) (existing : List (Str × Modifiers)) (name : Str)
    (mods : Modifiers) (dm : DefineMode) (dup : DuplicateMode) (o : RefOutcome) :
    (c07v_refResult env inherit existing name mods dm dup).2 = some o ↔
      (mods.contains Modifiers.NEW = false ∧
       (mods.contains Modifiers.REF = true ∨ dm = .steps ∨ dup = .reference) ∧
       sameNameIdx env existing name = some o.refTo ∧ o.implicit = !mods.contains Modifiers.REF) := by
  unfold c07v_refResult
  obtain ⟨rt, im⟩ := o
  cases hsn : sameNameIdx env existing name <;>
    cases hn : mods.contains Modifiers.NEW <;> cases hr : mods.contains Modifiers.REF <;>
    cases dm <;> cases dup <;> simp <;> (try constructor) <;> (try rintro ⟨rfl, rfl⟩) <;> simp_all

theorem c07v_refResult_none_of_notfound (env : Env) (inherit : Nat) (existing : List (Str × Modifiers)) (name : Str)
    (mods : Modifiers) (dm : DefineMode) (dup : DuplicateMode) (h : sameNameIdx env existing name = none) :
    (c07v_refResult env inherit existing name mods dm dup).2 = none := by
  unfold c07v_refResult
  simp only [h]
  split
  · rfl
  · split <;> rfl

/-! ### the intermediate-reference branch -/

/-- what `ingrInterChecks` pushes: the modifiers `@`, `-`, `+` are not allowed on `&(…)` -/
def c07v_interCheckDiags (i : PIngredient α) (mods : Modifiers) : List Diag :=
  if (mods.bits &&& (Modifiers.RECIPE ||| Modifiers.HIDDEN ||| Modifiers.NEW)) != 0 then
    [adiag .error "inter-ref-conflicting-modifiers" [i.modifiers.span]] else []

theorem c07v_apanic_frame (site : String) (s : Col α) :
    (apanic (α := α) site s).2 = { s with panic := (apanic (α := α) site s).2.panic } ∧
    (apanic (α := α) site s).2.diags = s.diags := by
  unfold apanic; rw [A_modify]; split <;> simp

theorem c07v_ingrInterChecks_exact (i : PIngredient α) (igr : Ingredient (ScalableValue α)) (s : Col α) :
    (ingrInterChecks i igr s).2.diags.toList = s.diags.toList ++ c07v_interCheckDiags i igr.modifiers ∧
    (ingrInterChecks i igr s).2.cur = s.cur ∧ (ingrInterChecks i igr s).2.sections = s.sections := by
  unfold ingrInterChecks c07v_interCheckDiags
  obtain ⟨p1, p2⟩ := c07v_apanic_frame (α := α) "intermediate data without REF" s
  cases hr : igr.modifiers.contains Modifiers.REF <;>
    cases hb : ((igr.modifiers.bits &&& (Modifiers.RECIPE ||| Modifiers.HIDDEN ||| Modifiers.NEW)) != 0) <;>
    simp +instances only [A_bind, A_pure, A_ite, aerr, A_modify, hr, hb, Bool.not_false, Bool.not_true,
      Bool.false_eq_true, if_false, if_true, p2, List.append_nil, Array.toList_push] <;>
    (try rw [p1]) <;> simp [adiag]

/-- `resolve_intermediate_ref` appends exactly `interRefDiags`, for EVERY value (a negative value only sets the
    panic flag first) -/
theorem c07v_resolveInterRef_diags (d : Loc InterData) (s : Col α) :
    (resolveInterRef d s).2.diags.toList = s.diags.toList ++ interRefDiags s.cur.content s.sections.length d := by
  unfold resolveInterRef interRefDiags
  obtain ⟨p1, p2⟩ := c07v_apanic_frame (α := α) "resolve_intermediate_ref: negative value" s
  have pc : (apanic (α := α) "resolve_intermediate_ref: negative value" s).2.cur = s.cur := by rw [p1]
  have ps : (apanic (α := α) "resolve_intermediate_ref: negative value" s).2.sections = s.sections := by rw [p1]
  by_cases hv : d.val.val < 0 <;>
    cases h : interRefTarget s.cur.content s.sections.length d.val <;>
    simp +instances only [A_bind, A_pure, A_get, A_ite, aerr, A_modify, h, hv, if_false, if_true, p2,
      List.append_nil, Array.toList_push, adiag]

/-- the intermediate-reference branch appends the modifier check, then `interRefDiags` -/
theorem c07v_ingrInter_exact (i : PIngredient α) (igr : Ingredient (ScalableValue α)) (d : Loc InterData) (s : Col α) :
    (ingrInter i igr d s).2.diags.toList =
      s.diags.toList ++ (c07v_interCheckDiags i igr.modifiers ++ interRefDiags s.cur.content s.sections.length d) := by
  unfold ingrInter
  obtain ⟨k1, k2, k3⟩ := c07v_ingrInterChecks_exact i igr s
  simp only [A_bind]
  cases (resolveInterRef d (ingrInterChecks i igr s).2).1 <;>
    simp only [A_pure] <;>
    rw [c07v_resolveInterRef_diags, k1, k2, k3, List.append_assoc]

end Cook
