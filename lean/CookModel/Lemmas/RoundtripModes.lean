import CookModel.Lemmas.RoundtripRefsX
/-
  C01, analysis layer for mode switches: a region written in components mode (`>> [mode]: components`,
  steps that only define components, `>> [mode]: all`) puts its components into the tables with
  `defined_in_step = false`; nothing of it enters a section, the step counter does not move, the switches
  are not metadata entries (no deprecation label).  (`rtm_` prefix.)
-/
set_option linter.unusedSectionVars false
set_option linter.unusedSimpArgs false
set_option linter.unusedVariables false
namespace Cook
variable {α : Type} [Arith α]

/-- `>> [mode]: components` (or `[define]`, `ingredients`) under MODES -/
structure ModeOn (env : Env) (k v : Text) : Prop where
  modes : env.ext.has Gen.EXT_MODES = true
  key : k.trimmed env.cs = "[mode]".toList ∨ k.trimmed env.cs = "[define]".toList
  value : v.outerTrimmed env.cs = "components".toList ∨ v.outerTrimmed env.cs = "ingredients".toList

/-- `>> [mode]: all` (or `[define]`, `default`) under MODES -/
structure ModeOff (env : Env) (k v : Text) : Prop where
  modes : env.ext.has Gen.EXT_MODES = true
  key : k.trimmed env.cs = "[mode]".toList ∨ k.trimmed env.cs = "[define]".toList
  value : v.outerTrimmed env.cs = "all".toList ∨ v.outerTrimmed env.cs = "default".toList

theorem rtm_modeOn (env : Env) (k v : Text) (s : Col α) (h : ModeOn env k v) :
    (metadataA env k v s).2 = { s with defineMode := .components } := by
  obtain ⟨hm, hk, hv⟩ := h
  unfold metadataA
  rcases hk with hk | hk <;> rcases hv with hv | hv <;>
    simp [bind, StateT.bind, get, getThe, MonadStateOf.get, StateT.get, pure, StateT.pure, hm, hk, hv, modify, modifyGet,
      MonadStateOf.modifyGet, StateT.modifyGet] <;> rfl

theorem rtm_modeOff (env : Env) (k v : Text) (s : Col α) (h : ModeOff env k v) :
    (metadataA env k v s).2 = { s with defineMode := .all } := by
  obtain ⟨hm, hk, hv⟩ := h
  unfold metadataA
  rcases hk with hk | hk <;> rcases hv with hv | hv <;>
    simp [bind, StateT.bind, get, getThe, MonadStateOf.get, StateT.get, pure, StateT.pure, hm, hk, hv, modify, modifyGet,
      MonadStateOf.modifyGet, StateT.modifyGet] <;> rfl

/-! ### the collector in components mode -/

theorem rtm_resolveReference (env : Env) (container : String) (inherit : Nat) (existing : List (Str × Modifiers))
    (name : Str) (mods : Modifiers) (loc modLoc : Span) (s : Col α) (hm : plainMods mods)
    (hd : s.defineMode = .components) (hdup : s.duplicateMode = .new) :
    resolveReference env container inherit existing name mods loc modLoc s = ((mods, none), s) := by
  unfold resolveReference
  obtain ⟨h1, h2⟩ := hm
  simp [bind, pure, StateT.bind, StateT.pure, get, getThe, MonadStateOf.get, StateT.get, h1, h2, hd, hdup]

/-- a component defined in components mode: as written, `defined_in_step = false` -/
def ingrOfC (env : Env) (li : Loc (PIngredient α)) : Ingredient (ScalableValue α) :=
  { ingrOf env li with relation := ⟨.definition [] false, none⟩ }
def cwOfC (env : Env) (lc : Loc (PCookware α)) : Cookware (ScalableValue α) :=
  { cwOf env lc with relation := .definition [] false }

theorem rtm_ingredientA (env : Env) (input : Str) (li : Loc (PIngredient α)) (s : Col α) (h : IngrSimple li)
    (hd : s.defineMode = .components) (hdup : s.duplicateMode = .new) :
    ingredientA env input li s =
      (s.ingredients.size, { s with locIngr := s.locIngr.push li, ingredients := s.ingredients.push (ingrOfC env li) }) := by
  unfold ingredientA
  simp only [bind, StateT.bind, rta_optQuantityOf env _ true s h.lock, get, getThe, MonadStateOf.get, StateT.get, pure,
    StateT.pure, hd]
  unfold ingrBuild
  simp only [h.inter, bind, StateT.bind]
  unfold ingrRegular
  simp only [bind, StateT.bind, get, getThe, MonadStateOf.get, StateT.get, pure, StateT.pure,
    rtm_resolveReference env _ _ _ _ _ _ _ s h.mods hd hdup, modify, modifyGet, MonadStateOf.modifyGet,
    StateT.modifyGet, Array.size_push, Nat.add_sub_cancel]
  have hne : (DefineMode.components != DefineMode.components) = false := by decide
  simp only [ingrOfC, ingrOf, hne, hd]
  rfl

theorem rtm_cookwareA (env : Env) (input : Str) (lc : Loc (PCookware α)) (s : Col α) (h : CwSimple lc)
    (hd : s.defineMode = .components) (hdup : s.duplicateMode = .new) :
    cookwareA env input lc s =
      (s.cookware.size, { s with locCw := s.locCw.push lc, cookware := s.cookware.push (cwOfC env lc) }) := by
  unfold cookwareA
  simp only [bind, StateT.bind, rta_optValueOf env _ s h.lock, get, getThe, MonadStateOf.get, StateT.get, pure,
    StateT.pure, hd]
  unfold cwBuild
  simp only [bind, StateT.bind]
  unfold cwResolve
  simp only [bind, StateT.bind, get, getThe, MonadStateOf.get, StateT.get, pure, StateT.pure,
    rtm_resolveReference env _ _ _ _ _ _ _ s h.mods hd hdup, modify, modifyGet, MonadStateOf.modifyGet,
    StateT.modifyGet, Array.size_push, Nat.add_sub_cancel]
  have hne : (DefineMode.components != DefineMode.components) = false := by decide
  simp only [cwOfC, cwOf, hne, hd]

theorem rtm_proc_ingredient (env : Env) (input : Str) (li : Loc (PIngredient α)) (s : Col α) (items : List Item)
    (h : IngrSimple li) (hd : s.defineMode = .components) (hdup : s.duplicateMode = .new)
    (hb : s.block = some (.step items)) :
    (processEvent env input (.ingredient li) s).2 =
      { s with locIngr := s.locIngr.push li, ingredients := s.ingredients.push (ingrOfC env li),
               block := some (.step (items ++ [.ingredient s.ingredients.size])) } := by
  have e : processEvent env input (.ingredient li) s = inBlockComponent env input (.ingredient li) s := rfl
  rw [e, rta_inBlock_step env input _ s items hb]
  simp only [inStepComponent, bind, StateT.bind, rtm_ingredientA env input li s h hd hdup]
  rw [rta_pushItem _ { s with locIngr := s.locIngr.push li, ingredients := s.ingredients.push (ingrOfC env li) } items hb]

theorem rtm_proc_cookware (env : Env) (input : Str) (lc : Loc (PCookware α)) (s : Col α) (items : List Item)
    (h : CwSimple lc) (hd : s.defineMode = .components) (hdup : s.duplicateMode = .new)
    (hb : s.block = some (.step items)) :
    (processEvent env input (.cookware lc) s).2 =
      { s with locCw := s.locCw.push lc, cookware := s.cookware.push (cwOfC env lc),
               block := some (.step (items ++ [.cookware s.cookware.size])) } := by
  have e : processEvent env input (.cookware lc) s = inBlockComponent env input (.cookware lc) s := rfl
  rw [e, rta_inBlock_step env input _ s items hb]
  simp only [inStepComponent, bind, StateT.bind, rtm_cookwareA env input lc s h hd hdup]
  rw [rta_pushItem _ { s with locCw := s.locCw.push lc, cookware := s.cookware.push (cwOfC env lc) } items hb]

/-- a text inside a step in components mode is dropped; without a letter or digit nothing is reported -/
theorem rtm_proc_text (env : Env) (input : Str) (t : Text) (s : Col α) (items : List Item)
    (hal : t.text.any env.cs.alnum = false) (hd : s.defineMode = .components) (hb : s.block = some (.step items)) :
    (processEvent env input (.text t) s).2 = s := by
  have e : processEvent env input (.text t) s = inStepText env t s := rfl
  rw [e]
  unfold inStepText
  simp only [bind, StateT.bind, get, getThe, MonadStateOf.get, StateT.get, pure, StateT.pure, hb]
  unfold inStepTextStep
  simp [bind, StateT.bind, get, getThe, MonadStateOf.get, StateT.get, pure, StateT.pure, hd, hal]

/-- an item of a step written in components mode: a plain definition; a text without letter or digit
    (it is dropped; with one it raises `text-in-components-mode`) -/
def SItem.CompOK (env : Env) : SItem α → Prop
  | .text t => t.text.any env.cs.alnum = false
  | .ingredient i => IngrSimple i
  | .cookware c => CwSimple c
  | .timer t => TimerSimple t ∧ TimerAdvOK env t

/-- components mode, duplicates new -/
def CompBase (base : Col α) : Prop := base.defineMode = .components ∧ base.duplicateMode = .new

theorem rtm_fit_push (env : Env) (before : List (SItem α)) (T : XTbls α) (h : TblsFit before T) (it : SItem α) :
    TblsFit (before ++ [it]) (xCPush T (it.x env)) := by
  obtain ⟨h1, h2⟩ := h
  cases it <;> simp [TblsFit, SItem.x, xCPush, ingrsOf, cwsOf, SItem.ingr?, SItem.cw?, h1, h2]

theorem rtm_item (env : Env) (input : Str) (base : Col α) (hb : CompBase base) (it : SItem α)
    (before : List (SItem α)) (T : XTbls α) (content : List Content) (n : Nat) (h : it.CompOK env) (items : List Item) :
    ∃ items', (processEvent env input it.ev (stOfT base before T content n (some (.step items)))).2 =
      stOfT base (before ++ [it]) (xCPush T (it.x env)) content n (some (.step items')) := by
  have hd : (stOfT base before T content n (some (.step items))).defineMode = .components := hb.1
  have hdup : (stOfT base before T content n (some (.step items))).duplicateMode = .new := hb.2
  cases it with
  | text t =>
    refine ⟨items, ?_⟩
    rw [SItem.ev, rtm_proc_text env input t _ items h hd rfl]
    simp [stOfT, SItem.x, xCPush, ingrsOf, cwsOf, SItem.ingr?, SItem.cw?, List.filterMap]
  | ingredient li =>
    refine ⟨items ++ [.ingredient T.ing.size], ?_⟩
    rw [SItem.ev, rtm_proc_ingredient env input li _ items h hd hdup rfl]
    simp [stOfT, SItem.x, xCPush, ingrOfC, ingrsOf, cwsOf, SItem.ingr?, SItem.cw?, List.filterMap]
  | cookware lc =>
    refine ⟨items ++ [.cookware T.cw.size], ?_⟩
    rw [SItem.ev, rtm_proc_cookware env input lc _ items h hd hdup rfl]
    simp [stOfT, SItem.x, xCPush, cwOfC, ingrsOf, cwsOf, SItem.ingr?, SItem.cw?, List.filterMap]
  | timer lt =>
    refine ⟨items ++ [.timer T.tm.size], ?_⟩
    rw [SItem.ev, rts_proc_timer env input lt _ items h.1 h.2 rfl]
    simp [stOfT, SItem.x, xCPush, ingrsOf, cwsOf, SItem.ingr?, SItem.cw?, List.filterMap]

theorem rtm_loop_items (env : Env) (input : Str) (base : Col α) (hb : CompBase base) (rest : List (Ev α))
    (content : List Content) (n : Nat) :
    ∀ (st : List (SItem α)) (before : List (SItem α)) (T : XTbls α), TblsFit before T → (∀ it ∈ st, it.CompOK env) →
      ∀ (items : List Item), ∃ items',
      parseEventsLoop env input (st.map SItem.ev ++ rest) (stOfT base before T content n (some (.step items))) =
        parseEventsLoop env input rest
          (stOfT base (before ++ st) (xCTbls T (st.map (SItem.x env))) content n (some (.step items'))) ∧
      TblsFit (before ++ st) (xCTbls T (st.map (SItem.x env))) := by
  intro st
  induction st with
  | nil => intro before T hfit _ items; exact ⟨items, by simp [xCTbls], by simpa [xCTbls] using hfit⟩
  | cons it r ih =>
    intro before T hfit hs items
    obtain ⟨items1, h1⟩ := rtm_item env input base hb it before T content n (hs it (by simp)) items
    obtain ⟨items2, i1, i2⟩ := ih (before ++ [it]) (xCPush T (it.x env)) (rtm_fit_push env before T hfit it)
      (fun x hx => hs x (by simp [hx])) items1
    refine ⟨items2, ?_, by simpa [xCTbls, List.append_assoc] using i2⟩
    rw [List.map_cons, List.cons_append, parseEventsLoop_cons_nonerror env input _ _ _ (rta_ev_not_error it), h1, i1]
    simp [xCTbls, List.append_assoc]

theorem rtm_start (env : Env) (input : Str) (base : Col α) (hb : CompBase base) (before : List (SItem α)) (T : XTbls α)
    (content : List Content) (n : Nat) :
    (processEvent env input (.start .step) (stOfT base before T content n none)).2 =
      stOfT base before T content n (some (.step [])) := by
  simp [processEvent, modify, modifyGet, MonadStateOf.modifyGet, StateT.modifyGet, stOfT, pure, StateT.pure, hb.1]

/-- the end of a step in components mode: the step is NOT pushed, the counter does not move -/
theorem rtm_stop (env : Env) (input : Str) (base : Col α) (hb : CompBase base) (before : List (SItem α)) (T : XTbls α)
    (content : List Content) (n : Nat) (items : List Item) :
    (processEvent env input (.stop .step) (stOfT base before T content n (some (.step items)))).2 =
      stOfT base before T content n none := by
  simp [processEvent, endBlock, endBlockContent, pushContent, Content.isStep, bind,
    StateT.bind, get, getThe, MonadStateOf.get, StateT.get, pure, StateT.pure, modify, modifyGet,
    MonadStateOf.modifyGet, StateT.modifyGet, stOfT, hb.1]

theorem rtm_loop_steps (env : Env) (input : Str) (base : Col α) (hb : CompBase base) (rest : List (Ev α))
    (content : List Content) (n : Nat) :
    ∀ (defs : List (List (SItem α))) (before : List (SItem α)) (T : XTbls α), TblsFit before T →
      (∀ st ∈ defs, ∀ it ∈ st, it.CompOK env) →
      parseEventsLoop env input (defs.flatMap stepEvents ++ rest) (stOfT base before T content n none) =
        parseEventsLoop env input rest
          (stOfT base (before ++ defs.flatten) (xCTbls T (defs.flatten.map (SItem.x env))) content n none) ∧
      TblsFit (before ++ defs.flatten) (xCTbls T (defs.flatten.map (SItem.x env))) := by
  intro defs
  induction defs with
  | nil => intro before T hfit _; exact ⟨by simp [xCTbls], by simpa [xCTbls] using hfit⟩
  | cons st r ih =>
    intro before T hfit hs
    have e : (st :: r).flatMap stepEvents ++ rest =
        Ev.start .step :: (st.map SItem.ev ++ (Ev.stop .step :: (r.flatMap stepEvents ++ rest))) := by
      simp [stepEvents, List.flatMap_cons]
    obtain ⟨items', l1, l2⟩ := rtm_loop_items env input base hb (Ev.stop .step :: (r.flatMap stepEvents ++ rest)) content n
      st before T hfit (hs st (by simp)) []
    obtain ⟨i1, i2⟩ := ih (before ++ st) _ l2 (fun x hx => hs x (by simp [hx]))
    refine ⟨?_, by simpa [xCTbls, List.append_assoc] using i2⟩
    rw [e, parseEventsLoop_cons_nonerror env input _ _ _ (by rintro ⟨d, h⟩; cases h), rtm_start env input base hb, l1,
      parseEventsLoop_cons_nonerror env input _ _ _ (by rintro ⟨d, h⟩; cases h), rtm_stop env input base hb, i1]
    simp [xCTbls, List.append_assoc]

/-- the events of a components-mode region -/
def compsEvents (kOn vOn : Text) (defs : List (List (SItem α))) (kOff vOff : Text) : List (Ev α) :=
  [.metadata kOn vOn] ++ defs.flatMap stepEvents ++ [.metadata kOff vOff]

/-- **A components-mode region.**  From the default modes: `>> [mode]: components`, steps whose items are
    plain definitions (and texts without letter or digit), `>> [mode]: all`.  The collector ends in the
    default modes again with the components appended to the tables (`xCTbls`: as written, with
    `defined_in_step = false`); the current section, its content, the step counter, the finished sections, the
    `>>` map, the list of deprecation labels and the diagnostics are UNCHANGED. -/
theorem rtm_region (env : Env) (input : Str) (base : Col α) (hb : BaseOK base) (rest : List (Ev α))
    (kOn vOn kOff vOff : Text) (hon : ModeOn env kOn vOn) (hoff : ModeOff env kOff vOff)
    (defs : List (List (SItem α))) (hs : ∀ st ∈ defs, ∀ it ∈ st, it.CompOK env)
    (before : List (SItem α)) (T : XTbls α) (hfit : TblsFit before T) (content : List Content) (n : Nat) :
    parseEventsLoop env input (compsEvents kOn vOn defs kOff vOff ++ rest) (stOfT base before T content n none) =
      parseEventsLoop env input rest
        (stOfT base (before ++ defs.flatten) (xCTbls T (defs.flatten.map (SItem.x env))) content n none) ∧
    TblsFit (before ++ defs.flatten) (xCTbls T (defs.flatten.map (SItem.x env))) := by
  have hbC : CompBase ({ base with defineMode := .components } : Col α) := ⟨rfl, hb.2⟩
  obtain ⟨i1, i2⟩ := rtm_loop_steps env input _ hbC (Ev.metadata kOff vOff :: rest) content n defs before T hfit hs
  refine ⟨?_, i2⟩
  have e : compsEvents kOn vOn defs kOff vOff ++ rest =
      Ev.metadata kOn vOn :: (defs.flatMap stepEvents ++ (Ev.metadata kOff vOff :: rest)) := by
    simp [compsEvents]
  have hon' : (processEvent env input (.metadata kOn vOn) (stOfT base before T content n none)).2 =
      stOfT ({ base with defineMode := .components } : Col α) before T content n none := by
    have e1 : processEvent env input (.metadata kOn vOn) (stOfT base before T content n none) =
        metadataA env kOn vOn (stOfT base before T content n none) := rfl
    rw [e1, rtm_modeOn env kOn vOn _ hon]
    rfl
  have hbase : ({ ({ base with defineMode := .components } : Col α) with defineMode := .all } : Col α) = base := by
    have := hb.1
    cases base
    simp_all
  have hoff' : ∀ bf TT, (processEvent env input (.metadata kOff vOff)
      (stOfT ({ base with defineMode := .components } : Col α) bf TT content n none)).2 = stOfT base bf TT content n none := by
    intro bf TT
    have e1 : processEvent env input (.metadata kOff vOff)
        (stOfT ({ base with defineMode := .components } : Col α) bf TT content n none) =
        metadataA env kOff vOff (stOfT ({ base with defineMode := .components } : Col α) bf TT content n none) := rfl
    rw [e1, rtm_modeOff env kOff vOff _ hoff]
    have : stOfT base bf TT content n none =
        stOfT ({ ({ base with defineMode := .components } : Col α) with defineMode := .all } : Col α) bf TT content n none := by
      rw [hbase]
    rw [this]
    rfl
  rw [e, parseEventsLoop_cons_nonerror env input _ _ _ (by rintro ⟨d, h⟩; cases h), hon', i1,
    parseEventsLoop_cons_nonerror env input _ _ _ (by rintro ⟨d, h⟩; cases h), hoff']
/-! ### documents with components-mode regions -/

/-- a block of a document that may switch to components mode and back -/
inductive MBlock (α : Type) where
  | plain (b : SBlock α)
  | comps (kOn vOn : Text) (defs : List (List (SItem α))) (kOff vOff : Text)

def MBlock.events : MBlock α → List (Ev α)
  | .plain b => b.events
  | .comps kOn vOn defs kOff vOff => compsEvents kOn vOn defs kOff vOff

def MBlock.x (env : Env) : MBlock α → XBlock α
  | .plain b => b.x env
  | .comps _ _ defs _ _ => .comps (defs.flatten.map (SItem.x env))

def MBlock.SideOK (env : Env) : MBlock α → Prop
  | .plain b => b.SideOK env
  | .comps kOn vOn defs kOff vOff =>
    ModeOn env kOn vOn ∧ ModeOff env kOff vOff ∧ ∀ st ∈ defs, ∀ it ∈ st, it.CompOK env

/-- the `>>` entries that are metadata (mode switches are not) -/
def mEntries : List (MBlock α) → List (Text × Text)
  | [] => []
  | .plain (.entry k v) :: r => (k, v) :: mEntries r
  | _ :: r => mEntries r

structure DocResultM (env : Env) (base : Col α) (T : XTbls α) (content : List Content) (n : Nat)
    (xs : List (XBlock α)) (es : List (Text × Text)) (c : Col α) : Prop where
  sections : c.sections = (xRun env T base.sections ⟨base.cur.name, content⟩ n base.metaMap xs).secs
  ingredients : c.ingredients = (xRun env T base.sections ⟨base.cur.name, content⟩ n base.metaMap xs).T.ing
  cookware : c.cookware = (xRun env T base.sections ⟨base.cur.name, content⟩ n base.metaMap xs).T.cw
  timers : c.timers = (xRun env T base.sections ⟨base.cur.name, content⟩ n base.metaMap xs).T.tm
  metaMap : c.metaMap = (xRun env T base.sections ⟨base.cur.name, content⟩ n base.metaMap xs).metaMap
  used : c.oldStyleUsed = base.oldStyleUsed ++ docSpans es
  diags : c.diags = base.diags ++ deprecation (base.oldStyleUsed ++ docSpans es)
  inlineQ : c.inlineQ = base.inlineQ
  frontMatter : c.frontMatter = base.frontMatter

theorem rtm_loop_mdoc (env : Env) (input : Str) :
    ∀ (blocks : List (MBlock α)), (∀ b ∈ blocks, b.SideOK env) →
      ∀ (base : Col α), BaseOK base → ∀ (before : List (SItem α)) (T : XTbls α), TblsFit before T →
      ∀ (content : List Content) (n : Nat),
      xOK env T base.sections ⟨base.cur.name, content⟩ n (blocks.map (MBlock.x env)) →
      ∃ c : Col α,
        parseEventsLoop env input (blocks.flatMap MBlock.events) (stOfT base before T content n none) =
          ⟨some c, c.diags, base.panic⟩ ∧
        DocResultM env base T content n (blocks.map (MBlock.x env)) (mEntries blocks) c := by
  intro blocks
  induction blocks with
  | nil =>
    intro _ base _ before T _ content n _
    obtain ⟨c, h1, h2⟩ := rtax_final env input base before T content n
    obtain ⟨a1, a2, a3, a4, a5, a6, a7, a8, a9⟩ := h2
    exact ⟨c, h1, ⟨a1, a2, a3, a4, a5, a6, a7, a8, a9⟩⟩
  | cons mb r ih =>
    intro hside base hb before T hfit content n hok
    have hr : ∀ x ∈ r, x.SideOK env := fun x hx => hside x (by simp [hx])
    have hb0 := hside mb (by simp)
    cases mb with
    | comps kOn vOn defs kOff vOff =>
      obtain ⟨hon, hoff, hdefs⟩ := hb0
      simp only [List.map_cons, MBlock.x, xOK] at hok
      obtain ⟨l1, l2⟩ := rtm_region env input base hb (r.flatMap MBlock.events) kOn vOn kOff vOff hon hoff defs hdefs before T
        hfit content n
      obtain ⟨c, h1, h2⟩ := ih hr base hb (before ++ defs.flatten) _ l2 content n hok
      refine ⟨c, ?_, ?_⟩
      · rw [List.flatMap_cons, MBlock.events, l1, h1]
      · obtain ⟨a1, a2, a3, a4, a5, a6, a7, a8, a9⟩ := h2
        exact ⟨by rw [a1]; rfl, by rw [a2]; rfl, by rw [a3]; rfl, by rw [a4]; rfl, by rw [a5]; rfl,
          by rw [a6]; rfl, by rw [a7]; rfl, a8, a9⟩
    | plain b =>
      cases b with
      | step st =>
        simp only [List.map_cons, MBlock.x, SBlock.x, xOK] at hok
        obtain ⟨hs, hne, hrest⟩ := hok
        have hne' : st ≠ [] := by simpa using hne
        obtain ⟨l1, l2⟩ := rtax_loop_step env input base hb (r.flatMap MBlock.events) st before T hfit hb0 content n hs hne'
        obtain ⟨c, h1, h2⟩ := ih hr base hb (before ++ st) _ l2 _ (n + 1) hrest
        refine ⟨c, ?_, ?_⟩
        · rw [List.flatMap_cons, MBlock.events, SBlock.events, l1, h1]
        · obtain ⟨a1, a2, a3, a4, a5, a6, a7, a8, a9⟩ := h2
          exact ⟨by rw [a1]; rfl, by rw [a2]; rfl, by rw [a3]; rfl, by rw [a4]; rfl, by rw [a5]; rfl,
            by rw [a6]; rfl, by rw [a7]; rfl, a8, a9⟩
      | sect name =>
        simp only [List.map_cons, MBlock.x, SBlock.x, xOK] at hok
        obtain ⟨c, h1, h2⟩ := ih hr
          { base with sections := base.sections ++ (if (Section.isEmpty ⟨base.cur.name, content⟩) then [] else
                                    [⟨base.cur.name, content⟩]),
                      cur := ⟨name.map (·.trimmed env.cs), []⟩ } hb before T hfit [] 1 hok
        refine ⟨c, ?_, ?_⟩
        · rw [List.flatMap_cons, MBlock.events, SBlock.events, List.singleton_append,
            parseEventsLoop_cons_nonerror env input _ _ _ (by rintro ⟨d, h⟩; cases h), rtax_section, h1]
        · obtain ⟨a1, a2, a3, a4, a5, a6, a7, a8, a9⟩ := h2
          exact ⟨by rw [a1]; rfl, by rw [a2]; rfl, by rw [a3]; rfl, by rw [a4]; rfl, by rw [a5]; rfl,
            by rw [a6]; rfl, by rw [a7]; rfl, a8, a9⟩
      | entry k v =>
        simp only [List.map_cons, MBlock.x, SBlock.x, xOK] at hok
        have hpanic : (entryEffect env k v base).panic = base.panic := by
          unfold entryEffect; cases StdKey.ofStr (String.ofList (k.trimmed env.cs)) <;> rfl
        have hsec : (entryEffect env k v base).sections = base.sections ∧ (entryEffect env k v base).cur = base.cur ∧
            (entryEffect env k v base).metaMap = metaInsert base.metaMap (k.trimmed env.cs) (v.outerTrimmed env.cs) ∧
            (entryEffect env k v base).oldStyleUsed = base.oldStyleUsed ++ [⟨k.span.start, v.span.stop⟩] ∧
            (entryEffect env k v base).diags = base.diags ∧ (entryEffect env k v base).inlineQ = base.inlineQ ∧
            (entryEffect env k v base).frontMatter = base.frontMatter := by
          unfold entryEffect; cases StdKey.ofStr (String.ofList (k.trimmed env.cs)) <;> exact ⟨rfl, rfl, rfl, rfl, rfl, rfl, rfl⟩
        obtain ⟨e1, e2, e3, e4, e5, e6, e7⟩ := hsec
        obtain ⟨c, h1, h2⟩ := ih hr (entryEffect env k v base) (rtsr_entryEffect_base env k v base hb) before T hfit content n
          (by rw [e1, e2]; exact hok)
        refine ⟨c, ?_, ?_⟩
        · rw [List.flatMap_cons, MBlock.events, SBlock.events, List.singleton_append,
            parseEventsLoop_cons_nonerror env input _ _ _ (by rintro ⟨d, h⟩; cases h), rtax_entry env input base k v hb0, h1,
            hpanic]
        · obtain ⟨a1, a2, a3, a4, a5, a6, a7, a8, a9⟩ := h2
          rw [e1, e2, e3] at a1 a2 a3 a4 a5
          refine ⟨by rw [a1]; rfl, by rw [a2]; rfl, by rw [a3]; rfl, by rw [a4]; rfl, by rw [a5]; rfl, ?_, ?_,
            by rw [a8, e6], by rw [a9, e7]⟩
          · rw [a6, e4]; simp [mEntries, docSpans]
          · rw [a7, e4, e5]; simp [mEntries, docSpans]
      | para ts =>
        simp only [List.map_cons, MBlock.x, SBlock.x, xOK] at hok
        obtain ⟨c, h1, h2⟩ := ih hr base hb before T hfit (content ++ xParaContent (ts.flatMap (·.text))) n hok
        refine ⟨c, ?_, ?_⟩
        · rw [List.flatMap_cons, MBlock.events, SBlock.events, rtax_para env input base hb _ ts, h1]
        · obtain ⟨a1, a2, a3, a4, a5, a6, a7, a8, a9⟩ := h2
          exact ⟨by rw [a1]; rfl, by rw [a2]; rfl, by rw [a3]; rfl, by rw [a4]; rfl, by rw [a5]; rfl,
            by rw [a6]; rfl, by rw [a7]; rfl, a8, a9⟩

/-- **analysis layer, documents with components-mode regions** -/
theorem rtm_parseEvents_mdoc (env : Env) (input : Str) (blocks : List (MBlock α)) (hside : ∀ b ∈ blocks, b.SideOK env)
    (hok : xOK env {} [] ⟨none, []⟩ 1 (blocks.map (MBlock.x env))) :
    ∃ c : Col α, parseEvents env input (blocks.flatMap MBlock.events) = ⟨some c, c.diags, none⟩ ∧
      c.sections = (xRun env {} [] ⟨none, []⟩ 1 [] (blocks.map (MBlock.x env))).secs ∧
      c.ingredients = (xRun env {} [] ⟨none, []⟩ 1 [] (blocks.map (MBlock.x env))).T.ing ∧
      c.cookware = (xRun env {} [] ⟨none, []⟩ 1 [] (blocks.map (MBlock.x env))).T.cw ∧
      c.timers = (xRun env {} [] ⟨none, []⟩ 1 [] (blocks.map (MBlock.x env))).T.tm ∧
      c.metaMap = (xRun env {} [] ⟨none, []⟩ 1 [] (blocks.map (MBlock.x env))).metaMap ∧
      c.diags = deprecation (docSpans (mEntries blocks)) ∧
      c.inlineQ = #[] ∧ c.frontMatter = none := by
  have h0 : ({} : Col α) = stOfT {} [] {} [] 1 none := by simp [stOfT, ingrsOf, cwsOf]
  obtain ⟨c, h1, h2⟩ := rtm_loop_mdoc env input blocks hside {} ⟨rfl, rfl⟩ [] {} ⟨rfl, rfl⟩ [] 1 hok
  refine ⟨c, ?_, h2.sections, h2.ingredients, h2.cookware, h2.timers, h2.metaMap, ?_, ?_, ?_⟩
  · unfold parseEvents; rw [h0, h1]
  · rw [h2.diags]; simp
  · rw [h2.inlineQ]
  · rw [h2.frontMatter]

end Cook
