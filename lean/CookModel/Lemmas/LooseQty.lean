import CookModel.Lemmas.LooseQtyText
/-
  C17, wave 5 (tag `bl17`): filler (block comments, blanks) inside the UNIT of a quantity written
  with `%` (`{1%big [- c -] cup}`), through `parse_quantity`.

  `QtyFiller qF q`: the quantity `qF` is the quantity `q` with filler inserted behind a blank of its
  unit.  The value part in front of the `%` is untouched, so `value` reads it exactly as before
  (`bl17_qvalue`: `rt_qvalue` only looks at the first token behind the value); the unit is the rest
  of the braces, assembled by `BlockParser::text` and read through `text_trimmed`
  (`bl17_leaf_text`).  With ADVANCED_UNITS the advanced form declines at once because a `%` is
  present.  (A comment in front of the unit of an ADVANCED quantity — `{1 [- c -]kg}`, no `%` — is
  NOT covered: there the real parser changes its reading, see notes/audit-C17.md, finding O5.)
-/
set_option linter.unusedSectionVars false
set_option linter.unusedSimpArgs false
set_option linter.unusedVariables false
namespace Cook

variable {α : Type} [Arith α]

/-- wave 10: `val` was `qF.val = q.val`; now also a text value with filler behind one of its blanks (`ValFiller`) -/
structure QtyFiller (qF q : AQty) : Prop where
  lock : qF.lock = q.lock
  val : ValFiller qF.val q.val
  unit : OptRel FillerIn qF.unit q.unit

theorem QtyFiller.refl (q : AQty) : QtyFiller q q :=
  ⟨rfl, ValFiller.same _, OptRel.refl_of (A := FillerIn) (fun l => .same l) _⟩

/-- `rt_qvalue` with any tokens `U` behind the value that start with a `%` (or nothing) -/
theorem bl17_qvalue (q : AQty) (p : QPad) (s : BP α) (hq : q.ok s.cs = true) (hp : p.ok s.cs = true)
    (hr : q.val.isRange = true → s.ext.has Gen.EXT_RANGE_VALUES = true)
    (L pre M post U : List Tok) (ht : s.toks = L ++ (pre ++ M ++ post) ++ U) (hc : s.cur = 0)
    (hL : Spells L (spellLock q.lock p)) (hpre : Spells pre p.v.pre) (hM : Spells M (spellCore q.val p.v))
    (hpost : Spells post p.v.post) (hUh : ∀ t, U.head? = some t → t.kind = .percent)
    (hrun : RunAt (baseOff s.toks) s.toks) :
    ∃ vspan lspan, qvalue s = (⟨⟨q.val.denote, vspan⟩, lspan⟩, { s with cur := (L ++ (pre ++ M ++ post)).length }) ∧
      lspan.isSome = q.lock := by
  simp only [AQty.ok, Bool.and_eq_true] at hq
  simp only [QPad.ok, Bool.and_eq_true] at hp
  obtain ⟨⟨⟨hpl0, hpv⟩, hpu0⟩, hpu1⟩ := hp
  obtain ⟨bpre, bpost, hVk, h, r, hMh, hhb, hhk⟩ := rt_val_facts hq.1 hpv hpre hM hpost
  have hVnp : ∀ t ∈ pre ++ M ++ post, (t.kind != TK.percent) = true := by
    intro t ht'; simpa using (coreKind_excl (hVk t ht')).1
  have hUnp : ∀ t, U.head? = some t → (t.kind != TK.percent) = false := by
    intro t ht'; simp [hUh t ht']
  unfold qvalue
  cases hlock : q.lock with
  | true =>
    rw [hlock] at hL
    simp only [spellLock, if_true] at hL
    obtain ⟨l0, r1, rfl, hl0, hteq⟩ := hL.append_inv
    obtain ⟨teq, rfl, hteqk, -⟩ := hteq.single_inv
    simp only [tk] at hteqk
    have bl0 := padOK_blank (hl0.padOK_of hpl0)
    have h1 := scalingLock_lock s l0 teq ((pre ++ M ++ post) ++ U) (by rw [ht]; simp) hc bl0 hteqk
    have h2 := consumeWhile_split (fun k => k != .percent) ({ s with cur := l0.length + 1 } : BP α)
      (l0 ++ [teq]) (pre ++ M ++ post) U (by simpa using ht) (by simp) (fun t ht' => hVnp t ht') hUnp
    have hrun2 : RunAt (lastStop (baseOff s.toks) (l0 ++ [teq])) (pre ++ M ++ post) := by
      have : RunAt (baseOff s.toks) (l0 ++ [teq] ++ (pre ++ M ++ post) ++ U) := by rw [← ht]; exact hrun
      exact ((runAt_append _ _ _).mp ((runAt_append _ _ _).mp this).1).2
    have h3 := rt_parseValue q.val p.v
      ({ s with cur := (l0 ++ [teq]).length + (pre ++ M ++ post).length } : BP α) hq.1 hpv hr
      (pre ++ M ++ post) ((hpre.append hM).append hpost) _ hrun2
    have hlen : (l0 ++ [teq]).length + (pre ++ M ++ post).length = (l0 ++ [teq] ++ (pre ++ M ++ post)).length := by
      simp only [List.length_append]
    rw [hlen] at h2 h3
    simp only [bind, StateT.bind, h1, h2, h3]
    exact ⟨_, _, rfl, rfl⟩
  | false =>
    rw [hlock] at hL
    simp only [spellLock, Bool.false_eq_true, if_false] at hL
    have hLn := hL.nil_inv
    subst hLn
    subst hMh
    have h1 := scalingLock_nolock s pre h (r ++ post ++ U) (by rw [ht]; simp) hc bpre hhb (coreKind_excl hhk).2.2.1
    have h2 := consumeWhile_split (fun k => k != .percent) ({ s with cur := pre.length } : BP α)
      pre (h :: r ++ post) U (by simpa using ht) rfl
      (fun t ht' => hVnp t (by simp only [List.mem_append] at ht' ⊢; rcases ht' with h' | h' <;> simp [h'])) hUnp
    have hrun2 : RunAt (lastStop (baseOff s.toks) pre) (h :: r ++ post) := by
      have : RunAt (baseOff s.toks) (pre ++ (h :: r ++ post) ++ U) := by
        have e : pre ++ (h :: r ++ post) ++ U = [] ++ (pre ++ h :: r ++ post) ++ U := by simp
        rw [e, ← ht]; exact hrun
      exact ((runAt_append _ _ _).mp ((runAt_append _ _ _).mp this).1).2
    have hpv' : ({ p.v with pre := [] } : VPad).ok s.cs = true := by
      simp only [VPad.ok, Bool.and_eq_true] at hpv ⊢
      exact ⟨⟨⟨⟨⟨rfl, hpv.1.1.1.1.2⟩, hpv.1.1.1.2⟩, hpv.1.1.2⟩, hpv.1.2⟩, hpv.2⟩
    have hsp : Spells (h :: r ++ post) (spellVal q.val { p.v with pre := [] }) := by
      simp only [spellVal, spellCore_pre, List.nil_append]
      exact hM.append hpost
    have h3 := rt_parseValue q.val { p.v with pre := [] }
      ({ s with cur := pre.length + (h :: r ++ post).length } : BP α) hq.1 hpv' hr
      (h :: r ++ post) hsp _ hrun2
    have hlen : pre.length + (h :: r ++ post).length = ([] ++ (pre ++ h :: r ++ post)).length := by
      simp only [List.nil_append, List.length_append]; omega
    rw [hlen] at h2 h3
    simp only [bind, StateT.bind, h1, h2, h3]
    exact ⟨_, _, rfl, rfl⟩

/-- `bl17_qvalue` for a value with filler (`ValFiller`) -/
theorem w10v_qvalue (qF q : AQty) (hV : ValFiller qF.val q.val) (p : QPad) (s : BP α) (hsp : s.cs.uws ' ' = true)
    (hq : q.ok s.cs = true) (hp : p.ok s.cs = true)
    (hr : q.val.isRange = true → s.ext.has Gen.EXT_RANGE_VALUES = true)
    (L pre M post U : List Tok) (ht : s.toks = L ++ (pre ++ M ++ post) ++ U) (hc : s.cur = 0)
    (hL : Spells L (spellLock q.lock p)) (hpre : Spells pre p.v.pre) (hM : Spells M (spellCore qF.val p.v))
    (hpost : Spells post p.v.post) (hUh : ∀ t, U.head? = some t → t.kind = .percent)
    (hrun : RunAt (baseOff s.toks) s.toks) :
    ∃ vspan lspan, qvalue s = (⟨⟨q.val.denote, vspan⟩, lspan⟩, { s with cur := (L ++ (pre ++ M ++ post)).length }) ∧
      lspan.isSome = q.lock := by
  rcases hV.elim with e | ⟨lF, l, e1, e2, hF⟩
  · rw [e] at hM
    exact bl17_qvalue q p s hq hp hr L pre M post U ht hc hL hpre hM hpost hUh hrun
  · rw [e1] at hM
    simp only [spellCore] at hM
    exact w10v_qvalue_text q l lF e2 hF p s hsp hq hp L pre M post U ht hc hL hpre hM hpost hUh hrun

theorem bl17_unit_head {uF : Option (List Tok)} {p : QPad} {U : List Tok} (hU : Spells U (spellUnit uF p)) :
    ∀ t, U.head? = some t → t.kind = .percent := rt_unit_head hU

/-- `rt_parseRegularQuantity` for a quantity with filler inside its unit -/
theorem bl17_parseRegularQuantity (qF q : AQty) (hF : QtyFiller qF q) (p : QPad) (s : BP α) (hsp : s.cs.uws ' ' = true)
    (hq : q.ok s.cs = true) (hp : p.ok s.cs = true)
    (hr : q.val.isRange = true → s.ext.has Gen.EXT_RANGE_VALUES = true)
    (ts : List Tok) (hs : Spells ts (spellQty qF p)) (ht : s.toks = ts) (hc : s.cur = 0)
    (hrun : RunAt (baseOff ts) ts) :
    ∃ vspan lspan unitT sep,
      parseRegularQuantity s =
        (⟨⟨⟨⟨⟨q.val.denote, vspan⟩, lspan⟩, unitT⟩, tokensSpan ts⟩, sep⟩, { s with cur := ts.length }) ∧
      lspan.isSome = q.lock ∧ unitT.map (fun t => t.trimmed s.cs) = q.unit.map leafText ∧
      sep.isSome = q.unit.isSome := by
  obtain ⟨L, pre, M, post, U, hts, hL, hpre, hM, hpost, hU⟩ := rt_qty_decomp hs
  rw [hF.lock] at hL
  subst ht
  obtain ⟨vspan, lspan, hqv, hl⟩ := w10v_qvalue qF q hF.val p s hsp hq hp hr L pre M post U hts hc hL hpre hM hpost
    (bl17_unit_head hU) hrun
  have hq' := hq
  simp only [AQty.ok, Bool.and_eq_true] at hq'
  have hp' := hp
  simp only [QPad.ok, Bool.and_eq_true] at hp'
  obtain ⟨⟨⟨hpl0, hpv⟩, hpu0⟩, hpu1⟩ := hp'
  obtain ⟨-, -, -, h, r, hMh, -, -⟩ := w10v_val_facts hF.val hq'.1 hpv hpre hM hpost
  have hne : s.toks ≠ [] := by rw [hts, hMh]; simp
  unfold parseRegularQuantity
  simp only [bind, StateT.bind, hqv]
  rcases hF.unit.elim with ⟨euF, hu⟩ | ⟨uF, u, euF, hu, huF⟩
  · rw [euF] at hU
    simp only [spellUnit] at hU
    have hUn := hU.nil_inv
    subst hUn
    have h1 := peekK_split ({ s with cur := (L ++ (pre ++ M ++ post)).length } : BP α) (L ++ (pre ++ M ++ post)) []
      (by simpa using hts) rfl
    have hlen : (L ++ (pre ++ M ++ post)).length = s.toks.length := by rw [hts]; simp
    simp only [h1, List.head?_nil, Option.map_none, pure, StateT.pure, get, getThe, MonadStateOf.get, StateT.get,
      bind, StateT.bind, tokensSpanP_run _ _ hne]
    simp only [hlen]
    exact ⟨vspan, lspan, none, none, rfl, hl, by rw [hu]; rfl, by rw [hu]; rfl⟩
  · rw [euF] at hU
    rw [hu] at hq'
    simp only [spellUnit, List.append_assoc, List.cons_append, List.nil_append] at hU
    obtain ⟨tpct, UR, rfl, hpk, -, hUR⟩ := hU.cons_inv
    simp only [tk] at hpk
    have h1 := peekK_split ({ s with cur := (L ++ (pre ++ M ++ post)).length } : BP α) (L ++ (pre ++ M ++ post))
      (tpct :: UR) hts rfl
    have h2 := bumpAny_split ({ s with cur := (L ++ (pre ++ M ++ post)).length } : BP α) (L ++ (pre ++ M ++ post))
      tpct UR hts rfl
    have h3 := consumeRest_split ({ s with cur := (L ++ (pre ++ M ++ post)).length + 1 } : BP α)
      (L ++ (pre ++ M ++ post) ++ [tpct]) UR (by simpa using hts) (by rw [List.length_append (bs := [tpct])]; rfl)
    have hrunU : RunAt tpct.stop UR := by
      have : RunAt (baseOff s.toks) (L ++ (pre ++ M ++ post) ++ ([tpct] ++ UR)) := by
        have e : L ++ (pre ++ M ++ post) ++ ([tpct] ++ UR) = L ++ (pre ++ M ++ post) ++ tpct :: UR := by simp
        rw [e, ← hts]; exact hrun
      have h' := ((runAt_append _ _ _).mp ((runAt_append _ _ _).mp this).2).2
      simpa [lastStop] using h'
    have hlen : (L ++ (pre ++ M ++ post) ++ [tpct]).length + UR.length = s.toks.length := by rw [hts]; simp; omega
    rw [hlen] at h3
    obtain ⟨ht1, ht2⟩ := bl17_leaf_text (cs := s.cs) (allowed := unitKind) (pre := p.u0) (l := u) (lF := uF) (post := p.u1)
      (by simpa using hUR) hpu0 hpu1 hq'.2 huF hsp tpct.stop
    simp only [h1, List.head?_cons, Option.map_some, hpk, bind, StateT.bind, h2, h3, bpText_run hrunU, pure, StateT.pure,
      get, getThe, MonadStateOf.get, StateT.get, ht2, Bool.false_eq_true, if_false, tokensSpanP_run _ _ hne]
    exact ⟨vspan, lspan, _, _, rfl, hl, by rw [hu]; simp only [Option.map_some, ht1], by rw [hu]; rfl⟩

/-- the advanced form declines a quantity written with `%` at once -/
theorem bl17_parseAdvancedQuantity_pct (s : BP α) (h : s.toks.any (fun t => t.kind == .percent) = true) :
    parseAdvancedQuantity s = (none, s) := by
  unfold parseAdvancedQuantity
  simp only [bind, StateT.bind, allToks, get, getThe, MonadStateOf.get, StateT.get, pure, StateT.pure, h, if_true]

/-- no `}` among the tokens of a quantity with filler in its unit, and a visible token among them -/
theorem bl17_qty_kinds {cs : CharSpec} (qF q : AQty) (hF : QtyFiller qF q) (p : QPad) (hq : q.ok cs = true)
    (hp : p.ok cs = true) (Q : List Tok) (hs : Spells Q (spellQty qF p)) :
    (∀ t ∈ Q, t.kind ≠ .closeBrace) ∧ Q.any (fun t => !isPadK t) = true := by
  obtain ⟨L, pre, M, post, U, hts, hL, hpre, hM, hpost, hU⟩ := rt_qty_decomp hs
  rw [hF.lock] at hL
  simp only [AQty.ok, Bool.and_eq_true] at hq
  simp only [QPad.ok, Bool.and_eq_true] at hp
  obtain ⟨⟨⟨hpl0, hpv⟩, hpu0⟩, hpu1⟩ := hp
  obtain ⟨bpre, bpost, hVk, h, r, hMh, hhb, hhk⟩ := w10v_val_facts hF.val hq.1 hpv hpre hM hpost
  constructor
  · intro t ht
    rw [hts] at ht
    rcases List.mem_append.mp ht with ht | ht
    · rcases List.mem_append.mp ht with ht | ht
      · obtain ⟨u, hu, hk, -⟩ := hL.mem ht
        rw [hk]
        unfold spellLock at hu
        split at hu
        · rcases List.mem_append.mp hu with hu | hu
          · rcases padOK_padT hpl0 u hu with h' | h' <;> simp [h']
          · simp at hu; subst hu; simp [tk]
        · simp at hu
      · exact (coreKind_excl (hVk t ht)).2.1
    · obtain ⟨u, hu, hk, -⟩ := hU.mem ht
      rw [hk]
      rcases hF.unit.elim with ⟨euF, hun⟩ | ⟨uF, un, euF, hun, huF⟩
      · rw [euF] at hu; simp [spellUnit] at hu
      · rw [euF] at hu
        rw [hun] at hq
        simp only [spellUnit, List.mem_append, List.mem_singleton] at hu
        rcases hu with ((hu | hu) | hu) | hu
        · subst hu; simp [tk]
        · rcases padOK_padT hpu0 u hu with h' | h' <;> simp [h']
        · rcases huF.mem hu with h' | h'
          · rcases leaf_tok_kind (leafOK_facts hq.2) u h' with h'' | h''
            · exact unitKind_excl (Or.inl h'')
            · simp [h'']
          · rcases h' with h'' | h''
            · simp [h'']
            · simp [h''.1]
        · rcases padOK_padT hpu1 u hu with h' | h' <;> simp [h']
  · rw [List.any_eq_true]
    refine ⟨h, by rw [hts, hMh]; simp, ?_⟩
    simp only [isWsComment, Bool.or_eq_false_iff] at hhb
    simp [isPadK, hhb.1.1, hhb.2]

/-- **`parse_quantity` with filler inside the unit**: the intended quantity, the outer parser handed
    back exactly as it was -/
theorem bl17_parseQuantity (qF q : AQty) (hF : QtyFiller qF q) (p : QPad) (outer : BP α) (hsp : outer.cs.uws ' ' = true)
    (hq : q.ok outer.cs = true) (hp : p.ok outer.cs = true)
    (hr : q.val.isRange = true → outer.ext.has Gen.EXT_RANGE_VALUES = true)
    (hadv : outer.ext.has Gen.EXT_ADVANCED_UNITS = true → q.advSafe = true)
    (ts : List Tok) (hs : Spells ts (spellQty qF p)) (hrun : RunAt (baseOff ts) ts) :
    ∃ vspan lspan unitT sep,
      parseQuantity ts outer = (⟨⟨⟨⟨⟨q.val.denote, vspan⟩, lspan⟩, unitT⟩, tokensSpan ts⟩, sep⟩, outer) ∧
      lspan.isSome = q.lock ∧ unitT.map (fun t => t.trimmed outer.cs) = q.unit.map leafText ∧
      sep.isSome = q.unit.isSome := by
  obtain ⟨vspan, lspan, unitT, sep, hreg, h1, h2, h3⟩ :=
    bl17_parseRegularQuantity qF q hF p ({ outer with toks := ts, cur := 0 } : BP α) hsp hq hp hr ts hs rfl rfl hrun
  refine ⟨vspan, lspan, unitT, sep, ?_, h1, h2, h3⟩
  obtain ⟨L, pre, M, post, U, hts, hL, hpre, hM, hpost, hU⟩ := rt_qty_decomp hs
  have hq' := hq
  simp only [AQty.ok, Bool.and_eq_true] at hq'
  have hp' := hp
  simp only [QPad.ok, Bool.and_eq_true] at hp'
  have hne : ts.isEmpty = false := by
    obtain ⟨-, -, -, h, r, hMh, -, -⟩ := w10v_val_facts hF.val hq'.1 hp'.1.1.2 hpre hM hpost
    rw [hts, hMh]; simp
  -- the advanced form declines
  have hdecl : outer.ext.has Gen.EXT_ADVANCED_UNITS = true →
      ∃ c, parseAdvancedQuantity ({ outer with toks := ts, cur := 0 } : BP α) =
        (none, { ({ outer with toks := ts, cur := 0 } : BP α) with cur := c }) := by
    intro hext
    rcases hF.unit.elim with ⟨euF, hu⟩ | ⟨uF, u, euF, hu, huF⟩
    · -- no unit
      rcases hF.val.elim with e | ⟨lF, l, e1, e2, hFl⟩
      · have hs' : Spells ts (spellQty q p) := by
          simp only [spellQty, hF.lock, e, euF, hu] at hs ⊢
          exact hs
        exact rt_parseAdvancedQuantity_none q p ({ outer with toks := ts, cur := 0 } : BP α) hq hp (hadv hext) ts hs' rfl rfl
      · rw [euF] at hU
        simp only [spellUnit] at hU
        have hUn := hU.nil_inv
        subst hUn
        rw [hF.lock] at hL
        rw [e1] at hM
        simp only [spellCore] at hM
        exact w10v_parseAdvancedQuantity_none_text q l lF e2 hFl hu p ({ outer with toks := ts, cur := 0 } : BP α) hq hp
          (hadv hext) L pre M post (by simpa using hts) rfl hL hpre hM hpost
    · have hpct : ts.any (fun t => t.kind == .percent) = true := by
        rw [euF] at hU
        simp only [spellUnit, List.append_assoc, List.cons_append, List.nil_append] at hU
        obtain ⟨tpct, UR, rfl, hpk, -, hUR⟩ := hU.cons_inv
        simp only [tk] at hpk
        rw [hts]; simp [hpk]
      exact ⟨0, bl17_parseAdvancedQuantity_pct ({ outer with toks := ts, cur := 0 } : BP α) hpct⟩
  unfold parseQuantity
  simp only [hne, Bool.false_eq_true, if_false, bind, StateT.bind, get, getThe, MonadStateOf.get, StateT.get, set,
    StateT.set, hasExt_run, pure, StateT.pure]
  by_cases hext : outer.ext.has Gen.EXT_ADVANCED_UNITS = true
  · obtain ⟨c, hc⟩ := hdecl hext
    have hw := withRecover_none _ _ _ hc
    simp only [hext, if_true, hw, hreg, modify, modifyGet, MonadStateOf.modifyGet, StateT.modifyGet, pure, StateT.pure]
  · simp only [hext, Bool.false_eq_true, if_false, hreg, modify, modifyGet, MonadStateOf.modifyGet,
      StateT.modifyGet, pure, StateT.pure]

end Cook
