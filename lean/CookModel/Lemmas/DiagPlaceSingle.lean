import CookModel.Lemmas.DiagPlaceDocName
import CookModel.Lemmas.DiagExactComp
import CookModel.Lemmas.RoundtripStep
import CookModel.Lemmas.RoundtripShort
import CookModel.Lemmas.DiagPlaceFam
import CookModel.Lemmas.DiagPlaceInst
/-
  C07, arbitrary placement: `invalid-single-word-name` as a placement piece (`c07s_` prefix, wave 10).  A marker
  `@` / `#` / `~` that starts NO component — no `{` before the next marker / the end of the block, and the token after
  the marker is neither a word / number token nor a modifier character — is read as TEXT together with everything up
  to the next marker; the declined attempt leaves the warning iff the token after the marker is not whitespace
  (`C07_invalid_single_word_name_then_text` describes the iteration up to `stepTail none`; here the text branch is
  run too, so the iteration is a `PlPieceAt`).
-/
set_option linter.unusedSectionVars false
set_option linter.unusedSimpArgs false
set_option linter.unusedVariables false
namespace Cook

variable {α : Type} [Arith α]

/-- the text branch of the loop body on `t0 :: tl` (no marker in `tl`, a marker or the end after it), whatever `t0` is -/
theorem c07s_stepTail_text (s : BP α) (A : List Tok) (t0 : Tok) (tl C : List Tok) (ht : s.toks = A ++ (t0 :: tl ++ C))
    (hc : s.cur = A.length) (hl : ∀ t ∈ tl, isMarker t.kind = false)
    (hC : ∀ t, C.head? = some t → isMarker t.kind = true) (hvis : (t0 :: tl).flatMap vis ≠ [])
    (hrun : RunAt (baseOff s.toks) s.toks) :
    stepTail none s =
      ((), { s with cur := A.length + (t0 :: tl).length, evs := s.evs.push (.text (buildText (offAt s.toks A.length) (t0 :: tl))) }) := by
  have e1 : s.toks = A ++ t0 :: (tl ++ C) := by rw [ht]; simp
  have h2 := bumpAny_split s A t0 (tl ++ C) e1 hc
  have h3 := consumeWhile_split (fun k => !isMarker k) ({ s with cur := A.length + 1 } : BP α) (A ++ [t0]) tl C
    (by rw [e1]; simp) (by simp) (by intro t ht'; simp [hl t ht']) (by intro t ht'; simp [hC t ht'])
  have hr : RunAt (offAt s.toks A.length) (t0 :: tl) := rt_runAt_mid hrun A (t0 :: tl) C ht
  have hslice : (s.toks.take ((A ++ [t0]).length + tl.length)).drop A.length = t0 :: tl := by
    rw [e1, show A ++ t0 :: (tl ++ C) = (A ++ [t0] ++ tl) ++ C by simp, List.take_left' (by lenarith)]
    rw [show A ++ [t0] ++ tl = A ++ (t0 :: tl) by simp, List.drop_left]
  have hfr := text_frags_ne (buildText (offAt s.toks A.length) (t0 :: tl)) (by rw [buildText_text]; exact hvis)
  have hlen : (A ++ [t0]).length + tl.length = A.length + (t0 :: tl).length := by lenarith
  rw [hlen] at h3 hslice
  unfold stepTail
  simp only [bind, pure, StateT.pure, StateT.bind, currentOffset_run, getCur, get, getThe, MonadStateOf.get, StateT.get,
    hc, h2, h3, hslice, bpText_run hr, hfr, Bool.not_false, if_true, pushEv_run]

/-- no long form lies ahead: no `{` and no marker in `tl`, a marker or the end after it -/
theorem c07s_longBody_none (tl C : List Tok) (hl : ∀ t ∈ tl, (t.kind == .openBrace || isMarker t.kind) = false)
    (hC : ∀ t, C.head? = some t → isMarker t.kind = true) : longBody (tl ++ C) = none := by
  unfold longBody
  cases C with
  | nil =>
    have : (tl ++ []).findIdx? (fun t : Tok => t.kind == TK.openBrace || isMarker t.kind) = none := by
      rw [List.findIdx?_eq_none_iff]
      intro t ht; simp only [List.append_nil] at ht; exact hl t ht
    rw [this]
  | cons c r =>
    have hc := hC c rfl
    have : (tl ++ c :: r).findIdx? (fun t : Tok => t.kind == TK.openBrace || isMarker t.kind) = some tl.length := by
      rw [List.findIdx?_eq_some_iff_getElem]
      refine ⟨by simp, by simp [hc], ?_⟩
      intro j hj
      rw [List.getElem_append_left hj]
      simpa using hl _ (List.getElem_mem hj)
    rw [this]
    have hb : (c.kind == TK.openBrace) = false := by
      cases hk : c.kind <;> simp [isMarker, hk] at hc ⊢
    simp [hb]

/-- the warning of the declined attempt: iff a token other than whitespace follows the marker, at the offset after
    the marker -/
def c07s_swEvs (T A R : List Tok) : List (Ev α) :=
  match R.head? with
  | some t =>
    if t.kind = .ws then []
    else [.warning ⟨.warning, .parse, "invalid-single-word-name", [Span.pos (offAt T (A.length + 1))]⟩]
  | none => []

/-- **a marker that starts no component, wherever it stands**: `tm` is `@` / `#` / `~`; `tl` holds no marker and no
    `{`; a marker or the end of the block follows; the token after `tm` (if any) is no word / number token and no
    modifier character.  One iteration of the step loop pushes EXACTLY the warning `invalid-single-word-name`
    (labelled with the position after the marker) iff a token other than whitespace follows the marker, then ONE text
    event made of the marker and `tl`; the cursor ends after `tl`. -/
theorem c07s_single_word_piece (T A rest : List Tok) (cs : CharSpec) (e : Ext) (tm : Tok) (tl : List Tok)
    (hT : T = A ++ ((tm :: tl) ++ rest)) (hw : WF T)
    (hk : tm.kind = .at ∨ tm.kind = .hash ∨ tm.kind = .tilde)
    (hl : ∀ t ∈ tl, (t.kind == .openBrace || isMarker t.kind) = false)
    (hrest : ∀ t, rest.head? = some t → isMarker t.kind = true)
    (h0 : ∀ t, (tl ++ rest).head? = some t → isModStart t.kind = false ∧ isShortK t.kind = false)
    (hvis : (tm :: tl).flatMap vis ≠ []) :
    PlPieceAt (α := α) T cs e A ⟨tm :: tl, fun evs =>
      evs = c07s_swEvs T A (tl ++ rest) ++ [.text (buildText (offAt T A.length) (tm :: tl))]⟩ := by
  refine ⟨by simp, ?_⟩
  intro s h1 h2 h3 h4 h5
  have e1 : s.toks = A ++ tm :: (tl ++ rest) := by rw [h1, hT]; simp
  obtain ⟨s1, hs1⟩ : ∃ s1 : BP α, s1 = { s with cur := A.length + 1 } := ⟨_, rfl⟩
  have ht1 : s1.toks = s.toks := by rw [hs1]
  have e2 : s1.toks = (A ++ [tm]) ++ (tl ++ rest) := by rw [ht1, e1]; simp
  have hc1 : s1.cur = (A ++ [tm]).length := by rw [hs1]; simp
  have hget : s1.toks[s1.cur]? = (tl ++ rest).head? := rt_getElem_cur (s := s1) e2 hc1
  have hmod : modifiersP s1 = (([] : List Tok), s1) :=
    modifiersP_noop s1 (fun t ht => (h0 t (by rw [← hget]; exact ht)).1)
  have hhead : ∀ k, tm.kind = k → Head k s [] s1 s1 :=
    fun k hk' => ⟨⟨tm, by rw [hs1]; exact consumeK_split_some k s A tm (tl ++ rest) e1 h5 hk'⟩, hmod⟩
  have hrest' : s1.rest = tl ++ rest := rt_drop_cur (s := s1) e2 hc1
  have hlm : ∀ t ∈ tl, isMarker t.kind = false := by
    intro t ht
    have := hl t ht
    simp only [Bool.or_eq_false_iff] at this
    exact this.2
  have hdec := c07x_stepOne_decline (α := α) (s := s) (s1 := s1) (s2 := s1) (mtoks := []) h4
    (by rw [h5, e1]; simp) (by rw [hrest']; exact c07s_longBody_none tl rest hl hrest)
    (fun t ht => (h0 t (by rw [← hget]; exact ht)).2)
    (by rcases hk with hk | hk | hk
        · exact Or.inl (hhead _ hk)
        · exact Or.inr (Or.inl (hhead _ hk))
        · exact Or.inr (Or.inr (hhead _ hk)))
  have hoff : offAt s1.toks s1.cur = offAt T (A.length + 1) := by rw [ht1, h1, hs1]
  have hrun : RunAt (baseOff s.toks) s.toks := by rw [h1]; exact hw.2
  have hT' : s.toks = A ++ (tm :: tl ++ rest) := by rw [h1, hT]
  rw [hdec]
  unfold singleWordWarn c07s_swEvs
  rw [hget, hoff]
  cases (tl ++ rest).head? with
  | none =>
    refine ⟨_, _, c07s_stepTail_text s A tm tl rest hT' h5 hlm hrest hvis hrun, by simp [h1], rfl⟩
  | some t =>
    dsimp only
    by_cases hws : t.kind = .ws
    · simp only [hws, if_true]
      refine ⟨_, _, c07s_stepTail_text s A tm tl rest hT' h5 hlm hrest hvis hrun, by simp [h1], rfl⟩
    · simp only [hws, if_false]
      have := c07s_stepTail_text
        ({ s with evs := s.evs.push (.warning ⟨.warning, .parse, "invalid-single-word-name",
          [Span.pos (offAt T (A.length + 1))]⟩) } : BP α) A tm tl rest hT' h5 hlm hrest hvis hrun
      refine ⟨_, _, this, by simp [h1], rfl⟩

theorem c07s_swEvs_congr (T A R R' : List Tok) (h : R'.head?.map (·.kind) = R.head?.map (·.kind)) :
    c07s_swEvs (α := α) T A R' = c07s_swEvs T A R := by
  unfold c07s_swEvs
  cases h1 : R'.head? <;> cases h2 : R.head? <;> rw [h1, h2] at h <;> simp at h
  · simp only [h]

theorem c07s_head_pred {R R' : List Tok} (h : R'.head?.map (·.kind) = R.head?.map (·.kind)) (p : TK → Prop)
    (hp : ∀ t, R.head? = some t → p t.kind) : ∀ t, R'.head? = some t → p t.kind := by
  intro t ht
  rw [ht] at h
  cases h2 : R.head? with
  | none => rw [h2] at h; simp at h
  | some u =>
    rw [h2] at h
    simp only [Option.map_some, Option.some.injEq] at h
    rw [h]; exact hp u h2

/-- the marker that starts no component, given by SPECIFICATION tokens `tmS :: tlS` followed by `restS`: a piece on
    every actual block spelling them (all conditions read kinds and texts only) -/
theorem c07s_single_word_pieceAt (cs : CharSpec) (e : Ext) (tmS : Tok) (tlS restS : List Tok)
    (hk : tmS.kind = .at ∨ tmS.kind = .hash ∨ tmS.kind = .tilde)
    (hl : ∀ t ∈ tlS, (t.kind == .openBrace || isMarker t.kind) = false)
    (hrest : ∀ t, restS.head? = some t → isMarker t.kind = true)
    (h0 : ∀ t, (tlS ++ restS).head? = some t → isModStart t.kind = false ∧ isShortK t.kind = false)
    (hvis : (tmS :: tlS).flatMap vis ≠ [])
    (T tpre tB tpost : List Tok) (hT : T = tpre ++ (tB ++ tpost)) (hsB : Spells tB (tmS :: tlS))
    (hpost : Spells tpost restS) (hrun : RunAt (baseOff T) T) :
    PlPieceAt (α := α) T cs e tpre ⟨tB, fun evs =>
      evs = c07s_swEvs T tpre (tlS ++ restS) ++ [.text (buildText (offAt T tpre.length) tB)]⟩ := by
  obtain ⟨tm, tl, rfl, k1, -, k2⟩ := hsB.cons_inv
  have ks : Spells (tl ++ tpost) (tlS ++ restS) := Spells.append k2 hpost
  have hw : WF T := ⟨by rw [hT]; simp, hrun⟩
  have hv : (tm :: tl).flatMap vis ≠ [] := by
    rw [Spells.vis_eq (c07v_spells_cons k1 (by have := hsB.cons_inv; obtain ⟨_, _, e, _, ht, _⟩ := this; cases e; exact ht) k2)]
    exact hvis
  have := c07s_single_word_piece (α := α) T tpre tpost cs e tm tl hT hw (by rw [k1]; exact hk)
    (c07d_kind_of_spells k2 (fun k => (k == .openBrace || isMarker k) = false) hl)
    (c07s_head_pred hpost.head_kind (fun k => isMarker k = true) hrest)
    (c07s_head_pred ks.head_kind (fun k => isModStart k = false ∧ isShortK k = false) h0) hv
  rw [c07s_swEvs_congr T tpre _ _ ks.head_kind] at this
  exact this

/-! ### the single-word timer `~name` (no braces) -/

theorem c07s_headEvs_nil (W : List Tok) (hW : ∀ t ∈ W, wordKind t.kind = true) (e : Ext) :
    c07w_timerHeadEvs (α := α) [] W e = [] := by
  have hn : W.findIdx? (fun t => t.kind == .or) = none := by
    rw [List.findIdx?_eq_none_iff]
    intro t ht
    have := hW t ht
    cases hk : t.kind <;> simp [wordKind, hk] at this ⊢
  unfold c07w_timerHeadEvs
  rw [hn]
  cases e.has Gen.EXT_COMPONENT_ALIAS <;> simp

/-- the cut of a single-word component `marker W` (no modifier tokens): `W` word / number tokens, the next token is
    none of them, no `{` before the next marker -/
theorem c07s_cut_short (k : TK) (s : BP α) (A : List Tok) (tm : Tok) (W rest : List Tok) (hk : tm.kind = k)
    (ht : s.toks = A ++ ((tm :: W) ++ rest)) (hc : s.cur = A.length)
    (hW : ∀ t ∈ W, wordKind t.kind = true) (hne : W ≠ [])
    (hR : ∀ t, rest.head? = some t → wordKind t.kind = false) (hnb : noBraceFirst rest = true) :
    Cut k s [] ⟨W, none, none⟩ { s with cur := A.length + 1 } { s with cur := A.length + 1 }
      { s with cur := A.length + (tm :: W).length } := by
  have e1 : s.toks = A ++ tm :: (W ++ rest) := by rw [ht]; simp
  have e2 : s.toks = (A ++ [tm]) ++ (W ++ rest) := by rw [e1]; simp
  have h1 := consumeK_split_some k s A tm _ e1 hc hk
  have hget : ({ s with cur := A.length + 1 } : BP α).toks[({ s with cur := A.length + 1 } : BP α).cur]? =
      (W ++ rest).head? := rt_getElem_cur (s := ({ s with cur := A.length + 1 } : BP α)) e2 (by simp)
  have h2 : modifiersP ({ s with cur := A.length + 1 } : BP α) = (([] : List Tok), { s with cur := A.length + 1 }) := by
    apply modifiersP_noop
    intro t ht'
    rw [hget] at ht'
    cases W with
    | nil => exact absurd rfl hne
    | cons w ws =>
      simp only [List.cons_append, List.head?_cons, Option.some.injEq] at ht'
      subst ht'
      have := hW w (by simp)
      cases hk' : w.kind <;> simp [wordKind, hk', isModStart, isModifierTok] at this ⊢
  have h3 := compBody_short ({ s with cur := A.length + 1 } : BP α) (A ++ [tm]) W rest e2 (by simp) hW hne hR hnb
  have hlen : (A ++ [tm]).length + W.length = A.length + (tm :: W).length := by
    simp only [List.length_append, List.length_cons, List.length_nil]; omega
  rw [hlen] at h3
  exact ⟨⟨tm, h1⟩, h2, h3⟩

/-- **a single-word timer `~name`, wherever it stands and whatever follows it** (`~zt`, `~zt(note)`): `W` word / number
    tokens, the next token none of them, no `{` before the next marker.  One iteration consumes exactly `~ W` and
    pushes EXACTLY `note-not-allowed:timer` iff `(` … `)` follows, then `timer-missing-quantity` (labelled with the
    position at the end of the name) under TIMER_REQUIRES_TIME, otherwise `timer-neither-name-nor-quantity` iff the
    name is blank; then the timer named `W`, on the byte range of `~ W`. -/
theorem c07s_timer_short_piece (T A rest : List Tok) (cs : CharSpec) (e : Ext) (tm : Tok) (W : List Tok)
    (hT : T = A ++ ((tm :: W) ++ rest)) (hw : WF T) (hk : tm.kind = .tilde)
    (hW : ∀ t ∈ W, wordKind t.kind = true) (hne : W ≠ [])
    (hR : ∀ t, rest.head? = some t → wordKind t.kind = false) (hnb : noBraceFirst rest = true) :
    PlPieceAt (α := α) T cs e A ⟨tm :: W, fun evs =>
      evs = c07w_noteEvs T (A.length + (tm :: W).length) ++
        c07w_timerFinishEvs (offAt T (A.length + 1)) ⟨W, none, none⟩ (buildText (offAt T (A.length + 1)) W) cs e ++
        [.timer ⟨⟨if (buildText (offAt T (A.length + 1)) W).isTextEmpty cs then none
            else some (buildText (offAt T (A.length + 1)) W),
          c07w_timerFinishQty (buildText (offAt T (A.length + 1)) W) cs e⟩,
          ⟨offAt T A.length, offAt T (A.length + (tm :: W).length)⟩⟩]⟩ := by
  apply c07p_piece_of_timer T A _ rest cs e hT hw tm _ rfl hk
  intro s h1 h2 h3 h4 h5
  subst h1 h2 h3
  have hcut := c07s_cut_short .tilde s A tm W rest hk hT h5 hW hne hR hnb
  have hrun : timerP s = timerTail (offAt s.toks A.length) (offAt s.toks (A.length + (tm :: W).length))
      (offAt s.toks (A.length + 1)) [] ⟨W, none, none⟩ { s with cur := A.length + (tm :: W).length } := by
    rw [timerP_cut hcut]
    simp only [curOff, h5]
  have hrun2 := hrun
  rw [c07w_timerTail_run] at hrun2
  have ht := c07w_timerRest2_none (α := α) (offAt s.toks A.length) (offAt s.toks (A.length + (tm :: W).length))
    (offAt s.toks (A.length + 1)) ⟨W, none, none⟩
    (pushAll (c07w_noteEvs s.toks (A.length + (tm :: W).length))
      (pushAll (c07w_timerHeadEvs [] W s.ext) ({ s with cur := A.length + (tm :: W).length } : BP α))) rfl
  unfold Sat at ht
  rw [← hrun2] at ht
  obtain ⟨hpu, hr⟩ := ht
  simp only [(c07w_pushAll_cs _ _).1, (c07w_pushAll_cs _ _).2] at hpu hr
  have hp := ((c07w_pushed_setCur s (A.length + (tm :: W).length)).trans
    ((pushAll_pushed _ _).trans (pushAll_pushed _ _))).trans hpu
  refine ⟨_, _, hr, hp, ?_, ?_⟩
  · rw [hrun]
    exact c07p_timerTail_cur ..
  · simp [c07s_headEvs_nil W hW]

/-- the events of a single-word timer `~name` planted in the block `T` after `tpre`, its actual tokens being `tB`
    (spelling `~` and the specified name tokens `WS`) -/
def c07s_timerShortSpec (cs : CharSpec) (e : Ext) (WS : List Tok) (T tpre tB : List Tok) (evs : List (Ev α)) : Prop :=
  ∃ (tm : Tok) (W : List Tok), tB = tm :: W ∧ Spells W WS ∧
    evs = c07w_noteEvs T (tpre.length + tB.length) ++
      c07w_timerFinishEvs (offAt T (tpre.length + 1)) ⟨W, none, none⟩ (buildText (offAt T (tpre.length + 1)) W) cs e ++
      [.timer ⟨⟨if (buildText (offAt T (tpre.length + 1)) W).isTextEmpty cs then none
          else some (buildText (offAt T (tpre.length + 1)) W),
        c07w_timerFinishQty (buildText (offAt T (tpre.length + 1)) W) cs e⟩,
        ⟨offAt T tpre.length, offAt T (tpre.length + tB.length)⟩⟩]

/-- the single-word timer given by SPECIFICATION tokens: a piece on every actual block spelling them -/
theorem c07s_timer_short_pieceAt (cs : CharSpec) (e : Ext) (tmS : Tok) (WS restS : List Tok) (hk : tmS.kind = .tilde)
    (hW : ∀ t ∈ WS, wordKind t.kind = true) (hne : WS ≠ [])
    (hR : ∀ t, restS.head? = some t → wordKind t.kind = false) (hnb : noBraceFirst restS = true)
    (T tpre tB tpost : List Tok) (hT : T = tpre ++ (tB ++ tpost)) (hsB : Spells tB (tmS :: WS))
    (hpost : Spells tpost restS) (hrun : RunAt (baseOff T) T) :
    PlPieceAt (α := α) T cs e tpre ⟨tB, c07s_timerShortSpec cs e WS T tpre tB⟩ := by
  obtain ⟨tm, W, rfl, k1, -, k2⟩ := hsB.cons_inv
  have hw : WF T := ⟨by rw [hT]; simp, hrun⟩
  have hne' : W ≠ [] := by
    intro h; apply hne; have := k2.length; rw [h] at this; exact List.eq_nil_of_length_eq_zero this.symm
  exact (c07s_timer_short_piece (α := α) T tpre tpost cs e tm W hT hw (k1.trans hk)
    (c07d_kind_of_spells k2 (fun k => wordKind k = true) hW) hne'
    (c07s_head_pred hpost.head_kind (fun k => wordKind k = false) hR)
    (by rw [noBraceFirst_kinds tpost restS hpost.kinds]; exact hnb)).mono
    (fun evs he => ⟨tm, W, rfl, k2, he⟩)

/-! ### single-word ingredient / cookware with plain modifier tokens (`@&&salt`, `#@pot`) -/

/-- the cut of a single-word component `marker ms W` with plain modifier tokens, not followed by `(` -/
theorem c07s_cut_short_mods (k : TK) (s : BP α) (A : List Tok) (tm : Tok) (ms W rest : List Tok) (hk : tm.kind = k)
    (ht : s.toks = A ++ ((tm :: (ms ++ W)) ++ rest)) (hc : s.cur = A.length)
    (hm : (s.ext.has Gen.EXT_COMPONENT_MODIFIERS = false ∧ ms = []) ∨
      (s.ext.has Gen.EXT_COMPONENT_MODIFIERS = true ∧ ∀ m ∈ ms, modKind m.kind = true))
    (hW : ∀ t ∈ W, wordKind t.kind = true) (hne : W ≠ [])
    (hR : ∀ t, rest.head? = some t → wordKind t.kind = false) (hnb : noBraceFirst rest = true)
    (hnp : ∀ t, rest.head? = some t → t.kind ≠ .openParen) :
    Cut k s ms ⟨W, none, none⟩ { s with cur := A.length + 1 } { s with cur := A.length + 1 + ms.length }
      { s with cur := A.length + (tm :: (ms ++ W)).length } ∧
    noteP ({ s with cur := A.length + (tm :: (ms ++ W)).length } : BP α) =
      (none, { s with cur := A.length + (tm :: (ms ++ W)).length }) := by
  have e1 : s.toks = A ++ tm :: (ms ++ (W ++ rest)) := by rw [ht]; simp
  have h1 := consumeK_split_some k s A tm _ e1 hc hk
  obtain ⟨w, ws, hWc⟩ : ∃ w ws, W = w :: ws := by
    cases W with
    | nil => exact absurd rfl hne
    | cons w ws => exact ⟨w, ws, rfl⟩
  have hw0 := hW w (by rw [hWc]; simp)
  have hwm : modKind w.kind = false ∧ w.kind ≠ .openParen := by
    cases hk' : w.kind <;> simp [wordKind, hk', modKind] at hw0 ⊢
  have h2 : modifiersP ({ s with cur := A.length + 1 } : BP α) = (ms, { s with cur := A.length + 1 + ms.length }) := by
    rcases hm with ⟨hoff, hms⟩ | ⟨hon, hms⟩
    · subst hms
      rw [modifiersP_off ({ s with cur := A.length + 1 } : BP α) hoff]; rfl
    · have := modifiersP_on ({ s with cur := A.length + 1 } : BP α) hon (A ++ [tm]) ms w (ws ++ rest)
        (by show s.toks = _; rw [e1, hWc]; simp) (by simp) hms hwm.1 hwm.2
      rw [this]
      exact congrArg (fun c => (ms, ({ s with cur := c } : BP α))) (by simp)
  have h3 := compBody_short ({ s with cur := A.length + 1 + ms.length } : BP α) (A ++ tm :: ms) W rest
    (by show s.toks = _; rw [e1]; simp) (by simp; omega) hW hne hR hnb
  have hlen : (A ++ tm :: ms).length + W.length = A.length + (tm :: (ms ++ W)).length := by
    simp only [List.length_append, List.length_cons]; omega
  rw [hlen] at h3
  refine ⟨⟨⟨tm, h1⟩, h2, h3⟩, ?_⟩
  exact noteP_none _ (A ++ (tm :: (ms ++ W))) rest (by show s.toks = _; rw [ht]; simp) (by simp) hnp

theorem c07s_no_or (W : List Tok) (hW : ∀ t ∈ W, wordKind t.kind = true) : ∀ t ∈ W, t.kind ≠ .or := by
  intro t ht
  have := hW t ht
  cases hk : t.kind <;> simp [wordKind, hk] at this ⊢

/-- **a single-word ingredient with modifier tokens, wherever it stands** (`@&&salt`, `@?-?x`): exactly one
    `duplicate-modifier` per modifier token repeating an earlier one, then the ingredient named `W` with the
    accumulated flags -/
theorem c07s_ingredient_short_piece (T A rest : List Tok) (cs : CharSpec) (e : Ext) (tm : Tok) (ms W : List Tok)
    (hT : T = A ++ ((tm :: (ms ++ W)) ++ rest)) (hw : WF T) (hk : tm.kind = .at)
    (hm : (e.has Gen.EXT_COMPONENT_MODIFIERS = false ∧ ms = []) ∨
      (e.has Gen.EXT_COMPONENT_MODIFIERS = true ∧ ∀ m ∈ ms, modKind m.kind = true)) (hs : SimpleMods ms)
    (hW : ∀ t ∈ W, wordKind t.kind = true) (hne : W ≠ [])
    (hR : ∀ t, rest.head? = some t → wordKind t.kind = false) (hnb : noBraceFirst rest = true)
    (hnp : ∀ t, rest.head? = some t → t.kind ≠ .openParen)
    (hname : (buildText (offAt T (A.length + 1 + ms.length)) W).isTextEmpty cs = false) :
    PlPieceAt (α := α) T cs e A ⟨tm :: (ms ++ W), fun evs =>
      evs = List.replicate (foldMods Modifiers.empty ms).2
          (.error ⟨.error, .parse, "duplicate-modifier", [tokensSpan ms]⟩) ++
        [.ingredient ⟨⟨simpleFlags ms (offAt T (A.length + 1)), none,
          buildText (offAt T (A.length + 1 + ms.length)) W, none, none, none⟩,
        ⟨offAt T A.length, offAt T (A.length + (tm :: (ms ++ W)).length)⟩⟩]⟩ := by
  apply c07p_piece_of_ingredient T A _ rest cs e hT hw tm _ rfl hk
  intro s h1 h2 h3 h4 h5
  subst h1 h2 h3
  obtain ⟨hcut, hnote⟩ := c07s_cut_short_mods .at s A tm ms W rest hk hT h5 hm hW hne hR hnb hnp
  have hrun : ingredientP s = ingredientTail (offAt s.toks A.length)
      (offAt s.toks (A.length + (tm :: (ms ++ W)).length)) (offAt s.toks (A.length + 1))
      (offAt s.toks (A.length + 1 + ms.length)) ms ⟨W, none, none⟩ none
      { s with cur := A.length + (tm :: (ms ++ W)).length } := by
    rw [ingredientP_cut hcut hnote]
    simp only [curOff, h5]
  have ht := ingredientTail_noqty (α := α) (offAt s.toks A.length)
    (offAt s.toks (A.length + (tm :: (ms ++ W)).length))
    (offAt s.toks (A.length + 1)) (offAt s.toks (A.length + 1 + ms.length)) ms ⟨W, none, none⟩ none
    ({ s with cur := A.length + (tm :: (ms ++ W)).length } : BP α) [] _ none
    (parseAlias_quiet' "ingredient" W _ _ (Or.inr (c07s_no_or W hW))) hname rfl hs
  unfold Sat at ht
  rw [← hrun] at ht
  obtain ⟨hpu, hr⟩ := ht
  refine ⟨_, _, hr, hpu.cast (by simp [dupEvs, dupModEv]), ?_, rfl⟩
  rw [hrun]
  exact (c07p_indep_fields (Indep.ingredientTail ..) _).1

/-- **a single-word cookware item with modifier tokens, wherever it stands** (`#@pot`, `#&&pot`): one
    `duplicate-modifier` per repeated modifier token, `cookware-recipe-modifier` on the first `@` iff there is one,
    then the item named `W` -/
theorem c07s_cookware_short_piece (T A rest : List Tok) (cs : CharSpec) (e : Ext) (tm : Tok) (ms W : List Tok)
    (hT : T = A ++ ((tm :: (ms ++ W)) ++ rest)) (hw : WF T) (hk : tm.kind = .hash)
    (hm : (e.has Gen.EXT_COMPONENT_MODIFIERS = false ∧ ms = []) ∨
      (e.has Gen.EXT_COMPONENT_MODIFIERS = true ∧ ∀ m ∈ ms, modKind m.kind = true)) (hs : SimpleMods ms)
    (hW : ∀ t ∈ W, wordKind t.kind = true) (hne : W ≠ [])
    (hR : ∀ t, rest.head? = some t → wordKind t.kind = false) (hnb : noBraceFirst rest = true)
    (hnp : ∀ t, rest.head? = some t → t.kind ≠ .openParen)
    (hname : (buildText (offAt T (A.length + 1 + ms.length)) W).isTextEmpty cs = false) :
    PlPieceAt (α := α) T cs e A ⟨tm :: (ms ++ W), fun evs =>
      evs = List.replicate (foldMods Modifiers.empty ms).2
          (.error ⟨.error, .parse, "duplicate-modifier", [tokensSpan ms]⟩) ++ recipeModEvs ms ++
        [.cookware ⟨⟨simpleFlags ms (offAt T (A.length + 1)),
          buildText (offAt T (A.length + 1 + ms.length)) W, none, none, none⟩,
        ⟨offAt T A.length, offAt T (A.length + (tm :: (ms ++ W)).length)⟩⟩]⟩ := by
  apply c07p_piece_of_cookware T A _ rest cs e hT hw tm _ rfl hk
  intro s h1 h2 h3 h4 h5
  subst h1 h2 h3
  obtain ⟨hcut, hnote⟩ := c07s_cut_short_mods .hash s A tm ms W rest hk hT h5 hm hW hne hR hnb hnp
  have hrun : cookwareP s = cookwareTail (offAt s.toks A.length)
      (offAt s.toks (A.length + (tm :: (ms ++ W)).length)) (offAt s.toks (A.length + 1))
      (offAt s.toks (A.length + 1 + ms.length)) ms ⟨W, none, none⟩ none
      { s with cur := A.length + (tm :: (ms ++ W)).length } := by
    rw [cookwareP_cut hcut hnote]
    simp only [curOff, h5]
  have ht := cookwareTail_noqty (α := α) (offAt s.toks A.length)
    (offAt s.toks (A.length + (tm :: (ms ++ W)).length))
    (offAt s.toks (A.length + 1)) (offAt s.toks (A.length + 1 + ms.length)) ms ⟨W, none, none⟩ none
    ({ s with cur := A.length + (tm :: (ms ++ W)).length } : BP α) [] _ none
    (parseAlias_quiet' "cookware" W _ _ (Or.inr (c07s_no_or W hW))) hname rfl hs
  unfold Sat at ht
  rw [← hrun] at ht
  obtain ⟨hpu, hr⟩ := ht
  refine ⟨_, _, hr, hpu.cast (by simp [dupEvs, dupModEv]), ?_, rfl⟩
  rw [hrun]
  exact (c07p_indep_fields (Indep.cookwareTail ..) _).1

/-- the actual block is a single-word component `marker ms W` whose parts spell the specified ones; its events are `F`
    of the actual parts -/
def c07s_shortSpec (msS WS tB : List Tok) (F : Tok → List Tok → List Tok → List (Ev α) → Prop)
    (evs : List (Ev α)) : Prop :=
  ∃ (tm : Tok) (ms W : List Tok), tB = tm :: (ms ++ W) ∧ Spells ms msS ∧ Spells W WS ∧ F tm ms W evs

def c07s_ingrShortF (T A : List Tok) : Tok → List Tok → List Tok → List (Ev α) → Prop :=
  fun tm ms W evs =>
    evs = List.replicate (foldMods Modifiers.empty ms).2
        (.error ⟨.error, .parse, "duplicate-modifier", [tokensSpan ms]⟩) ++
      [.ingredient ⟨⟨simpleFlags ms (offAt T (A.length + 1)), none,
        buildText (offAt T (A.length + 1 + ms.length)) W, none, none, none⟩,
      ⟨offAt T A.length, offAt T (A.length + (tm :: (ms ++ W)).length)⟩⟩]

def c07s_cwShortF (T A : List Tok) : Tok → List Tok → List Tok → List (Ev α) → Prop :=
  fun tm ms W evs =>
    evs = List.replicate (foldMods Modifiers.empty ms).2
        (.error ⟨.error, .parse, "duplicate-modifier", [tokensSpan ms]⟩) ++ recipeModEvs ms ++
      [.cookware ⟨⟨simpleFlags ms (offAt T (A.length + 1)),
        buildText (offAt T (A.length + 1 + ms.length)) W, none, none, none⟩,
      ⟨offAt T A.length, offAt T (A.length + (tm :: (ms ++ W)).length)⟩⟩]

/-- single-word ingredient / cookware with modifier tokens given by SPECIFICATION tokens: pieces on every actual
    block spelling them -/
theorem c07s_short_mods_pieceAt (cs : CharSpec) (e : Ext) (tmS : Tok) (msS WS restS : List Tok)
    (hm : (e.has Gen.EXT_COMPONENT_MODIFIERS = false ∧ msS = []) ∨
      (e.has Gen.EXT_COMPONENT_MODIFIERS = true ∧ ∀ m ∈ msS, modKind m.kind = true)) (hs : SimpleMods msS)
    (hW : ∀ t ∈ WS, wordKind t.kind = true) (hne : WS ≠ [])
    (hR : ∀ t, restS.head? = some t → wordKind t.kind = false) (hnb : noBraceFirst restS = true)
    (hnp : ∀ t, restS.head? = some t → t.kind ≠ .openParen)
    (hname : ∃ t ∈ WS, plainKind t.kind = true ∧ NBs cs t.text)
    (T tpre tB tpost : List Tok) (hT : T = tpre ++ (tB ++ tpost)) (hsB : Spells tB (tmS :: (msS ++ WS)))
    (hpost : Spells tpost restS) (hrun : RunAt (baseOff T) T) :
    (tmS.kind = .at → PlPieceAt (α := α) T cs e tpre ⟨tB, c07s_shortSpec msS WS tB (c07s_ingrShortF T tpre)⟩) ∧
    (tmS.kind = .hash → PlPieceAt (α := α) T cs e tpre ⟨tB, c07s_shortSpec msS WS tB (c07s_cwShortF T tpre)⟩) := by
  obtain ⟨tm, r, rfl, k1, -, kr⟩ := hsB.cons_inv
  obtain ⟨ms, W, rfl, k2, k3⟩ := kr.append_inv
  have hw : WF T := ⟨by rw [hT]; simp, hrun⟩
  have hne' : W ≠ [] := by
    intro h; apply hne; have := k3.length; rw [h] at this; exact List.eq_nil_of_length_eq_zero this.symm
  have hm' : (e.has Gen.EXT_COMPONENT_MODIFIERS = false ∧ ms = []) ∨
      (e.has Gen.EXT_COMPONENT_MODIFIERS = true ∧ ∀ m ∈ ms, modKind m.kind = true) := by
    rcases hm with ⟨h1, h2⟩ | ⟨h1, h2⟩
    · subst h2; exact Or.inl ⟨h1, k2.nil_inv⟩
    · exact Or.inr ⟨h1, c07d_kind_of_spells k2 (fun k => modKind k = true) h2⟩
  have hW' := c07d_kind_of_spells k3 (fun k => wordKind k = true) hW
  have hR' := c07s_head_pred hpost.head_kind (fun k => wordKind k = false) hR
  have hnp' := c07s_head_pred hpost.head_kind (fun k => k ≠ .openParen) hnp
  have hnb' : noBraceFirst tpost = true := by rw [noBraceFirst_kinds tpost restS hpost.kinds]; exact hnb
  refine ⟨fun hk => ?_, fun hk => ?_⟩
  · exact (c07s_ingredient_short_piece (α := α) T tpre tpost cs e tm ms W hT hw (k1.trans hk) hm'
      (c07v_simple_transfer k2 hs) hW' hne' hR' hnb' hnp' (c07x_name_transfer k3 hname _)).mono
      (fun evs he => ⟨tm, ms, W, rfl, k2, k3, he⟩)
  · exact (c07s_cookware_short_piece (α := α) T tpre tpost cs e tm ms W hT hw (k1.trans hk) hm'
      (c07v_simple_transfer k2 hs) hW' hne' hR' hnb' hnp' (c07x_name_transfer k3 hname _)).mono
      (fun evs he => ⟨tm, ms, W, rfl, k2, k3, he⟩)

end Cook
