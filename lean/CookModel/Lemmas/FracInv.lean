import CookModel.Syntax.Parser
import CookModel.Num.Scale
import CookModel.Lemmas.Fraction
import CookModel.Lemmas.FractionMore
import CookModel.Side.SerdeEq
/-
  C15 — "no number has a NaN value" (`numberSelfEq`) for the numbers the code BUILDS (wave `w6numeric`).

  `Number::Fraction` values are built at exactly three places of the modelled code: `fracNum` / `mixedNum` of the
  parser (src/parser/quantity.rs; a zero denominator is the error `division-by-zero`) and `new_approx`
  (src/quantity.rs; denominators of the lookup table, or `0/1`).  Every such fraction has a non-zero denominator,
  parts that fit `u32`, and an error term that is not NaN (`0`, or a difference of two finite values).  Under the
  IEEE-754 facts `IeeeHyp` (theorems over ℚ) its value `whole + err + num/den` is then not NaN.
  `linear_scale` builds `Regular(value · factor)`: not NaN for a finite value and factor.
  Specification-side vocabulary: `Number.FracOK`, `notNaN`, `IeeeHyp`.  Prefix `fi_`.
-/
namespace Cook
open Arith

variable {α : Type} [Arith α]

/-- `x == x` (over f64: `x` is not NaN) -/
def notNaN (x : α) : Prop := Arith.eq x x = true

/-- the invariant of a stored fraction: denominator not zero, the three parts fit `u32`, the error is not NaN -/
def Number.FracOK : Number α → Prop
  | .regular _ => True
  | .fraction w n d e => d ≠ 0 ∧ w ≤ u32Max ∧ n ≤ u32Max ∧ d ≤ u32Max ∧ notNaN e

def Value.FracOK : Value α → Prop
  | .number n => n.FracOK
  | .range s e => s.FracOK ∧ e.FracOK
  | .text _ => True

/-- the shape `new_approx` promises (C12 clause 4), for every arithmetic instance -/
def Number.ApproxShape (denoms : List Nat) (maxDen : Nat) : Number α → Prop
  | .regular _ => True
  | .fraction _ n d _ => (n = 0 ∧ d = 1) ∨ (0 < n ∧ n < d ∧ d ≤ maxDen ∧ d ∈ denoms)

/-- **IEEE-754 facts used** (f64: all true; over ℚ: theorems, `fi_ieeeHyp_rat`).  `finite`: a finite value is not
    NaN.  `add_l`/`add_r`: a finite value plus a non-NaN value (finite or ±∞) is not NaN.  `sub`/`mul`: the difference
    and the product of two finite values are not NaN (they may overflow to ±∞).  `small`: `w + n/d` for `u32` values
    with `d ≠ 0` is finite, and so are `w` and `n/d`.  `round`: `f64::round` of a finite value is finite.
    `decimal`: a decimal literal parses to a value that is not NaN (correctly rounded: finite or +∞). -/
structure IeeeHyp (α : Type) [Arith α] : Prop where
  finite : ∀ x : α, Arith.isFinite x = true → notNaN x
  add_l : ∀ x y : α, Arith.isFinite x = true → notNaN y → notNaN (x + y)
  add_r : ∀ x y : α, notNaN x → Arith.isFinite y = true → notNaN (x + y)
  sub : ∀ x y : α, Arith.isFinite x = true → Arith.isFinite y = true → notNaN (x - y)
  mul : ∀ x y : α, Arith.isFinite x = true → Arith.isFinite y = true → notNaN (x * y)
  nat : ∀ w : Nat, w ≤ u32Max → Arith.isFinite (Arith.ofNat w : α) = true
  quot : ∀ n d : Nat, n ≤ u32Max → d ≤ u32Max → d ≠ 0 →
    Arith.isFinite ((Arith.ofNat n : α) / Arith.ofNat d) = true
  small : ∀ w n d : Nat, w ≤ u32Max → n ≤ u32Max → d ≤ u32Max → d ≠ 0 →
    Arith.isFinite ((Arith.ofNat w : α) + (Arith.ofNat n : α) / Arith.ofNat d) = true
  round : ∀ x : α, Arith.isFinite x = true → Arith.isFinite (Arith.round x) = true
  decimal : ∀ m e : Nat, notNaN (Arith.ofDecimal m e : α)

/-- **a fraction that satisfies the invariant has a value that is not NaN** -/
theorem fi_numberSelfEq (H : IeeeHyp α) (n : Number α) (hn : n.FracOK)
    (hr : ∀ v, n = .regular v → notNaN v) : Serde.numberSelfEq n := by
  cases n with
  | regular v => exact hr v rfl
  | fraction w n d e =>
    obtain ⟨hd, hw, hn', hd', he⟩ := hn
    show notNaN ((Arith.ofNat w + e) + (Arith.ofNat n : α) / Arith.ofNat d)
    exact H.add_r _ _ (H.add_l _ _ (H.nat w hw) he) (H.quot n d hn' hd' hd)

/-! ### the parser's numbers -/

theorem fi_parseU32 {tok : Tok} {n : Nat} (h : parseU32 tok = .ok n) : n ≤ u32Max := by
  unfold parseU32 at h
  simp only at h
  split at h
  · cases h; assumption
  · cases h

theorem fi_fracNum (H : IeeeHyp α) {a b : Tok} {n : Number α} (h : fracNum (α := α) a b = .ok n) :
    n.FracOK ∧ ∃ w x y, n = .fraction w x y (Arith.ofNat 0) := by
  unfold fracNum at h
  split at h
  · cases h
  · rename_i x hx
    split at h
    · cases h
    · rename_i y hy
      split at h
      · cases h
      · rename_i hne
        cases h
        exact ⟨⟨hne, Nat.zero_le _, fi_parseU32 hx, fi_parseU32 hy, H.finite _ (H.nat 0 (Nat.zero_le _))⟩,
          _, _, _, rfl⟩

theorem fi_mixedNum (H : IeeeHyp α) {i a b : Tok} {n : Number α} (h : mixedNum (α := α) i a b = .ok n) :
    n.FracOK := by
  unfold mixedNum at h
  split at h
  · cases h
  · rename_i w hw
    split at h
    · cases h
    · rename_i w0 x y e hf
      cases h
      obtain ⟨⟨h1, _, h3, h4, _⟩, _⟩ := fi_fracNum H hf
      exact ⟨h1, fi_parseU32 hw, h3, h4, H.finite _ (H.nat 0 (Nat.zero_le _))⟩
    · rename_i n' hnot hf
      cases h
      exact (fi_fracNum H hf).1

/-- what the parser's numeric readers return: fractions satisfy the invariant, plain numbers are decimal literals -/
def Number.ParsedOK (n : Number α) : Prop := n.FracOK ∧ ∀ v, n = .regular v → notNaN v

def Value.ParsedOK : Value α → Prop
  | .number n => n.ParsedOK
  | .range s e => s.ParsedOK ∧ e.ParsedOK
  | .text _ => True

theorem fi_map_number {r : Except Diag (Number α)} {v : Value α} (h : r.map Value.number = .ok v) :
    ∃ n, r = .ok n ∧ v = .number n := by
  cases r with
  | error e => cases h
  | ok n => cases h; exact ⟨n, rfl, rfl⟩

theorem fi_regular_decimal (H : IeeeHyp α) (m e : Nat) :
    (Value.number (.regular (Arith.ofDecimal m e : α))).ParsedOK :=
  ⟨trivial, fun v hv => by cases hv; exact H.decimal m e⟩

theorem fi_frac_parsed (H : IeeeHyp α) {a b : Tok} {v : Value α}
    (h : (fracNum (α := α) a b).map Value.number = .ok v) : v.ParsedOK := by
  obtain ⟨n, hn, rfl⟩ := fi_map_number h
  obtain ⟨h1, w, x, y, rfl⟩ := fi_fracNum H hn
  exact ⟨h1, fun v hv => by cases hv⟩

theorem fi_mixed_parsed (H : IeeeHyp α) {i a b : Tok} {v : Value α}
    (h : (mixedNum (α := α) i a b).map Value.number = .ok v) : v.ParsedOK := by
  obtain ⟨n, hn, rfl⟩ := fi_map_number h
  have h1 := fi_mixedNum H hn
  refine ⟨h1, ?_⟩
  intro v hv
  subst hv
  -- a mixed number is never `Regular`: `fracNum` only returns fractions
  unfold mixedNum at hn
  split at hn
  · cases hn
  · split at hn
    · cases hn
    · cases hn
    · rename_i n' hnot hf
      cases hn
      obtain ⟨_, w, x, y, hfr⟩ := fi_fracNum H hf
      cases hfr

/-- **`numeric_value`: every number the parser reads satisfies the invariant** (all arithmetic instances) -/
theorem fi_numericValue (H : IeeeHyp α) (tokens : List Tok) (v : Value α)
    (h : numericValue (α := α) tokens = some (.ok v)) : v.ParsedOK := by
  unfold numericValue at h
  simp only at h
  split at h
  · cases h
  · split at h
    · split at h
      · cases h; exact fi_regular_decimal H _ _
      · cases h
    · split at h
      · cases h; exact fi_regular_decimal H _ _
      · split at h
        · split at h
          · simp only [Option.some.injEq] at h; exact fi_frac_parsed H h
          · cases h
        · cases h
    · split at h
      · cases h; exact fi_regular_decimal H _ _
      · cases h
    · split at h
      · split at h
        · simp only [Option.some.injEq] at h; exact fi_mixed_parsed H h
        · cases h
      · split at h
        · simp only [Option.some.injEq] at h; exact fi_frac_parsed H h
        · cases h
      · cases h

theorem fi_rangeValue (H : IeeeHyp α) (rangeExt : Bool) (tokens : List Tok) (v : Value α)
    (h : rangeValue (α := α) rangeExt tokens = some (.ok v)) : v.ParsedOK := by
  unfold rangeValue at h
  split at h
  · cases h
  · split at h
    · cases h
    · simp only at h
      split at h
      · cases h
      · cases h
      · rename_i s hs
        split at h
        · cases h
        · cases h
        · rename_i e he
          cases h
          exact ⟨fi_numericValue H _ _ hs, fi_numericValue H _ _ he⟩
        · rename_i v' _ he
          cases h
          exact fi_numericValue H _ _ he
      · rename_i v' _ hs
        cases h
        exact fi_numericValue H _ _ hs

/-- **`numeric or range value`: the only place where the parser builds numbers** -/
theorem fi_numOrRange (H : IeeeHyp α) (rangeExt : Bool) (tokens : List Tok) (v : Value α)
    (h : numOrRange (α := α) rangeExt tokens = some (.ok v)) : v.ParsedOK := by
  unfold numOrRange at h
  split at h
  · rename_i r hr
    cases h
    exact fi_rangeValue H rangeExt tokens v hr
  · exact fi_numericValue H tokens v h

theorem fi_parsedOK_selfEq (H : IeeeHyp α) (v : Value α) (h : v.ParsedOK) : Serde.valueSelfEq v := by
  cases v with
  | number n => exact fi_numberSelfEq H n h.1 h.2
  | range s e => exact ⟨fi_numberSelfEq H s h.1.1 h.1.2, fi_numberSelfEq H e h.2.1 h.2.2⟩
  | text t => trivial

/-! ### `new_approx` -/

/-- **every fraction `new_approx` builds** — for every arithmetic instance, every table whose entries are well formed
    (`C12_table_ok_any_arith`: every table `mkTable` builds) with denominators that fit `u32`, every whole-part limit
    that fits `u32` — has the promised shape (`0/1`, or `0 < num < den ≤ maxDen`, `den` supported), hence a non-zero
    denominator, parts that fit `u32`, and an error that is not NaN -/
theorem fi_newApprox (H : IeeeHyp α) (denoms : List Nat) (t : List FracEntry) (v acc : α) (maxDen maxWhole : Nat)
    (ht : tableOK denoms t = true) (hden : ∀ d ∈ denoms, d ≤ u32Max) (hmw : maxWhole ≤ u32Max) (n : Number α)
    (h : newApprox t v acc maxDen maxWhole = some n) :
    n.FracOK ∧ n.ApproxShape denoms maxDen ∧ (∀ x, n = .regular x → x = v ∧ Arith.isFinite v = true) := by
  unfold newApprox at h
  split at h
  · cases h
  · rename_i hfin
    simp only [Bool.or_eq_true, Bool.not_eq_true', not_or, Bool.not_eq_true, Bool.not_eq_false] at hfin
    have hvfin : Arith.isFinite v = true := by
      cases hf : Arith.isFinite v with
      | true => rfl
      | false => exact absurd hf (by simp [hfin.2])
    simp only at h
    split at h
    · cases h
    · rename_i hwhole
      simp only [Bool.or_eq_true, decide_eq_true_eq, not_or] at hwhole
      split at h
      · cases h
        exact ⟨trivial, trivial, fun x hx => by cases hx; exact ⟨rfl, hvfin⟩⟩
      · split at h
        · rename_i hr
          simp only [Bool.and_eq_true, decide_eq_true_eq] at hr
          cases h
          refine ⟨⟨by decide, by omega, Nat.zero_le _, by decide, ?_⟩, Or.inl ⟨rfl, rfl⟩, fun x hx => by cases hx⟩
          exact H.sub _ _ hvfin (H.round _ hvfin)
        · split at h
          · cases h
          · rename_i e he
            split at h
            · cases h
            · cases h
              have hm := lookupKey_mem t _ maxDen e he
              have hok := (List.all_eq_true.mp ht) e hm.1
              simp only [entryOK, Bool.and_eq_true, decide_eq_true_eq, List.contains_eq_mem] at hok
              have hd := hden e.den hok.2
              have hw : Arith.toU32 (Arith.trunc v) ≤ u32Max := by omega
              refine ⟨⟨by omega, hw, by omega, hd, ?_⟩, Or.inr ⟨hok.1.1, hok.1.2, hm.2, hok.2⟩,
                fun x hx => by cases hx⟩
              exact H.sub _ _ hvfin (H.small _ _ _ hw (by omega) hd (by omega))

/-- … so its value is not NaN -/
theorem fi_newApprox_selfEq (H : IeeeHyp α) (denoms : List Nat) (t : List FracEntry) (v acc : α)
    (maxDen maxWhole : Nat) (ht : tableOK denoms t = true) (hden : ∀ d ∈ denoms, d ≤ u32Max)
    (hmw : maxWhole ≤ u32Max) (n : Number α) (h : newApprox t v acc maxDen maxWhole = some n) :
    Serde.numberSelfEq n := by
  obtain ⟨h1, _, h3⟩ := fi_newApprox H denoms t v acc maxDen maxWhole ht hden hmw n h
  exact fi_numberSelfEq H n h1 (fun x hx => by rw [(h3 x hx).1]; exact H.finite _ (h3 x hx).2)

/-! ### `linear_scale` -/

/-- `linear_scale` of a value whose numbers have finite values, by a finite factor: no NaN -/
theorem fi_linearScale (H : IeeeHyp α) (v v' : Value α) (f : α) (hf : Arith.isFinite f = true)
    (hv : match v with
      | .number n => Arith.isFinite n.value = true
      | .range s e => Arith.isFinite s.value = true ∧ Arith.isFinite e.value = true
      | .text _ => True)
    (h : linearScale v f = some v') : Serde.valueSelfEq v' := by
  cases v with
  | number n => cases h; exact H.mul _ _ hv hf
  | range s e => cases h; exact ⟨H.mul _ _ hv.1 hf, H.mul _ _ hv.2 hf⟩
  | text t => cases h

/-! ### over ℚ the IEEE facts are theorems -/

theorem fi_ieeeHyp_rat : IeeeHyp Rat := by
  constructor <;> intros <;> simp [notNaN, Arith.eq, Arith.isFinite]

end Cook
