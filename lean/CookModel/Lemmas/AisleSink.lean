import CookModel.Side.AisleSink
/- C11 — a destination that accepts fewer bytes than offered still receives the whole text (`asink_`). -/
namespace Cook.Aisle

theorem asink_utf8_append (a b : List Char) : utf8 (a ++ b) = utf8 a ++ utf8 b := by simp [utf8]

theorem asink_utf8_flatten (ps : List (List Char)) : (ps.map utf8).flatten = utf8 ps.flatten := by
  induction ps with
  | nil => rfl
  | cons p ps ih => simp [ih, asink_utf8_append]

theorem asink_joinSep_pieces (n : List Char) (ns : List (List Char)) :
    (n :: ns.flatMap (fun m => [['|'], m])).flatten = joinSep '|' (n :: ns) := by
  induction ns generalizing n with
  | nil => simp [joinSep]
  | cons m ms ih =>
    have := ih m
    simp only [List.flatMap_cons, List.flatten_cons, List.cons_append, List.nil_append] at this ⊢
    simp [joinSep, this]

theorem asink_igrPieces (i : Ingredient) : (igrPieces i).flatten = writeIgr i := by
  unfold igrPieces writeIgr
  cases h : i.names with
  | nil => simp
  | cons n ns =>
    have := asink_joinSep_pieces n ns
    simp only [List.flatten_cons] at this
    simp only [List.flatten_append, List.flatten_cons, List.flatten_nil, List.append_nil, List.cons_append,
      List.isEmpty_cons, Bool.false_eq_true, if_false, joinBar]
    rw [← this, List.append_assoc]

theorem asink_catPieces (c : Category) : (catPieces c).flatten = writeCat c := by
  unfold catPieces writeCat
  have : (c.ingredients.flatMap igrPieces).flatten = c.ingredients.flatMap writeIgr := by
    induction c.ingredients with
    | nil => rfl
    | cons i is ih => simp [List.flatMap_cons, asink_igrPieces, ih]
  simp [List.flatten_append, this]

/-- the pieces handed to the destination, one after the other, are the written text -/
theorem asink_writePieces (c : Conf) : (writePieces c).flatten = write c := by
  unfold writePieces write
  induction c.categories with
  | nil => rfl
  | cons x xs ih => simp [List.flatMap_cons, asink_catPieces, ih]

/-- `write_all` on a sink that accepts at least one byte per call while it has room: the sink gets the bytes that fit,
    in order, and the call succeeds iff all of them fit -/
theorem asink_writeAll (s : Sink) (buf : List UInt8) (hp : 0 < s.perCall) :
    (writeAll s buf).1.out = s.out ++ buf.take s.room ∧ (writeAll s buf).1.perCall = s.perCall ∧
    (writeAll s buf).1.cap = s.cap ∧ ((writeAll s buf).2 = true ↔ buf.length ≤ s.room) := by
  induction hn : buf.length using Nat.strongRecOn generalizing s buf with
  | _ n ih =>
    unfold writeAll
    by_cases he : buf.isEmpty
    · have : buf = [] := by simpa using he
      subst this
      simp only [List.length_nil] at hn
      subst hn
      simp
    · have hlen : 0 < buf.length := by
        cases buf with
        | nil => simp at he
        | cons _ _ => simp
      simp only [he, Bool.false_eq_true, if_false]
      by_cases hz : (s.write buf).2 = 0
      · simp only [hz, if_true]
        have hroom : s.room = 0 := by
          simp only [Sink.write] at hz
          omega
        simp [Sink.write, hroom]
        omega
      · simp only [hz, if_false]
        have hk : (s.write buf).2 = min (min s.perCall s.room) buf.length := rfl
        have hk1 : (s.write buf).2 ≤ s.room := by rw [hk]; omega
        have hk2 : (s.write buf).2 ≤ buf.length := by rw [hk]; omega
        have hs' : (s.write buf).1.out = s.out ++ buf.take (s.write buf).2 := rfl
        have hroom' : (s.write buf).1.room = s.room - (s.write buf).2 := by
          simp only [Sink.room, hs', List.length_append, List.length_take]
          show s.cap - (s.out.length + min (s.write buf).2 buf.length) = s.cap - s.out.length - (s.write buf).2
          omega
        have := ih (buf.length - (s.write buf).2) (by omega) (s.write buf).1 (buf.drop (s.write buf).2) hp
          (by simp)
        obtain ⟨h1, h2, h3, h4⟩ := this
        refine ⟨?_, h2, h3, ?_⟩
        · rw [h1, hs', hroom', List.append_assoc]
          congr 1
          have : s.room = (s.write buf).2 + (s.room - (s.write buf).2) := by omega
          conv => rhs; rw [this, List.take_add]
        · rw [h4, hroom']
          omega

theorem asink_writeAllSeq (s : Sink) (ps : List (List UInt8)) (hp : 0 < s.perCall) :
    (writeAllSeq s ps).1.out = s.out ++ ps.flatten.take s.room ∧ ((writeAllSeq s ps).2 = true ↔ ps.flatten.length ≤ s.room) := by
  induction ps generalizing s with
  | nil => simp [writeAllSeq]
  | cons p ps ih =>
    obtain ⟨h1, h2, h3, h4⟩ := asink_writeAll s p hp
    unfold writeAllSeq
    by_cases hok : (writeAll s p).2 = true
    · simp only [hok, if_true]
      have hle := h4.mp hok
      have hroom' : (writeAll s p).1.room = s.room - p.length := by
        simp only [Sink.room, h1, h3, List.length_append, List.length_take]
        omega
      obtain ⟨i1, i2⟩ := ih (writeAll s p).1 (by rw [h2]; exact hp)
      refine ⟨?_, ?_⟩
      · rw [i1, h1, hroom', List.take_of_length_le hle, List.flatten_cons, List.take_append, List.take_of_length_le hle,
          List.append_assoc]
      · rw [i2, hroom', List.flatten_cons, List.length_append]
        omega
    · simp only [hok, Bool.false_eq_true, if_false]
      have hgt : s.room < p.length := by
        have : ¬ p.length ≤ s.room := fun h => hok (h4.mpr h)
        omega
      refine ⟨?_, ?_⟩
      · rw [h1, List.flatten_cons, List.take_append]
        have : s.room - p.length = 0 := by omega
        simp [this]
      · simp only [List.flatten_cons, List.length_append]
        constructor
        · intro h; cases h
        · intro h; omega

/-- `aisle::write` into a sink that accepts at least one byte per call while it has room -/
theorem asink_writeTo (c : Conf) (s : Sink) (hp : 0 < s.perCall) :
    (writeTo c s).1.out = s.out ++ (utf8 (write c)).take s.room ∧
    ((writeTo c s).2 = true ↔ (utf8 (write c)).length ≤ s.room) := by
  have := asink_writeAllSeq s ((writePieces c).map utf8) hp
  rw [asink_utf8_flatten, asink_writePieces] at this
  exact this

end Cook.Aisle
