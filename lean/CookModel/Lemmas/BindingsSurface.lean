import CookModel.Side.BindingsSurfaceSpec
import CookModel.Side.AisleSpec
import CookModel.Lemmas.Bindings
import CookModel.Lemmas.BindingsCombine
/-
  Lemmas for the rest of the bindings' public surface (C19, "bindings coverage"): the reverse cache of
  the aisle wrapper, the view's metadata map, the reference lists.  Prefix `bsf_`.
-/
namespace Cook.Ffi
open Cook

/-! ### `HashMap::insert` on association lists -/

theorem bsf_get_insert {κ β} [DecidableEq κ] (m : AList κ β) (k : κ) (v : β) (k' : κ) :
    AList.get (AList.insert m k v) k' = if k = k' then some v else AList.get m k' := by
  induction m with
  | nil => simp [AList.insert, AList.get]
  | cons p rest ih =>
    obtain ⟨a, b⟩ := p
    by_cases h : a = k
    · subst h
      simp only [AList.insert, if_true, AList.get]
      by_cases h2 : a = k' <;> simp [h2]
    · simp only [AList.insert, if_neg h, AList.get, ih]
      by_cases h2 : a = k'
      · subst h2
        have : ¬ k = a := fun e => h e.symm
        simp [this]
      · simp [h2]

theorem bsf_keys_insert {κ β} [DecidableEq κ] (m : AList κ β) (k : κ) (v : β) :
    AList.keys (AList.insert m k v) = if k ∈ AList.keys m then AList.keys m else AList.keys m ++ [k] := by
  induction m with
  | nil => simp [AList.insert, AList.keys]
  | cons p rest ih =>
    obtain ⟨a, b⟩ := p
    by_cases h : a = k
    · subst h; simp [AList.insert, AList.keys]
    · have ih' : List.map Prod.fst (AList.insert rest k v) =
          if k ∈ List.map Prod.fst rest then List.map Prod.fst rest else List.map Prod.fst rest ++ [k] := ih
      have hk : ¬ k = a := fun e => h e.symm
      simp only [AList.insert, if_neg h, AList.keys, List.map_cons, List.mem_cons, hk, false_or, ih']
      split <;> simp

theorem bsf_keys_insert_nodup {κ β} [DecidableEq κ] (m : AList κ β) (k : κ) (v : β)
    (h : (AList.keys m).Nodup) : (AList.keys (AList.insert m k v)).Nodup := by
  rw [bsf_keys_insert]
  split
  · exact h
  · rename_i hk
    rw [List.nodup_append]
    exact ⟨h, by simp, fun a ha b hb => by
      simp only [List.mem_singleton] at hb; subst hb; exact fun e => hk (e ▸ ha)⟩

/-- inserting a list of entries one after the other -/
def insertAll {κ β} [DecidableEq κ] (m : AList κ β) (es : List (κ × β)) : AList κ β :=
  es.foldl (fun m e => AList.insert m e.1 e.2) m

theorem bsf_insertAll_append {κ β} [DecidableEq κ] (m : AList κ β) (a b : List (κ × β)) :
    insertAll m (a ++ b) = insertAll (insertAll m a) b := by
  simp [insertAll, List.foldl_append]

/-- the last entry under a key is the one that stays -/
theorem bsf_get_insertAll {κ β} [DecidableEq κ] (es : List (κ × β)) : ∀ (m : AList κ β) (k : κ),
    AList.get (insertAll m es) k =
      ((es.reverse.find? (fun e => decide (e.1 = k))).map (·.2)).or (AList.get m k) := by
  induction es with
  | nil => intro m k; simp [insertAll]
  | cons e rest ih =>
    intro m k
    have : insertAll m (e :: rest) = insertAll (AList.insert m e.1 e.2) rest := rfl
    rw [this, ih, List.reverse_cons, List.find?_append]
    cases h : rest.reverse.find? (fun e => decide (e.1 = k)) with
    | some x => simp
    | none =>
      simp only [Option.none_or, bsf_get_insert, List.find?_cons, List.find?_nil]
      by_cases hk : e.1 = k <;> simp [hk]

theorem bsf_keys_insertAll_nodup {κ β} [DecidableEq κ] (es : List (κ × β)) : ∀ (m : AList κ β),
    (AList.keys m).Nodup → (AList.keys (insertAll m es)).Nodup := by
  induction es with
  | nil => intro m h; exact h
  | cons e rest ih => intro m h; exact ih _ (bsf_keys_insert_nodup m e.1 e.2 h)

theorem bsf_mem_keys_insertAll {κ β} [DecidableEq κ] (es : List (κ × β)) : ∀ (m : AList κ β) (k : κ),
    k ∈ AList.keys (insertAll m es) ↔ k ∈ AList.keys m ∨ k ∈ es.map Prod.fst := by
  induction es with
  | nil => intro m k; simp [insertAll]
  | cons e rest ih =>
    intro m k
    have : insertAll m (e :: rest) = insertAll (AList.insert m e.1 e.2) rest := rfl
    rw [this, ih, bsf_keys_insert]
    split <;> rename_i hm
    · simp only [List.map_cons, List.mem_cons]
      constructor
      · rintro (h | h)
        · exact .inl h
        · exact .inr (.inr h)
      · rintro (h | h | h)
        · exact .inl h
        · exact .inl (h ▸ hm)
        · exact .inr h
    · simp only [List.mem_append, List.map_cons, List.mem_cons, List.not_mem_nil, or_false]
      constructor
      · rintro ((h | h) | h)
        · exact .inl h
        · exact .inr (.inl h)
        · exact .inr (.inr h)
      · rintro (h | h | h)
        · exact .inl (.inl h)
        · exact .inl (.inr h)
        · exact .inr h

/-! ### the aisle wrapper -/

/-- the wrapper's ingredient for a core ingredient line: first name, then the aliases -/
def viewIgr (i : Aisle.Ingredient) : AisleIngredient := ⟨i.names.headD [], i.names.tail⟩
def viewCat (c : Aisle.Category) : AisleCategory := ⟨c.name, c.ingredients.map viewIgr⟩

/-- the `cache.insert` calls of `parse_aisle_config`, in order -/
def cacheEntries (cats : List AisleCategory) : List (Str × Str) :=
  cats.flatMap fun c => c.ingredients.flatMap fun i => (i.name :: i.aliases).map fun n => (n, c.name)

theorem bsf_cacheIngredient (cat : Str) (cache : AList Str Str) (i : AisleIngredient) :
    cacheIngredient cat cache i = insertAll cache ((i.name :: i.aliases).map fun n => (n, cat)) := by
  simp [cacheIngredient, insertAll, List.foldl_map]

theorem bsf_cacheIngredients (cat : Str) (igrs : List AisleIngredient) : ∀ (cache : AList Str Str),
    igrs.foldl (cacheIngredient cat) cache =
      insertAll cache (igrs.flatMap fun i => (i.name :: i.aliases).map fun n => (n, cat)) := by
  induction igrs with
  | nil => intro cache; rfl
  | cons i rest ih =>
    intro cache
    rw [List.foldl_cons, ih, bsf_cacheIngredient, List.flatMap_cons, bsf_insertAll_append]

theorem bsf_cacheCategory (cache : AList Str Str) (c : AisleCategory) :
    cacheCategory cache c = insertAll cache (cacheEntries [c]) := by
  simp [cacheCategory, bsf_cacheIngredients, cacheEntries]

theorem bsf_cacheEntries_append (a b : List AisleCategory) :
    cacheEntries (a ++ b) = cacheEntries a ++ cacheEntries b := by
  simp [cacheEntries]

theorem bsf_intoAisleIngredients (igrs : List Aisle.Ingredient) (h : ∀ i ∈ igrs, i.names ≠ []) :
    intoAisleIngredients igrs = .ok (igrs.map viewIgr) := by
  induction igrs with
  | nil => rfl
  | cons i rest ih =>
    have hi := h i List.mem_cons_self
    have ih' := ih (fun j hj => h j (List.mem_cons_of_mem _ hj))
    obtain ⟨names⟩ := i
    cases names with
    | nil => exact absurd rfl hi
    | cons n ns => simp [intoAisleIngredients, intoAisleIngredient, ih', viewIgr]

theorem bsf_intoCategory (c : Aisle.Category) (h : ∀ i ∈ c.ingredients, i.names ≠ []) :
    intoCategory c = .ok (viewCat c) := by
  simp [intoCategory, bsf_intoAisleIngredients _ h, viewCat]

theorem bsf_parseAisleLoop (cats : List Aisle.Category) : ∀ (acc : FAisleConf),
    (∀ c ∈ cats, ∀ i ∈ c.ingredients, i.names ≠ []) →
    parseAisleLoop cats acc =
      .ok ⟨acc.categories ++ cats.map viewCat, insertAll acc.cache (cacheEntries (cats.map viewCat))⟩ := by
  induction cats with
  | nil => intro acc _; simp [parseAisleLoop, cacheEntries, insertAll]
  | cons c rest ih =>
    intro acc h
    have hc := bsf_intoCategory c (h c List.mem_cons_self)
    simp only [parseAisleLoop, hc]
    rw [ih _ (fun d hd => h d (List.mem_cons_of_mem _ hd))]
    simp only [bsf_cacheCategory, List.map_cons, List.append_assoc, List.singleton_append]
    rw [← bsf_insertAll_append, ← bsf_cacheEntries_append]
    rfl

theorem bsf_intoAisleIngredients_panics (igrs : List Aisle.Ingredient) (hex : ∃ i ∈ igrs, i.names = []) :
    intoAisleIngredients igrs = .error (.unwrapNone "into_category") := by
  induction igrs with
  | nil => obtain ⟨i, hi, _⟩ := hex; simp at hi
  | cons j js ihj =>
    obtain ⟨names⟩ := j
    cases names with
    | nil => simp [intoAisleIngredients, intoAisleIngredient]
    | cons n ns =>
      have : ∃ i ∈ js, i.names = [] := by
        obtain ⟨i, hi, hn⟩ := hex
        rcases List.mem_cons.mp hi with rfl | hi
        · simp at hn
        · exact ⟨i, hi, hn⟩
      simp [intoAisleIngredients, intoAisleIngredient, ihj this]

/-- an ingredient line without a name makes the wrapper panic in `into_category` -/
theorem bsf_parseAisleLoop_panics (cats : List Aisle.Category) : ∀ (acc : FAisleConf),
    (∃ c ∈ cats, ∃ i ∈ c.ingredients, i.names = []) →
    parseAisleLoop cats acc = .error (.unwrapNone "into_category") := by
  induction cats with
  | nil => intro acc ⟨c, hc, _⟩; simp at hc
  | cons c rest ih =>
    intro acc h
    by_cases hc : ∀ i ∈ c.ingredients, i.names ≠ []
    · simp only [parseAisleLoop, bsf_intoCategory c hc]
      apply ih
      obtain ⟨d, hd, i, hi, hn⟩ := h
      rcases List.mem_cons.mp hd with rfl | hd
      · exact absurd hn (hc i hi)
      · exact ⟨d, hd, i, hi, hn⟩
    · have hex : ∃ i ∈ c.ingredients, i.names = [] := by
        apply Classical.byContradiction
        intro hne
        exact hc (fun i hi hn => hne ⟨i, hi, hn⟩)
      simp [parseAisleLoop, intoCategory, bsf_intoAisleIngredients_panics _ hex]

theorem bsf_flatMap_congr {β γ : Type} (l : List β) (f g : β → List γ) (h : ∀ x ∈ l, f x = g x) :
    l.flatMap f = l.flatMap g := by
  simp only [List.flatMap_def]
  rw [List.map_congr_left h]

/-- the cache entries are the entries of the core configuration's `ingredients_info`, reduced to
    (name, category) -/
theorem bsf_cacheEntries_eq (cats : List Aisle.Category) (h : ∀ c ∈ cats, ∀ i ∈ c.ingredients, i.names ≠ []) :
    cacheEntries (cats.map viewCat) = (Aisle.infoEntries ⟨cats⟩).map (fun e => (e.1, e.2.category)) := by
  simp only [cacheEntries, Aisle.infoEntries, List.flatMap_map, List.map_flatMap, viewCat]
  apply bsf_flatMap_congr
  intro c hc
  apply bsf_flatMap_congr
  intro i hi
  have hn := h c hc i hi
  obtain ⟨names⟩ := i
  cases names with
  | nil => exact absurd rfl hn
  | cons n ns => simp [viewIgr, Aisle.igrEntries]

theorem bsf_find_map_entries (l : List (List Char × Aisle.Info)) (k : List Char) :
    (((l.map (fun e => (e.1, e.2.category))).reverse.find? (fun e => decide (e.1 = k))).map (·.2)) =
    ((l.reverse.find? (fun e => e.1 == k)).map (·.2)).map (·.category) := by
  have hfun : (fun e : List Char × Aisle.Info => e.1 == k) = (fun e => decide (e.1 = k)) := by
    funext e; by_cases h : e.1 = k <;> simp [h]
  rw [← List.map_reverse, List.find?_map, hfun]
  cases h : l.reverse.find? (fun e => decide (e.1 = k)) with
  | none =>
    have : List.find? ((fun e : List Char × List Char => decide (e.1 = k)) ∘ fun e : List Char × Aisle.Info => (e.1, e.2.category)) l.reverse = none := by
      simpa [Function.comp_def] using h
    simp [this]
  | some x =>
    have : List.find? ((fun e : List Char × List Char => decide (e.1 = k)) ∘ fun e : List Char × Aisle.Info => (e.1, e.2.category)) l.reverse = some x := by
      simpa [Function.comp_def] using h
    simp [this]

/-- `category_for` of the wrapper is the category of the core configuration's lookup -/
theorem bsf_categoryFor (c : Aisle.Conf) (h : ∀ cat ∈ c.categories, ∀ i ∈ cat.ingredients, i.names ≠ [])
    (v : FAisleConf) (hv : parseAisleLoop c.categories ⟨[], []⟩ = .ok v) (n : Str) :
    v.categoryFor n = (Aisle.lookup c n).map (·.category) := by
  obtain ⟨cats⟩ := c
  rw [bsf_parseAisleLoop _ _ h] at hv
  cases hv
  simp only [FAisleConf.categoryFor, bsf_get_insertAll, bsf_cacheEntries_eq _ h, AList.get, Aisle.lookup,
    Option.or_none]
  exact bsf_find_map_entries _ n

/-! ### relations on lists -/

theorem bsf_forall₂_of_map {β γ : Type} {R : β → γ → Prop} {f : β → γ} (l : List β)
    (h : ∀ x ∈ l, R x (f x)) : Forall₂ R l (l.map f) := forall₂_map_of_forall h

theorem bsf_forall₂_mem_right {β γ : Type} {R : β → γ → Prop} {l₁ : List β} {l₂ : List γ}
    (h : Forall₂ R l₁ l₂) : ∀ y ∈ l₂, ∃ x ∈ l₁, R x y := by
  induction h with
  | nil => intro y hy; simp at hy
  | cons hr _ ih =>
    intro y hy
    rcases List.mem_cons.mp hy with rfl | hy
    · exact ⟨_, List.mem_cons_self, hr⟩
    · obtain ⟨x, hx, hxy⟩ := ih y hy
      exact ⟨x, List.mem_cons_of_mem _ hx, hxy⟩

/-! ### the metadata map -/

theorem bsf_intoMetadata_eq (es : List MetaEntry) : ∀ (m : AList Str Str),
    es.foldl metaStep m = insertAll m (stringEntries es) := by
  induction es with
  | nil => intro m; rfl
  | cons e rest ih =>
    intro m
    obtain ⟨k, v⟩ := e
    rw [List.foldl_cons, ih]
    cases k <;> cases v <;> simp [metaStep, stringEntries, insertAll]

end Cook.Ffi
