import CookModel.Lemmas.CollectorFold
import CookModel.Syntax.Blocks
/-
  A Hoare layer for what the block parsers do to the EVENT QUEUE (`BP.evs`).

  `Keeps I m R`: from every parser state whose event queue satisfies the invariant `I`, running `m`
  leaves a queue satisfying `I` and returns a result satisfying `R`.  Events are only ever appended,
  and all parsers below the step/text-block loops only push diagnostics, so every invariant that is
  stable under pushing an error or a warning (`DiagStable`) is kept by all of them; the instances
  used are "every event satisfies `Q`" (`AllQ Q`) and "the queue extends `base` by events satisfying
  `Q`" (`ExtQ base Q`).
-/
set_option linter.unusedSectionVars false
set_option linter.unusedVariables false
set_option linter.unusedSimpArgs false
namespace Cook

variable {α : Type} [Arith α]

/-- an invariant of the event queue that survives pushing a diagnostic -/
class DiagStable (I : Array (Ev α) → Prop) : Prop where
  err : ∀ evs d, I evs → I (evs.push (.error d))
  warn : ∀ evs d, I evs → I (evs.push (.warning d))

/-- every event of the queue satisfies `Q` -/
def AllQ (Q : Ev α → Prop) (evs : Array (Ev α)) : Prop := ∀ ev ∈ evs.toList, Q ev

theorem AllQ.push {Q : Ev α → Prop} {evs : Array (Ev α)} (h : AllQ Q evs) {ev : Ev α} (hev : Q ev) :
    AllQ Q (evs.push ev) := by
  intro e he
  simp only [Array.toList_push, List.mem_append, List.mem_singleton] at he
  rcases he with he | rfl
  · exact h e he
  · exact hev

/-- the queue is `base` followed by events satisfying `Q` -/
def ExtQ (base : Array (Ev α)) (Q : Ev α → Prop) (evs : Array (Ev α)) : Prop :=
  ∃ l : List (Ev α), evs = base ++ l.toArray ∧ ∀ e ∈ l, Q e

theorem ExtQ.refl (base : Array (Ev α)) (Q : Ev α → Prop) : ExtQ base Q base := ⟨[], by simp, by simp⟩

theorem ExtQ.push {base : Array (Ev α)} {Q : Ev α → Prop} {evs : Array (Ev α)} (h : ExtQ base Q evs)
    {ev : Ev α} (hev : Q ev) : ExtQ base Q (evs.push ev) := by
  obtain ⟨l, h1, h2⟩ := h
  refine ⟨l ++ [ev], ?_, ?_⟩
  · rw [h1]; simp
  · intro e he
    simp only [List.mem_append, List.mem_singleton] at he
    rcases he with he | rfl
    · exact h2 e he
    · exact hev

/-- the predicates on events whose `AllQ`/`ExtQ` are diagnostic-stable -/
class DiagQ (Q : Ev α → Prop) : Prop where
  err : ∀ d, Q (.error d)
  warn : ∀ d, Q (.warning d)

instance {Q : Ev α → Prop} [DiagQ Q] : DiagStable (AllQ Q) :=
  ⟨fun _ d h => h.push (DiagQ.err d), fun _ d h => h.push (DiagQ.warn d)⟩

instance {base : Array (Ev α)} {Q : Ev α → Prop} [DiagQ Q] : DiagStable (ExtQ base Q) :=
  ⟨fun _ d h => h.push (DiagQ.err d), fun _ d h => h.push (DiagQ.warn d)⟩

variable {I : Array (Ev α) → Prop} [DiagStable I]

/-- `m` keeps the invariant `I` of the event queue and returns a result satisfying `R` -/
structure Keeps (I : Array (Ev α) → Prop) {β : Type} (m : P α β) (R : β → Prop) : Prop where
  run : ∀ s : BP α, I s.evs → I (m s).2.evs ∧ R (m s).1

namespace Keeps
variable {β γ : Type}

theorem pure {a : β} {R : β → Prop} (h : R a) : Keeps I (Pure.pure a : P α β) R := ⟨fun s hs => ⟨hs, h⟩⟩

theorem bind {m : P α β} {k : β → P α γ} {R : β → Prop} {R' : γ → Prop}
    (hm : Keeps I m R) (hk : ∀ a, R a → Keeps I (k a) R') : Keeps I (m >>= k) R' := by
  constructor
  intro s hs
  obtain ⟨h1, h2⟩ := hm.run s hs
  exact (hk _ h2).run _ h1

theorem mono {m : P α β} {R R' : β → Prop} (h : Keeps I m R) (hr : ∀ a, R a → R' a) : Keeps I m R' :=
  ⟨fun s hs => ⟨(h.run s hs).1, hr _ (h.run s hs).2⟩⟩

theorem weaken {m : P α β} {R : β → Prop} (h : Keeps I m R) : Keeps I m (fun _ => True) :=
  h.mono (fun _ _ => trivial)

/-- after `get` the state at hand has an all-`EvOK` queue -/
theorem get_bind {k : BP α → P α γ} {R' : γ → Prop} (h : ∀ s0 : BP α, I s0.evs → Keeps I (k s0) R') :
    Keeps I (get >>= k) R' := ⟨fun s hs => (h s hs).run s hs⟩

theorem get : Keeps I (get : P α (BP α)) (fun s0 => I s0.evs) := ⟨fun s hs => ⟨hs, hs⟩⟩

theorem set {s1 : BP α} (h : I s1.evs) : Keeps I (set s1 : P α PUnit) (fun _ => True) :=
  ⟨fun s hs => ⟨h, trivial⟩⟩

theorem modify (f : BP α → BP α) (h : ∀ s, (f s).evs = s.evs) : Keeps I (modify f : P α PUnit) (fun _ => True) :=
  ⟨fun s hs => ⟨by show I (f s).evs; rw [h s]; exact hs, trivial⟩⟩

theorem pushEv {ev : Ev α} (h : ∀ evs, I evs → I (evs.push ev)) : Keeps I (pushEv ev) (fun _ => True) :=
  ⟨fun s hs => ⟨h _ hs, trivial⟩⟩

theorem pushErr (d : Diag) : Keeps I (Cook.pushEv (α := α) (.error d)) (fun _ => True) :=
  pushEv (fun evs h => DiagStable.err evs _ h)
theorem pushWarn (d : Diag) : Keeps I (Cook.pushEv (α := α) (.warning d)) (fun _ => True) :=
  pushEv (fun evs h => DiagStable.warn evs _ h)

theorem perr (k : String) (l : List Span) : Keeps I (perr (α := α) k l) (fun _ => True) :=
  pushEv (fun evs h => DiagStable.err evs _ h)
theorem pwarn (k : String) (l : List Span) : Keeps I (pwarn (α := α) k l) (fun _ => True) :=
  pushEv (fun evs h => DiagStable.warn evs _ h)

theorem panicWith (site : String) : Keeps I (panicWith (α := α) site) (fun _ => True) :=
  modify _ (fun s => by split <;> rfl)

theorem getCur : Keeps I (getCur (α := α)) (fun _ => True) := ⟨fun s hs => ⟨hs, trivial⟩⟩
theorem setCur (c : Nat) : Keeps I (setCur (α := α) c) (fun _ => True) := modify _ (fun _ => rfl)

theorem withRecover {f : P α (Option β)} {R : Option β → Prop} (h : Keeps I f R) : Keeps I (withRecover f) R := by
  unfold Cook.withRecover
  refine bind getCur (fun old _ => ?_)
  refine bind h (fun r hr => ?_)
  dsimp only
  split
  · exact bind (setCur _) (fun _ _ => Keeps.pure hr)
  · exact Keeps.pure hr

end Keeps

/-- leaves of `keeps`; extended by `macro_rules` as more parsers are proved -/
syntax "keeps_leaf" : tactic
macro_rules | `(tactic| keeps_leaf) => `(tactic| first
  | ((with_reducible refine Keeps.pure (R := fun _ => True) ?_) <;> exact True.intro)
  | ((with_reducible refine Keeps.pure ?_) <;> exact True.intro)
  | with_reducible exact Keeps.modify _ (fun _ => rfl)
  | ((with_reducible refine Keeps.set ?_) <;> assumption)
  | with_reducible exact Keeps.perr _ _
  | with_reducible exact Keeps.pushErr _
  | with_reducible exact Keeps.pushWarn _
  | with_reducible exact Keeps.pwarn _ _
  | with_reducible exact Keeps.panicWith _
  | with_reducible exact Keeps.getCur
  | with_reducible exact Keeps.setCur _
  | with_reducible assumption)

/-- decomposes a `Keeps` goal along the structure of the `do` block; goals it cannot close are left -/
macro "keeps" : tactic => `(tactic|
  repeat' (first
    | intro _
    | keeps_leaf
    | with_reducible apply Keeps.get_bind
    | with_reducible apply Keeps.bind
    | with_reducible apply Keeps.withRecover
    | dsimp only
    | split))


section prims

theorem hasExt_keeps (f : Nat) : Keeps I (hasExt (α := α) f) (fun _ => True) := by
  unfold hasExt; keeps
macro_rules | `(tactic| keeps_leaf) => `(tactic| with_reducible exact hasExt_keeps ..)

theorem restToks_keeps  : Keeps I (restToks (α := α)) (fun _ => True) := by
  unfold restToks; keeps
macro_rules | `(tactic| keeps_leaf) => `(tactic| with_reducible exact restToks_keeps ..)

theorem parsedToks_keeps  : Keeps I (parsedToks (α := α)) (fun _ => True) := by
  unfold parsedToks; keeps
macro_rules | `(tactic| keeps_leaf) => `(tactic| with_reducible exact parsedToks_keeps ..)

theorem allToks_keeps  : Keeps I (allToks (α := α)) (fun _ => True) := by
  unfold allToks; keeps
macro_rules | `(tactic| keeps_leaf) => `(tactic| with_reducible exact allToks_keeps ..)

theorem tokensSpanP_keeps (site : String) (ts : List Tok) : Keeps I (tokensSpanP (α := α) site ts) (fun _ => True) := by
  unfold tokensSpanP; keeps
macro_rules | `(tactic| keeps_leaf) => `(tactic| with_reducible exact tokensSpanP_keeps ..)

theorem baseOffset_keeps  : Keeps I (baseOffset (α := α)) (fun _ => True) := by
  unfold baseOffset; keeps
macro_rules | `(tactic| keeps_leaf) => `(tactic| with_reducible exact baseOffset_keeps ..)

theorem currentOffset_keeps  : Keeps I (currentOffset (α := α)) (fun _ => True) := by
  unfold currentOffset; keeps
macro_rules | `(tactic| keeps_leaf) => `(tactic| with_reducible exact currentOffset_keeps ..)

theorem bpSpan_keeps  : Keeps I (bpSpan (α := α)) (fun _ => True) := by
  unfold bpSpan; keeps
macro_rules | `(tactic| keeps_leaf) => `(tactic| with_reducible exact bpSpan_keeps ..)

theorem peekK_keeps  : Keeps I (peekK (α := α)) (fun _ => True) := by
  unfold peekK; keeps
macro_rules | `(tactic| keeps_leaf) => `(tactic| with_reducible exact peekK_keeps ..)

theorem atK_keeps (k : TK) : Keeps I (atK (α := α) k) (fun _ => True) := by
  unfold atK; keeps
macro_rules | `(tactic| keeps_leaf) => `(tactic| with_reducible exact atK_keeps ..)

theorem nextToken_keeps  : Keeps I (nextToken (α := α)) (fun _ => True) := by
  unfold nextToken; keeps
macro_rules | `(tactic| keeps_leaf) => `(tactic| with_reducible exact nextToken_keeps ..)

theorem bumpAny_keeps  : Keeps I (bumpAny (α := α)) (fun _ => True) := by
  unfold bumpAny; keeps
macro_rules | `(tactic| keeps_leaf) => `(tactic| with_reducible exact bumpAny_keeps ..)

theorem bump_keeps (k : TK) : Keeps I (bump (α := α) k) (fun _ => True) := by
  unfold bump; keeps
macro_rules | `(tactic| keeps_leaf) => `(tactic| with_reducible exact bump_keeps ..)

theorem untilK_keeps (f : TK → Bool) : Keeps I (untilK (α := α) f) (fun _ => True) := by
  unfold untilK; keeps
macro_rules | `(tactic| keeps_leaf) => `(tactic| with_reducible exact untilK_keeps ..)

theorem consumeWhile_keeps (f : TK → Bool) : Keeps I (consumeWhile (α := α) f) (fun _ => True) := by
  unfold consumeWhile; keeps
macro_rules | `(tactic| keeps_leaf) => `(tactic| with_reducible exact consumeWhile_keeps ..)

theorem wsComments_keeps  : Keeps I (wsComments (α := α)) (fun _ => True) := by
  unfold wsComments; keeps
macro_rules | `(tactic| keeps_leaf) => `(tactic| with_reducible exact wsComments_keeps ..)

theorem consumeK_keeps (k : TK) : Keeps I (consumeK (α := α) k) (fun _ => True) := by
  unfold consumeK; keeps
macro_rules | `(tactic| keeps_leaf) => `(tactic| with_reducible exact consumeK_keeps ..)

theorem consumeRest_keeps  : Keeps I (consumeRest (α := α)) (fun _ => True) := by
  unfold consumeRest; keeps
macro_rules | `(tactic| keeps_leaf) => `(tactic| with_reducible exact consumeRest_keeps ..)

theorem bpText_keeps (off : Nat) (ts : List Tok) : Keeps I (bpText (α := α) off ts) (fun _ => True) := by
  unfold bpText; keeps
macro_rules | `(tactic| keeps_leaf) => `(tactic| with_reducible exact bpText_keeps ..)

theorem scalingLock_keeps  : Keeps I (scalingLock (α := α)) (fun _ => True) := by
  unfold scalingLock; keeps
macro_rules | `(tactic| keeps_leaf) => `(tactic| with_reducible exact scalingLock_keeps ..)

theorem textValue_keeps (ts : List Tok) (off : Nat) : Keeps I (textValue (α := α) ts off) (fun _ => True) := by
  unfold textValue; keeps
macro_rules | `(tactic| keeps_leaf) => `(tactic| with_reducible exact textValue_keeps ..)

theorem parseValue_keeps (ts : List Tok) : Keeps I (parseValue (α := α) ts) (fun _ => True) := by
  unfold parseValue; keeps
macro_rules | `(tactic| keeps_leaf) => `(tactic| with_reducible exact parseValue_keeps ..)

theorem qvalue_keeps  : Keeps I (qvalue (α := α)) (fun _ => True) := by
  unfold qvalue; keeps
macro_rules | `(tactic| keeps_leaf) => `(tactic| with_reducible exact qvalue_keeps ..)

theorem parseRegularQuantity_keeps  : Keeps I (parseRegularQuantity (α := α)) (fun _ => True) := by
  unfold parseRegularQuantity; keeps
macro_rules | `(tactic| keeps_leaf) => `(tactic| with_reducible exact parseRegularQuantity_keeps ..)

theorem parseAdvancedQuantity_keeps  : Keeps I (parseAdvancedQuantity (α := α)) (fun _ => True) := by
  unfold parseAdvancedQuantity; keeps
macro_rules | `(tactic| keeps_leaf) => `(tactic| with_reducible exact parseAdvancedQuantity_keeps ..)

theorem parseQuantity_keeps (ts : List Tok) : Keeps I (parseQuantity (α := α) ts) (fun _ => True) := by
  unfold parseQuantity; keeps
macro_rules | `(tactic| keeps_leaf) => `(tactic| with_reducible exact parseQuantity_keeps ..)

theorem compBodyLong_keeps  : Keeps I (compBodyLong (α := α)) (fun _ => True) := by
  unfold compBodyLong; keeps
macro_rules | `(tactic| keeps_leaf) => `(tactic| with_reducible exact compBodyLong_keeps ..)

theorem compBodyShort_keeps  : Keeps I (compBodyShort (α := α)) (fun _ => True) := by
  unfold compBodyShort; keeps
macro_rules | `(tactic| keeps_leaf) => `(tactic| with_reducible exact compBodyShort_keeps ..)

theorem compBody_keeps  : Keeps I (compBody (α := α)) (fun _ => True) := by
  unfold compBody; keeps
macro_rules | `(tactic| keeps_leaf) => `(tactic| with_reducible exact compBody_keeps ..)

theorem modifiersLoop_keeps (inter : Bool) (fuel : Nat) : Keeps I (modifiersLoop (α := α) inter fuel) (fun _ => True) := by
  induction fuel with
  | zero => unfold modifiersLoop; keeps
  | succ fuel ih => unfold modifiersLoop; keeps
macro_rules | `(tactic| keeps_leaf) => `(tactic| with_reducible exact modifiersLoop_keeps ..)

theorem modifiersP_keeps  : Keeps I (modifiersP (α := α)) (fun _ => True) := by
  unfold modifiersP; keeps
macro_rules | `(tactic| keeps_leaf) => `(tactic| with_reducible exact modifiersP_keeps ..)

theorem noteP_keeps  : Keeps I (noteP (α := α)) (fun _ => True) := by
  unfold noteP; keeps
macro_rules | `(tactic| keeps_leaf) => `(tactic| with_reducible exact noteP_keeps ..)

theorem parseInterRef_keeps (ts : List Tok) : Keeps I (parseInterRef (α := α) ts) (fun _ => True) := by
  unfold parseInterRef; keeps
macro_rules | `(tactic| keeps_leaf) => `(tactic| with_reducible exact parseInterRef_keeps ..)

theorem parseAlias_keeps (c : String) (ts : List Tok) (off : Nat) : Keeps I (parseAlias (α := α) c ts off) (fun _ => True) := by
  unfold parseAlias; keeps
macro_rules | `(tactic| keeps_leaf) => `(tactic| with_reducible exact parseAlias_keeps ..)

theorem checkEmptyName_keeps (c : String) (t : Text) : Keeps I (checkEmptyName (α := α) c t) (fun _ => True) := by
  unfold checkEmptyName; keeps
macro_rules | `(tactic| keeps_leaf) => `(tactic| with_reducible exact checkEmptyName_keeps ..)

theorem checkNoteTimer_keeps  : Keeps I (checkNoteTimer (α := α)) (fun _ => True) := by
  unfold checkNoteTimer; keeps
macro_rules | `(tactic| keeps_leaf) => `(tactic| with_reducible exact checkNoteTimer_keeps ..)

end prims

end Cook
