import CookModel.Lemmas.CollectorFold
import CookModel.Syntax.Blocks
/-
  The events the pull parser emits satisfy `EvOK` (Lemmas/CollectorFold.lean): an ingredient event
  with intermediate data carries the REF modifier, a timer event has a name or a quantity.

  `Keeps m R`: from every parser state whose event queue is all-`EvOK`, running `m` leaves an
  all-`EvOK` queue and returns a result satisfying `R`.  Events are only ever appended, so this is
  an invariant of every parser of `Syntax/Parser.lean`; the two facts with content are
  `closing_parseModifiersLoop_keeps` (intermediate data is only set at an `&` token, whose REF flag
  is inserted or was already there) and `closing_timerP_keeps` (the timer parser recovers a
  quantity when name and quantity are both missing).
-/
set_option linter.unusedSectionVars false
set_option linter.unusedVariables false
set_option linter.unusedSimpArgs false
namespace Cook

variable {α : Type} [Arith α]

/-- every event of the queue is `EvOK` -/
def AllOK (evs : Array (Ev α)) : Prop := ∀ ev ∈ evs.toList, EvOK ev

theorem AllOK.push {evs : Array (Ev α)} (h : AllOK evs) {ev : Ev α} (hev : EvOK ev) :
    AllOK (evs.push ev) := by
  intro e he
  simp only [Array.toList_push, List.mem_append, List.mem_singleton] at he
  rcases he with he | rfl
  · exact h e he
  · exact hev

/-- `m` keeps the event queue all-`EvOK` and returns a result satisfying `R` -/
structure Keeps {β : Type} (m : P α β) (R : β → Prop) : Prop where
  run : ∀ s : BP α, AllOK s.evs → AllOK (m s).2.evs ∧ R (m s).1

/-- a component parser result: the event, if any, is `EvOK` -/
def ROK (r : Option (Ev α)) : Prop := ∀ ev, r = some ev → EvOK ev

theorem ROK.none : ROK (α := α) Option.none := fun ev h => by cases h
theorem ROK.some {ev : Ev α} (h : EvOK ev) : ROK (Option.some ev) := fun ev' h' => by cases h'; exact h

namespace Keeps
variable {β γ : Type}

theorem pure {a : β} {R : β → Prop} (h : R a) : Keeps (Pure.pure a : P α β) R := ⟨fun s hs => ⟨hs, h⟩⟩

theorem bind {m : P α β} {k : β → P α γ} {R : β → Prop} {R' : γ → Prop}
    (hm : Keeps m R) (hk : ∀ a, R a → Keeps (k a) R') : Keeps (m >>= k) R' := by
  constructor
  intro s hs
  obtain ⟨h1, h2⟩ := hm.run s hs
  exact (hk _ h2).run _ h1

theorem mono {m : P α β} {R R' : β → Prop} (h : Keeps m R) (hr : ∀ a, R a → R' a) : Keeps m R' :=
  ⟨fun s hs => ⟨(h.run s hs).1, hr _ (h.run s hs).2⟩⟩

theorem weaken {m : P α β} {R : β → Prop} (h : Keeps m R) : Keeps m (fun _ => True) :=
  h.mono (fun _ _ => trivial)

/-- after `get` the state at hand has an all-`EvOK` queue -/
theorem get_bind {k : BP α → P α γ} {R' : γ → Prop} (h : ∀ s0 : BP α, AllOK s0.evs → Keeps (k s0) R') :
    Keeps (get >>= k) R' := ⟨fun s hs => (h s hs).run s hs⟩

theorem get : Keeps (α := α) (get : P α (BP α)) (fun s0 => AllOK s0.evs) := ⟨fun s hs => ⟨hs, hs⟩⟩

theorem set {s1 : BP α} (h : AllOK s1.evs) : Keeps (set s1 : P α PUnit) (fun _ => True) :=
  ⟨fun s hs => ⟨h, trivial⟩⟩

theorem modify (f : BP α → BP α) (h : ∀ s, (f s).evs = s.evs) : Keeps (modify f : P α PUnit) (fun _ => True) :=
  ⟨fun s hs => ⟨by show AllOK (f s).evs; rw [h s]; exact hs, trivial⟩⟩

theorem pushEv {ev : Ev α} (h : EvOK ev) : Keeps (pushEv ev) (fun _ => True) :=
  ⟨fun s hs => ⟨hs.push h, trivial⟩⟩

theorem perr (k : String) (l : List Span) : Keeps (perr (α := α) k l) (fun _ => True) := pushEv trivial
theorem pwarn (k : String) (l : List Span) : Keeps (pwarn (α := α) k l) (fun _ => True) := pushEv trivial

theorem panicWith (site : String) : Keeps (panicWith (α := α) site) (fun _ => True) :=
  modify _ (fun s => by split <;> rfl)

theorem getCur : Keeps (getCur (α := α)) (fun _ => True) := ⟨fun s hs => ⟨hs, trivial⟩⟩
theorem setCur (c : Nat) : Keeps (setCur (α := α) c) (fun _ => True) := modify _ (fun _ => rfl)

theorem withRecover {f : P α (Option β)} {R : Option β → Prop} (h : Keeps f R) : Keeps (withRecover f) R := by
  unfold Cook.withRecover
  refine bind getCur (fun old _ => ?_)
  refine bind h (fun r hr => ?_)
  dsimp only
  split
  · exact bind (setCur _) (fun _ _ => Keeps.pure hr)
  · exact Keeps.pure hr

end Keeps

/-- leaves of `keeps`; extended by `macro_rules` as more parsers are proved -/
syntax "keeps_leaf" : tactic
macro_rules | `(tactic| keeps_leaf) => `(tactic| first
  | ((with_reducible refine Keeps.pure (R := fun _ => True) ?_) <;> exact True.intro)
  | ((with_reducible refine Keeps.pure ?_) <;> first | exact True.intro | exact ROK.none | exact ROK.some True.intro)
  | with_reducible exact Keeps.modify _ (fun _ => rfl)
  | ((with_reducible refine Keeps.set ?_) <;> assumption)
  | with_reducible exact Keeps.perr _ _
  | with_reducible exact Keeps.pwarn _ _
  | with_reducible exact Keeps.panicWith _
  | with_reducible exact Keeps.getCur
  | with_reducible exact Keeps.setCur _
  | ((with_reducible refine Keeps.pushEv ?_) <;> exact True.intro)
  | with_reducible assumption)

/-- decomposes a `Keeps` goal along the structure of the `do` block; goals it cannot close are left -/
macro "keeps" : tactic => `(tactic|
  repeat' (first
    | intro _
    | keeps_leaf
    | with_reducible apply Keeps.get_bind
    | with_reducible apply Keeps.bind
    | with_reducible apply Keeps.withRecover
    | dsimp only
    | split))


section prims

theorem hasExt_keeps (f : Nat) : Keeps (hasExt (α := α) f) (fun _ => True) := by
  unfold hasExt; keeps
macro_rules | `(tactic| keeps_leaf) => `(tactic| with_reducible exact hasExt_keeps ..)

theorem restToks_keeps  : Keeps (restToks (α := α)) (fun _ => True) := by
  unfold restToks; keeps
macro_rules | `(tactic| keeps_leaf) => `(tactic| with_reducible exact restToks_keeps ..)

theorem parsedToks_keeps  : Keeps (parsedToks (α := α)) (fun _ => True) := by
  unfold parsedToks; keeps
macro_rules | `(tactic| keeps_leaf) => `(tactic| with_reducible exact parsedToks_keeps ..)

theorem allToks_keeps  : Keeps (allToks (α := α)) (fun _ => True) := by
  unfold allToks; keeps
macro_rules | `(tactic| keeps_leaf) => `(tactic| with_reducible exact allToks_keeps ..)

theorem tokensSpanP_keeps (site : String) (ts : List Tok) : Keeps (tokensSpanP (α := α) site ts) (fun _ => True) := by
  unfold tokensSpanP; keeps
macro_rules | `(tactic| keeps_leaf) => `(tactic| with_reducible exact tokensSpanP_keeps ..)

theorem baseOffset_keeps  : Keeps (baseOffset (α := α)) (fun _ => True) := by
  unfold baseOffset; keeps
macro_rules | `(tactic| keeps_leaf) => `(tactic| with_reducible exact baseOffset_keeps ..)

theorem currentOffset_keeps  : Keeps (currentOffset (α := α)) (fun _ => True) := by
  unfold currentOffset; keeps
macro_rules | `(tactic| keeps_leaf) => `(tactic| with_reducible exact currentOffset_keeps ..)

theorem bpSpan_keeps  : Keeps (bpSpan (α := α)) (fun _ => True) := by
  unfold bpSpan; keeps
macro_rules | `(tactic| keeps_leaf) => `(tactic| with_reducible exact bpSpan_keeps ..)

theorem peekK_keeps  : Keeps (peekK (α := α)) (fun _ => True) := by
  unfold peekK; keeps
macro_rules | `(tactic| keeps_leaf) => `(tactic| with_reducible exact peekK_keeps ..)

theorem atK_keeps (k : TK) : Keeps (atK (α := α) k) (fun _ => True) := by
  unfold atK; keeps
macro_rules | `(tactic| keeps_leaf) => `(tactic| with_reducible exact atK_keeps ..)

theorem nextToken_keeps  : Keeps (nextToken (α := α)) (fun _ => True) := by
  unfold nextToken; keeps
macro_rules | `(tactic| keeps_leaf) => `(tactic| with_reducible exact nextToken_keeps ..)

theorem bumpAny_keeps  : Keeps (bumpAny (α := α)) (fun _ => True) := by
  unfold bumpAny; keeps
macro_rules | `(tactic| keeps_leaf) => `(tactic| with_reducible exact bumpAny_keeps ..)

theorem bump_keeps (k : TK) : Keeps (bump (α := α) k) (fun _ => True) := by
  unfold bump; keeps
macro_rules | `(tactic| keeps_leaf) => `(tactic| with_reducible exact bump_keeps ..)

theorem untilK_keeps (f : TK → Bool) : Keeps (untilK (α := α) f) (fun _ => True) := by
  unfold untilK; keeps
macro_rules | `(tactic| keeps_leaf) => `(tactic| with_reducible exact untilK_keeps ..)

theorem consumeWhile_keeps (f : TK → Bool) : Keeps (consumeWhile (α := α) f) (fun _ => True) := by
  unfold consumeWhile; keeps
macro_rules | `(tactic| keeps_leaf) => `(tactic| with_reducible exact consumeWhile_keeps ..)

theorem wsComments_keeps  : Keeps (wsComments (α := α)) (fun _ => True) := by
  unfold wsComments; keeps
macro_rules | `(tactic| keeps_leaf) => `(tactic| with_reducible exact wsComments_keeps ..)

theorem consumeK_keeps (k : TK) : Keeps (consumeK (α := α) k) (fun _ => True) := by
  unfold consumeK; keeps
macro_rules | `(tactic| keeps_leaf) => `(tactic| with_reducible exact consumeK_keeps ..)

theorem consumeRest_keeps  : Keeps (consumeRest (α := α)) (fun _ => True) := by
  unfold consumeRest; keeps
macro_rules | `(tactic| keeps_leaf) => `(tactic| with_reducible exact consumeRest_keeps ..)

theorem bpText_keeps (off : Nat) (ts : List Tok) : Keeps (bpText (α := α) off ts) (fun _ => True) := by
  unfold bpText; keeps
macro_rules | `(tactic| keeps_leaf) => `(tactic| with_reducible exact bpText_keeps ..)

theorem scalingLock_keeps  : Keeps (scalingLock (α := α)) (fun _ => True) := by
  unfold scalingLock; keeps
macro_rules | `(tactic| keeps_leaf) => `(tactic| with_reducible exact scalingLock_keeps ..)

theorem textValue_keeps (ts : List Tok) (off : Nat) : Keeps (textValue (α := α) ts off) (fun _ => True) := by
  unfold textValue; keeps
macro_rules | `(tactic| keeps_leaf) => `(tactic| with_reducible exact textValue_keeps ..)

theorem parseValue_keeps (ts : List Tok) : Keeps (parseValue (α := α) ts) (fun _ => True) := by
  unfold parseValue; keeps
macro_rules | `(tactic| keeps_leaf) => `(tactic| with_reducible exact parseValue_keeps ..)

theorem qvalue_keeps  : Keeps (qvalue (α := α)) (fun _ => True) := by
  unfold qvalue; keeps
macro_rules | `(tactic| keeps_leaf) => `(tactic| with_reducible exact qvalue_keeps ..)

theorem parseRegularQuantity_keeps  : Keeps (parseRegularQuantity (α := α)) (fun _ => True) := by
  unfold parseRegularQuantity; keeps
macro_rules | `(tactic| keeps_leaf) => `(tactic| with_reducible exact parseRegularQuantity_keeps ..)

theorem parseAdvancedQuantity_keeps  : Keeps (parseAdvancedQuantity (α := α)) (fun _ => True) := by
  unfold parseAdvancedQuantity; keeps
macro_rules | `(tactic| keeps_leaf) => `(tactic| with_reducible exact parseAdvancedQuantity_keeps ..)

theorem parseQuantity_keeps (ts : List Tok) : Keeps (parseQuantity (α := α) ts) (fun _ => True) := by
  unfold parseQuantity; keeps
macro_rules | `(tactic| keeps_leaf) => `(tactic| with_reducible exact parseQuantity_keeps ..)

theorem compBodyLong_keeps  : Keeps (compBodyLong (α := α)) (fun _ => True) := by
  unfold compBodyLong; keeps
macro_rules | `(tactic| keeps_leaf) => `(tactic| with_reducible exact compBodyLong_keeps ..)

theorem compBodyShort_keeps  : Keeps (compBodyShort (α := α)) (fun _ => True) := by
  unfold compBodyShort; keeps
macro_rules | `(tactic| keeps_leaf) => `(tactic| with_reducible exact compBodyShort_keeps ..)

theorem compBody_keeps  : Keeps (compBody (α := α)) (fun _ => True) := by
  unfold compBody; keeps
macro_rules | `(tactic| keeps_leaf) => `(tactic| with_reducible exact compBody_keeps ..)

theorem modifiersLoop_keeps (inter : Bool) (fuel : Nat) : Keeps (modifiersLoop (α := α) inter fuel) (fun _ => True) := by
  induction fuel with
  | zero => unfold modifiersLoop; keeps
  | succ fuel ih => unfold modifiersLoop; keeps
macro_rules | `(tactic| keeps_leaf) => `(tactic| with_reducible exact modifiersLoop_keeps ..)

theorem modifiersP_keeps  : Keeps (modifiersP (α := α)) (fun _ => True) := by
  unfold modifiersP; keeps
macro_rules | `(tactic| keeps_leaf) => `(tactic| with_reducible exact modifiersP_keeps ..)

theorem noteP_keeps  : Keeps (noteP (α := α)) (fun _ => True) := by
  unfold noteP; keeps
macro_rules | `(tactic| keeps_leaf) => `(tactic| with_reducible exact noteP_keeps ..)

theorem parseInterRef_keeps (ts : List Tok) : Keeps (parseInterRef (α := α) ts) (fun _ => True) := by
  unfold parseInterRef; keeps
macro_rules | `(tactic| keeps_leaf) => `(tactic| with_reducible exact parseInterRef_keeps ..)

theorem parseAlias_keeps (c : String) (ts : List Tok) (off : Nat) : Keeps (parseAlias (α := α) c ts off) (fun _ => True) := by
  unfold parseAlias; keeps
macro_rules | `(tactic| keeps_leaf) => `(tactic| with_reducible exact parseAlias_keeps ..)

theorem checkEmptyName_keeps (c : String) (t : Text) : Keeps (checkEmptyName (α := α) c t) (fun _ => True) := by
  unfold checkEmptyName; keeps
macro_rules | `(tactic| keeps_leaf) => `(tactic| with_reducible exact checkEmptyName_keeps ..)

theorem checkNoteTimer_keeps  : Keeps (checkNoteTimer (α := α)) (fun _ => True) := by
  unfold checkNoteTimer; keeps
macro_rules | `(tactic| keeps_leaf) => `(tactic| with_reducible exact checkNoteTimer_keeps ..)

end prims

end Cook
