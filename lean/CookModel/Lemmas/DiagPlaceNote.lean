import CookModel.Lemmas.DiagPlaceFam
import CookModel.Lemmas.DiagPlaceInst
/-
  C07, arbitrary placement: an ingredient / cookware item in braces form FOLLOWED BY A NOTE `( … )` (`c07n_` prefix,
  wave 10; outside `PlShape`, which demands "no `(` follows").  For ingredient and cookware the note IS consumed and
  delivered in the component; the diagnostics are those of the component without note.
-/
set_option linter.unusedSectionVars false
set_option linter.unusedSimpArgs false
set_option linter.unusedVariables false
namespace Cook

variable {α : Type} [Arith α]

/-- the tokens of a braces component followed by a note -/
def c07n_toks (tm : Tok) (ms nameT : List Tok) (tob : Tok) (Q : List Tok) (tcb top : Tok) (N : List Tok)
    (tcp : Tok) : List Tok :=
  c07p_comp tm ms nameT tob Q tcb ++ top :: (N ++ [tcp])

/-- the cut and the note of a braces component followed by `( N )` -/
theorem c07n_cut (k : TK) (s : BP α) (A : List Tok) (tm : Tok) (ms nameT : List Tok) (tob : Tok) (Q : List Tok)
    (tcb top : Tok) (N : List Tok) (tcp : Tok) (rest : List Tok) (sh : PlShapeN s.ext k tm ms nameT tob Q tcb)
    (ht : s.toks = A ++ (c07n_toks tm ms nameT tob Q tcb top N tcp ++ rest)) (hc : s.cur = A.length)
    (hrun : RunAt (baseOff s.toks) s.toks)
    (hop : top.kind = .openParen) (hN : ∀ t ∈ N, t.kind ≠ .closeParen) (hcp : tcp.kind = .closeParen) :
    Cut k s ms (c07p_body nameT tob Q tcb)
      { s with cur := A.length + 1 } { s with cur := A.length + 1 + ms.length }
      { s with cur := A.length + (c07p_comp tm ms nameT tob Q tcb).length } ∧
    noteP ({ s with cur := A.length + (c07p_comp tm ms nameT tob Q tcb).length } : BP α) =
      (some (buildText top.stop N),
        { s with cur := A.length + (c07n_toks tm ms nameT tob Q tcb top N tcp).length }) := by
  have ht1 : s.toks = A ++ (c07p_comp tm ms nameT tob Q tcb ++ (top :: (N ++ tcp :: rest))) := by
    rw [ht]; simp [c07n_toks]
  have hcut := c07w_cutN k s A tm ms nameT tob Q tcb (top :: (N ++ tcp :: rest)) sh ht1 hc
  refine ⟨hcut, ?_⟩
  have ht2 : s.toks = (A ++ c07p_comp tm ms nameT tob Q tcb) ++ (top :: (N ++ tcp :: rest)) := by
    rw [ht1]; simp
  have ht3 : s.toks = (A ++ c07p_comp tm ms nameT tob Q tcb ++ [top]) ++ (N ++ (tcp :: rest)) := by
    rw [ht1]; simp
  have hr : RunAt (offAt s.toks (A ++ c07p_comp tm ms nameT tob Q tcb ++ [top]).length) N :=
    rt_runAt_mid hrun _ N (tcp :: rest) ht3
  have hoff : offAt s.toks (A ++ c07p_comp tm ms nameT tob Q tcb ++ [top]).length = top.stop := by
    have : (A ++ c07p_comp tm ms nameT tob Q tcb ++ [top]).length = (A ++ c07p_comp tm ms nameT tob Q tcb).length + 1 := by
      rw [List.length_append (as := A ++ c07p_comp tm ms nameT tob Q tcb), List.length_singleton]
    rw [this]
    apply offAt_succ
    rw [ht2, List.getElem?_append_right (Nat.le_refl _)]; simp
  rw [hoff] at hr
  have := noteP_some ({ s with cur := A.length + (c07p_comp tm ms nameT tob Q tcb).length } : BP α)
    (A ++ c07p_comp tm ms nameT tob Q tcb) top N tcp rest ht2 (by simp) hop hN hcp hr
  rw [this]
  congr 2
  simp only [c07n_toks, List.length_append, List.length_cons, List.length_nil]
  omega

/-- **an ingredient `@ ms name {}` followed by a note `( N )`, wherever it stands** (plain modifier tokens, a non-blank
    name without alias separator, blank braces): exactly one `duplicate-modifier` per repeated modifier token, then the
    ingredient CARRYING THE NOTE on the byte range of component and note -/
theorem c07n_ingredient_note_piece (T A rest : List Tok) (cs : CharSpec) (e : Ext) (tm : Tok)
    (ms nameT : List Tok) (tob : Tok) (Q : List Tok) (tcb top : Tok) (N : List Tok) (tcp : Tok)
    (hT : T = A ++ (c07n_toks tm ms nameT tob Q tcb top N tcp ++ rest)) (hw : WF T)
    (sh : PlShapeN e .at tm ms nameT tob Q tcb) (hop : top.kind = .openParen)
    (hN : ∀ t ∈ N, t.kind ≠ .closeParen) (hcp : tcp.kind = .closeParen) (hs : SimpleMods ms)
    (hQ : ∀ t ∈ Q, isPadK t = true)
    (ha : e.has Gen.EXT_COMPONENT_ALIAS = false ∨ ∀ t ∈ nameT, t.kind ≠ .or)
    (hname : (buildText (offAt T (A.length + 1 + ms.length)) nameT).isTextEmpty cs = false) :
    PlPieceAt (α := α) T cs e A ⟨c07n_toks tm ms nameT tob Q tcb top N tcp, fun evs =>
      evs = List.replicate (foldMods Modifiers.empty ms).2
          (.error ⟨.error, .parse, "duplicate-modifier", [tokensSpan ms]⟩) ++
        [.ingredient ⟨⟨simpleFlags ms (offAt T (A.length + 1)), none,
          buildText (offAt T (A.length + 1 + ms.length)) nameT, none, none, some (buildText top.stop N)⟩,
        ⟨offAt T A.length, offAt T (A.length + (c07n_toks tm ms nameT tob Q tcb top N tcp).length)⟩⟩]⟩ := by
  apply c07p_piece_of_ingredient T A _ rest cs e hT hw tm (ms ++ (nameT ++ tob :: (Q ++ [tcb])) ++ top :: (N ++ [tcp])) rfl sh.hk
  intro s h1 h2 h3 h4 h5
  subst h1 h2 h3
  obtain ⟨hcut, hnote⟩ := c07n_cut .at s A tm ms nameT tob Q tcb top N tcp rest sh hT h5 hw.2 hop hN hcp
  have hrun : ingredientP s = ingredientTail (offAt s.toks A.length)
      (offAt s.toks (A.length + (c07n_toks tm ms nameT tob Q tcb top N tcp).length))
      (offAt s.toks (A.length + 1)) (offAt s.toks (A.length + 1 + ms.length)) ms (c07p_body nameT tob Q tcb)
      (some (buildText top.stop N))
      { s with cur := A.length + (c07n_toks tm ms nameT tob Q tcb top N tcp).length } := by
    rw [ingredientP_cut hcut hnote]
    simp only [curOff, h5]
  have hbody := c07p_body_qty_none nameT tob Q tcb hQ
  have ht := ingredientTail_noqty (α := α) (offAt s.toks A.length)
    (offAt s.toks (A.length + (c07n_toks tm ms nameT tob Q tcb top N tcp).length))
    (offAt s.toks (A.length + 1)) (offAt s.toks (A.length + 1 + ms.length)) ms (c07p_body nameT tob Q tcb)
    (some (buildText top.stop N))
    ({ s with cur := A.length + (c07n_toks tm ms nameT tob Q tcb top N tcp).length } : BP α) [] _ none
    (parseAlias_quiet' "ingredient" nameT _ _ ha) hname hbody hs
  unfold Sat at ht
  rw [← hrun] at ht
  obtain ⟨hpu, hr⟩ := ht
  refine ⟨_, _, hr, hpu.cast (by simp [dupEvs, dupModEv]), ?_, rfl⟩
  rw [hrun]
  exact (c07p_indep_fields (Indep.ingredientTail ..) _).1

/-- **a cookware item `# ms name {}` followed by a note `( N )`, wherever it stands**: `duplicate-modifier`*,
    `cookware-recipe-modifier` iff `@` is among the modifiers, then the item carrying the note -/
theorem c07n_cookware_note_piece (T A rest : List Tok) (cs : CharSpec) (e : Ext) (tm : Tok)
    (ms nameT : List Tok) (tob : Tok) (Q : List Tok) (tcb top : Tok) (N : List Tok) (tcp : Tok)
    (hT : T = A ++ (c07n_toks tm ms nameT tob Q tcb top N tcp ++ rest)) (hw : WF T)
    (sh : PlShapeN e .hash tm ms nameT tob Q tcb) (hop : top.kind = .openParen)
    (hN : ∀ t ∈ N, t.kind ≠ .closeParen) (hcp : tcp.kind = .closeParen) (hs : SimpleMods ms)
    (hQ : ∀ t ∈ Q, isPadK t = true)
    (ha : e.has Gen.EXT_COMPONENT_ALIAS = false ∨ ∀ t ∈ nameT, t.kind ≠ .or)
    (hname : (buildText (offAt T (A.length + 1 + ms.length)) nameT).isTextEmpty cs = false) :
    PlPieceAt (α := α) T cs e A ⟨c07n_toks tm ms nameT tob Q tcb top N tcp, fun evs =>
      evs = List.replicate (foldMods Modifiers.empty ms).2
          (.error ⟨.error, .parse, "duplicate-modifier", [tokensSpan ms]⟩) ++ recipeModEvs ms ++
        [.cookware ⟨⟨simpleFlags ms (offAt T (A.length + 1)),
          buildText (offAt T (A.length + 1 + ms.length)) nameT, none, none, some (buildText top.stop N)⟩,
        ⟨offAt T A.length, offAt T (A.length + (c07n_toks tm ms nameT tob Q tcb top N tcp).length)⟩⟩]⟩ := by
  apply c07p_piece_of_cookware T A _ rest cs e hT hw tm (ms ++ (nameT ++ tob :: (Q ++ [tcb])) ++ top :: (N ++ [tcp])) rfl sh.hk
  intro s h1 h2 h3 h4 h5
  subst h1 h2 h3
  obtain ⟨hcut, hnote⟩ := c07n_cut .hash s A tm ms nameT tob Q tcb top N tcp rest sh hT h5 hw.2 hop hN hcp
  have hrun : cookwareP s = cookwareTail (offAt s.toks A.length)
      (offAt s.toks (A.length + (c07n_toks tm ms nameT tob Q tcb top N tcp).length))
      (offAt s.toks (A.length + 1)) (offAt s.toks (A.length + 1 + ms.length)) ms (c07p_body nameT tob Q tcb)
      (some (buildText top.stop N))
      { s with cur := A.length + (c07n_toks tm ms nameT tob Q tcb top N tcp).length } := by
    rw [cookwareP_cut hcut hnote]
    simp only [curOff, h5]
  have hbody := c07p_body_qty_none nameT tob Q tcb hQ
  have ht := cookwareTail_noqty (α := α) (offAt s.toks A.length)
    (offAt s.toks (A.length + (c07n_toks tm ms nameT tob Q tcb top N tcp).length))
    (offAt s.toks (A.length + 1)) (offAt s.toks (A.length + 1 + ms.length)) ms (c07p_body nameT tob Q tcb)
    (some (buildText top.stop N))
    ({ s with cur := A.length + (c07n_toks tm ms nameT tob Q tcb top N tcp).length } : BP α) [] _ none
    (parseAlias_quiet' "cookware" nameT _ _ ha) hname hbody hs
  unfold Sat at ht
  rw [← hrun] at ht
  obtain ⟨hpu, hr⟩ := ht
  refine ⟨_, _, hr, hpu.cast (by simp [dupEvs, dupModEv]), ?_, rfl⟩
  rw [hrun]
  exact (c07p_indep_fields (Indep.cookwareTail ..) _).1

end Cook
