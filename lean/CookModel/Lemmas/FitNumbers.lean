import CookModel.Num.Convert
import CookModel.Num.Group
/-
  Which numbers a fitted quantity contains (wave 10, C10): a predicate on numbers that holds of every plain number
  and of everything `Converter::approx` returns is carried from a quantity to `fit` of it, and from a group to
  `GroupedQuantity::fit` of it.  (`fit` makes fractions only through `approx`: `tryApprox`, `fracCandidates`,
  `fitFractionApply`; everything else it writes is a plain number or is copied.)
-/
namespace Cook
open Arith

/-- every number of a value (both ends of a range) satisfies `P`; nothing is asked of a text -/
def Value.AllNum (P : Number Rat → Prop) : Value Rat → Prop
  | .number n => P n
  | .range s e => P s ∧ P e
  | .text _ => True

/-- `P` holds of every plain number and of every result of the converter's approximation -/
structure ApproxClosed (c : Converter Rat) (P : Number Rat → Prop) : Prop where
  regular : ∀ x, P (.regular x)
  approx : ∀ v cfg n, c.approx v cfg = some n → P n

variable {c : Converter Rat} {P : Number Rat → Prop}

theorem fnum_tryApprox (H : ApproxClosed c P) (n : Number Rat) (cfg : FracCfg Rat) (hn : P n) :
    P (tryApprox c n cfg).1 := by
  unfold tryApprox
  split
  · rename_i f hf; exact H.approx _ _ _ hf
  · exact hn

theorem fnum_tryFraction (H : ApproxClosed c P) (q : SQuantity Rat) (hq : q.value.AllNum P) :
    (tryFraction c q).1.value.AllNum P := by
  unfold tryFraction
  split
  · exact hq
  · split
    · exact hq
    · split
      · rename_i n hv
        rw [hv] at hq
        exact fnum_tryApprox H n _ hq
      · rename_i s e hv
        rw [hv] at hq
        split
        · exact ⟨fnum_tryApprox H s _ hq.1, hq.2⟩
        · exact ⟨hq.1, fnum_tryApprox H e _ hq.2⟩
      · exact hq

theorem fnum_fracCandidates (H : ApproxClosed c P) (value : Rat) (unit : Unit Rat) :
    ∀ (l : List (Rat × Unit Rat)) (r : List (Number Rat × Unit Rat)),
      fracCandidates c value unit l = .ok r → ∀ x ∈ r, P x.1 := by
  intro l
  induction l with
  | nil =>
    intro r h x hx
    simp only [fracCandidates, Except.ok.injEq] at h
    subst h
    cases hx
  | cons e rest ih =>
    intro r h
    unfold fracCandidates at h
    split at h
    · exact ih r h
    · split at h
      · cases h
      · split at h
        · exact ih r h
        · rename_i n hn
          split at h
          · cases h
          · rename_i r' hr'
            simp only [Except.ok.injEq] at h
            subst h
            intro x hx
            rcases List.mem_cons.mp hx with rfl | hx
            · exact H.approx _ _ _ hn
            · exact ih r' hr' x hx

theorem fnum_minStep (x y : Number Rat × Unit Rat) : minStep x y = x ∨ minStep x y = y := by
  unfold minStep; split <;> simp

theorem fnum_foldl_minStep (xs : List (Number Rat × Unit Rat)) (x : Number Rat × Unit Rat) :
    xs.foldl minStep x ∈ x :: xs := by
  induction xs generalizing x with
  | nil => simp
  | cons y ys ih =>
    simp only [List.foldl_cons]
    rcases fnum_minStep x y with h | h
    · rw [h]; have := ih x; simp only [List.mem_cons] at this ⊢; grind
    · rw [h]; have := ih y; simp only [List.mem_cons] at this ⊢; grind

theorem fnum_minByKey_mem {cands : List (Number Rat × Unit Rat)} {sel : Number Rat × Unit Rat}
    (h : minByKey cands = some sel) : sel ∈ cands := by
  cases cands with
  | nil => simp [minByKey] at h
  | cons x xs =>
    simp only [minByKey, Option.some.injEq] at h
    subst h
    exact fnum_foldl_minStep xs x

theorem fnum_fitFractionApply (H : ApproxClosed c P) (q : SQuantity Rat) (unit : Unit Rat)
    (sel : Number Rat × Unit Rat) (hs : P sel.1) (hq : q.value.AllNum P) :
    (fitFractionApply c q unit sel).1.value.AllNum P := by
  unfold fitFractionApply
  split
  · exact hq
  · split
    · exact hs
    · split
      · exact hq
      · rename_i e' _
        refine ⟨hs, ?_⟩
        cases ha : c.approx e' (c.fractionsConfig sel.2) with
        | none => exact H.regular _
        | some n => exact H.approx _ _ _ ha
    · exact hq

theorem fnum_fitFractionWith (H : ApproxClosed c P) (q : SQuantity Rat) (unit : Unit Rat) (system : System)
    (v : Rat) (hq : q.value.AllNum P) : (fitFractionWith c q unit system v).1.value.AllNum P := by
  unfold fitFractionWith
  split
  · exact hq
  · rename_i cands hc
    split
    · exact hq
    · rename_i sel hsel
      exact fnum_fitFractionApply H q unit sel
        (fnum_fracCandidates H v unit _ _ hc sel (fnum_minByKey_mem hsel)) hq

theorem fnum_fitFraction (H : ApproxClosed c P) (q : SQuantity Rat) (unit : Unit Rat) (target : Option System)
    (hq : q.value.AllNum P) : (fitFraction c q unit target).1.value.AllNum P := by
  unfold fitFraction
  split
  · exact fnum_tryFraction H q hq
  · split
    · exact hq
    · exact fnum_fitFractionWith H q unit _ _ hq
    · exact fnum_fitFractionWith H q unit _ _ hq

theorem fnum_dropBool (x : SQuantity Rat × Except ConvErr Bool) : (dropBool x).1 = x.1 := by
  obtain ⟨q, r⟩ := x
  cases r <;> rfl

theorem fnum_toValue (H : ApproxClosed c P) (v : ConvertValue Rat) : v.toValue.AllNum P := by
  cases v with
  | number n => exact H.regular _
  | range s e => exact ⟨H.regular _, H.regular _⟩

theorem fnum_convertImpl (H : ApproxClosed c P) (q : SQuantity Rat) (to : ConvertTo Rat)
    (hq : q.value.AllNum P) : (convertImpl c q to).1.value.AllNum P := by
  unfold convertImpl
  repeat' split
  all_goals first
    | exact hq
    | exact fnum_tryFraction H _ (fnum_toValue H _)
    | (rw [fnum_dropBool]; exact fnum_fitFraction H _ _ _ (fnum_toValue H _))

/-- **`ScaledQuantity::fit` keeps `P`** -/
theorem fnum_fit (H : ApproxClosed c P) (q : SQuantity Rat) (hq : q.value.AllNum P) :
    (Cook.fit c q).1.value.AllNum P := by
  unfold Cook.fit
  split
  · exact hq
  · split
    · split
      · exact fnum_fitFraction H q _ _ hq
      · exact fnum_fitFraction H q _ _ hq
      · exact fnum_convertImpl H _ _ (fnum_fitFraction H q _ _ hq)
    · exact fnum_convertImpl H q _ hq

/-! ### the group -/

open GroupedQuantity in
theorem fnum_fitKnown (H : ApproxClosed c P) (l : List PhysQ) (g : GroupedQuantity Rat) :
    (fitKnown c g l).1.unknown = g.unknown ∧ (fitKnown c g l).1.other = g.other ∧
    (fitKnown c g l).1.noUnit = g.noUnit ∧
    ((∀ pq q, g.known pq = some q → q.value.AllNum P) →
      ∀ pq q, (fitKnown c g l).1.known pq = some q → q.value.AllNum P) := by
  induction l generalizing g with
  | nil => exact ⟨rfl, rfl, rfl, fun h => h⟩
  | cons pq rest ih =>
    unfold fitKnown
    split
    · exact ih g
    · rename_i q0 hq0
      have hset : (∀ pq' q, g.known pq' = some q → q.value.AllNum P) →
          ∀ pq' q, (g.setKnown pq (Cook.fit c q0).1).known pq' = some q → q.value.AllNum P := by
        intro hg pq' q hq
        simp only [setKnown] at hq
        split at hq
        · simp only [Option.some.injEq] at hq
          subst hq
          exact fnum_fit H q0 (hg pq q0 hq0)
        · exact hg pq' q hq
      split
      · obtain ⟨h1, h2, h3, h4⟩ := ih (g.setKnown pq (Cook.fit c q0).1)
        exact ⟨h1, h2, h3, fun hg => h4 (hset hg)⟩
      · exact ⟨rfl, rfl, rfl, hset⟩

/-- **`GroupedQuantity::fit` keeps `P`**: if every number the group yields satisfies `P`, so does every number
    the fitted group yields (for the same iteration order; the unknown-unit map is not touched) -/
theorem fnum_group_fit (H : ApproxClosed c P) (ord : MapOrder Rat) (g : GroupedQuantity Rat)
    (hg : ∀ q ∈ g.iter ord, q.value.AllNum P) : ∀ q ∈ (g.fit c).1.iter ord, q.value.AllNum P := by
  obtain ⟨h1, h2, h3, h4⟩ := fnum_fitKnown H PhysQ.all g
  have hall : ∀ pq : PhysQ, pq ∈ PhysQ.all := by intro pq; cases pq <;> decide
  have hk : ∀ pq q, g.known pq = some q → q.value.AllNum P := by
    intro pq q hq
    apply hg
    simp only [GroupedQuantity.iter, GroupedQuantity.knownList, List.mem_append, List.mem_filterMap]
    exact Or.inl (Or.inl (Or.inl ⟨pq, hall pq, hq⟩))
  intro q hq
  simp only [GroupedQuantity.fit, GroupedQuantity.iter, GroupedQuantity.knownList, List.mem_append,
    List.mem_filterMap, h1, h2, h3] at hq
  rcases hq with ((⟨pq, _, hpq⟩ | hq) | hq) | hq
  · exact h4 hk pq q hpq
  · apply hg
    simp only [GroupedQuantity.iter, List.mem_append]
    exact Or.inl (Or.inl (Or.inr hq))
  · apply hg
    simp only [GroupedQuantity.iter, List.mem_append]
    exact Or.inl (Or.inr hq)
  · apply hg
    simp only [GroupedQuantity.iter, List.mem_append]
    exact Or.inr hq

/-! ### `add`: sums are plain numbers, everything else is copied -/

theorem fnum_tryAdd (hreg : ∀ x, P (.regular x)) {a b v : Value Rat} (h : a.tryAdd b = .ok v) : v.AllNum P := by
  cases a <;> cases b <;> simp only [Value.tryAdd, Except.ok.injEq, reduceCtorEq] at h <;> subst h <;>
    first | exact hreg _ | exact ⟨hreg _, hreg _⟩

theorem fnum_addTo (hreg : ∀ x, P (.regular x)) {stored q n : SQuantity Rat} (h : GroupedQuantity.addTo c stored q = some n) :
    n.value.AllNum P := by
  unfold GroupedQuantity.addTo at h
  split at h
  · rename_i n' hn'
    simp only [Option.some.injEq] at h
    subst h
    unfold qTryAdd at hn'
    split at hn'
    · cases hn'
    · split at hn'
      · cases hn'
      · split at hn'
        · cases hn'
        · rename_i v hv
          simp only [Except.ok.injEq] at hn'
          subst hn'
          exact fnum_tryAdd hreg hv
  · cases h

/-- everything a group stores satisfies `P` -/
def GroupedQuantity.AllNum (P : Number Rat → Prop) (g : GroupedQuantity Rat) : Prop :=
  (∀ pq q, g.known pq = some q → q.value.AllNum P) ∧ (∀ e ∈ g.unknown, e.2.value.AllNum P) ∧
  (∀ q ∈ g.other, q.value.AllNum P) ∧ (∀ q, g.noUnit = some q → q.value.AllNum P)

theorem fnum_replaceUnknown (l : List (Str × SQuantity Rat)) (key : Str) (q : SQuantity Rat)
    (hl : ∀ e ∈ l, e.2.value.AllNum P) (hq : q.value.AllNum P) :
    ∀ e ∈ GroupedQuantity.replaceUnknown l key q, e.2.value.AllNum P := by
  induction l with
  | nil => intro e he; cases he
  | cons x rest ih =>
    intro e he
    unfold GroupedQuantity.replaceUnknown at he
    split at he
    · rcases List.mem_cons.mp he with rfl | he
      · exact hq
      · exact hl e (List.mem_cons_of_mem _ he)
    · rcases List.mem_cons.mp he with rfl | he
      · exact hl _ List.mem_cons_self
      · exact ih (fun e he => hl e (List.mem_cons_of_mem _ he)) e he

theorem fnum_pushOther {g : GroupedQuantity Rat} {q : SQuantity Rat} (hg : g.AllNum P) (hq : q.value.AllNum P) :
    (g.pushOther q).AllNum P := by
  refine ⟨hg.1, hg.2.1, ?_, hg.2.2.2⟩
  intro x hx
  simp only [GroupedQuantity.pushOther, List.mem_append, List.mem_singleton] at hx
  rcases hx with hx | rfl
  · exact hg.2.2.1 x hx
  · exact hq

theorem fnum_setKnown {g : GroupedQuantity Rat} {q : SQuantity Rat} (pq : PhysQ) (hg : g.AllNum P)
    (hq : q.value.AllNum P) : (g.setKnown pq q).AllNum P := by
  refine ⟨?_, hg.2.1, hg.2.2.1, hg.2.2.2⟩
  intro pq' x hx
  simp only [GroupedQuantity.setKnown] at hx
  split at hx
  · simp only [Option.some.injEq] at hx; subst hx; exact hq
  · exact hg.1 pq' x hx

theorem fnum_add (hreg : ∀ x, P (.regular x)) {g : GroupedQuantity Rat} {q : SQuantity Rat} (hg : g.AllNum P)
    (hq : q.value.AllNum P) : (GroupedQuantity.add c g q).AllNum P := by
  unfold GroupedQuantity.add
  split
  · exact fnum_pushOther hg hq
  · split
    · split
      · split
        · rename_i n hn
          refine ⟨hg.1, hg.2.1, hg.2.2.1, ?_⟩
          intro x hx
          simp only [Option.some.injEq] at hx
          subst hx
          exact fnum_addTo hreg hn
        · exact fnum_pushOther hg hq
      · refine ⟨hg.1, hg.2.1, hg.2.2.1, ?_⟩
        intro x hx
        simp only [Option.some.injEq] at hx
        subst hx
        exact hq
    · split
      · split
        · split
          · rename_i n hn
            exact fnum_setKnown _ hg (fnum_addTo hreg hn)
          · exact fnum_pushOther hg hq
        · exact fnum_setKnown _ hg hq
      · split
        · split
          · rename_i n hn
            refine ⟨hg.1, ?_, hg.2.2.1, hg.2.2.2⟩
            exact fnum_replaceUnknown _ _ _ hg.2.1 (fnum_addTo hreg hn)
          · exact fnum_pushOther hg hq
        · refine ⟨hg.1, ?_, hg.2.2.1, hg.2.2.2⟩
          intro e he
          simp only [List.mem_append, List.mem_singleton] at he
          rcases he with he | rfl
          · exact hg.2.1 e he
          · exact hq

theorem fnum_addAll (hreg : ∀ x, P (.regular x)) (qs : List (SQuantity Rat)) (g : GroupedQuantity Rat)
    (hg : g.AllNum P) (hqs : ∀ q ∈ qs, q.value.AllNum P) : (GroupedQuantity.addAll c g qs).AllNum P := by
  induction qs generalizing g with
  | nil => exact hg
  | cons q rest ih =>
    simp only [GroupedQuantity.addAll, List.foldl_cons]
    exact ih _ (fnum_add hreg hg (hqs q List.mem_cons_self)) (fun x hx => hqs x (List.mem_cons_of_mem _ hx))

theorem fnum_empty : (GroupedQuantity.empty (α := Rat)).AllNum P := by
  refine ⟨?_, ?_, ?_, ?_⟩ <;> intros <;> simp_all [GroupedQuantity.empty]

theorem fnum_iter_of_allNum (ord : MapOrder Rat) (hord : ord.IsPerm) {g : GroupedQuantity Rat} (hg : g.AllNum P) :
    ∀ q ∈ g.iter ord, q.value.AllNum P := by
  intro q hq
  simp only [GroupedQuantity.iter, GroupedQuantity.knownList, List.mem_append, List.mem_filterMap, List.mem_map,
    Option.mem_toList] at hq
  rcases hq with ((⟨pq, _, hpq⟩ | ⟨e, he, rfl⟩) | hq) | hq
  · exact hg.1 pq q hpq
  · exact hg.2.1 e ((hord g.unknown).subset he)
  · exact hg.2.2.1 q hq
  · exact hg.2.2.2 q hq

end Cook
