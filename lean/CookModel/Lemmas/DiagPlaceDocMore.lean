import CookModel.Lemmas.DiagPlaceDocQty
import CookModel.Lemmas.DiagEmptyValue
import CookModel.Lemmas.DiagQuiet
/-
  C07, arbitrary placement, document level: more READINGS of quantity tokens for the generic piece
  `C07_planted_document_quantity_family` (`c07z_` prefix, wave 9): the empty value `{ (=)? %unit }` and the empty
  unit `{ number % blanks }`.  A reading must hold on EVERY token list spelling the specified quantity tokens and
  give the pushed events as a FUNCTION of the actual tokens, so the expected events take the `%`, the unit tokens
  and the lock token from the actual list by position (`drop` at the length of the specified prefix).
-/
set_option linter.unusedSectionVars false
set_option linter.unusedSimpArgs false
set_option linter.unusedVariables false
namespace Cook

variable {α : Type} [Arith α]

/-- the `empty-unit` warning on the token at index `n` (the `%`) of the actual quantity tokens -/
def c07z_emptyUnitEvs (n : Nat) (Q : List Tok) : List (Ev α) :=
  [.warning ⟨.warning, .parse, "empty-unit",
    [⟨((Q.drop n).head?.getD dummyTok).start, ((Q.drop n).head?.getD dummyTok).stop⟩]⟩]

/-- the reading of `number % blanks` (a well-formed number or range; the unit tokens are padding only): exactly the
    warning `empty-unit` on the actual `%`, and no unit -/
theorem c07z_empty_unit_reading (cs : CharSpec) (e : Ext) (v : AVal) (p : VPad) (pctS t0S : Tok) (utS : List Tok)
    (hv : v.ok cs = true) (hp : p.ok cs = true) (hnt : v.isText = false)
    (hext : v.isRange = true → e.has Gen.EXT_RANGE_VALUES = true)
    (h0 : (spellVal v p).head? = some t0S) (hws : isWsComment t0S.kind = false) (heq : t0S.kind ≠ .eq)
    (hvp : ∀ t ∈ spellVal v p, t.kind ≠ .percent) (hpct : pctS.kind = .percent)
    (hunit : padOK cs utS = true) :
    ∀ Q, Spells Q (spellVal v p ++ pctS :: utS) → ∀ sq : BP α, sq.cs = cs → sq.ext = e →
      Sat (parseQuantity (α := α) Q) sq (fun r s' =>
        Pushed (c07z_emptyUnitEvs (spellVal v p).length Q) sq s' ∧ r.quantity.val.unit = none) := by
  intro Q hs sq h1 h2
  subst h1 h2
  obtain ⟨vt, pct, ut, rfl, kv, kp, ku⟩ := c07x_pct_spells_inv hs
  obtain ⟨t0, h0', k0⟩ := c07x_head_transfer kv h0
  have hb : (buildText pct.stop ut).isTextEmpty sq.cs = true := rtt_buildText_pad_empty _ _ (ku.padOK_of hunit)
  have hd : (vt ++ pct :: ut).drop (spellVal v p).length = pct :: ut := List.drop_left' kv.length
  refine Sat.mono (parseQuantity_pct_gen vt ut pct t0 sq h0' (by rw [k0]; exact hws) (by rw [k0]; exact heq)
    (c07d_kind_of_spells kv (fun k => k ≠ .percent) hvp) (kp.trans hpct)
    (Or.inl ⟨_, rt_numOrRange v p hv hp hnt _ hext vt kv⟩)) ?_
  intro r s' h
  unfold emptyUnitEvs at h
  rw [hb] at h
  simp only [if_true] at h
  unfold c07z_emptyUnitEvs
  rw [hd]
  exact h

/-- the events of an empty value on actual quantity tokens `Q` spelling `blanks (=)? % unit` (`n` tokens before the
    `%`): `empty-value` labelled with the empty text at the position of the `%`, then `empty-unit` on the `%` iff the
    unit text is blank -/
def c07z_emptyValueEvs (cs : CharSpec) (n : Nat) (Q : List Tok) : List (Ev α) :=
  emptyValueEv (buildText (offAt Q n) []) ::
    emptyUnitEvs ((Q.drop n).head?.getD dummyTok) (Q.drop n).tail cs

/-- what the quantity read from `blanks (=)? % unit` looks like: the unit assembled from the actual unit tokens
    (none if blank), the lock the span of the actual `=` (none without) -/
def c07z_emptyValueRead (cs : CharSpec) (np nl : Nat) (Q : List Tok) (q : ParsedQuantity α) : Prop :=
  q.quantity.val.unit =
      (if (buildText ((Q.drop (np + nl)).head?.getD dummyTok).stop (Q.drop (np + nl)).tail).isTextEmpty cs then none
        else some (buildText ((Q.drop (np + nl)).head?.getD dummyTok).stop (Q.drop (np + nl)).tail)) ∧
    q.quantity.val.value.lock = lockSpan ((Q.drop np).take nl)

theorem c07z_numOrRange_nil (ext : Bool) : numOrRange (α := α) ext [] = none := by
  have h : trimTokens [] = [] := rfl
  simp [numOrRange, rangeValue, numericValue, h]

/-- the reading of `blanks (=)? % unit` (no value token at all: `@x{%g}`, `@x{ %g}`, `@x{=%g}`) -/
theorem c07z_empty_value_reading (cs : CharSpec) (e : Ext) (preS lkS : List Tok) (pctS : Tok) (utS : List Tok)
    (hpre : ∀ t ∈ preS, isWsComment t.kind = true)
    (hlk : lkS = [] ∨ ∃ u, lkS = [u] ∧ u.kind = .eq) (hpct : pctS.kind = .percent) :
    ∀ Q, Spells Q (preS ++ (lkS ++ pctS :: utS)) → ∀ sq : BP α, sq.cs = cs → sq.ext = e →
      Sat (parseQuantity (α := α) Q) sq (fun r s' =>
        Pushed (c07z_emptyValueEvs cs (preS.length + lkS.length) Q) sq s' ∧
        c07z_emptyValueRead cs preS.length lkS.length Q r) := by
  intro Q hs sq h1 h2
  subst h1 h2
  obtain ⟨pre, r1, rfl, kpre, hs1⟩ := hs.append_inv
  obtain ⟨lk, r2, rfl, klk, hs2⟩ := hs1.append_inv
  obtain ⟨pct, ut, rfl, kp, -, ku⟩ := hs2.cons_inv
  have hlk' : lk = [] ∨ ∃ u, lk = [u] ∧ u.kind = .eq := by
    rcases hlk with rfl | ⟨u, rfl, hu⟩
    · exact Or.inl klk.nil_inv
    · obtain ⟨t, rfl, kt, -⟩ := klk.single_inv
      exact Or.inr ⟨t, rfl, kt.trans hu⟩
  have hd : (pre ++ (lk ++ pct :: ut)).drop (preS.length + lkS.length) = pct :: ut := by
    rw [← List.append_assoc]
    exact List.drop_left' (by rw [List.length_append, kpre.length, klk.length])
  have hd2 : ((pre ++ (lk ++ pct :: ut)).drop preS.length).take lkS.length = lk := by
    rw [List.drop_left' kpre.length]
    exact List.take_left' klk.length
  have key := c07e_parseQuantity_empty (α := α) pre lk [] ut pct sq
    (c07d_kind_of_spells kpre (fun k => isWsComment k = true) hpre) hlk'
    (by intro _ t0 h; simp at h) (by intro t h; cases h) (kp.trans hpct) (c07z_numOrRange_nil _)
    (rtt_buildText_pad_empty _ [] rfl)
  refine Sat.mono key ?_
  intro r s' h
  unfold c07z_emptyValueEvs c07z_emptyValueRead
  rw [hd, hd2]
  simp only [List.head?_cons, Option.getD_some, List.tail_cons]
  simp only [List.head?_nil, Option.map_none, Option.getD_none, List.length_nil, Nat.add_zero, List.nil_append,
    kpre.length, klk.length] at h
  exact h

end Cook
