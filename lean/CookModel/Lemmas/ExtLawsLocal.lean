import CookModel.Lemmas.ExtLawsStep
/-
  C02, locality of the extension flags in the PARSER: each parser function depends on the
  extension set only through the flags it reads (`IndG G`: the result is the same for two extension
  sets that agree on the flags of `G`), so
  * the whole parser depends on the extension set only through the eight flags (no other bit of
    the raw pattern matters);
  * two extension sets that differ only in a flag the parser never reads (INLINE_QUANTITIES) give
    the same events on every input;
  * two extension sets that differ only in MODES give the same events on every block that is not a
    `>> [key]: …` line, whatever else the block contains.
-/
set_option linter.unusedSectionVars false
set_option linter.unusedSimpArgs false
set_option linter.unusedVariables false
namespace Cook

variable {α : Type} [Arith α]

/-- the two extension sets give the same answer for every flag of `G` -/
def AgreeOn (G : List Nat) (e e' : Ext) : Prop := ∀ g ∈ G, e.has g = e'.has g

/-- `m`, run from `s`, depends on the extension set only through the flags of `G` -/
structure IndG (G : List Nat) {β : Type} (m : P α β) (s : BP α) : Prop where
  ext : ∀ e, AgreeOn G s.ext e → m (s.withExt e) = ((m s).1, (m s).2.withExt e)
  toks : (m s).2.toks = s.toks
  cs : (m s).2.cs = s.cs
  extEq : (m s).2.ext = s.ext

structure IndGA (G : List Nat) {β : Type} (m : P α β) : Prop where
  all : ∀ s, IndG G m s

section rules
variable {β γ : Type} {G : List Nat}

theorem IndG.of_ind {m : P α β} {s : BP α} (h : Ind m s) : IndG G m s :=
  ⟨fun e _ => h.ext e, h.toks, h.cs, h.ext_eq⟩

theorem IndGA.of_indA {m : P α β} (h : IndA m) : IndGA G m := ⟨fun s => IndG.of_ind (h.all s)⟩

theorem IndG.bind {m : P α β} {k : β → P α γ} {s : BP α} (hm : IndG G m s)
    (hk : IndG G (k (m s).1) (m s).2) : IndG G (m >>= k) s := by
  constructor
  · intro e he
    rw [P_bind_run, hm.ext e he, P_bind_run]
    exact hk.ext e (by rw [hm.extEq]; exact he)
  · rw [P_bind_run, hk.toks, hm.toks]
  · rw [P_bind_run, hk.cs, hm.cs]
  · rw [P_bind_run, hk.extEq, hm.extEq]

theorem IndGA.bind {m : P α β} {k : β → P α γ} (hm : IndGA G m) (hk : ∀ a, IndGA G (k a)) :
    IndGA G (m >>= k) := ⟨fun s => IndG.bind (hm.all s) ((hk _).all _)⟩

/-- reading a flag of `G` -/
theorem IndGA.hasExtBind {g : Nat} {k : Bool → P α β} (hg : g ∈ G) (hk : ∀ b, IndGA G (k b)) :
    IndGA G (hasExt g >>= k) := by
  constructor
  intro s
  have run : ∀ s' : BP α, (hasExt g >>= k) s' = k (s'.ext.has g) s' := fun _ => rfl
  constructor
  · intro e he
    rw [run, run]
    have : (s.withExt e).ext.has g = s.ext.has g := (he g hg).symm
    rw [this]
    exact ((hk _).all s).ext e he
  · rw [run]; exact ((hk _).all s).toks
  · rw [run]; exact ((hk _).all s).cs
  · rw [run]; exact ((hk _).all s).extEq

theorem IndGA.getBind {f : BP α → P α β} (h1 : ∀ s e, f (s.withExt e) = f s)
    (h2 : ∀ s0, IndGA G (f s0)) : IndGA G (get >>= f) := by
  constructor
  intro s
  have run : ∀ s' : BP α, (get >>= f) s' = f s' s' := fun _ => rfl
  constructor
  · intro e he
    rw [run, run, h1]
    exact ((h2 s).all s).ext e he
  · rw [run]; exact ((h2 s).all s).toks
  · rw [run]; exact ((h2 s).all s).cs
  · rw [run]; exact ((h2 s).all s).extEq

theorem IndG.withRecover {f : P α (Option β)} {s : BP α} (h : IndG G f s) : IndG G (withRecover f) s := by
  constructor
  · intro e he
    rw [withRecover_run_ext, withRecover_run_ext, h.ext e he]
    split <;> rfl
  · rw [withRecover_run_ext]; split <;> exact h.toks
  · rw [withRecover_run_ext]; split <;> exact h.cs
  · rw [withRecover_run_ext]; split <;> exact h.extEq

theorem IndGA.withRecover {f : P α (Option β)} (h : IndGA G f) : IndGA G (withRecover f) :=
  ⟨fun s => IndG.withRecover (h.all s)⟩

theorem IndGA.pure (a : β) : IndGA G (Pure.pure a : P α β) := IndGA.of_indA (IndA.pure a)

end rules

/-- decomposes an `IndGA` goal along the structure of the `do` block; `hasExt g` needs `g ∈ G` in
    the context -/
macro "indg_auto" : tactic => `(tactic|
  repeat' (first
    | with_reducible exact IndGA.of_indA (by with_reducible ind_leaf)
    | with_reducible assumption
    | focus ((with_reducible refine IndGA.hasExtBind (by assumption) ?_))
    | focus ((with_reducible refine IndGA.getBind ?_ ?_); (intro _ _; rfl))
    | focus ((with_reducible refine IndGA.of_indA (IndA.modify ?_ ?_ ?_)); (intro _ _; rfl); (intro _; rfl); (intro _; rfl))
    | with_reducible apply IndGA.withRecover
    | with_reducible apply IndGA.bind
    | split
    | intro _
    | dsimp only))

section fns
variable {G : List Nat}

theorem modifiersLoop_indGA (inter : Bool) (fuel : Nat) : IndGA G (modifiersLoop (α := α) inter fuel) := by
  induction fuel with
  | zero => unfold modifiersLoop; indg_auto
  | succ fuel ih => unfold modifiersLoop; indg_auto


theorem modifiersP_indGA (h1 : Gen.EXT_COMPONENT_MODIFIERS ∈ G) (h2 : Gen.EXT_INTERMEDIATE_PREPARATIONS ∈ G) :
    IndGA G (modifiersP (α := α)) := by
  have := modifiersLoop_indGA (α := α) (G := G)
  unfold modifiersP
  indg_auto
  all_goals exact this _ _

theorem parseInterRef_indA (toks : List Tok) : IndA (parseInterRef (α := α) toks) := by
  unfold parseInterRef
  ind_auto

theorem parseModifiersLoop_indA (span : Span) (ie : Bool) (fuel : Nat) (toks : List Tok) (m : Modifiers)
    (d : Option (Loc InterData)) : IndA (parseModifiersLoop (α := α) span ie fuel toks m d) := by
  induction fuel generalizing toks m d with
  | zero => unfold parseModifiersLoop; ind_auto
  | succ fuel ih =>
    cases toks with
    | nil => unfold parseModifiersLoop; ind_auto
    | cons tok rest =>
      have := parseInterRef_indA (α := α)
      unfold parseModifiersLoop
      ind_auto
      all_goals first | exact ih _ _ _ | exact this _

theorem parseModifiers_indGA (h2 : Gen.EXT_INTERMEDIATE_PREPARATIONS ∈ G) (mtoks : List Tok) (pos : Nat) :
    IndGA G (parseModifiers (α := α) mtoks pos) := by
  have := parseModifiersLoop_indA (α := α)
  unfold parseModifiers
  indg_auto
  all_goals exact IndGA.of_indA (this _ _ _ _ _ _)

theorem parseAlias_indGA (h : Gen.EXT_COMPONENT_ALIAS ∈ G) (c : String) (toks : List Tok) (off : Nat) :
    IndGA G (parseAlias (α := α) c toks off) := by
  unfold parseAlias
  indg_auto

theorem parseValue_indGA (h : Gen.EXT_RANGE_VALUES ∈ G) (toks : List Tok) : IndGA G (parseValue (α := α) toks) := by
  unfold parseValue
  indg_auto

theorem qvalue_indGA (h : Gen.EXT_RANGE_VALUES ∈ G) : IndGA G (qvalue (α := α)) := by
  have := parseValue_indGA (α := α) h
  unfold qvalue
  indg_auto
  all_goals exact this _

theorem parseRegularQuantity_indGA (h : Gen.EXT_RANGE_VALUES ∈ G) : IndGA G (parseRegularQuantity (α := α)) := by
  have := qvalue_indGA (α := α) h
  unfold parseRegularQuantity
  indg_auto

theorem parseAdvancedQuantity_indGA (h : Gen.EXT_RANGE_VALUES ∈ G) : IndGA G (parseAdvancedQuantity (α := α)) := by
  unfold parseAdvancedQuantity
  indg_auto

theorem parseQuantityInner_indGA (h : Gen.EXT_RANGE_VALUES ∈ G) (h' : Gen.EXT_ADVANCED_UNITS ∈ G) :
    IndGA G (parseQuantityInner (α := α)) := by
  have h1 := parseRegularQuantity_indGA (α := α) h
  have h2 := parseAdvancedQuantity_indGA (α := α) h
  unfold parseQuantityInner
  indg_auto


theorem parseQuantity_indGA (h : Gen.EXT_RANGE_VALUES ∈ G) (h' : Gen.EXT_ADVANCED_UNITS ∈ G) (q : List Tok) :
    IndGA G (parseQuantity (α := α) q) := by
  have hp : IndA (if q.isEmpty then panicWith "parse_quantity: empty tokens" else pure () : P α Unit) := by
    ind_auto
  have hi := parseQuantityInner_indGA (α := α) h h'
  constructor
  intro s
  constructor
  · intro e he
    rw [parseQuantity_run, parseQuantity_run]
    dsimp only
    rw [(hp.all s).ext e]
    dsimp only
    have := (hi.all ({ ((if q.isEmpty then panicWith "parse_quantity: empty tokens" else pure () : P α Unit) s).2
        with toks := q, cur := 0 } : BP α)).ext e (by
      show AgreeOn G ((if q.isEmpty then panicWith "parse_quantity: empty tokens" else pure () : P α Unit) s).2.ext e
      rw [(hp.all s).ext_eq]; exact he)
    have e1 : ∀ s0 : BP α, ({ s0.withExt e with toks := q, cur := 0 } : BP α) =
        ({ s0 with toks := q, cur := 0 } : BP α).withExt e := fun _ => rfl
    rw [e1, this]
    rfl
  · rw [parseQuantity_run]
    exact (hp.all s).toks
  · rw [parseQuantity_run]
    exact ((hi.all _).cs).trans (hp.all s).cs
  · rw [parseQuantity_run]
    exact ((hi.all _).extEq).trans (hp.all s).ext_eq

/-- the flags the component parsers read -/
def compFlags : List Nat := [Gen.EXT_COMPONENT_MODIFIERS, Gen.EXT_INTERMEDIATE_PREPARATIONS,
  Gen.EXT_COMPONENT_ALIAS, Gen.EXT_RANGE_VALUES, Gen.EXT_ADVANCED_UNITS]

section comp
variable (h1 : Gen.EXT_COMPONENT_MODIFIERS ∈ G) (h2 : Gen.EXT_INTERMEDIATE_PREPARATIONS ∈ G)
  (h3 : Gen.EXT_COMPONENT_ALIAS ∈ G) (h4 : Gen.EXT_RANGE_VALUES ∈ G) (h5 : Gen.EXT_ADVANCED_UNITS ∈ G)
include h1 h2 h3 h4 h5

theorem ingredientP_indGA : IndGA G (ingredientP (α := α)) := by
  have a1 := modifiersP_indGA (α := α) h1 h2
  have a2 := parseModifiers_indGA (α := α) h2
  have a3 := parseAlias_indGA (α := α) h3
  have a4 := parseQuantity_indGA (α := α) h4 h5
  unfold ingredientP
  indg_auto
  all_goals first | exact a2 _ _ | exact a3 _ _ _ | exact a4 _

theorem cookwareP_indGA : IndGA G (cookwareP (α := α)) := by
  have a1 := modifiersP_indGA (α := α) h1 h2
  have a2 := parseModifiers_indGA (α := α) h2
  have a3 := parseAlias_indGA (α := α) h3
  have a4 := parseQuantity_indGA (α := α) h4 h5
  unfold cookwareP
  indg_auto
  all_goals first | exact a2 _ _ | exact a3 _ _ _ | exact a4 _


set_option maxHeartbeats 1600000 in
theorem timerP_indGA (h6 : Gen.EXT_TIMER_REQUIRES_TIME ∈ G) : IndGA G (timerP (α := α)) := by
  have a1 := modifiersP_indGA (α := α) h1 h2
  have a4 := parseQuantity_indGA (α := α) h4 h5
  unfold timerP
  indg_auto
  all_goals exact a4 _

/-- the step / text-block parser, given that the timer parser is local to `G` -/
theorem parseMultilineBlock_indGA_of (ht : IndGA G (timerP (α := α))) : IndGA G (parseMultilineBlock (α := α)) := by
  have a1 := ingredientP_indGA (α := α) h1 h2 h3 h4 h5
  have a2 := cookwareP_indGA (α := α) h1 h2 h3 h4 h5
  have hone : IndGA G (stepOne (α := α)) := by
    unfold stepOne
    indg_auto
  have hloop : ∀ fuel, IndGA G (stepLoop (α := α) fuel) := by
    intro fuel
    induction fuel with
    | zero => unfold stepLoop; indg_auto
    | succ fuel ih => unfold stepLoop; indg_auto
  have hstep : IndGA G (parseStep (α := α)) := by
    unfold parseStep
    indg_auto
    all_goals exact hloop _
  unfold parseMultilineBlock
  indg_auto


/-- `parse_block`, given the timer parser and the MODES flag local to `G` -/
theorem parseBlock_indGA_of (ht : IndGA G (timerP (α := α))) (h7 : Gen.EXT_MODES ∈ G) (oldStyle : Bool) :
    IndGA G (parseBlock (α := α) oldStyle) := by
  have hm := parseMultilineBlock_indGA_of (α := α) h1 h2 h3 h4 h5 ht
  unfold parseBlock
  indg_auto

/-- `parse_block` on a block that is not a `>> [key]: …` line does not need the MODES flag -/
theorem parseBlock_indG_noModes (ht : IndGA G (timerP (α := α))) (oldStyle : Bool) (s : BP α) (hc : s.cur = 0)
    (hm : metaKeyCore s.cs s.toks = true) : IndG G (parseBlock (α := α) oldStyle) s := by
  have hmb := parseMultilineBlock_indGA_of (α := α) h1 h2 h3 h4 h5 ht
  unfold parseBlock
  refine IndG.bind (m := (do
    match ← peekK with
    | some .metaStart => withRecover do
      match ← metadataEntry with
      | some (.metadata key value) =>
        let cs := (← get).cs
        let modes ← hasExt Gen.EXT_MODES
        if (isConfigKey cs key && modes) || oldStyle then return some (.metadata key value) else return none
      | _ => return none
    | some .eq => withRecover sectionP
    | _ => return none : P α (Option (Ev α)))) ?_ ?_
  · -- the single-line attempt is `Ind` (for every extension set) under `metaKeyCore`
    apply IndG.of_ind
    refine Ind.bindRO peekK_indA rfl ?_
    intro k
    split
    · apply Ind.withRecover
      refine Ind.bindS' (metadataEntry_indA.all s) (Q := fun r _ => r = (metadataEntry s).1) rfl ?_
      intro r s1 ht1 hcs hr
      split
      · rename_i key value
        have hkey := metadataEntry_key s hc key value hr.symm
        have hnc : isConfigKey s1.cs key = false := by
          unfold metaKeyCore at hm
          rw [hkey] at hm
          rw [hcs]
          simpa using hm
        refine Ind.getBind (fun _ => rfl) ?_
        dsimp only
        refine Ind.hasExtBind ?_ ?_
        · intro b e
          simp only [hnc, Bool.false_and]
        · refine (?_ : IndA _).all _
          ind_auto
      · exact Ind.pure _ _
    · exact Ind.withRecover (sectionP_indA.all s)
    · exact Ind.pure _ _
  · split
    · exact (IndGA.of_indA (pushEv_indA _)).all _
    · exact hmb.all _

end comp


theorem runBlockBody_indG (oldStyle : Bool) (s : BP α) (hc : s.cur = 0)
    (hpb : ∀ s1 : BP α, s1.cur = 0 → s1.toks = s.toks → s1.cs = s.cs → IndG G (parseBlock (α := α) oldStyle) s1) :
    IndG G (runBlockBody (α := α) oldStyle s.toks) s := by
  unfold runBlockBody
  have hp : IndA (if s.toks.isEmpty then panicWith "BlockParser::new: empty tokens" else pure () : P α Unit) := by
    ind_auto
  have hcur : ((if s.toks.isEmpty then panicWith "BlockParser::new: empty tokens" else pure () : P α Unit) s).2.cur = s.cur := by
    split
    · exact panicWith_cur _ s
    · rfl
  refine IndG.bind (IndG.of_ind (hp.all s)) ?_
  refine IndG.bind (hpb _ (by rw [hcur, hc]) (hp.all s).toks (hp.all s).cs) ?_
  refine (IndGA.of_indA (?_ : IndA _)).all _
  ind_auto

theorem runBlock_of_indG (cs : CharSpec) (e₁ e₂ : Ext) (oldStyle : Bool) (block : List Tok)
    (evs : Array (Ev α)) (p : Option String) (ha : AgreeOn G e₁ e₂)
    (hi : IndG G (runBlockBody (α := α) oldStyle block) ⟨block, 0, e₁, cs, evs, p⟩) :
    runBlock cs e₁ oldStyle block evs p = runBlock cs e₂ oldStyle block evs p := by
  rw [runBlock_eq, runBlock_eq]
  have := hi.ext e₂ ha
  have e0 : (⟨block, 0, e₁, cs, evs, p⟩ : BP α).withExt e₂ = ⟨block, 0, e₂, cs, evs, p⟩ := rfl
  rw [e0] at this
  rw [this]
  rfl

end fns

/-! ### the theorems -/

/-- the seven flags the parser reads (INLINE_QUANTITIES is read by the analysis only) -/
def parserFlags : List Nat := [Gen.EXT_COMPONENT_MODIFIERS, Gen.EXT_INTERMEDIATE_PREPARATIONS,
  Gen.EXT_COMPONENT_ALIAS, Gen.EXT_RANGE_VALUES, Gen.EXT_ADVANCED_UNITS, Gen.EXT_TIMER_REQUIRES_TIME, Gen.EXT_MODES]

/-- the same without MODES -/
def parserFlagsNoModes : List Nat := [Gen.EXT_COMPONENT_MODIFIERS, Gen.EXT_INTERMEDIATE_PREPARATIONS,
  Gen.EXT_COMPONENT_ALIAS, Gen.EXT_RANGE_VALUES, Gen.EXT_ADVANCED_UNITS, Gen.EXT_TIMER_REQUIRES_TIME]

/-- the parser depends on the extension set only through its seven flags: every block, any events before -/
theorem runBlock_flags_only (cs : CharSpec) (e₁ e₂ : Ext) (oldStyle : Bool) (block : List Tok)
    (evs : Array (Ev α)) (p : Option String) (ha : AgreeOn parserFlags e₁ e₂) :
    runBlock cs e₁ oldStyle block evs p = runBlock cs e₂ oldStyle block evs p := by
  have ht : IndGA parserFlags (timerP (α := α)) :=
    timerP_indGA (by decide) (by decide) (by decide) (by decide) (by decide) (by decide)
  have hpb := parseBlock_indGA_of (α := α) (G := parserFlags) (by decide) (by decide) (by decide) (by decide)
    (by decide) ht (by decide) oldStyle
  exact runBlock_of_indG cs e₁ e₂ oldStyle block evs p ha
    (runBlockBody_indG oldStyle ⟨block, 0, e₁, cs, evs, p⟩ rfl (fun s1 _ _ _ => hpb.all s1))

/-- MODES is local to `>> [key]` lines: on any other block two extension sets that agree on the
    other six parser flags give the same events, whatever else the block contains -/
theorem runBlock_modes_local (cs : CharSpec) (e₁ e₂ : Ext) (oldStyle : Bool) (block : List Tok)
    (evs : Array (Ev α)) (p : Option String) (ha : AgreeOn parserFlagsNoModes e₁ e₂)
    (hm : metaKeyCore cs block = true) :
    runBlock cs e₁ oldStyle block evs p = runBlock cs e₂ oldStyle block evs p := by
  have ht : IndGA parserFlagsNoModes (timerP (α := α)) :=
    timerP_indGA (by decide) (by decide) (by decide) (by decide) (by decide) (by decide)
  refine runBlock_of_indG cs e₁ e₂ oldStyle block evs p ha
    (runBlockBody_indG oldStyle ⟨block, 0, e₁, cs, evs, p⟩ rfl (fun s1 hc1 ht1 hcs1 => ?_))
  exact parseBlock_indG_noModes (α := α) (G := parserFlagsNoModes) (by decide) (by decide) (by decide) (by decide)
    (by decide) ht oldStyle s1 hc1 (by rw [hcs1, ht1]; exact hm)

/-- every block of the input satisfies `P` -/
def AllBlocksOf (cs : CharSpec) (input : List Char) (P : List Tok → Bool) : Bool :=
  (allBlocks ((inputTokens cs input).length + 1) (inputTokens cs input)).all P

theorem foldl_runBlock_congr (cs : CharSpec) (e₁ e₂ : Ext) (oldStyle : Bool) (bs : List (List Tok))
    (h : ∀ b ∈ bs, ∀ evs p, runBlock (α := α) cs e₁ oldStyle b evs p = runBlock cs e₂ oldStyle b evs p)
    (acc : Array (Ev α) × Option String) :
    bs.foldl (fun acc b => runBlock cs e₁ oldStyle b acc.1 acc.2) acc =
    bs.foldl (fun acc b => runBlock cs e₂ oldStyle b acc.1 acc.2) acc := by
  induction bs generalizing acc with
  | nil => rfl
  | cons b bs ih =>
    simp only [List.foldl_cons]
    rw [h b (by simp) acc.1 acc.2]
    exact ih (fun b' hb' => h b' (by simp [hb'])) _

theorem pullEvents_congr (cs : CharSpec) (e₁ e₂ : Ext) (input : List Char) (P : List Tok → Bool)
    (hP : AllBlocksOf cs input P = true)
    (h : ∀ oldStyle b, P b = true → ∀ evs p, runBlock (α := α) cs e₁ oldStyle b evs p = runBlock cs e₂ oldStyle b evs p) :
    pullEvents (α := α) cs e₁ input = pullEvents cs e₂ input := by
  unfold AllBlocksOf inputTokens at hP
  unfold pullEvents
  rw [List.all_eq_true] at hP
  cases hfm : parseFrontmatter cs input with
  | none =>
    rw [hfm] at hP
    exact foldl_runBlock_congr cs e₁ e₂ true _ (fun b hb => h true b (hP b hb)) _
  | some fm =>
    rw [hfm] at hP
    exact foldl_runBlock_congr cs e₁ e₂ false _ (fun b hb => h false b (hP b hb)) _

end Cook
