import CookModel.Lemmas.RoundtripQty
/-
  C01, component layer: the component parsers read back what `spellComp` writes.
-/
set_option linter.unusedSectionVars false
set_option linter.unusedSimpArgs false
set_option linter.unusedVariables false
namespace Cook

variable {α : Type} [Arith α]

/-- cursor arithmetic -/
macro "lenarith" : tactic =>
  `(tactic| first
    | omega
    | (simp only [List.length_append, List.length_cons, List.length_nil, List.length_singleton] <;> omega))

theorem withRecover_run {β : Type} (f : P α (Option β)) (s : BP α) :
    withRecover f s = ((f s).1, if (f s).1.isNone then { (f s).2 with cur := s.cur } else (f s).2) := by
  unfold withRecover
  simp only [bind, StateT.bind, getCur, get, getThe, MonadStateOf.get, StateT.get, pure, StateT.pure, setCur,
    modify, modifyGet, MonadStateOf.modifyGet, StateT.modifyGet]
  rcases hfs : f s with ⟨a, s1⟩
  cases a with
  | none => rfl
  | some b => rfl

theorem currentOffset_split (s : BP α) : currentOffset s = (offAt s.toks s.cur, s) := currentOffset_run s

/-! ### `modifiers()` -/

theorem modKind_cases {k : TK} (h : modKind k = true) : isModifierTok k = true ∨ k = .and := by
  cases k <;> simp [modKind, isModifierTok] at h ⊢

theorem modifiersLoop_run (inter : Bool) (ms : List Tok) :
    ∀ (fuel : Nat) (s : BP α) (A : List Tok) (x : Tok) (R : List Tok),
      s.toks = A ++ (ms ++ x :: R) → s.cur = A.length → (∀ m ∈ ms, modKind m.kind = true) →
      modKind x.kind = false → x.kind ≠ .openParen → ms.length + 1 ≤ fuel →
      modifiersLoop inter fuel s = ((), { s with cur := A.length + ms.length }) := by
  induction ms with
  | nil =>
    intro fuel s A x R ht hc _ hx hxp hf
    obtain ⟨f, rfl⟩ : ∃ f, fuel = f + 1 := ⟨fuel - 1, by simp at hf; omega⟩
    unfold modifiersLoop
    have h1 := peekK_split s A (x :: R) (by simpa using ht) hc
    have hx1 : isModifierTok x.kind = false := by
      cases hk : x.kind <;> simp [modKind, isModifierTok, hk] at hx ⊢
    have hx2 : (x.kind == TK.and) = false := by
      cases hk : x.kind <;> simp [modKind, hk] at hx ⊢
    simp only [bind, StateT.bind, h1, List.head?_cons, Option.map_some, hx1, hx2, Bool.false_eq_true, if_false]
    simp only [pure, StateT.pure, List.length_nil, Nat.add_zero, ← hc]
  | cons m ms ih =>
    intro fuel s A x R ht hc hms hx hxp hf
    obtain ⟨f, rfl⟩ : ∃ f, fuel = f + 1 := ⟨fuel - 1, by simp at hf; omega⟩
    have hmk := hms m (by simp)
    have h1 := peekK_split s A (m :: (ms ++ x :: R)) (by simpa using ht) hc
    have h2 := bumpAny_split s A m (ms ++ x :: R) (by simpa using ht) hc
    have ht' : ({ s with cur := A.length + 1 } : BP α).toks = (A ++ [m]) ++ (ms ++ x :: R) := by
      simpa using ht
    have hrec := ih f ({ s with cur := A.length + 1 } : BP α) (A ++ [m]) x R ht' (by simp)
      (fun y hy => hms y (by simp [hy])) hx hxp (by simp at hf ⊢; omega)
    have hlen : (A ++ [m]).length + ms.length = A.length + (m :: ms).length := by simp; omega
    rw [hlen] at hrec
    unfold modifiersLoop
    rcases modKind_cases hmk with hm | hm
    · simp only [bind, StateT.bind, h1, List.head?_cons, Option.map_some, hm, if_true, h2]
      exact hrec
    · have hm1 : isModifierTok m.kind = false := by rw [hm]; rfl
      have hm2 : (m.kind == TK.and) = true := by rw [hm]; rfl
      simp only [bind, StateT.bind, h1, List.head?_cons, Option.map_some, hm1, hm2, Bool.false_eq_true, if_false,
        if_true, h2]
      cases inter with
      | false => simp only [Bool.false_eq_true, if_false]; exact hrec
      | true =>
        simp only [if_true]
        have hnp : ∀ t, (ms ++ x :: R).head? = some t → t.kind ≠ .openParen := by
          intro t ht2
          cases ms with
          | nil => simp at ht2; subst ht2; exact hxp
          | cons y ys =>
            simp at ht2; subst ht2
            have := hms y (by simp)
            cases hk : y.kind <;> simp [modKind, hk] at this ⊢
        have h3 := consumeK_split_none .openParen ({ s with cur := A.length + 1 } : BP α) (A ++ [m])
          (ms ++ x :: R) ht' (by simp) hnp
        simp only [bind, StateT.bind, withRecover_run, h3, pure, StateT.pure, Option.isNone_none, if_true]
        exact hrec

theorem modifiersP_off (s : BP α) (h : s.ext.has Gen.EXT_COMPONENT_MODIFIERS = false) :
    modifiersP s = ([], s) := by
  unfold modifiersP
  simp only [bind, StateT.bind, hasExt_run, h, Bool.not_false, if_true]
  rfl

theorem modifiersP_on (s : BP α) (h : s.ext.has Gen.EXT_COMPONENT_MODIFIERS = true)
    (A ms : List Tok) (x : Tok) (R : List Tok) (ht : s.toks = A ++ (ms ++ x :: R)) (hc : s.cur = A.length)
    (hms : ∀ m ∈ ms, modKind m.kind = true) (hx : modKind x.kind = false) (hxp : x.kind ≠ .openParen) :
    modifiersP s = (ms, { s with cur := A.length + ms.length }) := by
  unfold modifiersP
  have hl := modifiersLoop_run (α := α) (s.ext.has Gen.EXT_INTERMEDIATE_PREPARATIONS) ms
    ((s.toks.drop s.cur).length + 1) s A x R ht hc hms hx hxp (by rw [rt_drop_cur ht hc]; simp)
  simp only [bind, StateT.bind, hasExt_run, h, Bool.not_true, Bool.false_eq_true, if_false, getCur, get, getThe,
    MonadStateOf.get, StateT.get, pure, StateT.pure, restToks, hl]
  congr 1
  rw [ht, hc, ← List.append_assoc, List.take_left' (by simp), List.drop_left]

/-! ### the body `name { quantity }` -/

def isPadK (t : Tok) : Bool := t.kind == .ws || t.kind == .blockComment

theorem compBodyLong_run (s : BP α) (A nameT : List Tok) (tob : Tok) (Q : List Tok) (tcb : Tok) (R : List Tok)
    (ht : s.toks = A ++ (nameT ++ tob :: (Q ++ tcb :: R))) (hc : s.cur = A.length)
    (hn : ∀ t ∈ nameT, (t.kind == .openBrace || isMarker t.kind) = false) (hob : tob.kind = .openBrace)
    (hQ : ∀ t ∈ Q, t.kind ≠ .closeBrace) (hcb : tcb.kind = .closeBrace) :
    compBodyLong s =
      (some ⟨nameT, some ⟨tob.start, tcb.stop⟩, if Q.any (fun t => !isPadK t) then some Q else none⟩,
        { s with cur := A.length + nameT.length + 1 + Q.length + 1 }) := by
  unfold compBodyLong
  have h1 := untilK_split (fun k => k == .openBrace || isMarker k) s A nameT tob (Q ++ tcb :: R) ht hc hn
    (by simp [hob])
  have h2 := consumeK_split_some .openBrace ({ s with cur := A.length + nameT.length } : BP α) (A ++ nameT) tob
    (Q ++ tcb :: R) (by simpa using ht) (by lenarith) hob
  have h3 := untilK_split (fun k => k == .closeBrace) ({ s with cur := (A ++ nameT).length + 1 } : BP α)
    (A ++ nameT ++ [tob]) Q tcb R (by simpa using ht) (by lenarith)
    (by intro t ht'; simpa using hQ t ht') (by simp [hcb])
  have h4 : bump (α := α) .closeBrace ({ s with cur := (A ++ nameT ++ [tob]).length + Q.length } : BP α) =
      (tcb, { s with cur := (A ++ nameT ++ [tob]).length + Q.length + 1 }) := by
    unfold bump
    have hb := bumpAny_split ({ s with cur := (A ++ nameT ++ [tob]).length + Q.length } : BP α)
      (A ++ nameT ++ [tob] ++ Q) tcb R (by simpa using ht) (by lenarith)
    simp only [bind, StateT.bind, hb, hcb, ne_eq, not_true_eq_false, if_false]
    simp only [List.length_append]
    rfl
  simp only [withRecover_run, bind, StateT.bind, h1, h2, h3, h4, pure, StateT.pure, Option.isNone_some,
    Bool.false_eq_true, if_false]
  simp only [isPadK, List.length_append, List.length_singleton]
  rfl

theorem compBody_run (s : BP α) (A nameT : List Tok) (tob : Tok) (Q : List Tok) (tcb : Tok) (R : List Tok)
    (ht : s.toks = A ++ (nameT ++ tob :: (Q ++ tcb :: R))) (hc : s.cur = A.length)
    (hn : ∀ t ∈ nameT, (t.kind == .openBrace || isMarker t.kind) = false) (hob : tob.kind = .openBrace)
    (hQ : ∀ t ∈ Q, t.kind ≠ .closeBrace) (hcb : tcb.kind = .closeBrace) :
    compBody s =
      (some ⟨nameT, some ⟨tob.start, tcb.stop⟩, if Q.any (fun t => !isPadK t) then some Q else none⟩,
        { s with cur := A.length + nameT.length + 1 + Q.length + 1 }) := by
  unfold compBody
  simp only [bind, StateT.bind, compBodyLong_run s A nameT tob Q tcb R ht hc hn hob hQ hcb]
  rfl

/-! ### the note -/

theorem noteP_none (s : BP α) (A R : List Tok) (ht : s.toks = A ++ R) (hc : s.cur = A.length)
    (hR : ∀ t, R.head? = some t → t.kind ≠ .openParen) : noteP s = (none, s) := by
  unfold noteP
  simp only [withRecover_run, bind, StateT.bind, consumeK_split_none .openParen s A R ht hc hR, pure, StateT.pure,
    Option.isNone_none, if_true]

theorem noteP_some (s : BP α) (A : List Tok) (top : Tok) (N : List Tok) (tcp : Tok) (R : List Tok)
    (ht : s.toks = A ++ (top :: (N ++ tcp :: R))) (hc : s.cur = A.length) (hop : top.kind = .openParen)
    (hN : ∀ t ∈ N, t.kind ≠ .closeParen) (hcp : tcp.kind = .closeParen) (hrun : RunAt top.stop N) :
    noteP s = (some (buildText top.stop N), { s with cur := A.length + 1 + N.length + 1 }) := by
  unfold noteP
  have h1 := consumeK_split_some .openParen s A top (N ++ tcp :: R) ht hc hop
  have h2 : currentOffset ({ s with cur := A.length + 1 } : BP α) = (top.stop, { s with cur := A.length + 1 }) := by
    rw [currentOffset_run]
    congr 1
    apply offAt_succ
    show s.toks[A.length]? = some top
    rw [ht, List.getElem?_append_right (Nat.le_refl _)]; simp
  have h3 := untilK_split (fun k => k == .closeParen) ({ s with cur := A.length + 1 } : BP α)
    (A ++ [top]) N tcp R (by simpa using ht) (by lenarith)
    (by intro t ht'; simpa using hN t ht') (by simp [hcp])
  have h4 : bump (α := α) .closeParen ({ s with cur := (A ++ [top]).length + N.length } : BP α) =
      (tcp, { s with cur := (A ++ [top]).length + N.length + 1 }) := by
    unfold bump
    have hb := bumpAny_split ({ s with cur := (A ++ [top]).length + N.length } : BP α)
      (A ++ [top] ++ N) tcp R (by simpa using ht) (by lenarith)
    simp only [bind, StateT.bind, hb, hcp, ne_eq, not_true_eq_false, if_false]
    simp only [List.length_append]
    rfl
  simp only [withRecover_run, bind, StateT.bind, h1, h2, h3, h4, bpText_run hrun, pure, StateT.pure,
    Option.isNone_some, Bool.false_eq_true, if_false]
  simp only [List.length_append, List.length_singleton]

/-! ### aliases -/

theorem parseAlias_none (container : String) (toks : List Tok) (off : Nat) (s : BP α) (hr : RunAt off toks)
    (h : s.ext.has Gen.EXT_COMPONENT_ALIAS = false ∨ ∀ t ∈ toks, t.kind ≠ .or) :
    parseAlias container toks off s = ((buildText off toks, none), s) := by
  unfold parseAlias
  have hidx : (if s.ext.has Gen.EXT_COMPONENT_ALIAS then toks.findIdx? (fun t => t.kind == .or) else none) = none := by
    rcases h with h | h
    · simp [h]
    · rw [rt_findIdx_none _ _ (by intro t ht; simpa using h t ht)]; simp
  simp only [bind, StateT.bind, hasExt_run, hidx, bpText_run hr, pure, StateT.pure]

theorem parseAlias_some (container : String) (nameT : List Tok) (tor : Tok) (aliasT : List Tok) (off : Nat) (s : BP α)
    (hext : s.ext.has Gen.EXT_COMPONENT_ALIAS = true) (hn : ∀ t ∈ nameT, t.kind ≠ .or) (hor : tor.kind = .or)
    (ha : ∀ t ∈ aliasT, t.kind ≠ .or) (hrn : RunAt off nameT) (hra : RunAt tor.stop aliasT)
    (hne : (buildText tor.stop aliasT).isTextEmpty s.cs = false) :
    parseAlias container (nameT ++ tor :: aliasT) off s =
      ((buildText off nameT, some (buildText tor.stop aliasT)), s) := by
  unfold parseAlias
  have hidx : (nameT ++ tor :: aliasT).findIdx? (fun t => t.kind == .or) = some nameT.length :=
    rt_findIdx_append _ nameT tor aliasT (by intro t ht; simpa using hn t ht) (by simp [hor])
  have hany : aliasT.any (fun t => t.kind == .or) = false := by
    rw [List.any_eq_false]; intro t ht; simpa using ha t ht
  have hget : (nameT ++ tor :: aliasT)[nameT.length]? = some tor := by
    rw [List.getElem?_append_right (Nat.le_refl _)]; simp
  have hdrop : (nameT ++ tor :: aliasT).drop (nameT.length + 1) = aliasT := by
    rw [show nameT ++ tor :: aliasT = (nameT ++ [tor]) ++ aliasT by simp]
    rw [List.drop_left' (by simp)]
  simp only [bind, StateT.bind, hasExt_run, hext, if_true, hidx, List.take_left', hget, Option.getD_some, hdrop,
    bpText_run hra, bpText_run hrn, get, getThe, MonadStateOf.get, StateT.get, hany, Bool.false_eq_true, if_false,
    hne, pure, StateT.pure]

/-! ### `parse_modifiers` -/

def flagOf (k : TK) : Nat := (modifierFlag k).getD 0

theorem modKind_flag {k : TK} (h : modKind k = true) : modifierFlag k = some (flagOf k) ∧ flagOf k ≠ 0 := by
  cases k <;> simp [modKind] at h <;> decide

theorem bits_step (b : Nat) (hb : b < 32) (k j : TK) (hk : modKind k = true) (hj : modKind j = true) :
    ((⟨b⟩ : Modifiers).insert (flagOf k)).bits < 32 ∧
    ((⟨b⟩ : Modifiers).insert (flagOf k)).contains (flagOf j) = ((⟨b⟩ : Modifiers).contains (flagOf j) || (k == j)) := by
  cases k <;> simp [modKind] at hk <;> cases j <;> simp [modKind] at hj <;> (revert b; decide)

theorem parseInterRef_skip (toks : List Tok) (s : BP α) (h : ∀ t, toks.head? = some t → t.kind ≠ .openParen) :
    parseInterRef toks s = ((none, toks), s) := by
  unfold parseInterRef
  cases toks with
  | nil => rfl
  | cons t0 r =>
    have : (t0.kind != TK.openParen) = true := by simpa using h t0 rfl
    simp only [this, if_true]
    rfl

theorem parseModifiersLoop_run (span : Span) (ie : Bool) (toks : List Tok) :
    ∀ (fuel : Nat) (m : Modifiers) (s : BP α), (∀ t ∈ toks, modKind t.kind = true) → (toks.map (·.kind)).Nodup →
      (∀ t ∈ toks, m.contains (flagOf t.kind) = false) → m.bits < 32 → toks.length + 1 ≤ fuel →
      parseModifiersLoop span ie fuel toks m none s =
        ((toks.foldl (fun m t => m.insert (flagOf t.kind)) m, none), s) := by
  induction toks with
  | nil =>
    intro fuel m s _ _ _ _ hf
    obtain ⟨f, rfl⟩ : ∃ f, fuel = f + 1 := ⟨fuel - 1, by simp at hf; omega⟩
    unfold parseModifiersLoop
    rfl
  | cons tok rest ih =>
    intro fuel m s hk hnd hc hb hf
    obtain ⟨f, rfl⟩ : ∃ f, fuel = f + 1 := ⟨fuel - 1, by simp at hf; omega⟩
    unfold parseModifiersLoop
    obtain ⟨hfl, hfl0⟩ := modKind_flag (hk tok (by simp))
    simp only [bind, StateT.bind, hfl, pure, StateT.pure]
    have hcf : m.contains (flagOf tok.kind) = false := hc tok (by simp)
    have hnd' : tok.kind ∉ rest.map (·.kind) ∧ (rest.map (·.kind)).Nodup := by
      rw [List.map_cons] at hnd; exact List.nodup_cons.mp hnd
    have hstep := fun j hj => bits_step m.bits hb tok.kind j (hk tok (by simp)) hj
    have hrec := ih f (m.insert (flagOf tok.kind)) s (fun t ht => hk t (by simp [ht])) hnd'.2
      (by
        intro t ht
        have h1 := (hstep t.kind (hk t (by simp [ht]))).2
        have h2 : (tok.kind == t.kind) = false := by
          rw [beq_eq_false_iff_ne]
          intro he
          exact hnd'.1 (by rw [he]; exact List.mem_map_of_mem ht)
        rw [h2, hc t (by simp [ht])] at h1
        exact h1)
      (hstep tok.kind (hk tok (by simp))).1 (by simp at hf ⊢; omega)
    have hir : parseInterRef (α := α) rest s = ((none, rest), s) := by
      apply parseInterRef_skip
      intro t ht
      cases rest with
      | nil => simp at ht
      | cons y ys =>
        simp at ht; subst ht
        have := hk y (by simp)
        cases hky : y.kind <;> simp [modKind, hky] at this ⊢
    simp only [hcf, Bool.and_false, Bool.false_eq_true, if_false]
    split
    · simp only [StateT.bind, hir]; exact hrec
    · exact hrec

theorem parseModifiers_run (mods : List TK) (mtoks : List Tok) (pos : Nat) (s : BP α)
    (hs : Spells mtoks (spellMods mods)) (hk : mods.all modKind = true) (hnd : mods.Nodup) :
    ∃ span, parseModifiers mtoks pos s = (⟨⟨modsOf mods, span⟩, none⟩, s) := by
  have hkinds : mtoks.map (·.kind) = mods := by
    have := congrArg (List.map Prod.fst) hs
    simpa [spellMods, Tok.kt, tk, List.map_map, Function.comp_def] using this
  unfold parseModifiers
  cases hm : mtoks with
  | nil =>
    rw [hm] at hkinds
    simp at hkinds
    subst hkinds
    exact ⟨_, rfl⟩
  | cons t r =>
    rw [← hm]
    have hne : mtoks.isEmpty = false := by rw [hm]; rfl
    have hall : ∀ t ∈ mtoks, modKind t.kind = true := by
      intro t ht
      rw [List.all_eq_true] at hk
      exact hk t.kind (by rw [← hkinds]; exact List.mem_map_of_mem ht)
    have hl := parseModifiersLoop_run (α := α) (tokensSpan mtoks) (s.ext.has Gen.EXT_INTERMEDIATE_PREPARATIONS) mtoks
      (mtoks.length + 1) Modifiers.empty s hall (by rw [hkinds]; exact hnd)
      (by
        intro t ht
        have := hall t ht
        cases hkt : t.kind <;> simp [modKind, hkt] at this <;> decide)
      (by decide) (Nat.le_refl _)
    simp only [hne, Bool.false_eq_true, if_false, bind, StateT.bind, hasExt_run, hl, pure, StateT.pure]
    refine ⟨tokensSpan mtoks, ?_⟩
    congr 3
    unfold modsOf
    rw [← hkinds, List.foldl_map]
    rfl

/-! ### pieces of a run -/

theorem rt_runAt_mid {ts : List Tok} (h : RunAt (baseOff ts) ts) (X Y Z : List Tok) (e : ts = X ++ (Y ++ Z)) :
    RunAt (offAt ts X.length) Y := by
  have := slice_runAt h (i := X.length) (j := X.length + Y.length) (Nat.le_add_right _ _)
  have hs : slice ts X.length (X.length + Y.length) = Y := by
    unfold slice
    rw [e, ← List.append_assoc, List.take_left' (by simp), List.drop_left]
  rwa [hs] at this

theorem rt_runAt_tail {off : Nat} {t : Tok} {l : List Tok} (h : RunAt off (t :: l)) : RunAt t.stop l :=
  ⟨h.1.2, fun x hx => h.2 x (by simp [hx])⟩

theorem offAt_after (X : List Tok) (t : Tok) (Z : List Tok) : offAt (X ++ t :: Z) (X.length + 1) = t.stop := by
  apply offAt_succ
  rw [List.getElem?_append_right (Nat.le_refl _)]; simp

theorem checkEmptyName_run (container : String) (name : Text) (s : BP α) (h : name.isTextEmpty s.cs = false) :
    checkEmptyName container name s = ((), s) := by
  unfold checkEmptyName
  simp only [bind, StateT.bind, get, getThe, MonadStateOf.get, StateT.get, pure, StateT.pure, h,
    Bool.false_eq_true, if_false]

/-! ### kinds of the pieces of a component -/

theorem nameKind_excl {k : TK} (h : nameKind k = true ∨ k = .ws ∨ k = .blockComment) :
    (k == .openBrace || isMarker k) = false ∧ k ≠ .openParen ∧ k ≠ .closeBrace := by
  rcases h with h | h | h
  · cases k <;> simp [nameKind, isMarker] at h ⊢
  · subst h; simp [isMarker]
  · subst h; simp [isMarker]

theorem leaf_kinds {cs : CharSpec} {allowed : TK → Bool} {l tl : List Tok} (hl : leafOK cs allowed l = true)
    (hs : Spells tl l) : ∀ t ∈ tl, allowed t.kind = true ∨ t.kind = .ws := by
  intro t ht
  obtain ⟨u, hu, hk, -⟩ := hs.mem ht
  rw [hk]; exact leaf_tok_kind (leafOK_facts hl) u hu

theorem pad_kinds {cs : CharSpec} {l tl : List Tok} (hl : padOK cs l = true) (hs : Spells tl l) :
    ∀ t ∈ tl, t.kind = .ws ∨ t.kind = .blockComment :=
  fun t ht => padOK_padT (hs.padOK_of hl) t ht

theorem unitKind_excl {k : TK} (h : unitKind k = true ∨ k = .ws ∨ k = .blockComment) : k ≠ .closeBrace := by
  rcases h with h | h | h
  · cases k <;> simp [unitKind, valKind] at h ⊢
  · subst h; simp
  · subst h; simp

/-- no `}` among the tokens of a quantity, and a visible token among them -/
theorem rt_qty_kinds {cs : CharSpec} (q : AQty) (p : QPad) (hq : q.ok cs = true) (hp : p.ok cs = true)
    (Q : List Tok) (hs : Spells Q (spellQty q p)) :
    (∀ t ∈ Q, t.kind ≠ .closeBrace) ∧ Q.any (fun t => !isPadK t) = true := by
  obtain ⟨L, pre, M, post, U, hts, hL, hpre, hM, hpost, hU⟩ := rt_qty_decomp hs
  simp only [AQty.ok, Bool.and_eq_true] at hq
  simp only [QPad.ok, Bool.and_eq_true] at hp
  obtain ⟨⟨⟨hpl0, hpv⟩, hpu0⟩, hpu1⟩ := hp
  obtain ⟨bpre, bpost, hVk, h, r, hMh, hhb, hhk⟩ := rt_val_facts hq.1 hpv hpre hM hpost
  constructor
  · intro t ht
    rw [hts] at ht
    rcases List.mem_append.mp ht with ht | ht
    · rcases List.mem_append.mp ht with ht | ht
      · obtain ⟨u, hu, hk, -⟩ := hL.mem ht
        rw [hk]
        unfold spellLock at hu
        split at hu
        · rcases List.mem_append.mp hu with hu | hu
          · rcases padOK_padT hpl0 u hu with h' | h' <;> simp [h']
          · simp at hu; subst hu; simp [tk]
        · simp at hu
      · exact (coreKind_excl (hVk t ht)).2.1
    · obtain ⟨u, hu, hk, -⟩ := hU.mem ht
      rw [hk]
      cases hun : q.unit with
      | none => rw [hun] at hu; simp [spellUnit] at hu
      | some un =>
        rw [hun] at hu hq
        simp only [spellUnit, List.mem_append, List.mem_singleton] at hu
        rcases hu with ((hu | hu) | hu) | hu
        · subst hu; simp [tk]
        · rcases padOK_padT hpu0 u hu with h' | h' <;> simp [h']
        · rcases leaf_tok_kind (leafOK_facts hq.2) u hu with h' | h'
          · exact unitKind_excl (Or.inl h')
          · simp [h']
        · rcases padOK_padT hpu1 u hu with h' | h' <;> simp [h']
  · rw [List.any_eq_true]
    refine ⟨h, by rw [hts, hMh]; simp, ?_⟩
    simp only [isWsComment, Bool.or_eq_false_iff] at hhb
    simp [isPadK, hhb.1.1, hhb.2]

/-! ### the ingredient -/

/-- the parsed quantity is the intended one -/
def QtyMatches (cs : CharSpec) : Option AQty → Option (Loc (PQuantity α)) → Prop
  | none, none => True
  | some q, some pq =>
    pq.val.value.value.val = q.val.denote ∧ pq.val.value.lock.isSome = q.lock ∧
      pq.val.unit.map (fun t => t.trimmed cs) = q.unit.map leafText
  | _, _ => False

/-- the parsed ingredient is the intended one: texts trim to the intended strings, the modifier
    flags are the written ones, no intermediate reference, the quantity as in the quantity layer -/
def IngrMatches (cs : CharSpec) (c : AComp) (ing : PIngredient α) : Prop :=
  ing.name.trimmed cs = leafText c.name ∧ ing.alias.map (fun t => t.trimmed cs) = c.alias.map leafText ∧
  ing.note.map (fun t => t.trimmed cs) = c.note.map leafText ∧ ing.modifiers.val = modsOf c.mods ∧
  ing.inter = none ∧ QtyMatches cs c.qty ing.quantity

/-- the decomposition of the actual tokens of a component -/
theorem rt_comp_decomp {marker : Tok} {c : AComp} {p : CPad} {ts : List Tok} (hs : Spells ts (spellComp marker c p)) :
    ∃ tm mt nm n1 al tob Q tcb nt,
      ts = tm :: (mt ++ (nm ++ n1 ++ al ++ tob :: (Q ++ tcb :: nt))) ∧ tm.kind = marker.kind ∧
      Spells mt (spellMods c.mods) ∧ Spells nm c.name ∧ Spells n1 p.n1 ∧ Spells al (spellAlias c.alias p) ∧
      tob.kind = .openBrace ∧ Spells Q (match c.qty with | some q => spellQty q p.q | none => p.e) ∧
      tcb.kind = .closeBrace ∧ Spells nt (spellNote c.note) := by
  simp only [spellComp, spellBraces, List.append_assoc, List.cons_append, List.nil_append] at hs
  obtain ⟨tm, r, rfl, hmk, -, hs⟩ := hs.cons_inv
  obtain ⟨mt, r, rfl, hmt, hs⟩ := hs.append_inv
  obtain ⟨nm, r, rfl, hnm, hs⟩ := hs.append_inv
  obtain ⟨n1, r, rfl, hn1, hs⟩ := hs.append_inv
  obtain ⟨al, r, rfl, hal, hs⟩ := hs.append_inv
  obtain ⟨tob, r, rfl, hobk, -, hs⟩ := hs.cons_inv
  obtain ⟨Q, r, rfl, hQ, hs⟩ := hs.append_inv
  obtain ⟨tcb, nt, rfl, hcbk, -, hnt⟩ := hs.cons_inv
  exact ⟨tm, mt, nm, n1, al, tob, Q, tcb, nt, by simp, hmk, hmt, hnm, hn1, hal, hobk, hQ, hcbk, hnt⟩

/-- the steps the ingredient and cookware parsers share, on the tokens of a component spelling:
    marker, modifiers, body, note, alias, with the exact cursor after each -/
theorem rt_comp_steps (mk : TK) (marker : Tok) (hmarker : marker.kind = mk) (c : AComp) (p : CPad) (s : BP α)
    (hwf : c.wf s.cs s.ext = true) (hp : p.ok s.cs = true)
    (A ts rest : List Tok) (hs : Spells ts (spellComp marker c p)) (ht : s.toks = A ++ (ts ++ rest))
    (hc : s.cur = A.length) (hrest : restOK c rest = true) (hrun : RunAt (baseOff s.toks) s.toks) :
    ∃ (tm : Tok) (mt nameT Q : List Tok) (tob tcb : Tok) (name : Text) (alias note : Option Text) (c2 c3 : Nat),
      consumeK mk s = (some tm, { s with cur := A.length + 1 }) ∧
      modifiersP ({ s with cur := A.length + 1 } : BP α) = (mt, { s with cur := c2 }) ∧
      compBody ({ s with cur := c2 } : BP α) =
        (some ⟨nameT, some ⟨tob.start, tcb.stop⟩, if Q.any (fun t => !isPadK t) then some Q else none⟩,
          { s with cur := c3 }) ∧
      noteP ({ s with cur := c3 } : BP α) = (note, { s with cur := A.length + ts.length }) ∧
      (∀ container, parseAlias container nameT (offAt s.toks c2) ({ s with cur := A.length + ts.length } : BP α) =
        ((name, alias), { s with cur := A.length + ts.length })) ∧
      name.isTextEmpty s.cs = false ∧ name.trimmed s.cs = leafText c.name ∧
      alias.map (fun t => t.trimmed s.cs) = c.alias.map leafText ∧
      note.map (fun t => t.trimmed s.cs) = c.note.map leafText ∧
      Spells mt (spellMods c.mods) ∧
      Spells Q (match c.qty with | some q => spellQty q p.q | none => p.e) ∧
      (∀ off, RunAt off Q → True) ∧ RunAt (baseOff Q) Q ∧
      (Q.any (fun t => !isPadK t) = c.qty.isSome) := by
  simp only [AComp.wf, Bool.and_eq_true] at hwf
  obtain ⟨⟨⟨⟨⟨⟨⟨⟨hname, hmk⟩, hmnd⟩, hmext⟩, hmhead⟩, hnor⟩, halias⟩, hnote⟩, hqty⟩ := hwf
  simp only [CPad.ok, Bool.and_eq_true] at hp
  obtain ⟨⟨⟨⟨hpn1, hpa0⟩, hpa1⟩, hpq⟩, hpe⟩ := hp
  obtain ⟨tm, mt, nm, n1, al, tob, Q, tcb, nt, rfl, htmk, hmt, hnm, hn1, hal, hobk, hQ, hcbk, hnt⟩ := rt_comp_decomp hs
  rw [hmarker] at htmk
  have lf := leafOK_facts hname
  -- the head of the name
  obtain ⟨u, ur, hu, hau⟩ := lf.head
  have hnm0 := hnm
  rw [hu] at hnm0
  obtain ⟨hd, nmr, hnmeq, hhdk, -, -⟩ := hnm0.cons_inv
  subst hnmeq
  have hnmk := leaf_kinds hname hnm
  have hn1k := pad_kinds hpn1 hn1
  have hhd_nk : nameKind hd.kind = true := by rw [hhdk]; exact (isAtomTok_facts hau).1
  -- kinds of the alias part
  have halk : ∀ t ∈ al, nameKind t.kind = true ∨ t.kind = .ws ∨ t.kind = .blockComment := by
    intro t ht'
    cases hca : c.alias with
    | none => rw [hca] at hal; simp only [spellAlias] at hal; rw [hal.nil_inv] at ht'; simp at ht'
    | some a =>
      rw [hca] at hal halias
      simp only [Bool.and_eq_true] at halias
      simp only [spellAlias, List.append_assoc, List.cons_append, List.nil_append] at hal
      obtain ⟨tor, r, rfl, hork, -, hal⟩ := hal.cons_inv
      obtain ⟨a0, r, rfl, ha0, hal⟩ := hal.append_inv
      obtain ⟨ta, a1, rfl, hta, ha1⟩ := hal.append_inv
      simp only [List.mem_cons, List.mem_append] at ht'
      rcases ht' with rfl | ht' | ht' | ht'
      · left; rw [hork]; rfl
      · right; exact pad_kinds hpa0 ha0 t ht'
      · rcases leaf_kinds halias.1.2 hta t ht' with h' | h'
        · exact Or.inl h'
        · exact Or.inr (Or.inl h')
      · right; exact pad_kinds hpa1 ha1 t ht'
  have hnameTk : ∀ t ∈ hd :: nmr ++ n1 ++ al, (t.kind == .openBrace || isMarker t.kind) = false := by
    intro t ht'
    rcases List.mem_append.mp ht' with ht' | ht'
    · rcases List.mem_append.mp ht' with ht' | ht'
      · rcases hnmk t ht' with h' | h'
        · exact (nameKind_excl (Or.inl h')).1
        · exact (nameKind_excl (Or.inr (Or.inl h'))).1
      · exact (nameKind_excl (Or.inr (hn1k t ht'))).1
    · exact (nameKind_excl (halk t ht')).1
  -- the quantity tokens
  have hQfacts : (∀ t ∈ Q, t.kind ≠ .closeBrace) ∧ Q.any (fun t => !isPadK t) = c.qty.isSome := by
    cases hcq : c.qty with
    | none =>
      rw [hcq] at hQ
      have := pad_kinds hpe hQ
      refine ⟨fun t ht' => by rcases this t ht' with h' | h' <;> simp [h'], ?_⟩
      simp only [Option.isSome_none, List.any_eq_false]
      intro t ht'
      rcases this t ht' with h' | h' <;> simp [isPadK, h']
    | some q =>
      rw [hcq] at hQ hqty
      simp only [Bool.and_eq_true] at hqty
      have := rt_qty_kinds q p.q hqty.1.1 hpq Q hQ
      exact ⟨this.1, by simp [this.2]⟩
  -- the whole token list, in the shapes the primitives want
  have e1 : s.toks = A ++ tm :: (mt ++ hd :: (nmr ++ n1 ++ al ++ tob :: (Q ++ tcb :: (nt ++ rest)))) := by
    rw [ht]; simp
  have h1 := consumeK_split_some mk s A tm _ e1 hc htmk
  -- modifiers
  have hmtk : ∀ m ∈ mt, modKind m.kind = true := by
    intro m hm
    obtain ⟨u', hu', hk', -⟩ := hmt.mem hm
    simp only [spellMods, List.mem_map] at hu'
    obtain ⟨k, hk, rfl⟩ := hu'
    rw [hk']; rw [List.all_eq_true] at hmk; exact hmk k hk
  have h2 : modifiersP ({ s with cur := A.length + 1 } : BP α) = (mt, { s with cur := A.length + 1 + mt.length }) := by
    by_cases hext : s.ext.has Gen.EXT_COMPONENT_MODIFIERS = true
    · have hx : modKind hd.kind = false := by
        simp only [Ext.modifiers, hext, Bool.not_true, Bool.false_or, hu, List.head?_cons, Option.all_some] at hmhead
        rw [hhdk]; simpa using hmhead
      have := modifiersP_on ({ s with cur := A.length + 1 } : BP α) hext (A ++ [tm]) mt hd
        (nmr ++ n1 ++ al ++ tob :: (Q ++ tcb :: (nt ++ rest))) (by rw [e1]; simp) (by simp) hmtk hx
        (nameKind_excl (Or.inl hhd_nk)).2.1
      rw [this]; simp
    · have hext' : s.ext.has Gen.EXT_COMPONENT_MODIFIERS = false := by simpa using hext
      simp only [Ext.modifiers, hext', Bool.or_false, List.isEmpty_iff] at hmext
      rw [hmext] at hmt
      simp only [spellMods, List.map_nil] at hmt
      have := hmt.nil_inv; subst this
      rw [modifiersP_off ({ s with cur := A.length + 1 } : BP α) hext']; rfl
  -- body
  have h3 := compBody_run ({ s with cur := A.length + 1 + mt.length } : BP α) (A ++ tm :: mt)
    (hd :: nmr ++ n1 ++ al) tob Q tcb (nt ++ rest) (by rw [e1]; simp) (by simp; omega) hnameTk hobk hQfacts.1 hcbk
  -- the note
  have hnoteR : ∃ note : Option Text,
      noteP ({ s with cur := (A ++ tm :: mt).length + (hd :: nmr ++ n1 ++ al).length + 1 + Q.length + 1 } : BP α) =
        (note, { s with cur := A.length + (tm :: (mt ++ (hd :: nmr ++ n1 ++ al ++ tob :: (Q ++ tcb :: nt)))).length }) ∧
      note.map (fun t => t.trimmed s.cs) = c.note.map leafText := by
    cases hcn : c.note with
    | none =>
      rw [hcn] at hnt
      simp only [spellNote] at hnt
      have := hnt.nil_inv; subst this
      refine ⟨none, ?_, rfl⟩
      have hr : ∀ t, rest.head? = some t → t.kind ≠ .openParen := by
        intro t ht'
        simp only [restOK, hcn, Option.isSome_none, Bool.false_or, ht', Option.all_some, bne_iff_ne] at hrest
        simpa using hrest
      rw [noteP_none _ (A ++ tm :: mt ++ (hd :: nmr ++ n1 ++ al) ++ [tob] ++ Q ++ [tcb]) rest
        (by rw [e1]; simp) (by lenarith) hr]
      congr 2
      lenarith
    | some n =>
      rw [hcn] at hnt hnote
      simp only [spellNote, List.append_assoc, List.cons_append, List.nil_append] at hnt
      obtain ⟨top, r, rfl, hopk, -, hnt⟩ := hnt.cons_inv
      obtain ⟨N, r, rfl, hN, hnt⟩ := hnt.append_inv
      obtain ⟨tcp, rfl, hcpk, -⟩ := hnt.single_inv
      simp only [tk] at hopk hcpk
      have hNk : ∀ t ∈ N, t.kind ≠ .closeParen := by
        intro t ht'
        rcases leaf_kinds hnote hN t ht' with h' | h'
        · cases hk : t.kind <;> simp [noteKind, nameKind, hk] at h' ⊢
        · simp [h']
      have hrN : RunAt top.stop N := by
        have := rt_runAt_mid hrun (A ++ tm :: mt ++ (hd :: nmr ++ n1 ++ al) ++ [tob] ++ Q ++ [tcb] ++ [top]) N
          (tcp :: rest) (by rw [e1]; simp)
        rw [e1] at this
        have e2 : A ++ tm :: (mt ++ hd :: (nmr ++ n1 ++ al ++ tob :: (Q ++ tcb :: (top :: (N ++ [tcp]) ++ rest)))) =
            (A ++ tm :: mt ++ (hd :: nmr ++ n1 ++ al) ++ [tob] ++ Q ++ [tcb]) ++ top :: (N ++ tcp :: rest) := by simp
        rw [e2, List.length_append, List.length_singleton, offAt_after] at this
        exact this
      refine ⟨some (buildText top.stop N), ?_, ?_⟩
      · rw [noteP_some _ (A ++ tm :: mt ++ (hd :: nmr ++ n1 ++ al) ++ [tob] ++ Q ++ [tcb]) top N tcp rest
          (by rw [e1]; simp) (by lenarith) hopk hNk hcpk hrN]
        congr 2
        lenarith
      · have := rt_leaf_text (cs := s.cs) (allowed := noteKind) (pre := []) (l := n) (post := []) (ts := N)
          (by simpa using hN) rfl rfl hnote top.stop
        simp [this.1]
  obtain ⟨note, hnoteP, hnoteT⟩ := hnoteR
  -- name and alias
  have hrunName : RunAt (offAt s.toks (A.length + 1 + mt.length)) (hd :: nmr ++ n1 ++ al) := by
    have := rt_runAt_mid hrun (A ++ tm :: mt) (hd :: nmr ++ n1 ++ al) (tob :: (Q ++ tcb :: (nt ++ rest)))
      (by rw [e1]; simp)
    have e2 : (A ++ tm :: mt).length = A.length + 1 + mt.length := by lenarith
    rwa [e2] at this
  have hnoOr : s.ext.has Gen.EXT_COMPONENT_ALIAS = true → ∀ t ∈ hd :: nmr ++ n1, t.kind ≠ .or := by
    intro hext t ht'
    rcases List.mem_append.mp ht' with ht' | ht'
    · obtain ⟨u', hu', hk', -⟩ := hnm.mem ht'
      simp only [Ext.alias, hext, Bool.not_true, Bool.false_or, List.all_eq_true, bne_iff_ne] at hnor
      rw [hk']; exact hnor u' hu'
    · rcases hn1k t ht' with h' | h' <;> simp [h']
  have hnameLeaf := fun off => rt_leaf_text (cs := s.cs) (allowed := nameKind) (pre := []) (l := c.name) (post := p.n1)
    (ts := hd :: nmr ++ n1) (by simpa using hnm.append hn1) rfl hpn1 hname off
  have haliasR : ∃ (name : Text) (alias : Option Text),
      (∀ container (s' : BP α), s'.ext = s.ext → s'.cs = s.cs →
        parseAlias container (hd :: nmr ++ n1 ++ al) (offAt s.toks (A.length + 1 + mt.length)) s' = ((name, alias), s')) ∧
      name.isTextEmpty s.cs = false ∧ name.trimmed s.cs = leafText c.name ∧
      alias.map (fun t => t.trimmed s.cs) = c.alias.map leafText := by
    cases hca : c.alias with
    | none =>
      rw [hca] at hal
      simp only [spellAlias] at hal
      have := hal.nil_inv; subst this
      simp only [List.append_nil] at hrunName ⊢
      refine ⟨buildText (offAt s.toks (A.length + 1 + mt.length)) (hd :: nmr ++ n1), none, ?_, (hnameLeaf _).2,
        (hnameLeaf _).1, rfl⟩
      intro container s' he hcs
      apply parseAlias_none container _ _ s' hrunName
      by_cases hext : s.ext.has Gen.EXT_COMPONENT_ALIAS = true
      · right; exact hnoOr hext
      · left; rw [he]; simpa using hext
    | some a =>
      rw [hca] at hal halias
      simp only [Bool.and_eq_true] at halias
      obtain ⟨⟨hext, haleaf⟩, hanor⟩ := halias
      simp only [Ext.alias] at hext
      simp only [spellAlias, List.append_assoc, List.cons_append, List.nil_append] at hal
      obtain ⟨tor, aliasT, rfl, hork, -, haT⟩ := hal.cons_inv
      simp only [tk] at hork
      have hsplit := (runAt_append _ _ _).mp hrunName
      have hrA : RunAt tor.stop aliasT := rt_runAt_tail hsplit.2
      have haliasLeaf := rt_leaf_text (cs := s.cs) (allowed := nameKind) (pre := p.a0) (l := a) (post := p.a1)
        (ts := aliasT) (by simpa using haT) hpa0 hpa1 haleaf tor.stop
      have haTk : ∀ t ∈ aliasT, t.kind ≠ .or := by
        intro t ht'
        obtain ⟨u', hu', hk', -⟩ := haT.mem ht'
        rw [hk']
        simp only [List.mem_append] at hu'
        rcases hu' with hu' | hu' | hu'
        · rcases padOK_padT hpa0 u' hu' with h' | h' <;> simp [h']
        · rw [List.all_eq_true] at hanor; simpa using hanor u' hu'
        · rcases padOK_padT hpa1 u' hu' with h' | h' <;> simp [h']
      refine ⟨buildText (offAt s.toks (A.length + 1 + mt.length)) (hd :: nmr ++ n1),
        some (buildText tor.stop aliasT), ?_, (hnameLeaf _).2, (hnameLeaf _).1, by simp [haliasLeaf.1]⟩
      intro container s' he hcs
      exact parseAlias_some container (hd :: nmr ++ n1) tor aliasT _ s' (by rw [he]; exact hext) (hnoOr hext) hork
        haTk hsplit.1 hrA (by rw [hcs]; exact haliasLeaf.2)
  obtain ⟨name, alias, hparseAlias, hnameNE, hnameT, haliasT⟩ := haliasR
  have hrunQ : RunAt (baseOff Q) Q :=
    (rt_runAt_mid hrun (A ++ tm :: mt ++ (hd :: nmr ++ n1 ++ al) ++ [tob]) Q (tcb :: (nt ++ rest))
      (by rw [e1]; simp)).base
  refine ⟨tm, mt, hd :: nmr ++ n1 ++ al, Q, tob, tcb, name, alias, note, _, _, h1, h2, h3, hnoteP, ?_, hnameNE, hnameT,
    haliasT, hnoteT, hmt, hQ, fun _ _ => trivial, hrunQ, hQfacts.2⟩
  intro container
  exact hparseAlias container _ rfl rfl

theorem rt_ingredientP (c : AComp) (p : CPad) (s : BP α) (hwf : c.wf s.cs s.ext = true) (hp : p.ok s.cs = true)
    (A ts rest : List Tok) (hs : Spells ts (spellIngredient c p)) (ht : s.toks = A ++ (ts ++ rest))
    (hc : s.cur = A.length) (hrest : restOK c rest = true) (hrun : RunAt (baseOff s.toks) s.toks) :
    ∃ ing : PIngredient α,
      ingredientP s = (some (.ingredient ⟨ing, ⟨offAt s.toks A.length, offAt s.toks (A.length + ts.length)⟩⟩),
        { s with cur := A.length + ts.length }) ∧ IngrMatches s.cs c ing := by
  obtain ⟨tm, mt, nameT, Q, tob, tcb, name, alias, note, c2, c3, h1, h2, h3, h4, h5, hnameNE, hnameT, haliasT, hnoteT,
    hmt, hQ, -, hrunQ, hQany⟩ := rt_comp_steps .at (tk .at ['@']) rfl c p s hwf hp A ts rest hs ht hc hrest hrun
  have hwf' := hwf
  simp only [AComp.wf, Bool.and_eq_true] at hwf'
  obtain ⟨⟨⟨⟨⟨⟨⟨⟨hname, hmk⟩, hmnd⟩, hmext⟩, hmhead⟩, hnor⟩, halias⟩, hnote⟩, hqty⟩ := hwf'
  simp only [CPad.ok, Bool.and_eq_true] at hp
  obtain ⟨⟨⟨⟨hpn1, hpa0⟩, hpa1⟩, hpq⟩, hpe⟩ := hp
  obtain ⟨mspan, hpm⟩ := parseModifiers_run (α := α) c.mods mt (offAt s.toks (A.length + 1))
    ({ s with cur := A.length + ts.length } : BP α) hmt hmk (by simpa using hmnd)
  have hce := checkEmptyName_run "ingredient" name ({ s with cur := A.length + ts.length } : BP α) hnameNE
  unfold ingredientP
  simp only [bind, StateT.bind, currentOffset_run, h1, h2, h3, h4, h5, hce, hpm, hQany]
  cases hcq : c.qty with
  | none =>
    simp only [Option.isSome_none, Bool.false_eq_true, if_false, pure, StateT.pure, hc]
    refine ⟨_, rfl, ?_⟩
    refine ⟨hnameT, haliasT, hnoteT, rfl, rfl, ?_⟩
    rw [hcq]; trivial
  | some q =>
    rw [hcq] at hQ hqty
    simp only [Bool.and_eq_true, Bool.or_eq_true, Bool.not_eq_true'] at hqty
    obtain ⟨vspan, lspan, unitT, sep, hpq', hl, hunit, hsep⟩ := rt_parseQuantity q p.q
      ({ s with cur := A.length + ts.length } : BP α) hqty.1.1 hpq
      (by intro hr; rcases hqty.1.2 with h | h; · rw [hr] at h; cases h
          · exact h)
      (by intro ha; rcases hqty.2 with h | h; · rw [ha] at h; cases h
          · exact h)
      Q hQ hrunQ
    simp only [Option.isSome_some, if_true, StateT.bind, hpq', pure, StateT.pure, hc]
    refine ⟨_, rfl, ?_⟩
    refine ⟨hnameT, haliasT, hnoteT, rfl, rfl, ?_⟩
    rw [hcq]
    exact ⟨rfl, hl, hunit⟩

/-! ### cookware -/

theorem foldl_insert_contains (mods : List TK) :
    ∀ (m : Modifiers), m.bits < 32 → (∀ k ∈ mods, modKind k = true) → ∀ j, modKind j = true →
      (mods.foldl (fun m k => m.insert (flagOf k)) m).contains (flagOf j) = (m.contains (flagOf j) || decide (j ∈ mods)) := by
  induction mods with
  | nil => intro m _ _ j _; simp
  | cons k rest ih =>
    intro m hb hk j hj
    have hs := bits_step m.bits hb k j (hk k (by simp)) hj
    rw [List.foldl_cons, ih _ hs.1 (fun x hx => hk x (by simp [hx])) j hj, hs.2]
    by_cases hjk : j = k
    · subst hjk; simp
    · have : (k == j) = false := by rw [beq_eq_false_iff_ne]; exact fun h => hjk h.symm
      simp [this, hjk]

theorem modsOf_no_recipe (mods : List TK) (hk : mods.all modKind = true) (hat : mods.contains .at = false) :
    (modsOf mods).contains Modifiers.RECIPE = false := by
  have := foldl_insert_contains mods Modifiers.empty (by decide) (by rw [List.all_eq_true] at hk; exact hk) .at rfl
  have e : (modsOf mods).contains Modifiers.RECIPE =
      (mods.foldl (fun m k => m.insert (flagOf k)) Modifiers.empty).contains (flagOf .at) := rfl
  rw [e, this]
  have hni : TK.at ∉ mods := by simpa using hat
  simp [hni]
  decide

/-- the parsed cookware quantity is the intended one -/
def CwQtyMatches : Option AQty → Option (Loc (PQValue α)) → Prop
  | none, none => True
  | some q, some pq => pq.val.value.val = q.val.denote ∧ pq.val.lock.isSome = q.lock
  | _, _ => False

def CwMatches (cs : CharSpec) (c : AComp) (cw : PCookware α) : Prop :=
  cw.name.trimmed cs = leafText c.name ∧ cw.alias.map (fun t => t.trimmed cs) = c.alias.map leafText ∧
  cw.note.map (fun t => t.trimmed cs) = c.note.map leafText ∧ cw.modifiers.val = modsOf c.mods ∧
  CwQtyMatches c.qty cw.quantity

theorem rt_cookwareP (c : AComp) (p : CPad) (s : BP α) (hwfc : c.wfCookware s.cs s.ext = true) (hp : p.ok s.cs = true)
    (A ts rest : List Tok) (hs : Spells ts (spellCookware c p)) (ht : s.toks = A ++ (ts ++ rest))
    (hc : s.cur = A.length) (hrest : restOK c rest = true) (hrun : RunAt (baseOff s.toks) s.toks) :
    ∃ cw : PCookware α,
      cookwareP s = (some (.cookware ⟨cw, ⟨offAt s.toks A.length, offAt s.toks (A.length + ts.length)⟩⟩),
        { s with cur := A.length + ts.length }) ∧ CwMatches s.cs c cw := by
  simp only [AComp.wfCookware, Bool.and_eq_true, Bool.not_eq_true'] at hwfc
  obtain ⟨⟨hwf, hnoat⟩, hnounit⟩ := hwfc
  obtain ⟨tm, mt, nameT, Q, tob, tcb, name, alias, note, c2, c3, h1, h2, h3, h4, h5, hnameNE, hnameT, haliasT, hnoteT,
    hmt, hQ, -, hrunQ, hQany⟩ := rt_comp_steps .hash (tk .hash ['#']) rfl c p s hwf hp A ts rest hs ht hc hrest hrun
  have hwf' := hwf
  simp only [AComp.wf, Bool.and_eq_true] at hwf'
  obtain ⟨⟨⟨⟨⟨⟨⟨⟨hname, hmk⟩, hmnd⟩, hmext⟩, hmhead⟩, hnor⟩, halias⟩, hnote⟩, hqty⟩ := hwf'
  simp only [CPad.ok, Bool.and_eq_true] at hp
  obtain ⟨⟨⟨⟨hpn1, hpa0⟩, hpa1⟩, hpq⟩, hpe⟩ := hp
  obtain ⟨mspan, hpm⟩ := parseModifiers_run (α := α) c.mods mt (offAt s.toks (A.length + 1))
    ({ s with cur := A.length + ts.length } : BP α) hmt hmk (by simpa using hmnd)
  have hce := checkEmptyName_run "cookware" name ({ s with cur := A.length + ts.length } : BP α) hnameNE
  have hrec := modsOf_no_recipe c.mods hmk hnoat
  unfold cookwareP
  simp only [bind, StateT.bind, currentOffset_run, h1, h2, h3, h4, h5, hce, hQany]
  cases hcq : c.qty with
  | none =>
    simp only [Option.isSome_none, Bool.false_eq_true, if_false, pure, StateT.pure, hpm, hrec, hc]
    refine ⟨_, rfl, ?_⟩
    refine ⟨hnameT, haliasT, hnoteT, rfl, ?_⟩
    rw [hcq]; trivial
  | some q =>
    rw [hcq] at hQ hqty hnounit
    simp only [Bool.and_eq_true, Bool.or_eq_true, Bool.not_eq_true'] at hqty
    obtain ⟨vspan, lspan, unitT, sep, hpq', hl, hunit, hsep⟩ := rt_parseQuantity q p.q
      ({ s with cur := A.length + ts.length } : BP α) hqty.1.1 hpq
      (by intro hr; rcases hqty.1.2 with h | h; · rw [hr] at h; cases h
          · exact h)
      (by intro ha; rcases hqty.2 with h | h; · rw [ha] at h; cases h
          · exact h)
      Q hQ hrunQ
    have hun : unitT = none := by
      have hqn : q.unit = none := by simpa using hnounit
      rw [hqn] at hunit
      cases unitT <;> simp_all
    subst hun
    simp only [Option.isSome_some, if_true, bind, StateT.bind, hpq', pure, StateT.pure, hpm, hrec,
      Bool.false_eq_true, if_false, hc]
    refine ⟨_, rfl, ?_⟩
    refine ⟨hnameT, haliasT, hnoteT, rfl, ?_⟩
    rw [hcq]
    exact ⟨rfl, hl⟩

end Cook
