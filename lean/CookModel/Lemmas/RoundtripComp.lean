import CookModel.Lemmas.RoundtripQty
/-
  C01, component layer: the component parsers read back what `spellComp` writes.
-/
set_option linter.unusedSectionVars false
set_option linter.unusedSimpArgs false
set_option linter.unusedVariables false
namespace Cook

variable {α : Type} [Arith α]

/-- cursor arithmetic -/
macro "lenarith" : tactic =>
  `(tactic| first
    | omega
    | (simp only [List.length_append, List.length_cons, List.length_nil, List.length_singleton] <;> omega))

theorem withRecover_run {β : Type} (f : P α (Option β)) (s : BP α) :
    withRecover f s = ((f s).1, if (f s).1.isNone then { (f s).2 with cur := s.cur } else (f s).2) := by
  unfold withRecover
  simp only [bind, StateT.bind, getCur, get, getThe, MonadStateOf.get, StateT.get, pure, StateT.pure, setCur,
    modify, modifyGet, MonadStateOf.modifyGet, StateT.modifyGet]
  rcases hfs : f s with ⟨a, s1⟩
  cases a with
  | none => rfl
  | some b => rfl

theorem currentOffset_split (s : BP α) : currentOffset s = (offAt s.toks s.cur, s) := currentOffset_run s

/-! ### `modifiers()` -/

theorem modKind_cases {k : TK} (h : modKind k = true) : isModifierTok k = true ∨ k = .and := by
  cases k <;> simp [modKind, isModifierTok] at h ⊢

theorem modifiersLoop_run (inter : Bool) (ms : List Tok) :
    ∀ (fuel : Nat) (s : BP α) (A : List Tok) (x : Tok) (R : List Tok),
      s.toks = A ++ (ms ++ x :: R) → s.cur = A.length → (∀ m ∈ ms, modKind m.kind = true) →
      modKind x.kind = false → x.kind ≠ .openParen → ms.length + 1 ≤ fuel →
      modifiersLoop inter fuel s = ((), { s with cur := A.length + ms.length }) := by
  induction ms with
  | nil =>
    intro fuel s A x R ht hc _ hx hxp hf
    obtain ⟨f, rfl⟩ : ∃ f, fuel = f + 1 := ⟨fuel - 1, by simp at hf; omega⟩
    unfold modifiersLoop
    have h1 := peekK_split s A (x :: R) (by simpa using ht) hc
    have hx1 : isModifierTok x.kind = false := by
      cases hk : x.kind <;> simp [modKind, isModifierTok, hk] at hx ⊢
    have hx2 : (x.kind == TK.and) = false := by
      cases hk : x.kind <;> simp [modKind, hk] at hx ⊢
    simp only [bind, StateT.bind, h1, List.head?_cons, Option.map_some, hx1, hx2, Bool.false_eq_true, if_false]
    simp only [pure, StateT.pure, List.length_nil, Nat.add_zero, ← hc]
  | cons m ms ih =>
    intro fuel s A x R ht hc hms hx hxp hf
    obtain ⟨f, rfl⟩ : ∃ f, fuel = f + 1 := ⟨fuel - 1, by simp at hf; omega⟩
    have hmk := hms m (by simp)
    have h1 := peekK_split s A (m :: (ms ++ x :: R)) (by simpa using ht) hc
    have h2 := bumpAny_split s A m (ms ++ x :: R) (by simpa using ht) hc
    have ht' : ({ s with cur := A.length + 1 } : BP α).toks = (A ++ [m]) ++ (ms ++ x :: R) := by
      simpa using ht
    have hrec := ih f ({ s with cur := A.length + 1 } : BP α) (A ++ [m]) x R ht' (by simp)
      (fun y hy => hms y (by simp [hy])) hx hxp (by simp at hf ⊢; omega)
    have hlen : (A ++ [m]).length + ms.length = A.length + (m :: ms).length := by simp; omega
    rw [hlen] at hrec
    unfold modifiersLoop
    rcases modKind_cases hmk with hm | hm
    · simp only [bind, StateT.bind, h1, List.head?_cons, Option.map_some, hm, if_true, h2]
      exact hrec
    · have hm1 : isModifierTok m.kind = false := by rw [hm]; rfl
      have hm2 : (m.kind == TK.and) = true := by rw [hm]; rfl
      simp only [bind, StateT.bind, h1, List.head?_cons, Option.map_some, hm1, hm2, Bool.false_eq_true, if_false,
        if_true, h2]
      cases inter with
      | false => simp only [Bool.false_eq_true, if_false]; exact hrec
      | true =>
        simp only [if_true]
        have hnp : ∀ t, (ms ++ x :: R).head? = some t → t.kind ≠ .openParen := by
          intro t ht2
          cases ms with
          | nil => simp at ht2; subst ht2; exact hxp
          | cons y ys =>
            simp at ht2; subst ht2
            have := hms y (by simp)
            cases hk : y.kind <;> simp [modKind, hk] at this ⊢
        have h3 := consumeK_split_none .openParen ({ s with cur := A.length + 1 } : BP α) (A ++ [m])
          (ms ++ x :: R) ht' (by simp) hnp
        simp only [bind, StateT.bind, withRecover_run, h3, pure, StateT.pure, Option.isNone_none, if_true]
        exact hrec

theorem modifiersP_off (s : BP α) (h : s.ext.has Gen.EXT_COMPONENT_MODIFIERS = false) :
    modifiersP s = ([], s) := by
  unfold modifiersP
  simp only [bind, StateT.bind, hasExt_run, h, Bool.not_false, if_true]
  rfl

theorem modifiersP_on (s : BP α) (h : s.ext.has Gen.EXT_COMPONENT_MODIFIERS = true)
    (A ms : List Tok) (x : Tok) (R : List Tok) (ht : s.toks = A ++ (ms ++ x :: R)) (hc : s.cur = A.length)
    (hms : ∀ m ∈ ms, modKind m.kind = true) (hx : modKind x.kind = false) (hxp : x.kind ≠ .openParen) :
    modifiersP s = (ms, { s with cur := A.length + ms.length }) := by
  unfold modifiersP
  have hl := modifiersLoop_run (α := α) (s.ext.has Gen.EXT_INTERMEDIATE_PREPARATIONS) ms
    ((s.toks.drop s.cur).length + 1) s A x R ht hc hms hx hxp (by rw [rt_drop_cur ht hc]; simp)
  simp only [bind, StateT.bind, hasExt_run, h, Bool.not_true, Bool.false_eq_true, if_false, getCur, get, getThe,
    MonadStateOf.get, StateT.get, pure, StateT.pure, restToks, hl]
  congr 1
  rw [ht, hc, ← List.append_assoc, List.take_left' (by simp), List.drop_left]

/-! ### the body `name { quantity }` -/

def isPadK (t : Tok) : Bool := t.kind == .ws || t.kind == .blockComment

theorem compBodyLong_run (s : BP α) (A nameT : List Tok) (tob : Tok) (Q : List Tok) (tcb : Tok) (R : List Tok)
    (ht : s.toks = A ++ (nameT ++ tob :: (Q ++ tcb :: R))) (hc : s.cur = A.length)
    (hn : ∀ t ∈ nameT, (t.kind == .openBrace || isMarker t.kind) = false) (hob : tob.kind = .openBrace)
    (hQ : ∀ t ∈ Q, t.kind ≠ .closeBrace) (hcb : tcb.kind = .closeBrace) :
    compBodyLong s =
      (some ⟨nameT, some ⟨tob.start, tcb.stop⟩, if Q.any (fun t => !isPadK t) then some Q else none⟩,
        { s with cur := A.length + nameT.length + 1 + Q.length + 1 }) := by
  unfold compBodyLong
  have h1 := untilK_split (fun k => k == .openBrace || isMarker k) s A nameT tob (Q ++ tcb :: R) ht hc hn
    (by simp [hob])
  have h2 := consumeK_split_some .openBrace ({ s with cur := A.length + nameT.length } : BP α) (A ++ nameT) tob
    (Q ++ tcb :: R) (by simpa using ht) (by lenarith) hob
  have h3 := untilK_split (fun k => k == .closeBrace) ({ s with cur := (A ++ nameT).length + 1 } : BP α)
    (A ++ nameT ++ [tob]) Q tcb R (by simpa using ht) (by lenarith)
    (by intro t ht'; simpa using hQ t ht') (by simp [hcb])
  have h4 : bump (α := α) .closeBrace ({ s with cur := (A ++ nameT ++ [tob]).length + Q.length } : BP α) =
      (tcb, { s with cur := (A ++ nameT ++ [tob]).length + Q.length + 1 }) := by
    unfold bump
    have hb := bumpAny_split ({ s with cur := (A ++ nameT ++ [tob]).length + Q.length } : BP α)
      (A ++ nameT ++ [tob] ++ Q) tcb R (by simpa using ht) (by lenarith)
    simp only [bind, StateT.bind, hb, hcb, ne_eq, not_true_eq_false, if_false]
    simp only [List.length_append]
    rfl
  simp only [withRecover_run, bind, StateT.bind, h1, h2, h3, h4, pure, StateT.pure, Option.isNone_some,
    Bool.false_eq_true, if_false]
  simp only [isPadK, List.length_append, List.length_singleton]
  rfl

theorem compBody_run (s : BP α) (A nameT : List Tok) (tob : Tok) (Q : List Tok) (tcb : Tok) (R : List Tok)
    (ht : s.toks = A ++ (nameT ++ tob :: (Q ++ tcb :: R))) (hc : s.cur = A.length)
    (hn : ∀ t ∈ nameT, (t.kind == .openBrace || isMarker t.kind) = false) (hob : tob.kind = .openBrace)
    (hQ : ∀ t ∈ Q, t.kind ≠ .closeBrace) (hcb : tcb.kind = .closeBrace) :
    compBody s =
      (some ⟨nameT, some ⟨tob.start, tcb.stop⟩, if Q.any (fun t => !isPadK t) then some Q else none⟩,
        { s with cur := A.length + nameT.length + 1 + Q.length + 1 }) := by
  unfold compBody
  simp only [bind, StateT.bind, compBodyLong_run s A nameT tob Q tcb R ht hc hn hob hQ hcb]
  rfl

/-! ### the note -/

theorem noteP_none (s : BP α) (A R : List Tok) (ht : s.toks = A ++ R) (hc : s.cur = A.length)
    (hR : ∀ t, R.head? = some t → t.kind ≠ .openParen) : noteP s = (none, s) := by
  unfold noteP
  simp only [withRecover_run, bind, StateT.bind, consumeK_split_none .openParen s A R ht hc hR, pure, StateT.pure,
    Option.isNone_none, if_true]

theorem noteP_some (s : BP α) (A : List Tok) (top : Tok) (N : List Tok) (tcp : Tok) (R : List Tok)
    (ht : s.toks = A ++ (top :: (N ++ tcp :: R))) (hc : s.cur = A.length) (hop : top.kind = .openParen)
    (hN : ∀ t ∈ N, t.kind ≠ .closeParen) (hcp : tcp.kind = .closeParen) (hrun : RunAt top.stop N) :
    noteP s = (some (buildText top.stop N), { s with cur := A.length + 1 + N.length + 1 }) := by
  unfold noteP
  have h1 := consumeK_split_some .openParen s A top (N ++ tcp :: R) ht hc hop
  have h2 : currentOffset ({ s with cur := A.length + 1 } : BP α) = (top.stop, { s with cur := A.length + 1 }) := by
    rw [currentOffset_run]
    congr 1
    apply offAt_succ
    show s.toks[A.length]? = some top
    rw [ht, List.getElem?_append_right (Nat.le_refl _)]; simp
  have h3 := untilK_split (fun k => k == .closeParen) ({ s with cur := A.length + 1 } : BP α)
    (A ++ [top]) N tcp R (by simpa using ht) (by lenarith)
    (by intro t ht'; simpa using hN t ht') (by simp [hcp])
  have h4 : bump (α := α) .closeParen ({ s with cur := (A ++ [top]).length + N.length } : BP α) =
      (tcp, { s with cur := (A ++ [top]).length + N.length + 1 }) := by
    unfold bump
    have hb := bumpAny_split ({ s with cur := (A ++ [top]).length + N.length } : BP α)
      (A ++ [top] ++ N) tcp R (by simpa using ht) (by lenarith)
    simp only [bind, StateT.bind, hb, hcp, ne_eq, not_true_eq_false, if_false]
    simp only [List.length_append]
    rfl
  simp only [withRecover_run, bind, StateT.bind, h1, h2, h3, h4, bpText_run hrun, pure, StateT.pure,
    Option.isNone_some, Bool.false_eq_true, if_false]
  simp only [List.length_append, List.length_singleton]

end Cook
