import CookModel.Lemmas.RoundtripQty
/-
  C01, component layer: the component parsers read back what `spellComp` writes.
-/
set_option linter.unusedSectionVars false
set_option linter.unusedSimpArgs false
set_option linter.unusedVariables false
namespace Cook

variable {α : Type} [Arith α]

/-- cursor arithmetic -/
macro "lenarith" : tactic =>
  `(tactic| first
    | omega
    | (simp only [List.length_append, List.length_cons, List.length_nil, List.length_singleton] <;> omega))

theorem withRecover_run {β : Type} (f : P α (Option β)) (s : BP α) :
    withRecover f s = ((f s).1, if (f s).1.isNone then { (f s).2 with cur := s.cur } else (f s).2) := by
  unfold withRecover
  simp only [bind, StateT.bind, getCur, get, getThe, MonadStateOf.get, StateT.get, pure, StateT.pure, setCur,
    modify, modifyGet, MonadStateOf.modifyGet, StateT.modifyGet]
  rcases hfs : f s with ⟨a, s1⟩
  cases a with
  | none => rfl
  | some b => rfl

theorem currentOffset_split (s : BP α) : currentOffset s = (offAt s.toks s.cur, s) := currentOffset_run s

/-! ### `modifiers()` -/

theorem modKind_cases {k : TK} (h : modKind k = true) : isModifierTok k = true ∨ k = .and := by
  cases k <;> simp [modKind, isModifierTok] at h ⊢

theorem modifiersLoop_run (inter : Bool) (ms : List Tok) :
    ∀ (fuel : Nat) (s : BP α) (A : List Tok) (x : Tok) (R : List Tok),
      s.toks = A ++ (ms ++ x :: R) → s.cur = A.length → (∀ m ∈ ms, modKind m.kind = true) →
      modKind x.kind = false → x.kind ≠ .openParen → ms.length + 1 ≤ fuel →
      modifiersLoop inter fuel s = ((), { s with cur := A.length + ms.length }) := by
  induction ms with
  | nil =>
    intro fuel s A x R ht hc _ hx hxp hf
    obtain ⟨f, rfl⟩ : ∃ f, fuel = f + 1 := ⟨fuel - 1, by simp at hf; omega⟩
    unfold modifiersLoop
    have h1 := peekK_split s A (x :: R) (by simpa using ht) hc
    have hx1 : isModifierTok x.kind = false := by
      cases hk : x.kind <;> simp [modKind, isModifierTok, hk] at hx ⊢
    have hx2 : (x.kind == TK.and) = false := by
      cases hk : x.kind <;> simp [modKind, hk] at hx ⊢
    simp only [bind, StateT.bind, h1, List.head?_cons, Option.map_some, hx1, hx2, Bool.false_eq_true, if_false]
    simp only [pure, StateT.pure, List.length_nil, Nat.add_zero, ← hc]
  | cons m ms ih =>
    intro fuel s A x R ht hc hms hx hxp hf
    obtain ⟨f, rfl⟩ : ∃ f, fuel = f + 1 := ⟨fuel - 1, by simp at hf; omega⟩
    have hmk := hms m (by simp)
    have h1 := peekK_split s A (m :: (ms ++ x :: R)) (by simpa using ht) hc
    have h2 := bumpAny_split s A m (ms ++ x :: R) (by simpa using ht) hc
    have ht' : ({ s with cur := A.length + 1 } : BP α).toks = (A ++ [m]) ++ (ms ++ x :: R) := by
      simpa using ht
    have hrec := ih f ({ s with cur := A.length + 1 } : BP α) (A ++ [m]) x R ht' (by simp)
      (fun y hy => hms y (by simp [hy])) hx hxp (by simp at hf ⊢; omega)
    have hlen : (A ++ [m]).length + ms.length = A.length + (m :: ms).length := by simp; omega
    rw [hlen] at hrec
    unfold modifiersLoop
    rcases modKind_cases hmk with hm | hm
    · simp only [bind, StateT.bind, h1, List.head?_cons, Option.map_some, hm, if_true, h2]
      exact hrec
    · have hm1 : isModifierTok m.kind = false := by rw [hm]; rfl
      have hm2 : (m.kind == TK.and) = true := by rw [hm]; rfl
      simp only [bind, StateT.bind, h1, List.head?_cons, Option.map_some, hm1, hm2, Bool.false_eq_true, if_false,
        if_true, h2]
      cases inter with
      | false => simp only [Bool.false_eq_true, if_false]; exact hrec
      | true =>
        simp only [if_true]
        have hnp : ∀ t, (ms ++ x :: R).head? = some t → t.kind ≠ .openParen := by
          intro t ht2
          cases ms with
          | nil => simp at ht2; subst ht2; exact hxp
          | cons y ys =>
            simp at ht2; subst ht2
            have := hms y (by simp)
            cases hk : y.kind <;> simp [modKind, hk] at this ⊢
        have h3 := consumeK_split_none .openParen ({ s with cur := A.length + 1 } : BP α) (A ++ [m])
          (ms ++ x :: R) ht' (by simp) hnp
        simp only [bind, StateT.bind, withRecover_run, h3, pure, StateT.pure, Option.isNone_none, if_true]
        exact hrec

theorem modifiersP_off (s : BP α) (h : s.ext.has Gen.EXT_COMPONENT_MODIFIERS = false) :
    modifiersP s = ([], s) := by
  unfold modifiersP
  simp only [bind, StateT.bind, hasExt_run, h, Bool.not_false, if_true]
  rfl

theorem modifiersP_on (s : BP α) (h : s.ext.has Gen.EXT_COMPONENT_MODIFIERS = true)
    (A ms : List Tok) (x : Tok) (R : List Tok) (ht : s.toks = A ++ (ms ++ x :: R)) (hc : s.cur = A.length)
    (hms : ∀ m ∈ ms, modKind m.kind = true) (hx : modKind x.kind = false) (hxp : x.kind ≠ .openParen) :
    modifiersP s = (ms, { s with cur := A.length + ms.length }) := by
  unfold modifiersP
  have hl := modifiersLoop_run (α := α) (s.ext.has Gen.EXT_INTERMEDIATE_PREPARATIONS) ms
    ((s.toks.drop s.cur).length + 1) s A x R ht hc hms hx hxp (by rw [rt_drop_cur ht hc]; simp)
  simp only [bind, StateT.bind, hasExt_run, h, Bool.not_true, Bool.false_eq_true, if_false, getCur, get, getThe,
    MonadStateOf.get, StateT.get, pure, StateT.pure, restToks, hl]
  congr 1
  rw [ht, hc, ← List.append_assoc, List.take_left' (by simp), List.drop_left]

/-! ### the body `name { quantity }` -/

def isPadK (t : Tok) : Bool := t.kind == .ws || t.kind == .blockComment

theorem compBodyLong_run (s : BP α) (A nameT : List Tok) (tob : Tok) (Q : List Tok) (tcb : Tok) (R : List Tok)
    (ht : s.toks = A ++ (nameT ++ tob :: (Q ++ tcb :: R))) (hc : s.cur = A.length)
    (hn : ∀ t ∈ nameT, (t.kind == .openBrace || isMarker t.kind) = false) (hob : tob.kind = .openBrace)
    (hQ : ∀ t ∈ Q, t.kind ≠ .closeBrace) (hcb : tcb.kind = .closeBrace) :
    compBodyLong s =
      (some ⟨nameT, some ⟨tob.start, tcb.stop⟩, if Q.any (fun t => !isPadK t) then some Q else none⟩,
        { s with cur := A.length + nameT.length + 1 + Q.length + 1 }) := by
  unfold compBodyLong
  have h1 := untilK_split (fun k => k == .openBrace || isMarker k) s A nameT tob (Q ++ tcb :: R) ht hc hn
    (by simp [hob])
  have h2 := consumeK_split_some .openBrace ({ s with cur := A.length + nameT.length } : BP α) (A ++ nameT) tob
    (Q ++ tcb :: R) (by simpa using ht) (by lenarith) hob
  have h3 := untilK_split (fun k => k == .closeBrace) ({ s with cur := (A ++ nameT).length + 1 } : BP α)
    (A ++ nameT ++ [tob]) Q tcb R (by simpa using ht) (by lenarith)
    (by intro t ht'; simpa using hQ t ht') (by simp [hcb])
  have h4 : bump (α := α) .closeBrace ({ s with cur := (A ++ nameT ++ [tob]).length + Q.length } : BP α) =
      (tcb, { s with cur := (A ++ nameT ++ [tob]).length + Q.length + 1 }) := by
    unfold bump
    have hb := bumpAny_split ({ s with cur := (A ++ nameT ++ [tob]).length + Q.length } : BP α)
      (A ++ nameT ++ [tob] ++ Q) tcb R (by simpa using ht) (by lenarith)
    simp only [bind, StateT.bind, hb, hcb, ne_eq, not_true_eq_false, if_false]
    simp only [List.length_append]
    rfl
  simp only [withRecover_run, bind, StateT.bind, h1, h2, h3, h4, pure, StateT.pure, Option.isNone_some,
    Bool.false_eq_true, if_false]
  simp only [isPadK, List.length_append, List.length_singleton]
  rfl

theorem compBody_run (s : BP α) (A nameT : List Tok) (tob : Tok) (Q : List Tok) (tcb : Tok) (R : List Tok)
    (ht : s.toks = A ++ (nameT ++ tob :: (Q ++ tcb :: R))) (hc : s.cur = A.length)
    (hn : ∀ t ∈ nameT, (t.kind == .openBrace || isMarker t.kind) = false) (hob : tob.kind = .openBrace)
    (hQ : ∀ t ∈ Q, t.kind ≠ .closeBrace) (hcb : tcb.kind = .closeBrace) :
    compBody s =
      (some ⟨nameT, some ⟨tob.start, tcb.stop⟩, if Q.any (fun t => !isPadK t) then some Q else none⟩,
        { s with cur := A.length + nameT.length + 1 + Q.length + 1 }) := by
  unfold compBody
  simp only [bind, StateT.bind, compBodyLong_run s A nameT tob Q tcb R ht hc hn hob hQ hcb]
  rfl

/-! ### the note -/

theorem noteP_none (s : BP α) (A R : List Tok) (ht : s.toks = A ++ R) (hc : s.cur = A.length)
    (hR : ∀ t, R.head? = some t → t.kind ≠ .openParen) : noteP s = (none, s) := by
  unfold noteP
  simp only [withRecover_run, bind, StateT.bind, consumeK_split_none .openParen s A R ht hc hR, pure, StateT.pure,
    Option.isNone_none, if_true]

theorem noteP_some (s : BP α) (A : List Tok) (top : Tok) (N : List Tok) (tcp : Tok) (R : List Tok)
    (ht : s.toks = A ++ (top :: (N ++ tcp :: R))) (hc : s.cur = A.length) (hop : top.kind = .openParen)
    (hN : ∀ t ∈ N, t.kind ≠ .closeParen) (hcp : tcp.kind = .closeParen) (hrun : RunAt top.stop N) :
    noteP s = (some (buildText top.stop N), { s with cur := A.length + 1 + N.length + 1 }) := by
  unfold noteP
  have h1 := consumeK_split_some .openParen s A top (N ++ tcp :: R) ht hc hop
  have h2 : currentOffset ({ s with cur := A.length + 1 } : BP α) = (top.stop, { s with cur := A.length + 1 }) := by
    rw [currentOffset_run]
    congr 1
    apply offAt_succ
    show s.toks[A.length]? = some top
    rw [ht, List.getElem?_append_right (Nat.le_refl _)]; simp
  have h3 := untilK_split (fun k => k == .closeParen) ({ s with cur := A.length + 1 } : BP α)
    (A ++ [top]) N tcp R (by simpa using ht) (by lenarith)
    (by intro t ht'; simpa using hN t ht') (by simp [hcp])
  have h4 : bump (α := α) .closeParen ({ s with cur := (A ++ [top]).length + N.length } : BP α) =
      (tcp, { s with cur := (A ++ [top]).length + N.length + 1 }) := by
    unfold bump
    have hb := bumpAny_split ({ s with cur := (A ++ [top]).length + N.length } : BP α)
      (A ++ [top] ++ N) tcp R (by simpa using ht) (by lenarith)
    simp only [bind, StateT.bind, hb, hcp, ne_eq, not_true_eq_false, if_false]
    simp only [List.length_append]
    rfl
  simp only [withRecover_run, bind, StateT.bind, h1, h2, h3, h4, bpText_run hrun, pure, StateT.pure,
    Option.isNone_some, Bool.false_eq_true, if_false]
  simp only [List.length_append, List.length_singleton]

/-! ### aliases -/

theorem parseAlias_none (container : String) (toks : List Tok) (off : Nat) (s : BP α) (hr : RunAt off toks)
    (h : s.ext.has Gen.EXT_COMPONENT_ALIAS = false ∨ ∀ t ∈ toks, t.kind ≠ .or) :
    parseAlias container toks off s = ((buildText off toks, none), s) := by
  unfold parseAlias
  have hidx : (if s.ext.has Gen.EXT_COMPONENT_ALIAS then toks.findIdx? (fun t => t.kind == .or) else none) = none := by
    rcases h with h | h
    · simp [h]
    · rw [rt_findIdx_none _ _ (by intro t ht; simpa using h t ht)]; simp
  simp only [bind, StateT.bind, hasExt_run, hidx, bpText_run hr, pure, StateT.pure]

theorem parseAlias_some (container : String) (nameT : List Tok) (tor : Tok) (aliasT : List Tok) (off : Nat) (s : BP α)
    (hext : s.ext.has Gen.EXT_COMPONENT_ALIAS = true) (hn : ∀ t ∈ nameT, t.kind ≠ .or) (hor : tor.kind = .or)
    (ha : ∀ t ∈ aliasT, t.kind ≠ .or) (hrn : RunAt off nameT) (hra : RunAt tor.stop aliasT)
    (hne : (buildText tor.stop aliasT).isTextEmpty s.cs = false) :
    parseAlias container (nameT ++ tor :: aliasT) off s =
      ((buildText off nameT, some (buildText tor.stop aliasT)), s) := by
  unfold parseAlias
  have hidx : (nameT ++ tor :: aliasT).findIdx? (fun t => t.kind == .or) = some nameT.length :=
    rt_findIdx_append _ nameT tor aliasT (by intro t ht; simpa using hn t ht) (by simp [hor])
  have hany : aliasT.any (fun t => t.kind == .or) = false := by
    rw [List.any_eq_false]; intro t ht; simpa using ha t ht
  have hget : (nameT ++ tor :: aliasT)[nameT.length]? = some tor := by
    rw [List.getElem?_append_right (Nat.le_refl _)]; simp
  have hdrop : (nameT ++ tor :: aliasT).drop (nameT.length + 1) = aliasT := by
    rw [show nameT ++ tor :: aliasT = (nameT ++ [tor]) ++ aliasT by simp]
    rw [List.drop_left' (by simp)]
  simp only [bind, StateT.bind, hasExt_run, hext, if_true, hidx, List.take_left', hget, Option.getD_some, hdrop,
    bpText_run hra, bpText_run hrn, get, getThe, MonadStateOf.get, StateT.get, hany, Bool.false_eq_true, if_false,
    hne, pure, StateT.pure]

/-! ### `parse_modifiers` -/

def flagOf (k : TK) : Nat := (modifierFlag k).getD 0

theorem modKind_flag {k : TK} (h : modKind k = true) : modifierFlag k = some (flagOf k) ∧ flagOf k ≠ 0 := by
  cases k <;> simp [modKind] at h <;> decide

theorem bits_step (b : Nat) (hb : b < 32) (k j : TK) (hk : modKind k = true) (hj : modKind j = true) :
    ((⟨b⟩ : Modifiers).insert (flagOf k)).bits < 32 ∧
    ((⟨b⟩ : Modifiers).insert (flagOf k)).contains (flagOf j) = ((⟨b⟩ : Modifiers).contains (flagOf j) || (k == j)) := by
  cases k <;> simp [modKind] at hk <;> cases j <;> simp [modKind] at hj <;> (revert b; decide)

theorem parseInterRef_skip (toks : List Tok) (s : BP α) (h : ∀ t, toks.head? = some t → t.kind ≠ .openParen) :
    parseInterRef toks s = ((none, toks), s) := by
  unfold parseInterRef
  cases toks with
  | nil => rfl
  | cons t0 r =>
    have : (t0.kind != TK.openParen) = true := by simpa using h t0 rfl
    simp only [this, if_true]
    rfl

theorem parseModifiersLoop_run (span : Span) (ie : Bool) (toks : List Tok) :
    ∀ (fuel : Nat) (m : Modifiers) (s : BP α), (∀ t ∈ toks, modKind t.kind = true) → (toks.map (·.kind)).Nodup →
      (∀ t ∈ toks, m.contains (flagOf t.kind) = false) → m.bits < 32 → toks.length + 1 ≤ fuel →
      parseModifiersLoop span ie fuel toks m none s =
        ((toks.foldl (fun m t => m.insert (flagOf t.kind)) m, none), s) := by
  induction toks with
  | nil =>
    intro fuel m s _ _ _ _ hf
    obtain ⟨f, rfl⟩ : ∃ f, fuel = f + 1 := ⟨fuel - 1, by simp at hf; omega⟩
    unfold parseModifiersLoop
    rfl
  | cons tok rest ih =>
    intro fuel m s hk hnd hc hb hf
    obtain ⟨f, rfl⟩ : ∃ f, fuel = f + 1 := ⟨fuel - 1, by simp at hf; omega⟩
    unfold parseModifiersLoop
    obtain ⟨hfl, hfl0⟩ := modKind_flag (hk tok (by simp))
    simp only [bind, StateT.bind, hfl, pure, StateT.pure]
    have hcf : m.contains (flagOf tok.kind) = false := hc tok (by simp)
    have hnd' : tok.kind ∉ rest.map (·.kind) ∧ (rest.map (·.kind)).Nodup := by
      rw [List.map_cons] at hnd; exact List.nodup_cons.mp hnd
    have hstep := fun j hj => bits_step m.bits hb tok.kind j (hk tok (by simp)) hj
    have hrec := ih f (m.insert (flagOf tok.kind)) s (fun t ht => hk t (by simp [ht])) hnd'.2
      (by
        intro t ht
        have h1 := (hstep t.kind (hk t (by simp [ht]))).2
        have h2 : (tok.kind == t.kind) = false := by
          rw [beq_eq_false_iff_ne]
          intro he
          exact hnd'.1 (by rw [he]; exact List.mem_map_of_mem ht)
        rw [h2, hc t (by simp [ht])] at h1
        exact h1)
      (hstep tok.kind (hk tok (by simp))).1 (by simp at hf ⊢; omega)
    have hir : parseInterRef (α := α) rest s = ((none, rest), s) := by
      apply parseInterRef_skip
      intro t ht
      cases rest with
      | nil => simp at ht
      | cons y ys =>
        simp at ht; subst ht
        have := hk y (by simp)
        cases hky : y.kind <;> simp [modKind, hky] at this ⊢
    simp only [hcf, Bool.and_false, Bool.false_eq_true, if_false]
    split
    · simp only [StateT.bind, hir]; exact hrec
    · exact hrec

theorem parseModifiers_run (mods : List TK) (mtoks : List Tok) (pos : Nat) (s : BP α)
    (hs : Spells mtoks (spellMods mods)) (hk : mods.all modKind = true) (hnd : mods.Nodup) :
    ∃ span, parseModifiers mtoks pos s = (⟨⟨modsOf mods, span⟩, none⟩, s) := by
  have hkinds : mtoks.map (·.kind) = mods := by
    have := congrArg (List.map Prod.fst) hs
    simpa [spellMods, Tok.kt, tk, List.map_map, Function.comp_def] using this
  unfold parseModifiers
  cases hm : mtoks with
  | nil =>
    rw [hm] at hkinds
    simp at hkinds
    subst hkinds
    exact ⟨_, rfl⟩
  | cons t r =>
    rw [← hm]
    have hne : mtoks.isEmpty = false := by rw [hm]; rfl
    have hall : ∀ t ∈ mtoks, modKind t.kind = true := by
      intro t ht
      rw [List.all_eq_true] at hk
      exact hk t.kind (by rw [← hkinds]; exact List.mem_map_of_mem ht)
    have hl := parseModifiersLoop_run (α := α) (tokensSpan mtoks) (s.ext.has Gen.EXT_INTERMEDIATE_PREPARATIONS) mtoks
      (mtoks.length + 1) Modifiers.empty s hall (by rw [hkinds]; exact hnd)
      (by
        intro t ht
        have := hall t ht
        cases hkt : t.kind <;> simp [modKind, hkt] at this <;> decide)
      (by decide) (Nat.le_refl _)
    simp only [hne, Bool.false_eq_true, if_false, bind, StateT.bind, hasExt_run, hl, pure, StateT.pure]
    refine ⟨tokensSpan mtoks, ?_⟩
    congr 3
    unfold modsOf
    rw [← hkinds, List.foldl_map]
    rfl

end Cook
