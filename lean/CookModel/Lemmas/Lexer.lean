import CookModel.Syntax.Lexer
namespace Cook

theorem utf8Len_append (a b : List Char) : utf8Len (a ++ b) = utf8Len a + utf8Len b := by
  simp [utf8Len]

theorem utf8Len_cons (c : Char) (s : List Char) : utf8Len (c :: s) = c.utf8Size + utf8Len s := by
  simp [utf8Len]

theorem utf8Size_pos (c : Char) : 0 < c.utf8Size := Char.utf8Size_pos c

theorem utf8Len_pos {s : List Char} (h : s ≠ []) : 0 < utf8Len s := by
  cases s with
  | nil => contradiction
  | cons c t => rw [utf8Len_cons]; have := utf8Size_pos c; omega

/-- Tokens tile the input: concatenating the token texts gives the input back. -/
theorem lexFrom_tile (cs : CharSpec) (off : Nat) (s : List Char) :
    (lexFrom cs off s).flatMap (·.text) = s := by
  fun_induction lexFrom cs off s with
  | case1 => rfl
  | case2 off c rest r text ih =>
    simp only [List.flatMap_cons, ih]
    simp [text]

/-- Every token is non-empty. -/
theorem lexFrom_nonempty (cs : CharSpec) (off : Nat) (s : List Char) :
    ∀ t ∈ lexFrom cs off s, t.text ≠ [] := by
  fun_induction lexFrom cs off s with
  | case1 => simp
  | case2 off c rest r text ih =>
    intro t ht
    simp only [List.mem_cons] at ht
    rcases ht with rfl | ht
    · simp [text]
    · exact ih t ht

/-- Spans are contiguous: a chain from `off`. -/
def Chain : Nat → List Tok → Prop
  | _, [] => True
  | off, t :: ts => t.start = off ∧ Chain t.stop ts

theorem lexFrom_chain (cs : CharSpec) (off : Nat) (s : List Char) : Chain off (lexFrom cs off s) := by
  fun_induction lexFrom cs off s with
  | case1 => trivial
  | case2 off c rest r text ih =>
    exact ⟨rfl, by simpa [Tok.stop] using ih⟩

/-- the end of a chain: `off` plus the length of all token texts -/
theorem chain_last (off : Nat) (ts : List Tok) (h : Chain off ts) (t : Tok) (hl : ts.getLast? = some t) :
    t.stop = off + utf8Len (ts.flatMap (·.text)) := by
  induction ts generalizing off with
  | nil => simp at hl
  | cons u us ih =>
    obtain ⟨h1, h2⟩ := h
    cases us with
    | nil =>
      simp only [List.getLast?_singleton, Option.some.injEq] at hl
      subst hl
      simp [Tok.stop, h1]
    | cons v vs =>
      rw [List.getLast?_cons_cons] at hl
      have := ih u.stop h2 hl
      rw [this]
      simp only [List.flatMap_cons, utf8Len_append, Tok.stop, h1]
      omega

/-- every token span lies inside `[off, off + len s]` and is a concatenation of whole characters
    starting at a character boundary: the start of token `t` is `off + utf8Len (prefix)` where
    `prefix ++ t.text ++ suffix = s`. -/
theorem lexFrom_boundary (cs : CharSpec) (off : Nat) (s : List Char) :
    ∀ t ∈ lexFrom cs off s, ∃ pre suf, s = pre ++ t.text ++ suf ∧ t.start = off + utf8Len pre := by
  fun_induction lexFrom cs off s with
  | case1 => simp
  | case2 off c rest r text ih =>
    intro t ht
    simp only [List.mem_cons] at ht
    rcases ht with rfl | ht
    · exact ⟨[], rest.drop r.2, by simp [text], by simp [utf8Len]⟩
    · obtain ⟨pre, suf, h1, h2⟩ := ih t ht
      refine ⟨text ++ pre, suf, ?_, ?_⟩
      · have : c :: rest = text ++ rest.drop r.2 := by simp [text]
        rw [this, h1]; simp
      · rw [h2, utf8Len_append]; omega

end Cook
