import CookModel.Lemmas.InsertWF
/-
  Wave 8 (tag `fnc`): "no front matter" survives the insertion of filler text.

  `parseFrontmatter cs s = none` is a statement about the LINES of `s` (`fncNone`): no fence, or a
  non-blank line before the first fence, or no second fence.  Replacing one line `x` by lines `X`
  none of which is a fence (and one of which is non-blank when `x` was) keeps it (`fnc_replace`);
  so does a replacement by a line with the same answers to "fence?" / "blank?".  The lines of
  `u ++ f ++ v` against those of `u ++ v` (`fnc_split_*`).
-/
namespace Cook

/-! ### the decision on the lines alone -/

def fncBlank (cs : CharSpec) (l : List Char) : Bool := (trim cs.uws l).isEmpty

/-- no line is a fence -/
def fncNoF (cs : CharSpec) (L : List (List Char)) : Bool := L.all (fun l => !isFence cs l)

/-- `parse_frontmatter` answers `None` (three states: before the first fence, behind it) -/
def fncNone (cs : CharSpec) : List (List Char) → Bool
  | [] => true
  | l :: L => if isFence cs l then fncNoF cs L else if fncBlank cs l then fncNone cs L else true

/-- the body of `parseFrontmatter` on the lines with offsets -/
def fncBody (cs : CharSpec) (ls : List (List Char × Nat)) : Option FrontMatter :=
  match ls.dropWhile (fun l => !isFence cs l.1) with
  | [] => none
  | f1 :: rest1 =>
    if !((ls.takeWhile (fun l => !isFence cs l.1)).all (fun l => (trim cs.uws l.1).isEmpty)) then none else
    match rest1.dropWhile (fun l => !isFence cs l.1) with
    | [] => none
    | f2 :: rest2 =>
      some ⟨(rest1.takeWhile (fun l => !isFence cs l.1)).flatMap (·.1), f1.2 + utf8Len f1.1,
            rest2.flatMap (·.1), f2.2 + utf8Len f2.1⟩

theorem fnc_parse_eq (cs : CharSpec) (s : List Char) :
    parseFrontmatter cs s = fncBody cs (linesWithOffset (splitInclusive s) 0) := rfl

theorem fnc_noF_iff (cs : CharSpec) (ls : List (List Char × Nat)) :
    (ls.dropWhile (fun l => !isFence cs l.1) = []) ↔ fncNoF cs (ls.map (·.1)) = true := by
  induction ls with
  | nil => simp [fncNoF]
  | cons l L ih =>
    cases hf : isFence cs l.1 <;> simp_all [fncNoF]

theorem fnc_body_none (cs : CharSpec) (ls : List (List Char × Nat)) :
    (fncBody cs ls = none) ↔ fncNone cs (ls.map (·.1)) = true := by
  induction ls with
  | nil => simp [fncBody, fncNone]
  | cons l L ih =>
    by_cases hf : isFence cs l.1 = true
    · have := fnc_noF_iff cs L
      cases hd : L.dropWhile (fun l => !isFence cs l.1) with
      | nil =>
        have h1 := this.mp hd
        simp [fncBody, fncNone, hf, hd, h1]
      | cons a r =>
        have h1 : fncNoF cs (L.map (·.1)) = false := by
          cases h : fncNoF cs (L.map (·.1)) with
          | false => rfl
          | true => rw [this.mpr h] at hd; cases hd
        simp [fncBody, fncNone, hf, hd, h1]
    · have hf' : isFence cs l.1 = false := by simpa using hf
      by_cases hb : fncBlank cs l.1 = true
      · have hb' : (trim cs.uws l.1).isEmpty = true := hb
        have e : fncNone cs ((l :: L).map (·.1)) = fncNone cs (L.map (·.1)) := by
          simp only [List.map_cons, fncNone, hf', hb, if_true, Bool.false_eq_true, if_false]
        rw [e, ← ih]
        simp only [fncBody, List.dropWhile_cons, List.takeWhile_cons, hf', Bool.not_false, if_true,
          List.all_cons, hb', Bool.true_and]
      · have hb0 : fncBlank cs l.1 = false := by simpa using hb
        have hb' : (trim cs.uws l.1).isEmpty = false := hb0
        simp only [fncBody, fncNone, List.map_cons, List.dropWhile_cons, List.takeWhile_cons, hf', Bool.not_false,
          if_true, List.all_cons, hb', hb0, Bool.false_and, Bool.not_false]
        cases L.dropWhile (fun l => !isFence cs l.1) <;> simp

theorem fnc_lines_map (L : List (List Char)) (o : Nat) : (linesWithOffset L o).map (·.1) = L := by
  induction L generalizing o with
  | nil => rfl
  | cons l L ih => simp [linesWithOffset, ih]

/-- **`parse_frontmatter` is `None` iff the lines say so.** -/
theorem fnc_none_iff (cs : CharSpec) (s : List Char) :
    parseFrontmatter cs s = none ↔ fncNone cs (splitInclusive s) = true := by
  rw [fnc_parse_eq, fnc_body_none, fnc_lines_map]

/-! ### replacing / inserting lines -/

theorem fnc_noF_none (cs : CharSpec) (L : List (List Char)) (h : fncNoF cs L = true) : fncNone cs L = true := by
  induction L with
  | nil => rfl
  | cons l L ih =>
    simp only [fncNoF, List.all_cons, Bool.and_eq_true, Bool.not_eq_true'] at h
    simp only [fncNone, h.1, Bool.false_eq_true, if_false]
    split
    · exact ih h.2
    · rfl

theorem fnc_noF_append (cs : CharSpec) (A B : List (List Char)) :
    fncNoF cs (A ++ B) = (fncNoF cs A && fncNoF cs B) := by simp [fncNoF]

/-- lines none of which is a fence in front: `None` iff one of them is not blank or the rest says `None` -/
theorem fnc_none_prepend (cs : CharSpec) (X B : List (List Char)) (hX : fncNoF cs X = true) :
    fncNone cs (X ++ B) = (!(X.all (fncBlank cs)) || fncNone cs B) := by
  induction X with
  | nil => simp
  | cons l X ih =>
    simp only [fncNoF, List.all_cons, Bool.and_eq_true, Bool.not_eq_true'] at hX
    simp only [List.cons_append, fncNone, hX.1, Bool.false_eq_true, if_false, List.all_cons]
    cases hb : fncBlank cs l
    · simp
    · simp only [if_true, Bool.true_and]
      exact ih hX.2

/-- **One line replaced by lines that are not fences**, one of them not blank if the replaced line
    was not: `None` stays. -/
theorem fnc_replace (cs : CharSpec) (A B X : List (List Char)) (x : List Char) (hX : fncNoF cs X = true)
    (hb : X.all (fncBlank cs) = true → fncBlank cs x = true ∨ isFence cs x = true)
    (h : fncNone cs (A ++ x :: B) = true) : fncNone cs (A ++ (X ++ B)) = true := by
  induction A with
  | nil =>
    simp only [List.nil_append] at h ⊢
    rw [fnc_none_prepend cs X B hX]
    simp only [fncNone] at h
    by_cases hf : isFence cs x = true
    · simp only [hf, if_true] at h
      simp [fnc_noF_none cs B h]
    · simp only [hf, if_false, Bool.false_eq_true] at h
      cases hxa : X.all (fncBlank cs)
      · simp
      · rcases hb hxa with h1 | h1
        · simp only [h1, if_true] at h
          simp [h]
        · exact absurd h1 hf
  | cons a A ih =>
    simp only [List.cons_append, fncNone] at h ⊢
    by_cases hf : isFence cs a = true
    · simp only [hf, if_true] at h ⊢
      rw [fnc_noF_append] at h
      simp only [fncNoF, List.all_cons, Bool.and_eq_true] at h
      rw [fnc_noF_append, fnc_noF_append]
      simp only [Bool.and_eq_true]
      exact ⟨h.1, hX, h.2.2⟩
    · simp only [hf, if_false, Bool.false_eq_true] at h ⊢
      split
      · rename_i hbl
        simp only [hbl, if_true] at h
        exact ih h
      · rfl

/-- **Lines that are not fences inserted**: `None` stays. -/
theorem fnc_insert (cs : CharSpec) (A B X : List (List Char)) (hX : fncNoF cs X = true)
    (h : fncNone cs (A ++ B) = true) : fncNone cs (A ++ (X ++ B)) = true := by
  induction A with
  | nil =>
    simp only [List.nil_append] at h ⊢
    rw [fnc_none_prepend cs X B hX, h]; simp
  | cons a A ih =>
    simp only [List.cons_append, fncNone] at h ⊢
    by_cases hf : isFence cs a = true
    · simp only [hf, if_true] at h ⊢
      rw [fnc_noF_append] at h
      rw [fnc_noF_append, fnc_noF_append]
      simp only [Bool.and_eq_true] at h ⊢
      exact ⟨h.1, hX, h.2⟩
    · simp only [hf, if_false, Bool.false_eq_true] at h ⊢
      split
      · rename_i hbl
        simp only [hbl, if_true] at h
        exact ih h
      · rfl

/-- **One line replaced by a line with the same answers** to "fence?" and "blank?". -/
theorem fnc_same_flags (cs : CharSpec) (A B : List (List Char)) (x x' : List Char)
    (hf : isFence cs x' = isFence cs x) (hb : fncBlank cs x' = fncBlank cs x) :
    fncNone cs (A ++ x' :: B) = fncNone cs (A ++ x :: B) := by
  induction A with
  | nil => simp only [List.nil_append, fncNone, hf, hb]
  | cons a A ih =>
    simp only [List.cons_append, fncNone, ih]
    congr 1
    simp [fncNoF, hf]

/-! ### lines of a text -/

theorem fnc_split_ne (s : List Char) (h : s ≠ []) : splitInclusive s ≠ [] := by
  intro h0
  have := blocks_splitInclusive_flatten s
  rw [h0] at this
  exact h this.symm

theorem fnc_split_nonl (a : List Char) (h : '\n' ∉ a) (hne : a ≠ []) : splitInclusive a = [a] := by
  induction a with
  | nil => exact absurd rfl hne
  | cons c t ih =>
    have hc : c ≠ '\n' := fun e => h (by simp [e])
    have ht : '\n' ∉ t := fun e => h (by simp [e])
    by_cases h0 : t = []
    · subst h0; simp [splitInclusive, hc]
    · simp [splitInclusive, hc, ih ht h0]

theorem fnc_split_line (a V : List Char) (h : '\n' ∉ a) :
    splitInclusive (a ++ '\n' :: V) = (a ++ ['\n']) :: splitInclusive V := by
  induction a with
  | nil => simp [splitInclusive]
  | cons c t ih =>
    have hc : c ≠ '\n' := fun e => h (by simp [e])
    have ht : '\n' ∉ t := fun e => h (by simp [e])
    simp [splitInclusive, hc, ih ht]

theorem fnc_split_after_nl (P r : List Char) :
    splitInclusive (P ++ '\n' :: r) = splitInclusive (P ++ ['\n']) ++ splitInclusive r := by
  induction P with
  | nil => simp [splitInclusive]
  | cons c t ih =>
    by_cases hc : c = '\n'
    · subst hc; simp [splitInclusive, ih]
    · have hne := fnc_split_ne (t ++ ['\n']) (by simp)
      cases h : splitInclusive (t ++ ['\n']) with
      | nil => exact absurd h hne
      | cons l ls => simp [splitInclusive, hc, ih, h]

/-- a text in front of which nothing of its first line is missing: empty or ending in a line feed -/
def fncWhole (U : List Char) : Prop := U = [] ∨ ∃ P, U = P ++ ['\n']

theorem fnc_split_whole (U r : List Char) (h : fncWhole U) :
    splitInclusive (U ++ r) = splitInclusive U ++ splitInclusive r := by
  rcases h with rfl | ⟨P, rfl⟩
  · simp [splitInclusive]
  · rw [List.append_assoc]; exact fnc_split_after_nl P r

theorem fnc_decomp (u : List Char) : ∃ U a, u = U ++ a ∧ '\n' ∉ a ∧ fncWhole U := by
  induction u with
  | nil => exact ⟨[], [], rfl, by simp, Or.inl rfl⟩
  | cons c t ih =>
    obtain ⟨U, a, rfl, ha, hU⟩ := ih
    rcases hU with rfl | ⟨P, rfl⟩
    · by_cases hc : c = '\n'
      · exact ⟨[c], a, rfl, ha, Or.inr ⟨[], by simp [hc]⟩⟩
      · exact ⟨[], c :: a, rfl, by simp [ha, Ne.symm hc], Or.inl rfl⟩
    · exact ⟨c :: (P ++ ['\n']), a, rfl, ha, Or.inr ⟨c :: P, rfl⟩⟩

/-- at most one line: no line feed, or exactly one, at the end -/
def fncOneLine (w : List Char) : Prop := '\n' ∉ w ∨ ∃ b, w = b ++ ['\n'] ∧ '\n' ∉ b

theorem fnc_first (v : List Char) : ∃ w V, v = w ++ V ∧ fncOneLine w ∧ (V ≠ [] → ∃ b, w = b ++ ['\n']) := by
  induction v with
  | nil => exact ⟨[], [], rfl, Or.inl (by simp), fun h => absurd rfl h⟩
  | cons c t ih =>
    by_cases hc : c = '\n'
    · exact ⟨[c], t, rfl, Or.inr ⟨[], by simp [hc], by simp⟩, fun _ => ⟨[], by simp [hc]⟩⟩
    · obtain ⟨w, V, rfl, hw, hV⟩ := ih
      refine ⟨c :: w, V, rfl, ?_, ?_⟩
      · rcases hw with hw | ⟨b, rfl, hb⟩
        · exact Or.inl (by simp [hw, Ne.symm hc])
        · exact Or.inr ⟨c :: b, rfl, by simp [hb, Ne.symm hc]⟩
      · intro h; obtain ⟨b, rfl⟩ := hV h; exact ⟨c :: b, rfl⟩

theorem fnc_split_one (a w : List Char) (ha : '\n' ∉ a) (hw : fncOneLine w) (hne : a ++ w ≠ []) :
    splitInclusive (a ++ w) = [a ++ w] := by
  rcases hw with hw | ⟨b, rfl, hb⟩
  · exact fnc_split_nonl _ (by simp [ha, hw]) hne
  · have := fnc_split_line (a ++ b) [] (by simp [ha, hb])
    simpa [splitInclusive] using this

/-! ### fences, blank lines -/

theorem fnc_dropWhile_all (p : Char → Bool) (l1 l2 : List Char) (h : l1.all p = true) :
    (l1 ++ l2).dropWhile p = l2.dropWhile p := by
  induction l1 with
  | nil => rfl
  | cons c t ih =>
    simp only [List.all_cons, Bool.and_eq_true] at h
    simp [h.1, ih h.2]

theorem fnc_dropWhile_not_all (p : Char → Bool) (l1 l2 : List Char) (h : l1.all p = false) :
    (l1 ++ l2).dropWhile p = l1.dropWhile p ++ l2 ∧ l1.dropWhile p ≠ [] := by
  induction l1 with
  | nil => simp at h
  | cons c t ih =>
    cases hc : p c
    · simp [hc]
    · simp only [List.all_cons, hc, Bool.true_and] at h
      simpa [List.dropWhile_cons, hc] using ih h

theorem fnc_mem_dropWhile (p : Char → Bool) (l : List Char) (c : Char) (hc : c ∈ l) (hp : p c = false) :
    c ∈ l.dropWhile p := by
  induction l with
  | nil => cases hc
  | cons d t ih =>
    cases hd : p d
    · simpa [List.dropWhile_cons, hd] using hc
    · have : c ≠ d := fun e => by rw [e, hd] at hp; cases hp
      simp only [List.mem_cons, this, false_or] at hc
      simpa [List.dropWhile_cons, hd] using ih hc

theorem fnc_fence_iff (cs : CharSpec) (l : List Char) :
    isFence cs l = true ↔ l.reverse.dropWhile cs.uws = ['-', '-', '-'] := by
  simp only [isFence, trimEnd, beq_iff_eq]
  constructor
  · intro h
    have := congrArg List.reverse h
    simpa using this
  · intro h; rw [h]; rfl

/-- a character that is neither `-` nor white space -/
def fncSolidC (cs : CharSpec) (c : Char) : Bool := c != '-' && !cs.uws c
/-- the line shows a character that is neither `-` nor white space (so it is not a fence, whatever is
    put in front of it or behind it) -/
def fncSolid (cs : CharSpec) (l : List Char) : Bool := l.any (fncSolidC cs)

theorem fnc_solid_not_fence (cs : CharSpec) (l : List Char) (h : fncSolid cs l = true) : isFence cs l = false := by
  cases hf : isFence cs l with
  | false => rfl
  | true =>
    rw [fnc_fence_iff] at hf
    simp only [fncSolid, List.any_eq_true, fncSolidC, Bool.and_eq_true, bne_iff_ne, Bool.not_eq_true'] at h
    obtain ⟨c, hc, hne, hws⟩ := h
    have := fnc_mem_dropWhile cs.uws l.reverse c (by simpa using hc) hws
    rw [hf] at this
    simp at this
    exact absurd this hne

theorem fnc_blank_iff (cs : CharSpec) (l : List Char) : fncBlank cs l = l.all cs.uws := by
  simp only [fncBlank, trim, trimStart, trimEnd]
  cases h : l.all cs.uws
  · obtain ⟨_, hne⟩ := fnc_dropWhile_not_all cs.uws l [] h
    cases hd : l.dropWhile cs.uws with
    | nil => exact absurd hd hne
    | cons c t =>
      have hc : cs.uws c = false := by
        have := List.head_dropWhile_not cs.uws (l := l) (by rw [hd]; simp)
        simpa [hd] using this
      have := fnc_mem_dropWhile cs.uws (c :: t).reverse c (by simp) hc
      cases hr : (c :: t).reverse.dropWhile cs.uws with
      | nil => rw [hr] at this; cases this
      | cons _ _ => simp
  · have := fnc_dropWhile_all cs.uws l [] h
    simp only [List.append_nil, List.dropWhile_nil] at this
    simp [this]

theorem fnc_fence_not_blank (cs : CharSpec) (l : List Char) (h : isFence cs l = true) : fncBlank cs l = false := by
  rw [fnc_blank_iff]
  cases ha : l.all cs.uws with
  | false => rfl
  | true =>
    rw [fnc_fence_iff] at h
    have := fnc_dropWhile_all cs.uws l.reverse [] (by simpa using ha)
    simp only [List.append_nil, List.dropWhile_nil] at this
    rw [this] at h; cases h

/-- white space put into a line: the line is a fence only if it was one -/
theorem fnc_fence_ws_insert (cs : CharSpec) (a f w : List Char) (hf : f.all cs.uws = true)
    (h : isFence cs (a ++ f ++ w) = true) : isFence cs (a ++ w) = true := by
  rw [fnc_fence_iff] at h ⊢
  simp only [List.reverse_append, List.append_assoc] at h ⊢
  cases hw : w.reverse.all cs.uws
  · obtain ⟨e, hne⟩ := fnc_dropWhile_not_all cs.uws w.reverse (f.reverse ++ a.reverse) hw
    rw [e] at h
    by_cases hf0 : f = []
    · subst hf0
      simpa [(fnc_dropWhile_not_all cs.uws w.reverse a.reverse hw).1] using h
    · exfalso
      obtain ⟨c, t, rfl⟩ := List.exists_cons_of_ne_nil hf0
      have hc : cs.uws c = true := by simp only [List.all_cons, Bool.and_eq_true] at hf; exact hf.1
      have hmem : c ∈ List.dropWhile cs.uws w.reverse ++ ((c :: t).reverse ++ a.reverse) := by simp
      rw [h] at hmem
      have hcd : c = '-' := by simpa using hmem
      have hhead := List.head_dropWhile_not cs.uws (l := w.reverse) hne
      cases hd : List.dropWhile cs.uws w.reverse with
      | nil => exact hne hd
      | cons d r =>
        rw [hd] at h
        simp only [hd, List.head_cons] at hhead
        have : d = '-' := by
          simp only [List.cons_append, List.cons.injEq] at h; exact h.1
        rw [this, ← hcd, hc] at hhead; cases hhead
  · rw [fnc_dropWhile_all cs.uws w.reverse _ hw] at h ⊢
    rwa [fnc_dropWhile_all cs.uws f.reverse _ (by simpa using hf)] at h

/-! ### the condition on the filler -/

/-- the lines of a filler: every line but the last is not a fence; the last line shows a character
    that is neither `-` nor white space and does not end in a line feed -/
def fncLinesOK (cs : CharSpec) : List (List Char) → Bool
  | [] => false
  | l :: L => match L with
    | [] => fncSolid cs l && l.getLast? != some '\n'
    | _ :: _ => !isFence cs l && fncLinesOK cs L

/-- **The no-fence condition on a filler text** (decidable, on the filler alone): it is blank without
    line feed; or its first and its last line show a character that is neither `-` nor white space,
    it does not end in a line feed, and no line of it is a fence under `trim_end`. -/
def fncFillerOK (cs : CharSpec) (f : List Char) : Bool :=
  f.all (fun c => cs.uws c && c != '\n') ||
  (match splitInclusive f with
   | [] => false
   | l :: ls => fncSolid cs l && fncLinesOK cs (l :: ls))

theorem fnc_solid_append (cs : CharSpec) (a l b : List Char) (h : fncSolid cs l = true) :
    fncSolid cs (a ++ l ++ b) = true := by
  simp only [fncSolid] at h ⊢
  simp [List.any_append, h]

theorem fncLinesOK_one (cs : CharSpec) (l : List Char) :
    fncLinesOK cs [l] = (fncSolid cs l && l.getLast? != some '\n') := rfl
theorem fncLinesOK_two (cs : CharSpec) (l l2 : List Char) (L : List (List Char)) :
    fncLinesOK cs (l :: l2 :: L) = (!isFence cs l && fncLinesOK cs (l2 :: L)) := rfl

theorem fnc_split_prefix (a s l : List Char) (ls : List (List Char)) (ha : '\n' ∉ a)
    (h : splitInclusive s = l :: ls) : splitInclusive (a ++ s) = (a ++ l) :: ls := by
  induction a with
  | nil => simpa using h
  | cons c t ih =>
    have hc : c ≠ '\n' := fun e => ha (by simp [e])
    have ht : '\n' ∉ t := fun e => ha (by simp [e])
    simp [splitInclusive, hc, ih ht]

theorem fnc_sol (cs : CharSpec) (w : List Char) (hw : fncOneLine w) (f : List Char) :
    ∀ a : List Char, '\n' ∉ a → fncLinesOK cs (splitInclusive (a ++ f)) = true →
      fncNoF cs (splitInclusive (a ++ f ++ w)) = true := by
  induction f with
  | nil =>
    intro a ha h
    simp only [List.append_nil] at h ⊢
    by_cases h0 : a = []
    · subst h0; simp [splitInclusive, fncLinesOK] at h
    · rw [fnc_split_nonl a ha h0] at h
      simp only [fncLinesOK_one, Bool.and_eq_true] at h
      rw [fnc_split_one a w ha hw (by simp [h0])]
      have := fnc_solid_not_fence cs _ (fnc_solid_append cs [] a w h.1)
      simpa [fncNoF] using this
  | cons c t ih =>
    intro a ha h
    by_cases hc : c = '\n'
    · subst hc
      rw [fnc_split_line a t ha] at h
      have e : a ++ '\n' :: t ++ w = a ++ '\n' :: (t ++ w) := by simp
      rw [e, fnc_split_line a (t ++ w) ha]
      cases ht : splitInclusive t with
      | nil => rw [ht] at h; simp [fncLinesOK_one] at h
      | cons l ls =>
        rw [ht] at h
        simp only [fncLinesOK_two, Bool.and_eq_true, Bool.not_eq_true'] at h
        have := ih [] (by simp) (by simpa [ht] using h.2)
        simp only [List.nil_append] at this
        simp [fncNoF, h.1] at this ⊢
        exact this
    · have e1 : a ++ c :: t = (a ++ [c]) ++ t := by simp
      have e2 : a ++ c :: t ++ w = (a ++ [c]) ++ t ++ w := by simp
      rw [e1] at h
      rw [e2]
      exact ih (a ++ [c]) (by simp [ha, Ne.symm hc]) h

theorem fnc_getLast_nl (a l : List Char) (ha : '\n' ∉ a) (hl : l.getLast? ≠ some '\n') :
    (a ++ l).getLast? ≠ some '\n' := by
  rw [List.getLast?_append]
  cases h : l.getLast? with
  | some x => simpa [h] using hl
  | none =>
    simp only [Option.none_or]
    intro h2
    exact ha (List.mem_of_getLast? h2)

/-- **The lines of a line with a filler put into it**: none is a fence; or the filler is blank and the
    line was a fence before. -/
theorem fnc_filler_lines (cs : CharSpec) (a f w : List Char) (hok : fncFillerOK cs f = true) (ha : '\n' ∉ a)
    (hw : fncOneLine w) :
    fncNoF cs (splitInclusive (a ++ f ++ w)) = true ∨
      (isFence cs (a ++ w) = true ∧ f.all (fun c => cs.uws c && c != '\n') = true) := by
  simp only [fncFillerOK, Bool.or_eq_true] at hok
  rcases hok with hb | hs
  · have hfu : f.all cs.uws = true := by
      simp only [List.all_eq_true, Bool.and_eq_true] at hb ⊢
      exact fun c hc => (hb c hc).1
    have hfn : '\n' ∉ f := by
      simp only [List.all_eq_true, Bool.and_eq_true, bne_iff_ne] at hb
      exact fun hc => (hb _ hc).2 rfl
    by_cases hx : isFence cs (a ++ f ++ w) = true
    · exact Or.inr ⟨fnc_fence_ws_insert cs a f w hfu hx, hb⟩
    · left
      by_cases h0 : a ++ f ++ w = []
      · rw [h0]; rfl
      · rw [fnc_split_one (a ++ f) w (by simp [ha, hfn]) hw h0]
        simpa [fncNoF] using hx
  · left
    cases hl : splitInclusive f with
    | nil => rw [hl] at hs; cases hs
    | cons l ls =>
      rw [hl] at hs
      simp only [Bool.and_eq_true] at hs
      apply fnc_sol cs w hw f a ha
      rw [fnc_split_prefix a f l ls ha hl]
      cases ls with
      | nil =>
        simp only [fncLinesOK_one, Bool.and_eq_true, bne_iff_ne, ne_eq] at hs ⊢
        exact ⟨fnc_solid_append cs a l [] hs.1 |> (by simpa using ·), fnc_getLast_nl a l ha hs.2.2⟩
      | cons l2 ls2 =>
        simp only [fncLinesOK_two, Bool.and_eq_true, Bool.not_eq_true'] at hs ⊢
        exact ⟨fnc_solid_not_fence cs _ (by simpa using fnc_solid_append cs a l [] hs.1), hs.2.2⟩

theorem fnc_split_V (p w V : List Char) (hV : V ≠ [] → ∃ b, w = b ++ ['\n']) :
    splitInclusive ((p ++ w) ++ V) = splitInclusive (p ++ w) ++ splitInclusive V := by
  by_cases h : V = []
  · subst h; simp [splitInclusive]
  · obtain ⟨b, rfl⟩ := hV h
    exact fnc_split_whole _ V (Or.inr ⟨p ++ b, by simp⟩)

theorem fnc_blank_lines (cs : CharSpec) (s x : List Char) (hsub : ∀ c ∈ x, c ∈ s)
    (h : (splitInclusive s).all (fncBlank cs) = true) : fncBlank cs x = true := by
  rw [fnc_blank_iff]
  simp only [List.all_eq_true] at h ⊢
  intro c hc
  have hcs := hsub c hc
  rw [← blocks_splitInclusive_flatten s, List.mem_flatten] at hcs
  obtain ⟨l, hl, hcl⟩ := hcs
  have := h l hl
  rw [fnc_blank_iff, List.all_eq_true] at this
  exact this c hcl

/-- **Filler text put anywhere into a source without front matter: still no front matter**, when the
    filler satisfies the no-fence condition `fncFillerOK`. -/
theorem fnc_insert_text (cs : CharSpec) (u f v : List Char) (hok : fncFillerOK cs f = true)
    (h : parseFrontmatter cs (u ++ v) = none) : parseFrontmatter cs (u ++ f ++ v) = none := by
  rw [fnc_none_iff] at h ⊢
  obtain ⟨U, a, rfl, ha, hU⟩ := fnc_decomp u
  obtain ⟨w, V, rfl, hw, hV⟩ := fnc_first v
  have e1 : U ++ a ++ (w ++ V) = U ++ ((a ++ w) ++ V) := by simp
  have e2 : U ++ a ++ f ++ (w ++ V) = U ++ (((a ++ f) ++ w) ++ V) := by simp
  rw [e1, fnc_split_whole U _ hU, fnc_split_V a w V hV] at h
  rw [e2, fnc_split_whole U _ hU, fnc_split_V (a ++ f) w V hV]
  by_cases h0 : a ++ w = []
  · rw [h0] at h
    simp only [splitInclusive, List.nil_append] at h
    rcases fnc_filler_lines cs a f w hok ha hw with hX | ⟨hx, _⟩
    · exact fnc_insert cs _ _ _ hX h
    · rw [h0] at hx; simp [isFence, trimEnd] at hx
  · rw [fnc_split_one a w ha hw h0] at h
    simp only [List.cons_append, List.nil_append] at h
    rcases fnc_filler_lines cs a f w hok ha hw with hX | ⟨hx, hb⟩
    · refine fnc_replace cs _ _ _ (a ++ w) hX ?_ h
      intro hbl
      exact Or.inl (fnc_blank_lines cs (a ++ f ++ w) (a ++ w) (by
        intro c hc
        simp only [List.mem_append] at hc ⊢
        rcases hc with hc | hc
        · exact Or.inl (Or.inl hc)
        · exact Or.inr hc) hbl)
    · have hfn : '\n' ∉ f := by
        simp only [List.all_eq_true, Bool.and_eq_true, bne_iff_ne] at hb
        exact fun hc => (hb _ hc).2 rfl
      rw [fnc_split_one (a ++ f) w (by simp [ha, hfn]) hw (by simp at h0 ⊢; intro h1 _; exact h0 h1)]
      simp only [List.cons_append, List.nil_append]
      by_cases hx' : isFence cs (a ++ f ++ w) = true
      · rw [fnc_same_flags cs _ _ (a ++ w) (a ++ f ++ w) (by rw [hx, hx'])
          (by rw [fnc_fence_not_blank cs _ hx, fnc_fence_not_blank cs _ hx'])]
        exact h
      · have := fnc_replace cs (splitInclusive U) (splitInclusive V) [a ++ f ++ w] (a ++ w)
          (by simpa [fncNoF] using hx') (fun _ => Or.inr hx) h
        simpa using this

/-! ### the printed document -/

theorem fnc_docSpec_append (A B : List (DocItem × List Tok)) : docSpec (A ++ B) = docSpec A ++ docSpec B := by
  induction A with
  | nil => rfl
  | cons d A ih =>
    simp only [docSpec, List.cons_append, List.map_cons, docToks, List.append_assoc] at ih ⊢
    rw [ih]

theorem fnc_render_inText (pre : List Tok) (D1 D2 : List (DocItem × List Tok)) (sep : List Tok) (S1 S2 : List SegX)
    (l1 F l2 : List Tok) :
    render (pre ++ docSpec (D1 ++ (DocItem.step (S1 ++ SegX.text (l1 ++ F ++ l2) :: S2), sep) :: D2)) =
      (render pre ++ render (docSpec D1) ++ render (S1.flatMap SegX.spell) ++ render l1) ++ render F ++
      (render l2 ++ render (S2.flatMap SegX.spell) ++ render sep ++ render (docSpec D2)) := by
  have e : docSpec ((DocItem.step (S1 ++ SegX.text (l1 ++ F ++ l2) :: S2), sep) :: D2) =
      (S1.flatMap SegX.spell ++ (l1 ++ F ++ l2) ++ S2.flatMap SegX.spell) ++ sep ++ docSpec D2 := by
    simp [docSpec, docToks, DocItem.spell, SegX.spell, List.flatMap_append]
  rw [fnc_docSpec_append, e]
  simp only [render_append, List.append_assoc]

theorem fnc_render_newText (pre : List Tok) (D1 D2 : List (DocItem × List Tok)) (sep : List Tok) (S1 S2 : List SegX)
    (F : List Tok) :
    render (pre ++ docSpec (D1 ++ (DocItem.step (S1 ++ SegX.text F :: S2), sep) :: D2)) =
      (render pre ++ render (docSpec D1) ++ render (S1.flatMap SegX.spell)) ++ render F ++
      (render (S2.flatMap SegX.spell) ++ render sep ++ render (docSpec D2)) := by
  have e : docSpec ((DocItem.step (S1 ++ SegX.text F :: S2), sep) :: D2) =
      (S1.flatMap SegX.spell ++ F ++ S2.flatMap SegX.spell) ++ sep ++ docSpec D2 := by
    simp [docSpec, docToks, DocItem.spell, SegX.spell, List.flatMap_append]
  rw [fnc_docSpec_append, e]
  simp only [render_append, List.append_assoc]

theorem fnc_render_nil : render [] = [] := rfl

/-- filler in a text run of a step: the printed document stays without front matter -/
theorem fnc_doc_inText (cs : CharSpec) (pre : List Tok) (D1 D2 : List (DocItem × List Tok)) (sep : List Tok)
    (S1 S2 : List SegX) (l1 F l2 : List Tok) (hok : fncFillerOK cs (render F) = true)
    (h : parseFrontmatter cs
      (render (pre ++ docSpec (D1 ++ (DocItem.step (S1 ++ SegX.text (l1 ++ l2) :: S2), sep) :: D2))) = none) :
    parseFrontmatter cs
      (render (pre ++ docSpec (D1 ++ (DocItem.step (S1 ++ SegX.text (l1 ++ F ++ l2) :: S2), sep) :: D2))) = none := by
  rw [fnc_render_inText]
  apply fnc_insert_text cs _ _ _ hok
  have := fnc_render_inText pre D1 D2 sep S1 S2 l1 [] l2
  simp only [List.append_nil, fnc_render_nil] at this
  rw [← this]; exact h

/-- filler as a text run of its own -/
theorem fnc_doc_newText (cs : CharSpec) (pre : List Tok) (D1 D2 : List (DocItem × List Tok)) (sep : List Tok)
    (S1 S2 : List SegX) (F : List Tok) (hok : fncFillerOK cs (render F) = true)
    (h : parseFrontmatter cs (render (pre ++ docSpec (D1 ++ (DocItem.step (S1 ++ S2), sep) :: D2))) = none) :
    parseFrontmatter cs
      (render (pre ++ docSpec (D1 ++ (DocItem.step (S1 ++ SegX.text F :: S2), sep) :: D2))) = none := by
  rw [fnc_render_newText]
  apply fnc_insert_text cs _ _ _ hok
  have e : docSpec ((DocItem.step (S1 ++ S2), sep) :: D2) =
      (S1.flatMap SegX.spell ++ S2.flatMap SegX.spell) ++ sep ++ docSpec D2 := by
    simp [docSpec, docToks, DocItem.spell, List.flatMap_append]
  rw [fnc_docSpec_append, e] at h
  simpa only [render_append, List.append_assoc] using h

end Cook
