import CookModel.Lemmas.InsertWF
/-
  Wave 8 (tag `fnc`): "no front matter" survives the insertion of filler text.

  `parseFrontmatter cs s = none` is a statement about the LINES of `s` (`fncNone`): no fence, or a
  non-blank line before the first fence, or no second fence.  Replacing one line `x` by lines `X`
  none of which is a fence (and one of which is non-blank when `x` was) keeps it (`fnc_replace`);
  so does a replacement by a line with the same answers to "fence?" / "blank?".  The lines of
  `u ++ f ++ v` against those of `u ++ v` (`fnc_split_*`).
-/
namespace Cook

/-! ### the decision on the lines alone -/

def fncBlank (cs : CharSpec) (l : List Char) : Bool := (trim cs.uws l).isEmpty

/-- no line is a fence -/
def fncNoF (cs : CharSpec) (L : List (List Char)) : Bool := L.all (fun l => !isFence cs l)

/-- `parse_frontmatter` answers `None` (three states: before the first fence, behind it) -/
def fncNone (cs : CharSpec) : List (List Char) → Bool
  | [] => true
  | l :: L => if isFence cs l then fncNoF cs L else if fncBlank cs l then fncNone cs L else true

/-- the body of `parseFrontmatter` on the lines with offsets -/
def fncBody (cs : CharSpec) (ls : List (List Char × Nat)) : Option FrontMatter :=
  match ls.dropWhile (fun l => !isFence cs l.1) with
  | [] => none
  | f1 :: rest1 =>
    if !((ls.takeWhile (fun l => !isFence cs l.1)).all (fun l => (trim cs.uws l.1).isEmpty)) then none else
    match rest1.dropWhile (fun l => !isFence cs l.1) with
    | [] => none
    | f2 :: rest2 =>
      some ⟨(rest1.takeWhile (fun l => !isFence cs l.1)).flatMap (·.1), f1.2 + utf8Len f1.1,
            rest2.flatMap (·.1), f2.2 + utf8Len f2.1⟩

theorem fnc_parse_eq (cs : CharSpec) (s : List Char) :
    parseFrontmatter cs s = fncBody cs (linesWithOffset (splitInclusive s) 0) := rfl

theorem fnc_noF_iff (cs : CharSpec) (ls : List (List Char × Nat)) :
    (ls.dropWhile (fun l => !isFence cs l.1) = []) ↔ fncNoF cs (ls.map (·.1)) = true := by
  induction ls with
  | nil => simp [fncNoF]
  | cons l L ih =>
    cases hf : isFence cs l.1 <;> simp_all [fncNoF]

theorem fnc_body_none (cs : CharSpec) (ls : List (List Char × Nat)) :
    (fncBody cs ls = none) ↔ fncNone cs (ls.map (·.1)) = true := by
  induction ls with
  | nil => simp [fncBody, fncNone]
  | cons l L ih =>
    by_cases hf : isFence cs l.1 = true
    · have := fnc_noF_iff cs L
      cases hd : L.dropWhile (fun l => !isFence cs l.1) with
      | nil =>
        have h1 := this.mp hd
        simp [fncBody, fncNone, hf, hd, h1]
      | cons a r =>
        have h1 : fncNoF cs (L.map (·.1)) = false := by
          cases h : fncNoF cs (L.map (·.1)) with
          | false => rfl
          | true => rw [this.mpr h] at hd; cases hd
        simp [fncBody, fncNone, hf, hd, h1]
    · have hf' : isFence cs l.1 = false := by simpa using hf
      by_cases hb : fncBlank cs l.1 = true
      · have hb' : (trim cs.uws l.1).isEmpty = true := hb
        have e : fncNone cs ((l :: L).map (·.1)) = fncNone cs (L.map (·.1)) := by
          simp only [List.map_cons, fncNone, hf', hb, if_true, Bool.false_eq_true, if_false]
        rw [e, ← ih]
        simp only [fncBody, List.dropWhile_cons, List.takeWhile_cons, hf', Bool.not_false, if_true,
          List.all_cons, hb', Bool.true_and]
      · have hb0 : fncBlank cs l.1 = false := by simpa using hb
        have hb' : (trim cs.uws l.1).isEmpty = false := hb0
        simp only [fncBody, fncNone, List.map_cons, List.dropWhile_cons, List.takeWhile_cons, hf', Bool.not_false,
          if_true, List.all_cons, hb', hb0, Bool.false_and, Bool.not_false]
        cases L.dropWhile (fun l => !isFence cs l.1) <;> simp

theorem fnc_lines_map (L : List (List Char)) (o : Nat) : (linesWithOffset L o).map (·.1) = L := by
  induction L generalizing o with
  | nil => rfl
  | cons l L ih => simp [linesWithOffset, ih]

/-- **`parse_frontmatter` is `None` iff the lines say so.** -/
theorem fnc_none_iff (cs : CharSpec) (s : List Char) :
    parseFrontmatter cs s = none ↔ fncNone cs (splitInclusive s) = true := by
  rw [fnc_parse_eq, fnc_body_none, fnc_lines_map]

/-! ### replacing / inserting lines -/

theorem fnc_noF_none (cs : CharSpec) (L : List (List Char)) (h : fncNoF cs L = true) : fncNone cs L = true := by
  induction L with
  | nil => rfl
  | cons l L ih =>
    simp only [fncNoF, List.all_cons, Bool.and_eq_true, Bool.not_eq_true'] at h
    simp only [fncNone, h.1, Bool.false_eq_true, if_false]
    split
    · exact ih h.2
    · rfl

theorem fnc_noF_append (cs : CharSpec) (A B : List (List Char)) :
    fncNoF cs (A ++ B) = (fncNoF cs A && fncNoF cs B) := by simp [fncNoF]

/-- lines none of which is a fence in front: `None` iff one of them is not blank or the rest says `None` -/
theorem fnc_none_prepend (cs : CharSpec) (X B : List (List Char)) (hX : fncNoF cs X = true) :
    fncNone cs (X ++ B) = (!(X.all (fncBlank cs)) || fncNone cs B) := by
  induction X with
  | nil => simp
  | cons l X ih =>
    simp only [fncNoF, List.all_cons, Bool.and_eq_true, Bool.not_eq_true'] at hX
    simp only [List.cons_append, fncNone, hX.1, Bool.false_eq_true, if_false, List.all_cons]
    cases hb : fncBlank cs l
    · simp
    · simp only [if_true, Bool.true_and]
      exact ih hX.2

/-- **One line replaced by lines that are not fences**, one of them not blank if the replaced line
    was not: `None` stays. -/
theorem fnc_replace (cs : CharSpec) (A B X : List (List Char)) (x : List Char) (hX : fncNoF cs X = true)
    (hb : X.all (fncBlank cs) = true → fncBlank cs x = true ∨ isFence cs x = true)
    (h : fncNone cs (A ++ x :: B) = true) : fncNone cs (A ++ (X ++ B)) = true := by
  induction A with
  | nil =>
    simp only [List.nil_append] at h ⊢
    rw [fnc_none_prepend cs X B hX]
    simp only [fncNone] at h
    by_cases hf : isFence cs x = true
    · simp only [hf, if_true] at h
      simp [fnc_noF_none cs B h]
    · simp only [hf, if_false, Bool.false_eq_true] at h
      cases hxa : X.all (fncBlank cs)
      · simp
      · rcases hb hxa with h1 | h1
        · simp only [h1, if_true] at h
          simp [h]
        · exact absurd h1 hf
  | cons a A ih =>
    simp only [List.cons_append, fncNone] at h ⊢
    by_cases hf : isFence cs a = true
    · simp only [hf, if_true] at h ⊢
      rw [fnc_noF_append] at h
      simp only [fncNoF, List.all_cons, Bool.and_eq_true] at h
      rw [fnc_noF_append, fnc_noF_append]
      simp only [Bool.and_eq_true]
      exact ⟨h.1, hX, h.2.2⟩
    · simp only [hf, if_false, Bool.false_eq_true] at h ⊢
      split
      · rename_i hbl
        simp only [hbl, if_true] at h
        exact ih h
      · rfl

/-- **Lines that are not fences inserted**: `None` stays. -/
theorem fnc_insert (cs : CharSpec) (A B X : List (List Char)) (hX : fncNoF cs X = true)
    (h : fncNone cs (A ++ B) = true) : fncNone cs (A ++ (X ++ B)) = true := by
  induction A with
  | nil =>
    simp only [List.nil_append] at h ⊢
    rw [fnc_none_prepend cs X B hX, h]; simp
  | cons a A ih =>
    simp only [List.cons_append, fncNone] at h ⊢
    by_cases hf : isFence cs a = true
    · simp only [hf, if_true] at h ⊢
      rw [fnc_noF_append] at h
      rw [fnc_noF_append, fnc_noF_append]
      simp only [Bool.and_eq_true] at h ⊢
      exact ⟨h.1, hX, h.2⟩
    · simp only [hf, if_false, Bool.false_eq_true] at h ⊢
      split
      · rename_i hbl
        simp only [hbl, if_true] at h
        exact ih h
      · rfl

/-- **One line replaced by a line with the same answers** to "fence?" and "blank?". -/
theorem fnc_same_flags (cs : CharSpec) (A B : List (List Char)) (x x' : List Char)
    (hf : isFence cs x' = isFence cs x) (hb : fncBlank cs x' = fncBlank cs x) :
    fncNone cs (A ++ x' :: B) = fncNone cs (A ++ x :: B) := by
  induction A with
  | nil => simp only [List.nil_append, fncNone, hf, hb]
  | cons a A ih =>
    simp only [List.cons_append, fncNone, ih]
    congr 1
    simp [fncNoF, hf]

end Cook
