import CookModel.Lemmas.DiagMore
/-
  C07, placement: every label of every diagnostic `ingredient` / `cookware` push lies inside the span
  of the component.

  How: the component parsers first cut the component into pieces without pushing anything and then
  run a tail on the pieces (`Lemmas/DiagComp.lean`).
  1. The tails do not look at the token list or the cursor of the parser state (`Indep`).
  2. The pieces are slices of the tokens of the component (`compBody_slices`, `modifiersP_ev`).
  3. So the tail can be run on a state whose token list is just the component, and the span lemmas of
     `Lemmas/SpansEv.lean`, instantiated with the TEXT OF THE COMPONENT as the source text, say that
     every label is a span of that text.
-/
set_option linter.unusedSectionVars false
set_option linter.unusedSimpArgs false
set_option linter.unusedVariables false
namespace Cook

variable {α : Type} [Arith α]

/-! ### 1. independence of the token list and the cursor -/

/-- `m` neither reads nor writes the token list and the cursor -/
structure Indep {β : Type} (m : P α β) : Prop where
  out : ∀ (s : BP α) (tk : List Tok) (c : Nat),
    m { s with toks := tk, cur := c } = ((m s).1, { (m s).2 with toks := tk, cur := c })

theorem Indep.pure {β : Type} (a : β) : Indep (Pure.pure a : P α β) := ⟨fun _ _ _ => rfl⟩

theorem Indep.bind {β γ : Type} {m : P α β} {k : β → P α γ} (hm : Indep m) (hk : ∀ a, Indep (k a)) :
    Indep (m >>= k) := by
  constructor
  intro s tk c
  show k (m { s with toks := tk, cur := c }).1 (m { s with toks := tk, cur := c }).2 = _
  rw [hm.out]
  exact (hk _).out _ _ _

/-- reading the state is fine when only the character tables are used -/
theorem Indep.get_bind {γ : Type} {k : BP α → P α γ} (hk : ∀ s0, Indep (k s0))
    (hinv : ∀ (s0 : BP α) (tk : List Tok) (c : Nat), k { s0 with toks := tk, cur := c } = k s0) :
    Indep (get >>= k) := by
  constructor
  intro s tk c
  show k { s with toks := tk, cur := c } { s with toks := tk, cur := c } = _
  rw [hinv]
  exact (hk s).out s tk c

theorem Indep.pushEv (ev : Ev α) : Indep (pushEv ev) := ⟨fun _ _ _ => rfl⟩
theorem Indep.perr (k : String) (l : List Span) : Indep (perr (α := α) k l) := Indep.pushEv _
theorem Indep.pwarn (k : String) (l : List Span) : Indep (pwarn (α := α) k l) := Indep.pushEv _
theorem Indep.hasExt (f : Nat) : Indep (hasExt (α := α) f) := ⟨fun _ _ _ => rfl⟩

theorem Indep.panicWith (site : String) : Indep (panicWith (α := α) site) := by
  constructor
  intro s tk c
  rcases s with ⟨a, b, e, d, f, p⟩
  cases p <;> rfl

syntax "indep_leaf" : tactic
macro_rules | `(tactic| indep_leaf) => `(tactic| exact Indep.pure _)
macro_rules | `(tactic| indep_leaf) => `(tactic| exact Indep.perr _ _)
macro_rules | `(tactic| indep_leaf) => `(tactic| exact Indep.pwarn _ _)
macro_rules | `(tactic| indep_leaf) => `(tactic| exact Indep.pushEv _)
macro_rules | `(tactic| indep_leaf) => `(tactic| exact Indep.hasExt _)
macro_rules | `(tactic| indep_leaf) => `(tactic| exact Indep.panicWith _)
macro_rules | `(tactic| indep_leaf) => `(tactic| assumption)

macro "indep_auto" : tactic => `(tactic|
  repeat (first
    | indep_leaf
    | apply Indep.bind
    | intro _
    | dsimp only
    | split))

theorem Indep.bpText (off : Nat) (l : List Tok) : Indep (bpText (α := α) off l) := by
  unfold Cook.bpText; indep_auto
macro_rules | `(tactic| indep_leaf) => `(tactic| exact Indep.bpText _ _)

theorem Indep.tokensSpanP (site : String) (l : List Tok) : Indep (tokensSpanP (α := α) site l) := by
  unfold Cook.tokensSpanP; indep_auto
macro_rules | `(tactic| indep_leaf) => `(tactic| exact Indep.tokensSpanP _ _)

/-- `parse_quantity` installs its own token list and restores the outer one -/
theorem Indep.parseQuantity (q : List Tok) : Indep (parseQuantity (α := α) q) := by
  have hjp : Indep (α := α) (do
      let outer ← get
      set { outer with toks := q, cur := 0 }
      let adv ← (do
        if ← Cook.hasExt Gen.EXT_ADVANCED_UNITS then Cook.withRecover Cook.parseAdvancedQuantity else Pure.pure none)
      let r ← (match adv with
        | some q => Pure.pure q
        | none => Cook.parseRegularQuantity)
      modify fun s => { s with toks := outer.toks, cur := outer.cur }
      Pure.pure r) := ⟨fun s tk c => rfl⟩
  unfold Cook.parseQuantity
  dsimp only
  split
  · exact Indep.bind (Indep.panicWith _) (fun _ => hjp)
  · exact hjp
macro_rules | `(tactic| indep_leaf) => `(tactic| exact Indep.parseQuantity _)

set_option maxHeartbeats 2000000 in
theorem Indep.parseInterRef (l : List Tok) : Indep (parseInterRef (α := α) l) := by
  unfold Cook.parseInterRef; indep_auto
macro_rules | `(tactic| indep_leaf) => `(tactic| exact Indep.parseInterRef _)

theorem Indep.parseModifiersLoop (span : Span) (ie : Bool) (fuel : Nat) (l : List Tok) (m : Modifiers)
    (d : Option (Loc InterData)) : Indep (parseModifiersLoop (α := α) span ie fuel l m d) := by
  induction fuel generalizing l m d with
  | zero => unfold Cook.parseModifiersLoop; indep_auto
  | succ fuel ih =>
    cases l with
    | nil => unfold Cook.parseModifiersLoop; indep_auto
    | cons t r =>
      unfold Cook.parseModifiersLoop
      indep_auto
      all_goals first | exact ih _ _ _ | (split <;> indep_auto <;> exact ih _ _ _)
macro_rules | `(tactic| indep_leaf) => `(tactic| exact Indep.parseModifiersLoop ..)

theorem Indep.parseModifiers (l : List Tok) (pos : Nat) : Indep (parseModifiers (α := α) l pos) := by
  unfold Cook.parseModifiers; indep_auto
macro_rules | `(tactic| indep_leaf) => `(tactic| exact Indep.parseModifiers _ _)

theorem Indep.parseAlias (c : String) (l : List Tok) (o : Nat) : Indep (parseAlias (α := α) c l o) := by
  unfold Cook.parseAlias
  apply Indep.bind (Indep.hasExt _)
  intro aliasExt
  dsimp only
  split
  · indep_auto
  · apply Indep.bind (Indep.bpText _ _)
    intro aliasText
    refine Indep.get_bind (fun s0 => ?_) (fun _ _ _ => rfl)
    indep_auto
macro_rules | `(tactic| indep_leaf) => `(tactic| exact Indep.parseAlias _ _ _)

theorem Indep.checkEmptyName (c : String) (t : Text) : Indep (checkEmptyName (α := α) c t) := by
  unfold Cook.checkEmptyName
  refine Indep.get_bind (fun s0 => ?_) (fun _ _ _ => rfl)
  indep_auto
macro_rules | `(tactic| indep_leaf) => `(tactic| exact Indep.checkEmptyName _ _)

theorem Indep.ingredientTail (start stop modPos nameOffset : Nat) (mtoks : List Tok) (body : Body)
    (note : Option Text) : Indep (ingredientTail (α := α) start stop modPos nameOffset mtoks body note) := by
  unfold Cook.ingredientTail; indep_auto

theorem Indep.cookwareQty (body : Body) : Indep (cookwareQty (α := α) body) := by
  unfold Cook.cookwareQty; indep_auto
macro_rules | `(tactic| indep_leaf) => `(tactic| exact Indep.cookwareQty _)

theorem Indep.cookwareTail (start stop modPos nameOffset : Nat) (mtoks : List Tok) (body : Body)
    (note : Option Text) : Indep (cookwareTail (α := α) start stop modPos nameOffset mtoks body note) := by
  unfold Cook.cookwareTail
  apply Indep.bind (Indep.parseAlias _ _ _)
  rintro ⟨name, alias⟩
  dsimp only
  apply Indep.bind (Indep.checkEmptyName _ _)
  intro _
  apply Indep.bind (Indep.cookwareQty _)
  intro q
  apply Indep.bind (Indep.parseModifiers _ _)
  intro pm
  by_cases hc : pm.flags.val.contains Modifiers.RECIPE = true
  · simp only [hc, if_true]
    split <;> split <;> indep_auto
  · simp only [hc, if_false, Bool.false_eq_true]
    split <;> indep_auto

/-! ### 2. the pieces of a component are slices of its tokens -/

section slices
variable {ts : List Tok} {e : Ext} {s : BP α}

/-- the name tokens and the quantity tokens of a body parsed between the cursors `c` and `c'` are
    slices of the token list between `c` and `c'` -/
def BodySl (ts : List Tok) (c c' : Nat) (b : Body) : Prop :=
  ∃ j, c ≤ j ∧ j ≤ c' ∧ b.name = slice ts c j ∧
    (∀ q, b.quantity = some q → ∃ a z, j ≤ a ∧ a ≤ z ∧ z ≤ c' ∧ q = slice ts a z ∧ q ≠ []) ∧
    (∀ sp, b.close = some sp → ∃ ob cb z, j ≤ z ∧ z + 1 = c' ∧ ts[j]? = some ob ∧ ts[z]? = some cb ∧
      sp = ⟨ob.start, cb.stop⟩)

theorem compBodyLong_slices (h : G ts e s) :
    Sat (compBodyLong (α := α)) s (fun r s' => G ts e s' ∧
      match r with
      | none => s'.cur = s.cur
      | some b => s.cur < s'.cur ∧ BodySl ts s.cur s'.cur b) := by
  unfold compBodyLong
  apply withRecover_sat
  refine Sat.bind (Sat.mono (untilK_sat _ h) ?_)
  rintro r1 s1 ⟨g1, h1⟩
  cases r1 with
  | none => exact Sat.pure ⟨g1.setCur h.le, rfl⟩
  | some name =>
    obtain ⟨c1, hname, -, -⟩ := h1
    refine Sat.bind (Sat.mono (consumeK_sat _ g1) ?_)
    rintro r2 s2 ⟨g2, h2⟩
    cases r2 with
    | none => exact Sat.pure ⟨g2.setCur h.le, rfl⟩
    | some ob =>
      obtain ⟨hob, -, c2⟩ := h2
      refine Sat.bind (Sat.mono (untilK_sat _ g2) ?_)
      rintro r3 s3 ⟨g3, h3⟩
      cases r3 with
      | none => exact Sat.pure ⟨g3.setCur h.le, rfl⟩
      | some q =>
        obtain ⟨c3, hq, ⟨t, ht, hk⟩, -⟩ := h3
        refine Sat.bind (Sat.mono (bump_sat g3 ht (by simpa using hk)) ?_)
        rintro cb s4 ⟨rfl, g4, c4⟩
        refine Sat.pure ⟨g4, by omega, s1.cur, c1, by omega, hname, ?_, ?_⟩
        · intro q' hq'
          dsimp only at hq'
          split at hq'
          · rename_i hany
            simp only [Option.some.injEq] at hq'
            subst hq'
            refine ⟨s2.cur, s3.cur, by omega, c3, by omega, hq, ?_⟩
            intro h0; rw [h0] at hany; simp at hany
          · cases hq'
        · intro sp hsp
          simp only [Option.some.injEq] at hsp
          exact ⟨ob, cb, s3.cur, by omega, by omega, hob, ht, hsp.symm⟩

theorem compBodyShort_slices (h : G ts e s) :
    Sat (compBodyShort (α := α)) s (fun r s' => G ts e s' ∧
      match r with
      | none => s'.cur = s.cur
      | some b => s.cur < s'.cur ∧ BodySl ts s.cur s'.cur b) := by
  unfold compBodyShort
  apply withRecover_sat
  refine Sat.bind (Sat.mono (consumeWhile_sat _ h) ?_)
  rintro toks s1 ⟨g1, c1, htoks, -, -⟩
  split
  · refine Sat.bind (restToks_sat g1 ?_)
    refine Sat.bind (atK_sat g1 ?_)
    split
    · refine Sat.bind (currentOffset_sat g1 ?_)
      refine Sat.bind (Sat.pwarn ?_)
      intro evs
      exact Sat.pure ⟨(g1.setEvs evs).setCur h.le, rfl⟩
    · exact Sat.pure ⟨g1.setCur h.le, rfl⟩
  · rename_i hne
    refine Sat.pure ⟨g1, ?_, s1.cur, c1, Nat.le_refl _, htoks, ?_, ?_⟩
    · apply slice_ne_nil_lt (ts := ts)
      rw [← htoks]; intro h0; rw [h0] at hne; simp at hne
    · intro q hq; cases hq
    · intro sp hsp; cases hsp

theorem compBody_slices (h : G ts e s) :
    Sat (compBody (α := α)) s (fun r s' => G ts e s' ∧
      match r with
      | none => s'.cur = s.cur
      | some b => s.cur < s'.cur ∧ BodySl ts s.cur s'.cur b) := by
  unfold compBody
  refine Sat.bind (Sat.mono (compBodyLong_slices h) ?_)
  rintro r s1 ⟨g1, h1⟩
  cases r with
  | some b => exact Sat.pure ⟨g1, h1⟩
  | none =>
    dsimp only at h1
    refine Sat.mono (compBodyShort_slices g1) ?_
    rintro r s2 ⟨g2, h2⟩
    refine ⟨g2, ?_⟩
    cases r with
    | none => exact h2.trans h1
    | some b => rw [h1] at h2; exact h2

/-- a slice of the tokens of a component is a run inside the text of the component -/
theorem runIn_sub (hw : WF ts) {c0 c4 i j : Nat} (h0 : c0 ≤ i) (hij : i ≤ j) (h4 : j ≤ c4) :
    RunIn (offAt ts c0) ((slice ts c0 c4).flatMap (·.text)) (offAt ts i) (slice ts i j) := by
  have hrunC : RunIn (offAt ts c0) ((slice ts c0 c4).flatMap (·.text)) (offAt ts c0) (slice ts c0 c4) :=
    ⟨slice_runAt hw.run (by omega), Emb.self _ _⟩
  have e1 : slice ts c0 c4 = slice ts c0 i ++ (slice ts i j ++ slice ts j c4) := by
    rw [slice_append ts h0 (by omega : i ≤ c4), slice_append ts hij h4]
  have h' := hrunC
  rw [e1] at h'
  have := h'.append.2.append.1
  rw [offAt_slice h0] at this
  rw [← e1] at this
  exact this

end slices

/-! ### 3. the tails, with an invariant on the event queue -/

section tails
variable {off : Nat} {w : List Char} {Pv : Array (Ev α) → Prop} {ts : List Tok} {e : Ext} {s : BP α}

theorem ingredientTail_ge (hc : Ctx off w Pv ts) (h : GE Pv ts e s) (start stop modPos nameOffset : Nat)
    {mtoks : List Tok} {body : Body} (note : Option Text)
    (hname : RunIn off w nameOffset body.name) (hq : ∀ q, body.quantity = some q → WFI off w q)
    (hm : ModSeq (e.has Gen.EXT_INTERMEDIATE_PREPARATIONS) mtoks) {o : Nat} (hrm : RunIn off w o mtoks)
    (hpos : Boundary off w modPos) :
    Sat (ingredientTail (α := α) start stop modPos nameOffset mtoks body note) s
      (fun _ s' => GE Pv ts e s') := by
  unfold ingredientTail
  refine Sat.bind (Sat.mono (parseAlias_ev hc "ingredient" hname h) ?_)
  rintro ⟨name, alias⟩ s5 ⟨g5, c5, hnm, hal⟩
  dsimp only at hnm hal ⊢
  refine Sat.bind (Sat.mono (checkEmptyName_ev hc "ingredient" name hnm g5) ?_)
  rintro _ s6 ⟨g6, c6⟩
  refine Sat.bind (Sat.mono (parseModifiers_ev hc mtoks _ g6 hm hrm hpos) ?_)
  rintro pm s7 ⟨g7, c7, -, hfsp, hint⟩
  apply Sat.bind
  apply Sat.mono (Q := fun _ s' => GE Pv ts e s')
  · split
    · rename_i qt hqt
      refine Sat.bind (Sat.mono (parseQuantity_ev hc (hq qt hqt) g7) ?_)
      rintro q s8 ⟨g8, c8, hqr⟩
      exact Sat.pure g8
    · exact Sat.pure g7
  rintro quantity s8 g8
  exact Sat.pure g8

theorem cookwareTail_ge (hc : Ctx off w Pv ts) (h : GE Pv ts e s) (start stop modPos nameOffset : Nat)
    {mtoks : List Tok} {body : Body} (note : Option Text)
    (hname : RunIn off w nameOffset body.name) (hq : ∀ q, body.quantity = some q → WFI off w q)
    (hm : ModSeq (e.has Gen.EXT_INTERMEDIATE_PREPARATIONS) mtoks) {o : Nat} (hrm : RunIn off w o mtoks)
    (hpos : Boundary off w modPos) :
    Sat (cookwareTail (α := α) start stop modPos nameOffset mtoks body note) s
      (fun _ s' => GE Pv ts e s') := by
  unfold cookwareTail cookwareQty
  refine Sat.bind (Sat.mono (parseAlias_ev hc "cookware" hname h) ?_)
  rintro ⟨name, alias⟩ s5 ⟨g5, c5, hnm, hal⟩
  dsimp only at hnm hal ⊢
  refine Sat.bind (Sat.mono (checkEmptyName_ev hc "cookware" name hnm g5) ?_)
  rintro _ s6 ⟨g6, c6⟩
  apply Sat.bind
  apply Sat.mono (Q := fun _ s' => GE Pv ts e s')
  · split
    · rename_i qt hqt
      refine Sat.bind (Sat.mono (parseQuantity_ev hc (hq qt hqt) g6) ?_)
      rintro q s7 ⟨g7, c7, hqr⟩
      split
      · rename_i unit hunit
        have hut : TextOK off w unit := by
          have := hqr.1.2.2
          rw [hunit] at this; exact this
        refine Sat.bind (Sat.perrE ?_)
        refine Sat.pure (g7.err hc (one_label ?_))
        split
        · rename_i sep hsep
          have hs : SpanOK off w sep := by
            have := hqr.2.1
            rw [hsep] at this; exact this
          exact ⟨hs.1, hut.1.2.1, hqr.2.2 sep unit hsep hunit⟩
        · exact hut.1
      · exact Sat.pure g7
    · exact Sat.pure g6
  rintro quantity s7 g7
  refine Sat.bind (Sat.mono (parseModifiers_ev hc mtoks _ g7 hm hrm hpos) ?_)
  rintro pm s8 ⟨g8, c8, hrec, hfsp, hint⟩
  have hrcp : ∀ s9 : BP α, GE Pv ts e s9 →
      Sat (do
        if pm.flags.val.contains Modifiers.RECIPE then
          match mtoks.find? (fun t => t.kind == .at) with
          | some t => perr "cookware-recipe-modifier" [⟨t.start, t.stop⟩]
          | none => panicWith "no recipe token in modifiers with recipe"
        return some (Ev.cookware ⟨⟨pm.flags, name, alias, quantity, note⟩, ⟨start, stop⟩⟩) : P α (Option (Ev α))) s9
        (fun _ s' => GE Pv ts e s') := by
    intro s9 g9
    by_cases hcc : pm.flags.val.contains Modifiers.RECIPE = true
    · simp only [hcc, if_true]
      obtain ⟨t, htm, htk⟩ := hrec hcc
      split
      · rename_i t' hfind
        refine Sat.bind (Sat.perrE ?_)
        exact Sat.pure (g9.err hc (one_label (hrm.tok (List.mem_of_find?_eq_some hfind))))
      · rename_i hnone
        exfalso
        rw [List.find?_eq_none] at hnone
        exact hnone t htm (by simp [htk])
    · simp only [hcc, if_false, Bool.false_eq_true]
      exact Sat.bind (Sat.pure (Sat.pure g9))
  cases hd : pm.inter with
  | some d =>
    simp only [hd]
    refine Sat.bind (Sat.perrE ?_)
    refine hrcp _ (g8.err hc (one_label ?_))
    have := hint
    rw [hd] at this; exact this
  | none =>
    simp only [hd]
    exact Sat.bind (Sat.pure (hrcp _ g8))

end tails

/-! ### 4. every label inside the component -/

/-- the event is a diagnostic whose labels all satisfy `p` -/
def DiagEv (p : Span → Prop) : Ev α → Prop
  | .error d => ∀ l ∈ d.labels, p l
  | .warning d => ∀ l ∈ d.labels, p l
  | _ => False

/-- `l` is a well-formed span inside `sp` -/
def Span.Inside (sp l : Span) : Prop := sp.start ≤ l.start ∧ l.start ≤ l.stop ∧ l.stop ≤ sp.stop

/-- the queue is `base` followed by diagnostics whose labels are spans of the text `w` -/
def TailInv (off : Nat) (w : List Char) (base : List (Ev α)) (evs : Array (Ev α)) : Prop :=
  ∃ l, evs.toList = base ++ l ∧ ∀ x ∈ l, DiagEv (SpanOK off w) x

theorem tailCtx {off : Nat} {w : List Char} {ts : List Tok} (hw : WFI off w ts) (base : List (Ev α)) :
    Ctx off w (TailInv (α := α) off w base) ts := by
  refine ⟨hw, ?_⟩
  rintro evs d ⟨l, hl, hall⟩ hd
  constructor
  · refine ⟨l ++ [.error d], by simp [hl], ?_⟩
    intro x hx
    simp only [List.mem_append, List.mem_singleton] at hx
    rcases hx with hx | rfl
    · exact hall x hx
    · exact hd
  · refine ⟨l ++ [.warning d], by simp [hl], ?_⟩
    intro x hx
    simp only [List.mem_append, List.mem_singleton] at hx
    rcases hx with hx | rfl
    · exact hall x hx
    · exact hd

theorem spanOK_inside {ts : List Tok} (hw : WF ts) {c0 c4 : Nat} (h04 : c0 ≤ c4) {l : Span}
    (h : SpanOK (offAt ts c0) ((slice ts c0 c4).flatMap (·.text)) l) :
    Span.Inside ⟨offAt ts c0, offAt ts c4⟩ l := by
  have hr : RunAt (offAt ts c0) (slice ts c0 c4) := slice_runAt hw.run h04
  have e1 := chain_lastStop hr.1
  rw [offAt_slice h04] at e1
  refine ⟨h.1.ge, h.2.2, ?_⟩
  have := h.2.1.le_end
  show l.stop ≤ offAt ts c4
  omega

/-- the common part: from the cut of a component to the data the tail lemmas need, on a state `s4`
    (same token list, cursor at or after the end of the body) restricted to the tokens of the component -/
theorem cut_restrict' {ts : List Tok} {e : Ext} {k : TK} {s s1 s2 s3 s4 : BP α} {mtoks : List Tok} {body : Body}
    (hw : WF ts) (h : G ts e s) (hc : Cut k s mtoks body s1 s2 s3) (g4 : G ts e s4) (c4 : s3.cur ≤ s4.cur) :
    s.cur < s4.cur ∧ curOff s = offAt ts s.cur ∧ curOff s4 = offAt ts s4.cur ∧ G ts e s3 ∧
    ∃ (comp : List Tok) (w : List Char), comp = slice ts s.cur s4.cur ∧ w = comp.flatMap (·.text) ∧
      WFI (offAt ts s.cur) w comp ∧
      GE (TailInv (offAt ts s.cur) w s4.evs.toList) comp e { s4 with toks := comp, cur := comp.length } ∧
      RunIn (offAt ts s.cur) w (curOff s2) body.name ∧
      (∀ q, body.quantity = some q → WFI (offAt ts s.cur) w q) ∧
      ModSeq (e.has Gen.EXT_INTERMEDIATE_PREPARATIONS) mtoks ∧
      RunIn (offAt ts s.cur) w (curOff s1) mtoks ∧
      Boundary (offAt ts s.cur) w (curOff s1) ∧
      (∀ sp, body.close = some sp → SpanOK (offAt ts s.cur) w sp ∧ curOff s2 ≤ sp.stop) := by
  obtain ⟨⟨t, h1⟩, h2, h3⟩ := hc
  have ge0 : GE (fun _ => True) ts e s := ⟨h, trivial⟩
  have a1 := Sat.of_run (consumeK_ge k ge0) h1
  obtain ⟨g1, ht, -, c1⟩ := a1
  have a2 := Sat.of_run (modifiersP_ev g1) h2
  obtain ⟨g2, c2, hm, hmt⟩ := a2
  have a3 := Sat.of_run (compBody_slices g2.g) h3
  obtain ⟨g3, c3, j, hj1, hj2, hname, hqty, hclose⟩ := a3
  have hlt : s.cur < s4.cur := by omega
  have e0 : curOff s = offAt ts s.cur := by unfold curOff; rw [h.toks]
  have e1 : curOff s1 = offAt ts s1.cur := by unfold curOff; rw [g1.g.toks]
  have e2 : curOff s2 = offAt ts s2.cur := by unfold curOff; rw [g2.g.toks]
  have e4 : curOff s4 = offAt ts s4.cur := by unfold curOff; rw [g4.toks]
  have hne : slice ts s.cur s4.cur ≠ [] := by
    intro h0
    have := slice_length ts s.cur s4.cur
    rw [h0] at this
    have := g4.le
    simp only [List.length_nil] at *
    omega
  have hrunC : RunIn (offAt ts s.cur) ((slice ts s.cur s4.cur).flatMap (·.text)) (offAt ts s.cur)
      (slice ts s.cur s4.cur) := by
    have := runIn_sub hw (c0 := s.cur) (c4 := s4.cur) (i := s.cur) (j := s4.cur) (Nat.le_refl _) (by omega)
      (Nat.le_refl _)
    exact this
  refine ⟨hlt, e0, e4, g3, _, _, rfl, rfl, hrunC.wfi hne, ?_, ?_, ?_, hm, ?_, ?_, ?_⟩
  · exact ⟨⟨rfl, g4.ext, g4.panic, Nat.le_refl _⟩, ⟨[], by simp, by simp⟩⟩
  · rw [e2, hname]
    exact runIn_sub hw (by omega) hj1 (by omega)
  · intro q hq
    obtain ⟨a, z, ha, haz, hz, rfl, hqne⟩ := hqty q hq
    exact (runIn_sub hw (by omega) haz (by omega)).wfi hqne
  · rw [e1, hmt]
    exact runIn_sub hw (by omega) c2 (by omega)
  · rw [e1]
    exact (runIn_sub hw (c0 := s.cur) (c4 := s4.cur) (i := s1.cur) (j := s1.cur) (by omega) (Nat.le_refl _)
      (by omega)).start
  · intro sp hsp
    obtain ⟨ob, cb, z, hjz, hz, hob, hcb, rfl⟩ := hclose sp hsp
    have hwfi : WFI (baseOff ts) (ts.flatMap (·.text)) ts := ⟨hw.ne, ⟨hw.run, Emb.self _ _⟩⟩
    have eo : ob.start = offAt ts j := (hwfi.tokAt hob).1
    have ec : cb.stop = offAt ts s3.cur := by rw [(hwfi.tokAt hcb).2, hz]
    have hsub := runIn_sub hw (c0 := s.cur) (c4 := s4.cur) (i := j) (j := s3.cur) (by omega) hj2 c4
    have hsp' := hsub.spanOK
    rw [offAt_slice hj2] at hsp'
    have hmono : offAt ts s2.cur ≤ offAt ts s3.cur := hwfi.offAt_mono (Nat.le_of_lt c3)
    refine ⟨?_, ?_⟩
    · show SpanOK _ _ ⟨ob.start, cb.stop⟩
      rw [eo, ec]; exact hsp'
    · show curOff s2 ≤ cb.stop
      rw [e2, ec]; exact hmono

theorem cut_restrict {ts : List Tok} {e : Ext} {k : TK} {s s1 s2 s3 s4 : BP α} {mtoks : List Tok} {body : Body}
    {note : Option Text} (hw : WF ts) (h : G ts e s) (hc : Cut k s mtoks body s1 s2 s3)
    (hn : noteP s3 = (note, s4)) :
    s.cur < s4.cur ∧ curOff s = offAt ts s.cur ∧ curOff s4 = offAt ts s4.cur ∧
    ∃ (comp : List Tok) (w : List Char), comp = slice ts s.cur s4.cur ∧ w = comp.flatMap (·.text) ∧
      WFI (offAt ts s.cur) w comp ∧
      GE (TailInv (offAt ts s.cur) w s4.evs.toList) comp e { s4 with toks := comp, cur := comp.length } ∧
      RunIn (offAt ts s.cur) w (curOff s2) body.name ∧
      (∀ q, body.quantity = some q → WFI (offAt ts s.cur) w q) ∧
      ModSeq (e.has Gen.EXT_INTERMEDIATE_PREPARATIONS) mtoks ∧
      RunIn (offAt ts s.cur) w (curOff s1) mtoks ∧
      Boundary (offAt ts s.cur) w (curOff s1) := by
  have hc' := hc
  obtain ⟨⟨t, h1⟩, h2, h3⟩ := hc'
  have ge0 : GE (fun _ => True) ts e s := ⟨h, trivial⟩
  obtain ⟨g1, -, -, -⟩ := Sat.of_run (consumeK_ge k ge0) h1
  obtain ⟨g2, -, -, -⟩ := Sat.of_run (modifiersP_ev g1) h2
  obtain ⟨g3, -⟩ := Sat.of_run (compBody_slices g2.g) h3
  obtain ⟨g4, c4⟩ := Sat.of_run (noteP_sat hw g3) hn
  obtain ⟨a1, a2, a3, -, comp, w, b1, b2, b3, b4, b5, b6, b7, b8, b9, -⟩ := cut_restrict' hw h hc g4 c4
  exact ⟨a1, a2, a3, comp, w, b1, b2, b3, b4, b5, b6, b7, b8, b9⟩

theorem DiagEv.mono {p q : Span → Prop} (hpq : ∀ l, p l → q l) {x : Ev α} (h : DiagEv p x) : DiagEv q x := by
  cases x <;> first | exact fun l hl => hpq l (h l hl) | exact h

/-- **every label of every diagnostic `ingredient` pushes lies inside the ingredient's span** -/
theorem ingredientP_labels_inside {ts : List Tok} {e : Ext} {s s' : BP α} {i : Loc (PIngredient α)}
    (hw : WF ts) (h : G ts e s) (hrun : ingredientP s = (some (.ingredient i), s')) :
    i.span.start = offAt ts s.cur ∧
    ∃ l, s'.evs.toList = s.evs.toList ++ l ∧ ∀ x ∈ l, DiagEv (Span.Inside i.span) x := by
  obtain ⟨mtoks, body, note, s1, s2, s3, s4, hc, hn⟩ := ingredientP_some_cut hrun
  have q4 : Same s s4 := hc.same.trans (noteP_same hn)
  obtain ⟨hlt, e0, e4, comp, w, hcomp, hwd, hwfi, ge4, hname, hq, hm, hrm, hpos⟩ := cut_restrict hw h hc hn
  have hcut := ingredientP_cut hc hn
  have hctx := tailCtx (α := α) hwfi s4.evs.toList
  have ht := ingredientTail_ge hctx ge4 (curOff s) (curOff s4) (curOff s1) (curOff s2) note hname hq hm hrm hpos
  unfold Sat at ht
  rw [(Indep.ingredientTail ..).out s4 comp comp.length, ← hcut, hrun] at ht
  have hsp := ingredientTail_empty_name (α := α) (curOff s) (curOff s4) (curOff s1) (curOff s2) mtoks body note s4
  unfold Sat at hsp
  rw [← hcut, hrun] at hsp
  have hspan := (hsp i rfl).1
  rw [e0, e4] at hspan
  obtain ⟨l, hl, hall⟩ := ht.evs
  refine ⟨by rw [hspan], l, ?_, ?_⟩
  · rw [← q4.2.2]; exact hl
  · intro x hx
    refine (hall x hx).mono ?_
    intro sp hsp'
    rw [hspan]
    subst hwd hcomp
    exact spanOK_inside hw (Nat.le_of_lt hlt) hsp'

/-- **every label of every diagnostic `cookware` pushes lies inside the item's span** -/
theorem cookwareP_labels_inside {ts : List Tok} {e : Ext} {s s' : BP α} {c : Loc (PCookware α)}
    (hw : WF ts) (h : G ts e s) (hrun : cookwareP s = (some (.cookware c), s')) :
    c.span.start = offAt ts s.cur ∧
    ∃ l, s'.evs.toList = s.evs.toList ++ l ∧ ∀ x ∈ l, DiagEv (Span.Inside c.span) x := by
  obtain ⟨mtoks, body, note, s1, s2, s3, s4, hc, hn⟩ := cookwareP_some_cut hrun
  have q4 : Same s s4 := hc.same.trans (noteP_same hn)
  obtain ⟨hlt, e0, e4, comp, w, hcomp, hwd, hwfi, ge4, hname, hq, hm, hrm, hpos⟩ := cut_restrict hw h hc hn
  have hcut := cookwareP_cut hc hn
  have hctx := tailCtx (α := α) hwfi s4.evs.toList
  have ht := cookwareTail_ge hctx ge4 (curOff s) (curOff s4) (curOff s1) (curOff s2) note hname hq hm hrm hpos
  unfold Sat at ht
  rw [(Indep.cookwareTail ..).out s4 comp comp.length, ← hcut, hrun] at ht
  have hsp := cookwareTail_empty_name (α := α) (curOff s) (curOff s4) (curOff s1) (curOff s2) mtoks body note s4
  unfold Sat at hsp
  rw [← hcut, hrun] at hsp
  have hspan := (hsp c rfl).1
  rw [e0, e4] at hspan
  obtain ⟨l, hl, hall⟩ := ht.evs
  refine ⟨by rw [hspan], l, ?_, ?_⟩
  · rw [← q4.2.2]; exact hl
  · intro x hx
    refine (hall x hx).mono ?_
    intro sp hsp'
    rw [hspan]
    subst hwd hcomp
    exact spanOK_inside hw (Nat.le_of_lt hlt) hsp'

end Cook
