import CookModel.Lemmas.DiagMore
/-
  C07, placement: every label of every diagnostic `ingredient` / `cookware` push lies inside the span
  of the component.

  How: the component parsers first cut the component into pieces without pushing anything and then
  run a tail on the pieces (`Lemmas/DiagComp.lean`).
  1. The tails do not look at the token list or the cursor of the parser state (`Indep`).
  2. The pieces are slices of the tokens of the component (`compBody_slices`, `modifiersP_ev`).
  3. So the tail can be run on a state whose token list is just the component, and the span lemmas of
     `Lemmas/SpansEv.lean`, instantiated with the TEXT OF THE COMPONENT as the source text, say that
     every label is a span of that text.
-/
set_option linter.unusedSectionVars false
set_option linter.unusedSimpArgs false
set_option linter.unusedVariables false
namespace Cook

variable {α : Type} [Arith α]

/-! ### 1. independence of the token list and the cursor -/

/-- `m` neither reads nor writes the token list and the cursor -/
structure Indep {β : Type} (m : P α β) : Prop where
  out : ∀ (s : BP α) (tk : List Tok) (c : Nat),
    m { s with toks := tk, cur := c } = ((m s).1, { (m s).2 with toks := tk, cur := c })

theorem Indep.pure {β : Type} (a : β) : Indep (Pure.pure a : P α β) := ⟨fun _ _ _ => rfl⟩

theorem Indep.bind {β γ : Type} {m : P α β} {k : β → P α γ} (hm : Indep m) (hk : ∀ a, Indep (k a)) :
    Indep (m >>= k) := by
  constructor
  intro s tk c
  show k (m { s with toks := tk, cur := c }).1 (m { s with toks := tk, cur := c }).2 = _
  rw [hm.out]
  exact (hk _).out _ _ _

/-- reading the state is fine when only the character tables are used -/
theorem Indep.get_bind {γ : Type} {k : BP α → P α γ} (hk : ∀ s0, Indep (k s0))
    (hinv : ∀ (s0 : BP α) (tk : List Tok) (c : Nat), k { s0 with toks := tk, cur := c } = k s0) :
    Indep (get >>= k) := by
  constructor
  intro s tk c
  show k { s with toks := tk, cur := c } { s with toks := tk, cur := c } = _
  rw [hinv]
  exact (hk s).out s tk c

theorem Indep.pushEv (ev : Ev α) : Indep (pushEv ev) := ⟨fun _ _ _ => rfl⟩
theorem Indep.perr (k : String) (l : List Span) : Indep (perr (α := α) k l) := Indep.pushEv _
theorem Indep.pwarn (k : String) (l : List Span) : Indep (pwarn (α := α) k l) := Indep.pushEv _
theorem Indep.hasExt (f : Nat) : Indep (hasExt (α := α) f) := ⟨fun _ _ _ => rfl⟩

theorem Indep.panicWith (site : String) : Indep (panicWith (α := α) site) := by
  constructor
  intro s tk c
  rcases s with ⟨a, b, e, d, f, p⟩
  cases p <;> rfl

syntax "indep_leaf" : tactic
macro_rules | `(tactic| indep_leaf) => `(tactic| exact Indep.pure _)
macro_rules | `(tactic| indep_leaf) => `(tactic| exact Indep.perr _ _)
macro_rules | `(tactic| indep_leaf) => `(tactic| exact Indep.pwarn _ _)
macro_rules | `(tactic| indep_leaf) => `(tactic| exact Indep.pushEv _)
macro_rules | `(tactic| indep_leaf) => `(tactic| exact Indep.hasExt _)
macro_rules | `(tactic| indep_leaf) => `(tactic| exact Indep.panicWith _)
macro_rules | `(tactic| indep_leaf) => `(tactic| assumption)

macro "indep_auto" : tactic => `(tactic|
  repeat (first
    | indep_leaf
    | apply Indep.bind
    | intro _
    | dsimp only
    | split))

theorem Indep.bpText (off : Nat) (l : List Tok) : Indep (bpText (α := α) off l) := by
  unfold Cook.bpText; indep_auto
macro_rules | `(tactic| indep_leaf) => `(tactic| exact Indep.bpText _ _)

theorem Indep.tokensSpanP (site : String) (l : List Tok) : Indep (tokensSpanP (α := α) site l) := by
  unfold Cook.tokensSpanP; indep_auto
macro_rules | `(tactic| indep_leaf) => `(tactic| exact Indep.tokensSpanP _ _)

/-- `parse_quantity` installs its own token list and restores the outer one -/
theorem Indep.parseQuantity (q : List Tok) : Indep (parseQuantity (α := α) q) := by
  have hjp : Indep (α := α) (do
      let outer ← get
      set { outer with toks := q, cur := 0 }
      let adv ← (do
        if ← Cook.hasExt Gen.EXT_ADVANCED_UNITS then Cook.withRecover Cook.parseAdvancedQuantity else Pure.pure none)
      let r ← (match adv with
        | some q => Pure.pure q
        | none => Cook.parseRegularQuantity)
      modify fun s => { s with toks := outer.toks, cur := outer.cur }
      Pure.pure r) := ⟨fun s tk c => rfl⟩
  unfold Cook.parseQuantity
  dsimp only
  split
  · exact Indep.bind (Indep.panicWith _) (fun _ => hjp)
  · exact hjp
macro_rules | `(tactic| indep_leaf) => `(tactic| exact Indep.parseQuantity _)

set_option maxHeartbeats 2000000 in
theorem Indep.parseInterRef (l : List Tok) : Indep (parseInterRef (α := α) l) := by
  unfold Cook.parseInterRef; indep_auto
macro_rules | `(tactic| indep_leaf) => `(tactic| exact Indep.parseInterRef _)

theorem Indep.parseModifiersLoop (span : Span) (ie : Bool) (fuel : Nat) (l : List Tok) (m : Modifiers)
    (d : Option (Loc InterData)) : Indep (parseModifiersLoop (α := α) span ie fuel l m d) := by
  induction fuel generalizing l m d with
  | zero => unfold Cook.parseModifiersLoop; indep_auto
  | succ fuel ih =>
    cases l with
    | nil => unfold Cook.parseModifiersLoop; indep_auto
    | cons t r =>
      unfold Cook.parseModifiersLoop
      indep_auto
      all_goals first | exact ih _ _ _ | (split <;> indep_auto <;> exact ih _ _ _)
macro_rules | `(tactic| indep_leaf) => `(tactic| exact Indep.parseModifiersLoop ..)

theorem Indep.parseModifiers (l : List Tok) (pos : Nat) : Indep (parseModifiers (α := α) l pos) := by
  unfold Cook.parseModifiers; indep_auto
macro_rules | `(tactic| indep_leaf) => `(tactic| exact Indep.parseModifiers _ _)

theorem Indep.parseAlias (c : String) (l : List Tok) (o : Nat) : Indep (parseAlias (α := α) c l o) := by
  unfold Cook.parseAlias
  apply Indep.bind (Indep.hasExt _)
  intro aliasExt
  dsimp only
  split
  · indep_auto
  · apply Indep.bind (Indep.bpText _ _)
    intro aliasText
    refine Indep.get_bind (fun s0 => ?_) (fun _ _ _ => rfl)
    indep_auto
macro_rules | `(tactic| indep_leaf) => `(tactic| exact Indep.parseAlias _ _ _)

theorem Indep.checkEmptyName (c : String) (t : Text) : Indep (checkEmptyName (α := α) c t) := by
  unfold Cook.checkEmptyName
  refine Indep.get_bind (fun s0 => ?_) (fun _ _ _ => rfl)
  indep_auto
macro_rules | `(tactic| indep_leaf) => `(tactic| exact Indep.checkEmptyName _ _)

theorem Indep.ingredientTail (start stop modPos nameOffset : Nat) (mtoks : List Tok) (body : Body)
    (note : Option Text) : Indep (ingredientTail (α := α) start stop modPos nameOffset mtoks body note) := by
  unfold Cook.ingredientTail; indep_auto

theorem Indep.cookwareQty (body : Body) : Indep (cookwareQty (α := α) body) := by
  unfold Cook.cookwareQty; indep_auto
macro_rules | `(tactic| indep_leaf) => `(tactic| exact Indep.cookwareQty _)

theorem Indep.cookwareTail (start stop modPos nameOffset : Nat) (mtoks : List Tok) (body : Body)
    (note : Option Text) : Indep (cookwareTail (α := α) start stop modPos nameOffset mtoks body note) := by
  unfold Cook.cookwareTail
  apply Indep.bind (Indep.parseAlias _ _ _)
  rintro ⟨name, alias⟩
  dsimp only
  apply Indep.bind (Indep.checkEmptyName _ _)
  intro _
  apply Indep.bind (Indep.cookwareQty _)
  intro q
  apply Indep.bind (Indep.parseModifiers _ _)
  intro pm
  by_cases hc : pm.flags.val.contains Modifiers.RECIPE = true
  · simp only [hc, if_true]
    split <;> split <;> indep_auto
  · simp only [hc, if_false, Bool.false_eq_true]
    split <;> indep_auto

end Cook
